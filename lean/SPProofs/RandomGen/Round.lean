/-
  The candidates of a round and the valid rounds correspond one to one (C05):
  `generateTrialValues` restricted to `InRange` is total, injective and onto `ValidRound`.
-/
import SPProofs.RandomGen.Spec

namespace SPModel.RandomGen
open SPModel Comb

/-- the bounds on the source components (the middle part of `InRange`) -/
def SrcOK (d : EnumData) (n : Nat) (w src : List Nat) : Prop :=
  if perInstance d n then
    src.length = d.q ∧ ∀ p, p < d.q → src.getD p 0 < (shapes d).getD p 0
  else
    src.length = n ∧ ∀ i, i < n → src.getD i 0 < (shapes d).getD (w.getD i 0) 0

theorem inRange_iff {d : EnumData} {n : Nat} {c : Components} :
    InRange d n c ↔ c.perm < crossingsShape d n ∧
      (∃ w, permutationIndices d n c.perm = .ok w ∧ SrcOK d n w c.src) ∧
      c.ind.length = d.indLevels.length ∧
      ∀ j, j < d.indLevels.length → c.ind.getD j 0 < (d.indLevels.getD j 0) ^ n := Iff.rfl

theorem SrcOK.at {d : EnumData} {n : Nat} {w src : List Nat} (hw : PermOK d n w) (h : SrcOK d n w src)
    {k : Nat} (hk : k < n) :
    srcIdx d n k (w.getD k 0) < src.length ∧
      src.getD (srcIdx d n k (w.getD k 0)) 0 < (shapes d).getD (w.getD k 0) 0 := by
  unfold SrcOK at h
  unfold srcIdx
  split at h
  · rename_i hp
    simp only [hp, if_true]
    have := hw.getD_lt hk
    exact ⟨by omega, h.2 _ this⟩
  · rename_i hp
    simp only [hp]
    exact ⟨by simp; omega, h.2 _ hk⟩

theorem sourceFor_at {d : EnumData} {n : Nat} {w src : List Nat} (hwf : WF d n) (hw : PermOK d n w)
    (h : SrcOK d n w src) {k : Nat} (hk : k < n) :
    ∃ vs, d.valid[w.getD k 0]? = some vs ∧ vs.Nodup ∧ src.getD (srcIdx d n k (w.getD k 0)) 0 < vs.length ∧
      sourceFor d n src k (w.getD k 0) = .ok (vs.getD (src.getD (srcIdx d n k (w.getD k 0)) 0) 0) := by
  obtain ⟨vs, hv, hnd, hsh⟩ := valid_get hwf (hw.getD_lt hk)
  obtain ⟨h1, h2⟩ := h.at hw hk
  rw [hsh] at h2
  exact ⟨vs, hv, hnd, h2, sourceFor_ok_iff.mpr ⟨_, vs, getElem?_of_lt h1, hv, getElem?_of_lt h2⟩⟩

theorem round_sound' {d : EnumData} {n : Nat} (hwf : WF d n) {c : Components} (hc : InRange d n c) :
    ∃ tvs, generateTrialValues d c n = .ok tvs ∧ ValidRound d n tvs := by
  obtain ⟨hp, ⟨w, hpw, hsrc⟩, hil, hib⟩ := inRange_iff.mp hc
  obtain ⟨w', hpw', hw⟩ := perm_range hwf hp
  rw [hpw] at hpw'; cases hpw'
  have hwl := hw.word.1
  obtain ⟨srcs, hsrcs⟩ := mapIdxM_exists 0 (sourceFor d n c.src) w 0 (fun k hk => by
    obtain ⟨vs, -, -, -, h⟩ := sourceFor_at hwf hw hsrc (k := k) (by omega)
    rw [Nat.zero_add]; exact ⟨_, h⟩)
  obtain ⟨combos, hcombos⟩ := mapIdxM_exists [] (comboFor n c.ind) d.indLevels 0 (fun j hj => by
    obtain ⟨cb, hcb, -⟩ := jthCombination_range0 n (d.indLevels.getD j 0) (c.ind.getD j 0) (hib j hj)
    rw [Nat.zero_add]; exact ⟨cb, comboFor_ok_iff.mpr ⟨hcb, by omega⟩⟩)
  refine ⟨_, generate_ok_iff.mpr ⟨w, srcs, combos, hpw, hsrcs, hcombos, rfl⟩, ?_⟩
  obtain ⟨hsl, hsk⟩ := (mapIdxM_ok_iff 0 _ _ _ _).mp hsrcs
  obtain ⟨hcl, hck⟩ := (mapIdxM_ok_iff [] _ _ _ _).mp hcombos
  refine ⟨assemble_length .., ?_, ?_, ?_⟩
  · rw [assemble_inst _ _ hwl]; exact hw
  · intro tv htv
    obtain ⟨t, ht, rfl⟩ := mem_assemble htv
    obtain ⟨vs, hv, -, hlt, hs⟩ := sourceFor_at hwf hw hsrc ht
    have := hsk t (by omega)
    rw [Nat.zero_add, hs] at this
    refine ⟨vs, hv, ?_⟩
    simp only
    rw [← Except.ok.inj this]; exact getD_mem hlt
  · intro tv htv
    obtain ⟨t, ht, rfl⟩ := mem_assemble htv
    refine ⟨by simp [hcl], fun j hj => ?_⟩
    have := hck j hj
    rw [Nat.zero_add, comboFor_ok_iff] at this
    obtain ⟨cb, hcb, hword⟩ := jthCombination_range0 n _ _ (hib j hj)
    rw [hcb] at this
    have hcbe := Except.ok.inj this.1
    have hj' : j < combos.length := by omega
    have : (combos.map (fun cb => cb.getD t 0)).getD j 0 = (combos.getD j []).getD t 0 := by
      simp [List.getD_eq_getElem?_getD, hj']
    simp only
    rw [this, ← hcbe]
    exact hword.2 _ (getD_mem (by rw [hword.1]; exact ht))

theorem round_inj' {d : EnumData} {n : Nat} (hwf : WF d n) {c₁ c₂ : Components}
    (h₁ : InRange d n c₁) (h₂ : InRange d n c₂)
    (h : generateTrialValues d c₁ n = generateTrialValues d c₂ n) : c₁ = c₂ := by
  obtain ⟨tvs, ht, -⟩ := round_sound' hwf h₁
  have ht₂ := h ▸ ht
  obtain ⟨w₁, s₁, cb₁, hp₁, hs₁, hc₁, e₁⟩ := generate_ok_iff.mp ht
  obtain ⟨w₂, s₂, cb₂, hp₂, hs₂, hc₂, e₂⟩ := generate_ok_iff.mp ht₂
  obtain ⟨hr₁, ⟨w₁', hpw₁, hsrc₁⟩, hil₁, hib₁⟩ := inRange_iff.mp h₁
  obtain ⟨hr₂, ⟨w₂', hpw₂, hsrc₂⟩, hil₂, hib₂⟩ := inRange_iff.mp h₂
  rw [hp₁] at hpw₁; cases hpw₁
  rw [hp₂] at hpw₂; cases hpw₂
  obtain ⟨w', hpw', hw₁⟩ := perm_range hwf hr₁
  rw [hp₁] at hpw'; cases hpw'
  obtain ⟨w', hpw', hw₂⟩ := perm_range hwf hr₂
  rw [hp₂] at hpw'; cases hpw'
  obtain ⟨hsl₁, hsk₁⟩ := (mapIdxM_ok_iff 0 _ _ _ _).mp hs₁
  obtain ⟨hsl₂, hsk₂⟩ := (mapIdxM_ok_iff 0 _ _ _ _).mp hs₂
  obtain ⟨hcl₁, hck₁⟩ := (mapIdxM_ok_iff [] _ _ _ _).mp hc₁
  obtain ⟨hcl₂, hck₂⟩ := (mapIdxM_ok_iff [] _ _ _ _).mp hc₂
  have hlen₁ : ∀ j, j < cb₁.length → (cb₁.getD j []).length = n := fun j hj => by
    have := hck₁ j (by omega)
    rw [comboFor_ok_iff] at this
    exact jthCombination_length this.1
  have hlen₂ : ∀ j, j < cb₂.length → (cb₂.getD j []).length = n := fun j hj => by
    have := hck₂ j (by omega)
    rw [comboFor_ok_iff] at this
    exact jthCombination_length this.1
  obtain ⟨ew, es, ec⟩ := assemble_inj hw₁.word.1 hw₂.word.1 (hsl₁.trans hw₁.word.1) (hsl₂.trans hw₂.word.1)
    (hcl₁.trans hcl₂.symm) hlen₁ hlen₂ (e₁.symm.trans e₂)
  subst ew es ec
  -- permutation component
  have hperm : c₁.perm = c₂.perm := perm_inj hwf hr₁ hr₂ (hp₁.trans hp₂.symm)
  -- source components
  have hkey : ∀ k, k < n → c₁.src.getD (srcIdx d n k (w₁.getD k 0)) 0 = c₂.src.getD (srcIdx d n k (w₁.getD k 0)) 0 := by
    intro k hk
    obtain ⟨vs, hv, hnd, hlt₁, hsf₁⟩ := sourceFor_at hwf hw₁ hsrc₁ hk
    obtain ⟨vs', hv', -, hlt₂, hsf₂⟩ := sourceFor_at hwf hw₁ hsrc₂ hk
    rw [hv] at hv'; cases hv'
    have a₁ := hsk₁ k (by rw [hw₁.word.1]; exact hk)
    have a₂ := hsk₂ k (by rw [hw₁.word.1]; exact hk)
    rw [Nat.zero_add, hsf₁] at a₁
    rw [Nat.zero_add, hsf₂] at a₂
    exact nodup_getD_inj hnd hlt₁ hlt₂ ((Except.ok.inj a₁).trans (Except.ok.inj a₂).symm)
  have hsrc : c₁.src = c₂.src := by
    cases hpi : perInstance d n with
    | true =>
      obtain ⟨hnq, -, hfull⟩ := perm_full hwf hpi hw₁
      simp only [SrcOK, hpi, if_true] at hsrc₁ hsrc₂
      apply getD_ext (hsrc₁.1.trans hsrc₂.1.symm)
      intro p hp
      obtain ⟨k, hk, hkp⟩ := hfull p (by omega)
      have := hkey k hk
      simp only [srcIdx, hpi, if_true, hkp] at this
      exact this
    | false =>
      simp only [SrcOK, hpi, Bool.false_eq_true, if_false] at hsrc₁ hsrc₂
      apply getD_ext (hsrc₁.1.trans hsrc₂.1.symm)
      intro k hk
      have := hkey k (by have := hsrc₁.1; omega)
      simpa [srcIdx, hpi] using this
  -- independent components
  have hind : c₁.ind = c₂.ind := by
    apply getD_ext (hil₁.trans hil₂.symm)
    intro j hj
    have hj' : j < d.indLevels.length := by omega
    have a₁ := hck₁ j hj'
    have a₂ := hck₂ j hj'
    rw [Nat.zero_add, comboFor_ok_iff] at a₁ a₂
    exact jthCombination_inj0 n _ _ _ (hib₁ j hj') (hib₂ j hj') (a₁.1.trans a₂.1.symm)
  cases c₁; cases c₂
  simp only at hperm hsrc hind
  subst hperm hsrc hind
  rfl

/-- source components reproducing given sources -/
theorem src_exists {d : EnumData} {n : Nat} (hwf : WF d n) {w srcs : List Nat} (hw : PermOK d n w)
    (h : ∀ k, k < n → ∃ vs, d.valid[w.getD k 0]? = some vs ∧ srcs.getD k 0 ∈ vs) :
    ∃ src, SrcOK d n w src ∧ ∀ k, k < n → ∃ vs, d.valid[w.getD k 0]? = some vs ∧
      vs.getD (src.getD (srcIdx d n k (w.getD k 0)) 0) 0 = srcs.getD k 0 := by
  have h' : ∀ k, k < n → ∃ x, x < (shapes d).getD (w.getD k 0) 0 ∧
      ∃ vs, d.valid[w.getD k 0]? = some vs ∧ vs.getD x 0 = srcs.getD k 0 := by
    intro k hk
    obtain ⟨vs, hv, hmem⟩ := h k hk
    obtain ⟨x, hx, hxe⟩ := exists_getD_of_mem hmem
    exact ⟨x, by rw [shapes_getD hv]; exact hx, vs, hv, hxe⟩
  cases hpi : perInstance d n with
  | true =>
    obtain ⟨hnq, hnd, hfull⟩ := perm_full hwf hpi hw
    obtain ⟨src, hsl, hsp⟩ := list_choice 0 d.q (fun p x => x < (shapes d).getD p 0 ∧
        ∀ k, k < n → w.getD k 0 = p → ∃ vs, d.valid[p]? = some vs ∧ vs.getD x 0 = srcs.getD k 0) (by
      intro p hp
      obtain ⟨k₀, hk₀, hkp⟩ := hfull p hp
      obtain ⟨x, hx, vs, hv, hxe⟩ := h' k₀ hk₀
      rw [hkp] at hx hv
      refine ⟨x, hx, fun k hk hkp' => ?_⟩
      have : k = k₀ := nodup_getD_inj hnd (by rw [hw.word.1]; exact hk) (by rw [hw.word.1]; exact hk₀)
        (hkp'.trans hkp.symm)
      subst this
      exact ⟨vs, hv, hxe⟩)
    refine ⟨src, ?_, fun k hk => ?_⟩
    · simp only [SrcOK, hpi, if_true]
      exact ⟨hsl, fun p hp => (hsp p hp).1⟩
    · simp only [srcIdx, hpi, if_true]
      exact (hsp _ (hw.getD_lt hk)).2 k hk rfl
  | false =>
    obtain ⟨src, hsl, hsp⟩ := list_choice 0 n (fun k x => x < (shapes d).getD (w.getD k 0) 0 ∧
        ∃ vs, d.valid[w.getD k 0]? = some vs ∧ vs.getD x 0 = srcs.getD k 0) h'
    refine ⟨src, ?_, fun k hk => ?_⟩
    · simp only [SrcOK, hpi]
      exact ⟨hsl, fun k hk => (hsp k hk).1⟩
    · simp only [srcIdx, hpi]
      exact (hsp k hk).2

theorem round_surj' {d : EnumData} {n : Nat} (hwf : WF d n) {tvs : List TrialValue}
    (hv : ValidRound d n tvs) : ∃ c, InRange d n c ∧ generateTrialValues d c n = .ok tvs := by
  obtain ⟨hlen, hperm, hsrc, hind⟩ := hv
  have hwl : (tvs.map (·.inst)).length = n := by simp [hlen]
  obtain ⟨jp, hjp, hpw⟩ := perm_surj hwf hperm
  -- sources
  obtain ⟨src, hsrcOK, hsrcv⟩ := src_exists hwf (srcs := tvs.map (·.source)) hperm (by
    intro k hk
    have hk' : k < tvs.length := by omega
    obtain ⟨vs, hvs, hmem⟩ := hsrc tvs[k] (List.getElem_mem hk')
    refine ⟨vs, ?_, ?_⟩
    · rw [map_getD _ _ hk']; exact hvs
    · rw [map_getD _ _ hk']; exact hmem)
  -- independent factors
  have hword : ∀ j, j < d.indLevels.length →
      IsWord (d.indLevels.getD j 0) n (tvs.map (fun tv => tv.ind.getD j 0)) := by
    intro j hj
    refine ⟨by simp [hlen], fun x hx => ?_⟩
    obtain ⟨tv, htv, rfl⟩ := List.mem_map.mp hx
    exact (hind tv htv).2 j hj
  obtain ⟨ind, hil, hip⟩ := list_choice 0 d.indLevels.length (fun j x => x < (d.indLevels.getD j 0) ^ n ∧
      jthCombination n (d.indLevels.getD j 0) x = .ok (tvs.map (fun tv => tv.ind.getD j 0)))
    (fun j hj => C13.jthCombination_surj n _ _ (hword j hj))
  refine ⟨⟨jp, src, ind⟩, inRange_iff.mpr ⟨hjp, ⟨_, hpw, hsrcOK⟩, hil, fun j hj => (hip j hj).1⟩, ?_⟩
  refine generate_ok_iff.mpr ⟨tvs.map (·.inst), tvs.map (·.source),
    (List.range d.indLevels.length).map (fun j => tvs.map (fun tv => tv.ind.getD j 0)), hpw, ?_, ?_, ?_⟩
  · refine (mapIdxM_ok_iff 0 _ _ _ _).mpr ⟨by simp, fun k hk => ?_⟩
    have hk' : k < n := by rw [← hwl]; exact hk
    obtain ⟨vs, hvs, -, -, hsf⟩ := sourceFor_at hwf hperm hsrcOK hk'
    obtain ⟨vs', hvs', he⟩ := hsrcv k hk'
    rw [hvs] at hvs'; cases hvs'
    rw [Nat.zero_add, hsf, he]
  · refine (mapIdxM_ok_iff [] _ _ _ _).mpr ⟨by simp, fun j hj => ?_⟩
    rw [Nat.zero_add, comboFor_ok_iff]
    refine ⟨?_, by simp only; omega⟩
    have : ((List.range d.indLevels.length).map (fun j => tvs.map (fun tv => tv.ind.getD j 0))).getD j [] =
        tvs.map (fun tv => tv.ind.getD j 0) := by
      simp [List.getD_eq_getElem?_getD, hj]
    rw [this]
    exact (hip j hj).2
  · apply List.ext_getElem (by simp [assemble_length, hlen])
    intro t ht₁ ht₂
    have htn : t < n := by omega
    simp only [assemble, List.getElem_map, List.getElem_range, map_getD _ _ ht₁, List.map_map]
    have hi : tvs[t].ind = (List.range d.indLevels.length).map (fun j => tvs[t].ind.getD j 0) :=
      (map_range_getD (hind _ (List.getElem_mem ht₁)).1).symm
    have hi' : (List.range d.indLevels.length).map
        ((fun cb : List Nat => cb.getD t 0) ∘ fun j => tvs.map (fun tv => tv.ind.getD j 0)) =
        (List.range d.indLevels.length).map (fun j => tvs[t].ind.getD j 0) := by
      apply List.map_congr_left
      intro j _
      simp only [Function.comp]
      exact map_getD _ _ ht₁
    rw [hi', ← hi]

end SPModel.RandomGen
