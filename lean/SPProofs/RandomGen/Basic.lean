/-
  Helper lemmas for the RandomGen theorems (C05): list utilities, the unpacked form of
  `EnumData.wf`, and specifications of `listGet`, `sourceFor`, `mapIdxM`.
-/
import SPProofs.RandomGen.Defs

namespace SPModel.RandomGen
open SPModel Comb

/-! ### list utilities -/

theorem getD_lt {l : List Nat} {k : Nat} (h : k < l.length) : l.getD k 0 = l[k] := by simp [h]

theorem getD_ext {l₁ l₂ : List Nat} (hl : l₁.length = l₂.length)
    (h : ∀ k, k < l₁.length → l₁.getD k 0 = l₂.getD k 0) : l₁ = l₂ := by
  apply List.ext_getElem hl
  intro k h1 h2
  have := h k h1
  rwa [getD_lt h1, getD_lt h2] at this

theorem getD_of_getElem? {l : List Nat} {i x : Nat} (h : l[i]? = some x) : l.getD i 0 = x := by
  simp [List.getD_eq_getElem?_getD, h]

theorem getElem?_of_lt {l : List Nat} {i : Nat} (h : i < l.length) : l[i]? = some (l.getD i 0) := by
  simp [List.getD_eq_getElem?_getD, h]

theorem getD_mem {l : List Nat} {i : Nat} (h : i < l.length) : l.getD i 0 ∈ l := by
  rw [getD_lt h]; exact List.getElem_mem h

theorem exists_getD_of_mem {l : List Nat} {x : Nat} (h : x ∈ l) : ∃ i, i < l.length ∧ l.getD i 0 = x := by
  obtain ⟨i, hi, rfl⟩ := List.getElem_of_mem h
  exact ⟨i, hi, getD_lt hi⟩

theorem map_range_getD {l : List Nat} {n : Nat} (hl : l.length = n) :
    (List.range n).map (fun t => l.getD t 0) = l := by
  apply getD_ext (by simp [hl])
  intro k hk
  simp at hk
  simp [List.getD_eq_getElem?_getD, hk]

/-- choice over a finite index range, as a list -/
theorem list_choice {α : Type} (dflt : α) (L : Nat) (P : Nat → α → Prop) (h : ∀ j, j < L → ∃ x, P j x) :
    ∃ l : List α, l.length = L ∧ ∀ j, j < L → P j (l.getD j dflt) := by
  induction L with
  | zero => exact ⟨[], rfl, fun j hj => absurd hj (by omega)⟩
  | succ L ih =>
    obtain ⟨l, hl, hP⟩ := ih (fun j hj => h j (by omega))
    obtain ⟨x, hx⟩ := h L (by omega)
    refine ⟨l ++ [x], by simp [hl], ?_⟩
    intro j hj
    by_cases hjL : j < L
    · have : (l ++ [x]).getD j dflt = l.getD j dflt := by
        simp [List.getD_eq_getElem?_getD, List.getElem?_append_left, hl, hjL]
      rw [this]; exact hP j hjL
    · have hjeq : j = L := by omega
      subst hjeq
      have : (l ++ [x]).getD j dflt = x := by
        simp [List.getD_eq_getElem?_getD, ← hl]
      rw [this]; exact hx

/-- a duplicate-free list of `q` numbers below `q` contains every number below `q` -/
theorem full_perm_mem {w : List Nat} {q : Nat} (hlen : w.length = q) (hlt : ∀ x ∈ w, x < q) (hnd : w.Nodup)
    {p : Nat} (hp : p < q) : p ∈ w := by
  have hsub : w ⊆ List.range q := fun x hx => List.mem_range.mpr (hlt x hx)
  have hsp : w.Subperm (List.range q) := List.subperm_of_subset hnd hsub
  have hperm : w.Perm (List.range q) := hsp.perm_of_length_le (by simp [hlen])
  exact hperm.mem_iff.mpr (List.mem_range.mpr hp)

/-! ### the hypothesis `EnumData.wf`, unpacked -/

structure WF (d : EnumData) (n : Nat) : Prop where
  len : d.valid.length = d.q
  nodup : ∀ vs ∈ d.valid, vs.Nodup
  avail : d.avail.WF d.q
  le : d.simplePerm = true → n ≤ d.q
  pos : 0 < d.q
  inst : perInstance d n = true → d.simplePerm = true

theorem wf_unpack {d : EnumData} {n : Nat} (h : d.wf n = true) : WF d n := by
  simp only [EnumData.wf, Bool.and_eq_true, decide_eq_true_eq, List.all_eq_true, Bool.or_eq_true,
    Bool.not_eq_true'] at h
  obtain ⟨⟨⟨⟨⟨h1, h2⟩, h3⟩, h4⟩, h5⟩, h6⟩ := h
  refine ⟨h1, h2, ?_, ?_, h5, ?_⟩
  · unfold Avail.WF
    cases ha : d.avail with
    | uniform m => trivial
    | counters cs => simpa [ha] using h3
  · intro hs; rcases h4 with h4 | h4
    · simp [hs] at h4
    · exact h4
  · intro hp; rcases h6 with h6 | h6
    · simp [hp] at h6
    · exact h6

theorem shapes_length (d : EnumData) : (shapes d).length = d.valid.length := by simp [shapes]

theorem shapes_getD {d : EnumData} {p : Nat} {vs : List Nat} (h : d.valid[p]? = some vs) :
    (shapes d).getD p 0 = vs.length := by
  simp [shapes, List.getD_eq_getElem?_getD, List.getElem?_map, h]

theorem valid_get {d : EnumData} {n : Nat} (hwf : WF d n) {p : Nat} (hp : p < d.q) :
    ∃ vs, d.valid[p]? = some vs ∧ vs.Nodup ∧ (shapes d).getD p 0 = vs.length := by
  have hp' : p < d.valid.length := by rw [hwf.len]; exact hp
  refine ⟨d.valid[p], by simp [hp'], hwf.nodup _ (List.getElem_mem hp'), shapes_getD (by simp [hp'])⟩

/-! ### `listGet`, `sourceFor` -/

theorem listGet_ok_iff {l : List Nat} {i x : Nat} : listGet l i = .ok x ↔ l[i]? = some x := by
  unfold listGet
  cases h : l[i]? <;> simp

/-- the index of the source component used for trial `i` with crossing instance `p` -/
def srcIdx (d : EnumData) (n i p : Nat) : Nat := if perInstance d n then p else i

theorem sourceFor_ok_iff {d : EnumData} {n : Nat} {src : List Nat} {i p s : Nat} :
    sourceFor d n src i p = .ok s ↔
      ∃ comp vs, src[srcIdx d n i p]? = some comp ∧ d.valid[p]? = some vs ∧ vs[comp]? = some s := by
  unfold sourceFor srcIdx
  cases h1 : listGet src (if perInstance d n = true then p else i) with
  | error e =>
    have : ¬ ∃ x, src[if perInstance d n = true then p else i]? = some x := by
      rintro ⟨x, hx⟩; rw [listGet_ok_iff.mpr hx] at h1; cases h1
    simp only [bind, Except.bind]
    constructor
    · intro h; cases h
    · rintro ⟨comp, vs, hc, -⟩; exact absurd ⟨comp, hc⟩ this
  | ok comp =>
    have hc := listGet_ok_iff.mp h1
    simp only [bind, Except.bind]
    cases h2 : d.valid[p]? with
    | none => simp
    | some vs =>
      simp only [listGet_ok_iff]
      constructor
      · intro h; exact ⟨comp, vs, hc, rfl, h⟩
      · rintro ⟨comp', vs', hc', hv', hs'⟩
        rw [hc] at hc'; cases hc'; cases hv'; exact hs'

/-! ### `mapIdxM` -/

theorem mapIdxM_ok_iff {α : Type} (dflt : α) (f : Nat → Nat → Except PyErr α) (l : List Nat) (i : Nat)
    (xs : List α) :
    mapIdxM f i l = .ok xs ↔
      xs.length = l.length ∧ ∀ k, k < l.length → f (i + k) (l.getD k 0) = .ok (xs.getD k dflt) := by
  induction l generalizing i xs with
  | nil =>
    simp only [mapIdxM, List.length_nil, Except.ok.injEq]
    constructor
    · intro h; subst h; exact ⟨rfl, fun k hk => absurd hk (by omega)⟩
    · rintro ⟨h, -⟩; exact (List.length_eq_zero_iff.mp h).symm
  | cons p ps ih =>
    simp only [mapIdxM, bind, Except.bind, pure, Except.pure]
    cases hf : f i p with
    | error e =>
      simp only
      constructor
      · intro h; cases h
      · rintro ⟨-, h⟩
        have := h 0 (by simp)
        simp [hf] at this
    | ok x =>
      simp only
      cases hm : mapIdxM f (i + 1) ps with
      | error e =>
        simp only
        constructor
        · intro h; cases h
        · rintro ⟨hl, h⟩
          cases xs with
          | nil => simp at hl
          | cons y ys =>
            have : mapIdxM f (i + 1) ps = .ok ys := by
              rw [ih]
              refine ⟨by simpa using hl, fun k hk => ?_⟩
              have := h (k + 1) (by simp; omega)
              simpa [Nat.add_assoc, Nat.add_comm 1 k] using this
            rw [this] at hm; cases hm
      | ok ys =>
        simp only [Except.ok.injEq]
        obtain ⟨hl, hk⟩ := (ih (i + 1) ys).mp hm
        constructor
        · intro h; subst h
          refine ⟨by simp [hl], fun k hk' => ?_⟩
          cases k with
          | zero => simpa using hf
          | succ k =>
            have := hk k (by simpa using hk')
            simpa [Nat.add_assoc, Nat.add_comm 1 k] using this
        · rintro ⟨hl', h⟩
          cases xs with
          | nil => simp at hl'
          | cons y zs =>
            have h0 := h 0 (by simp)
            simp [hf] at h0
            subst h0
            have : mapIdxM f (i + 1) ps = .ok zs := by
              rw [ih]
              refine ⟨by simpa using hl', fun k hk' => ?_⟩
              have := h (k + 1) (by simp; omega)
              simpa [Nat.add_assoc, Nat.add_comm 1 k] using this
            rw [this] at hm; cases hm; rfl

end SPModel.RandomGen
