/-
  Specifications of the three parts of `generateTrialValues` (C05): the permutation component
  (`permutationIndices` is a bijection from `[0, crossingsShape)` onto `PermOK`), the independent-factor
  words (`indCombos`, `jthCombination` also for factors without levels), and how the trial values are
  assembled from the parts.
-/
import SPProofs.RandomGen.Basic

namespace SPModel.RandomGen
open SPModel Comb

theorem nodup_getD_inj {l : List Nat} (h : l.Nodup) {i j : Nat} (hi : i < l.length) (hj : j < l.length)
    (e : l.getD i 0 = l.getD j 0) : i = j := by
  rw [getD_lt hi, getD_lt hj] at e
  exact h.getElem_inj_iff.mp e

theorem mapIdxM_exists {α : Type} (dflt : α) (f : Nat → Nat → Except PyErr α) (l : List Nat) (i : Nat)
    (h : ∀ k, k < l.length → ∃ x, f (i + k) (l.getD k 0) = .ok x) :
    ∃ xs, mapIdxM f i l = .ok xs := by
  obtain ⟨xs, hl, hx⟩ := list_choice dflt l.length (fun k x => f (i + k) (l.getD k 0) = .ok x) h
  exact ⟨xs, (mapIdxM_ok_iff dflt f l i xs).mpr ⟨hl, hx⟩⟩

/-! ### `jthCombination` without the hypothesis `0 < n` -/

theorem jthCombination_length {l n j : Nat} {w : List Nat} (h : jthCombination l n j = .ok w) : w.length = l := by
  unfold jthCombination at h
  split at h
  · cases h
  · cases h; simp [digitsLsb_length]

theorem jthCombination_range0 (l n j : Nat) (hj : j < n ^ l) :
    ∃ w, jthCombination l n j = .ok w ∧ IsWord n l w := by
  rcases Nat.eq_zero_or_pos n with hn | hn
  · subst hn
    cases l with
    | zero => exact ⟨[], by simp [jthCombination, digitsLsb], rfl, by simp⟩
    | succ l => simp at hj
  · exact C13.jthCombination_range l n j hn

theorem jthCombination_inj0 (l n j₁ j₂ : Nat) (h₁ : j₁ < n ^ l) (h₂ : j₂ < n ^ l)
    (h : jthCombination l n j₁ = jthCombination l n j₂) : j₁ = j₂ := by
  rcases Nat.eq_zero_or_pos n with hn | hn
  · subst hn
    cases l with
    | zero => simp at h₁ h₂; omega
    | succ l => simp at h₁
  · exact C13.jthCombination_inj l n j₁ j₂ hn h₁ h₂ h

/-! ### `indCombos` -/

/-- the word of the `j`-th independent factor -/
def comboFor (n : Nat) (ind : List Nat) (j nlev : Nat) : Except PyErr (List Nat) := do
  let idx ← listGet ind j
  jthCombination n nlev idx

theorem comboFor_ok_iff {n : Nat} {ind : List Nat} {j nlev : Nat} {w : List Nat} :
    comboFor n ind j nlev = .ok w ↔ jthCombination n nlev (ind.getD j 0) = .ok w ∧ j < ind.length := by
  unfold comboFor
  cases h : listGet ind j with
  | error e =>
    simp only [bind, Except.bind]
    constructor
    · intro h'; cases h'
    · rintro ⟨-, hj⟩
      rw [listGet_ok_iff.mpr (getElem?_of_lt hj)] at h; cases h
  | ok idx =>
    have h' := listGet_ok_iff.mp h
    have hj : j < ind.length := by
      rcases List.getElem?_eq_some_iff.mp h' with ⟨hj, -⟩; exact hj
    simp only [bind, Except.bind, getD_of_getElem? h', hj, and_true]

theorem indCombos_eq (d : EnumData) (n : Nat) (ind : List Nat) (levels : List Nat) (j : Nat) :
    indCombos d n ind j levels = mapIdxM (comboFor n ind) j levels := by
  induction levels generalizing j with
  | nil => rfl
  | cons nl rest ih =>
    simp only [indCombos, mapIdxM, comboFor, ih, bind_assoc]

/-! ### the permutation component -/

theorem crossingsShape_eq {d : EnumData} {n : Nat} (hwf : WF d n) :
    crossingsShape d n = if d.simplePerm then fallingProd d.q n else countPrefixes d.q d.avail n := by
  unfold crossingsShape
  split
  · rename_i hs
    have hle := hwf.le hs
    have hfp := C13.fallingProd_eq d.q n hle
    split
    · exact Nat.div_eq_of_eq_mul_left (factorial_pos _) hfp.symm
    · rename_i hq
      have hq : n = d.q := by simpa using hq
      subst hq
      simpa [factorial] using hfp.symm
  · rfl

theorem PermOK.word {d : EnumData} {n : Nat} {w : List Nat} (h : PermOK d n w) :
    w.length = n ∧ ∀ x ∈ w, x < d.q := by
  unfold PermOK at h
  split at h
  · exact ⟨h.1, h.2.1⟩
  · exact ⟨h.1, h.2.1⟩

theorem PermOK.getD_lt {d : EnumData} {n : Nat} {w : List Nat} (h : PermOK d n w) {k : Nat} (hk : k < n) :
    w.getD k 0 < d.q :=
  h.word.2 _ (getD_mem (by rw [h.word.1]; exact hk))

theorem perm_range {d : EnumData} {n : Nat} (hwf : WF d n) {j : Nat} (hj : j < crossingsShape d n) :
    ∃ w, permutationIndices d n j = .ok w ∧ PermOK d n w := by
  rw [crossingsShape_eq hwf] at hj
  unfold permutationIndices PermOK
  cases hs : d.simplePerm with
  | true =>
    simp only [if_true]
    exact C13.jthPermutationPrefix_range d.q n j (hwf.le hs)
  | false =>
    simp only [hs] at hj
    obtain ⟨w, hw, hb⟩ := C13.jthPrefix_range d.q d.avail n j hwf.avail (Or.inl hwf.pos) hj
    refine ⟨w, ?_, ?_⟩
    · simp [hw]
    · simpa using hb

theorem perm_inj {d : EnumData} {n : Nat} (hwf : WF d n) {j₁ j₂ : Nat} (h₁ : j₁ < crossingsShape d n)
    (h₂ : j₂ < crossingsShape d n) (h : permutationIndices d n j₁ = permutationIndices d n j₂) : j₁ = j₂ := by
  rw [crossingsShape_eq hwf] at h₁ h₂
  cases hs : d.simplePerm with
  | true =>
    simp only [hs, if_true] at h₁ h₂
    simp only [permutationIndices, hs, if_true] at h
    exact C13.jthPermutationPrefix_inj d.q n j₁ j₂ (hwf.le hs) h₁ h₂ h
  | false =>
    simp only [hs] at h₁ h₂
    obtain ⟨w₁, hw₁, -⟩ := C13.jthPrefix_range d.q d.avail n j₁ hwf.avail (Or.inl hwf.pos) h₁
    obtain ⟨w₂, hw₂, -⟩ := C13.jthPrefix_range d.q d.avail n j₂ hwf.avail (Or.inl hwf.pos) h₂
    simp only [permutationIndices, hs, hw₁, hw₂] at h
    have : w₁ = w₂ := by simpa using h
    subst this
    exact C13.jthPrefix_inj d.q d.avail n j₁ j₂ hwf.avail h₁ h₂ (hw₁.trans hw₂.symm)

theorem perm_surj {d : EnumData} {n : Nat} (hwf : WF d n) {w : List Nat} (hw : PermOK d n w) :
    ∃ j, j < crossingsShape d n ∧ permutationIndices d n j = .ok w := by
  rw [crossingsShape_eq hwf]
  unfold PermOK at hw
  unfold permutationIndices
  cases hs : d.simplePerm with
  | true =>
    simp only [hs, if_true] at hw ⊢
    exact C13.jthPermutationPrefix_surj d.q n w hw
  | false =>
    simp only [hs] at hw ⊢
    obtain ⟨j, hj, hjw⟩ := C13.jthPrefix_surj d.q d.avail n hwf.avail w (by simpa using hw)
    exact ⟨j, hj, by simp [hjw]⟩

/-- in per-instance mode the permutation is a full one: every instance occurs -/
theorem perm_full {d : EnumData} {n : Nat} (hwf : WF d n) (hp : perInstance d n = true) {w : List Nat}
    (hw : PermOK d n w) : n = d.q ∧ w.Nodup ∧ ∀ p, p < d.q → ∃ k, k < n ∧ w.getD k 0 = p := by
  have hs := hwf.inst hp
  have hn : n = d.q := by
    unfold perInstance at hp
    simp only [Bool.and_eq_true, decide_eq_true_eq] at hp
    exact hp.1.1
  unfold PermOK at hw
  simp only [hs, if_true] at hw
  obtain ⟨hl, hlt, hnd⟩ := hw
  refine ⟨hn, hnd, fun p hpq => ?_⟩
  have := full_perm_mem (hl.trans hn) hlt hnd hpq
  obtain ⟨k, hk, hkp⟩ := exists_getD_of_mem this
  exact ⟨k, by omega, hkp⟩

/-! ### assembling the trial values -/

def assemble (n : Nat) (w srcs : List Nat) (combos : List (List Nat)) : List TrialValue :=
  (List.range n).map (fun t =>
    { inst := w.getD t 0, source := srcs.getD t 0, ind := combos.map (fun cb => cb.getD t 0) })

theorem generate_ok_iff {d : EnumData} {c : Components} {n : Nat} {tvs : List TrialValue} :
    generateTrialValues d c n = .ok tvs ↔
      ∃ w srcs combos, permutationIndices d n c.perm = .ok w ∧
        mapIdxM (sourceFor d n c.src) 0 w = .ok srcs ∧
        mapIdxM (comboFor n c.ind) 0 d.indLevels = .ok combos ∧ tvs = assemble n w srcs combos := by
  unfold generateTrialValues
  rw [indCombos_eq]
  constructor
  · intro h
    cases h1 : permutationIndices d n c.perm with
    | error e => simp [h1, bind, Except.bind] at h
    | ok w =>
      cases h2 : mapIdxM (sourceFor d n c.src) 0 w with
      | error e => simp [h1, h2, bind, Except.bind] at h
      | ok srcs =>
        cases h3 : mapIdxM (comboFor n c.ind) 0 d.indLevels with
        | error e => simp [h1, h2, h3, bind, Except.bind] at h
        | ok combos =>
          simp only [h1, h2, h3, bind, Except.bind, pure, Except.pure, Except.ok.injEq] at h
          exact ⟨w, srcs, combos, rfl, h2, rfl, h.symm⟩
  · rintro ⟨w, srcs, combos, h1, h2, h3, rfl⟩
    simp only [h1, h2, h3, bind, Except.bind, pure, Except.pure, assemble]

theorem assemble_length (n : Nat) (w srcs : List Nat) (combos : List (List Nat)) :
    (assemble n w srcs combos).length = n := by simp [assemble]

theorem assemble_inst {n : Nat} {w : List Nat} (srcs : List Nat) (combos : List (List Nat)) (hw : w.length = n) :
    (assemble n w srcs combos).map (·.inst) = w := by
  simp only [assemble, List.map_map]
  exact map_range_getD hw

theorem mem_assemble {n : Nat} {w srcs : List Nat} {combos : List (List Nat)} {tv : TrialValue}
    (h : tv ∈ assemble n w srcs combos) :
    ∃ t, t < n ∧ tv = { inst := w.getD t 0, source := srcs.getD t 0, ind := combos.map (fun cb => cb.getD t 0) } := by
  simp only [assemble, List.mem_map, List.mem_range] at h
  obtain ⟨t, ht, rfl⟩ := h
  exact ⟨t, ht, rfl⟩

theorem assemble_inj {n : Nat} {w₁ w₂ srcs₁ srcs₂ : List Nat} {combos₁ combos₂ : List (List Nat)}
    (hw₁ : w₁.length = n) (hw₂ : w₂.length = n) (hs₁ : srcs₁.length = n) (hs₂ : srcs₂.length = n)
    (hc : combos₁.length = combos₂.length)
    (hc₁ : ∀ j, j < combos₁.length → (combos₁.getD j []).length = n)
    (hc₂ : ∀ j, j < combos₂.length → (combos₂.getD j []).length = n)
    (h : assemble n w₁ srcs₁ combos₁ = assemble n w₂ srcs₂ combos₂) :
    w₁ = w₂ ∧ srcs₁ = srcs₂ ∧ combos₁ = combos₂ := by
  simp only [assemble, List.map_inj_left, List.mem_range, TrialValue.mk.injEq] at h
  refine ⟨getD_ext (hw₁.trans hw₂.symm) (fun k hk => (h k (by omega)).1),
    getD_ext (hs₁.trans hs₂.symm) (fun k hk => (h k (by omega)).2.1), ?_⟩
  apply List.ext_getElem hc
  intro j hj₁ hj₂
  have l₁ := hc₁ j hj₁
  have l₂ := hc₂ j hj₂
  simp only [List.getD_eq_getElem?_getD, List.getElem?_eq_getElem hj₁, List.getElem?_eq_getElem hj₂,
    Option.getD_some] at l₁ l₂
  apply getD_ext (l₁.trans l₂.symm)
  intro t ht
  have := (h t (by omega)).2.2
  have := congrArg (fun l => l[j]?) this
  simpa [hj₁, hj₂] using this

theorem map_getD {α : Type} (f : α → Nat) (l : List α) {t : Nat} (ht : t < l.length) :
    (l.map f).getD t 0 = f l[t] := by
  simp [List.getD_eq_getElem?_getD, ht]

theorem getD_lt' {α : Type} (dflt : α) {l : List α} {t : Nat} (ht : t < l.length) : l.getD t dflt = l[t] := by
  simp [List.getD_eq_getElem?_getD, ht]

end SPModel.RandomGen
