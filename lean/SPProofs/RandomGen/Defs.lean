/-
  Vocabulary of the RandomGen theorems (C05/C06): which component tuples are *candidates*
  of a round (`InRange`), which lists of trial values are *valid rounds* (`ValidRound`),
  and the number of candidates (`candidates`).
-/
import SPModel.RandomGen
import SPProofs.Properties.C13

namespace SPModel.RandomGen
open SPModel Comb

/-- the sequence of crossing instances of a round: a prefix of a permutation of the instances, or (with
    repetitions allowed by weights / complex crossing instances) a word using each instance at most
    `avail` times -/
def PermOK (d : EnumData) (n : Nat) (w : List Nat) : Prop :=
  if d.simplePerm then IsPermutationPrefix d.q n w else IsBoundedPrefix d.q d.avail n w

/-- the candidates RandomGen draws from: a permutation index below the count, and for the permutation `w` it
    denotes one source index below the number of compatible source combinations — per crossing instance, or per
    trial (then the bound depends on the instance in that trial) — and one index per independent factor -/
def InRange (d : EnumData) (n : Nat) (c : Components) : Prop :=
  c.perm < crossingsShape d n ∧
  (∃ w, permutationIndices d n c.perm = .ok w ∧
    (if perInstance d n then
        c.src.length = d.q ∧ ∀ p, p < d.q → c.src.getD p 0 < (shapes d).getD p 0
     else
        c.src.length = n ∧ ∀ i, i < n → c.src.getD i 0 < (shapes d).getD (w.getD i 0) 0)) ∧
  c.ind.length = d.indLevels.length ∧
  ∀ j, j < d.indLevels.length → c.ind.getD j 0 < (d.indLevels.getD j 0) ^ n

/-- what a round of `n` crossing trials must look like -/
def ValidRound (d : EnumData) (n : Nat) (tvs : List TrialValue) : Prop :=
  tvs.length = n ∧
  PermOK d n (tvs.map (·.inst)) ∧
  (∀ tv ∈ tvs, ∃ vs, d.valid[tv.inst]? = some vs ∧ tv.source ∈ vs) ∧
  (∀ tv ∈ tvs, tv.ind.length = d.indLevels.length ∧
    ∀ j, j < d.indLevels.length → tv.ind.getD j 0 < d.indLevels.getD j 0)

/-- number of source-index choices for the permutation with index `j` -/
def srcChoices (d : EnumData) (n j : Nat) : Nat :=
  if perInstance d n then prodList (shapes d)
  else match permutationIndices d n j with
    | .ok w => prodList (w.map (fun x => (shapes d).getD x 0))
    | .error _ => 0

/-- number of candidates of a round -/
def candidates (d : EnumData) (n : Nat) : Nat :=
  ((List.range (crossingsShape d n)).map (srcChoices d n)).foldl (· + ·) 0 *
    prodList (d.indLevels.map (fun nl => nl ^ n))

end SPModel.RandomGen
