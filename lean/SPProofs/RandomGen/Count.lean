/-
  `countSolutions` returns the number of candidates (C05 `count_eq_partial`).
-/
import SPProofs.RandomGen.Round

namespace SPModel.RandomGen
open SPModel Comb

/-! ### sums and products -/

theorem prodList_eq (l : List Nat) : prodList l = l.prod := by
  unfold prodList; exact List.prod_eq_foldl.symm

theorem sumFold_eq (l : List Nat) : l.foldl (· + ·) 0 = l.sum := List.sum_eq_foldl.symm

theorem sum_map_const {α : Type} {l : List α} {g : α → Nat} {c : Nat} (h : ∀ x ∈ l, g x = c) :
    (l.map g).sum = l.length * c := by
  induction l with
  | nil => simp
  | cons a l ih =>
    have h1 := h a (by simp)
    have h2 := ih (fun x hx => h x (by simp [hx]))
    simp only [List.map_cons, List.sum_cons, List.length_cons, h1, h2, Nat.add_mul, Nat.one_mul]
    omega

theorem prod_map_const {α : Type} {l : List α} {g : α → Nat} {c : Nat} (h : ∀ x ∈ l, g x = c) :
    (l.map g).prod = c ^ l.length := by
  induction l with
  | nil => simp
  | cons a l ih =>
    have h1 := h a (by simp)
    have h2 := ih (fun x hx => h x (by simp [hx]))
    simp only [List.map_cons, List.prod_cons, List.length_cons, h1, h2, Nat.pow_succ, Nat.mul_comm]

theorem foldl_pow (L : List Nat) (n x : Nat) :
    L.foldl (fun acc nl => acc * nl ^ n) x = x * (L.map (fun nl => nl ^ n)).prod := by
  induction L generalizing x with
  | nil => simp
  | cons nl L ih => simp only [List.foldl_cons, ih, List.map_cons, List.prod_cons, Nat.mul_assoc]

/-- an `Except`-valued running sum whose every step succeeds -/
theorem foldl_step_sum (step : Except PyErr Nat → Nat → Except PyErr Nat) (g : Nat → Nat) (L : List Nat)
    (acc : Nat) (h : ∀ i ∈ L, ∀ s, step (.ok s) i = .ok (s + g i)) :
    L.foldl step (.ok acc) = .ok (acc + (L.map g).sum) := by
  induction L generalizing acc with
  | nil => simp
  | cons i L ih =>
    rw [List.foldl_cons, h i (by simp), ih _ (fun j hj => h j (by simp [hj]))]
    simp only [List.map_cons, List.sum_cons, Nat.add_assoc]

/-- two enumerations without repetition of the same set are permutations of each other -/
theorem enum_perm {α : Type} (S : α → Prop) (N₁ N₂ : Nat) (e₁ e₂ : Nat → α)
    (r₁ : ∀ i, i < N₁ → S (e₁ i)) (i₁ : ∀ i, i < N₁ → ∀ j, j < N₁ → e₁ i = e₁ j → i = j)
    (s₁ : ∀ x, S x → ∃ i, i < N₁ ∧ e₁ i = x)
    (r₂ : ∀ i, i < N₂ → S (e₂ i)) (i₂ : ∀ i, i < N₂ → ∀ j, j < N₂ → e₂ i = e₂ j → i = j)
    (s₂ : ∀ x, S x → ∃ i, i < N₂ ∧ e₂ i = x) :
    ((List.range N₁).map e₁).Perm ((List.range N₂).map e₂) := by
  have n₁ : ((List.range N₁).map e₁).Nodup :=
    List.Nodup.map_on (fun x hx y hy => i₁ x (List.mem_range.mp hx) y (List.mem_range.mp hy)) List.nodup_range
  have n₂ : ((List.range N₂).map e₂).Nodup :=
    List.Nodup.map_on (fun x hx y hy => i₂ x (List.mem_range.mp hx) y (List.mem_range.mp hy)) List.nodup_range
  refine (List.perm_ext_iff_of_nodup n₁ n₂).mpr (fun a => ?_)
  simp only [List.mem_map, List.mem_range]
  constructor
  · rintro ⟨i, hi, rfl⟩; exact s₂ _ (r₁ i hi)
  · rintro ⟨i, hi, rfl⟩; exact s₁ _ (r₂ i hi)

/-! ### the number of source choices of one permutation -/

/-- product of the numbers of compatible source combinations along `w` -/
def srcProd (sh w : List Nat) : Nat := prodList (w.map (fun x => sh.getD x 0))

theorem srcChoices_perInstance {d : EnumData} {n : Nat} (hp : perInstance d n = true) (j : Nat) :
    srcChoices d n j = prodList (shapes d) := by
  simp [srcChoices, hp]

theorem srcChoices_perTrial {d : EnumData} {n j : Nat} {w : List Nat} (hp : perInstance d n = false)
    (hw : permutationIndices d n j = .ok w) : srcChoices d n j = srcProd (shapes d) w := by
  simp [srcChoices, hp, hw, srcProd]

theorem srcProd_const {d : EnumData} {n : Nat} (hwf : WF d n) {s0 : Nat} (hall : ∀ s ∈ shapes d, s = s0)
    {w : List Nat} (hw : PermOK d n w) : srcProd (shapes d) w = s0 ^ n := by
  unfold srcProd
  rw [prodList_eq, prod_map_const (c := s0), hw.word.1]
  intro x hx
  have hx' : x < (shapes d).length := by rw [shapes_length, hwf.len]; exact hw.word.2 x hx
  exact hall _ (getD_mem hx')

/-! ### plain permutation prefixes enumerated by `jthPrefix` (every instance available once) -/

theorem bounded_iff_permPrefix {q : Nat} {a : Avail} (ha : ∀ i, i < q → a.at i = 1) (n : Nat) (w : List Nat) :
    IsBoundedPrefix q a n w ↔ IsPermutationPrefix q n w := by
  unfold IsBoundedPrefix IsPermutationPrefix
  constructor
  · rintro ⟨hl, hlt, hc⟩
    refine ⟨hl, hlt, List.nodup_iff_count_le_one.mpr (fun x => ?_)⟩
    by_cases hx : x ∈ w
    · have := hc x (hlt x hx); rw [ha x (hlt x hx)] at this; exact this
    · rw [List.count_eq_zero_of_not_mem hx]; omega
  · rintro ⟨hl, hlt, hnd⟩
    refine ⟨hl, hlt, fun i hi => ?_⟩
    rw [ha i hi]; exact List.nodup_iff_count_le_one.mp hnd i

/-- the prefix `jthPrefix` returns (`[]` if none) -/
def prefixOf (q : Nat) (a : Avail) (n i : Nat) : List Nat :=
  match jthPrefix q a n i with
  | .ok (some p) => p
  | _ => []

/-- the prefix `jthPermutationPrefix` returns (`[]` if none) -/
def permPrefixOf (q n j : Nat) : List Nat :=
  match jthPermutationPrefix q n j with
  | .ok w => w
  | _ => []

theorem prefix_perm {q : Nat} {a : Avail} (haw : a.WF q) (hq : 0 < q) (ha : ∀ i, i < q → a.at i = 1) {n : Nat}
    (hn : n ≤ q) :
    ((List.range (countPrefixes q a n)).map (prefixOf q a n)).Perm
      ((List.range (fallingProd q n)).map (permPrefixOf q n)) := by
  apply enum_perm (IsPermutationPrefix q n)
  · intro i hi
    obtain ⟨w, hw, hb⟩ := C13.jthPrefix_range q a n i haw (Or.inl hq) hi
    simp only [prefixOf, hw]
    exact (bounded_iff_permPrefix ha n w).mp hb
  · intro i hi j hj h
    obtain ⟨w₁, hw₁, -⟩ := C13.jthPrefix_range q a n i haw (Or.inl hq) hi
    obtain ⟨w₂, hw₂, -⟩ := C13.jthPrefix_range q a n j haw (Or.inl hq) hj
    simp only [prefixOf, hw₁, hw₂] at h
    subst h
    exact C13.jthPrefix_inj q a n i j haw hi hj (hw₁.trans hw₂.symm)
  · intro w hw
    obtain ⟨j, hj, hjw⟩ := C13.jthPrefix_surj q a n haw w ((bounded_iff_permPrefix ha n w).mpr hw)
    exact ⟨j, hj, by simp only [prefixOf, hjw]⟩
  · intro i _
    obtain ⟨w, hw, hb⟩ := C13.jthPermutationPrefix_range q n i hn
    simp only [permPrefixOf, hw]
    exact hb
  · intro i hi j hj h
    obtain ⟨w₁, hw₁, -⟩ := C13.jthPermutationPrefix_range q n i hn
    obtain ⟨w₂, hw₂, -⟩ := C13.jthPermutationPrefix_range q n j hn
    simp only [permPrefixOf, hw₁, hw₂] at h
    subst h
    exact C13.jthPermutationPrefix_inj q n i j hn hi hj (hw₁.trans hw₂.symm)
  · intro w hw
    obtain ⟨j, hj, hjw⟩ := C13.jthPermutationPrefix_surj q n w hw
    exact ⟨j, hj, by simp only [permPrefixOf, hjw]⟩

/-! ### `sumCombinationProducts` -/

theorem all_shapes_eq {d : EnumData} {s0 : Nat} {rest : List Nat} (hsh : shapes d = s0 :: rest)
    (hall : (shapes d).all (fun s => s == (shapes d).headD 0) = true) : ∀ s ∈ shapes d, s = s0 := by
  intro s hs
  rw [List.all_eq_true] at hall
  have := hall s hs
  simpa [hsh] using this

/-- the sum in the general branch, provided `jthPrefix` succeeds below `count` -/
theorem sumCombinationProducts_general {d : EnumData} {count n : Nat}
    (hcond : ((shapes d).all (fun s => s == (shapes d).headD 0) && uniformM d.avail) = false)
    (hok : ∀ i, i < count → ∃ p, jthPrefix d.q d.avail n i = .ok (some p)) :
    sumCombinationProducts d count n =
      .ok ((List.range count).map (fun i => srcProd (shapes d) (prefixOf d.q d.avail n i))).sum := by
  unfold sumCombinationProducts
  simp only [hcond, Bool.false_eq_true, if_false]
  rw [foldl_step_sum _ (fun i => srcProd (shapes d) (prefixOf d.q d.avail n i))]
  · simp
  · intro i hi s
    obtain ⟨p, hp⟩ := hok i (List.mem_range.mp hi)
    simp [hp, bind, Except.bind, srcProd, prefixOf]

/-- the hypothesis of `count_eq_partial`: with plain permutations (`simplePerm`) the count is right if every
    instance is available exactly once (as in every real enumerator), or the closed formula / the per-instance
    formula is used -/
def SimpleOK (d : EnumData) (n : Nat) : Prop :=
  d.simplePerm = true →
    (∀ i, i < d.q → d.avail.at i = 1) ∨
    ((shapes d).all (fun s => s == (shapes d).headD 0) && uniformM d.avail) = true ∨
    perInstance d n = true

theorem withSources_eq {d : EnumData} {n : Nat} (hwf : WF d n) (hs : SimpleOK d n) :
    (if perInstance d n = true then
        (Except.ok (crossingsShape d n * prodList (shapes d)) : Except PyErr Nat)
      else sumCombinationProducts d (crossingsShape d n) n) =
      .ok ((List.range (crossingsShape d n)).map (srcChoices d n)).sum := by
  cases hpi : perInstance d n with
  | true =>
    simp only [if_true]
    rw [sum_map_const (c := prodList (shapes d)) (fun j _ => srcChoices_perInstance hpi j)]
    simp
  | false =>
    simp only [Bool.false_eq_true, if_false]
    have hchoice : ∀ j, j < crossingsShape d n →
        ∃ w, permutationIndices d n j = .ok w ∧ PermOK d n w ∧ srcChoices d n j = srcProd (shapes d) w := by
      intro j hj
      obtain ⟨w, hw, hok⟩ := perm_range hwf hj
      exact ⟨w, hw, hok, srcChoices_perTrial hpi hw⟩
    cases hcond : ((shapes d).all (fun s => s == (shapes d).headD 0) && uniformM d.avail) with
    | true =>
      -- closed formula
      have hall : (shapes d).all (fun s => s == (shapes d).headD 0) = true := by
        simp only [Bool.and_eq_true] at hcond; exact hcond.1
      cases hsh : shapes d with
      | nil =>
        have := shapes_length d
        rw [hsh, hwf.len] at this
        have := hwf.pos
        simp at *; omega
      | cons s0 rest =>
        have hconst : ∀ j ∈ List.range (crossingsShape d n), srcChoices d n j = s0 ^ n := by
          intro j hj
          obtain ⟨w, -, hok, he⟩ := hchoice j (List.mem_range.mp hj)
          rw [he]; exact srcProd_const hwf (all_shapes_eq hsh hall) hok
        rw [sum_map_const hconst]
        unfold sumCombinationProducts
        rw [if_pos hcond]
        simp only [hsh, List.length_range]
    | false =>
      cases hsp : d.simplePerm with
      | false =>
        have hcs : crossingsShape d n = countPrefixes d.q d.avail n := by
          rw [crossingsShape_eq hwf]; simp [hsp]
        rw [sumCombinationProducts_general hcond (fun i hi => by
          obtain ⟨w, hw, -⟩ := C13.jthPrefix_range d.q d.avail n i hwf.avail (Or.inl hwf.pos) (hcs ▸ hi)
          exact ⟨w, hw⟩)]
        congr 2
        apply List.map_congr_left
        intro j hj
        obtain ⟨w, hw, -, he⟩ := hchoice j (List.mem_range.mp hj)
        obtain ⟨p, hp, -⟩ := C13.jthPrefix_range d.q d.avail n j hwf.avail (Or.inl hwf.pos)
          (hcs ▸ List.mem_range.mp hj)
        simp only [permutationIndices, hsp, hp] at hw
        cases hw
        rw [he]; simp only [prefixOf, hp]
      | true =>
        have hone : ∀ i, i < d.q → d.avail.at i = 1 := by
          rcases hs hsp with h | h | h
          · exact h
          · rw [hcond] at h; cases h
          · rw [hpi] at h; cases h
        have hcs : crossingsShape d n = fallingProd d.q n := by
          rw [crossingsShape_eq hwf]; simp [hsp]
        have hperm := prefix_perm hwf.avail hwf.pos hone (hwf.le hsp)
        have hN : countPrefixes d.q d.avail n = fallingProd d.q n := by
          simpa using hperm.length_eq
        rw [sumCombinationProducts_general hcond (fun i hi => by
          obtain ⟨w, hw, -⟩ := C13.jthPrefix_range d.q d.avail n i hwf.avail (Or.inl hwf.pos)
            (by rw [hN, ← hcs]; exact hi)
          exact ⟨w, hw⟩)]
        have hsum := (hperm.map (srcProd (shapes d))).sum_nat
        rw [List.map_map, List.map_map, hN, ← hcs] at hsum
        have hrhs : (List.range (crossingsShape d n)).map (srcChoices d n) =
            (List.range (crossingsShape d n)).map (srcProd (shapes d) ∘ permPrefixOf d.q n) := by
          apply List.map_congr_left
          intro j hj
          obtain ⟨w, hw, -, he⟩ := hchoice j (List.mem_range.mp hj)
          simp only [permutationIndices, hsp, if_true] at hw
          rw [he]; simp only [Function.comp, permPrefixOf, hw]
        rw [hrhs, ← hsum]
        rfl

theorem count_eq' {d : EnumData} {n : Nat} (hwf : WF d n) (hs : SimpleOK d n) :
    countSolutions d n = .ok (candidates d n) := by
  simp only [countSolutions, candidates]
  have h := withSources_eq hwf hs
  by_cases hc : perInstance d n = true
  · rw [if_pos hc] at h ⊢
    rw [h]
    simp only [bind, Except.bind, pure, Except.pure, foldl_pow, sumFold_eq, prodList_eq]
  · rw [if_neg hc] at h ⊢
    rw [h]
    simp only [bind, Except.bind, pure, Except.pure, foldl_pow, sumFold_eq, prodList_eq]

end SPModel.RandomGen
