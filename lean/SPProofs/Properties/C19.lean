/-
  C19 — call histories leave the block's design unchanged (model of the
  repaired code: no library call mutates `block.design`).
-/
import SPModel.Conform

namespace SPModel.C19
open SPModel SPModel.Conform

theorem run_state (s : BlockState) (ops : List Op) : run s ops = s := by
  induction ops with
  | nil => rfl
  | cons o os ih => simpa [run, List.foldl_cons, step] using ih

theorem run_design (s : BlockState) (ops : List Op) : (run s ops).design = s.design := by
  rw [run_state]

end SPModel.C19
