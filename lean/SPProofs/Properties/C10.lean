/-
  C10 — cardinality constraints are encoded exactly.  Theorems about the model
  of `assert_k_of_n`, `_inequality_assertion` and `combine_cnf_with_requests`
  (`SPModel.Card`), for every n, k, list of literals and assignment:

    the emitted clauses have a satisfying extension of an assignment σ of the
    existing variables  ⇔  the number of true literals stands in the relation
    to k;  and then the extension is unique.

  `litCount` counts list positions, so no distinctness hypothesis is needed.
  The theorems are stated for the repaired code (fix commit "cardinality
  assertions with k larger than the variable list"); before it they held only
  under `k ≤ n` (EQ, LT) / `k < n` (GT).
-/
import SPProofs.Properties.C12

namespace SPModel.C10
open SPModel Builder

/-- The cardinality builders never fail on a non-empty list of valid literals. -/
theorem assert_total (n : Nat) (r : Request) (hne : r.vars ≠ []) (hx : ∀ x ∈ r.vars, LitOK n x) :
    ∃ b', (fromFresh n).applyRequest r = .ok b' ∧ Ext (fromFresh n) b' := by
  sorry

theorem assertEQ_iff (n k : Nat) (xs : List Int) (hx : ∀ x ∈ xs, LitOK n x) (b' : Builder)
    (h : (fromFresh n).assertKofN k xs = .ok b') (σ : Assign) :
    (∃ τ, Agree n σ τ ∧ cnfSat τ b'.vals = true) ↔ litCount σ xs = k := by
  sorry

theorem assertLT_iff (n k : Nat) (xs : List Int) (hx : ∀ x ∈ xs, LitOK n x) (b' : Builder)
    (h : (fromFresh n).inequalityAssertion true k xs = .ok b') (σ : Assign) :
    (∃ τ, Agree n σ τ ∧ cnfSat τ b'.vals = true) ↔ litCount σ xs < k := by
  sorry

theorem assertGT_iff (n k : Nat) (xs : List Int) (hx : ∀ x ∈ xs, LitOK n x) (b' : Builder)
    (h : (fromFresh n).inequalityAssertion false k xs = .ok b') (σ : Assign) :
    (∃ τ, Agree n σ τ ∧ cnfSat τ b'.vals = true) ↔ litCount σ xs > k := by
  sorry

/-- Uniqueness of the satisfying extension, for all three relations. -/
theorem assert_unique (n : Nat) (r : Request) (hx : ∀ x ∈ r.vars, LitOK n x) (b' : Builder)
    (h : (fromFresh n).applyRequest r = .ok b') (τ₁ τ₂ : Assign)
    (h₁ : cnfSat τ₁ b'.vals = true) (h₂ : cnfSat τ₂ b'.vals = true) (hag : Agree n τ₁ τ₂) :
    Agree b'.nvars τ₁ τ₂ := by
  sorry

/-- `combine_cnf_with_requests`: the combined clause list has a satisfying
    extension of σ iff σ satisfies the base clauses and every request, and the
    extension is unique. -/
theorem combine_models (n : Nat) (init : List Clause) (reqs : List Request)
    (hinit : ∀ c ∈ init, ∀ l ∈ c, LitOK n l)
    (hreqs : ∀ r ∈ reqs, r.vars ≠ [] ∧ ∀ x ∈ r.vars, LitOK n x) :
    ∃ φ, combineCnfWithRequests init n reqs = .ok φ ∧
      (∀ σ : Assign, (∃ τ, Agree n σ τ ∧ cnfSat τ φ = true) ↔
          (cnfSat σ init = true ∧ ∀ r ∈ reqs, r.holds σ = true)) ∧
      (∀ τ₁ τ₂ : Assign, cnfSat τ₁ φ = true → cnfSat τ₂ φ = true → Agree n τ₁ τ₂ →
          ∀ v, 1 ≤ v → (∃ c ∈ φ, ∃ l ∈ c, l.natAbs = v) → τ₁ v = τ₂ v) := by
  sorry

/-- Non-vacuity: "fewer than 2 of 3" is a request that meets the hypotheses. -/
example : ∃ b', (fromFresh 3).inequalityAssertion true 2 [1, 2, 3] = .ok b' ∧ b'.nvars = 41 := by
  refine ⟨_, rfl, ?_⟩
  decide

end SPModel.C10
