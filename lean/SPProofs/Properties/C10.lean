/-
  C10 — cardinality constraints are encoded exactly.  Theorems about the model
  of `assert_k_of_n`, `_inequality_assertion` and `combine_cnf_with_requests`
  (`SPModel.Card`), for every n, k, list of literals and assignment:

    the emitted clauses have a satisfying extension of an assignment σ of the
    existing variables  ⇔  the number of true literals stands in the relation
    to k;  and then the extension is unique.

  `litCount` counts list positions, so no distinctness hypothesis is needed.
  The theorems are stated for the repaired code (fix commit "cardinality
  assertions with k larger than the variable list"); before it they held only
  under `k ≤ n` (EQ, LT) / `k < n` (GT).
-/
import SPProofs.Properties.C12
import SPProofs.Card.Requests

namespace SPModel.C10
open SPModel Builder Card

/-- The cardinality builders never fail on a non-empty list of valid literals. -/
theorem assert_total (n : Nat) (r : Request) (hne : r.vars ≠ []) (hx : ∀ x ∈ r.vars, LitOK n x) :
    ∃ b', (fromFresh n).applyRequest r = .ok b' ∧ Ext (fromFresh n) b' := by
  obtain ⟨b', h1, h2, _⟩ := applyRequest_spec (fromFresh n) (Closed.fresh n) r hne hx
  exact ⟨b', h1, h2⟩

theorem assertEQ_iff (n k : Nat) (xs : List Int) (hx : ∀ x ∈ xs, LitOK n x) (b' : Builder)
    (h : (fromFresh n).assertKofN k xs = .ok b') (σ : Assign) :
    (∃ τ, Agree n σ τ ∧ cnfSat τ b'.vals = true) ↔ litCount σ xs = k := by
  have hne : xs ≠ [] := by rintro rfl; simp [assertKofN] at h
  exact (assertKofN_spec (fromFresh n) (Closed.fresh n) k xs hne hx).iff
    (fun σ τ ha => by rw [litCount_congr hx ha]) h σ

theorem assertLT_iff (n k : Nat) (xs : List Int) (hx : ∀ x ∈ xs, LitOK n x) (b' : Builder)
    (h : (fromFresh n).inequalityAssertion true k xs = .ok b') (σ : Assign) :
    (∃ τ, Agree n σ τ ∧ cnfSat τ b'.vals = true) ↔ litCount σ xs < k := by
  have hne : xs ≠ [] := by rintro rfl; simp [inequalityAssertion] at h
  have := (inequality_spec (fromFresh n) (Closed.fresh n) true k xs hne hx).iff
    (fun σ τ ha => by rw [litCount_congr hx ha]) h σ
  simpa using this

theorem assertGT_iff (n k : Nat) (xs : List Int) (hx : ∀ x ∈ xs, LitOK n x) (b' : Builder)
    (h : (fromFresh n).inequalityAssertion false k xs = .ok b') (σ : Assign) :
    (∃ τ, Agree n σ τ ∧ cnfSat τ b'.vals = true) ↔ litCount σ xs > k := by
  have hne : xs ≠ [] := by rintro rfl; simp [inequalityAssertion] at h
  have := (inequality_spec (fromFresh n) (Closed.fresh n) false k xs hne hx).iff
    (fun σ τ ha => by rw [litCount_congr hx ha]) h σ
  simpa using this

/-- Uniqueness of the satisfying extension, for all three relations. -/
theorem assert_unique (n : Nat) (r : Request) (hx : ∀ x ∈ r.vars, LitOK n x) (b' : Builder)
    (h : (fromFresh n).applyRequest r = .ok b') (τ₁ τ₂ : Assign)
    (h₁ : cnfSat τ₁ b'.vals = true) (h₂ : cnfSat τ₂ b'.vals = true) (hag : Agree n τ₁ τ₂) :
    Agree b'.nvars τ₁ τ₂ := by
  have hne : r.vars ≠ [] := by
    intro h0
    cases hrel : r.rel <;>
      simp [applyRequest, hrel, h0, assertKofN, inequalityAssertion] at h
  obtain ⟨b'', e, hext, _⟩ := applyRequest_spec (fromFresh n) (Closed.fresh n) r hne hx
  rw [h] at e
  cases e
  exact hext.unique ((vals_sat_iff hext τ₁).1 h₁) ((vals_sat_iff hext τ₂).1 h₂) hag

/-- `combine_cnf_with_requests`: the combined clause list has a satisfying
    extension of σ iff σ satisfies the base clauses and every request, and the
    extension is unique. -/
theorem combine_models (n : Nat) (init : List Clause) (reqs : List Request)
    (hinit : ∀ c ∈ init, ∀ l ∈ c, LitOK n l)
    (hreqs : ∀ r ∈ reqs, r.vars ≠ [] ∧ ∀ x ∈ r.vars, LitOK n x) :
    ∃ φ, combineCnfWithRequests init n reqs = .ok φ ∧
      (∀ σ : Assign, (∃ τ, Agree n σ τ ∧ cnfSat τ φ = true) ↔
          (cnfSat σ init = true ∧ ∀ r ∈ reqs, r.holds σ = true)) ∧
      (∀ τ₁ τ₂ : Assign, cnfSat τ₁ φ = true → cnfSat τ₂ φ = true → Agree n τ₁ τ₂ →
          ∀ v, 1 ≤ v → (∃ c ∈ φ, ∃ l ∈ c, l.natAbs = v) → τ₁ v = τ₂ v) := by
  obtain ⟨b, e, hext, hp, hq⟩ :=
    applyRequests_spec reqs (fromFresh n) (Closed.fresh n) hreqs
  have hcl : Closed b := (Closed.fresh n).ext hext
  have hle : n ≤ b.nvars := hext.le
  refine ⟨b.vals ++ init, by simp only [combineCnfWithRequests, e], ?_, ?_⟩
  · intro σ
    constructor
    · rintro ⟨τ, ha, hs⟩
      rw [cnfSat_append, Bool.and_eq_true] at hs
      refine ⟨by rw [cnfSat_congr hinit ha]; exact hs.2, fun r hr => ?_⟩
      rw [Request.holds_congr r (hreqs r hr).2 ha]
      exact hp τ ((vals_sat_iff hext τ).1 hs.1) r hr
    · rintro ⟨hi, hr⟩
      obtain ⟨τ, ha, hτ⟩ := hq σ (by intro it hm; simp [fromFresh] at hm) hr
      refine ⟨τ, ha, ?_⟩
      rw [cnfSat_append, Bool.and_eq_true]
      exact ⟨(vals_sat_iff hext τ).2 hτ, by rw [← cnfSat_congr hinit ha]; exact hi⟩
  · intro τ₁ τ₂ h₁ h₂ hag v hv hocc
    rw [cnfSat_append, Bool.and_eq_true] at h₁ h₂
    have hagree := hext.unique ((vals_sat_iff hext τ₁).1 h₁.1) ((vals_sat_iff hext τ₂).1 h₂.1) hag
    obtain ⟨c, hc, l, hl, rfl⟩ := hocc
    rcases List.mem_append.1 hc with hc | hc
    · exact hagree _ hv (hcl.vals_lits c hc l hl)
    · exact hag _ hv (hinit c hc l hl).2

/-- Non-vacuity: "fewer than 2 of 3" is a request that meets the hypotheses. -/
example : ∃ b', (fromFresh 3).inequalityAssertion true 2 [1, 2, 3] = .ok b' ∧ b'.nvars = 41 := by
  refine ⟨_, rfl, ?_⟩
  decide

end SPModel.C10
