/-
  C14 — trial/factor/level variables are allocated and decoded consistently.
  Theorems about `SPModel.Layout` (the model of the variable numbering of
  `block.py`): every applicable (trial, factor, level) gets its own variable
  inside `1..variablesPerSample` (so auxiliary variables, which start at
  `variablesPerSample + 1`, are above all of them), every variable in that
  range is the variable of some choice, and decoding inverts encoding.
-/
import SPModel.Layout
import SPProofs.Layout.Lemmas

namespace SPModel.C14
open SPModel SPModel.Layout

/-- What the block constructors guarantee about the active design: positive
    stride / sustain / level counts, and factors without a complex window have
    a level in every trial. -/
def WF (b : LBlock) : Prop :=
  ∀ f ∈ b.factors, 0 < f.stride ∧ 0 < f.sustain ∧ 0 < f.nlevels ∧ (f.complex = false → f.start = 0 ∧ f.stride = 1)

/-- An applicable choice: factor `i` (= `f`), level `l`, trial `t` (1-based). -/
def Choice (b : LBlock) (i l t : Nat) : Prop :=
  ∃ f, b.factors[i]? = some f ∧ l < f.nlevels ∧ 1 ≤ t ∧ t ≤ b.trials ∧ appliesTrial f t = true

/-- `WF` gives the hypothesis shape used by the helper lemmas -/
theorem WF.simple {b : LBlock} (hwf : WF b) :
    ∀ f ∈ b.factors, f.complex = false → f.start = 0 ∧ f.stride = 1 :=
  fun f hf hc => (hwf f hf).2.2.2 hc

/-- under `WF` a factor without a complex window has `t - 1` earlier trials -/
theorem previousCount_simple {b : LBlock} (hwf : WF b) {i : Nat} {f : LFactor}
    (hf : b.factors[i]? = some f) (hc : f.complex = false) (t : Nat) :
    previousCount f t = t - 1 := by
  obtain ⟨h0, h1⟩ := hwf.simple f (List.mem_of_getElem? hf) hc
  exact appliedCount_all f (appliesTrial_of_simple f h0 h1) _

/-- 0-based variable of a choice of a factor without a complex window -/
theorem encodeVar_simple_pred {b : LBlock} (hwf : WF b) {i : Nat} {f : LFactor}
    (hf : b.factors[i]? = some f) (hc : f.complex = false) (l t : Nat) :
    encodeVar b i l t - 1 = simpleOffset b i + l + variablesPerTrial b * (t - 1) := by
  rw [encodeVar_simple b i l t f hf hc, previousCount_simple hwf hf hc]; omega

theorem encode_range (b : LBlock) (hwf : WF b) (i l t : Nat) (h : Choice b i l t) :
    1 ≤ encodeVar b i l t ∧ encodeVar b i l t ≤ variablesPerSample b := by
  obtain ⟨f, hf, hl, h1, hT, ha⟩ := h
  have hvps := variablesPerSample_eq b hwf.simple
  cases hc : f.complex with
  | false =>
    have hoff := simpleOffset_add_le b i f hf hc
    have := add_mul_lt (simpleOffset b i + l) (variablesPerTrial b) (t - 1) b.trials
      (by omega) (by omega)
    rw [encodeVar_simple b i l t f hf hc, previousCount_simple hwf hf hc, hvps, gridVariables,
      Nat.mul_comm b.trials]
    omega
  | true =>
    have hoff := complexOffset_add_le b i f hf hc
    have := add_mul_lt l f.nlevels (previousCount f t) (appliedCount f b.trials) hl
      (appliedCount_pred_lt f t b.trials h1 hT ha)
    rw [encodeVar_complex b i l t f hf hc, hvps]
    omega

theorem decode_encode (b : LBlock) (hwf : WF b) (i l t : Nat) (h : Choice b i l t) :
    decodeVariable b (encodeVar b i l t) = some (i, l) := by
  obtain ⟨f, hf, hl, h1, hT, ha⟩ := h
  cases hc : f.complex with
  | false =>
    have hoff := simpleOffset_add_le b i f hf hc
    have hx := encodeVar_simple_pred hwf hf hc l t
    have hlt : encodeVar b i l t - 1 < gridVariables b := by
      have := add_mul_lt (simpleOffset b i + l) (variablesPerTrial b) (t - 1) b.trials
        (by omega) (by omega)
      rw [hx, gridVariables, Nat.mul_comm b.trials]
      omega
    have hmod : (encodeVar b i l t - 1) % variablesPerTrial b = simpleOffset b i + l := by
      rw [hx, Nat.add_mul_mod_self_left, Nat.mod_eq_of_lt (by omega)]
    have hgo := simpleTuple_block b i l f hf hc hl
    have hne : variablesPerTrial b ≠ 0 := by omega
    simp only [decodeVariable, hlt, if_true, hne, if_false, hmod]
    exact hgo
  | true =>
    have hnl : f.nlevels ≠ 0 := by omega
    have hr := add_mul_lt l f.nlevels (previousCount f t) (appliedCount f b.trials) hl
      (appliedCount_pred_lt f t b.trials h1 hT ha)
    have hgo := decode_go_block b i (l + f.nlevels * previousCount f t) f hf hc hnl hr
    have hx : encodeVar b i l t - 1
        = gridVariables b + complexOffset b i + (l + f.nlevels * previousCount f t) := by
      rw [encodeVar_complex b i l t f hf hc]; omega
    have hge : ¬ (gridVariables b + complexOffset b i + (l + f.nlevels * previousCount f t)
        < gridVariables b) := by omega
    have hmod : (l + f.nlevels * previousCount f t) % f.nlevels = l := by
      rw [Nat.add_mul_mod_self_left, Nat.mod_eq_of_lt hl]
    simp only [decodeVariable, hx, hge, if_false]
    rw [hgo, hmod]

theorem encode_injective (b : LBlock) (hwf : WF b) (i l t i' l' t' : Nat)
    (h : Choice b i l t) (h' : Choice b i' l' t') (heq : encodeVar b i l t = encodeVar b i' l' t') :
    i = i' ∧ l = l' ∧ t = t' := by
  have hd := decode_encode b hwf i l t h
  have hd' := decode_encode b hwf i' l' t' h'
  rw [heq, hd'] at hd
  have hi : i' = i := by injection hd with hd; injection hd
  have hl : l' = l := by injection hd with hd; injection hd
  subst hi hl
  refine ⟨rfl, rfl, ?_⟩
  obtain ⟨f, hf, hl, h1, hT, ha⟩ := h
  obtain ⟨f', hf', -, h1', hT', ha'⟩ := h'
  have hff : f' = f := by rw [hf] at hf'; injection hf' with e; exact e.symm
  subst hff
  cases hc : f'.complex with
  | false =>
    have hoff := simpleOffset_add_le b i' f' hf hc
    have hpos : 0 < variablesPerTrial b := by omega
    rw [encodeVar_simple b i' l' t f' hf hc, encodeVar_simple b i' l' t' f' hf hc,
      previousCount_simple hwf hf hc, previousCount_simple hwf hf hc] at heq
    have : variablesPerTrial b * (t - 1) = variablesPerTrial b * (t' - 1) := by omega
    have := Nat.eq_of_mul_eq_mul_left hpos this
    omega
  | true =>
    rw [encodeVar_complex b i' l' t f' hf hc, encodeVar_complex b i' l' t' f' hf hc] at heq
    have : f'.nlevels * previousCount f' t = f'.nlevels * previousCount f' t' := by omega
    have := Nat.eq_of_mul_eq_mul_left (by omega : 0 < f'.nlevels) this
    exact appliedCount_pred_inj f' t t' h1 h1' ha ha' this

theorem encode_surjective (b : LBlock) (hwf : WF b) (v : Nat) (hv : 1 ≤ v ∧ v ≤ variablesPerSample b) :
    ∃ i l t, Choice b i l t ∧ encodeVar b i l t = v := by
  obtain ⟨hv1, hv2⟩ := hv
  rw [variablesPerSample_eq b hwf.simple] at hv2
  by_cases hgrid : v - 1 < gridVariables b
  · -- a grid variable
    have hpos : 0 < variablesPerTrial b := by
      rcases Nat.eq_zero_or_pos (variablesPerTrial b) with h0 | h0
      · simp [gridVariables, h0] at hgrid
      · exact h0
    have hk := Nat.mod_lt (v - 1) hpos
    have hq : (v - 1) / variablesPerTrial b < b.trials := by
      rw [Nat.div_lt_iff_lt_mul hpos]; exact hgrid
    have hdm := Nat.div_add_mod (v - 1) (variablesPerTrial b)
    generalize (v - 1) % variablesPerTrial b = k at hk hdm
    generalize (v - 1) / variablesPerTrial b = q at hq hdm
    obtain ⟨i, f, hf, hc, hlo, hhi⟩ := simple_exists_slot b k hk
    obtain ⟨h0, hs1⟩ := hwf.simple f (List.mem_of_getElem? hf) hc
    refine ⟨i, k - simpleOffset b i, q + 1, ⟨f, hf, by omega, by omega, by omega,
        appliesTrial_of_simple f h0 hs1 _⟩, ?_⟩
    rw [encodeVar_simple b i _ _ f hf hc, previousCount_simple hwf hf hc]
    simp only [Nat.add_sub_cancel]
    omega
  · -- a variable of a complex factor
    have hk : v - 1 - gridVariables b < complexTotal b := by omega
    obtain ⟨i, f, hf, hc, hlo, hhi⟩ := complex_exists_slot b _ hk
    obtain ⟨-, -, hnl, -⟩ := hwf f (List.mem_of_getElem? hf)
    have hq : (v - 1 - gridVariables b - complexOffset b i) / f.nlevels
        < appliedCount f b.trials := by
      rw [Nat.div_lt_iff_lt_mul hnl, Nat.mul_comm]; omega
    have hl := Nat.mod_lt (v - 1 - gridVariables b - complexOffset b i) hnl
    have hdm := Nat.div_add_mod (v - 1 - gridVariables b - complexOffset b i) f.nlevels
    generalize (v - 1 - gridVariables b - complexOffset b i) % f.nlevels = l at hl hdm
    generalize (v - 1 - gridVariables b - complexOffset b i) / f.nlevels = q at hq hdm
    obtain ⟨t, ht1, htT, hta, htq⟩ := appliedCount_exists_trial f b.trials q hq
    refine ⟨i, l, t, ⟨f, hf, hl, ht1, htT, hta⟩, ?_⟩
    rw [encodeVar_complex b i _ _ f hf hc, previousCount, htq]
    omega

/-- the closed form behind the cached counting loop `_get_previous_trials_variable_count` -/
theorem previousCount_step (f : LFactor) (t : Nat) (ht : 1 ≤ t) :
    previousCount f (t + 1) = previousCount f t + (if appliesTrial f t then 1 else 0) := by
  have hs := appliedCount_succ f (t - 1)
  have e : t - 1 + 1 = t := by omega
  rw [e] at hs
  simpa [previousCount] using hs

/-- Non-vacuity: a transition-like factor (complex, start 1) next to two simple factors, 4 trials. -/
example : encodeVar ⟨[⟨2, false, 0, 1, 1⟩, ⟨3, false, 0, 1, 1⟩, ⟨2, true, 1, 1, 1⟩], 4⟩ 2 1 3 = 24
    ∧ variablesPerSample ⟨[⟨2, false, 0, 1, 1⟩, ⟨3, false, 0, 1, 1⟩, ⟨2, true, 1, 1, 1⟩], 4⟩ = 26 := by decide

end SPModel.C14
