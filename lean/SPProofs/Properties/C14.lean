/-
  C14 — trial/factor/level variables are allocated and decoded consistently.
  Theorems about `SPModel.Layout` (the model of the variable numbering of
  `block.py`): every applicable (trial, factor, level) gets its own variable
  inside `1..variablesPerSample` (so auxiliary variables, which start at
  `variablesPerSample + 1`, are above all of them), every variable in that
  range is the variable of some choice, and decoding inverts encoding.
-/
import SPModel.Layout

namespace SPModel.C14
open SPModel SPModel.Layout

/-- What the block constructors guarantee about the active design: positive
    stride / sustain / level counts, and factors without a complex window have
    a level in every trial. -/
def WF (b : LBlock) : Prop :=
  ∀ f ∈ b.factors, 0 < f.stride ∧ 0 < f.sustain ∧ 0 < f.nlevels ∧ (f.complex = false → f.start = 0 ∧ f.stride = 1)

/-- An applicable choice: factor `i` (= `f`), level `l`, trial `t` (1-based). -/
def Choice (b : LBlock) (i l t : Nat) : Prop :=
  ∃ f, b.factors[i]? = some f ∧ l < f.nlevels ∧ 1 ≤ t ∧ t ≤ b.trials ∧ appliesTrial f t = true

theorem encode_range (b : LBlock) (hwf : WF b) (i l t : Nat) (h : Choice b i l t) :
    1 ≤ encodeVar b i l t ∧ encodeVar b i l t ≤ variablesPerSample b := by
  sorry

theorem encode_injective (b : LBlock) (hwf : WF b) (i l t i' l' t' : Nat)
    (h : Choice b i l t) (h' : Choice b i' l' t') (heq : encodeVar b i l t = encodeVar b i' l' t') :
    i = i' ∧ l = l' ∧ t = t' := by
  sorry

theorem encode_surjective (b : LBlock) (hwf : WF b) (v : Nat) (hv : 1 ≤ v ∧ v ≤ variablesPerSample b) :
    ∃ i l t, Choice b i l t ∧ encodeVar b i l t = v := by
  sorry

theorem decode_encode (b : LBlock) (hwf : WF b) (i l t : Nat) (h : Choice b i l t) :
    decodeVariable b (encodeVar b i l t) = some (i, l) := by
  sorry

/-- the closed form behind the cached counting loop `_get_previous_trials_variable_count` -/
theorem previousCount_step (f : LFactor) (t : Nat) (ht : 1 ≤ t) :
    previousCount f (t + 1) = previousCount f t + (if appliesTrial f t then 1 else 0) := by
  sorry

/-- Non-vacuity: a transition-like factor (complex, start 1) next to two simple factors, 4 trials. -/
example : encodeVar ⟨[⟨2, false, 0, 1, 1⟩, ⟨3, false, 0, 1, 1⟩, ⟨2, true, 1, 1, 1⟩], 4⟩ 2 1 3 = 24
    ∧ variablesPerSample ⟨[⟨2, false, 0, 1, 1⟩, ⟨3, false, 0, 1, 1⟩, ⟨2, true, 1, 1, 1⟩], 4⟩ = 26 := by decide

end SPModel.C14
