/-
  C23 — weighted levels in the reference semantics: a crossing combination is
  required as often as the product of the weights of its levels.
-/
import SPModel.Spec

namespace SPModel.C23
open SPModel SPModel.Spec

/-- the weight `Spec` attaches to a combination of a crossing -/
def comboWeight (d : Design) (crossing combo : List Nat) : Nat :=
  (crossing.zip combo).foldl (fun acc p => acc * (((d.factor p.1).levels[p.2]?).map (·.weight)).getD 1) 1

/-- every feasible combination carries the product of its levels' weights -/
theorem feasible_weight (d : Design) (design crossing : List Nat) (excl : List (Nat × Nat)) :
    ∀ cw ∈ feasibleCombos d design crossing excl, cw.2 = comboWeight d crossing cw.1 := by
  intro cw h
  unfold feasibleCombos at h
  simp only [List.mem_map] at h
  obtain ⟨combo, _, rfl⟩ := h
  rfl

/-- a level of weight `w` multiplies the requirement of every combination containing it by `w`
    (single-factor crossing: the combination's weight is the level's weight) -/
theorem single_factor_weight (d : Design) (f l : Nat) :
    comboWeight d [f] [l] = (((d.factor f).levels[l]?).map (·.weight)).getD 1 := by
  simp [comboWeight]

end SPModel.C23
