/-
  C09 — without-replacement sampling returns distinct sequences, as many as
  exist.  Theorems about `SPModel.Sampler.iterate` (the model of
  `compute_solutions` + `update_file`) over ANY solver that is sound (a returned
  assignment satisfies the clauses) and complete (no answer only if
  unsatisfiable) — the assumption under which the SAT back end is trusted.
-/
import SPModel.Sampler
import SPProofs.Misc.Sampler

namespace SPModel.C09
open SPModel SPModel.Sampler

def Sound (solve : Solver) : Prop := ∀ φ τ, solve φ = some τ → cnfSat τ φ = true
def Complete (solve : Solver) : Prop := ∀ φ, solve φ = none → ∀ τ, cnfSat τ φ = false

theorem iterate_length_le (solve : Solver) (s n : Nat) (φ : Cnf) : (iterate solve s n φ).length ≤ n := by
  induction n generalizing φ with
  | zero => simp [iterate]
  | succ n ih =>
    unfold iterate
    split
    · simp
    · simp only [List.length_cons]
      exact Nat.succ_le_succ (ih _)

/-- every returned sequence is the support projection of a model of the formula -/
theorem iterate_models (solve : Solver) (hs : Sound solve) (s n : Nat) (φ : Cnf) :
    ∀ sol ∈ iterate solve s n φ, ∃ τ, cnfSat τ φ = true ∧ project s τ = sol := by
  induction n generalizing φ with
  | zero => simp [iterate]
  | succ n ih =>
    intro sol hsol
    unfold iterate at hsol
    split at hsol
    · simp at hsol
    · rename_i τ hτ
      rcases List.mem_cons.mp hsol with h | h
      · exact ⟨τ, hs φ τ hτ, h.symm⟩
      · obtain ⟨τ', hsat, hp⟩ := ih _ sol h
        rw [cnfSat_append_singleton, Bool.and_eq_true] at hsat
        exact ⟨τ', hsat.1, hp⟩

/-- no solution is returned twice -/
theorem iterate_distinct (solve : Solver) (hs : Sound solve) (s n : Nat) (φ : Cnf) :
    (iterate solve s n φ).Nodup := by
  induction n generalizing φ with
  | zero => simp [iterate]
  | succ n ih =>
    unfold iterate
    split
    · simp
    · rename_i τ hτ
      refine List.nodup_cons.mpr ⟨?_, ih _⟩
      intro hmem
      obtain ⟨τ', hsat, hp⟩ := iterate_models solve hs s n _ _ hmem
      rw [cnfSat_append_singleton, Bool.and_eq_true] at hsat
      exact (clauseSat_blocking_iff_ne s τ τ').mp hsat.2 hp

/-- completeness alone gives exhaustiveness (soundness is not needed for this direction) -/
theorem iterate_exhaustive_of_complete (solve : Solver) (hc : Complete solve) (s n : Nat) (φ : Cnf)
    (hlt : (iterate solve s n φ).length < n) :
    ∀ τ, cnfSat τ φ = true → project s τ ∈ iterate solve s n φ := by
  induction n generalizing φ with
  | zero => simp at hlt
  | succ n ih =>
    intro τ hτ
    unfold iterate at hlt ⊢
    split at hlt
    · rename_i hnone
      have := hc φ hnone τ
      rw [hτ] at this
      contradiction
    · rename_i τ0 hτ0
      simp only [List.length_cons, Nat.add_lt_add_iff_right] at hlt
      show project s τ ∈ project s τ0 :: iterate solve s n (φ ++ [blocking (project s τ0)])
      by_cases heq : project s τ = project s τ0
      · exact List.mem_cons.mpr (Or.inl heq)
      · refine List.mem_cons.mpr (Or.inr (ih _ hlt τ ?_))
        rw [cnfSat_append_singleton, Bool.and_eq_true]
        exact ⟨hτ, (clauseSat_blocking_iff_ne s τ0 τ).mpr heq⟩

/-- if fewer than requested come back, every solution has been returned -/
theorem iterate_exhaustive (solve : Solver) (_hs : Sound solve) (hc : Complete solve) (s n : Nat) (φ : Cnf)
    (hlt : (iterate solve s n φ).length < n) :
    ∀ τ, cnfSat τ φ = true → project s τ ∈ iterate solve s n φ :=
  iterate_exhaustive_of_complete solve hc s n φ hlt

/-- the blocking clause excludes exactly the assignments with that support projection -/
theorem blocking_iff (s : Nat) (τ σ : Assign) :
    clauseSat σ (blocking (project s τ)) = true ↔ project s σ ≠ project s τ := by
  exact clauseSat_blocking_iff_ne s τ σ

end SPModel.C09
