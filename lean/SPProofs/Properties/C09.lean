/-
  C09 — without-replacement sampling returns distinct sequences, as many as
  exist.  Theorems about `SPModel.Sampler.iterate` (the model of
  `compute_solutions` + `update_file`) over ANY solver that is sound (a returned
  assignment satisfies the clauses) and complete (no answer only if
  unsatisfiable) — the assumption under which the SAT back end is trusted.
-/
import SPModel.Sampler

namespace SPModel.C09
open SPModel SPModel.Sampler

def Sound (solve : Solver) : Prop := ∀ φ τ, solve φ = some τ → cnfSat τ φ = true
def Complete (solve : Solver) : Prop := ∀ φ, solve φ = none → ∀ τ, cnfSat τ φ = false

theorem iterate_length_le (solve : Solver) (s n : Nat) (φ : Cnf) : (iterate solve s n φ).length ≤ n := by
  sorry

/-- every returned sequence is the support projection of a model of the formula -/
theorem iterate_models (solve : Solver) (hs : Sound solve) (s n : Nat) (φ : Cnf) :
    ∀ sol ∈ iterate solve s n φ, ∃ τ, cnfSat τ φ = true ∧ project s τ = sol := by
  sorry

/-- no solution is returned twice -/
theorem iterate_distinct (solve : Solver) (hs : Sound solve) (s n : Nat) (φ : Cnf) :
    (iterate solve s n φ).Nodup := by
  sorry

/-- if fewer than requested come back, every solution has been returned -/
theorem iterate_exhaustive (solve : Solver) (hs : Sound solve) (hc : Complete solve) (s n : Nat) (φ : Cnf)
    (hlt : (iterate solve s n φ).length < n) :
    ∀ τ, cnfSat τ φ = true → project s τ ∈ iterate solve s n φ := by
  sorry

/-- the blocking clause excludes exactly the assignments with that support projection -/
theorem blocking_iff (s : Nat) (τ σ : Assign) :
    clauseSat σ (blocking (project s τ)) = true ↔ project s σ ≠ project s τ := by
  sorry

end SPModel.C09
