/-
  C13 — the unranking functions of the combinatoric sampler are bijections
  from `[0, N)` onto all arrangements of their kind, `N` being what the
  matching counting function reports.  Theorems about `SPModel.Comb`.

  Each bijection is stated as three facts: every index below `N` yields an
  arrangement of the kind (no error), distinct indices below `N` yield
  distinct arrangements, and every arrangement of the kind is reached from an
  index below `N`.  Together they say `N` is exactly the number of arrangements.
-/
import SPProofs.Comb.Lemmas

namespace SPModel.C13
open SPModel SPModel.Comb

/-! ### mixed radix: `extract_components` -/

theorem extractComponents_range (sizes : List Nat) (hpos : ∀ s ∈ sizes, 0 < s) (n : Nat) :
    ∃ cs, extractComponents sizes n = .ok cs ∧ InBox sizes cs := by
  exact extractComponents_ok sizes hpos n

theorem extractComponents_inj (sizes : List Nat) (hpos : ∀ s ∈ sizes, 0 < s) (n₁ n₂ : Nat)
    (h₁ : n₁ < prod sizes) (h₂ : n₂ < prod sizes)
    (h : extractComponents sizes n₁ = extractComponents sizes n₂) : n₁ = n₂ := by
  obtain ⟨cs, hcs, -⟩ := extractComponents_ok sizes hpos n₁
  rw [← horner_extract sizes hpos n₁ cs h₁ hcs, ← horner_extract sizes hpos n₂ cs h₂ (h ▸ hcs)]

theorem extractComponents_surj (sizes cs : List Nat) (hbox : InBox sizes cs) :
    ∃ n, n < prod sizes ∧ extractComponents sizes n = .ok cs := by
  exact ⟨horner sizes cs, extract_horner sizes cs hbox⟩

/-! ### `compute_jth_combination`: words of length `l` over `n` choices, `n ^ l` of them -/

theorem jthCombination_range (l n j : Nat) (hn : 0 < n) :
    ∃ w, jthCombination l n j = .ok w ∧ IsWord n l w := by
  exact jthCombination_range' l n j hn

theorem jthCombination_inj (l n j₁ j₂ : Nat) (hn : 0 < n) (h₁ : j₁ < n ^ l) (h₂ : j₂ < n ^ l)
    (h : jthCombination l n j₁ = jthCombination l n j₂) : j₁ = j₂ := by
  exact jthCombination_inj' l n j₁ j₂ hn h₁ h₂ h

theorem jthCombination_surj (l n : Nat) (w : List Nat) (hw : IsWord n l w) :
    ∃ j, j < n ^ l ∧ jthCombination l n j = .ok w := by
  exact jthCombination_surj' l n w hw

/-! ### permutation prefixes: `compute_jth_permutation_prefix`, `n!/(n-m)!` of them -/

theorem jthPermutationPrefix_range (n m j : Nat) (hm : m ≤ n) :
    ∃ w, jthPermutationPrefix n m j = .ok w ∧ IsPermutationPrefix n m w := by
  exact jthPermutationPrefix_range' n m j hm

theorem jthPermutationPrefix_inj (n m j₁ j₂ : Nat) (hm : m ≤ n)
    (h₁ : j₁ < fallingProd n m) (h₂ : j₂ < fallingProd n m)
    (h : jthPermutationPrefix n m j₁ = jthPermutationPrefix n m j₂) : j₁ = j₂ := by
  exact jthPermutationPrefix_inj' n m j₁ j₂ hm h₁ h₂ h

theorem jthPermutationPrefix_surj (n m : Nat) (w : List Nat) (hw : IsPermutationPrefix n m w) :
    ∃ j, j < fallingProd n m ∧ jthPermutationPrefix n m j = .ok w := by
  exact jthPermutationPrefix_surj' n m w hw

theorem fallingProd_eq (n m : Nat) (hm : m ≤ n) : fallingProd n m * factorial (n - m) = factorial n := by
  exact fallingProd_mul_factorial n m hm

/-! ### combinations without replacement: `C(n, m)` of them -/

theorem nChooseM_pascal (n m : Nat) : nChooseM (n + 1) (m + 1) = nChooseM n m + nChooseM n (m + 1) := by
  simp only [nChooseM_eq_choose]
  exact Nat.choose_succ_succ n m

theorem nChooseM_zero (n : Nat) : nChooseM n 0 = 1 := by
  rw [nChooseM_eq_choose, Nat.choose_zero_right]

theorem jthCombinationNoRepl_range (n m j : Nat) (hm : m ≤ n) (hj : j < nChooseM n m) :
    IsDecreasingCombination n m (jthCombinationNoRepl n m j) := by
  exact jthCombinationNoRepl_range' n m j hm hj

theorem jthCombinationNoRepl_inj (n m j₁ j₂ : Nat) (hm : m ≤ n)
    (h₁ : j₁ < nChooseM n m) (h₂ : j₂ < nChooseM n m)
    (h : jthCombinationNoRepl n m j₁ = jthCombinationNoRepl n m j₂) : j₁ = j₂ := by
  exact jthCombinationNoRepl_inj' n m j₁ j₂ hm h₁ h₂ h

theorem jthCombinationNoRepl_surj (n m : Nat) (w : List Nat) (hw : IsDecreasingCombination n m w) :
    ∃ j, j < nChooseM n m ∧ jthCombinationNoRepl n m j = w := by
  exact jthCombinationNoRepl_surj' n m w hw

/-! ### permutations of a multiset: `(Σc)!/Πc!` of them -/

theorem constructWithCopies_range (cs : List Nat) (idx : Nat) (h : idx < countRemaining cs) :
    ∃ w, constructWithCopies cs.length cs.sum idx cs = .ok w ∧ IsMultisetPermutation cs w := by
  exact constructWithCopies_range' cs idx h

theorem constructWithCopies_inj (cs : List Nat) (i₁ i₂ : Nat)
    (h₁ : i₁ < countRemaining cs) (h₂ : i₂ < countRemaining cs)
    (h : constructWithCopies cs.length cs.sum i₁ cs = constructWithCopies cs.length cs.sum i₂ cs) : i₁ = i₂ := by
  exact constructWithCopies_inj' cs i₁ i₂ h₁ h₂ h

theorem constructWithCopies_surj (cs : List Nat) (w : List Nat) (hw : IsMultisetPermutation cs w) :
    ∃ idx, idx < countRemaining cs ∧ constructWithCopies cs.length cs.sum idx cs = .ok w := by
  exact constructWithCopies_surj' cs w hw

/-! ### prefixes of permutations with bounded repetitions (uniform `m` or per-element counters) -/

-- `ha` is not needed: the model reads a missing counter as 0.
set_option linter.unusedVariables false in
theorem jthPrefix_range (q : Nat) (a : Avail) (firstN j : Nat) (ha : a.WF q) (hq : 0 < q ∨ firstN = 0)
    (hj : j < countPrefixes q a firstN) :
    ∃ w, jthPrefix q a firstN j = .ok (some w) ∧ IsBoundedPrefix q a firstN w := by
  exact jthPrefix_range' q a firstN j hq hj

-- `ha` is not needed: the model reads a missing counter as 0.
set_option linter.unusedVariables false in
theorem jthPrefix_inj (q : Nat) (a : Avail) (firstN j₁ j₂ : Nat) (ha : a.WF q)
    (h₁ : j₁ < countPrefixes q a firstN) (h₂ : j₂ < countPrefixes q a firstN)
    (h : jthPrefix q a firstN j₁ = jthPrefix q a firstN j₂) : j₁ = j₂ := by
  exact jthPrefix_inj' q a firstN j₁ j₂ h₁ h₂ h

-- `ha` is not needed: the model reads a missing counter as 0.
set_option linter.unusedVariables false in
theorem jthPrefix_surj (q : Nat) (a : Avail) (firstN : Nat) (ha : a.WF q) (w : List Nat)
    (hw : IsBoundedPrefix q a firstN w) :
    ∃ j, j < countPrefixes q a firstN ∧ jthPrefix q a firstN j = .ok (some w) := by
  exact jthPrefix_surj' q a firstN w hw

/-- Non-vacuity: concrete instances. -/
example : jthPermutationPrefix 4 2 7 = .ok [3, 1] ∧ countPrefixes 3 (.uniform 2) 4 = 54
    ∧ jthPrefix 2 (.counters [1, 2]) 2 1 = .ok (some [0, 1]) := ⟨rfl, rfl, rfl⟩

end SPModel.C13
