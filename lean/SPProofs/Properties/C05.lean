/-
  C05 / C06 — RandomGen's candidates and the valid rounds correspond one to one, and the
  solution count it reports is the number of candidates.  Theorems about
  `SPModel.RandomGen`, the model of `UCSolutionEnumerator.generate_trial_values` /
  `__count_solutions` (tied to the code by correspondence I9, which also evaluates the
  hypothesis `EnumData.wf` on every real block).

  For one round of `n` crossing trials (a full round or the leftover round):
  * `round_sound`  every candidate (`InRange`) yields a valid round, without error;
  * `round_inj`    different candidates yield different rounds;
  * `round_surj`   every valid round is the image of a candidate;
  * `count_eq_partial`  `__count_solutions` returns the number of candidates — under one more
    hypothesis on enumerators with plain permutations (`simplePerm`), see below.
  What is *not* claimed: that candidates are drawn with equal probability — RandomGen draws
  the permutation uniformly and then the source indices with permutation-dependent bounds
  (known finding F15), so equal probability holds only when every instance has the same
  number of compatible source combinations or a whole unweighted round of plain permutations is drawn
  (`perInstance`).

  Proofs: `SPProofs/RandomGen/{Basic,Spec,Round,Count}.lean`; see `SPProofs/RandomGen/NOTES.md`.
-/
import SPProofs.RandomGen.Count

namespace SPModel.C05
open SPModel Comb SPModel.RandomGen

theorem round_sound (d : EnumData) (n : Nat) (hwf : d.wf n = true) (c : Components) (hc : InRange d n c) :
    ∃ tvs, generateTrialValues d c n = .ok tvs ∧ ValidRound d n tvs :=
  round_sound' (wf_unpack hwf) hc

theorem round_inj (d : EnumData) (n : Nat) (hwf : d.wf n = true) (c₁ c₂ : Components)
    (h₁ : InRange d n c₁) (h₂ : InRange d n c₂)
    (h : generateTrialValues d c₁ n = generateTrialValues d c₂ n) : c₁ = c₂ :=
  round_inj' (wf_unpack hwf) h₁ h₂ h

theorem round_surj (d : EnumData) (n : Nat) (hwf : d.wf n = true) (tvs : List TrialValue)
    (hv : ValidRound d n tvs) : ∃ c, InRange d n c ∧ generateTrialValues d c n = .ok tvs :=
  round_surj' (wf_unpack hwf) hv

/-
  The statement first written down,

    theorem count_eq (d : EnumData) (n : Nat) (hwf : d.wf n = true) :
        countSolutions d n = .ok (candidates d n)

  is FALSE: with `simplePerm` the candidates' permutations come from `jthPermutationPrefix`, but
  `sumCombinationProducts` sums over `jthPrefix d.q d.avail`, and `EnumData.wf` does not tie `avail`
  to `simplePerm` (in the code `simplePerm` means `_m_or_counters == 1`).  `counterexample` below
  satisfies `wf` and has 4 candidates while `countSolutions` returns 3.  `count_eq_partial` adds the
  missing hypothesis for `simplePerm` enumerators: every instance is available exactly once (true of
  every real enumerator), or one of the two formulas that do not enumerate prefixes is used.
-/

theorem count_eq_partial (d : EnumData) (n : Nat) (hwf : d.wf n = true)
    (hs : d.simplePerm = true →
      (∀ i, i < d.q → d.avail.at i = 1) ∨
      ((shapes d).all (fun s => s == (shapes d).headD 0) && uniformM d.avail) = true ∨
      perInstance d n = true) :
    countSolutions d n = .ok (candidates d n) :=
  count_eq' (wf_unpack hwf) hs

/-- what `UCSolutionEnumerator` guarantees: plain permutations are used only when `_m_or_counters == 1` -/
theorem count_eq_of_uniform_one (d : EnumData) (n : Nat) (hwf : d.wf n = true)
    (hs : d.simplePerm = true → d.avail = .uniform 1) : countSolutions d n = .ok (candidates d n) :=
  count_eq_partial d n hwf (fun h => Or.inl (fun i _ => by rw [hs h]; rfl))

/-- `__count_solutions` returns the number of candidates, for every enumerator that meets the two decidable
    conditions the correspondence check evaluates on real blocks (`wf`, `plainOnce`). -/
theorem count_eq (d : EnumData) (n : Nat) (hwf : d.wf n = true) (hp : d.plainOnce = true) :
    countSolutions d n = .ok (candidates d n) := by
  refine count_eq_of_uniform_one d n hwf (fun hs => ?_)
  unfold EnumData.plainOnce at hp
  rw [hs] at hp
  cases ha : d.avail with
  | uniform m => simp [ha] at hp; rw [hp]
  | counters cs => simp [ha] at hp

/-- without plain permutations the count is right unconditionally -/
theorem count_eq_of_not_simplePerm (d : EnumData) (n : Nat) (hwf : d.wf n = true)
    (hs : d.simplePerm = false) : countSolutions d n = .ok (candidates d n) :=
  count_eq_partial d n hwf (fun h => by rw [hs] at h; cases h)

/-- `count_eq` without the extra hypothesis fails: plain permutations with every instance available twice. -/
def counterexample : EnumData :=
  { q := 2, avail := .uniform 2, simplePerm := true, unweighted := false,
    valid := [[0], [0, 1]], indLevels := [] }

example : counterexample.wf 2 = true ∧ countSolutions counterexample 2 = .ok 3 ∧ candidates counterexample 2 = 4 := by
  decide

/-- Non-vacuity: 3 instances, the third usable twice, varying numbers of compatible source combinations, one
    independent factor with two levels, rounds of 2 trials. -/
def demo : EnumData :=
  { q := 3, avail := .counters [1, 1, 2], simplePerm := false, unweighted := false,
    valid := [[0], [1, 2], [0, 1, 2]], indLevels := [2] }

example : demo.wf 2 = true ∧ countSolutions demo 2 = .ok 124 := by decide

end SPModel.C05
