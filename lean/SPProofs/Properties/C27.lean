/-
  C27 — solver input and output text is faithful.  Theorems about
  `SPModel.Text`, at the level of token lines (what `str.split()` yields per
  line; `str.split`, `int()` and `str()` are trusted and checked per instance
  by the correspondence run).
-/
import SPProofs.Text.Lemmas

namespace SPModel.C27
open SPModel SPModel.Text

/-- well-formed clause list: no empty clause, no zero literal -/
def ClausesOK (vals : List Clause) : Prop := ∀ c ∈ vals, c ≠ [] ∧ ∀ l ∈ c, l ≠ 0

/-- The header declares the given variable count and exactly the number of clauses. -/
theorem header_declares (vals : List Clause) (nv : Nat) (support : List Int) :
    (unigenLines vals nv support).head? = some (headerLine nv vals.length) ∧
    (dimacsLines vals nv).head? = some (headerLine nv vals.length) := by
  simp [unigenLines, dimacsLines]

/-- `len({abs(v)})`: the declared count of a freshly constructed CNF covers every variable used, once. -/
theorem distinctVars_complete (vals : List Clause) :
    (distinctVars vals).Nodup ∧ ∀ c ∈ vals, ∀ l ∈ c, l.natAbs ∈ distinctVars vals := by
  obtain ⟨h1, h2⟩ := eraseDups_spec _ (vals.flatten.map Int.natAbs) (Nat.le_refl _)
  refine ⟨h1, fun c hc l hl => ?_⟩
  unfold distinctVars
  rw [h2, List.mem_map]
  exact ⟨l, List.mem_flatten.2 ⟨c, hc, hl⟩, rfl⟩

/-- `parse_cnf_file` recovers exactly the clauses (in printed order), the
    sampling set `1..support` and the declared variable count. -/
theorem parse_print (vals : List Clause) (nv sup : Nat) (h : ClausesOK vals) :
    parseCnfFile (unigenLines vals nv (rangeSupport sup))
      = .ok { clauses := vals.reverse, sampling := rangeSupport sup, nvars := (nv : Int) } := by
  exact parseCnfFile_unigen vals nv sup h

/-- The DIMACS reader in front of pycryptosat recovers the same clauses. -/
theorem pycrypto_parse_print (vals : List Clause) (nv sup : Nat) (h : ClausesOK vals) :
    parsePycrypto (unigenLines vals nv (rangeSupport sup)) = .ok (vals.reverse, (nv : Int)) := by
  exact parsePycrypto_unigen vals nv (rangeSupport sup) h

/-- `update_file` on a file the library wrote: header count + 1, and the
    re-parsed file has the old clauses plus the negated solution. -/
theorem update_parse (vals : List Clause) (nv sup : Nat) (sol : List Int) (h : ClausesOK vals)
    (hs : sol ≠ [] ∧ ∀ l ∈ sol, l ≠ 0) :
    ∃ ls', updateFile (stripLines (unigenLines vals nv (rangeSupport sup))) sol = .ok ls' ∧
      ls'.head? = some (headerLine nv (vals.length + 1)) ∧
      parseCnfFile ls' = .ok { clauses := vals.reverse ++ [sol.map (fun x => -x)],
                               sampling := rangeSupport sup, nvars := (nv : Int) } := by
  exact update_unigen vals nv sup sol h hs

/-- The added clause excludes exactly the assignments that agree with the
    previous solution on its variables, and nothing else. -/
theorem update_models (φ : List Clause) (sol : List Int) (hs : ∀ l ∈ sol, l ≠ 0) (τ : Assign) :
    cnfSat τ (φ ++ [sol.map (fun x => -x)]) = true ↔
      (cnfSat τ φ = true ∧ ¬ (∀ l ∈ sol, litVal τ l = true)) := by
  have hc : clauseSat τ (sol.map (fun x => -x)) = true ↔ ¬ (∀ l ∈ sol, litVal τ l = true) := by
    simp only [clauseSat, List.any_map, List.any_eq_true, Function.comp]
    constructor
    · rintro ⟨x, hx, h⟩ hall
      rw [litVal_neg τ x (hs x hx), hall x hx] at h
      simp at h
    · intro h
      simp only [Classical.not_forall] at h
      obtain ⟨x, hx, h⟩ := h
      refine ⟨x, hx, ?_⟩
      rw [litVal_neg τ x (hs x hx)]
      simpa using h
  simp only [cnfSat, List.all_append, List.all_cons, List.all_nil, Bool.and_true, Bool.and_eq_true]
  rw [hc]

/-- Parsed solver output equals the solver's assignment (followed by the
    terminating 0), and cutting it to the support keeps the first `support` literals. -/
theorem solve_parse (model : List Int) (support : Nat) (hsup : support ≤ model.length) :
    parseSolveOutput (solveOutputLines model) = .ok (model ++ [0]) ∧
    (model ++ [0]).take support = model.take support := by
  refine ⟨?_, List.take_append_of_le_length hsup⟩
  simp [solveOutputLines, parseSolveOutput, tokInts_map_zero]

/-- `build_solution` on a UniGen sample line. -/
theorem buildSolution_line (lits : List Int) (f : Int) :
    buildSolution (Tok.v :: (lits.map Tok.int ++ [Tok.colon f])) = .ok (lits, f) := by
  have hf : (Tok.v :: (lits.map Tok.int ++ [Tok.colon f])).filter (· ≠ Tok.v)
      = lits.map Tok.int ++ [Tok.colon f] := by
    simp [List.filter_append, List.filter_map]
    congr 1
    rw [List.filter_eq_self]
    intro a _
    simp
  unfold buildSolution
  simp only [hf]
  simp [tokInts_map]

/-- Non-vacuity. -/
example : parseCnfFile (unigenLines [[1, -2], [3]] 3 (rangeSupport 2))
    = .ok { clauses := [[3], [1, -2]], sampling := [1, 2], nvars := 3 } := rfl

end SPModel.C27
