/-
  C15 — a derived factor whose level tables partition the window tuples gives
  every applicable trial exactly one level.  Theorem about `SPModel.Spec.matching`.
-/
import SPModel.Spec
import SPProofs.SpecLemmas.Lists

namespace SPModel.C15
open SPModel SPModel.Spec

/-- tables partition the keys: for every key exactly one level's table is true -/
def Partition (f : FactorD) : Prop :=
  ∀ key : Nat, ∃ i, i < f.levels.length ∧
    (((f.levels[i]?).map (fun l => l.table.getD key false)).getD false = true) ∧
    ∀ j, j < f.levels.length → (((f.levels[j]?).map (fun l => l.table.getD key false)).getD false = true) → j = i

/-- the same at one key: exactly one level's table accepts it (`Partition` asks this of *every* natural number, which
    finite tables only meet when read as "every key a window can produce"; this pointwise form is the one the
    other theorems use) -/
def UniqueAt (f : FactorD) (key : Nat) : Prop :=
  ∃ i, i < f.levels.length ∧
    (((f.levels[i]?).map (fun l => l.table.getD key false)).getD false = true) ∧
    ∀ j, j < f.levels.length → (((f.levels[j]?).map (fun l => l.table.getD key false)).getD false = true) → j = i

theorem matching_unique_at (d : Design) (f : FactorD) (w : WindowD) (look : Nat → Nat → Option Nat) (t : Nat)
    (h : UniqueAt f (windowKey d w look t)) : ∃ i, matching d f w look t = [i] ∧ i < f.levels.length := by
  obtain ⟨i, hi, hpi, huniq⟩ := h
  refine ⟨i, ?_, hi⟩
  unfold matching
  exact SpecLemmas.filter_eq_singleton _ List.nodup_range (List.mem_range.mpr hi) hpi
    (fun j hj hpj => huniq j (List.mem_range.mp hj) hpj)

theorem matching_unique (d : Design) (f : FactorD) (w : WindowD) (look : Nat → Nat → Option Nat) (t : Nat)
    (h : Partition f) : ∃ i, matching d f w look t = [i] ∧ i < f.levels.length := by
  obtain ⟨i, hi, hpi, huniq⟩ := h (windowKey d w look t)
  refine ⟨i, ?_, hi⟩
  unfold matching
  exact SpecLemmas.filter_eq_singleton _ List.nodup_range (List.mem_range.mpr hi) hpi
    (fun j hj hpj => huniq j (List.mem_range.mp hj) hpj)

/-- overlap: two levels accepting the same window make `matching` return more than one level (the sequence is then invalid) -/
theorem matching_overlap (d : Design) (f : FactorD) (w : WindowD) (look : Nat → Nat → Option Nat) (t i j : Nat)
    (hi : i < f.levels.length) (hj : j < f.levels.length) (hij : i < j)
    (h1 : ((f.levels[i]?).map (fun l => l.table.getD (windowKey d w look t) false)).getD false = true)
    (h2 : ((f.levels[j]?).map (fun l => l.table.getD (windowKey d w look t) false)).getD false = true) :
    2 ≤ (matching d f w look t).length := by
  apply SpecLemmas.two_le_length_of_mem (i := i) (j := j)
  · exact List.mem_filter.mpr ⟨List.mem_range.mpr hi, h1⟩
  · exact List.mem_filter.mpr ⟨List.mem_range.mpr hj, h2⟩
  · omega
end SPModel.C15
