/-
  C18 — sharing constraint objects.  The geometry of a shared constraint object
  is whatever the first block wrote (`init_within_block` sets it once).
-/
import SPModel.Conform
import SPProofs.SpecLemmas.Conform

namespace SPModel.C18
open SPModel SPModel.Conform

/-- a shared object keeps the first block's geometry -/
theorem afterBlocks_first (g : Geometry) (gs : List Geometry) : afterBlocks (g :: gs) = some g := by
  simp [afterBlocks, initWithin, SpecLemmas.foldl_initWithin_some]

/-- partial: when all blocks that use the object have the same geometry, every one of them sees the geometry
    it would have written into a fresh object, whatever the construction order -/
theorem shared_eq_fresh_partial (gs : List Geometry) (g : Geometry) (hne : gs ≠ [])
    (hall : ∀ x ∈ gs, x = g) : ∀ perm : List Geometry, perm.Perm gs → afterBlocks perm = some g := by
  intro perm hp
  cases perm with
  | nil => exact absurd hp.symm.eq_nil hne
  | cons x xs =>
    rw [afterBlocks_first]
    rw [hall x (hp.subset (List.mem_cons_self ..))]

/-- the defect (finding F4): with different geometries the second block does not get its own -/
theorem shared_defect : afterBlocks [(2, 0), (4, 0)] ≠ some (4, 0) := by
  decide

end SPModel.C18
