/-
  C02 (and the core of C01) — the compiled formula has exactly the intended models.

  For an input `p` of the compilation (`SPModel.Pipeline`, tied to `build_cnf` by
  correspondence I8) whose decidable side conditions hold (`checkWf p = (true, true, true)`
  — evaluated by the driver on every real block of the correspondence run) and whose
  compilation returns the clause list φ:

  * `models_iff_meaning`  an assignment σ of the design variables `1..vps` extends to a
        model of φ  ⇔  it extends (to the state variables of `Cross`) to an assignment under
        which every constraint means what `Pipeline.Meaning` says: `Consistency` (one level
        per factor and trial), `Cross` (state variable ⇔ combination selected; per chunk and
        combination the exact / at-most count), `Exclude`, `Pin`, the four run-length classes
        per block-scoped range, `Sequential`, `Sustain`, `Derivation`.
  * `model_unique`        two models of φ that agree on the design variables agree on every
        variable of φ — so "enumerate models, block the design-variable projection" (C09)
        visits every intended assignment exactly once.
-/
import SPProofs.Pipeline.Ok
import SPProofs.Properties.C03

namespace SPModel.C02
open SPModel Pipeline Layout

theorem err_none_of_ok (p : PInput) (φ : Cnf) (h : buildCnf p = .ok φ) : (buildBackend p).err = none := by
  unfold buildCnf at h
  cases he : (buildBackend p).err with
  | none => rfl
  | some e => simp [he] at h

theorem models_iff_meaning (p : PInput) (hc : checkWf p = (true, true, true)) (φ : Cnf) (hφ : buildCnf p = .ok φ)
    (σ : Assign) :
    (∃ τ, Agree (variablesPerSample p.layout) σ τ ∧ cnfSat τ φ = true) ↔
      ∃ ρ, Agree (variablesPerSample p.layout) σ ρ ∧
        MeaningAll p (variablesPerSample p.layout + 1) p.constraints ρ := by
  have h1 : (buildBackend p).wf (variablesPerSample p.layout) = true := congrArg Prod.fst hc
  have h3 : inputOk p = true := congrArg (fun x => x.2.2) hc
  obtain ⟨hwf, hok⟩ := inputOk_spec p h3
  have hcomp : compiled (buildBackend p) = .ok φ := by
    rw [← C03.buildCnf_eq p (err_none_of_ok p φ hφ)]; exact hφ
  rw [C03.compiled_models (buildBackend p) _ h1 φ hcomp σ]
  constructor
  · rintro ⟨ρ, ha, hh⟩
    exact ⟨ρ, ha, (buildBackend_meaning p hwf hok ρ).1 hh⟩
  · rintro ⟨ρ, ha, hm⟩
    exact ⟨ρ, ha, (buildBackend_meaning p hwf hok ρ).2 hm⟩

theorem model_unique (p : PInput) (hc : checkWf p = (true, true, true)) (φ : Cnf) (hφ : buildCnf p = .ok φ)
    (τ₁ τ₂ : Assign) (h₁ : cnfSat τ₁ φ = true) (h₂ : cnfSat τ₂ φ = true)
    (hag : Agree (variablesPerSample p.layout) τ₁ τ₂) :
    ∀ v, 1 ≤ v → (∃ c ∈ φ, ∃ l ∈ c, l.natAbs = v) → τ₁ v = τ₂ v := by
  have h1 : (buildBackend p).wf (variablesPerSample p.layout) = true := congrArg Prod.fst hc
  have h2 : (buildBackend p).statesDefined (variablesPerSample p.layout) = true := congrArg (fun x => x.2.1) hc
  have hcomp : compiled (buildBackend p) = .ok φ := by
    rw [← C03.buildCnf_eq p (err_none_of_ok p φ hφ)]; exact hφ
  exact C03.compiled_unique (buildBackend p) _ h1 h2 φ hcomp τ₁ τ₂ h₁ h₂ hag

/-- Non-vacuity: the demo block of C03 (two trials, one two-level factor, `Cross` + `Consistency`) compiles. -/
example : ∃ φ, buildCnf C03.demo = .ok φ ∧ φ.length = 66 := by
  refine ⟨_, rfl, ?_⟩
  decide

end SPModel.C02
