/-
  C03 — each trial sequence is exactly one model of the compiled formula (and, as the
  glue for C01/C02, the compiled clause list means what the backend request means).

  `SPModel.Pipeline` models `Block.build_backend_request` + `server.build_cnf` for every
  constraint class; the correspondence check I8 compares its clause list with the real one,
  clause by clause, on every generated block, and evaluates the decidable hypotheses
  `Backend.wf` / `Backend.statesDefined` used below on that block's backend.

  For every backend `b` (whatever constraint list produced it) whose first fresh variable
  was `vps + 1`:

  * `compiled_ok`      — well-formed ⇒ the cardinality encoders do not fail;
  * `compiled_models`  — restricted to the design variables `1..vps`, the models of the
                          clause list are exactly the assignments that extend to one under
                          which every formula and every cardinality request holds;
  * `compiled_unique`  — two models that agree on the design variables agree on every
                          variable of the clause list (state variables of `Cross`, Tseitin
                          variables, adder variables): the solver's models are in one-to-one
                          correspondence with the trial sequences.
-/
import SPProofs.Pipeline.Glue

namespace SPModel.C03
open SPModel Pipeline Layout

theorem buildCnf_eq (p : PInput) (h : (buildBackend p).err = none) :
    buildCnf p = compiled (buildBackend p) := by
  simp [buildCnf, compiled, h]

theorem compiled_ok (b : Backend) (vps : Nat) (h : b.wf vps = true) : ∃ φ, compiled b = .ok φ := by
  obtain ⟨φ, e, _⟩ := (wf_unpack h).spec
  exact ⟨φ, e⟩

theorem compiled_models (b : Backend) (vps : Nat) (h : b.wf vps = true) (φ : Cnf) (hφ : compiled b = .ok φ)
    (σ : Assign) :
    (∃ τ, Agree vps σ τ ∧ cnfSat τ φ = true) ↔ (∃ ρ, Agree vps σ ρ ∧ b.holds ρ = true) :=
  (wf_unpack h).models hφ σ

theorem compiled_unique (b : Backend) (vps : Nat) (h : b.wf vps = true) (hd : b.statesDefined vps = true)
    (φ : Cnf) (hφ : compiled b = .ok φ) (τ₁ τ₂ : Assign)
    (h₁ : cnfSat τ₁ φ = true) (h₂ : cnfSat τ₂ φ = true) (hag : Agree vps τ₁ τ₂) :
    ∀ v, 1 ≤ v → (∃ c ∈ φ, ∃ l ∈ c, l.natAbs = v) → τ₁ v = τ₂ v :=
  (wf_unpack h).unique hd hφ h₁ h₂ hag

/-- The extension whose existence `compiled_models` states is unique as well: a `holds`-assignment is determined
    on the state variables by the design variables. -/
theorem holds_unique (b : Backend) (vps : Nat) (h : b.wf vps = true) (hd : b.statesDefined vps = true)
    (ρ₁ ρ₂ : Assign) (h₁ : b.holds ρ₁ = true) (h₂ : b.holds ρ₂ = true) (hag : Agree vps ρ₁ ρ₂) :
    ∀ v, 1 ≤ v → v < b.fresh → isAux b.cnfs v = false → ρ₁ v = ρ₂ v :=
  have _ := h
  holds_unique' hd h₁ h₂ hag

/-- Non-vacuity: a two-trial, one-factor, two-level block with `Cross` and `Consistency` meets both hypotheses. -/
def demo : PInput :=
  { layout := { factors := [{ nlevels := 2, complex := false, start := 0, stride := 1, sustain := 1 }], trials := 2 },
    crossings := [{ factors := [0], combos := [[0], [1]], weights := [1, 1], size := 2, preamble := 0, weight := 1 }],
    constraints := [.cross, .consistency], postPreamble := false, commonPreamble := 0 }

example : checkWf demo = (true, true, true) := by decide

end SPModel.C03
