/-
  C01 (constraint encodings) — the requests and implications emitted for the
  run-length constraints mean what the constraints say, for every k, every
  range length and every assignment.  Theorems about `SPModel.Compile`.
  (These are the lemmas whose absence let the AtLeastKInARow tail defect live.)
-/
import SPModel.Compile
import SPProofs.Compile.Runs
import SPProofs.Compile.Windows
import SPProofs.Compile.AtMost
import SPProofs.Compile.AtLeast
import SPProofs.Compile.ExactRow

namespace SPModel.C01
open SPModel SPModel.Compile

/-- the truth values of a variable list under an assignment -/
def bits (σ : Assign) (vars : List Int) : List Bool := vars.map (litVal σ)

theorem atMost_iff (k : Nat) (vars : List Int) (σ : Assign) :
    (∀ r ∈ atMostRequests k vars, r.holds σ = true) ↔ ∀ n ∈ runs (bits σ vars), n ≤ k := by
  rw [atMost_pos, runs_le_iff]; rfl

theorem atLeast_iff (k : Nat) (hk : 0 < k) (vars : List Int) (σ : Assign) :
    (∀ f ∈ atLeastFormulas k vars, f.eval σ = true) ↔ ∀ n ∈ runs (bits σ vars), k ≤ n := by
  rw [atLeast_pos k hk, runs_ge_iff]; rfl

theorem exactlyInARow_iff (k : Nat) (hk : 0 < k) (vars : List Int) (σ : Assign) :
    (∀ f ∈ exactlyInARowFormulas k vars, f.eval σ = true) ↔ ∀ n ∈ runs (bits σ vars), n = k := by
  rw [exactRow_pos k hk, runs_eq_iff]; rfl

theorem exactlyK_iff (k : Nat) (hk : 0 < k) (vars : List Int) (σ : Assign) :
    (match exactlyK k vars with
     | .request r => r.holds σ = true
     | .contradiction => False) ↔ ((bits σ vars).filter id).length = k := by
  unfold exactlyK bits
  cases vars with
  | nil => simp; omega
  | cons v vs =>
    simp only [List.isEmpty_cons, Bool.false_eq_true, if_false, Request.holds, beq_iff_eq]
    rw [List.filter_map, List.length_map]
    rfl

/-- the total run length is the number of true entries (links run-length and counting constraints) -/
theorem runs_sum (xs : List Bool) : (runs xs).foldl (· + ·) 0 = (xs.filter id).length := by
  rw [foldl_add_eq_sum, runs_eq, sum_fin_foldl]; simp

/-- Non-vacuity: the sequence r r r r g r violates "at least 4 in a row" and the encoding rejects it. -/
example : (atLeastFormulas 4 [1, 2, 3, 4, 5, 6]).all (fun f => f.eval (fun v => v != 5)) = false := by decide

end SPModel.C01
