/-
  C28 — the ILP (OPB) export accepts the same assignments as the SAT encoding.
  Theorems about `SPModel.Text` (OPB rows with the standard pseudo-Boolean
  meaning `OpbRow.holds`) and, through C10, about the SAT encoding of the same
  clauses and requests.
-/
import SPProofs.Text.Lemmas
import SPProofs.Properties.C10

namespace SPModel.C28
open SPModel SPModel.Text

/-- A clause row holds exactly when the clause is satisfied. -/
theorem opb_clause (cl : Clause) (hcl : ∀ l ∈ cl, l ≠ 0) (τ : Assign) :
    (opbClause cl).holds τ = clauseSat τ cl := by
  sorry

/-- A request row means what the request means ('exactly', 'fewer than', 'more than'). -/
theorem opb_request (r : Request) (hr : ∀ l ∈ r.vars, 0 < l) (τ : Assign) :
    (opbRequest r).holds τ = r.holds τ := by
  sorry

/-- The whole export. -/
theorem opb_export (vals : List Clause) (reqs : List Request)
    (hv : ∀ c ∈ vals, ∀ l ∈ c, l ≠ 0) (hr : ∀ r ∈ reqs, ∀ l ∈ r.vars, 0 < l) (τ : Assign) :
    (opbExport vals reqs).all (fun row => row.holds τ) = true ↔
      (cnfSat τ vals = true ∧ ∀ r ∈ reqs, r.holds τ = true) := by
  sorry

/-- OPB export vs SAT encoding of the same clauses and requests. -/
theorem opb_vs_sat (n : Nat) (vals : List Clause) (reqs : List Request)
    (hv : ∀ c ∈ vals, ∀ l ∈ c, LitOK n l)
    (hr : ∀ r ∈ reqs, r.vars ≠ [] ∧ ∀ l ∈ r.vars, 0 < l ∧ l.natAbs ≤ n) (σ : Assign) :
    (opbExport vals reqs).all (fun row => row.holds σ) = true ↔
      ∃ φ, combineCnfWithRequests vals n reqs = .ok φ ∧ ∃ τ, Agree n σ τ ∧ cnfSat τ φ = true := by
  sorry

/-- The constraint added between iterations excludes exactly the previous solution. -/
theorem opb_block (sol : List Int) (hs : ∀ l ∈ sol, l ≠ 0) (τ : Assign) :
    (opbBlock sol).holds τ = true ↔ ¬ (∀ l ∈ sol, litVal τ l = true) := by
  sorry

/-- Non-vacuity: 'more than 1 of {1,2,3}' is rendered `>= 2`. -/
example : (opbRequest { rel := .gt, k := 1, vars := [1, 2, 3] }).rhs = 2 := by decide

end SPModel.C28
