/-
  C28 — the ILP (OPB) export accepts the same assignments as the SAT encoding.
  Theorems about `SPModel.Text` (OPB rows with the standard pseudo-Boolean
  meaning `OpbRow.holds`) and, through C10, about the SAT encoding of the same
  clauses and requests.
-/
import SPProofs.Text.Lemmas
import SPProofs.Properties.C10

namespace SPModel.C28
open SPModel SPModel.Text

/-- A clause row holds exactly when the clause is satisfied. -/
theorem opb_clause (cl : Clause) (hcl : ∀ l ∈ cl, l ≠ 0) (τ : Assign) :
    (opbClause cl).holds τ = clauseSat τ cl := by
  have h := signed_lhs τ cl hcl
  have h2 := any_iff_filter_length_pos (litVal τ) cl
  rw [Bool.eq_iff_iff, OpbRow.holds_ge τ _ rfl, clauseSat, h2]
  simp only [opbClause, OpbRow.lhs]
  omega

/-- A request row means what the request means ('exactly', 'fewer than', 'more than'). -/
theorem opb_request (r : Request) (hr : ∀ l ∈ r.vars, 0 < l) (τ : Assign) :
    (opbRequest r).holds τ = r.holds τ := by
  have h := pos_lhs τ r.vars hr
  rw [Bool.eq_iff_iff]
  cases hrel : r.rel
  · rw [OpbRow.holds_eq τ _ (by simp [opbRequest, hrel])]
    simp only [opbRequest, OpbRow.lhs, Request.holds, hrel, h]
    simp
    omega
  · rw [OpbRow.holds_le τ _ (by simp [opbRequest, hrel])]
    simp only [opbRequest, OpbRow.lhs, Request.holds, hrel, h]
    simp
    omega
  · rw [OpbRow.holds_ge τ _ (by simp [opbRequest, hrel])]
    simp only [opbRequest, OpbRow.lhs, Request.holds, hrel, h]
    simp
    omega

/-- The constraint added between iterations excludes exactly the previous solution. -/
theorem opb_block (sol : List Int) (hs : ∀ l ∈ sol, l ≠ 0) (τ : Assign) :
    (opbBlock sol).holds τ = true ↔ ¬ (∀ l ∈ sol, litVal τ l = true) := by
  have h := signed_lhs τ sol hs
  have hle : (sol.filter (litVal τ)).length ≤ sol.length := List.length_filter_le _ _
  rw [all_iff_filter_length, OpbRow.holds_le τ _ rfl]
  simp only [opbBlock, OpbRow.lhs]
  omega

/-- The whole export. -/
theorem opb_export (vals : List Clause) (reqs : List Request)
    (hv : ∀ c ∈ vals, ∀ l ∈ c, l ≠ 0) (hr : ∀ r ∈ reqs, ∀ l ∈ r.vars, 0 < l) (τ : Assign) :
    (opbExport vals reqs).all (fun row => row.holds τ) = true ↔
      (cnfSat τ vals = true ∧ ∀ r ∈ reqs, r.holds τ = true) := by
  simp only [opbExport, opbRows, cnfSat, List.all_append, Bool.and_eq_true, List.all_eq_true,
    List.mem_map, List.mem_reverse, forall_exists_index, and_imp, forall_apply_eq_imp_iff₂]
  constructor
  · rintro ⟨h1, h2⟩
    exact ⟨fun c hc => by rw [← opb_clause c (hv c hc)]; exact h1 c hc,
      fun r hr' => by rw [← opb_request r (hr r hr')]; exact h2 r hr'⟩
  · rintro ⟨h1, h2⟩
    exact ⟨fun c hc => by rw [opb_clause c (hv c hc)]; exact h1 c hc,
      fun r hr' => by rw [opb_request r (hr r hr')]; exact h2 r hr'⟩

/-- OPB export vs SAT encoding of the same clauses and requests. -/
theorem opb_vs_sat (n : Nat) (vals : List Clause) (reqs : List Request)
    (hv : ∀ c ∈ vals, ∀ l ∈ c, LitOK n l)
    (hr : ∀ r ∈ reqs, r.vars ≠ [] ∧ ∀ l ∈ r.vars, 0 < l ∧ l.natAbs ≤ n) (σ : Assign) :
    (opbExport vals reqs).all (fun row => row.holds σ) = true ↔
      ∃ φ, combineCnfWithRequests vals n reqs = .ok φ ∧ ∃ τ, Agree n σ τ ∧ cnfSat τ φ = true := by
  obtain ⟨φ, hφ, hiff, -⟩ := SPModel.C10.combine_models n vals reqs hv
    (fun r hr' => ⟨(hr r hr').1, fun x hx => ⟨by have := ((hr r hr').2 x hx).1; omega,
      ((hr r hr').2 x hx).2⟩⟩)
  rw [opb_export vals reqs (fun c hc l hl => (hv c hc l hl).1)
    (fun r hr' l hl => ((hr r hr').2 l hl).1) σ, ← hiff σ]
  constructor
  · intro h; exact ⟨φ, hφ, h⟩
  · rintro ⟨φ', hφ', h⟩
    rw [hφ] at hφ'
    cases hφ'
    exact h

/-- Non-vacuity: 'more than 1 of {1,2,3}' is rendered `>= 2`. -/
example : (opbRequest { rel := .gt, k := 1, vars := [1, 2, 3] }).rhs = 2 := by decide

end SPModel.C28
