/-
  C24 — the documented combinator equivalences hold in the reference semantics
  (`SPModel.Spec.geo` computes the same geometry, hence the same valid
  sequences, for both sides).  That the code's separate construction paths
  agree with this is checked by the C24 oracle (exhausted sets of both sides).
-/
import SPModel.Spec
import SPProofs.SpecLemmas.Geo

namespace SPModel.C24
open SPModel SPModel.Spec

/-- MultiCrossBlock(design, crossings, cs, rcc, mode, align) vs Merge of one CrossBlock(design, c, [], rcc) per crossing -/
theorem multiCross_eq_merge (d : Design) (design : List Nat) (crossings : List (List Nat)) (cs : List ConstraintD)
    (rcc : Bool) (mode : Mode) (align : Alignment) (hne : crossings ≠ []) (hdes : design.Nodup) :
    let lhs := geo d (.multiCross design crossings cs rcc mode align)
    let rhs := geo d (.merge (crossings.map (fun c => BlockExpr.cross design c [] rcc)) cs mode (some align))
    lhs.n = rhs.n ∧ lhs.crossings = rhs.crossings ∧ lhs.preambles = rhs.preambles ∧ lhs.sizes = rhs.sizes ∧
      lhs.constraints = rhs.constraints ∧ lhs.design = rhs.design := by
  have hdesign : (crossings.map (fun c => create d design [{ factors := c, sustain := 1, weight := 1 }] [] [] rcc
      .weight .equalPreamble)).foldl (fun acc g => unionIds acc g.design) [] = design := by
    apply SpecLemmas.foldl_unionIds_const_nil (fun g : Geo => g.design) design
    · simpa using hne
    · intro x hx
      obtain ⟨c, _, rfl⟩ := List.mem_map.mp hx
      rfl
  have hcons : (crossings.map (fun c => create d design [{ factors := c, sustain := 1, weight := 1 }] [] [] rcc
      .weight .equalPreamble)).flatMap (·.constraints) = [] := by
    rw [List.flatMap_eq_nil_iff]
    intro x hx
    obtain ⟨c, _, rfl⟩ := List.mem_map.mp hx
    rfl
  have _ := hdes
  intro lhs rhs
  simp only [lhs, rhs, geo, SpecLemmas.geoList_map, hdesign, hcons]
  refine ⟨rfl, rfl, rfl, rfl, rfl, rfl⟩

/-- Repeat(b, cs) vs Merge([b], cs, REPEAT, EQUAL_PREAMBLE) -/
theorem repeat_eq_merge (d : Design) (b : BlockExpr) (cs : List ConstraintD) (hdes : (geo d b).design.Nodup) :
    let lhs := geo d (.repeat b cs)
    let rhs := geo d (.merge [b] cs .repeat (some .equalPreamble))
    lhs.n = rhs.n ∧ lhs.crossings = rhs.crossings ∧ lhs.preambles = rhs.preambles ∧ lhs.sizes = rhs.sizes ∧
      lhs.constraints = rhs.constraints ∧ lhs.design = rhs.design := by
  have _ := hdes
  intro lhs rhs
  simp only [lhs, rhs, geo, geoList, List.foldl_cons, List.foldl_nil, SpecLemmas.unionIds_nil,
    List.flatMap_cons, List.flatMap_nil, List.append_nil]
  refine ⟨rfl, rfl, rfl, rfl, rfl, rfl⟩

/-- valid sequences depend on the geometry only -/
theorem valid_of_geo (d : Design) (b₁ b₂ : BlockExpr) (h : geo d b₁ = geo d b₂) (s : Seq) :
    validG d (geo d b₁) s = validG d (geo d b₂) s := by
  rw [h]
end SPModel.C24
