/-
  C11 — formula-to-CNF conversions preserve meaning.  Theorems about
  `SPModel.Logic` (the model of `sweetpea/_internal/logic.py`), for every
  formula over non-zero integer literals below the first fresh variable `n`.

  * Tseitin: the emitted clauses, restricted to the original variables, have
    exactly the formula's models; the extension to the new variables exists,
    is unique, and the new variables are exactly the range `[n, next)`.
  * naive: logically equivalent, no new variables.
  * switching: same models restricted to the original variables (partial
    correctness: whenever the fuelled model terminates normally).
-/
import SPProofs.Logic.Lemmas
import SPProofs.Logic.Tseitin
import SPProofs.Logic.Naive
import SPProofs.Logic.Switch

namespace SPModel.C11
open SPModel

/-- Soundness and completeness of the Tseitin conversion on the original variables. -/
theorem tseitin_models (f : Formula) (n : Nat) (hn : 0 < n) (hf : f.WF n) (σ : Assign) :
    f.eval σ = true ↔ ∃ τ, AgreeBelow n σ τ ∧ cnfSat τ (toCnfTseitin f n).cnf = true := by
  obtain ⟨s, r, heq, hI, hr, hS⟩ := toCnfTseitin_spec f n hn hf
  have hnz : ∀ c ∈ s.clauses, ∀ l ∈ c, l.v ≠ 0 := fun c hc l hl => (hI.lits c hc l hl).1
  rw [heq]
  constructor
  · intro hσ
    obtain ⟨τ, hag, hsat⟩ := hI.ex σ
    refine ⟨τ, hag, ?_⟩
    rw [cnfSat_tseitin τ s.clauses r s.next hnz, hsat, hS τ hsat, ← eval_congr hag f hf, hσ]
    rfl
  · rintro ⟨τ, hag, hsat⟩
    rw [cnfSat_tseitin τ s.clauses r s.next hnz, Bool.and_eq_true] at hsat
    rw [eval_congr hag f hf, ← hS τ hsat.1]
    exact hsat.2

/-- The new variables are uniquely determined. -/
theorem tseitin_unique (f : Formula) (n : Nat) (hn : 0 < n) (hf : f.WF n) (τ₁ τ₂ : Assign)
    (h₁ : cnfSat τ₁ (toCnfTseitin f n).cnf = true) (h₂ : cnfSat τ₂ (toCnfTseitin f n).cnf = true)
    (hag : AgreeBelow n τ₁ τ₂) : AgreeBelow (toCnfTseitin f n).next τ₁ τ₂ := by
  obtain ⟨s, r, heq, hI, hr, hS⟩ := toCnfTseitin_spec f n hn hf
  have hnz : ∀ c ∈ s.clauses, ∀ l ∈ c, l.v ≠ 0 := fun c hc l hl => (hI.lits c hc l hl).1
  rw [heq] at h₁ h₂ ⊢
  rw [cnfSat_tseitin _ s.clauses r s.next hnz, Bool.and_eq_true] at h₁ h₂
  exact hI.uniq τ₁ τ₂ h₁.1 h₂.1 hag

/-- Every variable of the output is a variable of the formula or lies in the
    fresh range the conversion reports; literals are non-zero; the counter only grows. -/
theorem tseitin_range (f : Formula) (n : Nat) (hn : 0 < n) (hf : f.WF n) :
    n ≤ (toCnfTseitin f n).next ∧
    ∀ c ∈ (toCnfTseitin f n).cnf, ∀ l ∈ c,
      l ≠ 0 ∧ l.natAbs < (toCnfTseitin f n).next ∧ (l.natAbs < n → l.natAbs ∈ f.vars) := by
  obtain ⟨s, r, heq, hI, hr, hS⟩ := toCnfTseitin_spec f n hn hf
  rw [heq]
  refine ⟨hI.le, ?_⟩
  intro c hc l hl
  simp only [TseitinResult.cnf, List.mem_append, List.mem_map, List.mem_reverse,
    List.mem_singleton] at hc
  rcases hc with ⟨c', hc', rfl⟩ | rfl
  · simp only [List.mem_map] at hl
    obtain ⟨t, ht, rfl⟩ := hl
    have := hI.lits c' hc' t ht
    unfold FLitOK at this
    cases t with | mk neg v =>
    cases neg
    · simpa [TLit.toInt] using this
    · simpa [TLit.toInt] using this
  · simp only [List.mem_singleton] at hl
    subst hl
    exact hr

/-- `cnf_to_json` accepts the tree Tseitin returns and yields exactly its clauses. -/
theorem tseitin_toJson (f : Formula) (n : Nat) :
    cnfToJson [(toCnfTseitin f n).toFormula] = .ok (toCnfTseitin f n).cnf :=
  cnfToJson_tseitin _

/-- The naive conversion is logically equivalent and introduces no variables. -/
theorem naive_equiv (f : Formula) (σ : Assign) : (toCnfNaive f).eval σ = f.eval σ :=
  naive_equiv' f σ

theorem naive_vars (f : Formula) : ∀ v ∈ (toCnfNaive f).vars, v ∈ f.vars :=
  naive_vars' f

/-- Switching conversion, partial correctness: if the fuelled model returns
    normally, the result has the formula's models on the original variables and
    uses fresh variables only from `[n, n')`. -/
theorem switching_models_partial (fuel : Nat) (f g : Formula) (n n' : Nat) (hn : 0 < n) (hf : f.WF n)
    (h : toCnfSwitching fuel f n = .ok (g, n')) (σ : Assign) :
    n ≤ n' ∧ g.WF n' ∧ (f.eval σ = true ↔ ∃ τ, AgreeBelow n σ τ ∧ g.eval τ = true) :=
  switching_models_partial' fuel f g n n' hn hf h σ

/-- Non-vacuity: a concrete formula with a shared sub-formula (cache hit), an
    implication and a negative literal. -/
example : (toCnfTseitin (.and [.or [.lit 1, .lit (-2)], .imp (.lit 1) (.or [.lit 1, .lit (-2)])]) 3).next = 6 := by
  decide

end SPModel.C11
