/-
  C21 — tabulation counts are exact.  Theorems about `SPModel.Api.tabulate`.
-/
import SPModel.Api
import SPProofs.Misc.Api

namespace SPModel.C21
open SPModel SPModel.Api

/-- row `t` of the experiment restricted to `names`, when every column has an entry there -/
def rowAt (e : Exp) (names : List String) (t : Nat) : Option (List String) :=
  names.mapM (fun n => match e.get n with
    | .ok col => col[t]?
    | .error _ => none)

theorem rowAt_eq_rowOf : rowAt = rowOf := rfl

/-- the counting loop computes the number of selected trials showing the combination -/
theorem frequency_eq (e : Exp) (names : List String) (trials : List Nat) (combo : List String)
    (hlen : combo.length = names.length)
    (hrows : ∀ t ∈ trials, (rowAt e names t).isSome) :
    frequency e names trials combo = .ok ((trials.filter (fun t => rowAt e names t == some combo)).length) := by
  exact frequency_eq_filter e names trials combo hlen hrows

/-- the table lists every combination of level names once, in product order, with that count -/
theorem tabulate_eq (factors : List (String × List String)) (trials : List Nat) (e : Exp)
    (hne : trials ≠ []) (hrows : ∀ t ∈ trials, (rowAt e (factors.map (·.1)) t).isSome) :
    tabulate factors trials e = .ok ((product (factors.map (·.2))).map (fun combo =>
      (combo, (trials.filter (fun t => rowAt e (factors.map (·.1)) t == some combo)).length))) := by
  unfold tabulate
  apply mapM_except_ok
  intro combo hc
  have hlen : combo.length = (factors.map (·.1)).length := by
    rw [length_of_mem_product _ combo hc]
    simp
  rw [frequency_eq e _ trials combo hlen hrows]
  have : trials.isEmpty = false := by
    cases trials with
    | nil => contradiction
    | cons _ _ => rfl
  simp [this]

end SPModel.C21
