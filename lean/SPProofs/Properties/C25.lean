/-
  C16 (trial count) / C25 (Nest) — the documented arithmetic of `Spec.create` and `Spec.geo`, for all inputs.
  (A) `create_n_pos`, `create_n_ge_minTrials`, `create_n_ge_round*`, `create_n_least*`, `create_n_eq`, `geo_n_eq`:
      the trial count is the least number that is at least 1, at least the (sustain-rounded) MinimumTrials in force
      and long enough for every crossing's preamble plus one round.  It is NOT in general a multiple of every
      sustain count (`create_n_not_multiple`, `geo_n_not_multiple`): the rounding is sequential (`roundUp_spec`).
  (B) `nest_sustain`, `nest_scopes` (no hypotheses), `nest_trials` (outer × inner trials, under hypotheses each of
      which is shown necessary by a counterexample), `nest_trials_leaves`.
  Helper definitions (`live`, `minT0`, `roundUp`, `preOf`, `crossSize`, `roundSize`, `required`, `exclOf`) are in
  `SPProofs/SpecLemmas/CreateN.lean`; `create_n_eq` ties them to `create` .
-/
import SPModel.Spec
import SPProofs.SpecLemmas.CreateN

namespace SPModel.C25
open SPModel SPModel.Spec SPModel.CreateN

/-! ## Concrete designs for the examples -/

def lv (n : String) (w : Nat := 1) : LevelD := ⟨n, w, #[]⟩
def fac (id k : Nat) : FactorD := ⟨id, "f", (List.range k).map (fun _ => lv "l"), none⟩
/-- factors 0,1 (2 levels), 2 (2 levels), 3, 5 (3 levels), 4 = transition-like factor over 2 (width 2) -/
def dEx : Design :=
  ⟨[fac 0 2, fac 1 2, fac 2 2, fac 3 3, fac 5 3, fac 6 1,
    ⟨4, "t", [⟨"same", 1, #[false, false, false, false, true, false, false, false, true]⟩,
              ⟨"diff", 1, #[false, false, false, false, false, true, false, true, false]⟩],
      some ⟨[2], 2, 1, none, "transition"⟩⟩], .cross [] [] [] false⟩


/-! ## (A) the trial count of a block: `create` -/

/-- (i) at least one trial -/
theorem create_n_pos (d : Design) (design : List Nat) (insts : List CrossInst) (old : List Scoped)
    (new : List ConstraintD) (rcc : Bool) (mode : Mode) (align : Alignment) :
    1 ≤ (create d design insts old new rcc mode align).n := by
  rw [create_n]; exact Nat.le_max_right _ _

/-- (ii) at least every MinimumTrials in force: one inherited from a sub-block counts `sustain` trials per
    trial of the block it was given to, one given to this block counts as written -/
theorem create_n_ge_minTrials (d : Design) (design : List Nat) (insts : List CrossInst) (old : List Scoped)
    (new : List ConstraintD) (rcc : Bool) (mode : Mode) (align : Alignment) :
    (∀ s ∈ old, ∀ k, s.c = .minTrials k → k * s.sustain ≤ (create d design insts old new rcc mode align).n) ∧
    (∀ k, ConstraintD.minTrials k ∈ new → k ≤ (create d design insts old new rcc mode align).n) := by
  rw [create_n]
  constructor
  · intro s hs k hk
    have h1 : k * s.sustain ≤ minT0 (old ++ newScoped0 new) :=
      minFold_ge_of_mem (List.mem_append_left _ hs) hk 0
    have h2 := roundUp_ge (live insts) (minT0 (old ++ newScoped0 new))
    omega
  · intro k hk
    have hmem : ({ c := .minTrials k, scope := none, sustain := 1 } : Scoped) ∈ old ++ newScoped0 new :=
      List.mem_append_right _ (List.mem_map.mpr ⟨_, hk, rfl⟩)
    have h1 : k * 1 ≤ minT0 (old ++ newScoped0 new) := minFold_ge_of_mem hmem rfl 0
    have h2 := roundUp_ge (live insts) (minT0 (old ++ newScoped0 new))
    omega

/-- the three per-crossing lists of the result run parallel to its crossings -/
theorem create_lengths (d : Design) (design : List Nat) (insts : List CrossInst) (old : List Scoped)
    (new : List ConstraintD) (rcc : Bool) (mode : Mode) (align : Alignment) :
    let g := create d design insts old new rcc mode align
    g.preambles.length = g.crossings.length ∧ g.sizes.length = g.crossings.length := by
  intro g
  simp only [g]
  rw [create_preambles, create_sizes, create_crossings_length]
  cases align <;> simp

/-- (iii) every crossing gets its preamble plus one full round (alignments other than POST_PREAMBLE:
    each crossing starts right after its own preamble) -/
theorem create_n_ge_round (d : Design) (design : List Nat) (insts : List CrossInst) (old : List Scoped)
    (new : List ConstraintD) (rcc : Bool) (mode : Mode) (align : Alignment) (hal : align ≠ .postPreamble) :
    let g := create d design insts old new rcc mode align
    ∀ p ∈ g.preambles.zip g.sizes, p.1 + p.2 ≤ g.n := by
  intro g p hp
  simp only [g] at hp ⊢
  rw [create_preambles, create_sizes] at hp
  rw [create_n]
  have hp' : p ∈ ((live insts).map (preOf d)).zip
      ((live insts).map (roundSize d design (excludedLevels (old ++ newScoped0 new)))) := by
    cases align
    · exact absurd rfl hal
    · exact hp
    · exact hp
  rw [zip_map_map] at hp'
  obtain ⟨i, hi, rfl⟩ := List.mem_map.mp hp'
  have hreq : preOf d i + roundSize d design (excludedLevels (old ++ newScoped0 new)) i
      ≤ required d design (excludedLevels (old ++ newScoped0 new)) (live insts) align := by
    have : preOf d i + roundSize d design (excludedLevels (old ++ newScoped0 new)) i ∈
        (live insts).map (fun i => preOf d i + roundSize d design (excludedLevels (old ++ newScoped0 new)) i) :=
      List.mem_map.mpr ⟨i, hi, rfl⟩
    cases align
    · exact absurd rfl hal
    · exact le_foldl_max_of_mem this 0
    · exact le_foldl_max_of_mem this 0
  simp only
  omega

/-- (iii), POST_PREAMBLE, as computed: every crossing's own preamble plus the largest round fits -/
theorem create_n_ge_round_post_own (d : Design) (design : List Nat) (insts : List CrossInst) (old : List Scoped)
    (new : List ConstraintD) (rcc : Bool) (mode : Mode) :
    let g := create d design insts old new rcc mode .postPreamble
    ∀ i ∈ insts, i.factors ≠ [] → ∀ s ∈ g.sizes,
      (i.factors.map (fun f => start d f)).foldl max 0 * i.sustain + s ≤ g.n := by
  intro g i hi hne s hs
  simp only [g] at hs ⊢
  rw [create_sizes] at hs
  rw [create_n]
  have hlive : i ∈ live insts := by
    simp only [live, List.mem_filter]
    exact ⟨hi, by cases h : i.factors <;> simp_all⟩
  have h1 : s ≤ ((live insts).map (roundSize d design (excludedLevels (old ++ newScoped0 new)))).foldl max 0 :=
    le_foldl_max_of_mem hs 0
  have h2 : preOf d i + ((live insts).map (roundSize d design (excludedLevels (old ++ newScoped0 new)))).foldl max 0
      ≤ required d design (excludedLevels (old ++ newScoped0 new)) (live insts) .postPreamble := by
    simp only [required]
    exact le_foldl_max_of_mem (List.mem_map_of_mem (f := fun j => preOf d j +
      ((live insts).map (roundSize d design (excludedLevels (old ++ newScoped0 new)))).foldl max 0) hlive) 0
  have h3 : (i.factors.map (fun f => start d f)).foldl max 0 * i.sustain = preOf d i := rfl
  omega

/-- (iii), POST_PREAMBLE, as documented: every crossing starts after the common (longest) preamble, which is
    what `preambles` holds, and any crossing's full round fits after it -/
theorem create_n_ge_round_post (d : Design) (design : List Nat) (insts : List CrossInst) (old : List Scoped)
    (new : List ConstraintD) (rcc : Bool) (mode : Mode) :
    let g := create d design insts old new rcc mode .postPreamble
    ∀ p ∈ g.preambles, ∀ s ∈ g.sizes, p + s ≤ g.n := by
  intro g p hp s hs
  have hown := create_n_ge_round_post_own d design insts old new rcc mode
  simp only [g] at hp hs ⊢
  simp only at hown
  rw [create_preambles] at hp
  obtain ⟨i0, hi0, rfl⟩ := List.mem_map.mp hp
  have hi0' : i0 ∈ insts ∧ i0.factors ≠ [] := by
    simp only [live, List.mem_filter] at hi0
    exact ⟨hi0.1, by cases h : i0.factors <;> simp_all⟩
  rcases foldl_max_mem_or ((live insts).map (preOf d)) 0 with h | h
  · rw [h]
    have := hown i0 hi0'.1 hi0'.2 s hs
    omega
  · obtain ⟨i, hi, hie⟩ := List.mem_map.mp h
    rw [← hie]
    have hi' : i ∈ insts ∧ i.factors ≠ [] := by
      simp only [live, List.mem_filter] at hi
      exact ⟨hi.1, by cases h : i.factors <;> simp_all⟩
    exact hown i hi'.1 hi'.2 s hs

/-- Closed form: the trial count is exactly the largest of 1, the rounded MinimumTrials and the rounds. -/
theorem create_n_eq (d : Design) (design : List Nat) (insts : List CrossInst) (old : List Scoped)
    (new : List ConstraintD) (rcc : Bool) (mode : Mode) (align : Alignment) :
    (create d design insts old new rcc mode align).n
      = max (max (roundUp (live insts) (minT0 (old ++ newScoped0 new)))
          (required d design (excludedLevels (old ++ newScoped0 new)) (live insts) align)) 1 :=
  create_n d design insts old new rcc mode align

/-- the rounded MinimumTrials is a lower bound of the trial count -/
theorem create_n_ge_rounded (d : Design) (design : List Nat) (insts : List CrossInst) (old : List Scoped)
    (new : List ConstraintD) (rcc : Bool) (mode : Mode) (align : Alignment) :
    roundUp (live insts) (minT0 (old ++ newScoped0 new)) ≤ (create d design insts old new rcc mode align).n := by
  rw [create_n]; omega

/-- (iv) least: any `m ≥ 1` that is at least the rounded MinimumTrials and gives every crossing its preamble plus
    one round is at least the trial count -/
theorem create_n_least (d : Design) (design : List Nat) (insts : List CrossInst) (old : List Scoped)
    (new : List ConstraintD) (rcc : Bool) (mode : Mode) (align : Alignment) (hal : align ≠ .postPreamble) (m : Nat)
    (h1 : 1 ≤ m) (hmin : roundUp (live insts) (minT0 (old ++ newScoped0 new)) ≤ m)
    (hround : ∀ p ∈ (create d design insts old new rcc mode align).preambles.zip
        (create d design insts old new rcc mode align).sizes, p.1 + p.2 ≤ m) :
    (create d design insts old new rcc mode align).n ≤ m := by
  rw [create_preambles, create_sizes] at hround
  rw [create_n]
  have hreq : required d design (excludedLevels (old ++ newScoped0 new)) (live insts) align ≤ m := by
    have hr : ∀ x ∈ (live insts).map (fun i => preOf d i + roundSize d design (excludedLevels (old ++ newScoped0 new)) i),
        x ≤ m := by
      intro x hx
      obtain ⟨i, hi, rfl⟩ := List.mem_map.mp hx
      have hmem : (preOf d i, roundSize d design (excludedLevels (old ++ newScoped0 new)) i) ∈
          ((live insts).map (preOf d)).zip
            ((live insts).map (roundSize d design (excludedLevels (old ++ newScoped0 new)))) := by
        rw [zip_map_map]; exact List.mem_map.mpr ⟨i, hi, rfl⟩
      cases align
      · exact absurd rfl hal
      · exact hround _ hmem
      · exact hround _ hmem
    cases align
    · exact absurd rfl hal
    · exact foldl_max_le (Nat.zero_le _) hr
    · exact foldl_max_le (Nat.zero_le _) hr
  omega

/-- (iv) least, POST_PREAMBLE -/
theorem create_n_least_post (d : Design) (design : List Nat) (insts : List CrossInst) (old : List Scoped)
    (new : List ConstraintD) (rcc : Bool) (mode : Mode) (m : Nat)
    (h1 : 1 ≤ m) (hmin : roundUp (live insts) (minT0 (old ++ newScoped0 new)) ≤ m)
    (hround : ∀ p ∈ (create d design insts old new rcc mode .postPreamble).preambles,
      ∀ s ∈ (create d design insts old new rcc mode .postPreamble).sizes, p + s ≤ m) :
    (create d design insts old new rcc mode .postPreamble).n ≤ m := by
  rw [create_preambles, create_sizes] at hround
  rw [create_n]
  have hreq : required d design (excludedLevels (old ++ newScoped0 new)) (live insts) .postPreamble ≤ m := by
    apply foldl_max_le (Nat.zero_le _)
    intro x hx
    obtain ⟨i, hi, rfl⟩ := List.mem_map.mp hx
    have hpre : preOf d i ≤ ((live insts).map (preOf d)).foldl max 0 :=
      le_foldl_max_of_mem (List.mem_map.mpr ⟨i, hi, rfl⟩) 0
    have hp : ((live insts).map (preOf d)).foldl max 0 ∈
        (live insts).map (fun _ => ((live insts).map (preOf d)).foldl max 0) := List.mem_map.mpr ⟨i, hi, rfl⟩
    have hsi : roundSize d design (excludedLevels (old ++ newScoped0 new)) i ∈
        (live insts).map (roundSize d design (excludedLevels (old ++ newScoped0 new))) := List.mem_map.mpr ⟨i, hi, rfl⟩
    rcases foldl_max_mem_or ((live insts).map (roundSize d design (excludedLevels (old ++ newScoped0 new)))) 0 with h | h
    · rw [h]
      have := hround _ hp _ hsi
      omega
    · have := hround _ hp _ h
      omega
  omega

/-- (iv) in the documentation's words: a number of trials that is at least 1, a common multiple of the sustain counts,
    at least every MinimumTrials in force and long enough for every crossing's preamble plus one round is at least
    the trial count.  (The converse reading — that the trial count itself is such a common multiple — is false,
    see `create_n_not_multiple`.) -/
theorem create_n_le_of_common_multiple (d : Design) (design : List Nat) (insts : List CrossInst) (old : List Scoped)
    (new : List ConstraintD) (rcc : Bool) (mode : Mode) (align : Alignment) (hal : align ≠ .postPreamble) (m : Nat)
    (h1 : 1 ≤ m) (hdvd : ∀ i ∈ insts, i.factors ≠ [] → i.sustain ≠ 0 → i.sustain ∣ m)
    (hold : ∀ s ∈ old, ∀ k, s.c = .minTrials k → k * s.sustain ≤ m)
    (hnew : ∀ k, ConstraintD.minTrials k ∈ new → k ≤ m)
    (hround : ∀ p ∈ (create d design insts old new rcc mode align).preambles.zip
        (create d design insts old new rcc mode align).sizes, p.1 + p.2 ≤ m) :
    (create d design insts old new rcc mode align).n ≤ m := by
  apply create_n_least d design insts old new rcc mode align hal m h1 _ hround
  apply roundUp_le_of_dvd
  · apply minFold_le (Nat.zero_le _)
    intro s hs k hk
    rcases List.mem_append.mp hs with h | h
    · exact hold s h k hk
    · obtain ⟨c, hc, rfl⟩ := List.mem_map.mp h
      simp only at hk
      subst hk
      simpa using hnew k hc
  · intro i hi
    simp only [live, List.mem_filter] at hi
    exact hdvd i hi.1 (by cases h : i.factors <;> simp_all)

/-- Blocks without Nest: all sustain counts are 1, nothing is rounded: the trial count is the largest of 1, the
    MinimumTrials values and the rounds, hence (with `create_n_pos`, `create_n_ge_minTrials`, `create_n_ge_round`,
    `create_n_le_of_common_multiple`) exactly the least number with the three documented properties. -/
theorem create_n_sustain_one (d : Design) (design : List Nat) (insts : List CrossInst) (old : List Scoped)
    (new : List ConstraintD) (rcc : Bool) (mode : Mode) (align : Alignment)
    (hs : ∀ i ∈ insts, i.sustain = 1) :
    (create d design insts old new rcc mode align).n
      = max (max (minT0 (old ++ newScoped0 new))
          (required d design (excludedLevels (old ++ newScoped0 new)) (live insts) align)) 1 := by
  rw [create_n, roundUp_sustain_one]
  intro i hi
  simp only [live, List.mem_filter] at hi
  exact hs i hi.1

/-- the constraints of the result: the inherited ones unchanged, the new ones scoped to this block's length and
    common preamble -/
theorem create_constraints (d : Design) (design : List Nat) (insts : List CrossInst) (old : List Scoped)
    (new : List ConstraintD) (rcc : Bool) (mode : Mode) (align : Alignment) :
    let g := create d design insts old new rcc mode align
    g.constraints = old ++ new.map (fun c => { c := c, scope := some (g.n, g.preambles.headD 0), sustain := 1 }) := by
  have key : ∀ l : List CrossInst,
      (l.map (fun _ => (l.map (preOf d)).foldl max 0)).headD 0 = (l.map (preOf d)).foldl max 0 := by
    intro l; cases l <;> rfl
  intro g
  cases align
  · exact congrArg (fun x => old ++ new.map (fun c => (⟨c, some (g.n, x), 1⟩ : Scoped))) (key (live insts)).symm
  · rfl
  · rfl

/-- C16 for every block expression: the trial count of any block is determined by its own crossings, constraints
    and alignment through the same closed form. -/
theorem geo_n_eq (d : Design) (b : BlockExpr) :
    (geo d b).n = max (max (roundUp (geo d b).crossings (minT0 (geo d b).constraints))
      (required d (geo d b).design (excludedLevels (geo d b).constraints) (geo d b).crossings (geo d b).align)) 1 :=
  (geo_ok d b).n

/-! ## (B) Nest -/

/-- the inner length: the inner block's trials after its (first crossing's) preamble -/
def innerLen (d : Design) (inner : BlockExpr) : Nat := (geo d inner).n - (geo d inner).preambles.headD 0

/-- Nest: the outer crossings keep their factors and weights and have their sustain count multiplied by the inner
    length; the inner crossings are unchanged (weights included, Nest combines in REPEAT mode).  No hypotheses. -/
theorem nest_sustain (d : Design) (outer inner : BlockExpr) (cs : List ConstraintD) (align : Option Alignment) :
    (geo d (.nest outer inner cs align)).crossings
      = (geo d outer).crossings.map (fun i => { i with sustain := i.sustain * innerLen d inner })
        ++ (geo d inner).crossings := by
  simp only [geo, innerLen]
  rw [create_crossings_repeat, live_eq_self]
  intro i hi
  rcases List.mem_append.mp hi with h | h
  · obtain ⟨j, hj, rfl⟩ := List.mem_map.mp h
    exact (geo_ok d outer).live j hj
  · exact (geo_ok d inner).live i h

/-- Nest: constraints given to the outer block have scope (length, preamble) and sustain multiplied by the inner
    length, those of the inner block are unchanged, those given to the Nest itself are scoped to the whole result.
    No hypotheses. -/
theorem nest_scopes (d : Design) (outer inner : BlockExpr) (cs : List ConstraintD) (align : Option Alignment) :
    let L := innerLen d inner
    let g := geo d (.nest outer inner cs align)
    g.constraints
      = (geo d outer).constraints.map (fun s =>
          { s with scope := s.scope.map (fun p => (p.1 * L, p.2 * L)), sustain := s.sustain * L })
        ++ (geo d inner).constraints
        ++ cs.map (fun c => { c := c, scope := some (g.n, g.preambles.headD 0), sustain := 1 }) := by
  simp only [geo, innerLen]
  exact create_constraints ..

theorem headD_map_zero {α} (l : List α) (f : α → Nat) (h : ∀ x ∈ l, f x = 0) : (l.map f).headD 0 = 0 := by
  cases l with
  | nil => rfl
  | cons x xs => exact h x (List.mem_cons_self ..)

/-- Nest: trial count = outer trials × inner trials. -/
theorem nest_trials (d : Design) (outer inner : BlockExpr) (align : Option Alignment)
    (hstart : ∀ i ∈ (geo d outer).crossings ++ (geo d inner).crossings, ∀ f ∈ i.factors, start d f = 0)
    (hminO : ∀ s ∈ (geo d outer).constraints, ∀ k, s.c ≠ .minTrials k)
    (hminI : ∀ s ∈ (geo d inner).constraints, ∀ k, s.c ≠ .minTrials k)
    (hsizeO : ∀ i ∈ (geo d outer).crossings,
      crossSize d (unionIds (geo d outer).design (geo d inner).design) i.factors
          (excludedLevels ((geo d outer).constraints ++ (geo d inner).constraints))
        = crossSize d (geo d outer).design i.factors (excludedLevels (geo d outer).constraints))
    (hsizeI : ∀ i ∈ (geo d inner).crossings,
      crossSize d (unionIds (geo d outer).design (geo d inner).design) i.factors
          (excludedLevels ((geo d outer).constraints ++ (geo d inner).constraints))
        = crossSize d (geo d inner).design i.factors (excludedLevels (geo d inner).constraints)) :
    (geo d (.nest outer inner [] align)).n = (geo d outer).n * (geo d inner).n := by
  have hO := geo_ok d outer
  have hI := geo_ok d inner
  have hpO : ∀ i ∈ (geo d outer).crossings, preOf d i = 0 := by
    intro i hi
    unfold preOf
    rw [maxStart_eq_zero (hstart i (List.mem_append_left _ hi)), Nat.zero_mul]
  have hpI : ∀ i ∈ (geo d inner).crossings, preOf d i = 0 := by
    intro i hi
    unfold preOf
    rw [maxStart_eq_zero (hstart i (List.mem_append_right _ hi)), Nat.zero_mul]
  have hnO := hO.n
  rw [minT0, minFold_eq_of_none 0 hminO, roundUp_zero, required_of_pre_zero _ _ _ _ _ hpO] at hnO
  have hnI := hI.n
  rw [minT0, minFold_eq_of_none 0 hminI, roundUp_zero, required_of_pre_zero _ _ _ _ _ hpI] at hnI
  have hhead : (geo d inner).preambles.headD 0 = 0 := by
    rw [hI.preambles]
    have hz : ((geo d inner).crossings.map (preOf d)).foldl max 0 = 0 := by
      apply Nat.le_antisymm _ (Nat.zero_le _)
      apply foldl_max_le (Nat.le_refl _)
      intro x hx
      obtain ⟨i, hi, rfl⟩ := List.mem_map.mp hx
      exact Nat.le_of_eq (hpI i hi)
    cases (geo d inner).align
    · exact headD_map_zero _ _ (fun _ _ => hz)
    · exact headD_map_zero _ _ hpI
    · exact headD_map_zero _ _ hpI
  simp only [geo]
  rw [hhead, Nat.sub_zero]
  generalize hL : (geo d inner).n = L at *
  show (create d _ _ _ [] _ .repeat _).n = _
  rw [create_n]
  have hlive : live ((geo d outer).crossings.map (fun i => { i with sustain := i.sustain * L })
      ++ (geo d inner).crossings)
      = (geo d outer).crossings.map (fun i => { i with sustain := i.sustain * L }) ++ (geo d inner).crossings := by
    apply live_eq_self
    intro i hi
    rcases List.mem_append.mp hi with h | h
    · obtain ⟨j, hj, rfl⟩ := List.mem_map.mp h
      exact hO.live j hj
    · exact hI.live i h
  rw [hlive]
  have hmin : minT0 ((geo d outer).constraints.map (fun s =>
        ({ s with scope := s.scope.map (fun p => (p.1 * L, p.2 * L)), sustain := s.sustain * L } : Scoped))
      ++ (geo d inner).constraints ++ newScoped0 []) = 0 := by
    apply minFold_eq_of_none 0
    intro s hs k
    simp only [newScoped0, List.map_nil, List.append_nil] at hs
    rcases List.mem_append.mp hs with h | h
    · obtain ⟨s', hs', rfl⟩ := List.mem_map.mp h
      exact hminO s' hs' k
    · exact hminI s h k
  have hexcl : excludedLevels ((geo d outer).constraints.map (fun s =>
        ({ s with scope := s.scope.map (fun p => (p.1 * L, p.2 * L)), sustain := s.sustain * L } : Scoped))
      ++ (geo d inner).constraints ++ newScoped0 [])
      = excludedLevels ((geo d outer).constraints ++ (geo d inner).constraints) := by
    simp only [newScoped0, List.map_nil, List.append_nil]
    rw [excludedLevels_eq, excludedLevels_eq]
    simp [List.map_map, Function.comp_def]
  rw [hmin, hexcl, roundUp_zero, required_of_pre_zero]
  · rw [List.map_append, foldl_max_append, List.map_map]
    have h1 : (geo d outer).crossings.map (roundSize d (unionIds (geo d outer).design (geo d inner).design)
          (excludedLevels ((geo d outer).constraints ++ (geo d inner).constraints)) ∘
          fun i => { i with sustain := i.sustain * L })
        = (geo d outer).crossings.map (fun i =>
          roundSize d (geo d outer).design (excludedLevels (geo d outer).constraints) i * L) := by
      apply List.map_congr_left
      intro i hi
      simp only [Function.comp, roundSize]
      rw [hsizeO i hi, Nat.mul_assoc]
    have h2 : (geo d inner).crossings.map (roundSize d (unionIds (geo d outer).design (geo d inner).design)
          (excludedLevels ((geo d outer).constraints ++ (geo d inner).constraints)))
        = (geo d inner).crossings.map (roundSize d (geo d inner).design (excludedLevels (geo d inner).constraints)) := by
      apply List.map_congr_left
      intro i hi
      simp only [roundSize]
      rw [hsizeI i hi]
    rw [h1, h2, foldl_max_map_mul, hnO]
    generalize ((geo d outer).crossings.map (roundSize d (geo d outer).design
      (excludedLevels (geo d outer).constraints))).foldl max 0 = Mo at *
    generalize ((geo d inner).crossings.map (roundSize d (geo d inner).design
      (excludedLevels (geo d inner).constraints))).foldl max 0 = Mi at *
    rcases Nat.eq_zero_or_pos Mo with h0 | hpos
    · subst h0
      have h10 : max (max 0 0) 1 = 1 := rfl
      rw [h10, Nat.zero_mul, Nat.one_mul]
      omega
    · have hle : L ≤ Mo * L := Nat.le_mul_of_pos_left L hpos
      have hm : max (max 0 Mo) 1 = Mo := by omega
      rw [hm]
      generalize Mo * L = P at *
      omega
  · intro i hi
    rcases List.mem_append.mp hi with h | h
    · obtain ⟨j, hj, rfl⟩ := List.mem_map.mp h
      have := hpO j hj
      unfold preOf at this ⊢
      rcases Nat.mul_eq_zero.mp this with h0 | h0
      · rw [h0, Nat.zero_mul]
      · simp only [h0, Nat.zero_mul, Nat.mul_zero]
    · exact hpI i h

/-! ### Nest of two CrossBlocks -/

theorem leaf_design (d : Design) (D C : List Nat) (cs : List ConstraintD) (r : Bool) :
    (geo d (.cross D C cs r)).design = D := by
  simp only [geo]; rfl

theorem leaf_constraints (d : Design) (D C : List Nat) (cs : List ConstraintD) (r : Bool) :
    (geo d (.cross D C cs r)).constraints.map (·.c) = cs := by
  simp only [geo]
  have := congrArg (List.map Prod.fst) (create_constraints_c d D [⟨C, 1, 1⟩] [] cs r .weight .equalPreamble)
  simpa [List.map_map, Function.comp_def, newScoped0] using this

theorem leaf_factors (d : Design) (D C : List Nat) (cs : List ConstraintD) (r : Bool) :
    ∀ i ∈ (geo d (.cross D C cs r)).crossings, i.factors = C ∧ i.sustain = 1 := by
  simp only [geo]
  obtain ⟨w, _, h⟩ := create_crossings d D [⟨C, 1, 1⟩] [] cs r .weight .equalPreamble
  rw [h]
  intro i hi
  obtain ⟨j, hj, rfl⟩ := List.mem_map.mp hi
  have := (mem_live.mp hj).1
  simp only [List.mem_singleton] at this
  subst this
  exact ⟨rfl, rfl⟩

/-- `Nest(CrossBlock, CrossBlock)`: trial count = outer trials × inner trials, from `nest_trials`.
    `hstartI`, `hsizeO`, `hsizeI` are necessary (counterexamples below).  `hstartO`, `hminO`, `hminI` are inherited
    from the general theorem, where they are necessary (counterexamples below need a Merge / MultiCrossBlock);
    for two CrossBlocks the model gives the product with them violated too (examples below), that is not proved
    here for all inputs. -/
theorem nest_trials_leaves (d : Design) (designO crossingO : List Nat) (csO : List ConstraintD) (rccO : Bool)
    (designI crossingI : List Nat) (csI : List ConstraintD) (rccI : Bool)
    (hstartO : ∀ f ∈ crossingO, start d f = 0) (hstartI : ∀ f ∈ crossingI, start d f = 0)
    (hminO : ∀ k, ConstraintD.minTrials k ∉ csO) (hminI : ∀ k, ConstraintD.minTrials k ∉ csI)
    (hsizeO : crossSize d (unionIds designO designI) crossingO (exclOf (csO ++ csI))
      = crossSize d designO crossingO (exclOf csO))
    (hsizeI : crossSize d (unionIds designO designI) crossingI (exclOf (csO ++ csI))
      = crossSize d designI crossingI (exclOf csI)) :
    (geo d (.nest (.cross designO crossingO csO rccO) (.cross designI crossingI csI rccI) [] none)).n
      = (geo d (.cross designO crossingO csO rccO)).n * (geo d (.cross designI crossingI csI rccI)).n := by
  have hE : excludedLevels ((geo d (.cross designO crossingO csO rccO)).constraints
      ++ (geo d (.cross designI crossingI csI rccI)).constraints) = exclOf (csO ++ csI) := by
    rw [excludedLevels_eq, List.map_append, leaf_constraints, leaf_constraints]
  apply nest_trials
  · intro i hi
    rcases List.mem_append.mp hi with h | h
    · rw [(leaf_factors _ _ _ _ _ i h).1]; exact hstartO
    · rw [(leaf_factors _ _ _ _ _ i h).1]; exact hstartI
  · intro s hs k hk
    have : s.c ∈ (geo d (.cross designO crossingO csO rccO)).constraints.map (·.c) := List.mem_map_of_mem hs
    rw [leaf_constraints, hk] at this
    exact hminO k this
  · intro s hs k hk
    have : s.c ∈ (geo d (.cross designI crossingI csI rccI)).constraints.map (·.c) := List.mem_map_of_mem hs
    rw [leaf_constraints, hk] at this
    exact hminI k this
  · intro i hi
    rw [hE, (leaf_factors _ _ _ _ _ i hi).1, leaf_design, leaf_design, excludedLevels_eq, leaf_constraints]
    exact hsizeO
  · intro i hi
    rw [hE, (leaf_factors _ _ _ _ _ i hi).1, leaf_design, leaf_design, excludedLevels_eq, leaf_constraints]
    exact hsizeI

/-! ### Examples: the hypotheses are satisfiable, and each is needed -/

def oEx : BlockExpr := .cross [0, 1] [0, 1] [] false
def iEx : BlockExpr := .cross [2] [2] [] false
/-- Merge of two Nests: sustain counts 2, 1, 3, 1 and 9 trials -/
def mnEx (cs : List ConstraintD) : BlockExpr :=
  .merge [.nest (.cross [0] [0] [] false) (.cross [2] [2] [] false) [] none,
          .nest (.cross [3] [3] [] false) (.cross [5] [5] [] false) [] none] cs .weight none

/-- 2×2 outer crossing, 2-level inner crossing: 4 × 2 = 8 trials; the outer crossing is sustained 2 trials -/
example : (geo dEx oEx).n = 4 ∧ (geo dEx iEx).n = 2 ∧ (geo dEx (.nest oEx iEx [] none)).n = 8 ∧
    (geo dEx (.nest oEx iEx [] none)).crossings.map (fun i => (i.factors, i.sustain)) = [([0, 1], 2), ([2], 1)] ∧
    (geo dEx (.nest oEx iEx [] none)).sizes = [8, 2] := by decide +kernel

/-- the hypotheses of `nest_trials` hold for it -/
example : (geo dEx (.nest oEx iEx [] none)).n = (geo dEx oEx).n * (geo dEx iEx).n :=
  nest_trials dEx oEx iEx none (by decide +kernel)
    (fun s hs => by
      have h : (geo dEx oEx).constraints = [] := rfl
      rw [h] at hs; cases hs)
    (fun s hs => by
      have h : (geo dEx iEx).constraints = [] := rfl
      rw [h] at hs; cases hs)
    (by decide +kernel) (by decide +kernel)

/-- and those of `nest_trials_leaves`, with constraints on both blocks (3-level inner factor: 4 × 3 = 12) -/
example : (geo dEx (.nest (.cross [0, 1] [0, 1] [.atMost 1 0 none] false)
      (.cross [3] [3] [.exclude 5 0] false) [] none)).n = 4 * 3 := by
  have h := nest_trials_leaves dEx [0, 1] [0, 1] [.atMost 1 0 none] false [3] [3] [.exclude 5 0] false
    (by decide +kernel) (by decide +kernel) (by intro k h; simp at h) (by intro k h; simp at h)
    (by decide +kernel) (by decide +kernel)
  rw [h]
  decide +kernel

/-- `hstart`, inner part, is needed: an inner crossing with a Transition factor has a one-trial preamble; the inner
    length is 5 - 1 = 4 and the Nest has 4 × 4 = 16 trials, not 4 × 5 (sizes are preserved: 4·4 and 4). -/
example :
    let i : BlockExpr := .cross [2, 4] [2, 4] [] false
    (geo dEx oEx).n = 4 ∧ (geo dEx i).n = 5 ∧ (geo dEx i).preambles = [1] ∧ (geo dEx i).sizes = [4] ∧
    (geo dEx (.nest oEx i [] none)).n = 16 ∧ (geo dEx (.nest oEx i [] none)).sizes = [16, 4] := by decide +kernel

/-- `hstart`, outer part, is needed (for an explicit alignment): outer block POST_PREAMBLE with crossings of
    preamble 1, size 2 and preamble 0, size 4 has 1 + 4 = 5 trials; nested PARALLEL_START over a 3-trial inner block
    it needs max (3 + 6) 12 = 12 trials, not 5 × 3. -/
example :
    let o : BlockExpr := .multiCross [0, 1, 2, 4] [[4], [0, 1]] [] false .weight .postPreamble
    let i : BlockExpr := .cross [3] [3] [] false
    (geo dEx o).n = 5 ∧ (geo dEx i).n = 3 ∧ (geo dEx o).sizes = [2, 4] ∧
    (geo dEx (.nest o i [] (some .parallelStart))).n = 12 ∧
    (geo dEx (.nest o i [] (some .parallelStart))).sizes = [6, 12, 3] ∧
    (geo dEx (.nest o i [] (some .parallelStart))).error = none := by decide +kernel

/-- `hminO` is needed: outer MinimumTrials(3) on a 2-level factor (3 trials) over the 9-trial Merge of Nests:
    27 is rounded up to a multiple of 9, then of 2, then of 3: 30 trials, not 3 × 9. -/
example :
    let o : BlockExpr := .cross [1] [1] [.minTrials 3] false
    (geo dEx o).n = 3 ∧ (geo dEx (mnEx [])).n = 9 ∧ (geo dEx (.nest o (mnEx []) [] none)).n = 30 ∧
    (geo dEx (.nest o (mnEx []) [] none)).sizes = [2 * 9, 4, 2, 9, 3] ∧
    (geo dEx (.nest o (mnEx []) [] none)).error = none := by decide +kernel

/-- `hminI` is needed: a 1-level outer factor (1 trial) over the same Merge with MinimumTrials(1) (still 9 trials):
    1 is rounded up to 9, 10, 12: 12 trials, not 1 × 9. -/
example :
    let o : BlockExpr := .cross [6] [6] [] false
    (geo dEx o).n = 1 ∧ (geo dEx (mnEx [.minTrials 1])).n = 9 ∧
    (geo dEx (.nest o (mnEx [.minTrials 1]) [] none)).n = 12 ∧
    (geo dEx (.nest o (mnEx [.minTrials 1]) [] none)).sizes = [1 * 9, 4, 2, 9, 3] ∧
    (geo dEx (.nest o (mnEx [.minTrials 1]) [] none)).error = none := by decide +kernel

/-- `hsizeO` is needed: an Exclude given to the inner block on a level of an outer factor halves the outer crossing
    inside the Nest only: 2·2 = 4 trials, not 4 × 2. -/
example :
    let i : BlockExpr := .cross [2] [2] [.exclude 0 0] false
    (geo dEx oEx).n = 4 ∧ (geo dEx i).n = 2 ∧ (geo dEx (.nest oEx i [] none)).n = 4 ∧
    (geo dEx (.nest oEx i [] none)).sizes = [4, 2] := by decide +kernel

/-- `hsizeI` is needed: symmetrically, an Exclude given to the outer block on an inner level leaves the inner
    crossing 2 of its 3 combinations inside the Nest.  With an outer crossing of size ≥ 1 the product survives this
    (the inner length is taken from the inner block alone); it fails for an outer block with an empty crossing
    (1 trial): 2 trials, not 1 × 3. -/
example :
    let o : BlockExpr := .cross [6] [] [.exclude 3 0] false
    let i : BlockExpr := .cross [3] [3] [] false
    (geo dEx o).n = 1 ∧ (geo dEx i).n = 3 ∧ (geo dEx (.nest o i [] none)).sizes = [2] ∧
    (geo dEx (.nest o i [] none)).n = 2 := by decide +kernel

/-- For two CrossBlocks an outer preamble and MinimumTrials on both blocks do not break the product in the model
    (7 × 4 = 28; the EQUAL_PREAMBLE error is raised separately) — see the remark at `nest_trials_leaves`. -/
example :
    let o : BlockExpr := .cross [2, 4] [2, 4] [.minTrials 7] false
    let i : BlockExpr := .cross [3] [3] [.minTrials 4] false
    (geo dEx o).n = 7 ∧ (geo dEx o).preambles = [1] ∧ (geo dEx i).n = 4 ∧ (geo dEx (.nest o i [] none)).n = 28 := by
  decide +kernel

/-! ## (v) divisibility by the sustain counts -/

/-- What the sustain rounding guarantees: at least `m`, and below every common multiple of the (non-zero) sustain
    counts that is at least `m`.  It is the least such common multiple whenever it is one, e.g. … -/
theorem roundUp_spec (insts : List CrossInst) (m : Nat) :
    m ≤ roundUp insts m ∧
    ∀ m', m ≤ m' → (∀ i ∈ insts, i.sustain ≠ 0 → i.sustain ∣ m') → roundUp insts m ≤ m' :=
  ⟨roundUp_ge insts m, fun _ h hd => roundUp_le_of_dvd h hd⟩

/-- … the last crossing's sustain count always divides it (the rounding is done one crossing after the other). -/
theorem roundUp_dvd_last (insts : List CrossInst) (i : CrossInst) (m : Nat) (h : i.sustain ≠ 0) :
    i.sustain ∣ roundUp (insts ++ [i]) m :=
  roundUp_append_dvd insts i m h

/-- The trial count need NOT be a multiple of every sustain count, even when MinimumTrials is the binding term:
    sustain counts 2 and 3, MinimumTrials(7): 7 → 8 → 9 trials. -/
theorem create_n_not_multiple :
    let g := create dEx [0, 1] [⟨[0], 2, 1⟩, ⟨[1], 3, 1⟩] [] [.minTrials 7] false .weight .equalPreamble
    g.n = 9 ∧ g.crossings.map (·.sustain) = [2, 3] ∧ g.sizes = [4, 6] ∧ ¬ 2 ∣ g.n := by decide +kernel

/-- The same for a block expression, without MinimumTrials: Merge of a 2×2 Nest (sustain 2, size 4) and a 3×3 Nest
    (sustain 3, size 9) has 9 trials. -/
theorem geo_n_not_multiple :
    (geo dEx (mnEx [])).n = 9 ∧ (geo dEx (mnEx [])).crossings.map (·.sustain) = [2, 1, 3, 1] ∧
    (geo dEx (mnEx [])).sizes = [4, 2, 9, 3] ∧ (geo dEx (mnEx [])).error = none ∧ ¬ 2 ∣ (geo dEx (mnEx [])).n := by
  decide +kernel

/-- non-vacuity of (A) on the Nest example: MinimumTrials(9) given to the Nest is rounded up to a multiple of the
    outer crossing's sustain count 2: 10 trials (the rounds need 8) -/
example :
    (geo dEx (.nest oEx iEx [.minTrials 9] none)).n = 10 ∧
    (geo dEx (.nest oEx iEx [.minTrials 9] none)).preambles.zip (geo dEx (.nest oEx iEx [.minTrials 9] none)).sizes
      = [(0, 8), (0, 2)] := by decide +kernel

/-- without an inner preamble the inner length is the inner trial count -/
theorem innerLen_eq (d : Design) (inner : BlockExpr) (h : (geo d inner).preambles.headD 0 = 0) :
    innerLen d inner = (geo d inner).n := by
  unfold innerLen
  rw [h, Nat.sub_zero]

/-- `nest_sustain` / `nest_scopes` on the example: AtMostKInARow given to the 4-trial outer block applies to windows
    of 4·2 = 8 trials with sustain 2, the one given to the 2-trial inner block keeps its windows of 2 trials -/
example :
    let g := geo dEx (.nest (.cross [0, 1] [0, 1] [.atMost 1 0 none] false) (.cross [2] [2] [.atMost 1 2 none] false)
      [] none)
    g.constraints.map (fun s => (s.scope, s.sustain)) = [(some (8, 0), 2), (some (2, 0), 1)] ∧
    g.crossings.map (fun i => (i.factors, i.sustain, i.weight)) = [([0, 1], 2, 1), ([2], 1, 1)] ∧ g.n = 8 := by
  decide +kernel

#print axioms create_n_pos
#print axioms create_n_ge_minTrials
#print axioms create_lengths
#print axioms create_n_ge_round
#print axioms create_n_ge_round_post_own
#print axioms create_n_ge_round_post
#print axioms create_n_eq
#print axioms create_n_ge_rounded
#print axioms create_n_least
#print axioms create_n_least_post
#print axioms create_n_le_of_common_multiple
#print axioms create_n_sustain_one
#print axioms create_constraints
#print axioms geo_n_eq
#print axioms roundUp_spec
#print axioms roundUp_dvd_last
#print axioms create_n_not_multiple
#print axioms geo_n_not_multiple
#print axioms nest_sustain
#print axioms nest_scopes
#print axioms nest_trials
#print axioms nest_trials_leaves
#print axioms innerLen_eq

end SPModel.C25
