/-
  C20 — output conversions preserve trials.  Theorems about `SPModel.Api`.
-/
import SPModel.Api

namespace SPModel.C20
open SPModel SPModel.Api

/-- an experiment that has a column of length `n` for every key -/
def Rect (e : Exp) (keys : List String) (n : Nat) : Prop :=
  ∀ k ∈ keys, ∃ col, e.get k = .ok col ∧ col.length = n

/-- cell `(t, j)` of the tuples of experiment `e` is the `t`-th value of column `keys[j]` -/
theorem toTuples_cell (e : Exp) (keys : List String) (n : Nat) (hne : keys ≠ []) (h : Rect e keys n) :
    ∃ rows, toTuples [e] keys = .ok [rows] ∧ rows.length = n ∧
      ∀ t, t < n → ∀ j, j < keys.length →
        ∃ col, e.get (keys.getD j "") = .ok col ∧ (rows.getD t []).getD j "" = col.getD t "" := by
  sorry

/-- the CSV rows are the header followed by the same tuples -/
theorem csvRows_eq (e : Exp) (keys : List String) (n : Nat) (hne : keys ≠ []) (h : Rect e keys n) :
    ∃ rows, toTuples [e] keys = .ok [rows] ∧ csvRows e keys = .ok (keys :: rows) := by
  sorry

/-- with distinct keys a dict row lists the keys in order with the tuple's values -/
theorem mkDict_distinct (keys vals : List String) (hk : keys.Nodup) (hl : keys.length = vals.length) :
    mkDict keys vals = keys.zip vals := by
  sorry

/-- hidden names never appear among the visible names -/
theorem visibleNames_no_hidden (design : List (String × Bool)) :
    ∀ n ∈ visibleNames design, ∃ p ∈ design, p.1 = n ∧ p.2 = false := by
  sorry

end SPModel.C20
