/-
  C20 — output conversions preserve trials.  Theorems about `SPModel.Api`.
-/
import SPModel.Api
import SPProofs.Misc.Api

namespace SPModel.C20
open SPModel SPModel.Api

/-- an experiment that has a column of length `n` for every key -/
def Rect (e : Exp) (keys : List String) (n : Nat) : Prop :=
  ∀ k ∈ keys, ∃ col, e.get k = .ok col ∧ col.length = n

/-- for a rectangular experiment the tuples are the transposed columns -/
theorem toTuples_rect (e : Exp) (keys : List String) (n : Nat) (hne : keys ≠ []) (h : Rect e keys n) :
    toTuples [e] keys = .ok [(List.range n).map (fun t => keys.map (fun k => (colOf e k).getD t ""))] := by
  have hget : getCols e keys = .ok (keys.map (colOf e)) :=
    getCols_ok e keys (fun k hk => (h k hk).imp fun _ hc => hc.1)
  have hzip : zipCols (keys.map (colOf e)) =
      (List.range n).map (fun t => (keys.map (colOf e)).map (fun col => col.getD t "")) := by
    apply zipCols_rect
    · simpa using hne
    · intro c hc
      obtain ⟨k, hk, rfl⟩ := List.mem_map.mp hc
      obtain ⟨col, hcol, hlen⟩ := h k hk
      rw [colOf_of_get hcol, hlen]
  unfold toTuples
  rw [List.mapM_cons, List.mapM_nil, hget]
  simp only [hzip, List.map_map]
  rfl

/-- cell `(t, j)` of the tuples of experiment `e` is the `t`-th value of column `keys[j]` -/
theorem toTuples_cell (e : Exp) (keys : List String) (n : Nat) (hne : keys ≠ []) (h : Rect e keys n) :
    ∃ rows, toTuples [e] keys = .ok [rows] ∧ rows.length = n ∧
      ∀ t, t < n → ∀ j, j < keys.length →
        ∃ col, e.get (keys.getD j "") = .ok col ∧ (rows.getD t []).getD j "" = col.getD t "" := by
  refine ⟨_, toTuples_rect e keys n hne h, by simp, ?_⟩
  intro t ht j hj
  have hkj : keys.getD j "" = keys[j] := getD_of_lt keys "" j hj
  obtain ⟨col, hcol, _⟩ := h (keys.getD j "") (by rw [hkj]; exact List.getElem_mem hj)
  refine ⟨col, hcol, ?_⟩
  rw [getD_of_lt _ _ t (by simpa using ht), List.getElem_map, List.getElem_range,
    getD_of_lt _ _ j (by simpa using hj), List.getElem_map]
  rw [hkj] at hcol
  rw [colOf_of_get hcol]

/-- the CSV rows are the header followed by the same tuples -/
theorem csvRows_eq (e : Exp) (keys : List String) (n : Nat) (hne : keys ≠ []) (h : Rect e keys n) :
    ∃ rows, toTuples [e] keys = .ok [rows] ∧ csvRows e keys = .ok (keys :: rows) := by
  refine ⟨_, toTuples_rect e keys n hne h, ?_⟩
  cases keys with
  | nil => contradiction
  | cons c0 ks =>
    obtain ⟨first, hfirst, hlen⟩ := h c0 (List.mem_cons_self ..)
    unfold csvRows
    simp only [hfirst, hlen]
    rw [mapM_except_ok _ (fun t => (c0 :: ks).map (fun k => (colOf e k).getD t "")) (List.range n)]
    intro r hr
    apply mapM_except_ok
    intro k hk
    obtain ⟨col, hcol, hl⟩ := h k hk
    have hr' : r < col.length := by rw [hl]; exact List.mem_range.mp hr
    simp only [hcol, colOf_of_get hcol, List.getElem?_eq_getElem hr', getD_of_lt _ _ r hr']

/-- with distinct keys a dict row lists the keys in order with the tuple's values -/
theorem mkDict_distinct (keys vals : List String) (hk : keys.Nodup) (hl : keys.length = vals.length) :
    mkDict keys vals = keys.zip vals := by
  unfold mkDict
  have := mkDict_foldl_fresh (keys.zip vals) [] (by
    rw [List.map_fst_zip (by omega)]; exact hk) (by simp)
  simpa using this

/-- hidden names never appear among the visible names -/
theorem visibleNames_no_hidden (design : List (String × Bool)) :
    ∀ n ∈ visibleNames design, ∃ p ∈ design, p.1 = n ∧ p.2 = false := by
  intro n hn
  unfold visibleNames at hn
  obtain ⟨p, hp, rfl⟩ := List.mem_map.mp hn
  rw [List.mem_filter] at hp
  exact ⟨p, hp.1, rfl, by simpa using hp.2⟩

end SPModel.C20
