/-
  C17 (run-length part) — the mismatch checker's run counting agrees with the
  run semantics the encoders are proved against (C01): both sides of "the
  checker accepts exactly what the encoder generates".
-/
import SPModel.Conform
import SPModel.Compile
import SPProofs.Compile.Runs
import SPProofs.SpecLemmas.Conform

namespace SPModel.C17
open SPModel SPModel.Conform

/-- the checker's `counts` are the maximal runs -/
theorem counts_eq_runs (xs : List Bool) : counts xs = Compile.runs xs := by
  have hf : (fun (p : List Nat × Nat) (x : Bool) =>
      if p.2 > 0 && !x then (p.1 ++ [p.2], 0) else if x then (p.1, p.2 + 1) else p) = C01.step := by
    funext p x
    exact SpecLemmas.counts_step_eq p x
  rw [C01.runs_eq]
  unfold counts
  rw [hf]
  rfl

theorem conforms_atMost (k : Nat) (xs : List Bool) :
    conformsRange .atMost k xs = true ↔ ∀ n ∈ Compile.runs xs, n ≤ k := by
  simp [conformsRange, countsConform, counts_eq_runs]

theorem conforms_atLeast (k : Nat) (xs : List Bool) :
    conformsRange .atLeast k xs = true ↔ ∀ n ∈ Compile.runs xs, k ≤ n := by
  simp [conformsRange, countsConform, counts_eq_runs]

theorem conforms_exactlyInARow (k : Nat) (xs : List Bool) :
    conformsRange .exactlyInARow k xs = true ↔ ∀ n ∈ Compile.runs xs, n = k := by
  simp [conformsRange, countsConform, counts_eq_runs]

theorem conforms_exactlyK (k : Nat) (xs : List Bool) :
    conformsRange .exactlyK k xs = true ↔ (xs.filter id).length = k := by
  have h : (Compile.runs xs).sum = (xs.filter id).length := by
    rw [C01.runs_eq, C01.sum_fin_foldl]
    simp
  simp only [conformsRange, countsConform, counts_eq_runs, C01.foldl_add_eq_sum, beq_iff_eq]
  rw [h]
  omega

end SPModel.C17
