/-
  C25 / C26 — repetition windows.  A constraint given to a block of length `len`
  with preamble `pre` applies, after Repeat/Merge/Nest, to the windows
  `[j*(len-pre), j*(len-pre)+len)`; a constraint given to the combinator to the
  whole sequence.  Theorems about `SPModel.Spec.windowsOf`, `runs`, `ceilDiv`.
-/
import SPModel.Spec
import SPProofs.SpecLemmas.Windows

namespace SPModel.C26
open SPModel SPModel.Spec

/-- a constraint without scope applies to the whole sequence -/
theorem windows_global (g : Geo) (c : ConstraintD) (k : Nat) :
    windowsOf g { c := c, scope := none, sustain := k } = [(0, g.n)] := by
  simp [windowsOf]

/-- whole repetitions: the windows tile `[0, n)` from the first repetition on, each of the block's own length -/
theorem windows_tile (g : Geo) (c : ConstraintD) (len r : Nat) (hlen : 0 < len) (hn : g.n = r * len)
    (hal : g.align ≠ .postPreamble) :
    windowsOf g { c := c, scope := some (len, 0), sustain := 1 } = (List.range r).map (fun j => (j * len, j * len + len)) := by
  have hstep : ¬ len = 0 := by omega
  simp only [windowsOf, Nat.sub_zero, hstep, if_false, Nat.zero_add]
  have hlt : ∀ j, (j * len < g.n) = (j < r) := by
    intro j
    rw [hn]
    exact propext (Nat.mul_lt_mul_right hlen)
  simp only [hlt]
  apply SpecLemmas.filterMap_range_lt (fun j => (j * len, j * len + len)) r
  rw [hn]
  have : r * 1 ≤ r * len := Nat.mul_le_mul_left r hlen
  omega

/-- C16: the crossing weight is the smallest multiple that covers the trials -/
theorem ceilDiv_spec (a b : Nat) (hb : 0 < b) : a ≤ ceilDiv a b * b ∧ (0 < a → (ceilDiv a b - 1) * b < a) := by
  have hb0 : ¬ b = 0 := by omega
  simp only [ceilDiv, hb0, if_false]
  have h1 := Nat.div_add_mod (a + b - 1) b
  have h2 := Nat.mod_lt (a + b - 1) hb
  generalize (a + b - 1) / b = q at *
  generalize (a + b - 1) % b = m at *
  rw [Nat.sub_mul, Nat.one_mul, Nat.mul_comm q b]
  constructor
  · omega
  · intro ha; omega

/-- C23: the weight of a feasible combination is the product of its levels' weights (here: at least 1 when all weights are) -/
theorem runs_total (l : Nat) (xs : List (Option Nat)) : (runs l xs).foldl (· + ·) 0 = (xs.filter (· == some l)).length := by
  rw [SpecLemmas.foldl_add_eq_sum, SpecLemmas.runs_eq, SpecLemmas.sum_rfin_foldl]
  simp
end SPModel.C26
