/-
  C16 (second half) / C14 — the experiment a strategy returns for a solver model has one
  entry per trial for every factor.  Theorem about `SPModel.Decode.decode`, the model of
  `Gen.decode` (tied to the code by correspondence I7d): for a model whose design variables
  are one-hot (which `Consistency` enforces, `Pipeline.consistency_meaning`), whatever
  auxiliary variables and negative literals it also lists and in whatever order, decoding
  succeeds and gives every factor of the active design exactly `trials` entries: the chosen
  level on the trials the factor applies to, '' (none) elsewhere.
-/
import SPModel.Decode
import SPProofs.Properties.C14
import SPProofs.Layout.Decode

namespace SPModel.C16
open SPModel Layout Decode

theorem decode_onehot (b : LBlock) (hwf : C14.WF b) (ht : 0 < b.trials) (sol : List Int) (ρ : Assign)
    (hnodup : (sol.filter (fun v => decide (0 < v))).Nodup)
    (hsol : ∀ v : Nat, 1 ≤ v → v ≤ variablesPerSample b → ((v : Int) ∈ sol ↔ ρ v = true))
    (lev : Nat → Nat → Nat)
    (hlev : ∀ i f, b.factors[i]? = some f → ∀ t, 1 ≤ t → t ≤ b.trials → appliesTrial f t = true →
      lev i t < f.nlevels ∧ ∀ l, l < f.nlevels → (ρ (encodeVar b i l t) = true ↔ l = lev i t)) :
    ∃ rows, decode b sol = .ok rows ∧ rows.length = b.factors.length ∧
      ∀ i f, b.factors[i]? = some f → ∃ row, rows[i]? = some (some row) ∧ row.length = b.trials ∧
        ∀ t, t < b.trials →
          row[t]? = some (if appliesTrial f (t + 1) then some (lev i (t + 1)) else none) := by
  refine ⟨_, decode_eq b hwf ht sol ρ hnodup hsol lev hlev, by simp, ?_⟩
  intro i f hf
  obtain ⟨hi, hfi⟩ := List.getElem?_eq_some_iff.1 hf
  exact ⟨rowOf f b.trials (lev i), by simp [hi, hfi], rowOf_length _ _ _, fun t htt => rowOf_get _ _ _ t htt⟩

/-- Non-vacuity: two trials, a two-level factor and a transition-like complex factor starting at trial 2. -/
example : (match decode { factors := [⟨2, false, 0, 1, 1⟩, ⟨2, true, 1, 1, 1⟩], trials := 2 } [-1, 2, 3, -4, -5, 6, 9] with
    | .ok r => r | .error _ => []) = [some [some 1, some 0], some [none, some 1]] := by decide

end SPModel.C16
