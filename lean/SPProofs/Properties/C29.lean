/-
  C29 (refusal logic) — which designs SMGen refuses.
-/
import SPModel.Conform

namespace SPModel.C29
open SPModel SPModel.Conform

theorem refuses_iff (n : Nat) (kinds windows : List String) :
    smgenRefuses n kinds windows = true ↔
      (n ≠ 1 ∨ (∃ k ∈ kinds, k = "AtMostKInARow" ∨ k = "AtLeastKInARow" ∨ k = "ExactlyK" ∨ k = "Exclude" ∨ k = "Pin")
        ∨ ∃ w ∈ windows, w ≠ "within" ∧ w ≠ "transition") := by
  simp [smgenRefuses, or_assoc]

/-- run-length "in a row exactly", Sequential and MinimumTrials are NOT refused (finding F6: they are ignored or mishandled) -/
theorem accepts_unsupported : smgenRefuses 1 ["ExactlyKInARow", "Sequential", "MinimumTrials"] ["within"] = false := by
  decide

end SPModel.C29
