/-
  C22 (window part) — what a `ContinuousFactorWindow` hands to the sampling
  function.  Theorems about `SPModel.Api.windowVal`.
-/
import SPModel.Api

namespace SPModel.C22
open SPModel SPModel.Api

theorem windowVal_length {α} (w s st : Nat) (vals : List α) (i : Nat) : (windowVal w s st vals i).length = w := by
  unfold windowVal
  split
  · simp
  · split <;> simp

/-- before the start, and on trials skipped by the stride, every entry is NaN -/
theorem windowVal_undefined {α} (w s st : Nat) (vals : List α) (i : Nat)
    (h : i < st ∨ (s > 1 ∧ (i - st) % s ≠ 0)) : windowVal w s st vals i = List.replicate w none := by
  unfold windowVal
  split
  · rfl
  · rcases h with h | h
    · contradiction
    · rw [if_pos h]

/-- otherwise entry `k` is the value of the same sequence `k` trials earlier (NaN before trial 0) -/
theorem windowVal_defined {α} (w s st : Nat) (vals : List α) (i k : Nat)
    (h1 : st ≤ i) (h2 : s ≤ 1 ∨ (i - st) % s = 0) (hk : k < w) :
    (windowVal w s st vals i)[k]? = some (if k ≤ i then vals[i - k]? else none) := by
  unfold windowVal
  rw [if_neg (by omega), if_neg (by omega)]
  simp [hk]

end SPModel.C22
