/-
  C12 — adder and population-count circuits compute sums, and leave no other
  freedom.  Theorems about `SPModel.Card` (the model of `core/cnf.py`).

  Shape: every builder method (1) extends the builder by a `Chain` of
  definitions of consecutive fresh variables (`Ext`) — by `ext_exists_unique`
  this gives, for every assignment of the existing variables, exactly one
  satisfying assignment of the new ones ("no other freedom") — and (2) in any
  assignment satisfying the emitted items the output bits encode the sum.
  `vals_sat_iff_holds` ties the item semantics to the emitted clause lists.
-/
import SPProofs.Card.Pop

namespace SPModel.C12
open SPModel Builder

/-- Clause level = item level: the clauses Python emits are satisfied exactly
    when every item holds. -/
theorem vals_sat_iff_holds (n : Nat) (b : Builder) (h : Ext (fromFresh n) b) (τ : Assign) :
    cnfSat τ b.vals = true ↔ b.Holds τ := by
  exact vals_sat_iff h τ

/-- No other freedom: the gate items added between `b` and `b'` have, over any
    assignment of the variables of `b`, exactly one satisfying extension. -/
theorem ext_exists_unique (b b' : Builder) (h : Ext b b') (σ : Assign) :
    ∃ τ : Assign, Agree b.nvars σ τ ∧
      (∀ it ∈ newItems b b', it.out ≠ none → it.holds τ = true) ∧
      ∀ τ' : Assign, Agree b.nvars σ τ' →
        (∀ it ∈ newItems b b', it.out ≠ none → it.holds τ' = true) → Agree b'.nvars τ τ' := by
  obtain ⟨new, e, c⟩ := h
  rw [newItems_eq e]
  obtain ⟨τ, ha, hh, hu⟩ := c.exists_unique σ
  exact ⟨τ, ha, fun it hm => hh it (List.mem_reverse.2 hm),
    fun τ' ha' hh' => hu τ' ha' (fun it hm => hh' it (List.mem_reverse.1 hm))⟩

theorem halfAdder_spec (b : Builder) (x y : Int) (hx : LitOK b.nvars x) (hy : LitOK b.nvars y) :
    Ext b (b.halfAdder x y).2 ∧
    LitOK (b.halfAdder x y).2.nvars (b.halfAdder x y).1.1 ∧
    LitOK (b.halfAdder x y).2.nvars (b.halfAdder x y).1.2 ∧
    ∀ τ, (b.halfAdder x y).2.Holds τ →
      2 * (litVal τ (b.halfAdder x y).1.1).toNat + (litVal τ (b.halfAdder x y).1.2).toNat
        = (litVal τ x).toNat + (litVal τ y).toNat := by
  obtain ⟨g, hn, hc, hs, hv⟩ := halfAdder_full b x y hx hy
  refine ⟨g.ext, ?_, ?_, hv⟩
  · rw [hc, hn]; exact LitOK.nat (by omega) (by omega)
  · rw [hs, hn]; exact LitOK.nat (by omega) (by omega)

theorem fullAdder_spec (b : Builder) (x y c : Int)
    (hx : LitOK b.nvars x) (hy : LitOK b.nvars y) (hc : LitOK b.nvars c) :
    Ext b (b.fullAdder x y (some c)).2 ∧
    LitOK (b.fullAdder x y (some c)).2.nvars (b.fullAdder x y (some c)).1.1 ∧
    LitOK (b.fullAdder x y (some c)).2.nvars (b.fullAdder x y (some c)).1.2 ∧
    ∀ τ, (b.fullAdder x y (some c)).2.Holds τ →
      2 * (litVal τ (b.fullAdder x y (some c)).1.1).toNat + (litVal τ (b.fullAdder x y (some c)).1.2).toNat
        = (litVal τ x).toNat + (litVal τ y).toNat + (litVal τ c).toNat := by
  obtain ⟨g, hn, hc', hs, hv⟩ := fullAdder_full b x y c hx hy hc
  refine ⟨g.ext, ?_, ?_, hv⟩
  · rw [hc', hn]; exact LitOK.nat (by omega) (by omega)
  · rw [hs, hn]; exact LitOK.nat (by omega) (by omega)

theorem saturateAdder_spec (b : Builder) (x y : Int) (cin : Option Int)
    (hx : LitOK b.nvars x) (hy : LitOK b.nvars y) (hc : ∀ c, cin = some c → LitOK b.nvars c) :
    Ext b (b.saturateAdder x y cin).2 ∧
    LitOK (b.saturateAdder x y cin).2.nvars (b.saturateAdder x y cin).1 ∧
    ∀ τ, (b.saturateAdder x y cin).2.Holds τ →
      litVal τ (b.saturateAdder x y cin).1
        = (litVal τ x || litVal τ y || (match cin with | some c => litVal τ c | none => false)) := by
  obtain ⟨g, hn, hs, hv⟩ := saturateAdder_full b x y cin hx hy hc
  refine ⟨g.ext, ?_, ?_⟩
  · rw [hs, hn]; exact LitOK.nat (by omega) (by omega)
  · intro τ hτ
    rw [hv τ hτ]
    cases cin <;> rfl

/-- `ripple_carry` on operands of equal, non-zero width: carry and sum bits
    (most significant first) encode the sum of the operands. -/
theorem rippleCarry_spec (b : Builder) (xs ys : List Int)
    (hx : ∀ x ∈ xs, LitOK b.nvars x) (hy : ∀ y ∈ ys, LitOK b.nvars y)
    (hlen : xs.length = ys.length) (hpos : 0 < xs.length) :
    ∃ c ss b', b.rippleCarry xs ys = ((some c, ss), b') ∧ Ext b b' ∧
      ss.length = xs.length ∧ (∀ l ∈ c :: ss, LitOK b'.nvars l) ∧
      ∀ τ, b'.Holds τ → bitsVal τ (c :: ss.reverse) = bitsVal τ xs + bitsVal τ ys := by
  obtain ⟨c, ss, b', heq, g, h1, h2, h3⟩ := rippleCarry_full b xs ys hx hy hlen hpos
  exact ⟨c, ss, b', heq, g.ext, h1, h2, h3⟩

/-- `ripple_saturate` on operands of equal width `w ≤ saturate_at`: below the
    saturation width the output is the exact `w+1`-bit sum; at the saturation
    width the operands and the result are in the saturating representation. -/
theorem rippleSaturate_spec (b : Builder) (xs ys : List Int) (sat : Nat)
    (hx : ∀ x ∈ xs, LitOK b.nvars x) (hy : ∀ y ∈ ys, LitOK b.nvars y)
    (hlen : xs.length = ys.length) (hpos : 0 < xs.length) (hsat : xs.length ≤ sat) :
    ∃ out b', b.rippleSaturate xs ys sat = .ok (out, b') ∧ Ext b b' ∧
      out.length = min (xs.length + 1) sat ∧ (∀ l ∈ out, LitOK b'.nvars l) ∧
      ∀ τ, b'.Holds τ →
        (xs.length < sat → bitsVal τ out = bitsVal τ xs + bitsVal τ ys) ∧
        (xs.length = sat → ∀ cx cy, bitsVal τ xs = satRepr sat cx → bitsVal τ ys = satRepr sat cy →
          bitsVal τ out = satRepr sat (cx + cy)) := by
  obtain ⟨out, b', heq, g, h1, h2, h3⟩ := rippleSaturate_full b xs ys sat hx hy hlen hpos hsat
  exact ⟨out, b', heq, g.ext, h1, h2, h3⟩

/-- `pop_count`: the output (most significant first) encodes the number of true
    input literals — exactly when `saturate_at = 0` or the output is narrower
    than `saturate_at`, otherwise in the saturating representation (top bit:
    count ≥ 2^(s-1); low bits: count mod 2^(s-1)). -/
theorem popCount_spec (b : Builder) (xs : List Int) (sat : Nat)
    (hx : ∀ x ∈ xs, LitOK b.nvars x) (hne : xs ≠ []) :
    ∃ out b', b.popCount xs sat = .ok (out, b') ∧ Ext b b' ∧
      (∀ l ∈ out, LitOK b'.nvars l) ∧
      out.length = (if sat = 0 then clog2 xs.length + 1 else min (clog2 xs.length + 1) (max sat 1)) ∧
      ∀ τ, b'.Holds τ →
        bitsVal τ out = (if sat = 0 ∨ out.length < sat then litCount τ xs else satRepr sat (litCount τ xs)) := by
  obtain ⟨out, b', heq, g, hok, hlen, hv⟩ := popCount_full b xs sat hx hne
  refine ⟨out, b', heq, g.ext, hok, ?_, hv⟩
  rw [hlen]
  split
  · rfl
  · congr 1; omega

/-- Non-vacuity: a concrete call meets the hypotheses and produces gates. -/
example : ((fromFresh 3).popCount [1, 2, 3] 2).toOption.map (fun r => (r.1, r.2.nvars)) = some ([11, 10], 11) := by
  decide

end SPModel.C12
