/-
  Partial correctness of the switching conversion (`distSwitch`,
  `toCnfSwitching`): whenever the fuelled model terminates normally the result
  has exactly the formula's models on the original variables.
-/
import SPProofs.Logic.Build

namespace SPModel.Switch
open Formula

/-! ## `AgreeBelow` -/

theorem agree_refl (n : Nat) (σ : Assign) : AgreeBelow n σ σ := fun _ _ _ => rfl

theorem agree_trans {n : Nat} {σ τ ρ : Assign} (h₁ : AgreeBelow n σ τ) (h₂ : AgreeBelow n τ ρ) :
    AgreeBelow n σ ρ := fun v h1 h2 => (h₁ v h1 h2).trans (h₂ v h1 h2)

theorem agree_mono {n m : Nat} {σ τ : Assign} (hm : m ≤ n) (h : AgreeBelow n σ τ) :
    AgreeBelow m σ τ := fun v h1 h2 => h v h1 (Nat.lt_of_lt_of_le h2 hm)

/-! ## `WF` is monotone, `eval` only looks below the bound -/

mutual
theorem WF_mono {m m' : Nat} (h : m ≤ m') : ∀ f : Formula, f.WF m → f.WF m'
  | .lit i, hf => by simp only [Formula.WF] at *; omega
  | .and l, hf => by simp only [Formula.WF] at *; exact WFs_mono h l hf
  | .or l, hf => by simp only [Formula.WF] at *; exact WFs_mono h l hf
  | .not f, hf => by simp only [Formula.WF] at *; exact WF_mono h f hf
  | .imp p q, hf => by
    simp only [Formula.WF] at *; exact ⟨WF_mono h p hf.1, WF_mono h q hf.2⟩
  | .iff p q, hf => by
    simp only [Formula.WF] at *; exact ⟨WF_mono h p hf.1, WF_mono h q hf.2⟩
theorem WFs_mono {m m' : Nat} (h : m ≤ m') : ∀ l : List Formula, Formula.WFs m l → Formula.WFs m' l
  | [], _ => by simp [Formula.WFs]
  | f :: fs, hf => by
    simp only [Formula.WFs] at *; exact ⟨WF_mono h f hf.1, WFs_mono h fs hf.2⟩
end

theorem litVal_agree {m : Nat} {σ τ : Assign} (hag : AgreeBelow m σ τ) (i : Int) (h0 : i ≠ 0)
    (hi : i.natAbs < m) : litVal σ i = litVal τ i := by
  have : σ i.natAbs = τ i.natAbs := hag _ (by omega) hi
  simp [litVal, this]

mutual
theorem eval_agree {m : Nat} {σ τ : Assign} (hag : AgreeBelow m σ τ) :
    ∀ f : Formula, f.WF m → f.eval σ = f.eval τ
  | .lit i, hf => by
    simp only [Formula.WF] at hf; simp only [eval]; exact litVal_agree hag i hf.1 hf.2
  | .and l, hf => by simp only [Formula.WF] at hf; simp only [eval]; exact evalAll_agree hag l hf
  | .or l, hf => by simp only [Formula.WF] at hf; simp only [eval]; exact evalAny_agree hag l hf
  | .not f, hf => by simp only [Formula.WF] at hf; simp only [eval]; rw [eval_agree hag f hf]
  | .imp p q, hf => by
    simp only [Formula.WF] at hf; simp only [eval]
    rw [eval_agree hag p hf.1, eval_agree hag q hf.2]
  | .iff p q, hf => by
    simp only [Formula.WF] at hf; simp only [eval]
    rw [eval_agree hag p hf.1, eval_agree hag q hf.2]
theorem evalAll_agree {m : Nat} {σ τ : Assign} (hag : AgreeBelow m σ τ) :
    ∀ l : List Formula, Formula.WFs m l → evalAll σ l = evalAll τ l
  | [], _ => by simp [evalAll]
  | f :: fs, hf => by
    simp only [Formula.WFs] at hf; simp only [evalAll]
    rw [eval_agree hag f hf.1, evalAll_agree hag fs hf.2]
theorem evalAny_agree {m : Nat} {σ τ : Assign} (hag : AgreeBelow m σ τ) :
    ∀ l : List Formula, Formula.WFs m l → evalAny σ l = evalAny τ l
  | [], _ => by simp [evalAny]
  | f :: fs, hf => by
    simp only [Formula.WFs] at hf; simp only [evalAny]
    rw [eval_agree hag f hf.1, evalAny_agree hag fs hf.2]
end

/-! ## Semantic refinement with fresh variables -/

/-- `g` (over variables `< m'`) refines `f` (over variables `< m`): every model
    of `g` is a model of `f`, and every model of `f` extends to one of `g`
    without changing the variables below `m`. -/
def Sem (f : Formula) (m : Nat) (g : Formula) (m' : Nat) : Prop :=
  m ≤ m' ∧ (∀ τ, g.eval τ = true → f.eval τ = true) ∧
    (∀ σ, f.eval σ = true → ∃ τ, AgreeBelow m σ τ ∧ g.eval τ = true)

theorem Sem.refl (f : Formula) (m : Nat) : Sem f m f m :=
  ⟨Nat.le_refl _, fun _ h => h, fun σ h => ⟨σ, agree_refl _ _, h⟩⟩

theorem Sem.of_eq {f g : Formula} (m : Nat) (h : ∀ τ, g.eval τ = f.eval τ) : Sem f m g m :=
  ⟨Nat.le_refl _, fun τ hg => by rw [← h]; exact hg, fun σ hf => ⟨σ, agree_refl _ _, by rw [h]; exact hf⟩⟩

theorem Sem.trans {f g k : Formula} {m m1 m2 : Nat} (h₁ : Sem f m g m1) (h₂ : Sem g m1 k m2) :
    Sem f m k m2 := by
  obtain ⟨le1, s1, c1⟩ := h₁
  obtain ⟨le2, s2, c2⟩ := h₂
  refine ⟨Nat.le_trans le1 le2, fun τ hk => s1 τ (s2 τ hk), fun σ hf => ?_⟩
  obtain ⟨τ1, ag1, hg⟩ := c1 σ hf
  obtain ⟨τ2, ag2, hk⟩ := c2 τ1 hg
  exact ⟨τ2, agree_trans ag1 (agree_mono le1 ag2), hk⟩

/-- The invariant of `distSwitch`. -/
def Good (f : Formula) (m : Nat) (g : Formula) (m' : Nat) : Prop :=
  Sem f m g m' ∧ g.WF m' ∧ g.Shape ∧ (f.isOr = false → g.isOr = false)

theorem Good.refl {f : Formula} {m : Nat} (hwf : f.WF m) (hs : f.Shape) : Good f m f m :=
  ⟨Sem.refl f m, hwf, hs, fun h => h⟩

/-! ## The two combinations -/

theorem all_or_const {α : Type} (b : Bool) (p : α → Bool) (l : List α) :
    l.all (fun y => b || p y) = (b || l.all p) := by
  induction l with
  | nil => simp
  | cons a l ih => simp only [List.all_cons, ih]; cases b <;> simp

theorem all_all_or {α : Type} (p : α → Bool) (l0 l1 : List α) :
    l0.all (fun x => l1.all (fun y => p x || p y)) = (l0.all p || l1.all p) := by
  induction l0 with
  | nil => simp
  | cons a l ih =>
    rw [List.all_cons, List.all_cons, ih, all_or_const]
    cases p a <;> cases l.all p <;> cases l1.all p <;> rfl

theorem listForCrossing_eval (τ : Assign) (c : Formula) (h : c.isOr = false) :
    evalAll τ (listForCrossing c) = c.eval τ := by
  cases c <;> simp [listForCrossing, evalAll, eval, isOr] at *

theorem listForCrossing_WF {n : Nat} (c : Formula) (h : c.WF n) : ∀ x ∈ listForCrossing c, x.WF n := by
  cases c <;> simp only [listForCrossing, List.mem_singleton, forall_eq] <;> try exact h
  all_goals simp only [Formula.WF] at h; exact (WFs_iff _ _).1 h

theorem listForCrossing_Shape (c : Formula) (h : c.Shape) : ∀ x ∈ listForCrossing c, x.Shape := by
  cases c <;> simp only [listForCrossing, List.mem_singleton, forall_eq] <;> try exact h
  · simp only [Formula.Shape] at h; exact (Shapes_iff _).1 h
  · simp only [Formula.Shape] at h; exact (Shapes_iff _).1 h.1

/-- the `And` of pairwise `Or`s that `__naive_combination` builds -/
def crossAnd (c0 c1 : Formula) : Formula :=
  Formula.and (((listForCrossing c0).flatMap (fun x => (listForCrossing c1).map (fun y => [x, y]))).map
    (fun l => Formula.or (sortFormulas (flattenOr l))))

theorem eval_crossAnd (τ : Assign) (c0 c1 : Formula) (h0 : c0.isOr = false) (h1 : c1.isOr = false) :
    (crossAnd c0 c1).eval τ = (c0.eval τ || c1.eval τ) := by
  have hb : ∀ l, evalAny τ (sortFormulas (flattenOr l)) = l.any (eval τ) := by
    intro l
    have := eval_buildOr τ l
    rw [evalAny_eq_any] at this
    simpa only [buildOr, eval] using this
  rw [← listForCrossing_eval τ c0 h0, ← listForCrossing_eval τ c1 h1]
  simp only [crossAnd, eval, evalAll_eq_all, List.all_map, List.all_flatMap, Function.comp_def, hb]
  simp only [List.any_cons, List.any_nil, Bool.or_false]
  exact all_all_or (eval τ) _ _

theorem WF_crossAnd {n : Nat} (c0 c1 : Formula) (h0 : c0.WF n) (h1 : c1.WF n) : (crossAnd c0 c1).WF n := by
  simp only [crossAnd, Formula.WF, WFs_iff, List.mem_map, List.mem_flatMap]
  rintro g ⟨l, ⟨x, hx, y, hy, rfl⟩, rfl⟩
  apply WF_buildOr
  intro z hz
  simp only [List.mem_cons, List.not_mem_nil, or_false] at hz
  rcases hz with rfl | rfl
  · exact listForCrossing_WF c0 h0 _ hx
  · exact listForCrossing_WF c1 h1 _ hy

theorem Shape_crossAnd (c0 c1 : Formula) (h0 : c0.Shape) (h1 : c1.Shape) : (crossAnd c0 c1).Shape := by
  simp only [crossAnd, Formula.Shape, Shapes_iff, List.mem_map, List.mem_flatMap]
  rintro g ⟨l, ⟨x, hx, y, hy, rfl⟩, rfl⟩
  apply Shape_buildOr
  intro z hz
  simp only [List.mem_cons, List.not_mem_nil, or_false] at hz
  rcases hz with rfl | rfl
  · exact listForCrossing_Shape c0 h0 _ hx
  · exact listForCrossing_Shape c1 h1 _ hy

theorem naiveCombination_eq (c0 c1 : Formula) (rest : List Formula) :
    naiveCombination c0 c1 rest =
      if rest.isEmpty then crossAnd c0 c1 else buildOr (crossAnd c0 c1 :: rest) := rfl

/-- either `comb` alone or `buildOr (comb :: rest)` -/
theorem eval_withRest (τ : Assign) (comb : Formula) (rest : List Formula) :
    (if rest.isEmpty then comb else buildOr (comb :: rest)).eval τ = (comb.eval τ || evalAny τ rest) := by
  cases rest with
  | nil => simp [evalAny]
  | cons r rs => simp [eval_buildOr, evalAny]

theorem WF_withRest {n : Nat} (comb : Formula) (rest : List Formula) (hc : comb.WF n)
    (hr : ∀ r ∈ rest, r.WF n) : (if rest.isEmpty then comb else buildOr (comb :: rest)).WF n := by
  split
  · exact hc
  · apply WF_buildOr
    intro g hg
    rcases List.mem_cons.1 hg with rfl | hg
    · exact hc
    · exact hr g hg

theorem Shape_withRest (comb : Formula) (rest : List Formula) (hc : comb.Shape)
    (hr : ∀ r ∈ rest, r.Shape) : (if rest.isEmpty then comb else buildOr (comb :: rest)).Shape := by
  split
  · exact hc
  · apply Shape_buildOr
    intro g hg
    rcases List.mem_cons.1 hg with rfl | hg
    · exact hc
    · exact hr g hg

/-- the switched pair `(¬s ∨ c0) ∧ (s ∨ c1)` -/
def switchAnd (c0 c1 : Formula) (fr : Nat) : Formula :=
  Formula.and [.or [.not (.lit fr), c0], .or [.lit fr, c1]]

theorem switchingCombination_eq (c0 c1 : Formula) (rest : List Formula) (fr : Nat) :
    switchingCombination c0 c1 rest fr =
      (if rest.isEmpty then switchAnd c0 c1 fr else buildOr (switchAnd c0 c1 fr :: rest), fr + 1) := rfl

theorem eval_switchAnd (τ : Assign) (c0 c1 : Formula) (fr : Nat) (hfr : 0 < fr) :
    (switchAnd c0 c1 fr).eval τ = ((!τ fr || c0.eval τ) && (τ fr || c1.eval τ)) := by
  simp [switchAnd, eval, evalAll, evalAny, litVal, hfr]

theorem WF_switchAnd (c0 c1 : Formula) (fr : Nat) (hfr : 0 < fr) (h0 : c0.WF fr) (h1 : c1.WF fr) :
    (switchAnd c0 c1 fr).WF (fr + 1) := by
  have h : ¬ fr = 0 := by omega
  have h0' := WF_mono (Nat.le_succ fr) c0 h0
  have h1' := WF_mono (Nat.le_succ fr) c1 h1
  simp [switchAnd, Formula.WF, Formula.WFs, h, h0', h1']

theorem Shape_switchAnd (c0 c1 : Formula) (fr : Nat) (h0 : c0.Shape) (h1 : c1.Shape)
    (o0 : c0.isOr = false) (o1 : c1.isOr = false) : (switchAnd c0 c1 fr).Shape := by
  simp only [switchAnd, Formula.Shape, Formula.Shapes, Formula.isLit, List.mem_cons, List.not_mem_nil,
    or_false, forall_eq_or_imp, forall_eq, and_true, true_and]
  exact ⟨⟨h0, rfl, o0⟩, h1, rfl, o1⟩

theorem Sem_switch (c0 c1 : Formula) (rest : List Formula) (fr : Nat) (hfr : 0 < fr)
    (h0 : c0.WF fr) (h1 : c1.WF fr) (hr : ∀ r ∈ rest, r.WF fr) :
    Sem (.or (c0 :: c1 :: rest)) fr
      (if rest.isEmpty then switchAnd c0 c1 fr else buildOr (switchAnd c0 c1 fr :: rest)) (fr + 1) := by
  refine ⟨Nat.le_succ _, fun τ hg => ?_, fun σ hf => ?_⟩
  · rw [eval_withRest, eval_switchAnd _ _ _ _ hfr] at hg
    simp only [eval, evalAny]
    revert hg
    cases τ fr <;> cases c0.eval τ <;> cases c1.eval τ <;> cases evalAny τ rest <;> simp
  · let τ : Assign := fun v => if v = fr then c0.eval σ else σ v
    have hag : AgreeBelow fr σ τ := by
      intro v _ hv
      have : v ≠ fr := by omega
      simp [τ, this]
    refine ⟨τ, hag, ?_⟩
    rw [eval_withRest, eval_switchAnd _ _ _ _ hfr, ← eval_agree hag c0 h0, ← eval_agree hag c1 h1,
      ← evalAny_agree hag rest ((WFs_iff _ _).2 hr)]
    have hτ : τ fr = c0.eval σ := by simp [τ]
    rw [hτ]
    simp only [eval, evalAny] at hf
    revert hf
    cases c0.eval σ <;> cases c1.eval σ <;> cases evalAny σ rest <;> simp

/-! ## The fold over the children -/

/-- What the left-to-right fold over the children `l` establishes for its results `gs`. -/
structure FoldGood (l : List Formula) (m : Nat) (gs : List Formula) (m' : Nat) : Prop where
  le : m ≤ m'
  wf : ∀ g ∈ gs, g.WF m'
  shape : ∀ g ∈ gs, g.Shape
  notOr : (∀ e ∈ l, e.isOr = false) → ∀ g ∈ gs, g.isOr = false
  soundAll : ∀ τ, (∀ g ∈ gs, g.eval τ = true) → ∀ e ∈ l, e.eval τ = true
  soundAny : ∀ τ, (∃ g ∈ gs, g.eval τ = true) → ∃ e ∈ l, e.eval τ = true
  complAll : ∀ σ, (∀ e ∈ l, e.eval σ = true) → ∃ τ, AgreeBelow m σ τ ∧ ∀ g ∈ gs, g.eval τ = true
  complAny : ∀ σ, (∃ e ∈ l, e.eval σ = true) → ∃ τ, AgreeBelow m σ τ ∧ ∃ g ∈ gs, g.eval τ = true

theorem fold_spec (D : Formula → Nat → Except PyErr (Formula × Nat))
    (hD : ∀ e m g m', D e m = .ok (g, m') → 0 < m → e.WF m → e.Shape → Good e m g m') :
    ∀ (l : List Formula) (acc : List Formula) (fr : Nat) (cs : List Formula) (fr' : Nat),
    l.foldlM (fun (acc : List Formula × Nat) e =>
          match D e acc.2 with
          | .ok (g, fr) => Except.ok (acc.1 ++ [g], fr)
          | .error e => .error e) (acc, fr) = .ok (cs, fr') →
    0 < fr → (∀ e ∈ l, e.WF fr) → (∀ e ∈ l, e.Shape) →
    ∃ gs, cs = acc ++ gs ∧ FoldGood l fr gs fr' := by
  intro l
  induction l with
  | nil =>
    intro acc fr cs fr' h hfr _ _
    simp only [List.foldlM_nil, pure, Except.pure, Except.ok.injEq, Prod.mk.injEq] at h
    obtain ⟨rfl, rfl⟩ := h
    refine ⟨[], by simp, ?_⟩
    constructor <;> simp
    intro σ; exact ⟨σ, agree_refl _ _⟩
  | cons e es ih =>
    intro acc fr cs fr' h hfr hwf hsh
    rw [List.foldlM_cons] at h
    cases hd : D e fr with
    | error x => simp [hd, bind, Except.bind] at h
    | ok p =>
      obtain ⟨g, fr1⟩ := p
      simp only [hd, bind, Except.bind] at h
      have hG := hD e fr g fr1 hd hfr (hwf e (by simp)) (hsh e (by simp))
      obtain ⟨⟨le1, snd, cmp⟩, gwf, gsh, gor⟩ := hG
      have hwf' : ∀ e ∈ es, e.WF fr1 := fun e he => WF_mono le1 e (hwf e (by simp [he]))
      obtain ⟨gs, rfl, FG⟩ := ih (acc ++ [g]) fr1 cs fr' h (by omega) hwf'
        (fun e he => hsh e (by simp [he]))
      refine ⟨g :: gs, by simp, ?_⟩
      have gwf' : g.WF fr' := WF_mono FG.le g gwf
      constructor
      · exact Nat.le_trans le1 FG.le
      · intro x hx
        rcases List.mem_cons.1 hx with rfl | hx
        · exact gwf'
        · exact FG.wf x hx
      · intro x hx
        rcases List.mem_cons.1 hx with rfl | hx
        · exact gsh
        · exact FG.shape x hx
      · intro hno x hx
        rcases List.mem_cons.1 hx with rfl | hx
        · exact gor (hno e (by simp))
        · exact FG.notOr (fun e he => hno e (by simp [he])) x hx
      · intro τ hall x hx
        rcases List.mem_cons.1 hx with rfl | hx
        · exact snd τ (hall g (by simp))
        · exact FG.soundAll τ (fun y hy => hall y (by simp [hy])) x hx
      · rintro τ ⟨x, hx, hxe⟩
        rcases List.mem_cons.1 hx with rfl | hx
        · exact ⟨e, by simp, snd τ hxe⟩
        · obtain ⟨y, hy, hye⟩ := FG.soundAny τ ⟨x, hx, hxe⟩
          exact ⟨y, by simp [hy], hye⟩
      · intro σ hall
        obtain ⟨τ1, ag1, hg1⟩ := cmp σ (hall e (by simp))
        have hes : ∀ x ∈ es, x.eval τ1 = true := fun x hx => by
          rw [← eval_agree ag1 x (hwf x (by simp [hx]))]; exact hall x (by simp [hx])
        obtain ⟨τ2, ag2, hg2⟩ := FG.complAll τ1 hes
        refine ⟨τ2, agree_trans ag1 (agree_mono le1 ag2), fun x hx => ?_⟩
        rcases List.mem_cons.1 hx with rfl | hx
        · rw [← eval_agree ag2 x gwf]; exact hg1
        · exact hg2 x hx
      · rintro σ ⟨x, hx, hxe⟩
        rcases List.mem_cons.1 hx with rfl | hx
        · obtain ⟨τ1, ag1, hg1⟩ := cmp σ hxe
          exact ⟨τ1, ag1, g, by simp, hg1⟩
        · obtain ⟨τ2, ag2, y, hy, hye⟩ := FG.complAny σ ⟨x, hx, hxe⟩
          exact ⟨τ2, agree_mono le1 ag2, y, by simp [hy], hye⟩

/-! ## The main invariant -/

theorem distSwitch_good : ∀ (fuel : Nat) (f : Formula) (m : Nat) (g : Formula) (m' : Nat),
    distSwitch fuel f m = .ok (g, m') → 0 < m → f.WF m → f.Shape → Good f m g m' := by
  intro fuel
  induction fuel with
  | zero => intro f m g m' h; simp [distSwitch] at h
  | succ fuel ih =>
    intro f m g m' h hm hwf hsh
    cases f with
    | lit i =>
      simp only [distSwitch, Except.ok.injEq, Prod.mk.injEq] at h
      obtain ⟨rfl, rfl⟩ := h
      exact Good.refl hwf hsh
    | not f' =>
      cases f' with
      | lit i =>
        simp only [distSwitch, Except.ok.injEq, Prod.mk.injEq] at h
        obtain ⟨rfl, rfl⟩ := h
        exact Good.refl hwf hsh
      | _ => simp [Formula.Shape, Formula.isLit] at hsh
    | imp p q => simp [Formula.Shape] at hsh
    | iff p q => simp [Formula.Shape] at hsh
    | and l =>
      simp only [distSwitch] at h
      split at h
      · simp at h
      · rename_i cs fr hfold
        simp only [Formula.WF] at hwf
        simp only [Formula.Shape] at hsh
        obtain ⟨gs, hcs, FG⟩ := fold_spec (distSwitch fuel) ih l [] m cs fr hfold hm
          ((WFs_iff _ _).1 hwf) ((Shapes_iff _).1 hsh)
        simp only [List.nil_append] at hcs; subst hcs
        simp only [Except.ok.injEq, Prod.mk.injEq] at h
        obtain ⟨rfl, rfl⟩ := h
        refine ⟨⟨FG.le, fun τ hg => ?_, fun σ hf => ?_⟩, WF_buildAnd _ _ FG.wf,
          Shape_buildAnd _ FG.shape, fun _ => rfl⟩
        · rw [eval_buildAnd, evalAll_eq_all, List.all_eq_true] at hg
          simp only [eval, evalAll_eq_all, List.all_eq_true]
          exact FG.soundAll τ hg
        · simp only [eval, evalAll_eq_all, List.all_eq_true] at hf
          obtain ⟨τ, ag, hτ⟩ := FG.complAll σ hf
          refine ⟨τ, ag, ?_⟩
          rw [eval_buildAnd, evalAll_eq_all, List.all_eq_true]; exact hτ
    | or l =>
      simp only [distSwitch] at h
      split at h
      · simp at h
      · rename_i cs fr hfold
        have hwf0 := hwf
        have hsh0 := hsh
        simp only [Formula.WF] at hwf
        simp only [Formula.Shape] at hsh
        obtain ⟨gs, hcs, FG⟩ := fold_spec (distSwitch fuel) ih l [] m cs fr hfold hm
          ((WFs_iff _ _).1 hwf) ((Shapes_iff _).1 hsh.1)
        simp only [List.nil_append] at hcs; subst hcs
        have hno := FG.notOr hsh.2
        have hfr : 0 < fr := Nat.lt_of_lt_of_le hm FG.le
        have hS : Sem (.or l) m (.or (sortFormulas cs)) fr := by
          refine ⟨FG.le, fun τ hg => ?_, fun σ hf => ?_⟩
          · simp only [eval, evalAny_eq_any, List.any_eq_true, mem_sortFormulas] at hg ⊢
            exact FG.soundAny τ hg
          · simp only [eval, evalAny_eq_any, List.any_eq_true, mem_sortFormulas] at hf ⊢
            exact FG.complAny σ hf
        have hmem : ∀ x ∈ sortFormulas cs, x ∈ cs := fun x hx => (mem_sortFormulas x cs).1 hx
        have hnoOr : ∀ h : (Formula.or l).isOr = false, g.isOr = false := fun h => by simp [isOr] at h
        split at h
        · simp only [Except.ok.injEq, Prod.mk.injEq] at h
          obtain ⟨rfl, rfl⟩ := h
          exact Good.refl hwf0 hsh0
        · rename_i c heq
          simp only [Except.ok.injEq, Prod.mk.injEq] at h
          obtain ⟨rfl, rfl⟩ := h
          rw [heq] at hS hmem
          have hc := hmem c (by simp)
          refine ⟨hS.trans (Sem.of_eq _ (fun τ => by simp [eval, evalAny])), FG.wf c hc, FG.shape c hc, hnoOr⟩
        · rename_i c0 c1 rest heq
          rw [heq] at hS hmem
          have m0 := hmem c0 (by simp)
          have m1 := hmem c1 (by simp)
          have mr : ∀ r ∈ rest, r ∈ cs := fun r hr => hmem r (by simp [hr])
          split at h
          · simp only [Except.ok.injEq, Prod.mk.injEq] at h
            obtain ⟨rfl, rfl⟩ := h
            exact Good.refl hwf0 hsh0
          · split at h
            · have G := ih _ _ _ _ h hfr
                (by rw [naiveCombination_eq]
                    exact WF_withRest _ _ (WF_crossAnd _ _ (FG.wf _ m0) (FG.wf _ m1))
                      (fun r hr => FG.wf r (mr r hr)))
                (by rw [naiveCombination_eq]
                    exact Shape_withRest _ _ (Shape_crossAnd _ _ (FG.shape _ m0) (FG.shape _ m1))
                      (fun r hr => FG.shape r (mr r hr)))
              refine ⟨hS.trans ((Sem.of_eq fr (fun τ => ?_)).trans G.1), G.2.1, G.2.2.1, hnoOr⟩
              rw [naiveCombination_eq, eval_withRest, eval_crossAnd τ _ _ (hno _ m0) (hno _ m1)]
              simp [eval, evalAny, Bool.or_assoc]
            · rw [switchingCombination_eq] at h
              have G := ih _ _ _ _ h (Nat.succ_pos fr)
                (WF_withRest _ _ (WF_switchAnd _ _ _ hfr (FG.wf _ m0) (FG.wf _ m1))
                  (fun r hr => WF_mono (Nat.le_succ fr) r (FG.wf r (mr r hr))))
                (Shape_withRest _ _ (Shape_switchAnd _ _ _ (FG.shape _ m0) (FG.shape _ m1)
                  (hno _ m0) (hno _ m1)) (fun r hr => FG.shape r (mr r hr)))
              exact ⟨hS.trans ((Sem_switch c0 c1 rest fr hfr (FG.wf _ m0) (FG.wf _ m1)
                (fun r hr => FG.wf r (mr r hr))).trans G.1), G.2.1, G.2.2.1, hnoOr⟩

end SPModel.Switch

namespace SPModel
open Formula Switch

/-- Switching conversion, partial correctness: if the fuelled model returns
    normally, the result has the formula's models on the original variables and
    uses fresh variables only from `[n, n')`. -/
theorem switching_models_partial' (fuel : Nat) (f g : Formula) (n n' : Nat) (hn : 0 < n) (hf : f.WF n)
    (h : toCnfSwitching fuel f n = .ok (g, n')) (σ : Assign) :
    n ≤ n' ∧ g.WF n' ∧ (f.eval σ = true ↔ ∃ τ, AgreeBelow n σ τ ∧ g.eval τ = true) := by
  -- the result of `distSwitch` on the negation normal form, before the final wrapping
  have key : ∃ g0, distSwitch fuel (demorgan false (elimIff f)) n = .ok (g0, n') ∧
      (∀ τ, g.eval τ = g0.eval τ) ∧ (g0.WF n' → g.WF n') := by
    unfold toCnfSwitching at h
    split at h
    · simp at h
    · rename_i l k heq
      simp only [Except.ok.injEq, Prod.mk.injEq] at h
      obtain ⟨rfl, rfl⟩ := h
      exact ⟨_, heq, fun _ => rfl, fun h => h⟩
    · rename_i g0 k _ heq
      simp only [Except.ok.injEq, Prod.mk.injEq] at h
      obtain ⟨rfl, rfl⟩ := h
      refine ⟨g0, heq, fun τ => by simp [eval, evalAll], fun h => ?_⟩
      simp [Formula.WF, Formula.WFs, h]
  obtain ⟨g0, h0, hev, hwf⟩ := key
  obtain ⟨⟨le, snd, cmp⟩, gwf, _, _⟩ :=
    distSwitch_good fuel _ n g0 n' h0 hn (WF_nnf n f hf) (Shape_nnf f)
  refine ⟨le, hwf gwf, fun hσ => ?_, fun ⟨τ, ag, hτ⟩ => ?_⟩
  · obtain ⟨τ, ag, hτ⟩ := cmp σ (by rw [eval_nnf]; exact hσ)
    exact ⟨τ, ag, by rw [hev]; exact hτ⟩
  · rw [hev] at hτ
    have := snd τ hτ
    rw [eval_nnf] at this
    rw [eval_agree ag f hf]; exact this

end SPModel
