/-
  Partial correctness of the switching conversion (`distSwitch`,
  `toCnfSwitching`): whenever the fuelled model terminates normally the result
  has exactly the formula's models on the original variables.
-/
import SPProofs.Logic.Build

namespace SPModel
open Formula

/-! ## `AgreeBelow` -/

theorem AgreeBelow.refl (n : Nat) (σ : Assign) : AgreeBelow n σ σ := fun _ _ _ => rfl

theorem AgreeBelow.trans {n : Nat} {σ τ ρ : Assign} (h₁ : AgreeBelow n σ τ) (h₂ : AgreeBelow n τ ρ) :
    AgreeBelow n σ ρ := fun v h1 h2 => (h₁ v h1 h2).trans (h₂ v h1 h2)

theorem AgreeBelow.symm {n : Nat} {σ τ : Assign} (h : AgreeBelow n σ τ) : AgreeBelow n τ σ :=
  fun v h1 h2 => (h v h1 h2).symm

theorem AgreeBelow.mono {n m : Nat} {σ τ : Assign} (hm : m ≤ n) (h : AgreeBelow n σ τ) :
    AgreeBelow m σ τ := fun v h1 h2 => h v h1 (Nat.lt_of_lt_of_le h2 hm)

/-! ## `WF` is monotone, `eval` only looks below the bound -/

mutual
theorem WF_mono {m m' : Nat} (h : m ≤ m') : ∀ f : Formula, f.WF m → f.WF m'
  | .lit i, hf => by simp only [Formula.WF] at *; omega
  | .and l, hf => by simp only [Formula.WF] at *; exact WFs_mono h l hf
  | .or l, hf => by simp only [Formula.WF] at *; exact WFs_mono h l hf
  | .not f, hf => by simp only [Formula.WF] at *; exact WF_mono h f hf
  | .imp p q, hf => by
    simp only [Formula.WF] at *; exact ⟨WF_mono h p hf.1, WF_mono h q hf.2⟩
  | .iff p q, hf => by
    simp only [Formula.WF] at *; exact ⟨WF_mono h p hf.1, WF_mono h q hf.2⟩
theorem WFs_mono {m m' : Nat} (h : m ≤ m') : ∀ l : List Formula, Formula.WFs m l → Formula.WFs m' l
  | [], _ => by simp [Formula.WFs]
  | f :: fs, hf => by
    simp only [Formula.WFs] at *; exact ⟨WF_mono h f hf.1, WFs_mono h fs hf.2⟩
end

theorem litVal_agree {m : Nat} {σ τ : Assign} (hag : AgreeBelow m σ τ) (i : Int) (h0 : i ≠ 0)
    (hi : i.natAbs < m) : litVal σ i = litVal τ i := by
  have : σ i.natAbs = τ i.natAbs := hag _ (by omega) hi
  simp [litVal, this]

mutual
theorem eval_agree {m : Nat} {σ τ : Assign} (hag : AgreeBelow m σ τ) :
    ∀ f : Formula, f.WF m → f.eval σ = f.eval τ
  | .lit i, hf => by
    simp only [Formula.WF] at hf; simp only [eval]; exact litVal_agree hag i hf.1 hf.2
  | .and l, hf => by simp only [Formula.WF] at hf; simp only [eval]; exact evalAll_agree hag l hf
  | .or l, hf => by simp only [Formula.WF] at hf; simp only [eval]; exact evalAny_agree hag l hf
  | .not f, hf => by simp only [Formula.WF] at hf; simp only [eval]; rw [eval_agree hag f hf]
  | .imp p q, hf => by
    simp only [Formula.WF] at hf; simp only [eval]
    rw [eval_agree hag p hf.1, eval_agree hag q hf.2]
  | .iff p q, hf => by
    simp only [Formula.WF] at hf; simp only [eval]
    rw [eval_agree hag p hf.1, eval_agree hag q hf.2]
theorem evalAll_agree {m : Nat} {σ τ : Assign} (hag : AgreeBelow m σ τ) :
    ∀ l : List Formula, Formula.WFs m l → evalAll σ l = evalAll τ l
  | [], _ => by simp [evalAll]
  | f :: fs, hf => by
    simp only [Formula.WFs] at hf; simp only [evalAll]
    rw [eval_agree hag f hf.1, evalAll_agree hag fs hf.2]
theorem evalAny_agree {m : Nat} {σ τ : Assign} (hag : AgreeBelow m σ τ) :
    ∀ l : List Formula, Formula.WFs m l → evalAny σ l = evalAny τ l
  | [], _ => by simp [evalAny]
  | f :: fs, hf => by
    simp only [Formula.WFs] at hf; simp only [evalAny]
    rw [eval_agree hag f hf.1, evalAny_agree hag fs hf.2]
end

end SPModel
