/- Helper lemmas for the model of `logic.py`: bridging the mutual list
   recursions to `List.all`/`List.any`/membership, and literal values. -/
import SPProofs.Logic.Sem

namespace SPModel
open Formula

theorem evalAll_eq_all (τ : Assign) (l : List Formula) : evalAll τ l = l.all (eval τ) := by
  induction l with
  | nil => simp [evalAll]
  | cons f fs ih => simp [evalAll, ih]

theorem evalAny_eq_any (τ : Assign) (l : List Formula) : evalAny τ l = l.any (eval τ) := by
  induction l with
  | nil => simp [evalAny]
  | cons f fs ih => simp [evalAny, ih]

theorem WFs_iff (n : Nat) (l : List Formula) : Formula.WFs n l ↔ ∀ g ∈ l, g.WF n := by
  induction l with
  | nil => simp [Formula.WFs]
  | cons f fs ih => simp [Formula.WFs, ih]

theorem NoImps_iff (l : List Formula) : Formula.NoImps l ↔ ∀ g ∈ l, g.NoImp := by
  induction l with
  | nil => simp [Formula.NoImps]
  | cons f fs ih => simp [Formula.NoImps, ih]

theorem Shapes_iff (l : List Formula) : Formula.Shapes l ↔ ∀ g ∈ l, g.Shape := by
  induction l with
  | nil => simp [Formula.Shapes]
  | cons f fs ih => simp [Formula.Shapes, ih]

theorem mem_varsList (v : Nat) (l : List Formula) :
    v ∈ Formula.varsList l ↔ ∃ g ∈ l, v ∈ g.vars := by
  induction l with
  | nil => simp [Formula.varsList]
  | cons f fs ih => simp [Formula.varsList, ih]

theorem litVal_neg (τ : Assign) (v : Int) (hv : v ≠ 0) : litVal τ (-v) = !litVal τ v := by
  unfold litVal
  by_cases h : 0 < v
  · have : ¬ (0 < -v) := by omega
    simp [h]; omega
  · have : 0 < -v := by omega
    simp [h]; omega

end SPModel
