/- Helper lemmas for the model of `logic.py`. -/
import SPProofs.Logic.Sem

namespace SPModel

end SPModel
