/-
  Interface lemmas about the building blocks shared by the naive and the
  switching conversion: stable sort, flatten, `buildAnd`/`buildOr`, and the
  negation-normal-form pipeline `demorgan false ∘ elimIff`.
-/
import SPProofs.Logic.Lemmas

namespace SPModel
open Formula

/-! ### sorting is a permutation -/

theorem insertByKey_perm (x : Int × Formula) (l : List (Int × Formula)) :
    (insertByKey x l).Perm (x :: l) := by
  induction l with
  | nil => simp [insertByKey]
  | cons y ys ih =>
    simp only [insertByKey]
    split
    · exact List.Perm.refl _
    · exact (List.Perm.cons y ih).trans (List.Perm.swap x y ys)

theorem sortByKey_perm (l : List (Int × Formula)) : (sortByKey l).Perm l := by
  induction l with
  | nil => simp [sortByKey]
  | cons x xs ih =>
    have : sortByKey (x :: xs) = insertByKey x (sortByKey xs) := by simp [sortByKey]
    rw [this]
    exact (insertByKey_perm x _).trans (List.Perm.cons x ih)

theorem sortFormulas_perm (l : List Formula) : (sortFormulas l).Perm l := by
  have h := List.Perm.map (fun p : Int × Formula => p.2)
    (sortByKey_perm (l.map (fun f => (orderKey f, f))))
  simpa [sortFormulas, List.map_map, Function.comp_def] using h

theorem mem_sortFormulas (g : Formula) (l : List Formula) : g ∈ sortFormulas l ↔ g ∈ l :=
  (sortFormulas_perm l).mem_iff

theorem evalAll_sortFormulas (τ : Assign) (l : List Formula) :
    evalAll τ (sortFormulas l) = evalAll τ l := by
  rw [evalAll_eq_all, evalAll_eq_all]; exact (sortFormulas_perm l).all_eq

theorem evalAny_sortFormulas (τ : Assign) (l : List Formula) :
    evalAny τ (sortFormulas l) = evalAny τ l := by
  rw [evalAny_eq_any, evalAny_eq_any]; exact (sortFormulas_perm l).any_eq

/-! ### append -/

theorem evalAll_append (τ : Assign) (l r : List Formula) :
    evalAll τ (l ++ r) = (evalAll τ l && evalAll τ r) := by
  simp [evalAll_eq_all]

theorem evalAny_append (τ : Assign) (l r : List Formula) :
    evalAny τ (l ++ r) = (evalAny τ l || evalAny τ r) := by
  simp [evalAny_eq_any]

theorem varsList_append (l r : List Formula) :
    Formula.varsList (l ++ r) = Formula.varsList l ++ Formula.varsList r := by
  induction l with
  | nil => simp [Formula.varsList]
  | cons f fs ih => simp [Formula.varsList, ih]

/-! ### flatten -/

theorem evalAll_flattenAnd (τ : Assign) (l : List Formula) :
    evalAll τ (flattenAnd l) = evalAll τ l := by
  fun_induction flattenAnd l with
  | case1 => rfl
  | case2 l rest ih => simp [evalAll_append, evalAll, eval, ih]
  | case3 f rest _ ih => simp [evalAll, ih]

theorem evalAny_flattenOr (τ : Assign) (l : List Formula) :
    evalAny τ (flattenOr l) = evalAny τ l := by
  fun_induction flattenOr l with
  | case1 => rfl
  | case2 l rest ih => simp [evalAny_append, evalAny, eval, ih]
  | case3 f rest _ ih => simp [evalAny, ih]

/-- Membership in `flattenAnd`: either a non-`and` element, or a child of an `and` element. -/
theorem mem_flattenAnd (g : Formula) (l : List Formula) :
    g ∈ flattenAnd l ↔ (g ∈ l ∧ ∀ l', g ≠ .and l') ∨ ∃ l', Formula.and l' ∈ l ∧ g ∈ l' := by
  fun_induction flattenAnd l with
  | case1 => simp
  | case2 l rest ih =>
    simp only [List.mem_append, ih, List.mem_cons, Formula.and.injEq]
    constructor
    · rintro (h | ⟨h, hn⟩ | ⟨l', h, hg⟩)
      · exact .inr ⟨l, .inl rfl, h⟩
      · exact .inl ⟨.inr h, hn⟩
      · exact .inr ⟨l', .inr h, hg⟩
    · rintro (⟨h | h, hn⟩ | ⟨l', h | h, hg⟩)
      · exact absurd h (hn l)
      · exact .inr (.inl ⟨h, hn⟩)
      · exact .inl (h ▸ hg)
      · exact .inr (.inr ⟨l', h, hg⟩)
  | case3 f rest hf ih =>
    simp only [List.mem_cons, ih]
    constructor
    · rintro (h | ⟨h, hn⟩ | ⟨l', h, hg⟩)
      · exact .inl ⟨.inl h, fun l' e => hf l' (h ▸ e)⟩
      · exact .inl ⟨.inr h, hn⟩
      · exact .inr ⟨l', .inr h, hg⟩
    · rintro (⟨h | h, hn⟩ | ⟨l', h | h, hg⟩)
      · exact .inl h
      · exact .inr (.inl ⟨h, hn⟩)
      · exact absurd h.symm (hf l')
      · exact .inr (.inr ⟨l', h, hg⟩)

theorem mem_flattenOr (g : Formula) (l : List Formula) :
    g ∈ flattenOr l ↔ (g ∈ l ∧ ∀ l', g ≠ .or l') ∨ ∃ l', Formula.or l' ∈ l ∧ g ∈ l' := by
  fun_induction flattenOr l with
  | case1 => simp
  | case2 l rest ih =>
    simp only [List.mem_append, ih, List.mem_cons, Formula.or.injEq]
    constructor
    · rintro (h | ⟨h, hn⟩ | ⟨l', h, hg⟩)
      · exact .inr ⟨l, .inl rfl, h⟩
      · exact .inl ⟨.inr h, hn⟩
      · exact .inr ⟨l', .inr h, hg⟩
    · rintro (⟨h | h, hn⟩ | ⟨l', h | h, hg⟩)
      · exact absurd h (hn l)
      · exact .inr (.inl ⟨h, hn⟩)
      · exact .inl (h ▸ hg)
      · exact .inr (.inr ⟨l', h, hg⟩)
  | case3 f rest hf ih =>
    simp only [List.mem_cons, ih]
    constructor
    · rintro (h | ⟨h, hn⟩ | ⟨l', h, hg⟩)
      · exact .inl ⟨.inl h, fun l' e => hf l' (h ▸ e)⟩
      · exact .inl ⟨.inr h, hn⟩
      · exact .inr ⟨l', .inr h, hg⟩
    · rintro (⟨h | h, hn⟩ | ⟨l', h | h, hg⟩)
      · exact .inl h
      · exact .inr (.inl ⟨h, hn⟩)
      · exact absurd h.symm (hf l')
      · exact .inr (.inr ⟨l', h, hg⟩)

theorem eval_buildAnd (τ : Assign) (l : List Formula) : (buildAnd l).eval τ = evalAll τ l := by
  simp [buildAnd, eval, evalAll_sortFormulas, evalAll_flattenAnd]

theorem eval_buildOr (τ : Assign) (l : List Formula) : (buildOr l).eval τ = evalAny τ l := by
  simp [buildOr, eval, evalAny_sortFormulas, evalAny_flattenOr]

theorem WF_buildAnd (n : Nat) (l : List Formula) (h : ∀ g ∈ l, g.WF n) : (buildAnd l).WF n := by
  simp only [buildAnd, Formula.WF, WFs_iff, mem_sortFormulas, mem_flattenAnd]
  rintro g (⟨hg, _⟩ | ⟨l', hl', hg⟩)
  · exact h g hg
  · have := h _ hl'
    simp only [Formula.WF, WFs_iff] at this
    exact this g hg

theorem WF_buildOr (n : Nat) (l : List Formula) (h : ∀ g ∈ l, g.WF n) : (buildOr l).WF n := by
  simp only [buildOr, Formula.WF, WFs_iff, mem_sortFormulas, mem_flattenOr]
  rintro g (⟨hg, _⟩ | ⟨l', hl', hg⟩)
  · exact h g hg
  · have := h _ hl'
    simp only [Formula.WF, WFs_iff] at this
    exact this g hg

theorem Shape_buildAnd (l : List Formula) (h : ∀ g ∈ l, g.Shape) : (buildAnd l).Shape := by
  simp only [buildAnd, Formula.Shape, Shapes_iff, mem_sortFormulas, mem_flattenAnd]
  rintro g (⟨hg, _⟩ | ⟨l', hl', hg⟩)
  · exact h g hg
  · have := h _ hl'
    simp only [Formula.Shape, Shapes_iff] at this
    exact this g hg

theorem isOr_eq_false_iff (g : Formula) : g.isOr = false ↔ ∀ l', g ≠ .or l' := by
  cases g <;> simp [Formula.isOr]

theorem Shape_buildOr (l : List Formula) (h : ∀ g ∈ l, g.Shape) : (buildOr l).Shape := by
  simp only [buildOr, Formula.Shape, Shapes_iff, mem_sortFormulas, mem_flattenOr]
  constructor
  · rintro g (⟨hg, _⟩ | ⟨l', hl', hg⟩)
    · exact h g hg
    · have := h _ hl'
      simp only [Formula.Shape, Shapes_iff] at this
      exact this.1 g hg
  · rintro g (⟨_, hn⟩ | ⟨l', hl', hg⟩)
    · exact (isOr_eq_false_iff g).2 hn
    · have := h _ hl'
      simp only [Formula.Shape] at this
      exact this.2 g hg

theorem vars_buildAnd (l : List Formula) : ∀ v ∈ (buildAnd l).vars, v ∈ Formula.varsList l := by
  intro v
  simp only [buildAnd, Formula.vars, mem_varsList, mem_sortFormulas, mem_flattenAnd]
  rintro ⟨g, (⟨hg, _⟩ | ⟨l', hl', hg⟩), hv⟩
  · exact ⟨g, hg, hv⟩
  · exact ⟨_, hl', by simp only [Formula.vars, mem_varsList]; exact ⟨g, hg, hv⟩⟩

theorem vars_buildOr (l : List Formula) : ∀ v ∈ (buildOr l).vars, v ∈ Formula.varsList l := by
  intro v
  simp only [buildOr, Formula.vars, mem_varsList, mem_sortFormulas, mem_flattenOr]
  rintro ⟨g, (⟨hg, _⟩ | ⟨l', hl', hg⟩), hv⟩
  · exact ⟨g, hg, hv⟩
  · exact ⟨_, hl', by simp only [Formula.vars, mem_varsList]; exact ⟨g, hg, hv⟩⟩

/-- The negation normal form both conversions start from. -/
theorem eval_nnf (τ : Assign) (f : Formula) : (demorgan false (elimIff f)).eval τ = f.eval τ := by
  sorry

theorem WF_nnf (n : Nat) (f : Formula) (h : f.WF n) : (demorgan false (elimIff f)).WF n := by
  sorry

theorem Shape_nnf (f : Formula) : (demorgan false (elimIff f)).Shape := by
  sorry

theorem vars_nnf (f : Formula) : ∀ v ∈ (demorgan false (elimIff f)).vars, v ∈ f.vars := by
  sorry

end SPModel
