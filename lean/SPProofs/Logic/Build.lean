/-
  Interface lemmas about the building blocks shared by the naive and the
  switching conversion: stable sort, flatten, `buildAnd`/`buildOr`, and the
  negation-normal-form pipeline `demorgan false ∘ elimIff`.
-/
import SPProofs.Logic.Lemmas

namespace SPModel
open Formula

/-! ### sorting is a permutation -/

theorem insertByKey_perm (x : Int × Formula) (l : List (Int × Formula)) :
    (insertByKey x l).Perm (x :: l) := by
  induction l with
  | nil => simp [insertByKey]
  | cons y ys ih =>
    simp only [insertByKey]
    split
    · exact List.Perm.refl _
    · exact (List.Perm.cons y ih).trans (List.Perm.swap x y ys)

theorem sortByKey_perm (l : List (Int × Formula)) : (sortByKey l).Perm l := by
  induction l with
  | nil => simp [sortByKey]
  | cons x xs ih =>
    have : sortByKey (x :: xs) = insertByKey x (sortByKey xs) := by simp [sortByKey]
    rw [this]
    exact (insertByKey_perm x _).trans (List.Perm.cons x ih)

theorem sortFormulas_perm (l : List Formula) : (sortFormulas l).Perm l := by
  have h := List.Perm.map (fun p : Int × Formula => p.2)
    (sortByKey_perm (l.map (fun f => (orderKey f, f))))
  simpa [sortFormulas, List.map_map, Function.comp_def] using h

theorem mem_sortFormulas (g : Formula) (l : List Formula) : g ∈ sortFormulas l ↔ g ∈ l :=
  (sortFormulas_perm l).mem_iff

theorem evalAll_sortFormulas (τ : Assign) (l : List Formula) :
    evalAll τ (sortFormulas l) = evalAll τ l := by
  rw [evalAll_eq_all, evalAll_eq_all]; exact (sortFormulas_perm l).all_eq

theorem evalAny_sortFormulas (τ : Assign) (l : List Formula) :
    evalAny τ (sortFormulas l) = evalAny τ l := by
  rw [evalAny_eq_any, evalAny_eq_any]; exact (sortFormulas_perm l).any_eq

/-! ### append -/

theorem evalAll_append (τ : Assign) (l r : List Formula) :
    evalAll τ (l ++ r) = (evalAll τ l && evalAll τ r) := by
  simp [evalAll_eq_all]

theorem evalAny_append (τ : Assign) (l r : List Formula) :
    evalAny τ (l ++ r) = (evalAny τ l || evalAny τ r) := by
  simp [evalAny_eq_any]

theorem varsList_append (l r : List Formula) :
    Formula.varsList (l ++ r) = Formula.varsList l ++ Formula.varsList r := by
  induction l with
  | nil => simp [Formula.varsList]
  | cons f fs ih => simp [Formula.varsList, ih]

/-! ### flatten -/

theorem evalAll_flattenAnd (τ : Assign) (l : List Formula) :
    evalAll τ (flattenAnd l) = evalAll τ l := by
  fun_induction flattenAnd l with
  | case1 => rfl
  | case2 l rest ih => simp [evalAll_append, evalAll, eval, ih]
  | case3 f rest _ ih => simp [evalAll, ih]

theorem evalAny_flattenOr (τ : Assign) (l : List Formula) :
    evalAny τ (flattenOr l) = evalAny τ l := by
  fun_induction flattenOr l with
  | case1 => rfl
  | case2 l rest ih => simp [evalAny_append, evalAny, eval, ih]
  | case3 f rest _ ih => simp [evalAny, ih]

/-- Membership in `flattenAnd`: either a non-`and` element, or a child of an `and` element. -/
theorem mem_flattenAnd (g : Formula) (l : List Formula) :
    g ∈ flattenAnd l ↔ (g ∈ l ∧ ∀ l', g ≠ .and l') ∨ ∃ l', Formula.and l' ∈ l ∧ g ∈ l' := by
  fun_induction flattenAnd l with
  | case1 => simp
  | case2 l rest ih =>
    simp only [List.mem_append, ih, List.mem_cons, Formula.and.injEq]
    constructor
    · rintro (h | ⟨h, hn⟩ | ⟨l', h, hg⟩)
      · exact .inr ⟨l, .inl rfl, h⟩
      · exact .inl ⟨.inr h, hn⟩
      · exact .inr ⟨l', .inr h, hg⟩
    · rintro (⟨h | h, hn⟩ | ⟨l', h | h, hg⟩)
      · exact absurd h (hn l)
      · exact .inr (.inl ⟨h, hn⟩)
      · exact .inl (h ▸ hg)
      · exact .inr (.inr ⟨l', h, hg⟩)
  | case3 f rest hf ih =>
    simp only [List.mem_cons, ih]
    constructor
    · rintro (h | ⟨h, hn⟩ | ⟨l', h, hg⟩)
      · exact .inl ⟨.inl h, fun l' e => hf l' (h ▸ e)⟩
      · exact .inl ⟨.inr h, hn⟩
      · exact .inr ⟨l', .inr h, hg⟩
    · rintro (⟨h | h, hn⟩ | ⟨l', h | h, hg⟩)
      · exact .inl h
      · exact .inr (.inl ⟨h, hn⟩)
      · exact absurd h.symm (hf l')
      · exact .inr (.inr ⟨l', h, hg⟩)

theorem mem_flattenOr (g : Formula) (l : List Formula) :
    g ∈ flattenOr l ↔ (g ∈ l ∧ ∀ l', g ≠ .or l') ∨ ∃ l', Formula.or l' ∈ l ∧ g ∈ l' := by
  fun_induction flattenOr l with
  | case1 => simp
  | case2 l rest ih =>
    simp only [List.mem_append, ih, List.mem_cons, Formula.or.injEq]
    constructor
    · rintro (h | ⟨h, hn⟩ | ⟨l', h, hg⟩)
      · exact .inr ⟨l, .inl rfl, h⟩
      · exact .inl ⟨.inr h, hn⟩
      · exact .inr ⟨l', .inr h, hg⟩
    · rintro (⟨h | h, hn⟩ | ⟨l', h | h, hg⟩)
      · exact absurd h (hn l)
      · exact .inr (.inl ⟨h, hn⟩)
      · exact .inl (h ▸ hg)
      · exact .inr (.inr ⟨l', h, hg⟩)
  | case3 f rest hf ih =>
    simp only [List.mem_cons, ih]
    constructor
    · rintro (h | ⟨h, hn⟩ | ⟨l', h, hg⟩)
      · exact .inl ⟨.inl h, fun l' e => hf l' (h ▸ e)⟩
      · exact .inl ⟨.inr h, hn⟩
      · exact .inr ⟨l', .inr h, hg⟩
    · rintro (⟨h | h, hn⟩ | ⟨l', h | h, hg⟩)
      · exact .inl h
      · exact .inr (.inl ⟨h, hn⟩)
      · exact absurd h.symm (hf l')
      · exact .inr (.inr ⟨l', h, hg⟩)

theorem eval_buildAnd (τ : Assign) (l : List Formula) : (buildAnd l).eval τ = evalAll τ l := by
  simp [buildAnd, eval, evalAll_sortFormulas, evalAll_flattenAnd]

theorem eval_buildOr (τ : Assign) (l : List Formula) : (buildOr l).eval τ = evalAny τ l := by
  simp [buildOr, eval, evalAny_sortFormulas, evalAny_flattenOr]

theorem WF_buildAnd (n : Nat) (l : List Formula) (h : ∀ g ∈ l, g.WF n) : (buildAnd l).WF n := by
  simp only [buildAnd, Formula.WF, WFs_iff, mem_sortFormulas, mem_flattenAnd]
  rintro g (⟨hg, _⟩ | ⟨l', hl', hg⟩)
  · exact h g hg
  · have := h _ hl'
    simp only [Formula.WF, WFs_iff] at this
    exact this g hg

theorem WF_buildOr (n : Nat) (l : List Formula) (h : ∀ g ∈ l, g.WF n) : (buildOr l).WF n := by
  simp only [buildOr, Formula.WF, WFs_iff, mem_sortFormulas, mem_flattenOr]
  rintro g (⟨hg, _⟩ | ⟨l', hl', hg⟩)
  · exact h g hg
  · have := h _ hl'
    simp only [Formula.WF, WFs_iff] at this
    exact this g hg

theorem Shape_buildAnd (l : List Formula) (h : ∀ g ∈ l, g.Shape) : (buildAnd l).Shape := by
  simp only [buildAnd, Formula.Shape, Shapes_iff, mem_sortFormulas, mem_flattenAnd]
  rintro g (⟨hg, _⟩ | ⟨l', hl', hg⟩)
  · exact h g hg
  · have := h _ hl'
    simp only [Formula.Shape, Shapes_iff] at this
    exact this g hg

theorem isOr_eq_false_iff (g : Formula) : g.isOr = false ↔ ∀ l', g ≠ .or l' := by
  cases g <;> simp [Formula.isOr]

theorem Shape_buildOr (l : List Formula) (h : ∀ g ∈ l, g.Shape) : (buildOr l).Shape := by
  simp only [buildOr, Formula.Shape, Shapes_iff, mem_sortFormulas, mem_flattenOr]
  constructor
  · rintro g (⟨hg, _⟩ | ⟨l', hl', hg⟩)
    · exact h g hg
    · have := h _ hl'
      simp only [Formula.Shape, Shapes_iff] at this
      exact this.1 g hg
  · rintro g (⟨_, hn⟩ | ⟨l', hl', hg⟩)
    · exact (isOr_eq_false_iff g).2 hn
    · have := h _ hl'
      simp only [Formula.Shape] at this
      exact this.2 g hg

theorem vars_buildAnd (l : List Formula) : ∀ v ∈ (buildAnd l).vars, v ∈ Formula.varsList l := by
  intro v
  simp only [buildAnd, Formula.vars, mem_varsList, mem_sortFormulas, mem_flattenAnd]
  rintro ⟨g, (⟨hg, _⟩ | ⟨l', hl', hg⟩), hv⟩
  · exact ⟨g, hg, hv⟩
  · exact ⟨_, hl', by simp only [Formula.vars, mem_varsList]; exact ⟨g, hg, hv⟩⟩

theorem vars_buildOr (l : List Formula) : ∀ v ∈ (buildOr l).vars, v ∈ Formula.varsList l := by
  intro v
  simp only [buildOr, Formula.vars, mem_varsList, mem_sortFormulas, mem_flattenOr]
  rintro ⟨g, (⟨hg, _⟩ | ⟨l', hl', hg⟩), hv⟩
  · exact ⟨g, hg, hv⟩
  · exact ⟨_, hl', by simp only [Formula.vars, mem_varsList]; exact ⟨g, hg, hv⟩⟩


/-! ### `sortByKey` under `map snd` -/

theorem mem_sortByKey_snd (g : Formula) (l : List (Int × Formula)) :
    g ∈ (sortByKey l).map (·.2) ↔ g ∈ l.map (·.2) :=
  ((sortByKey_perm l).map _).mem_iff

theorem evalAll_sortByKey_snd (τ : Assign) (l : List (Int × Formula)) :
    evalAll τ ((sortByKey l).map (·.2)) = evalAll τ (l.map (·.2)) := by
  rw [evalAll_eq_all, evalAll_eq_all]; exact ((sortByKey_perm l).map _).all_eq

theorem evalAny_sortByKey_snd (τ : Assign) (l : List (Int × Formula)) :
    evalAny τ ((sortByKey l).map (·.2)) = evalAny τ (l.map (·.2)) := by
  rw [evalAny_eq_any, evalAny_eq_any]; exact ((sortByKey_perm l).map _).any_eq

/-! ### `elimIff` -/

theorem eval_elimIff_aux (τ : Assign) :
    (∀ f, (elimIff f).eval τ = f.eval τ) ∧
    (∀ l, evalAll τ (elimIffs l) = evalAll τ l ∧ evalAny τ (elimIffs l) = evalAny τ l) := by
  apply elimIff.mutual_induct
  · intro i; simp [elimIff]
  · intro l ih; simp [elimIff, eval, ih.1]
  · intro l ih; simp [elimIff, eval, ih.2]
  · intro f ih; simp [elimIff, eval, ih]
  · intro p q ihp ihq; simp [elimIff, eval, evalAny, ihp, ihq]
  · intro p q ihp ihq
    simp only [elimIff, eval, evalAll, evalAny, ihp, ihq]
    cases eval τ p <;> cases eval τ q <;> rfl
  · simp [elimIffs]
  · intro f fs ihf ihfs; simp [elimIffs, evalAll, evalAny, ihf, ihfs.1, ihfs.2]

theorem eval_elimIff (τ : Assign) (f : Formula) : (elimIff f).eval τ = f.eval τ :=
  (eval_elimIff_aux τ).1 f

theorem WF_elimIff_aux (n : Nat) :
    (∀ f, f.WF n → (elimIff f).WF n) ∧ (∀ l, Formula.WFs n l → Formula.WFs n (elimIffs l)) := by
  apply elimIff.mutual_induct
  · intro i h; simpa [elimIff] using h
  · intro l ih h; simp only [elimIff, Formula.WF] at h ⊢; exact ih h
  · intro l ih h; simp only [elimIff, Formula.WF] at h ⊢; exact ih h
  · intro f ih h; simp only [elimIff, Formula.WF] at h ⊢; exact ih h
  · intro p q ihp ihq h
    simp only [elimIff, Formula.WF, Formula.WFs] at h ⊢
    exact ⟨ihp h.1, ihq h.2, trivial⟩
  · intro p q ihp ihq h
    simp only [elimIff, Formula.WF, Formula.WFs] at h ⊢
    exact ⟨⟨ihp h.1, ihq h.2, trivial⟩, ⟨ihp h.1, ihq h.2, trivial⟩, trivial⟩
  · intro _; simp [elimIffs, Formula.WFs]
  · intro f fs ihf ihfs h
    simp only [elimIffs, Formula.WFs] at h ⊢
    exact ⟨ihf h.1, ihfs h.2⟩

theorem WF_elimIff (n : Nat) (f : Formula) (h : f.WF n) : (elimIff f).WF n :=
  (WF_elimIff_aux n).1 f h

theorem NoImp_elimIff_aux :
    (∀ f, (elimIff f).NoImp) ∧ (∀ l, Formula.NoImps (elimIffs l)) := by
  apply elimIff.mutual_induct
  · intro i; simp [elimIff, Formula.NoImp]
  · intro l ih; simpa [elimIff, Formula.NoImp] using ih
  · intro l ih; simpa [elimIff, Formula.NoImp] using ih
  · intro f ih; simpa [elimIff, Formula.NoImp] using ih
  · intro p q ihp ihq; simp [elimIff, Formula.NoImp, Formula.NoImps, ihp, ihq]
  · intro p q ihp ihq; simp [elimIff, Formula.NoImp, Formula.NoImps, ihp, ihq]
  · simp [elimIffs, Formula.NoImps]
  · intro f fs ihf ihfs; simp [elimIffs, Formula.NoImps, ihf, ihfs]

theorem NoImp_elimIff (f : Formula) : (elimIff f).NoImp := NoImp_elimIff_aux.1 f

theorem vars_elimIff_aux :
    (∀ f, ∀ v ∈ (elimIff f).vars, v ∈ f.vars) ∧
    (∀ l, ∀ v ∈ Formula.varsList (elimIffs l), v ∈ Formula.varsList l) := by
  apply elimIff.mutual_induct
  · intro i v h; simpa [elimIff] using h
  · intro l ih v h; simp only [elimIff, Formula.vars] at h ⊢; exact ih v h
  · intro l ih v h; simp only [elimIff, Formula.vars] at h ⊢; exact ih v h
  · intro f ih v h; simp only [elimIff, Formula.vars] at h ⊢; exact ih v h
  · intro p q ihp ihq v h
    simp only [elimIff, Formula.vars, Formula.varsList, List.append_nil, List.mem_append] at h ⊢
    exact h.imp (ihp v) (ihq v)
  · intro p q ihp ihq v h
    simp only [elimIff, Formula.vars, Formula.varsList, List.append_nil, List.mem_append] at h ⊢
    rcases h with (h | h) | (h | h)
    · exact .inl (ihp v h)
    · exact .inr (ihq v h)
    · exact .inl (ihp v h)
    · exact .inr (ihq v h)
  · intro v h; simpa [elimIffs] using h
  · intro f fs ihf ihfs v h
    simp only [elimIffs, Formula.varsList, List.mem_append] at h ⊢
    exact h.imp (ihf v) (ihfs v)

theorem vars_elimIff (f : Formula) : ∀ v ∈ (elimIff f).vars, v ∈ f.vars := vars_elimIff_aux.1 f

/-! ### `demorgan` -/

theorem eval_demorgan_aux (τ : Assign) :
    (∀ b g, g.NoImp → (demorgan b g).eval τ = (b ^^ g.eval τ)) ∧
    (∀ b l, Formula.NoImps l →
      evalAll τ ((demorgans b l).map (·.2)) = (if b then !evalAny τ l else evalAll τ l) ∧
      evalAny τ ((demorgans b l).map (·.2)) = (if b then !evalAll τ l else evalAny τ l)) := by
  apply demorgan.mutual_induct
  · intro i _; simp [demorgan]
  · intro i _; simp [demorgan, eval]
  · intro l ih h
    simp only [Formula.NoImp] at h
    simp [demorgan, eval_buildAnd, eval, (ih h).1]
  · intro l ih h
    simp only [Formula.NoImp] at h
    simp [demorgan, eval_buildOr, eval, (ih h).2]
  · intro l ih h
    simp only [Formula.NoImp] at h
    simp [demorgan, eval_buildOr, eval, evalAny_sortByKey_snd, (ih h).2]
  · intro l ih h
    simp only [Formula.NoImp] at h
    simp [demorgan, eval_buildAnd, eval, evalAll_sortByKey_snd, (ih h).1]
  · intro neg f ih h
    simp only [Formula.NoImp] at h
    simp only [demorgan, eval, ih h]
    cases neg <;> cases eval τ f <;> rfl
  · intro _ p q h; simp [Formula.NoImp] at h
  · intro _ p q h; simp [Formula.NoImp] at h
  · intro b _; cases b <;> simp [demorgans, evalAll, evalAny]
  · intro b f fs ihf ihfs h
    simp only [Formula.NoImps] at h
    simp only [demorgans, List.map_cons, evalAll, evalAny, ihf h.1, (ihfs h.2).1, (ihfs h.2).2]
    cases b <;> simp

theorem eval_demorgan (τ : Assign) (b : Bool) (g : Formula) (h : g.NoImp) :
    (demorgan b g).eval τ = (b ^^ g.eval τ) := (eval_demorgan_aux τ).1 b g h

theorem WF_demorgan_aux (n : Nat) :
    (∀ b g, g.WF n → (demorgan b g).WF n) ∧
    (∀ b l, Formula.WFs n l → ∀ g ∈ (demorgans b l).map (·.2), g.WF n) := by
  apply demorgan.mutual_induct
  · intro i h; simpa [demorgan] using h
  · intro i h; simpa [demorgan, Formula.WF] using h
  · intro l ih h; simp only [demorgan]; exact WF_buildAnd n _ (ih h)
  · intro l ih h; simp only [demorgan]; exact WF_buildOr n _ (ih h)
  · intro l ih h; simp only [demorgan]
    exact WF_buildOr n _ (fun g hg => ih h g ((mem_sortByKey_snd g _).1 hg))
  · intro l ih h; simp only [demorgan]
    exact WF_buildAnd n _ (fun g hg => ih h g ((mem_sortByKey_snd g _).1 hg))
  · intro neg f ih h; simp only [demorgan]; exact ih h
  · intro _ p q h; simpa [demorgan] using h
  · intro _ p q h; simpa [demorgan] using h
  · intro _ _ g hg; simp [demorgans] at hg
  · intro b f fs ihf ihfs h g hg
    simp only [Formula.WFs] at h
    simp only [demorgans, List.map_cons, List.mem_cons] at hg
    rcases hg with rfl | hg
    · exact ihf h.1
    · exact ihfs h.2 g hg

theorem WF_demorgan (n : Nat) (b : Bool) (g : Formula) (h : g.WF n) : (demorgan b g).WF n :=
  (WF_demorgan_aux n).1 b g h

theorem Shape_demorgan_aux :
    (∀ b g, g.NoImp → (demorgan b g).Shape) ∧
    (∀ b l, Formula.NoImps l → ∀ g ∈ (demorgans b l).map (·.2), g.Shape) := by
  apply demorgan.mutual_induct
  · intro i _; simp [demorgan, Formula.Shape]
  · intro i _; simp [demorgan, Formula.Shape, Formula.isLit]
  · intro l ih h; simp only [demorgan]; exact Shape_buildAnd _ (ih h)
  · intro l ih h; simp only [demorgan]; exact Shape_buildOr _ (ih h)
  · intro l ih h; simp only [demorgan]
    exact Shape_buildOr _ (fun g hg => ih h g ((mem_sortByKey_snd g _).1 hg))
  · intro l ih h; simp only [demorgan]
    exact Shape_buildAnd _ (fun g hg => ih h g ((mem_sortByKey_snd g _).1 hg))
  · intro neg f ih h; simp only [demorgan]; exact ih h
  · intro _ p q h; simp [Formula.NoImp] at h
  · intro _ p q h; simp [Formula.NoImp] at h
  · intro _ _ g hg; simp [demorgans] at hg
  · intro b f fs ihf ihfs h g hg
    simp only [Formula.NoImps] at h
    simp only [demorgans, List.map_cons, List.mem_cons] at hg
    rcases hg with rfl | hg
    · exact ihf h.1
    · exact ihfs h.2 g hg

theorem Shape_demorgan (b : Bool) (g : Formula) (h : g.NoImp) : (demorgan b g).Shape :=
  Shape_demorgan_aux.1 b g h

theorem vars_demorgan_aux :
    (∀ b g, ∀ v ∈ (demorgan b g).vars, v ∈ g.vars) ∧
    (∀ b l, ∀ v ∈ Formula.varsList ((demorgans b l).map (·.2)), v ∈ Formula.varsList l) := by
  apply demorgan.mutual_induct
  · intro i v h; simpa [demorgan] using h
  · intro i v h; simpa [demorgan, Formula.vars] using h
  · intro l ih v h; simp only [demorgan] at h; exact ih v (vars_buildAnd _ v h)
  · intro l ih v h; simp only [demorgan] at h; exact ih v (vars_buildOr _ v h)
  · intro l ih v h; simp only [demorgan] at h
    have := vars_buildOr _ v h
    simp only [mem_varsList, mem_sortByKey_snd] at this
    exact ih v ((mem_varsList v _).2 this)
  · intro l ih v h; simp only [demorgan] at h
    have := vars_buildAnd _ v h
    simp only [mem_varsList, mem_sortByKey_snd] at this
    exact ih v ((mem_varsList v _).2 this)
  · intro neg f ih v h; simp only [demorgan] at h; exact ih v h
  · intro _ p q v h; simpa [demorgan] using h
  · intro _ p q v h; simpa [demorgan] using h
  · intro _ v h; simp [demorgans, Formula.varsList] at h
  · intro b f fs ihf ihfs v h
    simp only [demorgans, List.map_cons, Formula.varsList, List.mem_append] at h ⊢
    exact h.imp (ihf v) (ihfs v)

theorem vars_demorgan (b : Bool) (g : Formula) : ∀ v ∈ (demorgan b g).vars, v ∈ g.vars :=
  vars_demorgan_aux.1 b g

/-- The negation normal form both conversions start from. -/
theorem eval_nnf (τ : Assign) (f : Formula) : (demorgan false (elimIff f)).eval τ = f.eval τ := by
  rw [eval_demorgan τ false _ (NoImp_elimIff f), eval_elimIff]; simp

theorem WF_nnf (n : Nat) (f : Formula) (h : f.WF n) : (demorgan false (elimIff f)).WF n :=
  WF_demorgan n false _ (WF_elimIff n f h)

theorem Shape_nnf (f : Formula) : (demorgan false (elimIff f)).Shape :=
  Shape_demorgan false _ (NoImp_elimIff f)

theorem vars_nnf (f : Formula) : ∀ v ∈ (demorgan false (elimIff f)).vars, v ∈ f.vars :=
  fun v h => vars_elimIff f v (vars_demorgan false _ v h)

end SPModel
