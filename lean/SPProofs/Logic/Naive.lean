/-
  The naive conversion `toCnfNaive` preserves the semantics of a formula and
  introduces no variables.
-/
import SPProofs.Logic.Build

namespace SPModel
open Formula

/-! ### `distNaive` never returns an `or` -/

theorem distNaives_eq_map (l : List Formula) : distNaives l = l.map distNaive := by
  induction l with
  | nil => simp [distNaives]
  | cons f fs ih => simp [distNaives, ih]

theorem distNaive_ne_or (f : Formula) (l' : List Formula) : distNaive f ≠ .or l' := by
  cases f <;> simp [distNaive, buildAnd]

theorem evalAll_listForCrossing (τ : Assign) (g : Formula) (h : ∀ l', g ≠ .or l') :
    evalAll τ (listForCrossing g) = g.eval τ := by
  cases g with
  | or l => exact absurd rfl (h l)
  | _ => simp [listForCrossing, evalAll, eval]

theorem vars_listForCrossing (g x : Formula) (hx : x ∈ listForCrossing g) :
    ∀ v ∈ x.vars, v ∈ g.vars := by
  intro v hv
  cases g with
  | and l => exact (mem_varsList v l).2 ⟨x, hx, hv⟩
  | or l => exact (mem_varsList v l).2 ⟨x, hx, hv⟩
  | _ => simp only [listForCrossing, List.mem_singleton] at hx; exact hx ▸ hv

/-! ### `product` -/

private theorem naive_all_or_const {α} (p : α → Bool) (c : Bool) (l : List α) :
    l.all (fun x => p x || c) = (l.all p || c) := by
  induction l with
  | nil => simp
  | cons x xs ih => simp only [List.all_cons, ih]; cases p x <;> cases c <;> simp

/-- Distributivity: the conjunction over all tuples of the disjunction of the tuple is the
    disjunction over the lists of their conjunctions. -/
theorem evalAll_product (τ : Assign) (ls : List (List Formula)) :
    evalAll τ ((product ls).map buildOr) = ls.any (fun l => evalAll τ l) := by
  induction ls with
  | nil => simp [product, evalAll, eval_buildOr, evalAny]
  | cons l ls ih =>
    rw [evalAll_eq_all] at ih
    simp only [List.all_map, Function.comp_def] at ih
    simp only [product, evalAll_eq_all, List.all_map, List.all_flatMap, Function.comp_def,
      eval_buildOr, evalAny, List.any_cons]
    have : ∀ x, (product ls).all (fun t => eval τ x || evalAny τ t)
        = (eval τ x || (product ls).all (fun t => evalAny τ t)) := by
      intro x
      induction product ls with
      | nil => simp
      | cons t ts iht => simp only [List.all_cons, iht]; cases eval τ x <;> simp
    simp only [this, naive_all_or_const]
    simp only [eval_buildOr] at ih
    rw [ih]
    simp [evalAll_eq_all]

theorem mem_product (ls : List (List Formula)) :
    ∀ t ∈ product ls, ∀ x ∈ t, ∃ l ∈ ls, x ∈ l := by
  induction ls with
  | nil => intro t ht x hx; simp [product] at ht; subst ht; simp at hx
  | cons l ls ih =>
    intro t ht x hx
    simp only [product, List.mem_flatMap, List.mem_map] at ht
    obtain ⟨y, hy, t', ht', rfl⟩ := ht
    rcases List.mem_cons.1 hx with rfl | hx
    · exact ⟨l, List.mem_cons_self, hy⟩
    · obtain ⟨l', hl', hx'⟩ := ih t' ht' x hx
      exact ⟨l', List.mem_cons_of_mem _ hl', hx'⟩

/-! ### `distNaive` -/

theorem eval_distNaive_aux (τ : Assign) :
    (∀ f, (distNaive f).eval τ = f.eval τ) ∧
    (∀ l, evalAll τ (distNaives l) = evalAll τ l ∧ evalAny τ (distNaives l) = evalAny τ l) := by
  apply distNaive.mutual_induct
  · intro l ih; simp [distNaive, eval_buildAnd, eval, ih.1]
  · intro l ih
    simp only [distNaive, eval_buildAnd, evalAll_product, List.any_map, Function.comp_def, eval]
    rw [← ih.2, evalAny_eq_any, distNaives_eq_map, List.any_map, List.any_map]
    congr 1
    funext f
    exact evalAll_listForCrossing τ _ (distNaive_ne_or f)
  · intro f h1 h2
    cases f with
    | and l => exact absurd rfl (h1 l)
    | or l => exact absurd rfl (h2 l)
    | _ => simp [distNaive]
  · simp [distNaives]
  · intro f fs ihf ihfs; simp [distNaives, evalAll, evalAny, ihf, ihfs.1, ihfs.2]

theorem eval_distNaive (τ : Assign) (f : Formula) : (distNaive f).eval τ = f.eval τ :=
  (eval_distNaive_aux τ).1 f

theorem vars_distNaive_aux :
    (∀ f, ∀ v ∈ (distNaive f).vars, v ∈ f.vars) ∧
    (∀ l, ∀ v ∈ Formula.varsList (distNaives l), v ∈ Formula.varsList l) := by
  apply distNaive.mutual_induct
  · intro l ih v h
    simp only [distNaive] at h
    exact ih v (vars_buildAnd _ v h)
  · intro l ih v h
    simp only [distNaive] at h
    have h := vars_buildAnd _ v h
    simp only [mem_varsList, List.mem_map] at h
    obtain ⟨_, ⟨t, ht, rfl⟩, hv⟩ := h
    obtain ⟨x, hx, hv⟩ := (mem_varsList v t).1 (vars_buildOr t v hv)
    obtain ⟨_, hl', hxl⟩ := mem_product _ t ht x hx
    obtain ⟨g, hg, rfl⟩ := List.mem_map.1 hl'
    exact ih v ((mem_varsList v _).2 ⟨g, hg, vars_listForCrossing g x hxl v hv⟩)
  · intro f h1 h2 v h
    cases f with
    | and l => exact absurd rfl (h1 l)
    | or l => exact absurd rfl (h2 l)
    | _ => simpa [distNaive] using h
  · intro v h; simpa [distNaives] using h
  · intro f fs ihf ihfs v h
    simp only [distNaives, Formula.varsList, List.mem_append] at h ⊢
    exact h.imp (ihf v) (ihfs v)

theorem vars_distNaive (f : Formula) : ∀ v ∈ (distNaive f).vars, v ∈ f.vars :=
  vars_distNaive_aux.1 f

/-! ### `toCnfNaive` -/

theorem eval_toCnfNaive (τ : Assign) (f : Formula) :
    (toCnfNaive f).eval τ = (distNaive (demorgan false (elimIff f))).eval τ := by
  unfold toCnfNaive
  generalize distNaive _ = g
  cases g <;> simp [eval, evalAll]

theorem vars_toCnfNaive (f : Formula) :
    (toCnfNaive f).vars = (distNaive (demorgan false (elimIff f))).vars := by
  unfold toCnfNaive
  generalize distNaive _ = g
  cases g <;> simp [Formula.vars, Formula.varsList]

theorem naive_equiv' (f : Formula) (σ : Assign) : (toCnfNaive f).eval σ = f.eval σ := by
  rw [eval_toCnfNaive, eval_distNaive, eval_nnf]

theorem naive_vars' (f : Formula) : ∀ v ∈ (toCnfNaive f).vars, v ∈ f.vars := by
  intro v h
  rw [vars_toCnfNaive] at h
  exact vars_nnf f v (vars_distNaive _ v h)

end SPModel
