/-
  Correctness of the Tseitin conversion of `SPModel.Logic` (model of
  `to_cnf_tseitin`): semantics of emitted clauses, the state invariant, and
  the representation lemma.
-/
import SPProofs.Logic.Lemmas
namespace SPModel
open Formula

/-! ### `cnf_to_json` of the Tseitin result -/

theorem jsonLit_toFormula (l : TLit) : jsonLit l.toFormula = .ok l.toInt := by
  cases l with | mk neg v => cases neg <;> simp [TLit.toFormula, TLit.toInt, jsonLit]

theorem jsonLits_toFormula (c : List TLit) :
    jsonLits (c.map TLit.toFormula) = .ok (c.map TLit.toInt) := by
  induction c with
  | nil => simp [jsonLits]
  | cons l ls ih => simp [jsonLits, jsonLit_toFormula, ih]

theorem jsonConjuncts_tseitin (cs : List (List TLit)) (r : Int) :
    jsonConjuncts (cs.map (fun c => Formula.or (c.map TLit.toFormula)) ++ [.lit r])
      = .ok (cs.map (fun c => c.map TLit.toInt) ++ [[r]]) := by
  induction cs with
  | nil => simp [jsonConjuncts, jsonConjunct]
  | cons c cs ih =>
    simp only [List.map_cons, List.cons_append, jsonConjuncts, jsonConjunct, jsonLits_toFormula, ih]

theorem cnfToJson_tseitin (t : TseitinResult) : cnfToJson [t.toFormula] = .ok t.cnf := by
  simp [TseitinResult.toFormula, TseitinResult.cnf, cnfToJson, jsonConjuncts_tseitin]

/-! ### Semantics of emitted clauses and cache keys -/

def tlitVal (τ : Assign) (l : TLit) : Bool := if l.neg then !litVal τ l.v else litVal τ l.v
def tclSat (τ : Assign) (c : List TLit) : Bool := c.any (tlitVal τ)
def tclsSat (τ : Assign) (cs : List (List TLit)) : Bool := cs.all (tclSat τ)

def keyVal (τ : Assign) : TKey → Bool
  | .and vs => vs.all (litVal τ)
  | .or vs => vs.any (litVal τ)
  | .not c => !litVal τ c
  | .imp p q => !litVal τ p || litVal τ q
  | .iff p q => litVal τ p == litVal τ q

def keyLits : TKey → List Int
  | .and vs => vs
  | .or vs => vs
  | .not c => [c]
  | .imp p q => [p, q]
  | .iff p q => [p, q]

/-- A literal is non-zero, below the counter `m`, and if it is below the first
    fresh variable `n` it satisfies `P` (instantiated by "is a variable of the formula"). -/
def LitOK (n : Nat) (P : Nat → Prop) (m : Nat) (v : Int) : Prop :=
  v ≠ 0 ∧ v.natAbs < m ∧ (v.natAbs < n → P v.natAbs)

theorem LitOK.mono {n P m m' v} (h : LitOK n P m v) (hm : m ≤ m') : LitOK n P m' v :=
  ⟨h.1, by have := h.2.1; omega, h.2.2⟩

@[simp] theorem tlitVal_pos (τ : Assign) (v : Int) : tlitVal τ (pos v) = litVal τ v := by
  simp [tlitVal, pos]
@[simp] theorem tlitVal_ngt (τ : Assign) (v : Int) : tlitVal τ (ngt v) = !litVal τ v := by
  simp [tlitVal, ngt]

theorem litVal_toInt (τ : Assign) (l : TLit) (h : l.v ≠ 0) : litVal τ l.toInt = tlitVal τ l := by
  cases l with | mk neg v =>
  cases neg
  · simp [TLit.toInt, tlitVal]
  · simp only [TLit.toInt, tlitVal, if_true]; exact litVal_neg τ v h

theorem litVal_natCast (τ : Assign) (v : Nat) (h : 0 < v) : litVal τ (v : Int) = τ v := by
  have : (0 : Int) < (v : Int) := by omega
  simp [litVal]; omega

theorem AgreeBelow.refl (n : Nat) (σ : Assign) : AgreeBelow n σ σ := fun _ _ _ => rfl
theorem AgreeBelow.symm {n : Nat} {σ τ : Assign} (h : AgreeBelow n σ τ) : AgreeBelow n τ σ :=
  fun v h1 h2 => (h v h1 h2).symm
theorem AgreeBelow.trans {n : Nat} {σ τ ρ : Assign} (h : AgreeBelow n σ τ) (h' : AgreeBelow n τ ρ) :
    AgreeBelow n σ ρ := fun v h1 h2 => (h v h1 h2).trans (h' v h1 h2)
theorem AgreeBelow.mono {n m : Nat} {σ τ : Assign} (h : AgreeBelow n σ τ) (hm : m ≤ n) :
    AgreeBelow m σ τ := fun v h1 h2 => h v h1 (by omega)

theorem all_congr_mem {α} (l : List α) (p q : α → Bool) (h : ∀ a ∈ l, p a = q a) :
    l.all p = l.all q := by
  induction l with
  | nil => rfl
  | cons a as ih =>
    simp only [List.all_cons, h a (by simp), ih (fun b hb => h b (by simp [hb]))]

theorem any_congr_mem {α} (l : List α) (p q : α → Bool) (h : ∀ a ∈ l, p a = q a) :
    l.any p = l.any q := by
  induction l with
  | nil => rfl
  | cons a as ih =>
    simp only [List.any_cons, h a (by simp), ih (fun b hb => h b (by simp [hb]))]

theorem litVal_congr {m : Nat} {σ τ : Assign} (h : AgreeBelow m σ τ) (v : Int) (h0 : v ≠ 0)
    (hv : v.natAbs < m) : litVal σ v = litVal τ v := by
  have : σ v.natAbs = τ v.natAbs := h _ (by omega) hv
  simp [litVal, this]

theorem tlitVal_congr {m : Nat} {σ τ : Assign} (h : AgreeBelow m σ τ) (l : TLit) (h0 : l.v ≠ 0)
    (hv : l.v.natAbs < m) : tlitVal σ l = tlitVal τ l := by
  simp [tlitVal, litVal_congr h l.v h0 hv]

theorem tclsSat_congr {m : Nat} {σ τ : Assign} (h : AgreeBelow m σ τ) (cs : List (List TLit))
    (hcs : ∀ c ∈ cs, ∀ l ∈ c, l.v ≠ 0 ∧ l.v.natAbs < m) : tclsSat σ cs = tclsSat τ cs := by
  unfold tclsSat
  apply all_congr_mem
  intro c hc
  unfold tclSat
  apply any_congr_mem
  intro l hl
  exact tlitVal_congr h l (hcs c hc l hl).1 (hcs c hc l hl).2

theorem keyVal_congr {m : Nat} {σ τ : Assign} (h : AgreeBelow m σ τ) (k : TKey)
    (hk : ∀ v ∈ keyLits k, v ≠ 0 ∧ v.natAbs < m) : keyVal σ k = keyVal τ k := by
  cases k with
  | and vs =>
    simp only [keyVal]; apply all_congr_mem
    intro v hv; exact litVal_congr h v (hk v hv).1 (hk v hv).2
  | or vs =>
    simp only [keyVal]; apply any_congr_mem
    intro v hv; exact litVal_congr h v (hk v hv).1 (hk v hv).2
  | not c =>
    have := hk c (by simp [keyLits])
    simp only [keyVal, litVal_congr h c this.1 this.2]
  | imp p q =>
    have hp := hk p (by simp [keyLits])
    have hq := hk q (by simp [keyLits])
    simp only [keyVal, litVal_congr h p hp.1 hp.2, litVal_congr h q hq.1 hq.2]
  | iff p q =>
    have hp := hk p (by simp [keyLits])
    have hq := hk q (by simp [keyLits])
    simp only [keyVal, litVal_congr h p hp.1 hp.2, litVal_congr h q hq.1 hq.2]

theorem tclsSat_append (τ : Assign) (xs ys : List (List TLit)) :
    tclsSat τ (xs ++ ys) = (tclsSat τ xs && tclsSat τ ys) := by
  simp [tclsSat]

theorem tclsSat_reverse (τ : Assign) (xs : List (List TLit)) :
    tclsSat τ xs.reverse = tclsSat τ xs := by
  simp [tclsSat]

end SPModel
