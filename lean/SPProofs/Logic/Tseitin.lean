/-
  Correctness of the Tseitin conversion of `SPModel.Logic` (model of
  `to_cnf_tseitin`): semantics of emitted clauses, the state invariant, and
  the representation lemma.
-/
import SPProofs.Logic.Lemmas
namespace SPModel
open Formula

/-! ### `cnf_to_json` of the Tseitin result -/

theorem jsonLit_toFormula (l : TLit) : jsonLit l.toFormula = .ok l.toInt := by
  cases l with | mk neg v => cases neg <;> simp [TLit.toFormula, TLit.toInt, jsonLit]

theorem jsonLits_toFormula (c : List TLit) :
    jsonLits (c.map TLit.toFormula) = .ok (c.map TLit.toInt) := by
  induction c with
  | nil => simp [jsonLits]
  | cons l ls ih => simp [jsonLits, jsonLit_toFormula, ih]

theorem jsonConjuncts_tseitin (cs : List (List TLit)) (r : Int) :
    jsonConjuncts (cs.map (fun c => Formula.or (c.map TLit.toFormula)) ++ [.lit r])
      = .ok (cs.map (fun c => c.map TLit.toInt) ++ [[r]]) := by
  induction cs with
  | nil => simp [jsonConjuncts, jsonConjunct]
  | cons c cs ih =>
    simp only [List.map_cons, List.cons_append, jsonConjuncts, jsonConjunct, jsonLits_toFormula, ih]

theorem cnfToJson_tseitin (t : TseitinResult) : cnfToJson [t.toFormula] = .ok t.cnf := by
  simp [TseitinResult.toFormula, TseitinResult.cnf, cnfToJson, jsonConjuncts_tseitin]

/-! ### Semantics of emitted clauses and cache keys -/

def tlitVal (τ : Assign) (l : TLit) : Bool := if l.neg then !litVal τ l.v else litVal τ l.v
def tclSat (τ : Assign) (c : List TLit) : Bool := c.any (tlitVal τ)
def tclsSat (τ : Assign) (cs : List (List TLit)) : Bool := cs.all (tclSat τ)

def keyVal (τ : Assign) : TKey → Bool
  | .and vs => vs.all (litVal τ)
  | .or vs => vs.any (litVal τ)
  | .not c => !litVal τ c
  | .imp p q => !litVal τ p || litVal τ q
  | .iff p q => litVal τ p == litVal τ q

def keyLits : TKey → List Int
  | .and vs => vs
  | .or vs => vs
  | .not c => [c]
  | .imp p q => [p, q]
  | .iff p q => [p, q]

/-- A literal is non-zero, below the counter `m`, and if it is below the first
    fresh variable `n` it satisfies `P` (instantiated by "is a variable of the formula"). -/
def FLitOK (n : Nat) (P : Nat → Prop) (m : Nat) (v : Int) : Prop :=
  v ≠ 0 ∧ v.natAbs < m ∧ (v.natAbs < n → P v.natAbs)

theorem FLitOK.mono {n P m m' v} (h : FLitOK n P m v) (hm : m ≤ m') : FLitOK n P m' v :=
  ⟨h.1, by have := h.2.1; omega, h.2.2⟩

@[simp] theorem tlitVal_pos (τ : Assign) (v : Int) : tlitVal τ (pos v) = litVal τ v := by
  simp [tlitVal, pos]
@[simp] theorem tlitVal_ngt (τ : Assign) (v : Int) : tlitVal τ (ngt v) = !litVal τ v := by
  simp [tlitVal, ngt]

theorem litVal_toInt (τ : Assign) (l : TLit) (h : l.v ≠ 0) : litVal τ l.toInt = tlitVal τ l := by
  cases l with | mk neg v =>
  cases neg
  · simp [TLit.toInt, tlitVal]
  · simp only [TLit.toInt, tlitVal, if_true]; exact litVal_neg τ v h

theorem litVal_natCast (τ : Assign) (v : Nat) (h : 0 < v) : litVal τ (v : Int) = τ v := by
  have : (0 : Int) < (v : Int) := by omega
  simp [litVal]; omega

theorem AgreeBelow.refl (n : Nat) (σ : Assign) : AgreeBelow n σ σ := fun _ _ _ => rfl
theorem AgreeBelow.symm {n : Nat} {σ τ : Assign} (h : AgreeBelow n σ τ) : AgreeBelow n τ σ :=
  fun v h1 h2 => (h v h1 h2).symm
theorem AgreeBelow.trans {n : Nat} {σ τ ρ : Assign} (h : AgreeBelow n σ τ) (h' : AgreeBelow n τ ρ) :
    AgreeBelow n σ ρ := fun v h1 h2 => (h v h1 h2).trans (h' v h1 h2)
theorem AgreeBelow.mono {n m : Nat} {σ τ : Assign} (h : AgreeBelow n σ τ) (hm : m ≤ n) :
    AgreeBelow m σ τ := fun v h1 h2 => h v h1 (by omega)

private theorem all_congr_mem {α} (l : List α) (p q : α → Bool) (h : ∀ a ∈ l, p a = q a) :
    l.all p = l.all q := by
  induction l with
  | nil => rfl
  | cons a as ih =>
    simp only [List.all_cons, h a (by simp), ih (fun b hb => h b (by simp [hb]))]

private theorem any_congr_mem {α} (l : List α) (p q : α → Bool) (h : ∀ a ∈ l, p a = q a) :
    l.any p = l.any q := by
  induction l with
  | nil => rfl
  | cons a as ih =>
    simp only [List.any_cons, h a (by simp), ih (fun b hb => h b (by simp [hb]))]

theorem litVal_congr {m : Nat} {σ τ : Assign} (h : AgreeBelow m σ τ) (v : Int) (h0 : v ≠ 0)
    (hv : v.natAbs < m) : litVal σ v = litVal τ v := by
  have : σ v.natAbs = τ v.natAbs := h _ (by omega) hv
  simp [litVal, this]

theorem tlitVal_congr {m : Nat} {σ τ : Assign} (h : AgreeBelow m σ τ) (l : TLit) (h0 : l.v ≠ 0)
    (hv : l.v.natAbs < m) : tlitVal σ l = tlitVal τ l := by
  simp [tlitVal, litVal_congr h l.v h0 hv]

theorem tclsSat_congr {m : Nat} {σ τ : Assign} (h : AgreeBelow m σ τ) (cs : List (List TLit))
    (hcs : ∀ c ∈ cs, ∀ l ∈ c, l.v ≠ 0 ∧ l.v.natAbs < m) : tclsSat σ cs = tclsSat τ cs := by
  unfold tclsSat
  apply all_congr_mem
  intro c hc
  unfold tclSat
  apply any_congr_mem
  intro l hl
  exact tlitVal_congr h l (hcs c hc l hl).1 (hcs c hc l hl).2

theorem keyVal_congr {m : Nat} {σ τ : Assign} (h : AgreeBelow m σ τ) (k : TKey)
    (hk : ∀ v ∈ keyLits k, v ≠ 0 ∧ v.natAbs < m) : keyVal σ k = keyVal τ k := by
  cases k with
  | and vs =>
    simp only [keyVal]; apply all_congr_mem
    intro v hv; exact litVal_congr h v (hk v hv).1 (hk v hv).2
  | or vs =>
    simp only [keyVal]; apply any_congr_mem
    intro v hv; exact litVal_congr h v (hk v hv).1 (hk v hv).2
  | not c =>
    have := hk c (by simp [keyLits])
    simp only [keyVal, litVal_congr h c this.1 this.2]
  | imp p q =>
    have hp := hk p (by simp [keyLits])
    have hq := hk q (by simp [keyLits])
    simp only [keyVal, litVal_congr h p hp.1 hp.2, litVal_congr h q hq.1 hq.2]
  | iff p q =>
    have hp := hk p (by simp [keyLits])
    have hq := hk q (by simp [keyLits])
    simp only [keyVal, litVal_congr h p hp.1 hp.2, litVal_congr h q hq.1 hq.2]

theorem tclsSat_append (τ : Assign) (xs ys : List (List TLit)) :
    tclsSat τ (xs ++ ys) = (tclsSat τ xs && tclsSat τ ys) := by
  simp [tclsSat]

theorem tclsSat_reverse (τ : Assign) (xs : List (List TLit)) :
    tclsSat τ xs.reverse = tclsSat τ xs := by
  simp [tclsSat]

/-! ### The state invariant -/

/-- Invariant of the Tseitin state for a run started with counter `n` and empty cache. -/
structure Inv (n : Nat) (P : Nat → Prop) (s : TState) : Prop where
  le : n ≤ s.next
  cache : ∀ k v, (k, v) ∈ s.cache → n ≤ v ∧ v < s.next ∧
    ∀ τ, tclsSat τ s.clauses = true → τ v = keyVal τ k
  lits : ∀ c ∈ s.clauses, ∀ l ∈ c, FLitOK n P s.next l.v
  ex : ∀ σ : Assign, ∃ τ, AgreeBelow n σ τ ∧ tclsSat τ s.clauses = true
  uniq : ∀ τ₁ τ₂, tclsSat τ₁ s.clauses = true → tclsSat τ₂ s.clauses = true →
    AgreeBelow n τ₁ τ₂ → AgreeBelow s.next τ₁ τ₂

/-- `s'` is a later state than `s`. -/
structure Ext (s s' : TState) : Prop where
  next_le : s.next ≤ s'.next
  sat : ∀ τ, tclsSat τ s'.clauses = true → tclsSat τ s.clauses = true

theorem Ext.refl (s : TState) : Ext s s := ⟨Nat.le_refl _, fun _ h => h⟩
theorem Ext.trans {s s' s'' : TState} (h : Ext s s') (h' : Ext s' s'') : Ext s s'' :=
  ⟨Nat.le_trans h.1 h'.1, fun τ ht => h.2 τ (h'.2 τ ht)⟩

theorem Inv.init (n : Nat) (P : Nat → Prop) : Inv n P { next := n, cache := [], clauses := [] } where
  le := Nat.le_refl _
  cache := by simp
  lits := by simp
  ex := fun σ => ⟨σ, AgreeBelow.refl _ _, by simp [tclsSat]⟩
  uniq := fun _ _ _ _ h => h

theorem lookup_some {s : TState} {k : TKey} {v : Nat} (h : s.lookup k = some v) :
    (k, v) ∈ s.cache := by
  unfold TState.lookup at h
  cases hf : s.cache.find? (fun e => e.1 == k) with
  | none => simp [hf] at h
  | some e =>
    simp only [hf, Option.map_some, Option.some.injEq] at h
    have h1 := List.find?_some hf
    have h2 := List.mem_of_find?_eq_some hf
    simp only [beq_iff_eq] at h1
    cases e with | mk a b =>
    simp only at h h1
    subst h h1
    exact h2

theorem getOrDefine_spec {n : Nat} {P : Nat → Prop} {s : TState} {k : TKey}
    {defs : Int → List (List TLit)} (hn : 0 < n) (hI : Inv n P s)
    (hk : ∀ v ∈ keyLits k, FLitOK n P s.next v)
    (hdef : ∀ (r : Int) (τ : Assign), tclsSat τ (defs r) = (litVal τ r == keyVal τ k))
    (hlits : ∀ (r : Int), ∀ c ∈ defs r, ∀ l ∈ c, l.v = r ∨ l.v ∈ keyLits k) :
    Inv n P (s.getOrDefine k defs).2 ∧ Ext s (s.getOrDefine k defs).2 ∧
    FLitOK n P (s.getOrDefine k defs).2.next (s.getOrDefine k defs).1 ∧
    ∀ τ, tclsSat τ (s.getOrDefine k defs).2.clauses = true →
      litVal τ (s.getOrDefine k defs).1 = keyVal τ k := by
  unfold TState.getOrDefine
  cases hl : s.lookup k with
  | some v =>
    simp only
    obtain ⟨h1, h2, h3⟩ := hI.cache k v (lookup_some hl)
    refine ⟨hI, Ext.refl s, ⟨by omega, by omega, fun h => by omega⟩, fun τ hτ => ?_⟩
    rw [litVal_natCast τ v (by omega)]
    exact h3 τ hτ
  | none =>
    simp only
    have hle := hI.le
    have hklt : ∀ v ∈ keyLits k, v ≠ 0 ∧ v.natAbs < s.next := fun v hv => ⟨(hk v hv).1, (hk v hv).2.1⟩
    have hclt : ∀ c ∈ s.clauses, ∀ l ∈ c, l.v ≠ 0 ∧ l.v.natAbs < s.next :=
      fun c hc l hl => ⟨(hI.lits c hc l hl).1, (hI.lits c hc l hl).2.1⟩
    have hnew : ∀ τ, tclsSat τ ((defs (s.next : Int)).reverse ++ s.clauses) = true →
        τ s.next = keyVal τ k ∧ tclsSat τ s.clauses = true := by
      intro τ hτ
      rw [tclsSat_append, tclsSat_reverse, hdef, litVal_natCast τ s.next (by omega)] at hτ
      simp only [Bool.and_eq_true, beq_iff_eq] at hτ
      exact hτ
    refine ⟨⟨by simp only; omega, ?_, ?_, ?_, ?_⟩, ⟨by simp, fun τ hτ => (hnew τ hτ).2⟩,
      ⟨by omega, by simp, fun h => by simp at h; omega⟩, fun τ hτ => ?_⟩
    · intro k' v hmem
      simp only [List.mem_cons, Prod.mk.injEq] at hmem
      rcases hmem with ⟨rfl, rfl⟩ | hmem
      · exact ⟨hle, Nat.lt_succ_self _, fun τ hτ => (hnew τ hτ).1⟩
      · obtain ⟨h1, h2, h3⟩ := hI.cache k' v hmem
        exact ⟨h1, Nat.lt_succ_of_lt h2, fun τ hτ => h3 τ (hnew τ hτ).2⟩
    · intro c hc l hl
      simp only [List.mem_append, List.mem_reverse] at hc
      rcases hc with hc | hc
      · rcases hlits _ c hc l hl with h | h
        · rw [h]; exact ⟨by omega, by simp, fun h => by simp at h; omega⟩
        · exact (hk _ h).mono (Nat.le_succ _)
      · exact (hI.lits c hc l hl).mono (Nat.le_succ _)
    · intro σ
      obtain ⟨τ, hag, hsat⟩ := hI.ex σ
      let τ' : Assign := fun v => if v = s.next then keyVal τ k else τ v
      have hag' : AgreeBelow s.next τ τ' := by
        intro v _ hv
        have : v ≠ s.next := by omega
        simp [τ', this]
      refine ⟨τ', hag.trans (hag'.mono hle), ?_⟩
      rw [tclsSat_append, tclsSat_reverse, hdef, litVal_natCast τ' s.next (by omega),
        ← tclsSat_congr hag' s.clauses hclt, ← keyVal_congr hag' k hklt, hsat]
      simp [τ']
    · intro τ₁ τ₂ h₁ h₂ hag
      have hb := hI.uniq τ₁ τ₂ (hnew τ₁ h₁).2 (hnew τ₂ h₂).2 hag
      intro v hv1 hv2
      by_cases hv : v = s.next
      · subst hv
        rw [(hnew τ₁ h₁).1, (hnew τ₂ h₂).1]
        exact keyVal_congr hb k hklt
      · exact hb v hv1 (by simp only at hv2; omega)
    · rw [litVal_natCast τ s.next (by omega)]
      exact (hnew τ hτ).1

private theorem any_not_eq (l : List Int) (p : Int → Bool) : l.any (fun v => !p v) = !l.all p := by
  induction l with
  | nil => rfl
  | cons a as ih => simp only [List.any_cons, List.all_cons, ih, Bool.not_and]

private theorem all_or_const (l : List Int) (p : Int → Bool) (x : Bool) :
    l.all (fun v => p v || x) = (x || l.all p) := by
  induction l with
  | nil => simp
  | cons a as ih => simp only [List.all_cons, ih]; cases x <;> cases p a <;> simp

private theorem any_and_const (l : List Int) (p : Int → Bool) (x : Bool) :
    l.all (fun v => !p v || x) = (x || !l.any p) := by
  induction l with
  | nil => simp
  | cons a as ih => simp only [List.all_cons, List.any_cons, ih]; cases x <;> cases p a <;> simp

theorem andDefs_sat (τ : Assign) (vs : List Int) (r : Int) :
    tclsSat τ ((vs.map ngt ++ [pos r]) :: vs.map (fun v => [pos v, ngt r]))
      = (litVal τ r == keyVal τ (.and vs)) := by
  simp only [tclsSat, tclSat, keyVal, List.all_cons, List.any_append, List.any_map, List.all_map,
    Function.comp_def, List.any_cons, List.any_nil, tlitVal_pos, tlitVal_ngt, Bool.or_false]
  rw [any_not_eq, all_or_const]
  cases litVal τ r <;> cases vs.all (litVal τ) <;> rfl

theorem orDefs_sat (τ : Assign) (vs : List Int) (r : Int) :
    tclsSat τ ((vs.map pos ++ [ngt r]) :: vs.map (fun v => [ngt v, pos r]))
      = (litVal τ r == keyVal τ (.or vs)) := by
  simp only [tclsSat, tclSat, keyVal, List.all_cons, List.any_append, List.any_map, List.all_map,
    Function.comp_def, List.any_cons, List.any_nil, tlitVal_pos, tlitVal_ngt, Bool.or_false]
  rw [any_and_const]
  have : vs.any (fun x => litVal τ x) = vs.any (litVal τ) := rfl
  rw [this]
  cases litVal τ r <;> cases vs.any (litVal τ) <;> rfl

theorem notDefs_sat (τ : Assign) (a r : Int) :
    tclsSat τ [[pos a, pos r], [ngt a, ngt r]] = (litVal τ r == keyVal τ (.not a)) := by
  simp only [tclsSat, tclSat, keyVal, List.all_cons, List.all_nil, List.any_cons, List.any_nil,
    tlitVal_pos, tlitVal_ngt]
  cases litVal τ r <;> cases litVal τ a <;> rfl

theorem impDefs_sat (τ : Assign) (a b r : Int) :
    tclsSat τ [[ngt a, pos b, ngt r], [pos a, pos r], [ngt b, pos r]]
      = (litVal τ r == keyVal τ (.imp a b)) := by
  simp only [tclsSat, tclSat, keyVal, List.all_cons, List.all_nil, List.any_cons, List.any_nil,
    tlitVal_pos, tlitVal_ngt]
  cases litVal τ r <;> cases litVal τ a <;> cases litVal τ b <;> rfl

theorem iffDefs_sat (τ : Assign) (a b r : Int) :
    tclsSat τ [[pos a, pos b, pos r], [ngt a, ngt b, pos r], [pos a, ngt b, ngt r],
        [ngt a, pos b, ngt r]]
      = (litVal τ r == keyVal τ (.iff a b)) := by
  simp only [tclsSat, tclSat, keyVal, List.all_cons, List.all_nil, List.any_cons, List.any_nil,
    tlitVal_pos, tlitVal_ngt]
  cases litVal τ r <;> cases litVal τ a <;> cases litVal τ b <;> rfl

theorem andDefs_lits (vs : List Int) (r : Int) :
    ∀ c ∈ (vs.map ngt ++ [pos r]) :: vs.map (fun v => [pos v, ngt r]), ∀ l ∈ c,
      l.v = r ∨ l.v ∈ keyLits (.and vs) := by
  intro c hc l hl
  simp only [List.mem_cons, List.mem_map, keyLits] at hc ⊢
  rcases hc with rfl | ⟨v, hv, rfl⟩
  · simp only [List.mem_append, List.mem_map, List.mem_singleton] at hl
    rcases hl with ⟨v, hv, rfl⟩ | rfl
    · right; exact hv
    · left; rfl
  · simp only [List.mem_cons, List.not_mem_nil, or_false] at hl
    rcases hl with rfl | rfl
    · right; exact hv
    · left; rfl

theorem orDefs_lits (vs : List Int) (r : Int) :
    ∀ c ∈ (vs.map pos ++ [ngt r]) :: vs.map (fun v => [ngt v, pos r]), ∀ l ∈ c,
      l.v = r ∨ l.v ∈ keyLits (.or vs) := by
  intro c hc l hl
  simp only [List.mem_cons, List.mem_map, keyLits] at hc ⊢
  rcases hc with rfl | ⟨v, hv, rfl⟩
  · simp only [List.mem_append, List.mem_map, List.mem_singleton] at hl
    rcases hl with ⟨v, hv, rfl⟩ | rfl
    · right; exact hv
    · left; rfl
  · simp only [List.mem_cons, List.not_mem_nil, or_false] at hl
    rcases hl with rfl | rfl
    · right; exact hv
    · left; rfl

theorem notDefs_lits (a r : Int) :
    ∀ c ∈ [[pos a, pos r], [ngt a, ngt r]], ∀ l ∈ c, l.v = r ∨ l.v ∈ keyLits (.not a) := by
  intro c hc l hl
  simp only [List.mem_cons, List.not_mem_nil, or_false] at hc
  rcases hc with rfl | rfl <;>
    simp only [List.mem_cons, List.not_mem_nil, or_false] at hl <;>
    rcases hl with rfl | rfl <;> simp [keyLits, pos, ngt]

theorem impDefs_lits (a b r : Int) :
    ∀ c ∈ [[ngt a, pos b, ngt r], [pos a, pos r], [ngt b, pos r]], ∀ l ∈ c,
      l.v = r ∨ l.v ∈ keyLits (.imp a b) := by
  intro c hc l hl
  simp only [List.mem_cons, List.not_mem_nil, or_false] at hc
  rcases hc with rfl | rfl | rfl <;>
    simp only [List.mem_cons, List.not_mem_nil, or_false] at hl <;>
    rcases hl with rfl | rfl | rfl <;> simp [keyLits, pos, ngt]

theorem iffDefs_lits (a b r : Int) :
    ∀ c ∈ [[pos a, pos b, pos r], [ngt a, ngt b, pos r], [pos a, ngt b, ngt r],
        [ngt a, pos b, ngt r]], ∀ l ∈ c,
      l.v = r ∨ l.v ∈ keyLits (.iff a b) := by
  intro c hc l hl
  simp only [List.mem_cons, List.not_mem_nil, or_false] at hc
  rcases hc with rfl | rfl | rfl | rfl <;>
    simp only [List.mem_cons, List.not_mem_nil, or_false] at hl <;>
    rcases hl with rfl | rfl | rfl <;> simp [keyLits, pos, ngt]

/-! ### The representation lemma -/

def RepSpec (n : Nat) (P : Nat → Prop) (f : Formula) (s : TState) : Prop :=
  Inv n P s → f.WF n → (∀ v ∈ f.vars, P v) →
    Inv n P (tseitinRep f s).2 ∧ Ext s (tseitinRep f s).2 ∧
    FLitOK n P (tseitinRep f s).2.next (tseitinRep f s).1 ∧
    ∀ τ, tclsSat τ (tseitinRep f s).2.clauses = true →
      litVal τ (tseitinRep f s).1 = f.eval τ

def RepsSpec (n : Nat) (P : Nat → Prop) (l : List Formula) (s : TState) : Prop :=
  Inv n P s → Formula.WFs n l → (∀ v ∈ Formula.varsList l, P v) →
    Inv n P (tseitinReps l s).2 ∧ Ext s (tseitinReps l s).2 ∧
    (∀ v ∈ (tseitinReps l s).1, FLitOK n P (tseitinReps l s).2.next v) ∧
    ∀ τ, tclsSat τ (tseitinReps l s).2.clauses = true →
      (tseitinReps l s).1.map (litVal τ) = l.map (eval τ)

private theorem all_of_map_eq {α β} (l : List α) (l' : List β) (p : α → Bool) (q : β → Bool)
    (h : l.map p = l'.map q) : l.all p = l'.all q := by
  have : (l.map p).all id = (l'.map q).all id := by rw [h]
  simpa [List.all_map, Function.comp_def] using this

private theorem any_of_map_eq {α β} (l : List α) (l' : List β) (p : α → Bool) (q : β → Bool)
    (h : l.map p = l'.map q) : l.any p = l'.any q := by
  have : (l.map p).any id = (l'.map q).any id := by rw [h]
  simpa [List.any_map, Function.comp_def] using this

theorem tseitin_spec (n : Nat) (P : Nat → Prop) (hn : 0 < n) :
    (∀ f s, RepSpec n P f s) ∧ (∀ l s, RepsSpec n P l s) := by
  apply tseitinRep.mutual_induct
  · -- lit
    intro i s hI hwf hP
    simp only [tseitinRep]
    simp only [Formula.WF] at hwf
    refine ⟨hI, Ext.refl s, ⟨hwf.1, by have := hI.le; omega, fun _ => hP _ (by simp [Formula.vars])⟩,
      fun τ _ => by simp [eval]⟩
  · -- and
    intro l s vs s1 heq ih hI hwf hP
    obtain ⟨hI1, hE1, hL1, hS1⟩ := ih hI (by simpa [Formula.WF] using hwf)
      (by simpa [Formula.vars] using hP)
    simp only [heq] at hI1 hE1 hL1 hS1
    simp only [tseitinRep, heq]
    obtain ⟨h1, h2, h3, h4⟩ := getOrDefine_spec (k := .and vs) hn hI1 hL1
      (fun r τ => andDefs_sat τ vs r) (fun r => andDefs_lits vs r)
    refine ⟨h1, hE1.trans h2, h3, fun τ hτ => ?_⟩
    rw [h4 τ hτ]
    simp only [keyVal, eval, evalAll_eq_all]
    exact all_of_map_eq _ _ _ _ (hS1 τ (h2.sat τ hτ))
  · -- or
    intro l s vs s1 heq ih hI hwf hP
    obtain ⟨hI1, hE1, hL1, hS1⟩ := ih hI (by simpa [Formula.WF] using hwf)
      (by simpa [Formula.vars] using hP)
    simp only [heq] at hI1 hE1 hL1 hS1
    simp only [tseitinRep, heq]
    obtain ⟨h1, h2, h3, h4⟩ := getOrDefine_spec (k := .or vs) hn hI1 hL1
      (fun r τ => orDefs_sat τ vs r) (fun r => orDefs_lits vs r)
    refine ⟨h1, hE1.trans h2, h3, fun τ hτ => ?_⟩
    rw [h4 τ hτ]
    simp only [keyVal, eval, evalAny_eq_any]
    exact any_of_map_eq _ _ _ _ (hS1 τ (h2.sat τ hτ))
  · -- imp
    intro p q s a s1 heq1 b s2 heq2 ihp ihq hI hwf hP
    simp only [Formula.WF] at hwf
    simp only [Formula.vars, List.mem_append] at hP
    obtain ⟨hI1, hE1, hL1, hS1⟩ := ihp hI hwf.1 (fun v hv => hP v (Or.inl hv))
    simp only [heq1] at hI1 hE1 hL1 hS1
    obtain ⟨hI2, hE2, hL2, hS2⟩ := ihq hI1 hwf.2 (fun v hv => hP v (Or.inr hv))
    simp only [heq2] at hI2 hE2 hL2 hS2
    simp only [tseitinRep, heq1, heq2]
    obtain ⟨h1, h2, h3, h4⟩ := getOrDefine_spec (k := .imp a b) hn hI2
      (by
        intro v hv
        simp only [keyLits, List.mem_cons, List.not_mem_nil, or_false] at hv
        rcases hv with rfl | rfl
        · exact hL1.mono hE2.next_le
        · exact hL2)
      (fun r τ => impDefs_sat τ a b r) (fun r => impDefs_lits a b r)
    refine ⟨h1, (hE1.trans hE2).trans h2, h3, fun τ hτ => ?_⟩
    rw [h4 τ hτ]
    simp only [keyVal, eval]
    rw [hS2 τ (h2.sat τ hτ), hS1 τ (hE2.sat τ (h2.sat τ hτ))]
  · -- iff
    intro p q s a s1 heq1 b s2 heq2 ihp ihq hI hwf hP
    simp only [Formula.WF] at hwf
    simp only [Formula.vars, List.mem_append] at hP
    obtain ⟨hI1, hE1, hL1, hS1⟩ := ihp hI hwf.1 (fun v hv => hP v (Or.inl hv))
    simp only [heq1] at hI1 hE1 hL1 hS1
    obtain ⟨hI2, hE2, hL2, hS2⟩ := ihq hI1 hwf.2 (fun v hv => hP v (Or.inr hv))
    simp only [heq2] at hI2 hE2 hL2 hS2
    simp only [tseitinRep, heq1, heq2]
    obtain ⟨h1, h2, h3, h4⟩ := getOrDefine_spec (k := .iff a b) hn hI2
      (by
        intro v hv
        simp only [keyLits, List.mem_cons, List.not_mem_nil, or_false] at hv
        rcases hv with rfl | rfl
        · exact hL1.mono hE2.next_le
        · exact hL2)
      (fun r τ => iffDefs_sat τ a b r) (fun r => iffDefs_lits a b r)
    refine ⟨h1, (hE1.trans hE2).trans h2, h3, fun τ hτ => ?_⟩
    rw [h4 τ hτ]
    simp only [keyVal, eval]
    rw [hS2 τ (h2.sat τ hτ), hS1 τ (hE2.sat τ (h2.sat τ hτ))]
  · -- not
    intro f s a s1 heq1 ih hI hwf hP
    simp only [Formula.WF] at hwf
    simp only [Formula.vars] at hP
    obtain ⟨hI1, hE1, hL1, hS1⟩ := ih hI hwf hP
    simp only [heq1] at hI1 hE1 hL1 hS1
    simp only [tseitinRep, heq1]
    obtain ⟨h1, h2, h3, h4⟩ := getOrDefine_spec (k := .not a) hn hI1
      (by
        intro v hv
        simp only [keyLits, List.mem_cons, List.not_mem_nil, or_false] at hv
        subst hv; exact hL1)
      (fun r τ => notDefs_sat τ a r) (fun r => notDefs_lits a r)
    refine ⟨h1, hE1.trans h2, h3, fun τ hτ => ?_⟩
    rw [h4 τ hτ]
    simp only [keyVal, eval]
    rw [hS1 τ (h2.sat τ hτ)]
  · -- nil
    intro s hI _ _
    simp only [tseitinReps]
    exact ⟨hI, Ext.refl s, by simp, fun _ _ => rfl⟩
  · -- cons
    intro f fs s v s1 heq1 vs s2 heq2 ihf ihfs hI hwf hP
    simp only [Formula.WFs] at hwf
    simp only [Formula.varsList, List.mem_append] at hP
    obtain ⟨hI1, hE1, hL1, hS1⟩ := ihf hI hwf.1 (fun v hv => hP v (Or.inl hv))
    simp only [heq1] at hI1 hE1 hL1 hS1
    obtain ⟨hI2, hE2, hL2, hS2⟩ := ihfs hI1 hwf.2 (fun v hv => hP v (Or.inr hv))
    simp only [heq2] at hI2 hE2 hL2 hS2
    simp only [tseitinReps, heq1, heq2]
    refine ⟨hI2, hE1.trans hE2, ?_, fun τ hτ => ?_⟩
    · intro w hw
      simp only [List.mem_cons] at hw
      rcases hw with rfl | hw
      · exact hL1.mono hE2.next_le
      · exact hL2 w hw
    · simp only [List.map_cons, hS2 τ hτ, hS1 τ (hE2.sat τ hτ)]

/-! ### Top level -/

theorem eval_congr_aux (n : Nat) (σ τ : Assign) (h : AgreeBelow n σ τ) :
    ∀ f : Formula, f.WF n → f.eval σ = f.eval τ := by
  apply Formula.rec (motive_1 := fun f => f.WF n → f.eval σ = f.eval τ)
    (motive_2 := fun l => Formula.WFs n l → l.map (eval σ) = l.map (eval τ))
  · intro i hw; simp only [Formula.WF] at hw; simp only [eval]; exact litVal_congr h i hw.1 hw.2
  · intro l ih hw; simp only [Formula.WF] at hw
    simp only [eval, evalAll_eq_all]; exact all_of_map_eq _ _ _ _ (ih hw)
  · intro l ih hw; simp only [Formula.WF] at hw
    simp only [eval, evalAny_eq_any]; exact any_of_map_eq _ _ _ _ (ih hw)
  · intro f ih hw; simp only [Formula.WF] at hw; simp only [eval, ih hw]
  · intro p q ihp ihq hw; simp only [Formula.WF] at hw; simp only [eval, ihp hw.1, ihq hw.2]
  · intro p q ihp ihq hw; simp only [Formula.WF] at hw; simp only [eval, ihp hw.1, ihq hw.2]
  · intro _; rfl
  · intro f fs ihf ihfs hw; simp only [Formula.WFs] at hw
    simp only [List.map_cons, ihf hw.1, ihfs hw.2]

theorem eval_congr {n : Nat} {σ τ : Assign} (h : AgreeBelow n σ τ) (f : Formula) (hf : f.WF n) :
    f.eval σ = f.eval τ := eval_congr_aux n σ τ h f hf

/-- Everything the headline theorems need about a run of `toCnfTseitin`. -/
theorem toCnfTseitin_spec (f : Formula) (n : Nat) (hn : 0 < n) (hf : f.WF n) :
    ∃ s : TState, ∃ r : Int,
      toCnfTseitin f n = { clauses := s.clauses.reverse, root := r, next := s.next } ∧
      Inv n (· ∈ f.vars) s ∧ FLitOK n (· ∈ f.vars) s.next r ∧
      ∀ τ, tclsSat τ s.clauses = true → litVal τ r = f.eval τ := by
  have h := (tseitin_spec n (· ∈ f.vars) hn).1 f { next := n, cache := [], clauses := [] }
    (Inv.init n _) hf (fun v hv => hv)
  refine ⟨(tseitinRep f { next := n, cache := [], clauses := [] }).2,
    (tseitinRep f { next := n, cache := [], clauses := [] }).1, ?_, h.1, h.2.2.1, h.2.2.2⟩
  simp only [toCnfTseitin]

theorem cnfSat_tseitin (τ : Assign) (cs : List (List TLit)) (r : Int) (m : Nat)
    (h : ∀ c ∈ cs, ∀ l ∈ c, l.v ≠ 0) :
    cnfSat τ (({ clauses := cs.reverse, root := r, next := m } : TseitinResult).cnf)
      = (tclsSat τ cs && litVal τ r) := by
  simp only [TseitinResult.cnf, cnfSat, clauseSat, List.all_append, List.all_map, List.all_reverse,
    List.all_cons, List.all_nil, List.any_cons, List.any_nil, Bool.or_false, Bool.and_true,
    tclsSat, Function.comp_def, List.any_map]
  congr 1
  apply all_congr_mem
  intro c hc
  unfold tclSat
  apply any_congr_mem
  intro l hl
  exact litVal_toInt τ l (h c hc l hl)

end SPModel
