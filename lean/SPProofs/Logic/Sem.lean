/-
  Semantic vocabulary for the model of `logic.py` (`SPModel.Logic`).
  Definitions only.
-/
import SPModel.Logic

namespace SPModel

mutual
/-- Every literal of the formula is non-zero and names a variable `< n`. -/
def Formula.WF (n : Nat) : Formula → Prop
  | .lit i => i ≠ 0 ∧ i.natAbs < n
  | .and l => Formula.WFs n l
  | .or l => Formula.WFs n l
  | .not f => Formula.WF n f
  | .imp p q => Formula.WF n p ∧ Formula.WF n q
  | .iff p q => Formula.WF n p ∧ Formula.WF n q
def Formula.WFs (n : Nat) : List Formula → Prop
  | [] => True
  | f :: fs => Formula.WF n f ∧ Formula.WFs n fs
end

mutual
/-- The variables (absolute values of literals) of a formula. -/
def Formula.vars : Formula → List Nat
  | .lit i => [i.natAbs]
  | .and l => Formula.varsList l
  | .or l => Formula.varsList l
  | .not f => Formula.vars f
  | .imp p q => Formula.vars p ++ Formula.vars q
  | .iff p q => Formula.vars p ++ Formula.vars q
def Formula.varsList : List Formula → List Nat
  | [] => []
  | f :: fs => Formula.vars f ++ Formula.varsList fs
end

mutual
/-- No `imp`/`iff` node anywhere (what `elimIff` establishes). -/
def Formula.NoImp : Formula → Prop
  | .lit _ => True
  | .and l => Formula.NoImps l
  | .or l => Formula.NoImps l
  | .not f => Formula.NoImp f
  | .imp _ _ => False
  | .iff _ _ => False
def Formula.NoImps : List Formula → Prop
  | [] => True
  | f :: fs => Formula.NoImp f ∧ Formula.NoImps fs
end

def Formula.isLit : Formula → Bool
  | .lit _ => true
  | _ => false

def Formula.isOr : Formula → Bool
  | .or _ => true
  | _ => false

mutual
/-- Negation normal form as `demorgan` produces it: literals, negated
    literals, `and`, `or`; and no `or` directly below an `or`. -/
def Formula.Shape : Formula → Prop
  | .lit _ => True
  | .and l => Formula.Shapes l
  | .or l => Formula.Shapes l ∧ ∀ g ∈ l, g.isOr = false
  | .not f => f.isLit = true
  | .imp _ _ => False
  | .iff _ _ => False
def Formula.Shapes : List Formula → Prop
  | [] => True
  | f :: fs => Formula.Shape f ∧ Formula.Shapes fs
end

/-- `σ` and `τ` agree on the variables `1 … n-1` (everything below the first fresh variable). -/
def AgreeBelow (n : Nat) (σ τ : Assign) : Prop := ∀ v, 1 ≤ v → v < n → σ v = τ v

end SPModel
