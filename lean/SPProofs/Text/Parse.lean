/- Helper lemmas for the printers and parsers of `SPModel.Text`. -/
import SPModel.Text

namespace SPModel.Text

theorem eraseDups_spec (n : Nat) : ∀ l : List Nat, l.length ≤ n →
    l.eraseDups.Nodup ∧ ∀ x, x ∈ l.eraseDups ↔ x ∈ l := by
  induction n with
  | zero =>
    intro l hl
    have : l = [] := List.eq_nil_of_length_eq_zero (by omega)
    subst this; simp
  | succ n ih =>
    intro l hl
    cases l with
    | nil => simp
    | cons a as =>
      have hlen : (as.filter fun b => !b == a).length ≤ n := by
        have := List.length_filter_le (fun b => !b == a) as
        simp at hl; omega
      obtain ⟨h1, h2⟩ := ih _ hlen
      rw [List.eraseDups_cons]
      refine ⟨?_, ?_⟩
      · rw [List.nodup_cons]
        refine ⟨?_, h1⟩
        rw [h2]; simp
      · intro x
        rw [List.mem_cons, h2, List.mem_cons, List.mem_filter]
        by_cases hx : x = a <;> simp [hx]

theorem tokInts_map (l : List Int) : tokInts (l.map Tok.int) = .ok l := by
  induction l with
  | nil => rfl
  | cons x xs ih => simp [tokInts, ih]

theorem tokInts_map_zero (l : List Int) : tokInts (l.map Tok.int ++ [.int 0]) = .ok (l ++ [0]) := by
  have : l.map Tok.int ++ [Tok.int 0] = (l ++ [0]).map Tok.int := by simp
  rw [this, tokInts_map]

theorem litVal_neg (τ : Assign) (x : Int) (hx : x ≠ 0) : litVal τ (-x) = !litVal τ x := by
  unfold litVal
  by_cases h : 0 < x
  · have : ¬ (0 < -x) := by omega
    simp [h]; omega
  · have : 0 < -x := by omega
    simp [h]; omega

/-! ## `parse_cnf_file` -/

theorem parseCnfGo_nil_line (rest : List Line) (acc : Parsed) :
    parseCnfGo ([] :: rest) acc = parseCnfGo rest acc := by
  simp [parseCnfGo]

theorem parseCnfGo_ind (toks : Line) (is : List Int) (h : tokInts toks = .ok is)
    (rest : List Line) (acc : Parsed) :
    parseCnfGo ((.c :: .ind :: toks) :: rest) acc =
      parseCnfGo rest { acc with sampling := acc.sampling ++ is.filter (· ≠ 0) } := by
  simp [parseCnfGo, h]

theorem parseCnfGo_header (n : Int) (r : Line) (rest : List Line) (acc : Parsed) :
    parseCnfGo ((.p :: .cnf :: .int n :: r) :: rest) acc = parseCnfGo rest { acc with nvars := n } := by
  simp [parseCnfGo]

theorem parseCnfGo_ints (i : Int) (toks : Line) (is : List Int)
    (h : tokInts (.int i :: toks) = .ok is) (hne : is.filter (· ≠ 0) ≠ [])
    (rest : List Line) (acc : Parsed) :
    parseCnfGo ((.int i :: toks) :: rest) acc =
      parseCnfGo rest { acc with clauses := acc.clauses ++ [is.filter (· ≠ 0)] } := by
  have hne' : ¬ ∀ a ∈ is, a = 0 := by
    intro hall
    apply hne
    simpa [List.filter_eq_nil_iff] using hall
  rw [parseCnfGo]
  · simp only [h, startsC, startsP]
    simp [hne']
  all_goals simp

theorem filter_append_zero (l : List Int) (h : ∀ x ∈ l, x ≠ 0) :
    (l ++ [0]).filter (· ≠ 0) = l := by
  rw [List.filter_append, List.filter_eq_self.2 (by simpa using h)]
  simp

/-- clause lines are read back as clauses -/
theorem parseCnfGo_clauseLines (cls : List Clause)
    (h : ∀ c ∈ cls, c ≠ [] ∧ ∀ l ∈ c, l ≠ 0) (rest : List Line) (acc : Parsed) :
    parseCnfGo (cls.map (fun cl => cl.map Tok.int ++ [.int 0]) ++ rest) acc =
      parseCnfGo rest { acc with clauses := acc.clauses ++ cls } := by
  induction cls generalizing acc with
  | nil => simp
  | cons c cs ih =>
    obtain ⟨hc, hl⟩ := h c (by simp)
    cases c with
    | nil => exact absurd rfl hc
    | cons i r =>
      have ht := tokInts_map_zero (i :: r)
      simp only [List.map_cons, List.cons_append] at ht ⊢
      rw [parseCnfGo_ints i _ _ ht (by rw [← List.cons_append, filter_append_zero _ hl]; simp)]
      rw [ih (fun c' hc' => h c' (by simp [hc']))]
      rw [← List.cons_append, filter_append_zero _ hl]
      simp

/-- support lines are read back into the sampling set -/
theorem parseCnfGo_indLines (chs : List (List Int))
    (h : ∀ c ∈ chs, ∀ l ∈ c, l ≠ 0) (rest : List Line) (acc : Parsed) :
    parseCnfGo (chs.map (fun ch => [Tok.c, .ind] ++ ch.map Tok.int ++ [.int 0]) ++ rest) acc =
      parseCnfGo rest { acc with sampling := acc.sampling ++ chs.flatten } := by
  induction chs generalizing acc with
  | nil => simp
  | cons c cs ih =>
    have hl := h c (by simp)
    simp only [List.map_cons, List.cons_append, List.nil_append]
    rw [parseCnfGo_ind _ _ (tokInts_map_zero c)]
    have ih' := ih (fun c' hc' => h c' (by simp [hc']))
    simp only [List.cons_append, List.nil_append] at ih'
    rw [ih', filter_append_zero _ hl]
    simp

theorem chunks10_flatten (fuel : Nat) (l : List Int) (h : l.length ≤ fuel) :
    (chunks10 fuel l).flatten = l := by
  induction fuel generalizing l with
  | zero =>
    have : l = [] := List.eq_nil_of_length_eq_zero (by omega)
    subst this; simp [chunks10]
  | succ n ih =>
    cases l with
    | nil => simp [chunks10]
    | cons x xs =>
      rw [chunks10]
      · rw [List.flatten_cons, ih _ (by simp at h ⊢; omega), List.take_append_drop]
      · simp


theorem sortedSet_of_sorted (l : List Int) (h : l.Pairwise (· < ·)) : sortedSet l = l := by
  induction l with
  | nil => rfl
  | cons x xs ih =>
    rw [List.pairwise_cons] at h
    unfold sortedSet at ih ⊢
    rw [List.foldr_cons, ih h.2]
    cases xs with
    | nil => rfl
    | cons y ys => simp [insertSorted, h.1 y (by simp)]

theorem rangeSupport_sorted (n : Nat) : (rangeSupport n).Pairwise (· < ·) := by
  unfold rangeSupport
  rw [List.pairwise_map]
  exact List.Pairwise.imp (fun h => by omega) List.pairwise_lt_range

theorem rangeSupport_ne_zero (n : Nat) : ∀ x ∈ rangeSupport n, x ≠ 0 := by
  intro x hx
  simp only [rangeSupport, List.mem_map] at hx
  obtain ⟨i, -, rfl⟩ := hx
  omega

/-- the lines between header and clauses: support lines, or one empty line -/
def midLines (support : List Int) : List Line :=
  if (supportLines support).isEmpty then [[]] else supportLines support

theorem unigenLines_eq (vals : List Clause) (nv : Nat) (support : List Int) :
    unigenLines vals nv support =
      headerLine nv vals.length :: (midLines support ++ cnfLines vals ++ [[]]) := rfl

theorem parseCnfGo_midLines (support : List Int) (h : ∀ x ∈ support, x ≠ 0)
    (rest : List Line) (acc : Parsed) :
    parseCnfGo (midLines support ++ rest) acc =
      parseCnfGo rest { acc with sampling := acc.sampling ++ support } := by
  have hfl := chunks10_flatten support.length support (Nat.le_refl _)
  have hne : ∀ c ∈ chunks10 support.length support, ∀ l ∈ c, l ≠ 0 := by
    intro c hc l hl
    apply h
    rw [← hfl]
    exact List.mem_flatten.2 ⟨c, hc, hl⟩
  unfold midLines
  by_cases he : (supportLines support).isEmpty = true
  · rw [if_pos he]
    have : chunks10 support.length support = [] := by
      simpa [supportLines] using he
    rw [this] at hfl
    simp only [List.flatten_nil] at hfl
    subst hfl
    simp [parseCnfGo_nil_line]
  · rw [if_neg he]
    unfold supportLines
    rw [parseCnfGo_indLines _ hne, hfl]

theorem parseCnfGo_unigen_body (vals : List Clause) (support : List Int)
    (h : ∀ c ∈ vals, c ≠ [] ∧ ∀ l ∈ c, l ≠ 0) (hs : ∀ x ∈ support, x ≠ 0)
    (rest : List Line) (acc : Parsed) :
    parseCnfGo (midLines support ++ cnfLines vals ++ rest) acc =
      parseCnfGo rest { acc with sampling := acc.sampling ++ support,
                                 clauses := acc.clauses ++ vals.reverse } := by
  rw [List.append_assoc, parseCnfGo_midLines _ hs]
  unfold cnfLines
  rw [parseCnfGo_clauseLines _ (fun c hc => h c (List.mem_reverse.1 hc))]

theorem parseCnfFile_unigen (vals : List Clause) (nv sup : Nat)
    (h : ∀ c ∈ vals, c ≠ [] ∧ ∀ l ∈ c, l ≠ 0) :
    parseCnfFile (unigenLines vals nv (rangeSupport sup))
      = .ok { clauses := vals.reverse, sampling := rangeSupport sup, nvars := (nv : Int) } := by
  unfold parseCnfFile
  rw [unigenLines_eq, headerLine, parseCnfGo_header,
    parseCnfGo_unigen_body _ _ h (rangeSupport_ne_zero sup), parseCnfGo_nil_line]
  simp [parseCnfGo, sortedSet_of_sorted _ (rangeSupport_sorted sup)]

/-! ## the DIMACS reader in front of pycryptosat -/

theorem parsePycryptoGo_nil_line (rest : List Line) (acc : List Clause × Int) :
    parsePycryptoGo ([] :: rest) acc = parsePycryptoGo rest acc := by
  simp [parsePycryptoGo]

theorem parsePycryptoGo_c (t : Line) (rest : List Line) (acc : List Clause × Int) :
    parsePycryptoGo ((.c :: t) :: rest) acc = parsePycryptoGo rest acc := by
  simp [parsePycryptoGo, startsC]

theorem parsePycryptoGo_header (n : Int) (r : Line) (rest : List Line) (acc : List Clause × Int) :
    parsePycryptoGo ((.p :: .cnf :: .int n :: r) :: rest) acc = parsePycryptoGo rest (acc.1, n) := by
  simp [parsePycryptoGo, startsC, startsP]

theorem parsePycryptoGo_ints (i : Int) (toks : Line) (is : List Int)
    (h : tokInts (.int i :: toks) = .ok is) (hne : dropLastZero is ≠ [])
    (rest : List Line) (acc : List Clause × Int) :
    parsePycryptoGo ((.int i :: toks) :: rest) acc =
      parsePycryptoGo rest (acc.1 ++ [dropLastZero is], acc.2) := by
  have hne' : (dropLastZero is).isEmpty = false := by
    cases hd : dropLastZero is with
    | nil => exact absurd hd hne
    | cons _ _ => rfl
  simp [parsePycryptoGo, startsC, startsP, h, hne']

theorem dropLastZero_append_zero (l : List Int) : dropLastZero (l ++ [0]) = l := by
  simp [dropLastZero]

theorem parsePycryptoGo_clauseLines (cls : List Clause)
    (h : ∀ c ∈ cls, c ≠ [] ∧ ∀ l ∈ c, l ≠ 0) (rest : List Line) (acc : List Clause × Int) :
    parsePycryptoGo (cls.map (fun cl => cl.map Tok.int ++ [.int 0]) ++ rest) acc =
      parsePycryptoGo rest (acc.1 ++ cls, acc.2) := by
  induction cls generalizing acc with
  | nil => simp
  | cons c cs ih =>
    obtain ⟨hc, hl⟩ := h c (by simp)
    cases c with
    | nil => exact absurd rfl hc
    | cons i r =>
      have ht := tokInts_map_zero (i :: r)
      simp only [List.map_cons, List.cons_append] at ht ⊢
      rw [parsePycryptoGo_ints i _ _ ht (by rw [← List.cons_append, dropLastZero_append_zero]; simp)]
      rw [ih (fun c' hc' => h c' (by simp [hc']))]
      rw [← List.cons_append, dropLastZero_append_zero]
      simp

theorem parsePycryptoGo_skip (ls : List Line) (h : ∀ l ∈ ls, l = [] ∨ ∃ t, l = Tok.c :: t)
    (rest : List Line) (acc : List Clause × Int) :
    parsePycryptoGo (ls ++ rest) acc = parsePycryptoGo rest acc := by
  induction ls with
  | nil => rfl
  | cons l ls ih =>
    have ih' := ih (fun l' hl' => h l' (by simp [hl']))
    rcases h l (by simp) with rfl | ⟨t, rfl⟩
    · rw [List.cons_append, parsePycryptoGo_nil_line, ih']
    · rw [List.cons_append, parsePycryptoGo_c, ih']

/-! ## `update_file` -/

theorem parseCnfGo_append (A B : List Line) (acc : Parsed) :
    parseCnfGo (A ++ B) acc =
      match parseCnfGo A acc with
      | .ok a => parseCnfGo B a
      | .error e => .error e := by
  fun_induction parseCnfGo A acc
  case case9 ih =>
    rw [List.cons_append, parseCnfGo] <;> try assumption
    simp_all [List.filter_eq_nil_iff]
    rw [← ih]
    congr 1
    rename_i l cl _ _ _ _ _
    have hcl : cl = List.filter (fun x => !decide (x = 0)) l := by simp [cl]
    have hiff : cl = [] ↔ ∀ a ∈ l, a = 0 := by simp [cl, List.filter_eq_nil_iff]
    simp only [hiff, ← hcl]
  all_goals simp_all [parseCnfGo]

/-- drop trailing empty lines -/
def rstrip (ls : List Line) : List Line := (ls.reverse.dropWhile List.isEmpty).reverse

theorem dropWhile_append_singleton {α} (p : α → Bool) (a : List α) (h : α) (hp : p h = false) :
    (a ++ [h]).dropWhile p = a.dropWhile p ++ [h] := by
  induction a with
  | nil => simp [List.dropWhile, hp]
  | cons x xs ih =>
    simp only [List.cons_append, List.dropWhile_cons]
    cases p x <;> simp [ih]

theorem rstrip_append_empty (ls : List Line) : rstrip (ls ++ [[]]) = rstrip ls := by
  simp [rstrip]

theorem stripLines_cons (h : Line) (hne : h ≠ []) (t : List Line) :
    stripLines (h :: t) = h :: rstrip t := by
  have hp : List.isEmpty h = false := by cases h <;> simp_all
  unfold stripLines rstrip
  rw [List.dropWhile_cons, hp]
  simp only [Bool.false_eq_true, if_false, List.reverse_cons]
  rw [dropWhile_append_singleton _ _ _ hp]
  simp

theorem mem_takeWhile_sat {α} (p : α → Bool) (l : List α) (x : α) (h : x ∈ l.takeWhile p) :
    p x = true := by
  induction l with
  | nil => simp at h
  | cons y ys ih =>
    rw [List.takeWhile_cons] at h
    by_cases hy : p y = true
    · rw [if_pos hy, List.mem_cons] at h
      rcases h with rfl | h
      · exact hy
      · exact ih h
    · rw [if_neg hy] at h
      simp at h

theorem rstrip_decomp (ls : List Line) : ∃ E : List Line, (∀ e ∈ E, e = []) ∧ ls = rstrip ls ++ E := by
  refine ⟨(ls.reverse.takeWhile List.isEmpty).reverse, ?_, ?_⟩
  · intro e he
    have := mem_takeWhile_sat _ _ _ (List.mem_reverse.1 he)
    simpa using this
  · unfold rstrip
    rw [← List.reverse_append, List.takeWhile_append_dropWhile, List.reverse_reverse]

theorem stripLines_unigen (vals : List Clause) (nv : Nat) (support : List Int) :
    ∃ body E, (∀ e ∈ E, e = []) ∧
      stripLines (unigenLines vals nv support) = headerLine nv vals.length :: body ∧
      (if (supportLines support).isEmpty then [[]] else supportLines support) ++ cnfLines vals = body ++ E := by
  obtain ⟨E, hE, hdec⟩ := rstrip_decomp
    ((if (supportLines support).isEmpty then [[]] else supportLines support) ++ cnfLines vals)
  refine ⟨_, E, hE, ?_, hdec⟩
  unfold unigenLines
  simp only []
  rw [stripLines_cons _ (by simp [headerLine]), rstrip_append_empty]

theorem midLines_skip (support : List Int) : ∀ l ∈ midLines support, l = [] ∨ ∃ t, l = Tok.c :: t := by
  intro l hl
  unfold midLines at hl
  split at hl
  · simp at hl; exact Or.inl hl
  · simp only [supportLines, List.mem_map] at hl
    obtain ⟨ch, -, rfl⟩ := hl
    exact Or.inr ⟨_, rfl⟩

theorem parsePycrypto_unigen (vals : List Clause) (nv : Nat) (support : List Int)
    (h : ∀ c ∈ vals, c ≠ [] ∧ ∀ l ∈ c, l ≠ 0) :
    parsePycrypto (unigenLines vals nv support) = .ok (vals.reverse, (nv : Int)) := by
  unfold parsePycrypto
  rw [unigenLines_eq, headerLine, parsePycryptoGo_header, List.append_assoc,
    parsePycryptoGo_skip _ (midLines_skip support)]
  unfold cnfLines
  rw [parsePycryptoGo_clauseLines _ (fun c hc => h c (List.mem_reverse.1 hc)),
    parsePycryptoGo_nil_line]
  simp [parsePycryptoGo]

theorem parseCnfGo_empties (E : List Line) (hE : ∀ e ∈ E, e = []) (rest : List Line) (acc : Parsed) :
    parseCnfGo (E ++ rest) acc = parseCnfGo rest acc := by
  induction E with
  | nil => rfl
  | cons e es ih =>
    have := hE e (by simp)
    subst this
    rw [List.cons_append, parseCnfGo_nil_line, ih (fun e' he' => hE e' (by simp [he']))]

theorem update_unigen (vals : List Clause) (nv sup : Nat) (sol : List Int)
    (h : ∀ c ∈ vals, c ≠ [] ∧ ∀ l ∈ c, l ≠ 0) (hs : sol ≠ [] ∧ ∀ l ∈ sol, l ≠ 0) :
    ∃ ls', updateFile (stripLines (unigenLines vals nv (rangeSupport sup))) sol = .ok ls' ∧
      ls'.head? = some (headerLine nv (vals.length + 1)) ∧
      parseCnfFile ls' = .ok { clauses := vals.reverse ++ [sol.map (fun x => -x)],
                               sampling := rangeSupport sup, nvars := (nv : Int) } := by
  obtain ⟨body, E, hE, hstrip, hdec⟩ := stripLines_unigen vals nv (rangeSupport sup)
  have hnew : sol.map (fun x => Tok.int (-1 * x)) ++ [Tok.int 0]
      = (sol.map (fun x => -x)).map Tok.int ++ [Tok.int 0] := by
    rw [List.map_map]
    congr 1
    apply List.map_congr_left
    intro x _
    simp only [Function.comp]
    congr 1
    omega
  refine ⟨headerLine nv (vals.length + 1) ::
    (body ++ [(sol.map (fun x => -x)).map Tok.int ++ [Tok.int 0]]), ?_, rfl, ?_⟩
  · rw [hstrip, ← hnew]
    simp [updateFile, headerLine]
  · -- the body parses to the old clauses and the support
    have hbody : ∀ acc : Parsed, parseCnfGo body acc =
        .ok { acc with sampling := acc.sampling ++ rangeSupport sup,
                       clauses := acc.clauses ++ vals.reverse } := by
      intro acc
      have h1 := parseCnfGo_unigen_body vals (rangeSupport sup) h (rangeSupport_ne_zero sup) [] acc
      rw [List.append_nil] at h1
      have hdec' : midLines (rangeSupport sup) ++ cnfLines vals = body ++ E := hdec
      rw [hdec', parseCnfGo_append] at h1
      cases hb : parseCnfGo body acc with
      | error e => rw [hb] at h1; simp [parseCnfGo] at h1
      | ok a =>
        rw [hb] at h1
        simp only [] at h1
        have h2 := parseCnfGo_empties E hE [] a
        rw [List.append_nil] at h2
        rw [h2] at h1
        simp only [parseCnfGo] at h1
        exact h1
    have hsol : ∀ c ∈ [sol.map (fun x => -x)], c ≠ [] ∧ ∀ l ∈ c, l ≠ 0 := by
      intro c hc
      simp only [List.mem_singleton] at hc
      subst hc
      refine ⟨by simpa using hs.1, ?_⟩
      intro l hl
      simp only [List.mem_map] at hl
      obtain ⟨x, hx, rfl⟩ := hl
      have := hs.2 x hx
      omega
    have hlast := parseCnfGo_clauseLines [sol.map (fun x => -x)] hsol []
    simp only [List.map_cons, List.map_nil, List.append_nil] at hlast
    unfold parseCnfFile
    rw [headerLine, parseCnfGo_header, parseCnfGo_append, hbody]
    simp only []
    rw [hlast]
    simp [parseCnfGo, sortedSet_of_sorted _ (rangeSupport_sorted sup)]

end SPModel.Text
