/- Helper lemmas for the OPB rows of `SPModel.Text`. -/
import SPModel.Text

namespace SPModel.Text

/-- sum of a list of integers, the way `OpbRow.holds` computes it -/
def isum (l : List Int) : Int := l.foldl (· + ·) 0

theorem foldl_add_acc (a : Int) (l : List Int) :
    l.foldl (· + ·) a = a + l.foldl (· + ·) 0 := by
  induction l generalizing a with
  | nil => simp
  | cons x xs ih =>
    simp only [List.foldl_cons]
    rw [ih (a + x), ih (0 + x)]
    omega

@[simp] theorem isum_nil : isum [] = 0 := rfl

@[simp] theorem isum_cons (x : Int) (xs : List Int) : isum (x :: xs) = x + isum xs := by
  unfold isum
  simp only [List.foldl_cons]
  rw [foldl_add_acc]
  omega

/-- left-hand side of a row under an assignment -/
def OpbRow.lhs (τ : Assign) (r : OpbRow) : Int :=
  isum (r.terms.map (fun t => if τ t.2 then t.1 else 0))

theorem OpbRow.holds_ge (τ : Assign) (r : OpbRow) (h : r.cmp = .ge) :
    r.holds τ = true ↔ r.rhs ≤ r.lhs τ := by
  simp [OpbRow.holds, OpbRow.lhs, isum, h]

theorem OpbRow.holds_le (τ : Assign) (r : OpbRow) (h : r.cmp = .le) :
    r.holds τ = true ↔ r.lhs τ ≤ r.rhs := by
  simp [OpbRow.holds, OpbRow.lhs, isum, h]

theorem OpbRow.holds_eq (τ : Assign) (r : OpbRow) (h : r.cmp = .eq) :
    r.holds τ = true ↔ r.lhs τ = r.rhs := by
  simp [OpbRow.holds, OpbRow.lhs, isum, h]

/-- signed terms: lhs + #negatives = #satisfied literals -/
theorem signed_lhs (τ : Assign) (cl : List Int) (hcl : ∀ l ∈ cl, l ≠ 0) :
    isum ((cl.map (fun l => ((if l < 0 then (-1 : Int) else 1), l.natAbs))).map
        (fun t => if τ t.2 then t.1 else 0))
      + ((cl.filter (· < 0)).length : Int) = ((cl.filter (litVal τ)).length : Int) := by
  rw [List.map_map]
  induction cl with
  | nil => simp
  | cons l ls ih =>
    have hl : l ≠ 0 := hcl l (by simp)
    have ih' := ih (fun x hx => hcl x (by simp [hx]))
    simp only [List.map_cons, isum_cons, List.filter_cons, litVal]
    by_cases hneg : l < 0
    · have hpos : ¬ (0 < l) := by omega
      by_cases hτ : τ l.natAbs = true <;> simp [hneg, hpos, hτ] <;> omega
    · have hpos : 0 < l := by omega
      by_cases hτ : τ l.natAbs = true <;> simp [hneg, hpos, hτ] <;> omega

theorem any_iff_filter_length_pos (p : Int → Bool) (l : List Int) :
    l.any p = true ↔ 1 ≤ (l.filter p).length := by
  induction l with
  | nil => simp
  | cons x xs ih =>
    simp only [List.any_cons, List.filter_cons, Bool.or_eq_true]
    cases hp : p x <;> simp [ih]

theorem all_iff_filter_length (p : Int → Bool) (l : List Int) :
    (∀ x ∈ l, p x = true) ↔ (l.filter p).length = l.length := by
  induction l with
  | nil => simp
  | cons x xs ih =>
    have hle : (xs.filter p).length ≤ xs.length := List.length_filter_le _ _
    simp only [List.mem_cons, forall_eq_or_imp, List.filter_cons]
    cases hp : p x
    · simp only [Bool.false_eq_true, false_and, ite_false, List.length_cons, false_iff]; omega
    · simp only [true_and, ite_true, List.length_cons, ih]; omega

/-- positive terms: lhs = #true variables -/
theorem pos_lhs (τ : Assign) (xs : List Int) (hx : ∀ l ∈ xs, 0 < l) :
    isum ((xs.map (fun l => ((1 : Int), l.natAbs))).map (fun t => if τ t.2 then t.1 else 0))
      = ((xs.filter (litVal τ)).length : Int) := by
  rw [List.map_map]
  induction xs with
  | nil => simp
  | cons l ls ih =>
    have hl : 0 < l := hx l (by simp)
    have ih' := ih (fun x hx' => hx x (by simp [hx']))
    simp only [List.map_cons, isum_cons, List.filter_cons, litVal]
    by_cases hτ : τ l.natAbs = true <;> simp [hl, hτ] <;> omega

end SPModel.Text
