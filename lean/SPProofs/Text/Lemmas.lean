/- Helper lemmas for the model of the solver text interfaces (`SPModel.Text`). -/
import SPModel.Text

namespace SPModel.Text

end SPModel.Text
