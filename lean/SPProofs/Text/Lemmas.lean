/- Helper lemmas for the model of the solver text interfaces (`SPModel.Text`). -/
import SPModel.Text
import SPProofs.Text.Opb
import SPProofs.Text.Parse

namespace SPModel.Text

end SPModel.Text
