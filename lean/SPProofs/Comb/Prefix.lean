/-
  Prefixes of permutations with bounded repetitions: `findFrom` walks the
  allocations depth first, each leaf standing for `mult` arrangements that
  `constructWithCopies` unranks; `countFrom` adds up the leaves.
-/
import SPProofs.Comb.Radix
import SPProofs.Comb.Multi

namespace SPModel.Comb

/-! ### searching through consecutive blocks -/

/-- partial sums `t 0 + … + t (k-1)` -/
def psum (t : Nat → Nat) : Nat → Nat
  | 0 => 0
  | k + 1 => psum t k + t k

theorem foldl_add_range (g : Nat → Nat) (K : Nat) :
    (List.range K).foldl (fun acc v => acc + g v) 0 = psum g K := by
  induction K with
  | zero => rfl
  | succ K ih => rw [List.range_succ, List.foldl_append, ih]; rfl

theorem psum_mul (m : Nat) (g : Nat → Nat) (K : Nat) :
    psum (fun v => m * g v) K = m * psum g K := by
  induction K with
  | zero => rfl
  | succ K ih => simp [psum, ih, Nat.mul_add]

theorem psum_congr (t t' : Nat → Nat) (K : Nat) (h : ∀ v, v < K → t v = t' v) :
    psum t K = psum t' K := by
  induction K with
  | zero => rfl
  | succ K ih => simp [psum, ih (fun v hv => h v (by omega)), h K (by omega)]

theorem psum_le (t : Nat → Nat) (v K : Nat) (h : v < K) : psum t v + t v ≤ psum t K := by
  induction K with
  | zero => omega
  | succ K ih =>
    by_cases hv : v = K
    · subst hv; simp [psum]
    · have := ih (by omega); simp only [psum]; omega

theorem psum_split (t : Nat → Nat) (K x : Nat) (h : x < psum t K) :
    ∃ v, v < K ∧ ∃ y, y < t v ∧ x = psum t v + y := by
  induction K with
  | zero => simp [psum] at h
  | succ K ih =>
    by_cases hx : x < psum t K
    · obtain ⟨v, hv, y, hy, e⟩ := ih hx
      exact ⟨v, by omega, y, hy, e⟩
    · simp only [psum] at h
      exact ⟨K, by omega, x - psum t K, by omega, by omega⟩

/-- one step of the "skip or hit" fold of `findFrom` -/
def searchStep {α : Type} (f : Nat → Nat → Except PyErr (Sum α Nat))
    (acc : Except PyErr (Sum α Nat)) (v : Nat) : Except PyErr (Sum α Nat) :=
  match acc with
  | .ok (.inr x) => f v x
  | other => other

theorem search_skip {α : Type} (f : Nat → Nat → Except PyErr (Sum α Nat)) (t : Nat → Nat) (K : Nat)
    (hskip : ∀ v, v < K → ∀ x, t v ≤ x → f v x = .ok (.inr (x - t v)))
    (x : Nat) (hx : psum t K ≤ x) :
    (List.range K).foldl (searchStep f) (.ok (.inr x)) = .ok (.inr (x - psum t K)) := by
  induction K with
  | zero => rfl
  | succ K ih =>
    simp only [psum] at hx
    rw [List.range_succ, List.foldl_append, ih (fun v hv => hskip v (by omega)) (by omega)]
    simp only [List.foldl_cons, List.foldl_nil, searchStep]
    rw [hskip K (by omega) _ (by omega)]
    simp only [psum]
    rw [Nat.sub_sub]

theorem search_hit {α : Type} (f : Nat → Nat → Except PyErr (Sum α Nat)) (t : Nat → Nat) (K : Nat)
    (hskip : ∀ v, v < K → ∀ x, t v ≤ x → f v x = .ok (.inr (x - t v)))
    (v y : Nat) (hv : v < K) (p : α) (hp : f v y = .ok (.inl p)) :
    (List.range K).foldl (searchStep f) (.ok (.inr (psum t v + y))) = .ok (.inl p) := by
  induction K with
  | zero => omega
  | succ K ih =>
    rw [List.range_succ, List.foldl_append]
    by_cases hvK : v = K
    · subst hvK
      rw [search_skip f t v (fun u hu => hskip u (by omega)) _ (by omega)]
      simp only [List.foldl_cons, List.foldl_nil, searchStep]
      rw [← hp, Nat.add_sub_cancel_left]
    · rw [ih (fun u hu => hskip u (by omega)) (by omega)]
      rfl

/-! ### unfolding `countFrom` / `findFrom` -/

/-- what `findFrom` does once everything is allocated -/
def leaf (q firstN : Nat) (buckets : List Nat) (mult find : Nat) : Except PyErr (Sum (List Nat) Nat) :=
  if find < mult then
    match constructWithCopies q firstN find (bucketsToCounters buckets q) with
    | .ok p => .ok (.inl p)
    | .error e => .error e
  else .ok (.inr (find - mult))

theorem findFrom_zero_need (a : Avail) (q firstN fuel start : Nat) (buckets : List Nat) (mult find : Nat) :
    findFrom a q firstN fuel start 0 buckets mult find = leaf q firstN buckets mult find := by
  unfold leaf
  by_cases h : find < mult
  · cases fuel <;> simp only [findFrom, if_pos h, if_true] <;>
      cases constructWithCopies q firstN find (bucketsToCounters buckets q) <;> rfl
  · cases fuel <;> simp only [findFrom, if_neg h, if_true]

theorem countFrom_zero_need (a : Avail) (q fuel start : Nat) : countFrom a q fuel start 0 = 1 := by
  cases fuel <;> simp [countFrom]

theorem countFrom_succ (a : Avail) (q fuel start need : Nat) (hneed : need ≠ 0) (hs : start < q)
    (ha : ¬ a.after q start < need) :
    countFrom a q (fuel + 1) start need =
      psum (fun v => countFrom a q fuel (start + 1) (need - v) * countInterleavings v need)
        (min (a.at start) need + 1) := by
  rw [countFrom, if_neg hneed, if_neg (by omega), if_neg ha, foldl_add_range]

theorem findFrom_succ (a : Avail) (q firstN fuel start need : Nat) (buckets : List Nat) (mult find : Nat)
    (hneed : need ≠ 0) (hs : start < q) (ha : ¬ a.after q start < need) :
    findFrom a q firstN (fuel + 1) start need buckets mult find =
      (List.range (min (a.at start) need + 1)).foldl
        (searchStep (fun v x => findFrom a q firstN fuel (start + 1) (need - v) (v :: buckets)
          (countInterleavings v need * mult) x)) (.ok (.inr find)) := by
  rw [findFrom, if_neg hneed, if_neg (by omega), if_neg ha]
  congr 1
  funext acc v
  cases acc with
  | error e => rfl
  | ok r => cases r <;> rfl

theorem total_succ (a : Avail) (q fuel start need mult : Nat) (hneed : need ≠ 0) (hs : start < q)
    (ha : ¬ a.after q start < need) :
    mult * countFrom a q (fuel + 1) start need =
      psum (fun v => countInterleavings v need * mult * countFrom a q fuel (start + 1) (need - v))
        (min (a.at start) need + 1) := by
  rw [countFrom_succ a q fuel start need hneed hs ha, ← psum_mul]
  apply psum_congr
  intro v _
  ac_rfl

theorem total_of_not (a : Avail) (q fuel start need mult : Nat) (hneed : need ≠ 0)
    (h : ¬ (start < q ∧ ¬ a.after q start < need)) :
    mult * countFrom a q fuel start need = 0 := by
  cases fuel with
  | zero => simp [countFrom, hneed]
  | succ fuel =>
    rw [countFrom, if_neg hneed]
    by_cases hs : start ≥ q
    · simp [hs]
    · rw [if_neg hs]
      have : a.after q start < need := by
        apply Classical.not_not.mp
        intro ha; exact h ⟨by omega, ha⟩
      simp [this]

theorem findFrom_of_not (a : Avail) (q firstN fuel start need : Nat) (buckets : List Nat)
    (mult find : Nat) (hneed : need ≠ 0)
    (h : ¬ (start < q ∧ ¬ a.after q start < need) ∨ fuel = 0) :
    findFrom a q firstN fuel start need buckets mult find = .ok (.inr find) := by
  cases fuel with
  | zero => simp [findFrom, hneed]
  | succ fuel =>
    rw [findFrom, if_neg hneed]
    by_cases hs : start ≥ q
    · simp [hs]
    · rw [if_neg hs]
      have : a.after q start < need := by
        apply Classical.not_not.mp
        intro ha
        rcases h with h | h
        · exact h ⟨by omega, ha⟩
        · omega
      simp [this]

theorem findFrom_skip (a : Avail) (q firstN : Nat) :
    ∀ (fuel start need : Nat) (buckets : List Nat) (mult find : Nat),
      mult * countFrom a q fuel start need ≤ find →
      findFrom a q firstN fuel start need buckets mult find =
        .ok (.inr (find - mult * countFrom a q fuel start need)) := by
  intro fuel
  induction fuel with
  | zero =>
    intro start need buckets mult find h
    by_cases hneed : need = 0
    · subst hneed
      rw [countFrom_zero_need, Nat.mul_one] at h ⊢
      rw [findFrom_zero_need, leaf, if_neg (by omega)]
    · rw [findFrom_of_not a q firstN 0 start need buckets mult find hneed (Or.inr rfl)]
      simp [countFrom, hneed]
  | succ fuel ih =>
    intro start need buckets mult find h
    by_cases hneed : need = 0
    · subst hneed
      rw [countFrom_zero_need, Nat.mul_one] at h ⊢
      rw [findFrom_zero_need, leaf, if_neg (by omega)]
    · by_cases hc : start < q ∧ ¬ a.after q start < need
      · obtain ⟨hs, ha⟩ := hc
        rw [total_succ a q fuel start need mult hneed hs ha] at h ⊢
        rw [findFrom_succ a q firstN fuel start need buckets mult find hneed hs ha]
        exact search_skip
          (fun v x => findFrom a q firstN fuel (start + 1) (need - v) (v :: buckets)
            (countInterleavings v need * mult) x)
          (fun v => countInterleavings v need * mult * countFrom a q fuel (start + 1) (need - v))
          _ (fun v _ x hx => ih _ _ _ _ x hx) find h
      · rw [findFrom_of_not a q firstN _ start need buckets mult find hneed (Or.inl hc),
          total_of_not a q _ start need mult hneed hc]
        rfl

/-! ### the multiplicity carried along is a multinomial coefficient -/

theorem countRemaining_single (s : Nat) : countRemaining [s] = 1 := by
  rw [countRemaining_cons, countRemaining_nil]; simp

theorem countRemaining_pair (v s : Nat) (h : v ≤ s) : countRemaining [v, s - v] = Nat.choose s v := by
  rw [countRemaining_cons, countRemaining_single]
  simp only [List.sum_cons, List.sum_nil, Nat.add_zero, Nat.mul_one]
  rw [Nat.add_sub_cancel' h]

theorem countRemaining_append (xs ys : List Nat) :
    countRemaining (xs ++ ys) = countRemaining (xs ++ [ys.sum]) * countRemaining ys := by
  induction xs with
  | nil => simp [countRemaining_single]
  | cons x xs ih =>
    simp only [List.cons_append, countRemaining_cons, ih, List.sum_append, List.sum_cons,
      List.sum_nil, Nat.add_zero, Nat.mul_assoc]

/-- bookkeeping that `findFrom` maintains on the way down -/
structure Inv (q firstN fuel start need : Nat) (buckets : List Nat) (mult : Nat) : Prop where
  len : buckets.length = start
  sum : buckets.sum + need = firstN
  mul : mult = countRemaining (buckets.reverse ++ [need])
  fuel : start + fuel = q

theorem Inv.init (q firstN : Nat) : Inv q firstN q 0 firstN [] 1 :=
  ⟨rfl, by simp, by simp [countRemaining_single], by simp⟩

theorem Inv.step {q firstN fuel start need : Nat} {buckets : List Nat} {mult : Nat}
    (h : Inv q firstN (fuel + 1) start need buckets mult) (v : Nat) (hv : v ≤ need) :
    Inv q firstN fuel (start + 1) (need - v) (v :: buckets) (countInterleavings v need * mult) := by
  refine ⟨by simp [h.len], ?_, ?_, ?_⟩
  · have := h.sum; simp only [List.sum_cons]; omega
  · rw [countInterleavings_eq v need hv, h.mul, List.reverse_cons, List.append_assoc,
      countRemaining_append _ ([v] ++ [need - v])]
    have : ([v] ++ [need - v]).sum = need := by simp; omega
    rw [this, Nat.mul_comm]
    congr 1
    exact (countRemaining_pair v need hv).symm
  · have := h.fuel; omega

theorem bucketsToCounters_eq (buckets : List Nat) (q : Nat) (h : buckets.length ≤ q) :
    bucketsToCounters buckets q = buckets.reverse ++ List.replicate (q - buckets.length) 0 := by
  unfold bucketsToCounters
  simp only [List.length_reverse]
  apply List.take_of_length_le
  simp; omega

theorem getD_append_left' (xs ys : List Nat) (i : Nat) (h : i < xs.length) :
    (xs ++ ys).getD i 0 = xs.getD i 0 := by
  simp [List.getD_eq_getElem?_getD, List.getElem?_append_left h]

theorem getD_append_replicate (xs : List Nat) (k i : Nat) (h : xs.length ≤ i) :
    (xs ++ List.replicate k 0).getD i 0 = 0 := by
  simp only [List.getD_eq_getElem?_getD, List.getElem?_append_right h]
  by_cases hi : i - xs.length < k <;> simp [hi]

theorem getD_append_single (xs : List Nat) (v : Nat) : (xs ++ [v]).getD xs.length 0 = v := by
  simp [List.getD_eq_getElem?_getD]

theorem Inv.leaf {q firstN fuel start : Nat} {buckets : List Nat} {mult : Nat}
    (h : Inv q firstN fuel start 0 buckets mult) :
    (bucketsToCounters buckets q).length = q ∧ (bucketsToCounters buckets q).sum = firstN ∧
    countRemaining (bucketsToCounters buckets q) = mult ∧
    bucketsToCounters buckets q = buckets.reverse ++ List.replicate (q - start) 0 := by
  have hle : buckets.length ≤ q := by have := h.len; have := h.fuel; omega
  have e := bucketsToCounters_eq buckets q hle
  rw [h.len] at e
  refine ⟨?_, ?_, ?_, e⟩
  · rw [e]; simp [h.len]; have := h.fuel; omega
  · rw [e]; have := h.sum; simp; omega
  · rw [e, countRemaining_append, countRemaining_replicate_zero, h.mul]
    simp

theorem constructWithCopies_length (q : Nat) : ∀ (fill idx : Nat) (cs w : List Nat),
    constructWithCopies q fill idx cs = .ok w → w.length = fill := by
  intro fill
  induction fill with
  | zero => intro idx cs w h; simp [constructWithCopies] at h; simp [h]
  | succ fill ih =>
    intro idx cs w h
    rw [constructWithCopies] at h
    split at h
    · simp at h
    · next i idx' _ =>
      split at h
      · next r hr =>
        simp at h; subst h
        simp [ih _ _ _ hr]
      · simp at h

/-! ### every index below the total is a hit, and the hit has the right shape -/

/-- what a result found below `(start, buckets)` looks like -/
def Good (q : Nat) (a : Avail) (firstN start : Nat) (buckets p : List Nat) : Prop :=
  p.length = firstN ∧ (∀ x ∈ p, x < q) ∧
  (∀ i, i < start → p.count i = buckets.reverse.getD i 0) ∧
  (∀ i, start ≤ i → i < q → p.count i ≤ a.at i)

theorem Good.unstep {q : Nat} {a : Avail} {firstN start v : Nat} {buckets p : List Nat}
    (hlen : buckets.length = start) (hv : v ≤ a.at start)
    (h : Good q a firstN (start + 1) (v :: buckets) p) :
    Good q a firstN start buckets p ∧ p.count start = v := by
  obtain ⟨h1, h2, h3, h4⟩ := h
  have hst : p.count start = v := by
    rw [h3 start (by omega), List.reverse_cons, ← hlen, ← List.length_reverse]
    exact getD_append_single _ _
  refine ⟨⟨h1, h2, ?_, ?_⟩, hst⟩
  · intro i hi
    rw [h3 i (by omega), List.reverse_cons]
    exact getD_append_left' _ _ _ (by simp; omega)
  · intro i hi hq
    by_cases hi' : i = start
    · subst hi'; omega
    · exact h4 i (by omega) hq

theorem leaf_hit {q : Nat} {a : Avail} {firstN fuel start : Nat} {buckets : List Nat} {mult : Nat}
    (hinv : Inv q firstN fuel start 0 buckets mult) (find : Nat) (hf : find < mult) :
    ∃ p, leaf q firstN buckets mult find = .ok (.inl p) ∧
      constructWithCopies q firstN find (bucketsToCounters buckets q) = .ok p ∧
      IsMultisetPermutation (bucketsToCounters buckets q) p ∧ Good q a firstN start buckets p := by
  obtain ⟨hl, hs, hm, he⟩ := hinv.leaf
  obtain ⟨w, hw, hperm⟩ := constructWithCopies_range' (bucketsToCounters buckets q) find
    (by rw [hm]; exact hf)
  rw [hl, hs] at hw
  refine ⟨w, by simp [leaf, hf, hw], hw, hperm, constructWithCopies_length _ _ _ _ _ hw, ?_, ?_, ?_⟩
  · intro x hx; have := hperm.1 x hx; omega
  · intro i hi
    rw [hperm.2 i (by have := hinv.fuel; omega), he]
    exact getD_append_left' _ _ _ (by simp [hinv.len, hi])
  · intro i hi hq
    rw [hperm.2 i (by omega), he, getD_append_replicate _ _ _ (by simp [hinv.len, hi])]
    exact Nat.zero_le _

theorem findFrom_hit (a : Avail) (q firstN : Nat) :
    ∀ (fuel start need : Nat) (buckets : List Nat) (mult find : Nat),
      Inv q firstN fuel start need buckets mult →
      find < mult * countFrom a q fuel start need →
      ∃ p, findFrom a q firstN fuel start need buckets mult find = .ok (.inl p) ∧
        Good q a firstN start buckets p := by
  intro fuel
  induction fuel with
  | zero =>
    intro start need buckets mult find hinv h
    by_cases hneed : need = 0
    · subst hneed
      rw [countFrom_zero_need, Nat.mul_one] at h
      rw [findFrom_zero_need]
      obtain ⟨p, hp, -, -, hg⟩ := leaf_hit (a := a) hinv find h
      exact ⟨p, hp, hg⟩
    · simp [countFrom, hneed] at h
  | succ fuel ih =>
    intro start need buckets mult find hinv h
    by_cases hneed : need = 0
    · subst hneed
      rw [countFrom_zero_need, Nat.mul_one] at h
      rw [findFrom_zero_need]
      obtain ⟨p, hp, -, -, hg⟩ := leaf_hit (a := a) hinv find h
      exact ⟨p, hp, hg⟩
    · by_cases hc : start < q ∧ ¬ a.after q start < need
      · obtain ⟨hs, ha⟩ := hc
        rw [total_succ a q fuel start need mult hneed hs ha] at h
        rw [findFrom_succ a q firstN fuel start need buckets mult find hneed hs ha]
        obtain ⟨v, hv, y, hy, rfl⟩ := psum_split _ _ _ h
        obtain ⟨p, hp, hg⟩ := ih (start + 1) (need - v) (v :: buckets)
          (countInterleavings v need * mult) y (hinv.step v (by omega)) hy
        refine ⟨p, ?_, (hg.unstep hinv.len (by omega)).1⟩
        exact search_hit
          (fun v x => findFrom a q firstN fuel (start + 1) (need - v) (v :: buckets)
            (countInterleavings v need * mult) x)
          (fun v => countInterleavings v need * mult * countFrom a q fuel (start + 1) (need - v))
          _ (fun v _ x hx => findFrom_skip a q firstN _ _ _ _ _ x hx) v y hv p hp
      · rw [total_of_not a q _ start need mult hneed hc] at h
        omega

theorem findFrom_step (a : Avail) (q firstN fuel start need : Nat) (buckets : List Nat) (mult : Nat)
    (hinv : Inv q firstN (fuel + 1) start need buckets mult)
    (hneed : need ≠ 0) (hs : start < q) (ha : ¬ a.after q start < need)
    (v y : Nat) (hv : v < min (a.at start) need + 1)
    (hy : y < countInterleavings v need * mult * countFrom a q fuel (start + 1) (need - v)) :
    findFrom a q firstN (fuel + 1) start need buckets mult
      (psum (fun v => countInterleavings v need * mult * countFrom a q fuel (start + 1) (need - v)) v + y)
      = findFrom a q firstN fuel (start + 1) (need - v) (v :: buckets)
          (countInterleavings v need * mult) y := by
  obtain ⟨p, hp, -⟩ := findFrom_hit a q firstN fuel (start + 1) (need - v) (v :: buckets)
    (countInterleavings v need * mult) y (hinv.step v (by omega)) hy
  rw [findFrom_succ a q firstN fuel start need buckets mult _ hneed hs ha, hp]
  exact search_hit
    (fun v x => findFrom a q firstN fuel (start + 1) (need - v) (v :: buckets)
      (countInterleavings v need * mult) x)
    (fun v => countInterleavings v need * mult * countFrom a q fuel (start + 1) (need - v))
    _ (fun v _ x hx => findFrom_skip a q firstN _ _ _ _ _ x hx) v y hv p hp

/-! ### distinct indices give distinct results -/

theorem leaf_inj {q : Nat} {firstN fuel start : Nat} {buckets : List Nat} {mult : Nat}
    (hinv : Inv q firstN fuel start 0 buckets mult) (f₁ f₂ : Nat) (h₁ : f₁ < mult) (h₂ : f₂ < mult)
    (h : leaf q firstN buckets mult f₁ = leaf q firstN buckets mult f₂) : f₁ = f₂ := by
  obtain ⟨hl, hs, hm, -⟩ := hinv.leaf
  obtain ⟨p₁, hp₁, hc₁, -⟩ := leaf_hit (a := .uniform 0) hinv f₁ h₁
  obtain ⟨p₂, hp₂, hc₂, -⟩ := leaf_hit (a := .uniform 0) hinv f₂ h₂
  rw [hp₁, hp₂] at h
  have hp : p₁ = p₂ := by simpa using h
  subst hp
  apply constructWithCopies_inj' (bucketsToCounters buckets q) f₁ f₂ (by rw [hm]; exact h₁)
    (by rw [hm]; exact h₂)
  rw [hl, hs, hc₁, hc₂]

theorem findFrom_inj (a : Avail) (q firstN : Nat) :
    ∀ (fuel start need : Nat) (buckets : List Nat) (mult f₁ f₂ : Nat),
      Inv q firstN fuel start need buckets mult →
      f₁ < mult * countFrom a q fuel start need → f₂ < mult * countFrom a q fuel start need →
      findFrom a q firstN fuel start need buckets mult f₁ =
        findFrom a q firstN fuel start need buckets mult f₂ → f₁ = f₂ := by
  intro fuel
  induction fuel with
  | zero =>
    intro start need buckets mult f₁ f₂ hinv h₁ h₂ h
    by_cases hneed : need = 0
    · subst hneed
      rw [countFrom_zero_need, Nat.mul_one] at h₁ h₂
      rw [findFrom_zero_need, findFrom_zero_need] at h
      exact leaf_inj hinv f₁ f₂ h₁ h₂ h
    · simp [countFrom, hneed] at h₁
  | succ fuel ih =>
    intro start need buckets mult f₁ f₂ hinv h₁ h₂ h
    by_cases hneed : need = 0
    · subst hneed
      rw [countFrom_zero_need, Nat.mul_one] at h₁ h₂
      rw [findFrom_zero_need, findFrom_zero_need] at h
      exact leaf_inj hinv f₁ f₂ h₁ h₂ h
    · by_cases hc : start < q ∧ ¬ a.after q start < need
      · obtain ⟨hs, ha⟩ := hc
        rw [total_succ a q fuel start need mult hneed hs ha] at h₁ h₂
        obtain ⟨v₁, hv₁, y₁, hy₁, rfl⟩ := psum_split _ _ _ h₁
        obtain ⟨v₂, hv₂, y₂, hy₂, rfl⟩ := psum_split _ _ _ h₂
        rw [findFrom_step a q firstN fuel start need buckets mult hinv hneed hs ha v₁ y₁ hv₁ hy₁,
          findFrom_step a q firstN fuel start need buckets mult hinv hneed hs ha v₂ y₂ hv₂ hy₂] at h
        obtain ⟨p₁, hp₁, hg₁⟩ := findFrom_hit a q firstN fuel (start + 1) (need - v₁) (v₁ :: buckets)
          (countInterleavings v₁ need * mult) y₁ (hinv.step v₁ (by omega)) hy₁
        obtain ⟨p₂, hp₂, hg₂⟩ := findFrom_hit a q firstN fuel (start + 1) (need - v₂) (v₂ :: buckets)
          (countInterleavings v₂ need * mult) y₂ (hinv.step v₂ (by omega)) hy₂
        have hp : p₁ = p₂ := by rw [hp₁, hp₂] at h; simpa using h
        subst hp
        have hv : v₁ = v₂ := by
          rw [← (hg₁.unstep hinv.len (by omega)).2, ← (hg₂.unstep hinv.len (by omega)).2]
        subst hv
        have := ih _ _ _ _ y₁ y₂ (hinv.step v₁ (by omega)) hy₁ hy₂ h
        rw [this]
      · rw [total_of_not a q _ start need mult hneed hc] at h₁
        omega

/-! ### every admissible word is found -/

theorem filter_ge_split (p : List Nat) (s : Nat) :
    (p.filter (fun x => decide (s ≤ x))).length =
      p.count s + (p.filter (fun x => decide (s + 1 ≤ x))).length := by
  induction p with
  | nil => simp
  | cons x p ih =>
    simp only [List.filter_cons, List.count_cons]
    by_cases h1 : s ≤ x <;> by_cases h2 : s + 1 ≤ x <;> by_cases h3 : x = s <;>
      simp [h1, h2, h3, ih] <;> omega

theorem after_step (a : Avail) (q start : Nat) (hs : start < q) :
    a.at start + a.after q (start + 1) ≤ a.after q start := by
  cases a with
  | uniform m =>
    simp only [Avail.at, Avail.after]
    have : q - start = (q - (start + 1)) + 1 := by omega
    rw [this, Nat.add_mul]; omega
  | counters cs =>
    simp only [Avail.at, Avail.after]
    by_cases h : start < cs.length
    · have e : (cs.drop start).sum = cs[start] + (cs.drop (start + 1)).sum := by
        rw [List.drop_eq_getElem_cons h, List.sum_cons]
      rw [e]
      simp [List.getD_eq_getElem?_getD, h]
    · have h' : cs.length ≤ start := by omega
      simp [List.getD_eq_getElem?_getD, List.drop_of_length_le h',
        List.drop_of_length_le (Nat.le_succ_of_le h'), List.getElem?_eq_none h']

theorem filter_le_after (a : Avail) (q : Nat) (p : List Nat) (hlt : ∀ x ∈ p, x < q) :
    ∀ (d start : Nat), q - start = d → (∀ i, start ≤ i → i < q → p.count i ≤ a.at i) →
      (p.filter (fun x => decide (start ≤ x))).length ≤ a.after q start := by
  intro d
  induction d with
  | zero =>
    intro start hd _
    have : p.filter (fun x => decide (start ≤ x)) = [] := by
      rw [List.filter_eq_nil_iff]
      intro x hx
      have := hlt x hx
      simp; omega
    simp [this]
  | succ d ih =>
    intro start hd hcnt
    rw [filter_ge_split]
    have h1 := hcnt start (Nat.le_refl _) (by omega)
    have h2 := ih (start + 1) (by omega) (fun i hi hq => hcnt i (by omega) hq)
    have h3 := after_step a q start (by omega)
    omega

/-- a word that the search below `(start, buckets)` with `need` still to place must find -/
def Fits (q : Nat) (a : Avail) (start need : Nat) (buckets p : List Nat) : Prop :=
  (∀ x ∈ p, x < q) ∧
  (∀ i, i < start → p.count i = buckets.reverse.getD i 0) ∧
  (∀ i, start ≤ i → i < q → p.count i ≤ a.at i) ∧
  (p.filter (fun x => decide (start ≤ x))).length = need

theorem leaf_surj {q : Nat} {a : Avail} {firstN fuel start : Nat} {buckets : List Nat} {mult : Nat}
    (hinv : Inv q firstN fuel start 0 buckets mult) (p : List Nat) (hfit : Fits q a start 0 buckets p) :
    ∃ find, find < mult ∧ leaf q firstN buckets mult find = .ok (.inl p) := by
  obtain ⟨hl, hs, hm, he⟩ := hinv.leaf
  obtain ⟨h1, h2, -, h4⟩ := hfit
  have hsmall : ∀ x ∈ p, x < start := by
    intro x hx
    have := List.filter_eq_nil_iff.mp (List.length_eq_zero_iff.mp h4) x hx
    simpa using this
  have hperm : IsMultisetPermutation (bucketsToCounters buckets q) p := by
    refine ⟨fun x hx => by rw [hl]; exact h1 x hx, ?_⟩
    intro i hi
    rw [he]
    by_cases his : i < start
    · rw [h2 i his]
      exact (getD_append_left' _ _ _ (by simp [hinv.len, his])).symm
    · rw [getD_append_replicate _ _ _ (by simp [hinv.len]; omega)]
      apply List.count_eq_zero.mpr
      intro hmem
      have := hsmall i hmem
      omega
  obtain ⟨idx, hidx, hc⟩ := constructWithCopies_surj' _ p hperm
  rw [hl, hs] at hc
  rw [hm] at hidx
  exact ⟨idx, hidx, by simp [leaf, hidx, hc]⟩

theorem findFrom_surj (a : Avail) (q firstN : Nat) :
    ∀ (fuel start need : Nat) (buckets : List Nat) (mult : Nat) (p : List Nat),
      Inv q firstN fuel start need buckets mult → Fits q a start need buckets p →
      ∃ find, find < mult * countFrom a q fuel start need ∧
        findFrom a q firstN fuel start need buckets mult find = .ok (.inl p) := by
  intro fuel
  induction fuel with
  | zero =>
    intro start need buckets mult p hinv hfit
    have hneed : need = 0 := by
      obtain ⟨h1, -, -, h4⟩ := hfit
      rw [← h4, List.length_eq_zero_iff, List.filter_eq_nil_iff]
      intro x hx
      have := h1 x hx
      have := hinv.fuel
      simp; omega
    subst hneed
    rw [countFrom_zero_need, Nat.mul_one]
    simp only [findFrom_zero_need]
    exact leaf_surj hinv p hfit
  | succ fuel ih =>
    intro start need buckets mult p hinv hfit
    by_cases hneed : need = 0
    · subst hneed
      rw [countFrom_zero_need, Nat.mul_one]
      simp only [findFrom_zero_need]
      exact leaf_surj hinv p hfit
    · obtain ⟨h1, h2, h3, h4⟩ := hfit
      have hs : start < q := by
        have hne : p.filter (fun x => decide (start ≤ x)) ≠ [] := by
          intro h; rw [h] at h4; simp at h4; omega
        obtain ⟨x, hx⟩ := List.exists_mem_of_ne_nil _ hne
        have hx' := List.mem_filter.mp hx
        have := h1 x hx'.1
        have := hx'.2
        simp at this; omega
      have ha : ¬ a.after q start < need := by
        have := filter_le_after a q p h1 _ start rfl h3
        omega
      have hsplit := filter_ge_split p start
      have hv : p.count start < min (a.at start) need + 1 := by
        have := h3 start (Nat.le_refl _) hs
        omega
      have hfit' : Fits q a (start + 1) (need - p.count start) (p.count start :: buckets) p := by
        refine ⟨h1, ?_, fun i hi hq => h3 i (by omega) hq, by omega⟩
        intro i hi
        rw [List.reverse_cons]
        by_cases his : i = start
        · subst his
          have := getD_append_single buckets.reverse (p.count i)
          rw [List.length_reverse, hinv.len] at this
          exact this.symm
        · rw [h2 i (by omega)]
          exact (getD_append_left' _ _ _ (by simp [hinv.len]; omega)).symm
      obtain ⟨y, hy, hfy⟩ := ih (start + 1) (need - p.count start) (p.count start :: buckets)
        (countInterleavings (p.count start) need * mult) p (hinv.step _ (by omega)) hfit'
      refine ⟨_, ?_, (findFrom_step a q firstN fuel start need buckets mult hinv hneed hs ha
        (p.count start) y hv hy).trans hfy⟩
      rw [total_succ a q fuel start need mult hneed hs ha]
      exact Nat.lt_of_lt_of_le (Nat.add_lt_add_left hy _) (psum_le _ _ _ hv)

/-! ### `jthPrefix` -/

theorem general_range (a : Avail) (q firstN j : Nat) (hj : j < countFrom a q q 0 firstN) :
    ∃ w, findFrom a q firstN q 0 firstN [] 1 j = .ok (.inl w) ∧ IsBoundedPrefix q a firstN w := by
  obtain ⟨w, hw, h1, h2, -, h4⟩ := findFrom_hit a q firstN q 0 firstN [] 1 j (Inv.init q firstN)
    (by rwa [Nat.one_mul])
  exact ⟨w, hw, h1, h2, fun i hi => h4 i (Nat.zero_le _) hi⟩

theorem general_inj (a : Avail) (q firstN j₁ j₂ : Nat) (h₁ : j₁ < countFrom a q q 0 firstN)
    (h₂ : j₂ < countFrom a q q 0 firstN)
    (h : findFrom a q firstN q 0 firstN [] 1 j₁ = findFrom a q firstN q 0 firstN [] 1 j₂) : j₁ = j₂ :=
  findFrom_inj a q firstN q 0 firstN [] 1 j₁ j₂ (Inv.init q firstN) (by rwa [Nat.one_mul])
    (by rwa [Nat.one_mul]) h

theorem general_surj (a : Avail) (q firstN : Nat) (w : List Nat) (hw : IsBoundedPrefix q a firstN w) :
    ∃ j, j < countFrom a q q 0 firstN ∧ findFrom a q firstN q 0 firstN [] 1 j = .ok (.inl w) := by
  obtain ⟨h1, h2, h3⟩ := hw
  have hfit : Fits q a 0 firstN [] w :=
    ⟨h2, fun i hi => absurd hi (Nat.not_lt_zero _), fun i _ hq => h3 i hq, by rw [List.filter_eq_self.mpr (fun x _ => by simp)]; exact h1⟩
  obtain ⟨j, hj, hf⟩ := findFrom_surj a q firstN q 0 firstN [] 1 w (Inv.init q firstN) hfit
  exact ⟨j, by rwa [Nat.one_mul] at hj, hf⟩

/-- the search part of `jthPrefix` -/
def jthGeneral (q : Nat) (a : Avail) (firstN j : Nat) : Except PyErr (Option (List Nat)) :=
  match findFrom a q firstN q 0 firstN [] 1 j with
  | .ok (.inl p) => .ok (some p)
  | .ok (.inr _) => .ok none
  | .error e => .error e

/-- does `jthPrefix` take the short cut through `jthCombination`? -/
def fastPath (a : Avail) (firstN : Nat) : Prop :=
  match a with
  | .uniform m => firstN ≤ m
  | .counters _ => False

theorem jthPrefix_slow (q : Nat) (a : Avail) (firstN j : Nat) (h : ¬ fastPath a firstN) :
    jthPrefix q a firstN j = jthGeneral q a firstN j ∧
      countPrefixes q a firstN = countFrom a q q 0 firstN := by
  cases a with
  | uniform m =>
    simp only [fastPath] at h
    simp only [jthPrefix, countPrefixes, if_neg h, jthGeneral]
    refine ⟨?_, trivial⟩
    cases findFrom (Avail.uniform m) q firstN q 0 firstN [] 1 j with
    | error e => rfl
    | ok r => cases r <;> rfl
  | counters cs =>
    simp only [jthPrefix, countPrefixes, jthGeneral]
    refine ⟨?_, trivial⟩
    cases findFrom (Avail.counters cs) q firstN q 0 firstN [] 1 j with
    | error e => rfl
    | ok r => cases r <;> rfl

theorem jthPrefix_fast (q : Nat) (a : Avail) (firstN j : Nat) (h : fastPath a firstN) :
    (jthPrefix q a firstN j = match jthCombination firstN q j with
      | .ok c => .ok (some c)
      | .error e => .error e) ∧
      countPrefixes q a firstN = q ^ firstN ∧
      ∀ w, IsBoundedPrefix q a firstN w ↔ IsWord q firstN w := by
  cases a with
  | uniform m =>
    simp only [fastPath] at h
    simp only [jthPrefix, countPrefixes, if_pos h]
    refine ⟨by cases jthCombination firstN q j <;> rfl, trivial, fun w => ⟨fun hw => ⟨hw.1, hw.2.1⟩, fun hw => ⟨hw.1, hw.2, fun i _ => ?_⟩⟩⟩
    have := List.count_le_length (a := i) (l := w)
    have := hw.1
    simp only [Avail.at]; omega
  | counters cs => exact absurd h (by simp [fastPath])

theorem jthGeneral_some {q : Nat} {a : Avail} {firstN j : Nat} {w : List Nat}
    (h : findFrom a q firstN q 0 firstN [] 1 j = .ok (.inl w)) :
    jthGeneral q a firstN j = .ok (some w) := by
  simp [jthGeneral, h]

theorem jthPrefix_range' (q : Nat) (a : Avail) (firstN j : Nat) (hq : 0 < q ∨ firstN = 0)
    (hj : j < countPrefixes q a firstN) :
    ∃ w, jthPrefix q a firstN j = .ok (some w) ∧ IsBoundedPrefix q a firstN w := by
  by_cases hf : fastPath a firstN
  · obtain ⟨e1, -, e3⟩ := jthPrefix_fast q a firstN j hf
    rcases hq with hq | hq
    · obtain ⟨w, hw, hword⟩ := jthCombination_range' firstN q j hq
      exact ⟨w, by rw [e1, hw], (e3 w).mpr hword⟩
    · subst hq
      refine ⟨[], by rw [e1]; simp [jthCombination, digitsLsb], (e3 []).mpr ⟨rfl, by simp⟩⟩
  · obtain ⟨e1, e2⟩ := jthPrefix_slow q a firstN j hf
    rw [e2] at hj
    obtain ⟨w, hw, hb⟩ := general_range a q firstN j hj
    exact ⟨w, by rw [e1, jthGeneral_some hw], hb⟩

theorem jthPrefix_inj' (q : Nat) (a : Avail) (firstN j₁ j₂ : Nat)
    (h₁ : j₁ < countPrefixes q a firstN) (h₂ : j₂ < countPrefixes q a firstN)
    (h : jthPrefix q a firstN j₁ = jthPrefix q a firstN j₂) : j₁ = j₂ := by
  by_cases hf : fastPath a firstN
  · obtain ⟨e1, e2, -⟩ := jthPrefix_fast q a firstN j₁ hf
    obtain ⟨e1', -, -⟩ := jthPrefix_fast q a firstN j₂ hf
    rw [e2] at h₁ h₂
    by_cases hq : 0 < q
    · obtain ⟨w₁, hw₁, -⟩ := jthCombination_range' firstN q j₁ hq
      obtain ⟨w₂, hw₂, -⟩ := jthCombination_range' firstN q j₂ hq
      rw [e1, e1', hw₁, hw₂] at h
      have hw : w₁ = w₂ := by simpa using h
      exact jthCombination_inj' firstN q j₁ j₂ hq h₁ h₂ (by rw [hw₁, hw₂, hw])
    · have hq0 : q = 0 := by omega
      subst hq0
      cases firstN with
      | zero => simp at h₁ h₂; omega
      | succ k => simp at h₁
  · obtain ⟨e1, e2⟩ := jthPrefix_slow q a firstN j₁ hf
    obtain ⟨e1', -⟩ := jthPrefix_slow q a firstN j₂ hf
    rw [e2] at h₁ h₂
    obtain ⟨w₁, hw₁, -⟩ := general_range a q firstN j₁ h₁
    obtain ⟨w₂, hw₂, -⟩ := general_range a q firstN j₂ h₂
    rw [e1, e1', jthGeneral_some hw₁, jthGeneral_some hw₂] at h
    have hw : w₁ = w₂ := by simpa using h
    exact general_inj a q firstN j₁ j₂ h₁ h₂ (by rw [hw₁, hw₂, hw])

theorem jthPrefix_surj' (q : Nat) (a : Avail) (firstN : Nat) (w : List Nat)
    (hw : IsBoundedPrefix q a firstN w) :
    ∃ j, j < countPrefixes q a firstN ∧ jthPrefix q a firstN j = .ok (some w) := by
  by_cases hf : fastPath a firstN
  · obtain ⟨-, e2, e3⟩ := jthPrefix_fast q a firstN 0 hf
    obtain ⟨j, hj, hc⟩ := jthCombination_surj' firstN q w ((e3 w).mp hw)
    refine ⟨j, by rwa [e2], ?_⟩
    rw [(jthPrefix_fast q a firstN j hf).1, hc]
  · obtain ⟨-, e2⟩ := jthPrefix_slow q a firstN 0 hf
    obtain ⟨j, hj, hfj⟩ := general_surj a q firstN w hw
    refine ⟨j, by rwa [e2], ?_⟩
    rw [(jthPrefix_slow q a firstN j hf).1, jthGeneral_some hfj]

end SPModel.Comb
