/-
  Vocabulary for the theorems about `SPModel.Comb`: the kinds of arrangement
  each unranking function is supposed to enumerate.  Definitions only.
-/
import SPModel.Comb

namespace SPModel.Comb

/-- product of a list of sizes -/
def prod (l : List Nat) : Nat := l.foldr (· * ·) 1

/-- `cs` picks one value below each size. -/
def InBox : List Nat → List Nat → Prop
  | [], [] => True
  | s :: ss, c :: cs => c < s ∧ InBox ss cs
  | _, _ => False

/-- a word of length `l` over `[0, n)` -/
def IsWord (n l : Nat) (w : List Nat) : Prop := w.length = l ∧ ∀ x ∈ w, x < n

/-- a strictly decreasing `m`-list over `[0, n)` (how combinations without replacement are reported) -/
def IsDecreasingCombination (n m : Nat) (w : List Nat) : Prop :=
  w.length = m ∧ (∀ x ∈ w, x < n) ∧ w.Pairwise (· > ·)

/-- an injective `m`-list over `[0, n)` (a prefix of a permutation) -/
def IsPermutationPrefix (n m : Nat) (w : List Nat) : Prop :=
  w.length = m ∧ (∀ x ∈ w, x < n) ∧ w.Nodup

/-- an arrangement of the multiset with `cs[i]` copies of `i` -/
def IsMultisetPermutation (cs : List Nat) (w : List Nat) : Prop :=
  (∀ x ∈ w, x < cs.length) ∧ ∀ i, i < cs.length → w.count i = cs.getD i 0

/-- a word of length `firstN` over `[0, q)` using choice `i` at most `a.at i` times -/
def IsBoundedPrefix (q : Nat) (a : Avail) (firstN : Nat) (w : List Nat) : Prop :=
  w.length = firstN ∧ (∀ x ∈ w, x < q) ∧ ∀ i, i < q → w.count i ≤ a.at i

/-- the availability is well formed for `q` choices -/
def Avail.WF (a : Avail) (q : Nat) : Prop :=
  match a with
  | .uniform _ => True
  | .counters cs => cs.length = q

end SPModel.Comb
