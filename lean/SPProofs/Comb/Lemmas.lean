/- Helper lemmas for the model of `combinatorics.py` (one file per family). -/
import SPProofs.Comb.Sem
import SPProofs.Comb.Base
import SPProofs.Comb.Radix

namespace SPModel.Comb

end SPModel.Comb
