/- Helper lemmas for the model of `combinatorics.py` (one file per family). -/
import SPProofs.Comb.Sem
import SPProofs.Comb.Base
import SPProofs.Comb.Radix
import SPProofs.Comb.Perm
import SPProofs.Comb.Choose
import SPProofs.Comb.Multi
import SPProofs.Comb.Prefix
