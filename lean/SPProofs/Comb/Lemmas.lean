/- Helper lemmas for the model of `combinatorics.py`. -/
import SPProofs.Comb.Sem

namespace SPModel.Comb

end SPModel.Comb
