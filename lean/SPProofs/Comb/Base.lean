/-
  Shared arithmetic facts for the `SPModel.Comb` proofs: the model's own
  `factorial` / `fallingProd` agree with Mathlib's `Nat.factorial` /
  `Nat.descFactorial`.
-/
import SPProofs.Comb.Sem
import Mathlib.Data.Nat.Choose.Basic
import Mathlib.Data.Nat.Factorial.Basic

namespace SPModel.Comb

theorem factorial_eq (n : Nat) : factorial n = n.factorial := by
  induction n with
  | zero => rfl
  | succ n ih => simp [factorial, Nat.factorial_succ, ih]

theorem factorial_pos (n : Nat) : 0 < factorial n := by
  rw [factorial_eq]; exact Nat.factorial_pos n

theorem fallingProd_eq_descFactorial (n m : Nat) : fallingProd n m = n.descFactorial m := by
  induction m generalizing n with
  | zero => simp [fallingProd]
  | succ m ih =>
    cases n with
    | zero => simp [fallingProd]
    | succ n => rw [Nat.succ_descFactorial_succ]; simp [fallingProd, ih]

end SPModel.Comb
