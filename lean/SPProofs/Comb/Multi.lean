/-
  Permutations of a multiset: `countRemaining` is the multinomial coefficient
  and `constructWithCopies` unranks the arrangements in lexicographic order.
-/
import SPProofs.Comb.Base
import Mathlib.Tactic.Ring
import Mathlib.Tactic.Linarith

namespace SPModel.Comb

/-- `Π c!` by structural recursion -/
def fprod : List Nat → Nat
  | [] => 1
  | c :: cs => factorial c * fprod cs

theorem foldl_mul_eq (l : List Nat) (a : Nat) :
    (l.map factorial).foldl (· * ·) a = a * fprod l := by
  induction l generalizing a with
  | nil => simp [fprod]
  | cons c cs ih => simp [List.foldl_cons, ih, fprod, Nat.mul_assoc]

theorem fprod_pos (l : List Nat) : 0 < fprod l := by
  induction l with
  | nil => simp [fprod]
  | cons c cs ih => exact Nat.mul_pos (factorial_pos c) ih

/-- the multinomial coefficient by structural recursion -/
def multi : List Nat → Nat
  | [] => 1
  | c :: cs => Nat.choose (c + cs.sum) c * multi cs

theorem multi_mul_fprod (cs : List Nat) : multi cs * fprod cs = factorial cs.sum := by
  induction cs with
  | nil => simp [multi, fprod, factorial]
  | cons c cs ih =>
    simp only [multi, fprod, List.sum_cons]
    have h := Nat.add_choose_mul_factorial_mul_factorial c cs.sum
    rw [← Nat.choose_symm_add] at h
    rw [factorial_eq] at ih
    rw [factorial_eq, factorial_eq, ← h, ← ih]
    ring

theorem countRemaining_eq_multi (cs : List Nat) : countRemaining cs = multi cs := by
  unfold countRemaining
  rw [foldl_mul_eq, Nat.one_mul, ← multi_mul_fprod]
  exact Nat.mul_div_cancel _ (fprod_pos cs)

theorem countRemaining_nil : countRemaining [] = 1 := by
  rw [countRemaining_eq_multi]; rfl

theorem countRemaining_cons (c : Nat) (cs : List Nat) :
    countRemaining (c :: cs) = Nat.choose (c + cs.sum) c * countRemaining cs := by
  rw [countRemaining_eq_multi, countRemaining_eq_multi]; rfl

theorem multi_of_sum_zero (cs : List Nat) (h : cs.sum = 0) : multi cs = 1 := by
  induction cs with
  | nil => rfl
  | cons c cs ih =>
    simp only [List.sum_cons] at h
    have hc : c = 0 := by omega
    have hs : cs.sum = 0 := by omega
    simp [multi, hc, hs, ih]

theorem countRemaining_replicate_zero (k : Nat) : countRemaining (List.replicate k 0) = 1 := by
  rw [countRemaining_eq_multi]
  apply multi_of_sum_zero
  simp

theorem countInterleavings_eq (v need : Nat) (h : v ≤ need) :
    countInterleavings v need = Nat.choose need v := by
  unfold countInterleavings
  rw [countRemaining_eq_multi]
  simp only [multi, List.sum_cons, List.sum_nil, Nat.add_zero, Nat.choose_self, Nat.mul_one]
  rw [show need - v + v = need by omega, Nat.choose_symm h]

theorem constructWithCopies_range' (cs : List Nat) (idx : Nat) (h : idx < countRemaining cs) :
    ∃ w, constructWithCopies cs.length cs.sum idx cs = .ok w ∧ IsMultisetPermutation cs w := by
  sorry

theorem constructWithCopies_inj' (cs : List Nat) (i₁ i₂ : Nat)
    (h₁ : i₁ < countRemaining cs) (h₂ : i₂ < countRemaining cs)
    (h : constructWithCopies cs.length cs.sum i₁ cs = constructWithCopies cs.length cs.sum i₂ cs) :
    i₁ = i₂ := by
  sorry

theorem constructWithCopies_surj' (cs : List Nat) (w : List Nat) (hw : IsMultisetPermutation cs w) :
    ∃ idx, idx < countRemaining cs ∧ constructWithCopies cs.length cs.sum idx cs = .ok w := by
  sorry

end SPModel.Comb
