/-
  Permutations of a multiset: `countRemaining` is the multinomial coefficient
  and `constructWithCopies` unranks the arrangements in lexicographic order.
-/
import SPProofs.Comb.Base
import Mathlib.Tactic.Ring
import Mathlib.Tactic.Linarith

namespace SPModel.Comb

/-- `Π c!` by structural recursion -/
def fprod : List Nat → Nat
  | [] => 1
  | c :: cs => factorial c * fprod cs

theorem foldl_mul_eq (l : List Nat) (a : Nat) :
    (l.map factorial).foldl (· * ·) a = a * fprod l := by
  induction l generalizing a with
  | nil => simp [fprod]
  | cons c cs ih => simp [List.foldl_cons, ih, fprod, Nat.mul_assoc]

theorem fprod_pos (l : List Nat) : 0 < fprod l := by
  induction l with
  | nil => simp [fprod]
  | cons c cs ih => exact Nat.mul_pos (factorial_pos c) ih

/-- the multinomial coefficient by structural recursion -/
def multi : List Nat → Nat
  | [] => 1
  | c :: cs => Nat.choose (c + cs.sum) c * multi cs

theorem multi_mul_fprod (cs : List Nat) : multi cs * fprod cs = factorial cs.sum := by
  induction cs with
  | nil => simp [multi, fprod, factorial]
  | cons c cs ih =>
    simp only [multi, fprod, List.sum_cons]
    have h := Nat.add_choose_mul_factorial_mul_factorial c cs.sum
    rw [← Nat.choose_symm_add] at h
    rw [factorial_eq] at ih
    rw [factorial_eq, factorial_eq, ← h, ← ih]
    ring

theorem countRemaining_eq_multi (cs : List Nat) : countRemaining cs = multi cs := by
  unfold countRemaining
  rw [foldl_mul_eq, Nat.one_mul, ← multi_mul_fprod]
  exact Nat.mul_div_cancel _ (fprod_pos cs)

theorem countRemaining_nil : countRemaining [] = 1 := by
  rw [countRemaining_eq_multi]; rfl

theorem countRemaining_cons (c : Nat) (cs : List Nat) :
    countRemaining (c :: cs) = Nat.choose (c + cs.sum) c * countRemaining cs := by
  rw [countRemaining_eq_multi, countRemaining_eq_multi]; rfl

theorem multi_of_sum_zero (cs : List Nat) (h : cs.sum = 0) : multi cs = 1 := by
  induction cs with
  | nil => rfl
  | cons c cs ih =>
    simp only [List.sum_cons] at h
    have hc : c = 0 := by omega
    have hs : cs.sum = 0 := by omega
    simp [multi, hc, hs, ih]

theorem countRemaining_replicate_zero (k : Nat) : countRemaining (List.replicate k 0) = 1 := by
  rw [countRemaining_eq_multi]
  apply multi_of_sum_zero
  simp

theorem countInterleavings_eq (v need : Nat) (h : v ≤ need) :
    countInterleavings v need = Nat.choose need v := by
  unfold countInterleavings
  rw [countRemaining_eq_multi]
  simp only [multi, List.sum_cons, List.sum_nil, Nat.add_zero, Nat.choose_self, Nat.mul_one]
  rw [show need - v + v = need by omega, Nat.choose_symm h]

/-! ### finite sums `Σ_{i0 ≤ k < i0 + n} f k` -/

def tsum (f : Nat → Nat) : Nat → Nat → Nat
  | _, 0 => 0
  | i0, n + 1 => f i0 + tsum f (i0 + 1) n

theorem tsum_congr {f g : Nat → Nat} (i0 n : Nat)
    (h : ∀ k, i0 ≤ k → k < i0 + n → f k = g k) : tsum f i0 n = tsum g i0 n := by
  induction n generalizing i0 with
  | zero => rfl
  | succ n ih =>
    simp only [tsum]
    rw [h i0 (Nat.le_refl _) (by omega), ih (i0 + 1) (fun k h1 h2 => h k (by omega) (by omega))]

theorem tsum_shift (f : Nat → Nat) (i0 n : Nat) :
    tsum f (i0 + 1) n = tsum (fun k => f (k + 1)) i0 n := by
  induction n generalizing i0 with
  | zero => rfl
  | succ n ih => simp only [tsum, ih]

theorem tsum_mul (a : Nat) (f : Nat → Nat) (i0 n : Nat) :
    tsum (fun k => a * f k) i0 n = a * tsum f i0 n := by
  induction n generalizing i0 with
  | zero => rfl
  | succ n ih => simp only [tsum, ih, Nat.mul_add]

theorem tsum_append (f : Nat → Nat) (i0 n m : Nat) :
    tsum f i0 (n + m) = tsum f i0 n + tsum f (i0 + n) m := by
  induction n generalizing i0 with
  | zero => simp [tsum]
  | succ n ih =>
    rw [show n + 1 + m = (n + m) + 1 by omega]
    simp only [tsum, ih]
    rw [show i0 + 1 + n = i0 + (n + 1) by omega]
    omega

theorem tsum_zero (i0 n : Nat) : tsum (fun _ => 0) i0 n = 0 := by
  induction n generalizing i0 with
  | zero => rfl
  | succ n ih => simp only [tsum, ih]

theorem tsum_succ_last (f : Nat → Nat) (i0 n : Nat) :
    tsum f i0 (n + 1) = tsum f i0 n + f (i0 + n) := by
  rw [tsum_append]; simp [tsum]

theorem tsum_le (f : Nat → Nat) (i0 n m : Nat) (h : n ≤ m) : tsum f i0 n ≤ tsum f i0 m := by
  obtain ⟨d, rfl⟩ := Nat.exists_eq_add_of_le h
  rw [tsum_append]; omega

/-! ### `decAt` -/

theorem decAt_length (cs : List Nat) (i : Nat) : (decAt cs i).length = cs.length := by
  induction cs generalizing i with
  | nil => rfl
  | cons c cs ih => cases i <;> simp [decAt, ih]

theorem decAt_sum (cs : List Nat) (i : Nat) (h : 0 < cs.getD i 0) :
    (decAt cs i).sum + 1 = cs.sum := by
  induction cs generalizing i with
  | nil => simp at h
  | cons c cs ih =>
    cases i with
    | zero => simp at h; simp [decAt]; omega
    | succ i =>
      simp at h
      have := ih i (by simpa using h)
      simp [decAt]; omega

theorem decAt_getD (cs : List Nat) (i j : Nat) :
    (decAt cs i).getD j 0 = if j = i then cs.getD i 0 - 1 else cs.getD j 0 := by
  induction cs generalizing i j with
  | nil => simp [decAt]
  | cons c cs ih =>
    cases i with
    | zero => cases j <;> simp [decAt]
    | succ i =>
      cases j with
      | zero => simp [decAt]
      | succ j => simpa [decAt] using ih i j

theorem getD_le_sum (cs : List Nat) (i : Nat) : cs.getD i 0 ≤ cs.sum := by
  induction cs generalizing i with
  | nil => simp
  | cons c cs ih =>
    cases i with
    | zero => simp
    | succ i => have := ih i; simp only [List.getD_cons_succ, List.sum_cons]; omega

theorem sum_eq_zero_of_getD (cs : List Nat) (h : ∀ i, i < cs.length → cs.getD i 0 = 0) :
    cs.sum = 0 := by
  induction cs with
  | nil => rfl
  | cons c cs ih =>
    have h0 := h 0 (by simp)
    have := ih (fun i hi => by simpa using h (i + 1) (by simpa using hi))
    simp at h0
    simp [h0, this]

/-! ### the multinomial recurrence -/

/-- number of arrangements that start with `k` -/
def term (cs : List Nat) (k : Nat) : Nat :=
  if 0 < cs.getD k 0 then multi (decAt cs k) else 0

theorem term_cons_succ (c : Nat) (cs : List Nat) (k : Nat) :
    term (c :: cs) (k + 1) = Nat.choose (c + (cs.sum - 1)) c * term cs k := by
  unfold term
  simp only [List.getD_cons_succ]
  split
  · next h =>
    have := decAt_sum cs k h
    simp only [decAt, multi]
    rw [show (decAt cs k).sum = cs.sum - 1 by omega]
  · simp

theorem multi_rec (cs : List Nat) (h : 0 < cs.sum) :
    multi cs = tsum (term cs) 0 cs.length := by
  induction cs with
  | nil => simp at h
  | cons c cs ih =>
    simp only [List.length_cons, tsum]
    rw [tsum_shift, tsum_congr (g := fun k => Nat.choose (c + (cs.sum - 1)) c * term cs k) 0 _
      (fun k _ _ => term_cons_succ c cs k), tsum_mul]
    simp only [List.sum_cons] at h
    have h0 : term (c :: cs) 0 = if 0 < c then Nat.choose (c - 1 + cs.sum) (c - 1) * multi cs else 0 := by
      simp [term, decAt, multi]
    rw [h0]
    simp only [multi]
    rcases Nat.eq_zero_or_pos cs.sum with hs | hs
    · have hc : 0 < c := by omega
      have hm := multi_of_sum_zero cs hs
      obtain ⟨c', rfl⟩ : ∃ c', c = c' + 1 := ⟨c - 1, by omega⟩
      have hz : tsum (term cs) 0 cs.length = 0 := by
        rw [tsum_congr (g := fun _ => 0) 0 _ (fun k _ _ => by
          have := getD_le_sum cs k
          simp only [term]; rw [if_neg (by omega)])]
        exact tsum_zero _ _
      simp [hs, hm, hz]
    · rw [← ih hs]
      rcases Nat.eq_zero_or_pos c with hc | hc
      · subst hc; simp
      · obtain ⟨c', rfl⟩ : ∃ c', c = c' + 1 := ⟨c - 1, by omega⟩
        obtain ⟨s', hs'⟩ : ∃ s', cs.sum = s' + 1 := ⟨cs.sum - 1, by omega⟩
        rw [hs']
        simp only [Nat.zero_lt_succ, if_true, Nat.add_sub_cancel]
        rw [show c' + 1 + (s' + 1) = (c' + 1 + s') + 1 by omega, Nat.choose_succ_succ,
          show c' + (s' + 1) = c' + 1 + s' by omega, Nat.add_mul]

theorem tsum_find (f : Nat → Nat) (i0 n idx : Nat) (h : idx < tsum f i0 n) :
    ∃ i, i0 ≤ i ∧ i < i0 + n ∧ tsum f i0 (i - i0) ≤ idx ∧ idx < tsum f i0 (i - i0) + f i := by
  induction n with
  | zero => simp [tsum] at h
  | succ n ih =>
    rw [tsum_succ_last] at h
    by_cases h' : idx < tsum f i0 n
    · obtain ⟨i, h1, h2, h3, h4⟩ := ih h'
      exact ⟨i, h1, by omega, h3, h4⟩
    · refine ⟨i0 + n, by omega, by omega, ?_, ?_⟩ <;> rw [Nat.add_sub_cancel_left] <;> omega

/-! ### `pickNext` -/

theorem pickNext_some_iff (cs : List Nat) (q : Nat) (hq : q ≤ cs.length)
    (fuel i0 idx i idx' : Nat) (hf : q - i0 < fuel) :
    pickNext cs q fuel i0 idx = some (i, idx') ↔
      i0 ≤ i ∧ i < q ∧ 0 < cs.getD i 0 ∧ idx' < term cs i ∧
        idx = tsum (term cs) i0 (i - i0) + idx' := by
  induction fuel generalizing i0 idx with
  | zero => omega
  | succ fuel ih =>
    simp only [pickNext]
    by_cases hi : i0 < q
    · have hlt : i0 < cs.length := by omega
      rw [if_pos hi]
      have hget : cs[i0]? = some cs[i0] := List.getElem?_eq_getElem hlt
      have hgd : cs.getD i0 0 = cs[i0] := by simp [List.getD, hget]
      simp only [hget]
      by_cases hc : cs[i0] > 0
      · rw [if_pos hc]
        have ht : term cs i0 = multi (decAt cs i0) := by unfold term; rw [if_pos (by omega)]
        rw [countRemaining_eq_multi, ← ht]
        by_cases hn : idx ≥ term cs i0
        · rw [if_pos hn, ih (i0 + 1) _ (by omega)]
          constructor
          · rintro ⟨h1, h2, h3, h4, h5⟩
            refine ⟨by omega, h2, h3, h4, ?_⟩
            rw [show i - i0 = (i - (i0 + 1)) + 1 by omega, tsum]; omega
          · rintro ⟨h1, h2, h3, h4, h5⟩
            have hne : i ≠ i0 := by
              rintro rfl; simp [tsum] at h5; omega
            rw [show i - i0 = (i - (i0 + 1)) + 1 by omega, tsum] at h5
            exact ⟨by omega, h2, h3, h4, by omega⟩
        · rw [if_neg hn]
          simp only [Option.some.injEq, Prod.mk.injEq]
          constructor
          · rintro ⟨rfl, rfl⟩
            exact ⟨Nat.le_refl _, hi, by omega, by omega, by simp [tsum]⟩
          · rintro ⟨h1, h2, h3, h4, h5⟩
            by_cases hii : i = i0
            · subst hii; simp [tsum] at h5; exact ⟨rfl, h5⟩
            · rw [show i - i0 = (i - (i0 + 1)) + 1 by omega, tsum] at h5; omega
      · rw [if_neg hc]
        have ht : term cs i0 = 0 := by unfold term; rw [if_neg (by omega)]
        rw [ih (i0 + 1) _ (by omega)]
        constructor
        · rintro ⟨h1, h2, h3, h4, h5⟩
          refine ⟨by omega, h2, h3, h4, ?_⟩
          rw [show i - i0 = (i - (i0 + 1)) + 1 by omega, tsum]; omega
        · rintro ⟨h1, h2, h3, h4, h5⟩
          have hne : i ≠ i0 := by
            rintro rfl; omega
          rw [show i - i0 = (i - (i0 + 1)) + 1 by omega, tsum] at h5
          exact ⟨by omega, h2, h3, h4, by omega⟩
    · rw [if_neg hi]
      simp only [reduceCtorEq, false_iff]
      omega

theorem term_pos_getD (cs : List Nat) (i : Nat) (h : 0 < term cs i) : 0 < cs.getD i 0 := by
  unfold term at h
  split at h
  · assumption
  · omega

theorem term_eq (cs : List Nat) (i : Nat) (h : 0 < cs.getD i 0) : term cs i = multi (decAt cs i) := by
  unfold term; rw [if_pos h]

theorem pickNext_exists (cs : List Nat) (idx : Nat) (hs : 0 < cs.sum) (h : idx < multi cs) :
    ∃ i idx', pickNext cs cs.length (cs.length + 1) 0 idx = some (i, idx') ∧ i < cs.length ∧
      0 < cs.getD i 0 ∧ idx' < multi (decAt cs i) ∧ idx = tsum (term cs) 0 i + idx' := by
  rw [multi_rec cs hs] at h
  obtain ⟨i, _, h2, h3, h4⟩ := tsum_find _ _ _ _ h
  simp only [Nat.sub_zero, Nat.zero_add] at h2 h3 h4
  have hpos : 0 < cs.getD i 0 := term_pos_getD cs i (by omega)
  refine ⟨i, idx - tsum (term cs) 0 i, ?_, h2, hpos, ?_, by omega⟩
  · rw [pickNext_some_iff cs cs.length (Nat.le_refl _) _ _ _ _ _ (by omega)]
    exact ⟨Nat.zero_le _, h2, hpos, by omega, by simp only [Nat.sub_zero]; omega⟩
  · rw [← term_eq cs i hpos]; omega

theorem pickNext_complete (cs : List Nat) (i idx' : Nat) (hi : i < cs.length)
    (hpos : 0 < cs.getD i 0) (h : idx' < multi (decAt cs i)) :
    pickNext cs cs.length (cs.length + 1) 0 (tsum (term cs) 0 i + idx') = some (i, idx') := by
  rw [pickNext_some_iff cs cs.length (Nat.le_refl _) _ _ _ _ _ (by omega)]
  exact ⟨Nat.zero_le _, hi, hpos, by rw [term_eq cs i hpos]; exact h, by simp⟩

theorem rank_lt (cs : List Nat) (i idx' : Nat) (hi : i < cs.length)
    (hpos : 0 < cs.getD i 0) (h : idx' < multi (decAt cs i)) :
    tsum (term cs) 0 i + idx' < multi cs := by
  have hs : 0 < cs.sum := by have := getD_le_sum cs i; omega
  rw [multi_rec cs hs]
  have h1 := tsum_le (term cs) 0 (i + 1) cs.length (by omega)
  rw [tsum_succ_last, Nat.zero_add, term_eq cs i hpos] at h1
  omega

/-! ### `constructWithCopies` -/

theorem cwc_range (fill : Nat) : ∀ (cs : List Nat) (idx : Nat), cs.sum = fill → idx < multi cs →
    ∃ w, constructWithCopies cs.length fill idx cs = .ok w ∧ IsMultisetPermutation cs w := by
  induction fill with
  | zero =>
    intro cs idx hs _
    refine ⟨[], rfl, by simp, ?_⟩
    intro i _
    have := getD_le_sum cs i
    simp [-List.getD_eq_getElem?_getD]; omega
  | succ fill ih =>
    intro cs idx hs hidx
    obtain ⟨i, idx', hp, hi, hci, hidx', _⟩ := pickNext_exists cs idx (by omega) hidx
    have hsum := decAt_sum cs i hci
    obtain ⟨r, hr, hmem, hcnt⟩ := ih (decAt cs i) idx' (by omega) hidx'
    rw [decAt_length] at hr hmem hcnt
    refine ⟨i :: r, ?_, ?_, ?_⟩
    · simp only [constructWithCopies, hp, hr]
    · intro x hx
      rcases List.mem_cons.1 hx with rfl | hx
      · exact hi
      · exact hmem x hx
    · intro j hj
      rw [List.count_cons, hcnt j hj, decAt_getD]
      by_cases hji : j = i
      · subst hji; simp [-List.getD_eq_getElem?_getD]; omega
      · have : ¬ i = j := fun h => hji h.symm
        simp [hji, this, -List.getD_eq_getElem?_getD]

theorem cwc_inj (fill : Nat) : ∀ (cs : List Nat) (i₁ i₂ : Nat), cs.sum = fill →
    i₁ < multi cs → i₂ < multi cs →
    constructWithCopies cs.length fill i₁ cs = constructWithCopies cs.length fill i₂ cs →
    i₁ = i₂ := by
  induction fill with
  | zero =>
    intro cs i₁ i₂ hs h₁ h₂ _
    rw [multi_of_sum_zero cs hs] at h₁ h₂; omega
  | succ fill ih =>
    intro cs i₁ i₂ hs h₁ h₂ h
    obtain ⟨a₁, b₁, hp₁, ha₁, hc₁, hb₁, he₁⟩ := pickNext_exists cs i₁ (by omega) h₁
    obtain ⟨a₂, b₂, hp₂, ha₂, hc₂, hb₂, he₂⟩ := pickNext_exists cs i₂ (by omega) h₂
    have hs₁ := decAt_sum cs a₁ hc₁
    have hs₂ := decAt_sum cs a₂ hc₂
    obtain ⟨r₁, hr₁, _⟩ := cwc_range fill (decAt cs a₁) b₁ (by omega) hb₁
    obtain ⟨r₂, hr₂, _⟩ := cwc_range fill (decAt cs a₂) b₂ (by omega) hb₂
    rw [decAt_length] at hr₁ hr₂
    simp only [constructWithCopies, hp₁, hp₂, hr₁, hr₂, Except.ok.injEq, List.cons.injEq] at h
    obtain ⟨rfl, rfl⟩ := h
    have := ih (decAt cs a₁) b₁ b₂ (by omega) hb₁ hb₂ (by rw [decAt_length, hr₁, hr₂])
    omega

theorem cwc_surj (fill : Nat) : ∀ (cs : List Nat) (w : List Nat), cs.sum = fill →
    IsMultisetPermutation cs w →
    ∃ idx, idx < multi cs ∧ constructWithCopies cs.length fill idx cs = .ok w := by
  induction fill with
  | zero =>
    intro cs w hs ⟨hmem, hcnt⟩
    have hw : w = [] := by
      cases w with
      | nil => rfl
      | cons x w =>
        exfalso
        have hx := hmem x (by simp)
        have h1 := hcnt x hx
        have h2 := getD_le_sum cs x
        simp [-List.getD_eq_getElem?_getD] at h1; omega
    subst hw
    exact ⟨0, by rw [multi_of_sum_zero cs hs]; omega, rfl⟩
  | succ fill ih =>
    intro cs w hs ⟨hmem, hcnt⟩
    cases w with
    | nil =>
      exfalso
      have := sum_eq_zero_of_getD cs (fun i hi => by have := hcnt i hi; simpa [-List.getD_eq_getElem?_getD] using this.symm)
      omega
    | cons i w =>
      have hi : i < cs.length := hmem i (by simp)
      have hci : cs.getD i 0 = w.count i + 1 := by
        have := hcnt i hi; simp [-List.getD_eq_getElem?_getD] at this; omega
      have hsum := decAt_sum cs i (by omega)
      have hperm : IsMultisetPermutation (decAt cs i) w := by
        refine ⟨?_, ?_⟩
        · intro x hx; rw [decAt_length]; exact hmem x (List.mem_cons_of_mem _ hx)
        · intro j hj
          rw [decAt_length] at hj
          rw [decAt_getD]
          have hj' := hcnt j hj
          rw [List.count_cons] at hj'
          by_cases hji : j = i
          · subst hji; simp [-List.getD_eq_getElem?_getD]; omega
          · have : ¬ i = j := fun h => hji h.symm
            simp [this, -List.getD_eq_getElem?_getD] at hj'
            simp [hji, hj', -List.getD_eq_getElem?_getD]
      obtain ⟨idx', hidx', hr⟩ := ih (decAt cs i) w (by omega) hperm
      rw [decAt_length] at hr
      refine ⟨tsum (term cs) 0 i + idx', rank_lt cs i idx' hi (by omega) hidx', ?_⟩
      simp only [constructWithCopies, pickNext_complete cs i idx' hi (by omega) hidx', hr]

theorem constructWithCopies_range' (cs : List Nat) (idx : Nat) (h : idx < countRemaining cs) :
    ∃ w, constructWithCopies cs.length cs.sum idx cs = .ok w ∧ IsMultisetPermutation cs w :=
  cwc_range cs.sum cs idx rfl (by rwa [countRemaining_eq_multi] at h)

theorem constructWithCopies_inj' (cs : List Nat) (i₁ i₂ : Nat)
    (h₁ : i₁ < countRemaining cs) (h₂ : i₂ < countRemaining cs)
    (h : constructWithCopies cs.length cs.sum i₁ cs = constructWithCopies cs.length cs.sum i₂ cs) :
    i₁ = i₂ :=
  cwc_inj cs.sum cs i₁ i₂ rfl (by rwa [countRemaining_eq_multi] at h₁)
    (by rwa [countRemaining_eq_multi] at h₂) h

theorem constructWithCopies_surj' (cs : List Nat) (w : List Nat) (hw : IsMultisetPermutation cs w) :
    ∃ idx, idx < countRemaining cs ∧ constructWithCopies cs.length cs.sum idx cs = .ok w := by
  rw [countRemaining_eq_multi]
  exact cwc_surj cs.sum cs w rfl hw

end SPModel.Comb
