/-
  Permutation prefixes: the inversion sequence is a mixed-radix expansion with
  sizes `n, n-1, …`, and `constructFrom` turns it into an injective list by
  picking the digit-th unused number.
-/
import SPProofs.Comb.Radix
import Mathlib.Data.List.Perm.Basic
import Mathlib.Data.List.Nodup

namespace SPModel.Comb

theorem fallingProd_mul_factorial (n m : Nat) (hm : m ≤ n) :
    fallingProd n m * factorial (n - m) = factorial n := by
  rw [fallingProd_eq_descFactorial, factorial_eq, factorial_eq, Nat.mul_comm]
  exact Nat.factorial_mul_descFactorial hm

/-- the radices of the factorial number system: `n, n-1, …` (`m` of them) -/
def sizesDesc : Nat → Nat → List Nat
  | _, 0 => []
  | n, m + 1 => n :: sizesDesc (n - 1) m

theorem sizesDesc_length (n m : Nat) : (sizesDesc n m).length = m := by
  induction m generalizing n with
  | zero => rfl
  | succ m ih => simp [sizesDesc, ih]

theorem sizesDesc_pos (n m : Nat) (hm : m ≤ n) : ∀ s ∈ sizesDesc n m, 0 < s := by
  induction m generalizing n with
  | zero => simp [sizesDesc]
  | succ m ih =>
    intro s hs
    simp only [sizesDesc, List.mem_cons] at hs
    rcases hs with rfl | hs
    · omega
    · exact ih (n - 1) (by omega) s hs

theorem prod_sizesDesc (n m : Nat) : prod (sizesDesc n m) = fallingProd n m := by
  induction m generalizing n with
  | zero => rfl
  | succ m ih => simp [sizesDesc, prod_cons, fallingProd, ih]

theorem jthInversionSequence_eq (n m j : Nat) :
    jthInversionSequence n m j = extractComponents (sizesDesc n m) j := by
  induction m generalizing n j with
  | zero => rfl
  | succ m ih => simp only [jthInversionSequence, sizesDesc, extractComponents, ih]

theorem inBox_length {sizes cs : List Nat} (h : InBox sizes cs) : cs.length = sizes.length := by
  induction sizes generalizing cs with
  | nil => cases cs <;> simp_all [InBox]
  | cons s ss ih =>
    cases cs with
    | nil => simp [InBox] at h
    | cons c cs => simp [ih h.2]

/-! ### `removeNth` -/

theorem removeNth_perm {l : List Nat} {i x : Nat} {r : List Nat}
    (h : removeNth l i = some (x, r)) : l.Perm (x :: r) := by
  induction l generalizing i x r with
  | nil => simp [removeNth] at h
  | cons a l ih =>
    cases i with
    | zero =>
      simp [removeNth] at h
      obtain ⟨rfl, rfl⟩ := h
      exact List.Perm.refl _
    | succ i =>
      simp only [removeNth] at h
      cases hr : removeNth l i with
      | none => simp [hr] at h
      | some p =>
        obtain ⟨y, r'⟩ := p
        simp [hr] at h
        obtain ⟨rfl, rfl⟩ := h
        exact ((ih hr).cons a).trans (List.Perm.swap _ _ _)

theorem removeNth_get {l : List Nat} {i x : Nat} {r : List Nat}
    (h : removeNth l i = some (x, r)) : l[i]? = some x := by
  induction l generalizing i x r with
  | nil => simp [removeNth] at h
  | cons a l ih =>
    cases i with
    | zero =>
      simp [removeNth] at h
      simp [h.1]
    | succ i =>
      simp only [removeNth] at h
      cases hr : removeNth l i with
      | none => simp [hr] at h
      | some p =>
        obtain ⟨y, r'⟩ := p
        simp [hr] at h
        obtain ⟨rfl, rfl⟩ := h
        simpa using ih hr

theorem removeNth_of_lt (l : List Nat) (i : Nat) (hi : i < l.length) :
    ∃ x r, removeNth l i = some (x, r) := by
  induction l generalizing i with
  | nil => simp at hi
  | cons a l ih =>
    cases i with
    | zero => exact ⟨a, l, rfl⟩
    | succ i =>
      obtain ⟨x, r, h⟩ := ih i (by simpa using hi)
      exact ⟨x, a :: r, by simp [removeNth, h]⟩

theorem removeNth_of_mem (l : List Nat) (x : Nat) (hx : x ∈ l) :
    ∃ i r, i < l.length ∧ removeNth l i = some (x, r) := by
  induction l with
  | nil => simp at hx
  | cons a l ih =>
    by_cases hxa : x = a
    · subst hxa; exact ⟨0, l, by simp, rfl⟩
    · have : x ∈ l := by simpa [hxa] using hx
      obtain ⟨i, r, hi, h⟩ := ih this
      exact ⟨i + 1, a :: r, by simpa using hi, by simp [removeNth, h]⟩

theorem removeNth_inj {l : List Nat} (hl : l.Nodup) {i₁ i₂ x : Nat} {r₁ r₂ : List Nat}
    (h₁ : removeNth l i₁ = some (x, r₁)) (h₂ : removeNth l i₂ = some (x, r₂)) : i₁ = i₂ := by
  have g₁ := removeNth_get h₁
  have g₂ := removeNth_get h₂
  have hi₁ : i₁ < l.length := by
    rcases Nat.lt_or_ge i₁ l.length with h | h
    · exact h
    · simp [List.getElem?_eq_none h] at g₁
  have hi₂ : i₂ < l.length := by
    rcases Nat.lt_or_ge i₂ l.length with h | h
    · exact h
    · simp [List.getElem?_eq_none h] at g₂
  rw [List.getElem?_eq_getElem hi₁] at g₁
  rw [List.getElem?_eq_getElem hi₂] at g₂
  exact (List.Nodup.getElem_inj_iff hl).mp (by rw [Option.some.inj g₁, Option.some.inj g₂])

/-! ### `constructFrom` -/

theorem constructFrom_ok (unused : List Nat) (hu : unused.Nodup) (m : Nat) (inv : List Nat)
    (hbox : InBox (sizesDesc unused.length m) inv) :
    ∃ w, constructFrom unused inv = .ok w ∧ w.length = m ∧ (∀ x ∈ w, x ∈ unused) ∧ w.Nodup := by
  induction m generalizing unused inv with
  | zero =>
    cases inv with
    | nil => exact ⟨[], rfl, rfl, by simp, List.nodup_nil⟩
    | cons a inv => simp [sizesDesc, InBox] at hbox
  | succ m ih =>
    cases inv with
    | nil => simp [sizesDesc, InBox] at hbox
    | cons i inv =>
      obtain ⟨hi, hbox'⟩ := hbox
      obtain ⟨x, r, hrm⟩ := removeNth_of_lt unused i hi
      have hp := removeNth_perm hrm
      have hnd : (x :: r).Nodup := hp.nodup_iff.mp hu
      have hlen : r.length = unused.length - 1 := by
        have := hp.length_eq; simp at this; omega
      rw [← hlen] at hbox'
      obtain ⟨w, hw, hwl, hwm, hwn⟩ := ih r (List.nodup_cons.mp hnd).2 inv hbox'
      refine ⟨x :: w, by simp [constructFrom, hrm, hw], by simp [hwl], ?_, ?_⟩
      · intro y hy
        rcases List.mem_cons.mp hy with rfl | hy
        · exact hp.mem_iff.mpr (by simp)
        · exact hp.mem_iff.mpr (List.mem_cons_of_mem _ (hwm y hy))
      · exact List.nodup_cons.mpr ⟨fun hx => (List.nodup_cons.mp hnd).1 (hwm x hx), hwn⟩

theorem constructFrom_inj (unused : List Nat) (hu : unused.Nodup) (m : Nat) (inv₁ inv₂ : List Nat)
    (hb₁ : InBox (sizesDesc unused.length m) inv₁) (hb₂ : InBox (sizesDesc unused.length m) inv₂)
    (h : constructFrom unused inv₁ = constructFrom unused inv₂) : inv₁ = inv₂ := by
  induction m generalizing unused inv₁ inv₂ with
  | zero =>
    cases inv₁ <;> cases inv₂ <;> simp_all [sizesDesc, InBox]
  | succ m ih =>
    cases inv₁ with
    | nil => simp [sizesDesc, InBox] at hb₁
    | cons i₁ inv₁ =>
    cases inv₂ with
    | nil => simp [sizesDesc, InBox] at hb₂
    | cons i₂ inv₂ =>
      obtain ⟨hi₁, hb₁'⟩ := hb₁
      obtain ⟨hi₂, hb₂'⟩ := hb₂
      obtain ⟨x₁, r₁, hrm₁⟩ := removeNth_of_lt unused i₁ hi₁
      obtain ⟨x₂, r₂, hrm₂⟩ := removeNth_of_lt unused i₂ hi₂
      have hp₁ := removeNth_perm hrm₁
      have hp₂ := removeNth_perm hrm₂
      have hnd₁ : (x₁ :: r₁).Nodup := hp₁.nodup_iff.mp hu
      have hlen₁ : r₁.length = unused.length - 1 := by
        have := hp₁.length_eq; simp at this; omega
      have hlen₂ : r₂.length = unused.length - 1 := by
        have := hp₂.length_eq; simp at this; omega
      rw [← hlen₁] at hb₁'
      rw [← hlen₂] at hb₂'
      obtain ⟨w₁, hw₁, -⟩ := constructFrom_ok r₁ (List.nodup_cons.mp hnd₁).2 m inv₁ hb₁'
      obtain ⟨w₂, hw₂, -⟩ := constructFrom_ok r₂
        (List.nodup_cons.mp (hp₂.nodup_iff.mp hu)).2 m inv₂ hb₂'
      simp [constructFrom, hrm₁, hrm₂, hw₁, hw₂] at h
      obtain ⟨rfl, rfl⟩ := h
      have hi : i₁ = i₂ := removeNth_inj hu hrm₁ hrm₂
      subst hi
      rw [hrm₁] at hrm₂
      simp at hrm₂
      subst hrm₂
      have := ih r₁ (List.nodup_cons.mp hnd₁).2 inv₁ inv₂ hb₁' hb₂' (by rw [hw₁, hw₂])
      rw [this]

theorem constructFrom_surj (unused : List Nat) (hu : unused.Nodup) (w : List Nat)
    (hwn : w.Nodup) (hwm : ∀ x ∈ w, x ∈ unused) :
    ∃ inv, InBox (sizesDesc unused.length w.length) inv ∧ constructFrom unused inv = .ok w := by
  induction w generalizing unused with
  | nil => exact ⟨[], trivial, rfl⟩
  | cons x w ih =>
    obtain ⟨i, r, hi, hrm⟩ := removeNth_of_mem unused x (hwm x (by simp))
    have hp := removeNth_perm hrm
    have hnd : (x :: r).Nodup := hp.nodup_iff.mp hu
    have hlen : r.length = unused.length - 1 := by
      have := hp.length_eq; simp at this; omega
    have hxw := (List.nodup_cons.mp hwn).1
    have hwr : ∀ y ∈ w, y ∈ r := by
      intro y hy
      have := hp.mem_iff.mp (hwm y (List.mem_cons_of_mem _ hy))
      rcases List.mem_cons.mp this with rfl | h
      · exact absurd hy hxw
      · exact h
    obtain ⟨inv, hbox, hc⟩ := ih r (List.nodup_cons.mp hnd).2 (List.nodup_cons.mp hwn).2 hwr
    refine ⟨i :: inv, ⟨hi, ?_⟩, by simp [constructFrom, hrm, hc]⟩
    rw [← hlen]; exact hbox

/-! ### `jthPermutationPrefix` -/

theorem jthPermutationPrefix_eq (n m j : Nat) (inv : List Nat)
    (h : extractComponents (sizesDesc n m) j = .ok inv) :
    jthPermutationPrefix n m j = constructFrom (List.range n) inv := by
  simp [jthPermutationPrefix, jthInversionSequence_eq, h, constructPermutation]

theorem jthPermutationPrefix_range' (n m j : Nat) (hm : m ≤ n) :
    ∃ w, jthPermutationPrefix n m j = .ok w ∧ IsPermutationPrefix n m w := by
  obtain ⟨inv, hinv, hbox⟩ := extractComponents_ok (sizesDesc n m) (sizesDesc_pos n m hm) j
  rw [jthPermutationPrefix_eq n m j inv hinv]
  have hbox' : InBox (sizesDesc (List.range n).length m) inv := by simpa using hbox
  obtain ⟨w, hw, hl, hmem, hnd⟩ := constructFrom_ok (List.range n) List.nodup_range m inv hbox'
  exact ⟨w, hw, hl, fun x hx => List.mem_range.mp (hmem x hx), hnd⟩

theorem jthPermutationPrefix_inj' (n m j₁ j₂ : Nat) (hm : m ≤ n)
    (h₁ : j₁ < fallingProd n m) (h₂ : j₂ < fallingProd n m)
    (h : jthPermutationPrefix n m j₁ = jthPermutationPrefix n m j₂) : j₁ = j₂ := by
  have hpos := sizesDesc_pos n m hm
  obtain ⟨inv₁, hinv₁, hbox₁⟩ := extractComponents_ok (sizesDesc n m) hpos j₁
  obtain ⟨inv₂, hinv₂, hbox₂⟩ := extractComponents_ok (sizesDesc n m) hpos j₂
  rw [jthPermutationPrefix_eq n m j₁ inv₁ hinv₁, jthPermutationPrefix_eq n m j₂ inv₂ hinv₂] at h
  have hb₁ : InBox (sizesDesc (List.range n).length m) inv₁ := by simpa using hbox₁
  have hb₂ : InBox (sizesDesc (List.range n).length m) inv₂ := by simpa using hbox₂
  have hinv := constructFrom_inj (List.range n) List.nodup_range m inv₁ inv₂ hb₁ hb₂ h
  subst hinv
  rw [← prod_sizesDesc] at h₁ h₂
  rw [← horner_extract _ hpos j₁ inv₁ h₁ hinv₁, ← horner_extract _ hpos j₂ inv₁ h₂ hinv₂]

theorem jthPermutationPrefix_surj' (n m : Nat) (w : List Nat) (hw : IsPermutationPrefix n m w) :
    ∃ j, j < fallingProd n m ∧ jthPermutationPrefix n m j = .ok w := by
  obtain ⟨hl, hlt, hnd⟩ := hw
  obtain ⟨inv, hbox, hc⟩ := constructFrom_surj (List.range n) List.nodup_range w hnd
    (fun x hx => List.mem_range.mpr (hlt x hx))
  rw [List.length_range, hl] at hbox
  obtain ⟨h1, h2⟩ := extract_horner _ inv hbox
  refine ⟨horner (sizesDesc n m) inv, by rwa [prod_sizesDesc] at h1, ?_⟩
  rw [jthPermutationPrefix_eq n m _ inv h2, hc]

end SPModel.Comb
