/-
  Mixed radix (`extractComponents`) and fixed radix (`jthCombination`)
  unranking: Horner evaluation is the inverse.
-/
import SPProofs.Comb.Base

namespace SPModel.Comb

/-! ### mixed radix -/

/-- Horner evaluation, least significant digit first. -/
def horner : List Nat → List Nat → Nat
  | s :: ss, c :: cs => c + s * horner ss cs
  | _, _ => 0

theorem prod_cons (s : Nat) (ss : List Nat) : prod (s :: ss) = s * prod ss := rfl

theorem extractComponents_ok (sizes : List Nat) (hpos : ∀ s ∈ sizes, 0 < s) (n : Nat) :
    ∃ cs, extractComponents sizes n = .ok cs ∧ InBox sizes cs := by
  induction sizes generalizing n with
  | nil => exact ⟨[], rfl, trivial⟩
  | cons s ss ih =>
    have hs : 0 < s := hpos s (by simp)
    obtain ⟨cs, hcs, hbox⟩ := ih (fun x hx => hpos x (by simp [hx])) (n / s)
    refine ⟨n % s :: cs, ?_, Nat.mod_lt _ hs, hbox⟩
    simp [extractComponents, Nat.ne_of_gt hs, hcs]

theorem horner_extract (sizes : List Nat) (hpos : ∀ s ∈ sizes, 0 < s) (n : Nat) (cs : List Nat)
    (hn : n < prod sizes) (h : extractComponents sizes n = .ok cs) : horner sizes cs = n := by
  induction sizes generalizing n cs with
  | nil =>
    simp [extractComponents] at h
    subst h
    simp [prod] at hn
    simp [horner, hn]
  | cons s ss ih =>
    have hs : 0 < s := hpos s (by simp)
    obtain ⟨cs', hcs', -⟩ := extractComponents_ok ss (fun x hx => hpos x (by simp [hx])) (n / s)
    simp [extractComponents, Nat.ne_of_gt hs, hcs'] at h
    subst h
    have hlt : n / s < prod ss := by
      rw [Nat.div_lt_iff_lt_mul hs, Nat.mul_comm]; exact hn
    have := ih (fun x hx => hpos x (by simp [hx])) (n / s) cs' hlt hcs'
    simp only [horner, this]
    exact Nat.mod_add_div n s

theorem extract_horner (sizes cs : List Nat) (hbox : InBox sizes cs) :
    horner sizes cs < prod sizes ∧ extractComponents sizes (horner sizes cs) = .ok cs := by
  induction sizes generalizing cs with
  | nil =>
    cases cs with
    | nil => simp [horner, prod, extractComponents]
    | cons c cs => simp [InBox] at hbox
  | cons s ss ih =>
    cases cs with
    | nil => simp [InBox] at hbox
    | cons c cs =>
      obtain ⟨hc, hbox'⟩ := hbox
      obtain ⟨h1, h2⟩ := ih cs hbox'
      have hs : 0 < s := by omega
      have hdiv : (c + s * horner ss cs) / s = horner ss cs := by
        rw [Nat.add_mul_div_left _ _ hs, Nat.div_eq_of_lt hc, Nat.zero_add]
      have hmod : (c + s * horner ss cs) % s = c := by
        rw [Nat.add_mul_mod_self_left, Nat.mod_eq_of_lt hc]
      refine ⟨?_, ?_⟩
      · rw [prod_cons]
        calc c + s * horner ss cs < s + s * horner ss cs := by omega
          _ = s * (horner ss cs + 1) := by rw [Nat.mul_add, Nat.mul_one, Nat.add_comm]
          _ ≤ s * prod ss := Nat.mul_le_mul_left _ h1
      · simp [horner, extractComponents, Nat.ne_of_gt hs, hdiv, hmod, h2]

/-! ### fixed radix -/

/-- Horner evaluation in base `n`, least significant digit first. -/
def hornerN (n : Nat) : List Nat → Nat
  | [] => 0
  | d :: ds => d + n * hornerN n ds

theorem digitsLsb_length (n l j : Nat) : (digitsLsb n l j).length = l := by
  induction l generalizing j with
  | zero => rfl
  | succ l ih => simp [digitsLsb, ih]

theorem digitsLsb_lt (n l j : Nat) (hn : 0 < n) : ∀ x ∈ digitsLsb n l j, x < n := by
  induction l generalizing j with
  | zero => simp [digitsLsb]
  | succ l ih =>
    intro x hx
    simp only [digitsLsb, List.mem_cons] at hx
    rcases hx with rfl | hx
    · exact Nat.mod_lt _ hn
    · exact ih _ x hx

theorem hornerN_digitsLsb (n l j : Nat) (hn : 0 < n) (hj : j < n ^ l) :
    hornerN n (digitsLsb n l j) = j := by
  induction l generalizing j with
  | zero => simp at hj; simp [digitsLsb, hornerN, hj]
  | succ l ih =>
    have hlt : j / n < n ^ l := by
      rw [Nat.div_lt_iff_lt_mul hn]; rwa [Nat.pow_succ] at hj
    simp only [digitsLsb, hornerN, ih _ hlt]
    exact Nat.mod_add_div j n

theorem digitsLsb_hornerN (n : Nat) (ds : List Nat) (hds : ∀ x ∈ ds, x < n) :
    hornerN n ds < n ^ ds.length ∧ digitsLsb n ds.length (hornerN n ds) = ds := by
  induction ds with
  | nil => simp [hornerN, digitsLsb]
  | cons d ds ih =>
    have hd : d < n := hds d (by simp)
    have hn : 0 < n := by omega
    obtain ⟨h1, h2⟩ := ih (fun x hx => hds x (by simp [hx]))
    have hdiv : (d + n * hornerN n ds) / n = hornerN n ds := by
      rw [Nat.add_mul_div_left _ _ hn, Nat.div_eq_of_lt hd, Nat.zero_add]
    have hmod : (d + n * hornerN n ds) % n = d := by
      rw [Nat.add_mul_mod_self_left, Nat.mod_eq_of_lt hd]
    refine ⟨?_, ?_⟩
    · simp only [hornerN, List.length_cons, Nat.pow_succ]
      calc d + n * hornerN n ds < n + n * hornerN n ds := by omega
        _ = n * (hornerN n ds + 1) := by rw [Nat.mul_add, Nat.mul_one, Nat.add_comm]
        _ ≤ n * n ^ ds.length := Nat.mul_le_mul_left _ h1
        _ = n ^ ds.length * n := Nat.mul_comm _ _
    · simp [hornerN, digitsLsb, hdiv, hmod, h2]

theorem jthCombination_ok (l n j : Nat) (hn : 0 < n) :
    jthCombination l n j = .ok (digitsLsb n l j).reverse := by
  simp [jthCombination, Nat.ne_of_gt hn]

theorem jthCombination_range' (l n j : Nat) (hn : 0 < n) :
    ∃ w, jthCombination l n j = .ok w ∧ IsWord n l w := by
  refine ⟨_, jthCombination_ok l n j hn, ?_, ?_⟩
  · simp [digitsLsb_length]
  · intro x hx
    exact digitsLsb_lt n l j hn x (List.mem_reverse.mp hx)

theorem jthCombination_inj' (l n j₁ j₂ : Nat) (hn : 0 < n) (h₁ : j₁ < n ^ l) (h₂ : j₂ < n ^ l)
    (h : jthCombination l n j₁ = jthCombination l n j₂) : j₁ = j₂ := by
  rw [jthCombination_ok l n j₁ hn, jthCombination_ok l n j₂ hn] at h
  have h' : digitsLsb n l j₁ = digitsLsb n l j₂ := List.reverse_inj.mp (Except.ok.inj h)
  rw [← hornerN_digitsLsb n l j₁ hn h₁, ← hornerN_digitsLsb n l j₂ hn h₂, h']

theorem jthCombination_surj' (l n : Nat) (w : List Nat) (hw : IsWord n l w) :
    ∃ j, j < n ^ l ∧ jthCombination l n j = .ok w := by
  obtain ⟨hlen, hlt⟩ := hw
  have hds : ∀ x ∈ w.reverse, x < n := fun x hx => hlt x (List.mem_reverse.mp hx)
  obtain ⟨h1, h2⟩ := digitsLsb_hornerN n w.reverse hds
  rw [List.length_reverse, hlen] at h1 h2
  refine ⟨hornerN n w.reverse, h1, ?_⟩
  unfold jthCombination
  rw [h2, List.reverse_reverse]
  have : ¬ (l > 0 ∧ n = 0) := by
    rintro ⟨hl, rfl⟩
    cases w with
    | nil => simp at hlen; omega
    | cons x w => exact absurd (hlt x (by simp)) (by omega)
  simp [this]

end SPModel.Comb
