/-
  Combinations without replacement: `nChooseM` is the binomial coefficient and
  `jthCombinationNoRepl` unranks the combinatorial number system.
-/
import SPProofs.Comb.Base

namespace SPModel.Comb

theorem nChooseM_eq_choose (n m : Nat) : nChooseM n m = Nat.choose n m := by
  unfold nChooseM
  by_cases h1 : n < m
  · rw [if_pos h1, Nat.choose_eq_zero_of_lt h1]
  · rw [if_neg h1]
    by_cases h2 : n = m
    · rw [if_pos h2, h2, Nat.choose_self]
    · rw [if_neg h2, fallingProd_eq_descFactorial, factorial_eq,
        Nat.choose_eq_descFactorial_div_factorial]

/-- What the `while` loop delivers: the largest `c` in `[c0, n)` whose binomial is still `≤ j`. -/
theorem climb_spec (n k j : Nat) : ∀ (fuel c0 : Nat), c0 < n → Nat.choose c0 k ≤ j →
    n ≤ c0 + fuel + 1 →
    c0 ≤ climb n k j fuel c0 ∧ climb n k j fuel c0 < n ∧
      Nat.choose (climb n k j fuel c0) k ≤ j ∧
      (climb n k j fuel c0 + 1 = n ∨ j < Nat.choose (climb n k j fuel c0 + 1) k) := by
  intro fuel
  induction fuel with
  | zero =>
    intro c0 h0 hc hf
    simp only [climb]
    refine ⟨Nat.le_refl _, h0, hc, Or.inl ?_⟩
    omega
  | succ fuel ih =>
    intro c0 h0 hc hf
    simp only [climb, nChooseM_eq_choose]
    by_cases hcond : c0 + 1 < n ∧ Nat.choose (c0 + 1) k ≤ j
    · rw [if_pos hcond]
      obtain ⟨h1, h2, h3, h4⟩ := ih (c0 + 1) hcond.1 hcond.2 (by omega)
      exact ⟨by omega, h2, h3, h4⟩
    · rw [if_neg hcond]
      refine ⟨Nat.le_refl _, h0, hc, ?_⟩
      by_cases h : c0 + 1 < n
      · right
        have : ¬ Nat.choose (c0 + 1) k ≤ j := fun h' => hcond ⟨h, h'⟩
        omega
      · left; omega

/-- The answer of the loop is determined by its specification. -/
theorem climb_unique (n k j c c' : Nat) (hc : c < n) (hc1 : Nat.choose c k ≤ j)
    (hc2 : j < Nat.choose (c + 1) k)
    (_hc' : c' < n) (hc'1 : Nat.choose c' k ≤ j)
    (hc'2 : c' + 1 = n ∨ j < Nat.choose (c' + 1) k) : c' = c := by
  rcases Nat.lt_trichotomy c c' with h | h | h
  · have := Nat.choose_le_choose k (show c + 1 ≤ c' from h)
    omega
  · exact h.symm
  · have := Nat.choose_le_choose k (show c' + 1 ≤ c from h)
    rcases hc'2 with h' | h' <;> omega

/-- rank of a decreasing list in the combinatorial number system -/
def noReplRank : List Nat → Nat
  | [] => 0
  | c :: w => Nat.choose c (w.length + 1) + noReplRank w

theorem jthCombinationNoRepl_spec (n : Nat) : ∀ (m n' j : Nat), n' ≤ n → j < Nat.choose n' m →
    (jthCombinationNoRepl n m j).length = m ∧ (∀ x ∈ jthCombinationNoRepl n m j, x < n') ∧
      (jthCombinationNoRepl n m j).Pairwise (· > ·) ∧
      noReplRank (jthCombinationNoRepl n m j) = j := by
  intro m
  induction m with
  | zero =>
    intro n' j _ hj
    simp only [Nat.choose_zero_right] at hj
    simp [jthCombinationNoRepl, noReplRank]
    omega
  | succ m ih =>
    intro n' j hn' hj
    have hmn' : m + 1 ≤ n' := by
      by_contra h
      rw [Nat.choose_eq_zero_of_lt (by omega)] at hj
      omega
    simp only [jthCombinationNoRepl, nChooseM_eq_choose]
    obtain ⟨h1, h2, h3, h4⟩ := climb_spec n (m + 1) j n m (by omega)
      (by rw [Nat.choose_eq_zero_of_lt (Nat.lt_succ_self m)]; exact Nat.zero_le _) (by omega)
    generalize climb n (m + 1) j n m = c at h1 h2 h3 h4
    have hcn' : c < n' := by
      by_contra h
      have := Nat.choose_le_choose (m + 1) (show n' ≤ c by omega)
      omega
    have hlt : j < Nat.choose (c + 1) (m + 1) := by
      rcases h4 with h | h
      · have : n' = c + 1 := by omega
        rw [← this]; exact hj
      · exact h
    have hpas : Nat.choose (c + 1) (m + 1) = Nat.choose c m + Nat.choose c (m + 1) :=
      Nat.choose_succ_succ c m
    obtain ⟨i1, i2, i3, i4⟩ := ih c (j - Nat.choose c (m + 1)) (by omega) (by omega)
    refine ⟨by simp [i1], ?_, ?_, ?_⟩
    · intro x hx
      rcases List.mem_cons.mp hx with rfl | hx
      · exact hcn'
      · exact Nat.lt_trans (i2 x hx) hcn'
    · exact List.pairwise_cons.mpr ⟨fun x hx => i2 x hx, i3⟩
    · simp only [noReplRank, i1, i4]
      omega

theorem noReplRank_spec (n : Nat) : ∀ (w : List Nat) (m n' : Nat), n' ≤ n →
    w.length = m → (∀ x ∈ w, x < n') → w.Pairwise (· > ·) →
    noReplRank w < Nat.choose n' m ∧ jthCombinationNoRepl n m (noReplRank w) = w := by
  intro w
  induction w with
  | nil =>
    intro m n' _ hl _ _
    simp only [List.length_nil] at hl
    subst hl
    simp [noReplRank, jthCombinationNoRepl]
  | cons c t ih =>
    intro m' n' hn' hl hlt hp
    simp only [List.length_cons] at hl
    subst hl
    have hcn' : c < n' := hlt c (List.mem_cons_self ..)
    obtain ⟨hp1, hp2⟩ := List.pairwise_cons.mp hp
    obtain ⟨i1, i2⟩ := ih t.length c (by omega) rfl (fun x hx => hp1 x hx) hp2
    have hmc : t.length ≤ c := by
      by_contra h
      rw [Nat.choose_eq_zero_of_lt (by omega)] at i1
      omega
    have hpas : Nat.choose (c + 1) (t.length + 1) =
        Nat.choose c t.length + Nat.choose c (t.length + 1) := Nat.choose_succ_succ c t.length
    have hmono := Nat.choose_le_choose (t.length + 1) (show c + 1 ≤ n' from hcn')
    simp only [noReplRank]
    refine ⟨by omega, ?_⟩
    simp only [jthCombinationNoRepl, nChooseM_eq_choose]
    obtain ⟨h1, h2, h3, h4⟩ := climb_spec n (t.length + 1)
      (Nat.choose c (t.length + 1) + noReplRank t) n t.length (by omega)
      (by rw [Nat.choose_eq_zero_of_lt (Nat.lt_succ_self _)]; exact Nat.zero_le _) (by omega)
    have hu := climb_unique n (t.length + 1) (Nat.choose c (t.length + 1) + noReplRank t) c _
      (by omega) (by omega) (by omega) h2 h3 h4
    rw [hu, Nat.add_sub_cancel_left, i2]

set_option linter.unusedVariables false in
theorem jthCombinationNoRepl_range' (n m j : Nat) (hm : m ≤ n) (hj : j < nChooseM n m) :
    IsDecreasingCombination n m (jthCombinationNoRepl n m j) := by
  rw [nChooseM_eq_choose] at hj
  obtain ⟨h1, h2, h3, _⟩ := jthCombinationNoRepl_spec n m n j (Nat.le_refl _) hj
  exact ⟨h1, h2, h3⟩

set_option linter.unusedVariables false in
theorem jthCombinationNoRepl_inj' (n m j₁ j₂ : Nat) (hm : m ≤ n)
    (h₁ : j₁ < nChooseM n m) (h₂ : j₂ < nChooseM n m)
    (h : jthCombinationNoRepl n m j₁ = jthCombinationNoRepl n m j₂) : j₁ = j₂ := by
  rw [nChooseM_eq_choose] at h₁ h₂
  have e1 := (jthCombinationNoRepl_spec n m n j₁ (Nat.le_refl _) h₁).2.2.2
  have e2 := (jthCombinationNoRepl_spec n m n j₂ (Nat.le_refl _) h₂).2.2.2
  rw [← e1, ← e2, h]

theorem jthCombinationNoRepl_surj' (n m : Nat) (w : List Nat) (hw : IsDecreasingCombination n m w) :
    ∃ j, j < nChooseM n m ∧ jthCombinationNoRepl n m j = w := by
  obtain ⟨h1, h2, h3⟩ := hw
  obtain ⟨r1, r2⟩ := noReplRank_spec n w m n (Nat.le_refl _) h1 h2 h3
  exact ⟨noReplRank w, by rw [nChooseM_eq_choose]; exact r1, r2⟩

end SPModel.Comb
