/-
  Helper lemmas for C14 (variable layout): conditional sums over the factor
  list, counting of applicable trials, and the two decoding walks.
-/
import SPModel.Layout

namespace SPModel.Layout

/-! ### conditional sums over the factor list -/

/-- `Σ_{f ∈ fs, p f} g f` -/
def sumIf (p : LFactor → Bool) (g : LFactor → Nat) : List LFactor → Nat
  | [] => 0
  | f :: r => (if p f then g f else 0) + sumIf p g r

@[simp] theorem sumIf_nil (p g) : sumIf p g [] = 0 := rfl
@[simp] theorem sumIf_cons (p g f r) :
    sumIf p g (f :: r) = (if p f then g f else 0) + sumIf p g r := rfl

theorem foldl_filter_eq (p : LFactor → Bool) (g : LFactor → Nat) (l : List LFactor) (a : Nat) :
    (l.filter p).foldl (fun s f => s + g f) a = a + sumIf p g l := by
  induction l generalizing a with
  | nil => simp
  | cons x xs ih =>
    by_cases hp : p x = true
    · simp [hp, ih]; omega
    · simp [hp, ih]

theorem foldl_eq (g : LFactor → Nat) (l : List LFactor) (a : Nat) :
    l.foldl (fun s f => s + g f) a = a + sumIf (fun _ => true) g l := by
  induction l generalizing a with
  | nil => simp
  | cons x xs ih => simp [ih]; omega

/-- split a total sum by a predicate -/
theorem sumIf_split (p : LFactor → Bool) (g : LFactor → Nat) (l : List LFactor) :
    sumIf (fun _ => true) g l = sumIf (fun f => !p f) g l + sumIf p g l := by
  induction l with
  | nil => simp
  | cons x xs ih =>
    by_cases hp : p x = true
    · simp [hp, ih]; omega
    · simp [hp, ih]; omega

theorem sumIf_congr (p : LFactor → Bool) (g g' : LFactor → Nat) (l : List LFactor)
    (h : ∀ f ∈ l, p f = true → g f = g' f) : sumIf p g l = sumIf p g' l := by
  induction l with
  | nil => simp
  | cons x xs ih =>
    have hx := h x (by simp)
    have := ih (fun f hf => h f (by simp [hf]))
    by_cases hp : p x = true
    · simp [hp, hx hp, this]
    · simp [hp, this]

theorem sumIf_mul (p : LFactor → Bool) (g : LFactor → Nat) (c : Nat) (l : List LFactor) :
    sumIf p (fun f => g f * c) l = sumIf p g l * c := by
  induction l with
  | nil => simp
  | cons x xs ih =>
    by_cases hp : p x = true
    · simp [hp, ih, Nat.add_mul]
    · simp [hp, ih]

/-- the prefix sum before position `i` plus the `i`-th term is within the total -/
theorem sumIf_take_add_le (p : LFactor → Bool) (g : LFactor → Nat) (fs : List LFactor) (i : Nat)
    (f : LFactor) (h : fs[i]? = some f) (hp : p f = true) :
    sumIf p g (fs.take i) + g f ≤ sumIf p g fs := by
  induction fs generalizing i with
  | nil => simp at h
  | cons x xs ih =>
    cases i with
    | zero =>
      simp at h
      subst h
      simp [hp]
    | succ i =>
      simp at h
      have := ih i h
      simp
      omega

/-- every `k` below the total falls in the slot of exactly one selected factor -/
theorem sumIf_exists_slot (p : LFactor → Bool) (g : LFactor → Nat) (fs : List LFactor) (k : Nat)
    (hk : k < sumIf p g fs) :
    ∃ i f, fs[i]? = some f ∧ p f = true ∧ sumIf p g (fs.take i) ≤ k ∧
      k < sumIf p g (fs.take i) + g f := by
  induction fs generalizing k with
  | nil => simp at hk
  | cons x xs ih =>
    by_cases hp : p x = true
    · by_cases hlt : k < g x
      · exact ⟨0, x, by simp, hp, by simp, by simpa using hlt⟩
      · simp [hp] at hk
        obtain ⟨i, f, h1, h2, h3, h4⟩ := ih (k - g x) (by omega)
        refine ⟨i + 1, f, by simpa using h1, h2, ?_, ?_⟩
        · simp [hp]; omega
        · simp [hp]; omega
    · simp [hp] at hk
      obtain ⟨i, f, h1, h2, h3, h4⟩ := ih k hk
      refine ⟨i + 1, f, by simpa using h1, h2, ?_, ?_⟩
      · simp [hp]; omega
      · simp [hp]; omega

/-! ### counting applicable trials -/

@[simp] theorem appliedCount_zero (f : LFactor) : appliedCount f 0 = 0 := by
  simp [appliedCount]

theorem appliedCount_succ (f : LFactor) (n : Nat) :
    appliedCount f (n + 1) = appliedCount f n + (if appliesTrial f (n + 1) then 1 else 0) := by
  unfold appliedCount
  rw [List.range_succ, List.filter_append, List.length_append]
  by_cases h : appliesTrial f (n + 1) = true
  · simp [h]
  · simp [h]

theorem appliedCount_mono (f : LFactor) {m n : Nat} (h : m ≤ n) :
    appliedCount f m ≤ appliedCount f n := by
  induction n with
  | zero =>
    have : m = 0 := by omega
    subst this; exact Nat.le_refl _
  | succ n ih =>
    by_cases hm : m = n + 1
    · subst hm; exact Nat.le_refl _
    · have := ih (by omega)
      rw [appliedCount_succ]; omega

theorem appliedCount_all (f : LFactor) (h : ∀ u, appliesTrial f u = true) (n : Nat) :
    appliedCount f n = n := by
  induction n with
  | zero => simp
  | succ n ih => rw [appliedCount_succ, ih, h]; simp

/-- an applicable trial `t ≤ n` has fewer predecessors than there are applicable trials in `1..n` -/
theorem appliedCount_pred_lt (f : LFactor) (t n : Nat) (h1 : 1 ≤ t) (hn : t ≤ n)
    (ha : appliesTrial f t = true) : appliedCount f (t - 1) < appliedCount f n := by
  have hs := appliedCount_succ f (t - 1)
  have ht : t - 1 + 1 = t := by omega
  rw [ht, ha] at hs
  have := appliedCount_mono f hn
  simp at hs
  omega

/-- the number of earlier applicable trials identifies an applicable trial -/
theorem appliedCount_pred_inj (f : LFactor) (t t' : Nat) (h1 : 1 ≤ t) (h1' : 1 ≤ t')
    (ha : appliesTrial f t = true) (ha' : appliesTrial f t' = true)
    (heq : appliedCount f (t - 1) = appliedCount f (t' - 1)) : t = t' := by
  rcases Nat.lt_trichotomy t t' with hlt | heq' | hgt
  · have := appliedCount_pred_lt f t (t' - 1) h1 (by omega) ha
    omega
  · exact heq'
  · have := appliedCount_pred_lt f t' (t - 1) h1' (by omega) ha'
    omega

/-- every count below the total is the predecessor count of some applicable trial -/
theorem appliedCount_exists_trial (f : LFactor) (n q : Nat) (hq : q < appliedCount f n) :
    ∃ t, 1 ≤ t ∧ t ≤ n ∧ appliesTrial f t = true ∧ appliedCount f (t - 1) = q := by
  induction n with
  | zero => simp at hq
  | succ n ih =>
    by_cases hlt : q < appliedCount f n
    · obtain ⟨t, h1, h2, h3, h4⟩ := ih hlt
      exact ⟨t, h1, by omega, h3, h4⟩
    · rw [appliedCount_succ] at hq
      by_cases ha : appliesTrial f (n + 1) = true
      · simp [ha] at hq
        exact ⟨n + 1, by omega, by omega, ha, by simp; omega⟩
      · simp [ha] at hq
        omega

/-- a factor with start 0 and stride 1 has a level in every trial -/
theorem appliesTrial_of_simple (f : LFactor) (hs : f.start = 0) (hst : f.stride = 1) (t : Nat) :
    appliesTrial f t = true := by
  simp [appliesTrial, applies, hs, hst, Nat.mod_one]

/-! ### the decoding walks -/

theorem simpleTuple_go_eq (fs : List LFactor) (j i l : Nat) (f : LFactor)
    (h : fs[i]? = some f) (hc : f.complex = false) (hl : l < f.nlevels) :
    simpleTuple.go fs j (sumIf (fun g => !g.complex) (·.nlevels) (fs.take i) + l) = some (j + i, l) := by
  induction fs generalizing j i with
  | nil => simp at h
  | cons x xs ih =>
    cases i with
    | zero =>
      simp at h
      subst h
      simp [simpleTuple.go, hc, hl]
    | succ i =>
      simp at h
      have := ih (j + 1) i h
      by_cases hx : x.complex = true
      · simp [simpleTuple.go, hx, this]; omega
      · simp at hx
        generalize hS : sumIf (fun g => !g.complex) (·.nlevels) (List.take i xs) = S at this
        have e : x.nlevels + S + l - x.nlevels = S + l := by omega
        have hnot : ¬ (x.nlevels + S + l < x.nlevels) := by omega
        simp only [List.take_succ_cons, sumIf_cons, hx, Bool.not_false, if_true, simpleTuple.go,
          hS, hnot, if_false, e, this, Bool.false_eq_true]
        simp; omega

theorem decode_go_eq (b : LBlock) (fs : List LFactor) (j start i r : Nat) (f : LFactor)
    (h : fs[i]? = some f) (hc : f.complex = true) (hn : f.nlevels ≠ 0)
    (hr : r < variablesForFactor b f) :
    decodeVariable.go b fs j start
        (start + sumIf (·.complex) (variablesForFactor b) (fs.take i) + r)
      = some (j + i, r % f.nlevels) := by
  induction fs generalizing j i start with
  | nil => simp at h
  | cons x xs ih =>
    cases i with
    | zero =>
      simp at h
      subst h
      simp [decodeVariable.go, hc, hr, hn]
    | succ i =>
      simp at h
      by_cases hx : x.complex = true
      · have := ih (j + 1) (start + variablesForFactor b x) i h
        have e : start + (variablesForFactor b x +
              sumIf (·.complex) (variablesForFactor b) (List.take i xs)) + r
            = start + variablesForFactor b x +
              sumIf (·.complex) (variablesForFactor b) (List.take i xs) + r := by omega
        have hnot : ¬ (start + variablesForFactor b x +
              sumIf (·.complex) (variablesForFactor b) (List.take i xs) + r
              < start + variablesForFactor b x) := by omega
        simp [decodeVariable.go, hx, e, hnot, this]; omega
      · simp at hx
        have := ih (j + 1) start i h
        simp [decodeVariable.go, hx, this]; omega

/-! ### block-level closed forms -/

/-- levels of the non-complex factors before position `i` -/
def simpleOffset (b : LBlock) (i : Nat) : Nat :=
  sumIf (fun g => !g.complex) (·.nlevels) (b.factors.take i)

/-- variables of the complex factors before position `i` -/
def complexOffset (b : LBlock) (i : Nat) : Nat :=
  sumIf (·.complex) (variablesForFactor b) (b.factors.take i)

/-- all variables of the complex factors -/
def complexTotal (b : LBlock) : Nat :=
  sumIf (·.complex) (variablesForFactor b) b.factors

theorem variablesPerTrial_eq (b : LBlock) :
    variablesPerTrial b = sumIf (fun g => !g.complex) (·.nlevels) b.factors := by
  simp [variablesPerTrial, foldl_filter_eq]

/-- factors without a complex window fill exactly the grid -/
theorem variablesPerSample_eq (b : LBlock)
    (hs : ∀ f ∈ b.factors, f.complex = false → f.start = 0 ∧ f.stride = 1) :
    variablesPerSample b
      = gridVariables b + complexTotal b := by
  unfold variablesPerSample complexTotal
  rw [foldl_eq, sumIf_split (·.complex)]
  have h1 : sumIf (fun f => !f.complex) (variablesForFactor b) b.factors
      = sumIf (fun f => !f.complex) (fun f => f.nlevels * b.trials) b.factors := by
    apply sumIf_congr
    intro f hf hc
    simp at hc
    obtain ⟨h0, h1⟩ := hs f hf hc
    simp [variablesForFactor, appliedCount_all f (appliesTrial_of_simple f h0 h1)]
  have h2 : sumIf (fun f => !f.complex) (fun f => f.nlevels * b.trials) b.factors
      = gridVariables b := by
    rw [sumIf_mul, gridVariables, variablesPerTrial_eq, Nat.mul_comm]
  rw [h1, h2]; omega

theorem encodeVar_simple (b : LBlock) (i l t : Nat) (f : LFactor)
    (h : b.factors[i]? = some f) (hc : f.complex = false) :
    encodeVar b i l t
      = simpleOffset b i + l + variablesPerTrial b * previousCount f t + 1 := by
  simp [encodeVar, firstVariableForLevel, h, hc, foldl_filter_eq, simpleOffset]

theorem encodeVar_complex (b : LBlock) (i l t : Nat) (f : LFactor)
    (h : b.factors[i]? = some f) (hc : f.complex = true) :
    encodeVar b i l t
      = gridVariables b + complexOffset b i + l + f.nlevels * previousCount f t + 1 := by
  simp [encodeVar, firstVariableForLevel, h, hc, foldl_filter_eq, complexOffset]

/-- `a + n * q` with `a < n`, `q < m` stays below `n * m` -/
theorem add_mul_lt (a n q m : Nat) (ha : a < n) (hq : q < m) : a + n * q < n * m := by
  have : n * (q + 1) ≤ n * m := Nat.mul_le_mul_left n hq
  rw [Nat.mul_add] at this
  omega

theorem simpleOffset_add_le (b : LBlock) (i : Nat) (f : LFactor)
    (h : b.factors[i]? = some f) (hc : f.complex = false) :
    simpleOffset b i + f.nlevels ≤ variablesPerTrial b := by
  rw [variablesPerTrial_eq]
  unfold simpleOffset
  exact sumIf_take_add_le (fun g => !g.complex) (·.nlevels) b.factors i f h (by simp [hc])

theorem complexOffset_add_le (b : LBlock) (i : Nat) (f : LFactor)
    (h : b.factors[i]? = some f) (hc : f.complex = true) :
    complexOffset b i + f.nlevels * appliedCount f b.trials ≤ complexTotal b :=
  sumIf_take_add_le (·.complex) (variablesForFactor b) b.factors i f h hc

theorem simple_exists_slot (b : LBlock) (k : Nat) (hk : k < variablesPerTrial b) :
    ∃ i f, b.factors[i]? = some f ∧ f.complex = false ∧ simpleOffset b i ≤ k ∧
      k < simpleOffset b i + f.nlevels := by
  rw [variablesPerTrial_eq] at hk
  unfold simpleOffset
  obtain ⟨i, f, h1, h2, h3, h4⟩ := sumIf_exists_slot _ _ _ _ hk
  exact ⟨i, f, h1, by simpa using h2, h3, h4⟩

theorem complex_exists_slot (b : LBlock) (k : Nat) (hk : k < complexTotal b) :
    ∃ i f, b.factors[i]? = some f ∧ f.complex = true ∧ complexOffset b i ≤ k ∧
      k < complexOffset b i + f.nlevels * appliedCount f b.trials :=
  sumIf_exists_slot _ _ _ _ hk

theorem simpleTuple_block (b : LBlock) (i l : Nat) (f : LFactor)
    (h : b.factors[i]? = some f) (hc : f.complex = false) (hl : l < f.nlevels) :
    simpleTuple b.factors (simpleOffset b i + l) = some (i, l) := by
  have := simpleTuple_go_eq b.factors 0 i l f h hc hl
  simpa [simpleTuple, simpleOffset] using this

theorem decode_go_block (b : LBlock) (i r : Nat) (f : LFactor)
    (h : b.factors[i]? = some f) (hc : f.complex = true) (hn : f.nlevels ≠ 0)
    (hr : r < f.nlevels * appliedCount f b.trials) :
    decodeVariable.go b b.factors 0 (gridVariables b) (gridVariables b + complexOffset b i + r)
      = some (i, r % f.nlevels) := by
  have := decode_go_eq b b.factors 0 (gridVariables b) i r f h hc hn hr
  simpa [complexOffset] using this

end SPModel.Layout
