/-
  Helper lemmas for C16 (`Decode.decode` on a one-hot model): the ascending sort, strictly
  increasing lists are determined by their members, the variables of one factor ordered by
  trial, the fill-in loop and `mapM` in `Except`.
-/
import SPModel.Decode
import SPProofs.Properties.C14

namespace SPModel.Decode
open SPModel Layout

/-! ### the ascending sort -/

theorem mem_insertSorted (x v : Nat) (l : List Nat) : v ∈ insertSorted x l ↔ v = x ∨ v ∈ l := by
  induction l with
  | nil => simp [insertSorted]
  | cons y ys ih =>
    simp only [insertSorted]
    split
    · simp
    · simp only [List.mem_cons, ih]; exact or_left_comm

theorem mem_sortAsc (v : Nat) (l : List Nat) : v ∈ sortAsc l ↔ v ∈ l := by
  induction l with
  | nil => simp [sortAsc]
  | cons x xs ih => simp [sortAsc, mem_insertSorted, ih]

theorem insertSorted_pairwise (x : Nat) (l : List Nat) (hl : l.Pairwise (· < ·)) (hx : x ∉ l) :
    (insertSorted x l).Pairwise (· < ·) := by
  induction l with
  | nil => simp [insertSorted]
  | cons y ys ih =>
    rw [List.pairwise_cons] at hl
    simp only [List.mem_cons, not_or] at hx
    simp only [insertSorted]
    split
    · next hle =>
      have hlt : x < y := by omega
      rw [List.pairwise_cons]
      refine ⟨?_, List.pairwise_cons.2 hl⟩
      intro a ha
      rcases List.mem_cons.1 ha with e | ha
      · omega
      · exact Nat.lt_trans hlt (hl.1 a ha)
    · next hle =>
      rw [List.pairwise_cons]
      refine ⟨?_, ih hl.2 hx.2⟩
      intro a ha
      rcases (mem_insertSorted x a ys).1 ha with e | ha
      · omega
      · exact hl.1 a ha

theorem sortAsc_pairwise (l : List Nat) (h : l.Nodup) : (sortAsc l).Pairwise (· < ·) := by
  induction l with
  | nil => simp [sortAsc]
  | cons x xs ih =>
    rw [List.nodup_cons] at h
    show (insertSorted x (sortAsc xs)).Pairwise (· < ·)
    exact insertSorted_pairwise x _ (ih h.2) (by rw [mem_sortAsc]; exact h.1)

theorem positives_pairwise (sol : List Int) (h : (sol.filter (fun v => decide (0 < v))).Nodup) :
    (positives sol).Pairwise (· < ·) := by
  apply sortAsc_pairwise
  show List.Pairwise (· ≠ ·) _
  rw [List.pairwise_map]
  refine List.Pairwise.imp_of_mem (fun {a b} ha hb hne => ?_) h
  simp only [List.mem_filter, decide_eq_true_eq] at ha hb
  omega

theorem mem_positives (sol : List Int) (v : Nat) : v ∈ positives sol ↔ 0 < v ∧ (v : Int) ∈ sol := by
  simp only [positives, mem_sortAsc, List.mem_map, List.mem_filter, decide_eq_true_eq]
  constructor
  · rintro ⟨a, ⟨ha, hpos⟩, rfl⟩
    refine ⟨by omega, ?_⟩
    have : ((a.natAbs : Nat) : Int) = a := by omega
    rw [this]; exact ha
  · rintro ⟨hv, hm⟩
    exact ⟨(v : Int), ⟨hm, by omega⟩, by simp⟩

/-- a strictly increasing list is determined by its members -/
theorem eq_of_pairwise_lt {xs ys : List Nat} (hx : xs.Pairwise (· < ·)) (hy : ys.Pairwise (· < ·))
    (h : ∀ v, v ∈ xs ↔ v ∈ ys) : xs = ys := by
  induction xs generalizing ys with
  | nil =>
    cases ys with
    | nil => rfl
    | cons y ys => exact absurd ((h y).2 (by simp)) (by simp)
  | cons x xs ih =>
    cases ys with
    | nil => exact absurd ((h x).1 (by simp)) (by simp)
    | cons y ys =>
      rw [List.pairwise_cons] at hx hy
      have hxy : x = y := by
        have h1 := (h x).1 (by simp)
        have h2 := (h y).2 (by simp)
        rcases List.mem_cons.1 h1 with e | h1
        · exact e
        · rcases List.mem_cons.1 h2 with e | h2
          · exact e.symm
          · have := hy.1 x h1; have := hx.1 y h2; omega
      subst hxy
      congr 1
      apply ih hx.2 hy.2
      intro v
      constructor
      · intro hv
        have := hx.1 v hv
        rcases List.mem_cons.1 ((h v).1 (List.mem_cons_of_mem _ hv)) with e | h'
        · omega
        · exact h'
      · intro hv
        have := hy.1 v hv
        rcases List.mem_cons.1 ((h v).2 (List.mem_cons_of_mem _ hv)) with e | h'
        · omega
        · exact h'

/-! ### generic list facts -/

theorem filterMap_eq_map_of_some {α β : Type} (g : α → Option β) (h : α → β) (l : List α)
    (h1 : ∀ j ∈ l, g j = some (h j)) : l.filterMap g = l.map h := by
  induction l with
  | nil => rfl
  | cons x xs ih =>
    rw [List.filterMap_cons, h1 x (by simp), List.map_cons, ih (fun j hj => h1 j (by simp [hj]))]

theorem filterMap_filter_isSome {α β : Type} (g : α → Option β) (l : List α) :
    l.filterMap g = (l.filter (fun v => (g v).isSome)).filterMap g := by
  induction l with
  | nil => rfl
  | cons x xs ih =>
    cases hx : g x with
    | none => simp [hx, ih]
    | some y => simp [hx, ← ih]

theorem mapM_ok {ε α β : Type} (g : α → Except ε β) (h : α → β) (l : List α)
    (h1 : ∀ x ∈ l, g x = .ok (h x)) : l.mapM g = .ok (l.map h) := by
  induction l with
  | nil => rfl
  | cons x xs ih =>
    rw [List.mapM_cons, h1 x (by simp), ih (fun j hj => h1 j (by simp [hj]))]
    rfl

/-! ### the variables of one factor, by trial -/

/-- 0-based trials below `n` the factor applies to, ascending -/
def appTrials (f : LFactor) (n : Nat) : List Nat :=
  (List.range n).filter (fun t => appliesTrial f (t + 1))

/-- the row `decode` returns for a factor: the level where it applies, '' elsewhere -/
def rowOf (f : LFactor) (trials : Nat) (lv : Nat → Nat) : List (Option Nat) :=
  (List.range trials).map (fun n => if appliesTrial f (n + 1) then some (lv (n + 1)) else none)

/-- the level `levelsOf` reads off a variable -/
def lvl (b : LBlock) (i v : Nat) : Option Nat :=
  match decodeVariable b v with
  | some (j, l) => if j = i then some l else none
  | none => none

theorem levelsOf_eq (b : LBlock) (i : Nat) (vars : List Nat) :
    levelsOf b i vars = vars.filterMap (lvl b i) := rfl

theorem lvl_encode (b : LBlock) (hwf : C14.WF b) (i j l t : Nat) (h : C14.Choice b j l t) :
    lvl b i (encodeVar b j l t) = if j = i then some l else none := by
  simp only [lvl, C14.decode_encode b hwf j l t h]

theorem mem_appTrials (f : LFactor) (n t : Nat) :
    t ∈ appTrials f n ↔ t < n ∧ appliesTrial f (t + 1) = true := by
  simp [appTrials]

theorem appTrials_pairwise (f : LFactor) (n : Nat) : (appTrials f n).Pairwise (· < ·) :=
  List.Pairwise.filter _ List.pairwise_lt_range

/-- for one factor, a later trial has a larger variable whatever the levels -/
theorem encodeVar_lt (b : LBlock) (hwf : C14.WF b) (i : Nat) (f : LFactor) (hf : b.factors[i]? = some f)
    (l l' t t' : Nat) (hl : l < f.nlevels) (_hl' : l' < f.nlevels) (h1 : 1 ≤ t) (htt : t < t')
    (ha : appliesTrial f t = true) : encodeVar b i l t < encodeVar b i l' t' := by
  cases hc : f.complex with
  | false =>
    have hoff := simpleOffset_add_le b i f hf hc
    rw [encodeVar_simple b i l t f hf hc, encodeVar_simple b i l' t' f hf hc,
      C14.previousCount_simple hwf hf hc, C14.previousCount_simple hwf hf hc]
    have : variablesPerTrial b * (t - 1 + 1) ≤ variablesPerTrial b * (t' - 1) :=
      Nat.mul_le_mul_left _ (by omega)
    rw [Nat.mul_add] at this
    omega
  | true =>
    rw [encodeVar_complex b i l t f hf hc, encodeVar_complex b i l' t' f hf hc]
    have hlt : previousCount f t < previousCount f t' :=
      appliedCount_pred_lt f t (t' - 1) h1 (by omega) ha
    have : f.nlevels * (previousCount f t + 1) ≤ f.nlevels * previousCount f t' :=
      Nat.mul_le_mul_left _ hlt
    rw [Nat.mul_add] at this
    omega

/-- what the one-hot hypothesis says about one factor -/
def OneHot (b : LBlock) (ρ : Assign) (i : Nat) (f : LFactor) (lv : Nat → Nat) : Prop :=
  ∀ t, 1 ≤ t → t ≤ b.trials → appliesTrial f t = true →
    lv t < f.nlevels ∧ ∀ l, l < f.nlevels → (ρ (encodeVar b i l t) = true ↔ l = lv t)

theorem levelsOf_filter (b : LBlock) (hwf : C14.WF b) (i : Nat) (f : LFactor) (hf : b.factors[i]? = some f)
    (ρ : Assign) (lv : Nat → Nat) (hlv : OneHot b ρ i f lv)
    (pos : List Nat) (hpw : pos.Pairwise (· < ·)) (hpos1 : ∀ v ∈ pos, 1 ≤ v)
    (hmem : ∀ v, 1 ≤ v → v ≤ variablesPerSample b → (v ∈ pos ↔ ρ v = true))
    (P : Nat → Bool) (hP1 : ∀ v, P v = true → v ≤ variablesPerSample b)
    (hP2 : ∀ l t, C14.Choice b i l t → P (encodeVar b i l t) = true) :
    levelsOf b i (pos.filter P) = (appTrials f b.trials).map (fun t => lv (t + 1)) := by
  have hch : ∀ t, t ∈ appTrials f b.trials → C14.Choice b i (lv (t + 1)) (t + 1) := by
    intro t ht
    rw [mem_appTrials] at ht
    exact ⟨f, hf, (hlv (t + 1) (by omega) (by omega) ht.2).1, by omega, by omega, ht.2⟩
  have hT : (pos.filter P).filter (fun v => (lvl b i v).isSome)
      = (appTrials f b.trials).map (fun t => encodeVar b i (lv (t + 1)) (t + 1)) := by
    apply eq_of_pairwise_lt
    · exact (hpw.filter _).filter _
    · rw [List.pairwise_map]
      refine List.Pairwise.imp_of_mem (fun {t t'} ht ht' hlt => ?_) (appTrials_pairwise f b.trials)
      rw [mem_appTrials] at ht ht'
      exact encodeVar_lt b hwf i f hf _ _ _ _ (hlv (t + 1) (by omega) (by omega) ht.2).1
        (hlv (t' + 1) (by omega) (by omega) ht'.2).1 (by omega) (by omega) ht.2
    · intro v
      simp only [List.mem_filter, List.mem_map]
      constructor
      · rintro ⟨⟨hv, hP⟩, hsome⟩
        have hv1 := hpos1 v hv
        have hv2 := hP1 v hP
        have hρ := (hmem v hv1 hv2).1 hv
        obtain ⟨j, l, t, hc, rfl⟩ := C14.encode_surjective b hwf v ⟨hv1, hv2⟩
        rw [lvl_encode b hwf i j l t hc] at hsome
        by_cases hji : j = i
        · subst hji
          obtain ⟨f', hf', hl, h1, hT, ha⟩ := hc
          have hff : f' = f := by rw [hf] at hf'; injection hf' with e; exact e.symm
          subst hff
          obtain ⟨t0, rfl⟩ : ∃ t0, t = t0 + 1 := ⟨t - 1, by omega⟩
          have hl' := ((hlv (t0 + 1) h1 hT ha).2 l hl).1 hρ
          subst hl'
          exact ⟨t0, (mem_appTrials _ _ _).2 ⟨by omega, ha⟩, rfl⟩
        · simp [hji] at hsome
      · rintro ⟨t, ht, rfl⟩
        have hc := hch t ht
        have hr := C14.encode_range b hwf i _ _ hc
        rw [mem_appTrials] at ht
        have hρ := ((hlv (t + 1) (by omega) (by omega) ht.2).2 _
          (hlv (t + 1) (by omega) (by omega) ht.2).1).2 rfl
        refine ⟨⟨(hmem _ hr.1 hr.2).2 hρ, hP2 _ _ hc⟩, ?_⟩
        rw [lvl_encode b hwf i i _ _ hc]
        simp
  rw [levelsOf_eq, filterMap_filter_isSome, hT, List.filterMap_map]
  apply filterMap_eq_map_of_some
  intro t ht
  simp only [Function.comp, lvl_encode b hwf i i _ _ (hch t ht), if_true]

/-! ### the filters of `decode` -/

theorem firstVariableForLevel_complex (b : LBlock) (i l : Nat) (f : LFactor)
    (h : b.factors[i]? = some f) (hc : f.complex = true) :
    firstVariableForLevel b i l = gridVariables b + complexOffset b i + l := by
  simp [firstVariableForLevel, h, hc, foldl_filter_eq, complexOffset]

theorem simple_le_grid (b : LBlock) (hwf : C14.WF b) (i : Nat) (f : LFactor) (hf : b.factors[i]? = some f)
    (hc : f.complex = false) (l t : Nat) (h : C14.Choice b i l t) : encodeVar b i l t ≤ gridVariables b := by
  obtain ⟨f', hf', hl, h1, hT, ha⟩ := h
  have hff : f' = f := by rw [hf] at hf'; injection hf' with e; exact e.symm
  subst hff
  have hoff := simpleOffset_add_le b i f' hf hc
  have := add_mul_lt (simpleOffset b i + l) (variablesPerTrial b) (t - 1) b.trials (by omega) (by omega)
  rw [encodeVar_simple b i l t f' hf hc, C14.previousCount_simple hwf hf hc, gridVariables,
    Nat.mul_comm b.trials]
  omega

/-! ### the fill-in loop -/

theorem appliesTrial_succ (f : LFactor) (n : Nat) :
    appliesTrial f (n + 1) = applies f (n / f.sustain + 1) := by
  simp [appliesTrial]

theorem fillIn_fold (f : LFactor) (h : Nat → Nat)
    (F : Except PyErr (List (Option Nat) × List Nat) → Nat → Except PyErr (List (Option Nat) × List Nat))
    (hF1 : ∀ out x xs n, applies f (n / f.sustain + 1) = true →
      F (.ok (out, x :: xs)) n = .ok (out ++ [some x], xs))
    (hF2 : ∀ out rest n, applies f (n / f.sustain + 1) = false →
      F (.ok (out, rest)) n = .ok (out ++ [none], rest))
    (ns : List Nat) (out : List (Option Nat)) :
    ns.foldl F (.ok (out, (ns.filter (fun t => appliesTrial f (t + 1))).map h))
    = .ok (out ++ ns.map (fun n => if appliesTrial f (n + 1) then some (h n) else none), []) := by
  induction ns generalizing out with
  | nil => simp
  | cons n ns ih =>
    by_cases ha : appliesTrial f (n + 1) = true
    · have ha' := ha
      rw [appliesTrial_succ] at ha'
      simp only [List.foldl_cons, List.filter_cons, ha, if_true, List.map_cons]
      rw [hF1 _ _ _ _ ha', ih]
      simp
    · have ha : appliesTrial f (n + 1) = false := by simpa using ha
      have ha' := ha
      rw [appliesTrial_succ] at ha'
      simp only [List.foldl_cons, List.filter_cons, ha, Bool.false_eq_true, if_false, List.map_cons]
      rw [hF2 _ _ _ ha', ih]
      simp

theorem fillIn_eq (f : LFactor) (trials : Nat) (lv : Nat → Nat) :
    fillIn f trials ((appTrials f trials).map (fun t => lv (t + 1))) = .ok (rowOf f trials lv) := by
  simp only [fillIn, appTrials]
  rw [fillIn_fold f (fun t => lv (t + 1)) _ _ _ (List.range trials) []]
  · rfl
  · intro out x xs n hn
    simp only [hn, if_true]
  · intro out rest n hn
    simp only [hn, Bool.false_eq_true, if_false]

theorem rowOf_simple (f : LFactor) (trials : Nat) (lv : Nat → Nat) (h : ∀ u, appliesTrial f u = true) :
    ((appTrials f trials).map (fun t => lv (t + 1))).map some = rowOf f trials lv := by
  have : appTrials f trials = List.range trials := by
    unfold appTrials
    rw [List.filter_eq_self]
    intro t _
    exact h _
  rw [this, rowOf, List.map_map]
  apply List.map_congr_left
  intro t _
  simp [h]

theorem rowOf_length (f : LFactor) (trials : Nat) (lv : Nat → Nat) : (rowOf f trials lv).length = trials := by
  simp [rowOf]

theorem rowOf_get (f : LFactor) (trials : Nat) (lv : Nat → Nat) (t : Nat) (ht : t < trials) :
    (rowOf f trials lv)[t]? = some (if appliesTrial f (t + 1) then some (lv (t + 1)) else none) := by
  simp [rowOf, ht]

/-! ### `decode` -/

theorem decode_eq (b : LBlock) (hwf : C14.WF b) (ht : 0 < b.trials) (sol : List Int) (ρ : Assign)
    (hnodup : (sol.filter (fun v => decide (0 < v))).Nodup)
    (hsol : ∀ v : Nat, 1 ≤ v → v ≤ variablesPerSample b → ((v : Int) ∈ sol ↔ ρ v = true))
    (lev : Nat → Nat → Nat)
    (hlev : ∀ i f, b.factors[i]? = some f → OneHot b ρ i f (lev i)) :
    decode b sol = .ok ((List.range b.factors.length).map
      (fun i => some (rowOf (b.factors.getD i default) b.trials (lev i)))) := by
  have hpw := positives_pairwise sol hnodup
  have hpos1 : ∀ v ∈ positives sol, 1 ≤ v := fun v hv => ((mem_positives sol v).1 hv).1
  have hmem : ∀ v, 1 ≤ v → v ≤ variablesPerSample b → (v ∈ positives sol ↔ ρ v = true) := by
    intro v h1 h2
    rw [mem_positives, ← hsol v h1 h2]
    exact ⟨fun h => h.2, fun h => ⟨h1, h⟩⟩
  have hvps := variablesPerSample_eq b hwf.simple
  unfold decode
  apply mapM_ok
  intro i hi
  rw [List.mem_range] at hi
  obtain ⟨f, hf⟩ : ∃ f, b.factors[i]? = some f := ⟨b.factors[i], List.getElem?_eq_getElem hi⟩
  have hfd : b.factors.getD i default = f := by simp [List.getD, hf]
  obtain ⟨_, _, hnl, hsimple⟩ := hwf f (List.mem_of_getElem? hf)
  simp only [hfd]
  cases hc : f.complex with
  | true =>
    simp only [if_true, List.filter_filter]
    rw [levelsOf_filter b hwf i f hf ρ (lev i) (hlev i f hf) _ hpw hpos1 hmem, fillIn_eq]
    · intro v hv
      have hco := complexOffset_add_le b i f hf hc
      simp only [complexRange, firstVariableForLevel_complex b i 0 f hf hc, variablesForFactor,
        Bool.and_eq_true, decide_eq_true_eq] at hv
      omega
    · intro l t hch
      obtain ⟨f', hf', hl, h1, hT, ha⟩ := hch
      have hff : f' = f := by rw [hf] at hf'; injection hf' with e; exact e.symm
      subst hff
      have := add_mul_lt l f'.nlevels (previousCount f' t) (appliedCount f' b.trials) hl
        (appliedCount_pred_lt f' t b.trials h1 hT ha)
      simp only [complexRange, firstVariableForLevel_complex b i 0 f' hf hc, variablesForFactor,
        encodeVar_complex b i l t f' hf hc, Bool.and_eq_true, decide_eq_true_eq]
      omega
  | false =>
    obtain ⟨h0, hs1⟩ := hsimple hc
    have hall := appliesTrial_of_simple f h0 hs1
    simp only [Bool.false_eq_true, if_false]
    rw [levelsOf_filter b hwf i f hf ρ (lev i) (hlev i f hf) _ hpw hpos1 hmem]
    · rw [rowOf_simple f b.trials (lev i) hall]
      have hne : ((appTrials f b.trials).map (fun t => lev i (t + 1))).isEmpty = false := by
        have : ((appTrials f b.trials).map (fun t => lev i (t + 1))).length = b.trials := by
          have := congrArg List.length (rowOf_simple f b.trials (lev i) hall)
          simpa [rowOf_length] using this
        cases h : (appTrials f b.trials).map (fun t => lev i (t + 1)) with
        | nil => rw [h] at this; simp at this; omega
        | cons x xs => rfl
      simp only [hne, Bool.false_eq_true, if_false]
    · intro v hv
      simp only [decide_eq_true_eq] at hv
      omega
    · intro l t hch
      simp only [decide_eq_true_eq]
      exact simple_le_grid b hwf i f hf hc l t hch

end SPModel.Decode
