/-
  `AtMostKInARow` and `ExactlyK`: the emitted requests, by position.
-/
import SPProofs.Compile.Windows

namespace SPModel.C01
open SPModel SPModel.Compile

/-- `LT k+1` over a full window: not all `k+1` literals are true -/
theorem holds_lt_window (σ : Assign) (k i : Nat) (vars : List Int) (h : i + (k + 1) ≤ vars.length) :
    Request.holds { rel := .lt, k := k + 1, vars := slice i (k + 1) vars } σ = true ↔
      ∃ j, j ≤ k ∧ V σ vars (i + j) = false := by
  have hlen := length_slice i (k + 1) vars h
  have : Request.holds { rel := .lt, k := k + 1, vars := slice i (k + 1) vars } σ = true ↔
      ((slice i (k + 1) vars).filter (litVal σ)).length < (slice i (k + 1) vars).length := by
    simp [Request.holds, hlen]
  rw [this, List.length_filter_lt_length_iff_exists]
  constructor
  · rintro ⟨x, hx, hv⟩
    obtain ⟨j, h1, h2, h3⟩ := (mem_slice i (k + 1) vars x).1 hx
    refine ⟨j - i, by omega, ?_⟩
    have e : i + (j - i) = j := by omega
    rw [e, ← V_of_getElem? σ vars h3]
    simpa using hv
  · rintro ⟨j, hj, hv⟩
    have hlt : i + j < vars.length := by omega
    have hx : vars[i + j]? = some vars[i + j] := List.getElem?_eq_getElem hlt
    refine ⟨vars[i + j], (mem_slice i (k + 1) vars _).2 ⟨i + j, by omega, by omega, hx⟩, ?_⟩
    rw [V_of_getElem? σ vars hx, hv]; decide

/-- the `AtMostKInARow` requests hold iff there are no `k+1` consecutive true variables -/
theorem atMost_pos (k : Nat) (vars : List Int) (σ : Assign) :
    (∀ r ∈ atMostRequests k vars, r.holds σ = true) ↔
      ∀ i, ∃ j, j ≤ k ∧ V σ vars (i + j) = false := by
  unfold atMostRequests
  constructor
  · intro h i
    by_cases hi : i + (k + 1) ≤ vars.length
    · apply (holds_lt_window σ k i vars hi).1
      apply h
      exact List.mem_map.2 ⟨_, (mem_windows (k + 1) (by omega) vars _).2 ⟨i, hi, rfl⟩, rfl⟩
    · exact ⟨k, Nat.le_refl _, V_of_ge σ vars (by omega)⟩
  · intro h r hr
    obtain ⟨w, hw, rfl⟩ := List.mem_map.1 hr
    obtain ⟨i, hi, rfl⟩ := (mem_windows (k + 1) (by omega) vars w).1 hw
    exact (holds_lt_window σ k i vars hi).2 (h i)

end SPModel.C01
