/-
  `ExactlyKInARow`: the emitted implications, by position, against the
  run-start criterion.
-/
import SPProofs.Compile.AtLeast

namespace SPModel.C01
open SPModel SPModel.Compile

/-! ### the arithmetic of the encoding (at least `k` variables) -/

theorem exactRow_pure_mp (B : Nat → Bool) (L k : Nat) (hB : ∀ j, L ≤ j → B j = false)
    (hk : 0 < k) (hL : k ≤ L)
    (E1 : ∀ idx, idx < (if k > 1 then L + 1 - k else L + 1 - k - 1) → Start B idx →
        (∀ j, idx + 1 ≤ j → j < idx + k → B j = true) ∧ (idx < L - k → B (idx + k) = false))
    (E2 : k > 1 → ∀ i, i < k - 1 → B (L - k + k - 1 - i) = true →
        B (L - k + k - 1 - (i + 1)) = true) :
    ∀ i, Start B i → (∀ j, j < k → B (i + j) = true) ∧ B (i + k) = false := by
  intro i hs
  have hi := hs.1
  have hiL : i < L := lt_of_true B L hB hi
  by_cases hmid : i ≤ L - k
  · by_cases hk1 : k > 1
    · obtain ⟨h1, h2⟩ := E1 i (by rw [if_pos hk1]; omega) hs
      refine ⟨?_, ?_⟩
      · intro j hj
        by_cases hj0 : j = 0
        · subst hj0; exact hi
        · exact h1 (i + j) (by omega) (by omega)
      · by_cases hlast : i < L - k
        · exact h2 hlast
        · exact hB _ (by omega)
    · have hk1' : k = 1 := by omega
      subst hk1'
      refine ⟨?_, ?_⟩
      · intro j hj
        have : j = 0 := by omega
        subst this; exact hi
      · by_cases hlast : i < L - 1
        · exact (E1 i (by rw [if_neg hk1]; omega) hs).2 hlast
        · exact hB _ (by omega)
  · exfalso
    have hk1 : k > 1 := by omega
    have := E2 hk1 (L - 1 - i) (by omega) (Bx B (by omega) hi)
    rcases hs.2 with h0 | hf
    · omega
    · exact tf (Bx B (by omega) this) hf

theorem exactRow_pure_mpr (B : Nat → Bool) (L k : Nat) (hB : ∀ j, L ≤ j → B j = false)
    (_hk : 0 < k) (hL : k ≤ L)
    (h : ∀ i, Start B i → (∀ j, j < k → B (i + j) = true) ∧ B (i + k) = false) :
    (∀ idx, idx < (if k > 1 then L + 1 - k else L + 1 - k - 1) → Start B idx →
        (∀ j, idx + 1 ≤ j → j < idx + k → B j = true) ∧ (idx < L - k → B (idx + k) = false)) ∧
    (k > 1 → ∀ i, i < k - 1 → B (L - k + k - 1 - i) = true →
        B (L - k + k - 1 - (i + 1)) = true) := by
  refine ⟨?_, ?_⟩
  · intro idx _ hs
    obtain ⟨h1, h2⟩ := h idx hs
    exact ⟨fun j hj1 hj2 => Bx B (by omega) (h1 (j - idx) (by omega)), fun _ => h2⟩
  · intro hk1 i hi ht
    cases hb : B (L - k + k - 1 - (i + 1))
    · exfalso
      have hs : Start B (L - k + k - 1 - i) := ⟨ht, Or.inr (Bx B (by omega) hb)⟩
      have := (h _ hs).1 (k - 1) (by omega)
      exact tf this (hB _ (by omega))
    · rfl

theorem exactRow_small (B : Nat → Bool) (L k : Nat) (hB : ∀ j, L ≤ j → B j = false)
    (hL : L < k) :
    (∀ i, i < L → B i = false) ↔
      ∀ i, Start B i → (∀ j, j < k → B (i + j) = true) ∧ B (i + k) = false := by
  constructor
  · intro h i hs
    exact (tf hs.1 (h i (lt_of_true B L hB hs.1))).elim
  · intro h i hiL
    cases hi : B i
    · rfl
    · exfalso
      obtain ⟨s, hs, hall, hst⟩ := extend_left B i hi
      have hstart : Start B s := ⟨hall s (Nat.le_refl _) hs, hst⟩
      have := lt_of_true B L hB ((h s hstart).1 (k - 1) (by omega))
      omega

/-! ### evaluating the emitted implications -/

theorem eval_regular_p (σ : Assign) (k : Nat) (hk : 0 < k) (vars : List Int) (idx : Nat)
    (hidx : idx + k ≤ vars.length) :
    Formula.eval σ
      (if idx > 0 then
        Formula.and [(Formula.lit (((windows k vars).getD (idx - 1) []).headD 0)).not,
          Formula.lit (((windows k vars).getD idx []).headD 0)]
      else Formula.lit (((windows k vars).getD idx []).headD 0)) = true ↔
    Start (V σ vars) idx := by
  rw [getD_windows k hk vars idx (by omega), headD_slice _ _ _ hk]
  unfold Start
  by_cases h0 : idx > 0
  · rw [if_pos h0, getD_windows k hk vars (idx - 1) (by omega), headD_slice _ _ _ hk]
    simp only [Formula.eval, Formula.evalAll, V_getD σ vars (show idx < vars.length by omega),
      V_getD σ vars (show idx - 1 < vars.length by omega), Bool.and_true, Bool.and_eq_true,
      Bool.not_eq_true']
    constructor
    · rintro ⟨h1, h2⟩; exact ⟨h2, Or.inr h1⟩
    · rintro ⟨h1, h2 | h2⟩
      · omega
      · exact ⟨h2, h1⟩
  · rw [if_neg h0]
    simp only [Formula.eval, V_getD σ vars (show idx < vars.length by omega)]
    constructor
    · intro h; exact ⟨h, Or.inl (by omega)⟩
    · intro h; exact h.1

theorem eval_regular_q (σ : Assign) (k : Nat) (hk : 0 < k) (vars : List Int) (idx : Nat)
    (hidx : idx + k ≤ vars.length) (hV : V σ vars idx = true) :
    Formula.eval σ
      (if idx < (windows k vars).length - 1 then
        andOrSingle (lits (((windows k vars).getD idx []).drop 1) ++
          [(Formula.lit (((windows k vars).getD (idx + 1) []).getLastD 0)).not])
      else
        (if (((windows k vars).getD idx []).drop 1).length > 1 then
          Formula.and (lits (((windows k vars).getD idx []).drop 1))
        else Formula.lit (((windows k vars).getD idx []).getD (k - 1) 0))) = true ↔
    ((∀ j, idx + 1 ≤ j → j < idx + k → V σ vars j = true) ∧
      (idx < vars.length - k → V σ vars (idx + k) = false)) := by
  rw [length_windows k hk, getD_windows k hk vars idx (by omega), drop_slice]
  by_cases hlast : idx < vars.length - k
  · rw [if_pos (by omega), getD_windows k hk vars (idx + 1) (by omega),
      getLastD_slice _ _ _ hk (by omega), eval_andOrSingle, evalAll_append, evalAll_lits]
    have e : idx + 1 + k - 1 = idx + k := by omega
    simp only [Formula.evalAll, Formula.eval, e, V_getD σ vars (show idx + k < vars.length by omega),
      Bool.and_true, Bool.and_eq_true, Bool.not_eq_true', all_slice]
    constructor
    · rintro ⟨h1, h2⟩
      exact ⟨fun j hj1 hj2 => h1 j hj1 (by omega) (by omega), fun _ => h2⟩
    · rintro ⟨h1, h2⟩
      exact ⟨fun j hj1 hj2 _ => h1 j hj1 (by omega), h2 hlast⟩
  · rw [if_neg (by omega), length_slice _ _ _ (by omega)]
    by_cases hk2 : k - 1 > 1
    · rw [if_pos hk2]
      simp only [Formula.eval, evalAll_lits, all_slice]
      constructor
      · intro h1
        exact ⟨fun j hj1 hj2 => h1 j hj1 (by omega) (by omega), fun h => absurd h hlast⟩
      · rintro ⟨h1, _⟩
        exact fun j hj1 hj2 _ => h1 j hj1 (by omega)
    · rw [if_neg hk2, getD_slice _ _ _ _ (by omega)]
      simp only [Formula.eval, V_getD σ vars (show idx + (k - 1) < vars.length by omega)]
      constructor
      · intro h1
        refine ⟨fun j hj1 hj2 => ?_, fun h => absurd h hlast⟩
        exact Bx (V σ vars) (by omega) h1
      · rintro ⟨h1, _⟩
        by_cases hk1 : k = 1
        · exact Bx (V σ vars) (by omega) hV
        · exact Bx (V σ vars) (by omega) (h1 (idx + 1) (by omega) (by omega))

/-- at least `k` variables: the emitted formulas, by position -/
theorem exactRow_big (k : Nat) (hk : 0 < k) (vars : List Int) (σ : Assign)
    (hL : k ≤ vars.length) :
    (∀ f ∈ exactlyInARowFormulas k vars, f.eval σ = true) ↔
    ((∀ idx, idx < (if k > 1 then vars.length + 1 - k else vars.length + 1 - k - 1) →
        Start (V σ vars) idx →
        (∀ j, idx + 1 ≤ j → j < idx + k → V σ vars j = true) ∧
          (idx < vars.length - k → V σ vars (idx + k) = false)) ∧
    (k > 1 → ∀ i, i < k - 1 → V σ vars (vars.length - k + k - 1 - i) = true →
        V σ vars (vars.length - k + k - 1 - (i + 1)) = true)) := by
  obtain ⟨tl, hws⟩ := windows_cons k hk vars hL
  have hlast := getLast!_windows k hk vars hL
  have hlen := length_windows k hk vars
  unfold exactlyInARowFormulas
  simp only []
  rw [hws] at hlast ⊢
  simp only [hlast]
  rw [← hws]
  simp only [List.forall_mem_append]
  refine and_congr ?_ ?_
  · rw [List.forall_mem_map, hlen]
    have hbound : ∀ idx, idx < min (if k > 1 then vars.length + 1 - k else vars.length + 1 - k - 1)
          (vars.length + 1 - k) ↔
        idx < (if k > 1 then vars.length + 1 - k else vars.length + 1 - k - 1) := by
      intro idx
      by_cases hk1 : k > 1
      · rw [if_pos hk1]; omega
      · rw [if_neg hk1]; omega
    have hle : ∀ idx, idx < (if k > 1 then vars.length + 1 - k else vars.length + 1 - k - 1) →
        idx + k ≤ vars.length := by
      intro idx
      by_cases hk1 : k > 1
      · rw [if_pos hk1]; omega
      · rw [if_neg hk1]; omega
    constructor
    · intro h idx hidx hs
      have hidx' := hle idx hidx
      have h1 := (eval_imp σ _ _).1 (h idx (List.mem_range.2 ((hbound idx).2 hidx)))
        ((eval_regular_p σ k hk vars idx hidx').2 hs)
      rw [← hlen] at h1
      exact (eval_regular_q σ k hk vars idx hidx' hs.1).1 h1
    · intro h idx hidx
      have hidx2 := (hbound idx).1 (List.mem_range.1 hidx)
      have hidx' := hle idx hidx2
      rw [eval_imp]
      intro hp
      have hs := (eval_regular_p σ k hk vars idx hidx').1 hp
      rw [← hlen]
      exact (eval_regular_q σ k hk vars idx hidx' hs.1).2 (h idx hidx2 hs)
  · rw [List.length_reverse, length_slice _ _ _ (by omega)]
    by_cases hk1 : k > 1
    · rw [if_pos hk1, List.forall_mem_map]
      simp only [List.mem_range, eval_imp]
      simp only [Formula.eval]
      constructor
      · intro h _ i hi
        have := h i hi
        rw [reverse_getD_slice _ _ _ _ (by omega) (by omega),
          reverse_getD_slice _ _ _ _ (by omega) (by omega),
          V_getD σ vars (by omega), V_getD σ vars (by omega)] at this
        exact this
      · intro h i hi
        rw [reverse_getD_slice _ _ _ _ (by omega) (by omega),
          reverse_getD_slice _ _ _ _ (by omega) (by omega),
          V_getD σ vars (by omega), V_getD σ vars (by omega)]
        exact h hk1 i hi
    · rw [if_neg hk1]
      exact ⟨fun _ h => absurd h hk1, fun _ x hx => absurd hx (by simp)⟩

/-- fewer than `k` variables: every variable is false -/
theorem exactRow_few (k : Nat) (hk : 0 < k) (vars : List Int) (σ : Assign)
    (hL : vars.length < k) :
    (∀ f ∈ exactlyInARowFormulas k vars, f.eval σ = true) ↔
      ∀ i, i < vars.length → V σ vars i = false := by
  have hws := windows_nil k hk vars hL
  unfold exactlyInARowFormulas
  simp only []
  rw [hws]
  simp only [List.length_nil, Nat.min_zero, List.range_zero, List.map_nil,
    List.nil_append, List.forall_mem_map, Formula.eval, Bool.not_eq_true']
  constructor
  · intro h i hi
    have hx : vars[i]? = some vars[i] := List.getElem?_eq_getElem hi
    rw [← V_of_getElem? σ vars hx]
    exact h vars[i] (List.getElem_mem hi)
  · intro h v hv
    obtain ⟨i, hi⟩ := List.mem_iff_getElem?.1 hv
    have hiL : i < vars.length := by
      by_cases hiL : i < vars.length
      · exact hiL
      · rw [List.getElem?_eq_none (by omega)] at hi; exact absurd hi (by simp)
    rw [V_of_getElem? σ vars hi]
    exact h i hiL

/-- `ExactlyKInARow`: the emitted formulas hold iff every run start is followed by exactly
    `k` trues -/
theorem exactRow_pos (k : Nat) (hk : 0 < k) (vars : List Int) (σ : Assign) :
    (∀ f ∈ exactlyInARowFormulas k vars, f.eval σ = true) ↔
      ∀ i, Start (V σ vars) i →
        (∀ j, j < k → V σ vars (i + j) = true) ∧ V σ vars (i + k) = false := by
  have hB : ∀ j, vars.length ≤ j → V σ vars j = false := fun j hj => V_of_ge σ vars hj
  by_cases hL : k ≤ vars.length
  · rw [exactRow_big k hk vars σ hL]
    constructor
    · rintro ⟨E1, E2⟩
      exact exactRow_pure_mp (V σ vars) vars.length k hB hk hL E1 E2
    · intro h
      exact exactRow_pure_mpr (V σ vars) vars.length k hB hk hL h
  · rw [exactRow_few k hk vars σ (by omega)]
    exact exactRow_small (V σ vars) vars.length k hB (by omega)

end SPModel.C01
