/-
  Characterisation of `SPModel.Compile.runs` (maximal runs of `true`) by
  positions, and the three "every run is ≤ k / ≥ k / = k" criteria used by C01.
-/
import SPModel.Compile

namespace SPModel.C01
open SPModel SPModel.Compile

/-- one step of the fold in `runs` -/
def step (p : List Nat × Nat) (x : Bool) : List Nat × Nat :=
  if x then (p.1, p.2 + 1) else (if p.2 > 0 then p.1 ++ [p.2] else p.1, 0)

/-- the closing step of `runs` -/
def fin (r : List Nat × Nat) : List Nat := if r.2 > 0 then r.1 ++ [r.2] else r.1

theorem runs_eq (xs : List Bool) : runs xs = fin (xs.foldl step ([], 0)) := rfl

/-! ### total length -/

theorem sum_fin_foldl (xs : List Bool) : ∀ p : List Nat × Nat,
    (fin (xs.foldl step p)).sum = p.1.sum + p.2 + (xs.filter id).length := by
  induction xs with
  | nil =>
    intro p
    by_cases h : p.2 > 0 <;> simp [fin, h]
    omega
  | cons x xs ih =>
    intro p
    rw [List.foldl_cons, ih]
    cases x
    · by_cases h : p.2 > 0 <;> simp [step, h]
      omega
    · simp [step]
      omega

theorem foldl_add_eq_sum (l : List Nat) : ∀ a, l.foldl (· + ·) a = a + l.sum := by
  induction l with
  | nil => intro a; simp
  | cons x xs ih => intro a; simp [List.foldl_cons, ih]; omega

/-! ### the fold, by position -/

/-- the state of the fold after `m` positions of the sequence `B` -/
def stB (B : Nat → Bool) : Nat → List Nat × Nat
  | 0 => ([], 0)
  | m + 1 => step (stB B m) (B m)

/-- the sequence of a list, `false` beyond its end -/
def Bf (l : List Bool) (i : Nat) : Bool := l.getD i false

theorem Bf_of_ge (l : List Bool) {i : Nat} (h : l.length ≤ i) : Bf l i = false := by
  simp [Bf, List.getD_eq_getElem?_getD, List.getElem?_eq_none h]

theorem foldl_take_eq (l : List Bool) : ∀ m, m ≤ l.length →
    (l.take m).foldl step ([], 0) = stB (Bf l) m := by
  intro m
  induction m with
  | zero => intro _; simp [stB]
  | succ m ih =>
    intro hm
    have hm' : m < l.length := by omega
    rw [List.take_add_one, List.foldl_append, ih (by omega)]
    simp [stB, Bf, List.getElem?_eq_getElem hm']

theorem foldl_eq_stB (l : List Bool) : l.foldl step ([], 0) = stB (Bf l) l.length := by
  have := foldl_take_eq l l.length (Nat.le_refl _)
  simpa using this

theorem runs_eq_stB (l : List Bool) : runs l = (stB (Bf l) (l.length + 1)).1 := by
  rw [runs_eq, foldl_eq_stB]
  show _ = (step (stB (Bf l) l.length) (Bf l l.length)).1
  rw [Bf_of_ge l (Nat.le_refl _)]
  simp only [step, fin]
  by_cases h : (stB (Bf l) l.length).2 > 0 <;> simp [h]

/-- `i` starts a run of `B` -/
def Start (B : Nat → Bool) (i : Nat) : Prop := B i = true ∧ (i = 0 ∨ B (i - 1) = false)

/-- positions `i … i+n-1` are a maximal run of `B` -/
def MaxRun (B : Nat → Bool) (i n : Nat) : Prop :=
  (∀ j, j < n → B (i + j) = true) ∧ B (i + n) = false ∧ (i = 0 ∨ B (i - 1) = false)

structure Inv (B : Nat → Bool) (m : Nat) (acc : List Nat) (c : Nat) : Prop where
  le : c ≤ m
  tr : ∀ j, m - c ≤ j → j < m → B j = true
  bd : c < m → B (m - c - 1) = false
  mem : ∀ n, n ∈ acc ↔ 0 < n ∧ ∃ i, i + n < m ∧ MaxRun B i n

theorem inv (B : Nat → Bool) : ∀ m, Inv B m (stB B m).1 (stB B m).2 := by
  intro m
  induction m with
  | zero =>
    refine ⟨by simp [stB], by intro j _ h; omega, by simp [stB], ?_⟩
    intro n
    simp [stB]
  | succ m ih =>
    obtain ⟨le, tr, bd, mem⟩ := ih
    generalize hacc : (stB B m).1 = acc at *
    generalize hc : (stB B m).2 = c at *
    have hst : stB B (m + 1) = step (acc, c) (B m) := by
      show step (stB B m) (B m) = _
      rw [← hacc, ← hc]
    rw [hst]
    cases hb : B m
    · -- a `false`: the current run (if any) is closed
      have hmem' : ∀ n, n ∈ (step (acc, c) false).1 ↔ (n ∈ acc ∨ (0 < c ∧ n = c)) := by
        intro n
        by_cases h : c > 0 <;> simp [step, h]
      refine ⟨by simp [step], by intro j h1 h2; simp [step] at h1; omega, ?_, ?_⟩
      · intro _; simpa [step] using hb
      · intro n
        rw [hmem', mem]
        constructor
        · rintro (⟨hn, i, hi, hr⟩ | ⟨hc0, rfl⟩)
          · exact ⟨hn, i, by omega, hr⟩
          · refine ⟨hc0, m - n, by omega, ?_, ?_, ?_⟩
            · intro j hj; exact tr _ (by omega) (by omega)
            · have : m - n + n = m := by omega
              rw [this]; exact hb
            · by_cases h : n < m
              · right
                exact bd h
              · left; omega
        · rintro ⟨hn, i, hi, hr⟩
          by_cases h : i + n < m
          · exact Or.inl ⟨hn, i, h, hr⟩
          · right
            have him : i + n = m := by omega
            obtain ⟨h1, h2, h3⟩ := hr
            have hnc : n = c := by
              rcases Nat.lt_trichotomy n c with hlt | heq | hgt
              · exfalso
                rcases h3 with h3 | h3
                · omega
                · have := tr (i - 1) (by omega) (by omega)
                  rw [this] at h3; exact absurd h3 (by decide)
              · exact heq
              · exfalso
                have hf := bd (by omega)
                have ht := h1 (n - c - 1) (by omega)
                have e : i + (n - c - 1) = m - c - 1 := by omega
                rw [e, hf] at ht; exact absurd ht (by decide)
            exact ⟨by omega, hnc⟩
    · -- a `true`: the current run grows
      refine ⟨by simp [step]; omega, ?_, ?_, ?_⟩
      · intro j h1 h2
        simp [step] at h1
        by_cases hj : j = m
        · rw [hj]; exact hb
        · exact tr j (by omega) (by omega)
      · intro h
        simp [step] at h ⊢
        exact bd h
      · intro n
        simp only [step, if_true]
        rw [mem]
        constructor
        · rintro ⟨hn, i, hi, hr⟩
          exact ⟨hn, i, by omega, hr⟩
        · rintro ⟨hn, i, hi, hr⟩
          refine ⟨hn, i, ?_, hr⟩
          by_cases h : i + n < m
          · exact h
          · exfalso
            have him : i + n = m := by omega
            have := hr.2.1
            rw [him, hb] at this; exact absurd this (by decide)

/-- membership in `runs`, by position -/
theorem mem_runs (l : List Bool) (n : Nat) :
    n ∈ runs l ↔ 0 < n ∧ ∃ i, MaxRun (Bf l) i n := by
  rw [runs_eq_stB, (inv (Bf l) (l.length + 1)).mem]
  constructor
  · rintro ⟨hn, i, _, hr⟩; exact ⟨hn, i, hr⟩
  · rintro ⟨hn, i, hr⟩
    refine ⟨hn, i, ?_, hr⟩
    have ht := hr.1 (n - 1) (by omega)
    by_cases h : i + n < l.length + 1
    · exact h
    · exfalso
      rw [Bf_of_ge l (by omega)] at ht; exact absurd ht (by decide)

/-! ### extending a true position to a maximal run -/

theorem extend_left (B : Nat → Bool) : ∀ i, B i = true →
    ∃ s, s ≤ i ∧ (∀ j, s ≤ j → j ≤ i → B j = true) ∧ (s = 0 ∨ B (s - 1) = false) := by
  intro i
  induction i with
  | zero =>
    intro h
    refine ⟨0, Nat.le_refl _, ?_, Or.inl rfl⟩
    intro j _ hj
    have : j = 0 := by omega
    rw [this]; exact h
  | succ i ih =>
    intro h
    cases hb : B i
    · refine ⟨i + 1, Nat.le_refl _, ?_, Or.inr (by simpa using hb)⟩
      intro j h1 h2
      have : j = i + 1 := by omega
      rw [this]; exact h
    · obtain ⟨s, hs, hall, hst⟩ := ih hb
      refine ⟨s, by omega, ?_, hst⟩
      intro j h1 h2
      by_cases hj : j = i + 1
      · rw [hj]; exact h
      · exact hall j h1 (by omega)

theorem extend_right (B : Nat → Bool) (L : Nat) (hB : ∀ j, L ≤ j → B j = false) :
    ∀ d i, i + d = L → B i = true →
    ∃ n, 0 < n ∧ (∀ j, j < n → B (i + j) = true) ∧ B (i + n) = false := by
  intro d
  induction d with
  | zero =>
    intro i hi h
    rw [hB i (by omega)] at h; exact absurd h (by decide)
  | succ d ih =>
    intro i hi h
    cases hb : B (i + 1)
    · refine ⟨1, by omega, ?_, hb⟩
      intro j hj
      have : j = 0 := by omega
      rw [this]; exact h
    · obtain ⟨n, hn, hall, hend⟩ := ih (i + 1) (by omega) hb
      refine ⟨n + 1, by omega, ?_, ?_⟩
      · intro j hj
        by_cases hj0 : j = 0
        · rw [hj0]; exact h
        · have := hall (j - 1) (by omega)
          have e : i + 1 + (j - 1) = i + j := by omega
          rw [e] at this; exact this
      · have e : i + (n + 1) = i + 1 + n := by omega
        rw [e]; exact hend

/-- a run start extends to a maximal run -/
theorem start_maxRun (B : Nat → Bool) (L : Nat) (hB : ∀ j, L ≤ j → B j = false)
    (i : Nat) (h : Start B i) : ∃ n, 0 < n ∧ MaxRun B i n := by
  have hi : i < L := by
    by_cases hi : i < L
    · exact hi
    · have := hB i (by omega)
      rw [h.1] at this; exact absurd this (by decide)
  obtain ⟨n, hn, hall, hend⟩ := extend_right B L hB (L - i) i (by omega) h.1
  exact ⟨n, hn, hall, hend, h.2⟩

/-! ### the three criteria -/

/-- every run has length `≤ k` iff there are no `k+1` consecutive `true`s -/
theorem runs_le_iff (l : List Bool) (k : Nat) :
    (∀ n ∈ runs l, n ≤ k) ↔ ∀ i, ∃ j, j ≤ k ∧ Bf l (i + j) = false := by
  constructor
  · intro h i
    by_cases hex : ∃ j, j ≤ k ∧ Bf l (i + j) = false
    · exact hex
    · exfalso
      have hall : ∀ j, j ≤ k → Bf l (i + j) = true := by
        intro j hj
        cases hb : Bf l (i + j)
        · exact absurd ⟨j, hj, hb⟩ hex
        · rfl
      obtain ⟨s, hs, hsall, hst⟩ := extend_left (Bf l) i (by simpa using hall 0 (by omega))
      have hstart : Start (Bf l) s := ⟨hsall s (Nat.le_refl _) hs, hst⟩
      obtain ⟨n, hn, hr⟩ := start_maxRun (Bf l) l.length (fun j hj => Bf_of_ge l hj) s hstart
      have hnk := h n ((mem_runs l n).2 ⟨hn, s, hr⟩)
      -- position s + n is false, but s ≤ s + n ≤ i + k
      have hf := hr.2.1
      by_cases hle : s + n ≤ i
      · rw [hsall (s + n) (by omega) hle] at hf; exact absurd hf (by decide)
      · have := hall (s + n - i) (by omega)
        have e : i + (s + n - i) = s + n := by omega
        rw [e, hf] at this; exact absurd this (by decide)
  · intro h n hn
    obtain ⟨hn0, i, hr⟩ := (mem_runs l n).1 hn
    obtain ⟨j, hj, hf⟩ := h i
    by_cases hlt : j < n
    · rw [hr.1 j hlt] at hf; exact absurd hf (by decide)
    · omega

/-- every run has length `≥ k` iff every run start is followed by `k` `true`s -/
theorem runs_ge_iff (l : List Bool) (k : Nat) :
    (∀ n ∈ runs l, k ≤ n) ↔ ∀ i, Start (Bf l) i → ∀ j, j < k → Bf l (i + j) = true := by
  constructor
  · intro h i hi j hj
    obtain ⟨n, hn, hr⟩ := start_maxRun (Bf l) l.length (fun j hj => Bf_of_ge l hj) i hi
    have := h n ((mem_runs l n).2 ⟨hn, i, hr⟩)
    exact hr.1 j (by omega)
  · intro h n hn
    obtain ⟨hn0, i, hr⟩ := (mem_runs l n).1 hn
    have hs : Start (Bf l) i := ⟨by simpa using hr.1 0 hn0, hr.2.2⟩
    by_cases hlt : n < k
    · have := h i hs n hlt
      rw [hr.2.1] at this; exact absurd this (by decide)
    · omega

/-- every run has length `= k` iff every run start is followed by exactly `k` `true`s -/
theorem runs_eq_iff (l : List Bool) (k : Nat) :
    (∀ n ∈ runs l, n = k) ↔
      ∀ i, Start (Bf l) i → (∀ j, j < k → Bf l (i + j) = true) ∧ Bf l (i + k) = false := by
  constructor
  · intro h i hi
    obtain ⟨n, hn, hr⟩ := start_maxRun (Bf l) l.length (fun j hj => Bf_of_ge l hj) i hi
    have := h n ((mem_runs l n).2 ⟨hn, i, hr⟩)
    subst this
    exact ⟨hr.1, hr.2.1⟩
  · intro h n hn
    obtain ⟨hn0, i, hr⟩ := (mem_runs l n).1 hn
    have hs : Start (Bf l) i := ⟨by simpa using hr.1 0 hn0, hr.2.2⟩
    obtain ⟨h1, h2⟩ := h i hs
    rcases Nat.lt_trichotomy n k with hlt | heq | hgt
    · have := h1 n hlt
      rw [hr.2.1] at this; exact absurd this (by decide)
    · exact heq
    · have := hr.1 k hgt
      rw [h2] at this; exact absurd this (by decide)

end SPModel.C01
