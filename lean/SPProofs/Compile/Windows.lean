/-
  `windows`, slices of the variable list, and the evaluation of the formula
  shapes that the run-length constraints emit, all by position.
-/
import SPProofs.Compile.Runs

namespace SPModel.C01
open SPModel SPModel.Compile

/-- the value at position `i` (`false` beyond the end) -/
def V (σ : Assign) (vars : List Int) (i : Nat) : Bool := Bf (vars.map (litVal σ)) i

theorem V_of_ge (σ : Assign) (vars : List Int) {i : Nat} (h : vars.length ≤ i) :
    V σ vars i = false := by
  apply Bf_of_ge; simpa using h

theorem V_of_getElem? (σ : Assign) (vars : List Int) {i : Nat} {x : Int}
    (h : vars[i]? = some x) : litVal σ x = V σ vars i := by
  simp [V, Bf, List.getD_eq_getElem?_getD, List.getElem?_map, h]

theorem V_getD (σ : Assign) (vars : List Int) {i : Nat} (h : i < vars.length) :
    litVal σ (vars.getD i 0) = V σ vars i := by
  have : vars[i]? = some (vars.getD i 0) := by
    simp [List.getD_eq_getElem?_getD, List.getElem?_eq_getElem h]
  exact V_of_getElem? σ vars this

/-! ### slices -/

/-- `n` consecutive variables from position `a` -/
def slice (a n : Nat) (vars : List Int) : List Int := (vars.drop a).take n

theorem getElem?_slice (a n : Nat) (vars : List Int) (j : Nat) :
    (slice a n vars)[j]? = if j < n then vars[a + j]? else none := by
  simp [slice, List.getElem?_take, List.getElem?_drop]

theorem length_slice (a n : Nat) (vars : List Int) (h : a + n ≤ vars.length) :
    (slice a n vars).length = n := by
  simp [slice]; omega

theorem drop_slice (a n d : Nat) (vars : List Int) :
    (slice a n vars).drop d = slice (a + d) (n - d) vars := by
  simp [slice, List.drop_take, List.drop_drop]

theorem dropLast_slice (a n : Nat) (vars : List Int) (h : a + n ≤ vars.length) :
    (slice a n vars).dropLast = slice a (n - 1) vars := by
  rw [List.dropLast_eq_take, length_slice a n vars h]
  simp [slice, List.take_take]

theorem mem_slice (a n : Nat) (vars : List Int) (x : Int) :
    x ∈ slice a n vars ↔ ∃ j, a ≤ j ∧ j < a + n ∧ vars[j]? = some x := by
  rw [List.mem_iff_getElem?]
  constructor
  · rintro ⟨i, hi⟩
    rw [getElem?_slice] at hi
    by_cases h : i < n
    · rw [if_pos h] at hi; exact ⟨a + i, by omega, by omega, hi⟩
    · rw [if_neg h] at hi; exact absurd hi (by simp)
  · rintro ⟨j, h1, h2, h3⟩
    refine ⟨j - a, ?_⟩
    rw [getElem?_slice, if_pos (by omega)]
    have : a + (j - a) = j := by omega
    rw [this]; exact h3

theorem headD_slice (a n : Nat) (vars : List Int) (hn : 0 < n) :
    (slice a n vars).headD 0 = vars.getD a 0 := by
  simp [List.headD_eq_head?_getD, List.head?_eq_getElem?, getElem?_slice, hn,
    List.getD_eq_getElem?_getD]

theorem getD_slice (a n i : Nat) (vars : List Int) (hi : i < n) :
    (slice a n vars).getD i 0 = vars.getD (a + i) 0 := by
  simp [List.getD_eq_getElem?_getD, getElem?_slice, hi]

theorem getLastD_slice (a n : Nat) (vars : List Int) (hn : 0 < n) (h : a + n ≤ vars.length) :
    (slice a n vars).getLastD 0 = vars.getD (a + n - 1) 0 := by
  rw [List.getLastD_eq_getLast?, List.getLast?_eq_getElem?, length_slice a n vars h,
    getElem?_slice, if_pos (by omega), List.getD_eq_getElem?_getD]
  congr 2; omega

theorem reverse_getD_slice (a n i : Nat) (vars : List Int) (h : a + n ≤ vars.length)
    (hi : i < n) : (slice a n vars).reverse.getD i 0 = vars.getD (a + n - 1 - i) 0 := by
  rw [List.getD_eq_getElem?_getD, List.getElem?_reverse (by rw [length_slice a n vars h]; exact hi),
    length_slice a n vars h, getElem?_slice, if_pos (by omega), List.getD_eq_getElem?_getD]
  congr 2; omega

/-- all literals of a slice are true -/
theorem all_slice (σ : Assign) (a n : Nat) (vars : List Int) :
    (slice a n vars).all (litVal σ) = true ↔
      ∀ j, a ≤ j → j < a + n → j < vars.length → V σ vars j = true := by
  rw [List.all_eq_true]
  constructor
  · intro h j h1 h2 h3
    have hx : vars[j]? = some vars[j] := List.getElem?_eq_getElem h3
    rw [← V_of_getElem? σ vars hx]
    exact h _ ((mem_slice a n vars _).2 ⟨j, h1, h2, hx⟩)
  · intro h x hx
    obtain ⟨j, h1, h2, h3⟩ := (mem_slice a n vars x).1 hx
    rw [V_of_getElem? σ vars h3]
    have hj : j < vars.length := by
      by_cases hj : j < vars.length
      · exact hj
      · rw [List.getElem?_eq_none (by omega)] at h3; exact absurd h3 (by simp)
    exact h j h1 h2 hj

/-- some literal of a slice is true -/
theorem any_slice (σ : Assign) (a n : Nat) (vars : List Int) :
    (slice a n vars).any (litVal σ) = true ↔
      ∃ j, a ≤ j ∧ j < a + n ∧ j < vars.length ∧ V σ vars j = true := by
  rw [List.any_eq_true]
  constructor
  · rintro ⟨x, hx, hv⟩
    obtain ⟨j, h1, h2, h3⟩ := (mem_slice a n vars x).1 hx
    have hj : j < vars.length := by
      by_cases hj : j < vars.length
      · exact hj
      · rw [List.getElem?_eq_none (by omega)] at h3; exact absurd h3 (by simp)
    exact ⟨j, h1, h2, hj, by rw [← V_of_getElem? σ vars h3]; exact hv⟩
  · rintro ⟨j, h1, h2, h3, h4⟩
    have hx : vars[j]? = some vars[j] := List.getElem?_eq_getElem h3
    exact ⟨vars[j], (mem_slice a n vars _).2 ⟨j, h1, h2, hx⟩, by
      rw [V_of_getElem? σ vars hx]; exact h4⟩

theorem slice_zero_length (vars : List Int) : slice 0 vars.length vars = vars := by
  simp [slice]

/-! ### windows -/

theorem filter_range_lt (m a : Nat) :
    (List.range m).filter (fun i => decide (i < a)) = List.range (min m a) := by
  induction m with
  | zero => simp
  | succ m ih =>
    rw [List.range_succ, List.filter_append, ih]
    by_cases h : m < a
    · have e : min (m + 1) a = min m a + 1 := by omega
      have e2 : min m a = m := by omega
      rw [e, List.range_succ, e2]; simp [h]
    · have e : min (m + 1) a = min m a := by omega
      rw [e]; simp [h]

/-- the windows, by index -/
theorem windows_eq (n : Nat) (hn : 0 < n) (vars : List Int) :
    windows n vars = (List.range (vars.length + 1 - n)).map (fun i => slice i n vars) := by
  unfold windows
  rw [List.filter_map]
  have hf : (List.range vars.length).filter ((fun w => w.length == n) ∘ fun i => (vars.drop i).take n)
      = (List.range vars.length).filter (fun i => decide (i < vars.length + 1 - n)) := by
    apply List.filter_congr
    intro i hi
    have hi' : i < vars.length := List.mem_range.1 hi
    simp only [Function.comp, List.length_take, List.length_drop]
    by_cases h : i < vars.length + 1 - n
    · simp [h]; omega
    · simp [h]; omega
  rw [hf, filter_range_lt]
  have e : min vars.length (vars.length + 1 - n) = vars.length + 1 - n := by omega
  rw [e]
  rfl

theorem length_windows (n : Nat) (hn : 0 < n) (vars : List Int) :
    (windows n vars).length = vars.length + 1 - n := by
  rw [windows_eq n hn]; simp

theorem getElem?_windows (n : Nat) (hn : 0 < n) (vars : List Int) (i : Nat) :
    (windows n vars)[i]? = if i < vars.length + 1 - n then some (slice i n vars) else none := by
  rw [windows_eq n hn, List.getElem?_map]
  by_cases h : i < vars.length + 1 - n
  · rw [List.getElem?_range h, if_pos h]; rfl
  · rw [List.getElem?_eq_none (by simpa using h), if_neg h]; rfl

theorem getD_windows (n : Nat) (hn : 0 < n) (vars : List Int) (i : Nat)
    (hi : i < vars.length + 1 - n) : (windows n vars).getD i [] = slice i n vars := by
  rw [List.getD_eq_getElem?_getD, getElem?_windows n hn, if_pos hi]; rfl

theorem getLast!_windows (n : Nat) (hn : 0 < n) (vars : List Int) (h : n ≤ vars.length) :
    (windows n vars).getLast! = slice (vars.length - n) n vars := by
  rw [List.getLast!_eq_getLast?_getD, List.getLast?_eq_getElem?, length_windows n hn,
    getElem?_windows n hn, if_pos (by omega)]
  have : vars.length + 1 - n - 1 = vars.length - n := by omega
  rw [this]; rfl

theorem mem_windows (n : Nat) (hn : 0 < n) (vars : List Int) (w : List Int) :
    w ∈ windows n vars ↔ ∃ i, i + n ≤ vars.length ∧ w = slice i n vars := by
  rw [windows_eq n hn, List.mem_map]
  constructor
  · rintro ⟨i, hi, rfl⟩
    exact ⟨i, by have := List.mem_range.1 hi; omega, rfl⟩
  · rintro ⟨i, hi, rfl⟩
    exact ⟨i, List.mem_range.2 (by omega), rfl⟩

/-! ### formula shapes -/

theorem evalAll_lits (σ : Assign) (l : List Int) :
    Formula.evalAll σ (lits l) = l.all (litVal σ) := by
  induction l with
  | nil => simp [lits, Formula.evalAll]
  | cons x xs ih =>
    have : lits (x :: xs) = Formula.lit x :: lits xs := rfl
    rw [this]
    simp only [Formula.evalAll, Formula.eval, List.all_cons, ih]

theorem evalAny_lits (σ : Assign) (l : List Int) :
    Formula.evalAny σ (lits l) = l.any (litVal σ) := by
  induction l with
  | nil => simp [lits, Formula.evalAny]
  | cons x xs ih =>
    have : lits (x :: xs) = Formula.lit x :: lits xs := rfl
    rw [this]
    simp only [Formula.evalAny, Formula.eval, List.any_cons, ih]

theorem evalAll_append (σ : Assign) (l₁ l₂ : List Formula) :
    Formula.evalAll σ (l₁ ++ l₂) = (Formula.evalAll σ l₁ && Formula.evalAll σ l₂) := by
  induction l₁ with
  | nil => simp [Formula.evalAll]
  | cons x xs ih => simp [Formula.evalAll, ih, Bool.and_assoc]

theorem eval_andOrSingle (σ : Assign) (l : List Formula) :
    (andOrSingle l).eval σ = Formula.evalAll σ l := by
  unfold andOrSingle
  split
  · simp [Formula.evalAll]
  · simp [Formula.eval]

end SPModel.C01
