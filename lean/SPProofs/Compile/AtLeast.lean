/-
  `AtLeastKInARow`: the emitted implications, by position, against the
  run-start criterion.
-/
import SPProofs.Compile.Windows

namespace SPModel.C01
open SPModel SPModel.Compile

theorem tf {b : Bool} (h1 : b = true) (h2 : b = false) : False := by
  rw [h1] at h2; cases h2

/-- transport a value along an index equation -/
theorem Bx (B : Nat → Bool) {a b : Nat} {v : Bool} (e : a = b) (h : B a = v) : B b = v := e ▸ h

theorem lt_of_true (B : Nat → Bool) (L : Nat) (hB : ∀ j, L ≤ j → B j = false) {i : Nat}
    (h : B i = true) : i < L := by
  by_cases hi : i < L
  · exact hi
  · exact (tf h (hB i (by omega))).elim

/-! ### the arithmetic of the encoding (at least `k+1` variables) -/

theorem atLeast_pure_mp (B : Nat → Bool) (L k : Nat) (hB : ∀ j, L ≤ j → B j = false)
    (hk : 0 < k) (hL : k + 1 ≤ L)
    (P1 : B 0 = true → ∀ j, 1 ≤ j → j < 1 + (k - 1) → j < L → B j = true)
    (P2 : ∀ i, i + (k + 1) ≤ L → B i = false → B (i + 1) = true →
        ∀ j, i + 2 ≤ j → j < i + 2 + (k - 1) → j < L → B j = true)
    (P3 : B (L - k) = false → ∀ j, L - k + 1 ≤ j → j < L → B j = false)
    (P4 : L - k > 1 → ∀ i, i < k + 1 → 3 ≤ i → B (L - (k + 1) + i) = true →
        B (L - (k + 1) + (i - 1)) = true) :
    ∀ i, Start B i → ∀ j, j < k → B (i + j) = true := by
  intro i ⟨hi, hst⟩ j hj
  have hiL : i < L := lt_of_true B L hB hi
  by_cases hj0 : j = 0
  · subst hj0; exact hi
  by_cases hi0 : i = 0
  · subst hi0
    exact Bx B (by omega) (P1 hi j (by omega) (by omega) (by omega))
  have hprev : B (i - 1) = false := by
    rcases hst with h | h
    · exact absurd h hi0
    · exact h
  by_cases hmid : i ≤ L - k
  · exact P2 (i - 1) (by omega) hprev (Bx B (by omega) hi) (i + j) (by omega) (by omega) (by omega)
  · exfalso
    cases hb : B (L - k)
    · exact tf hi (P3 hb i (by omega) hiL)
    · have hne : i ≠ L - k + 1 := by
        intro e
        exact tf (Bx B (by omega) hb) hprev
      by_cases hW : L - k > 1
      · have := P4 hW (i - (L - (k + 1))) (by omega) (by omega) (Bx B (by omega) hi)
        exact tf (Bx B (by omega) this) hprev
      · -- exactly `k+1` variables
        have hb1 : B 1 = true := Bx B (by omega) hb
        cases hb0 : B 0
        · have := P2 0 (by omega) hb0 hb1 (i - 1) (by omega) (by omega) (by omega)
          exact tf this hprev
        · have := P1 hb0 (i - 1) (by omega) (by omega) (by omega)
          exact tf this hprev

theorem atLeast_pure_mpr (B : Nat → Bool) (L k : Nat) (hB : ∀ j, L ≤ j → B j = false)
    (hk : 0 < k) (hL : k + 1 ≤ L)
    (h : ∀ i, Start B i → ∀ j, j < k → B (i + j) = true) :
    (B 0 = true → ∀ j, 1 ≤ j → j < 1 + (k - 1) → j < L → B j = true) ∧
    (∀ i, i + (k + 1) ≤ L → B i = false → B (i + 1) = true →
        ∀ j, i + 2 ≤ j → j < i + 2 + (k - 1) → j < L → B j = true) ∧
    (B (L - k) = false → ∀ j, L - k + 1 ≤ j → j < L → B j = false) ∧
    (L - k > 1 → ∀ i, i < k + 1 → 3 ≤ i → B (L - (k + 1) + i) = true →
        B (L - (k + 1) + (i - 1)) = true) := by
  refine ⟨?_, ?_, ?_, ?_⟩
  · intro h0 j h1 h2 _
    exact Bx B (by omega) (h 0 ⟨h0, Or.inl rfl⟩ j (by omega))
  · intro i hi hf ht j h1 h2 _
    have hs : Start B (i + 1) := ⟨ht, Or.inr (Bx B (by omega) hf)⟩
    exact Bx B (by omega) (h (i + 1) hs (j - i - 1) (by omega))
  · intro hf j h1 h2
    cases hb : B j
    · rfl
    · exfalso
      obtain ⟨s, hs, hall, hst⟩ := extend_left B j hb
      have hsk : L - k < s := by
        by_cases hsk : L - k < s
        · exact hsk
        · exact (tf (hall (L - k) (by omega) (by omega)) hf).elim
      have := h s ⟨hall s (Nat.le_refl _) hs, hst⟩ (k - 1) (by omega)
      exact tf this (hB _ (by omega))
  · intro hW i h1 h2 ht
    cases hb : B (L - (k + 1) + (i - 1))
    · exfalso
      have hs : Start B (L - (k + 1) + i) := ⟨ht, Or.inr (Bx B (by omega) hb)⟩
      have := h _ hs (k - 1) (by omega)
      exact tf this (hB _ (by omega))
    · rfl

/-! ### fewer than `k+1` variables -/

theorem atLeast_small_eq (B : Nat → Bool) (L k : Nat) (hB : ∀ j, L ≤ j → B j = false)
    (hk : 0 < k) (hL : L = k) :
    (∀ i, i < L → B i = true → ∀ j, j < L → B j = true) ↔
      ∀ i, Start B i → ∀ j, j < k → B (i + j) = true := by
  constructor
  · intro h i ⟨hi, hst⟩ j hj
    have hiL := lt_of_true B L hB hi
    have hi0 : i = 0 := by
      rcases hst with h0 | hf
      · exact h0
      · by_cases hi0 : i = 0
        · exact hi0
        · exact (tf (h i hiL hi (i - 1) (by omega)) hf).elim
    subst hi0
    exact h 0 hiL hi (0 + j) (by omega)
  · intro h i hiL hi j hj
    obtain ⟨s, hs, hall, hst⟩ := extend_left B i hi
    have hstart : Start B s := ⟨hall s (Nat.le_refl _) hs, hst⟩
    have hs0 : s = 0 := by
      have := lt_of_true B L hB (h s hstart (k - 1) (by omega))
      omega
    subst hs0
    exact Bx B (by omega) (h 0 hstart j (by omega))

theorem atLeast_small_lt (B : Nat → Bool) (L k : Nat) (hB : ∀ j, L ≤ j → B j = false)
    (hL : L < k) :
    (∀ i, i < L → B i = false) ↔
      ∀ i, Start B i → ∀ j, j < k → B (i + j) = true := by
  constructor
  · intro h i ⟨hi, _⟩ j hj
    exact (tf hi (h i (lt_of_true B L hB hi))).elim
  · intro h i hiL
    cases hi : B i
    · rfl
    · exfalso
      obtain ⟨s, hs, hall, hst⟩ := extend_left B i hi
      have hstart : Start B s := ⟨hall s (Nat.le_refl _) hs, hst⟩
      have := lt_of_true B L hB (h s hstart (k - 1) (by omega))
      omega

/-! ### evaluating the emitted implications -/

theorem eval_imp (σ : Assign) (p q : Formula) :
    (Formula.imp p q).eval σ = true ↔ (p.eval σ = true → q.eval σ = true) := by
  simp only [Formula.eval]
  cases p.eval σ <;> cases q.eval σ <;> simp

theorem windows_cons (n : Nat) (hn : 0 < n) (vars : List Int) (h : n ≤ vars.length) :
    ∃ tl, windows n vars = slice 0 n vars :: tl := by
  rw [windows_eq n hn]
  have : vars.length + 1 - n = (vars.length - n) + 1 := by omega
  rw [this, List.range_succ_eq_map]
  exact ⟨_, rfl⟩

theorem windows_nil (n : Nat) (hn : 0 < n) (vars : List Int) (h : vars.length < n) :
    windows n vars = [] := by
  apply List.eq_nil_of_length_eq_zero
  rw [length_windows n hn]; omega

theorem eval_start (σ : Assign) (k : Nat) (hk : 0 < k) (vars : List Int) (hL : k + 1 ≤ vars.length) :
    Formula.eval σ ((Formula.lit ((slice 0 (k + 1) vars).headD 0)).imp
        (Formula.and (lits (List.drop 1 (slice 0 (k + 1) vars)).dropLast))) = true ↔
      (V σ vars 0 = true →
        ∀ j, 1 ≤ j → j < 1 + (k - 1) → j < vars.length → V σ vars j = true) := by
  rw [eval_imp, headD_slice 0 (k + 1) vars (by omega), drop_slice,
    dropLast_slice _ _ _ (by omega)]
  simp only [Formula.eval, evalAll_lits, all_slice, V_getD σ vars (show 0 < vars.length by omega)]
  constructor
  · intro h h0 j h1 h2 h3; exact h h0 j (by omega) (by omega) h3
  · intro h h0 j h1 h2 h3; exact h h0 j (by omega) (by omega) h3

theorem eval_mid (σ : Assign) (k : Nat) (hk : 0 < k) (vars : List Int) (i : Nat)
    (hi : i + (k + 1) ≤ vars.length) :
    Formula.eval σ ((Formula.and [(Formula.lit ((slice i (k + 1) vars).headD 0)).not,
          Formula.lit ((List.drop 1 (slice i (k + 1) vars)).headD 0)]).imp
        (Formula.and (lits (List.drop 2 (slice i (k + 1) vars))))) = true ↔
      (V σ vars i = false → V σ vars (i + 1) = true →
        ∀ j, i + 2 ≤ j → j < i + 2 + (k - 1) → j < vars.length → V σ vars j = true) := by
  rw [eval_imp, headD_slice i (k + 1) vars (by omega), drop_slice, drop_slice,
    headD_slice _ _ vars (by omega)]
  simp only [Formula.eval, Formula.evalAll, evalAll_lits, all_slice,
    V_getD σ vars (show i < vars.length by omega),
    V_getD σ vars (show i + 1 < vars.length by omega),
    Bool.and_true, Bool.and_eq_true, Bool.not_eq_true']
  constructor
  · intro h h0 h1 j h2 h3 h4; exact h ⟨h0, h1⟩ j h2 (by omega) h4
  · intro h ⟨h0, h1⟩ j h2 h3 h4; exact h h0 h1 j h2 (by omega) h4

theorem eval_end (σ : Assign) (k : Nat) (hk : 0 < k) (vars : List Int) (hL : k + 1 ≤ vars.length) :
    Formula.eval σ
        ((Formula.lit ((List.drop 1 (slice (vars.length - (k + 1)) (k + 1) vars)).headD 0)).not.imp
          (Formula.or (lits (List.drop 2 (slice (vars.length - (k + 1)) (k + 1) vars)))).not) = true ↔
      (V σ vars (vars.length - k) = false →
        ∀ j, vars.length - k + 1 ≤ j → j < vars.length → V σ vars j = false) := by
  rw [eval_imp, drop_slice, drop_slice, headD_slice _ _ vars (by omega)]
  have e : vars.length - (k + 1) + 1 = vars.length - k := by omega
  simp only [Formula.eval, evalAny_lits, e, V_getD σ vars (show vars.length - k < vars.length by omega)]
  rw [Bool.not_eq_true', Bool.not_eq_true']
  have key : (slice (vars.length - (k + 1) + 2) (k + 1 - 2) vars).any (litVal σ) = false ↔
      ∀ j, vars.length - k + 1 ≤ j → j < vars.length → V σ vars j = false := by
    rw [Bool.eq_false_iff, Ne, any_slice]
    constructor
    · intro h j h1 h2
      cases hb : V σ vars j
      · rfl
      · exact (h ⟨j, by omega, by omega, h2, hb⟩).elim
    · rintro h ⟨j, h1, h2, h3, h4⟩
      exact tf h4 (h j (by omega) h3)
  rw [key]

theorem eval_tail (σ : Assign) (k : Nat) (vars : List Int) (hL : k + 1 ≤ vars.length) :
    (∀ x ∈ List.map
          (fun i => (Formula.lit ((slice (vars.length - (k + 1)) (k + 1) vars).getD i 0)).imp
            (Formula.lit ((slice (vars.length - (k + 1)) (k + 1) vars).getD (i - 1) 0)))
          (List.filter (fun x => decide (x ≥ 3))
            (List.range (slice (vars.length - (k + 1)) (k + 1) vars).length)),
        Formula.eval σ x = true) ↔
      (∀ i, i < k + 1 → 3 ≤ i → V σ vars (vars.length - (k + 1) + i) = true →
        V σ vars (vars.length - (k + 1) + (i - 1)) = true) := by
  rw [length_slice _ _ _ (by omega)]
  simp only [List.forall_mem_map, List.mem_filter, List.mem_range, decide_eq_true_eq, eval_imp]
  simp only [Formula.eval]
  constructor
  · intro h i h1 h2
    have := h i ⟨h1, h2⟩
    rw [getD_slice _ _ _ _ h1, getD_slice _ _ _ _ (show i - 1 < k + 1 by omega),
      V_getD σ vars (by omega), V_getD σ vars (by omega)] at this
    exact this
  · intro h i ⟨h1, h2⟩
    rw [getD_slice _ _ _ _ h1, getD_slice _ _ _ _ (show i - 1 < k + 1 by omega),
      V_getD σ vars (by omega), V_getD σ vars (by omega)]
    exact h i h1 h2

/-- at least `k+1` variables: the emitted formulas, by position -/
theorem atLeast_big (k : Nat) (hk : 0 < k) (vars : List Int) (σ : Assign)
    (hL : k + 1 ≤ vars.length) :
    (∀ f ∈ atLeastFormulas k vars, f.eval σ = true) ↔
    ((V σ vars 0 = true → ∀ j, 1 ≤ j → j < 1 + (k - 1) → j < vars.length → V σ vars j = true) ∧
    (∀ i, i + (k + 1) ≤ vars.length → V σ vars i = false → V σ vars (i + 1) = true →
        ∀ j, i + 2 ≤ j → j < i + 2 + (k - 1) → j < vars.length → V σ vars j = true) ∧
    (V σ vars (vars.length - k) = false →
        ∀ j, vars.length - k + 1 ≤ j → j < vars.length → V σ vars j = false) ∧
    (vars.length - k > 1 → ∀ i, i < k + 1 → 3 ≤ i → V σ vars (vars.length - (k + 1) + i) = true →
        V σ vars (vars.length - (k + 1) + (i - 1)) = true)) := by
  obtain ⟨tl, hws⟩ := windows_cons (k + 1) (by omega) vars hL
  have hlast := getLast!_windows (k + 1) (by omega) vars hL
  have hlen := length_windows (k + 1) (by omega) vars
  unfold atLeastFormulas
  simp only []
  rw [hws] at hlast hlen ⊢
  simp only [hlast, hlen]
  rw [← hws]
  simp only [List.forall_mem_append, List.forall_mem_singleton, and_assoc]
  refine and_congr (eval_start σ k hk vars hL) (and_congr ?_ (and_congr (eval_end σ k hk vars hL) ?_))
  · rw [List.forall_mem_map]
    constructor
    · intro h i hi
      exact (eval_mid σ k hk vars i hi).1
        (h _ ((mem_windows (k + 1) (by omega) vars _).2 ⟨i, hi, rfl⟩))
    · intro h w hw
      obtain ⟨i, hi, rfl⟩ := (mem_windows (k + 1) (by omega) vars w).1 hw
      exact (eval_mid σ k hk vars i hi).2 (h i hi)
  · by_cases hW : vars.length - k > 1
    · rw [if_pos (by omega), eval_tail σ k vars hL]
      exact ⟨fun h _ => h, fun h => h hW⟩
    · rw [if_neg (by omega)]
      exact ⟨fun _ h => absurd h hW, fun _ x hx => absurd hx (by simp)⟩

/-- fewer than `k+1` variables: the emitted formulas, by position -/
theorem atLeast_small (k : Nat) (vars : List Int) (σ : Assign) (hL : vars.length < k + 1) :
    (∀ f ∈ atLeastFormulas k vars, f.eval σ = true) ↔
      if vars.length = k then
        ∀ i, i < vars.length → V σ vars i = true → ∀ j, j < vars.length → V σ vars j = true
      else ∀ i, i < vars.length → V σ vars i = false := by
  have hws := windows_nil (k + 1) (by omega) vars hL
  unfold atLeastFormulas
  simp only []
  rw [hws]
  simp only []
  by_cases hk : vars.length = k
  · have hb : (vars.length == k) = true := by simpa using hk
    rw [if_pos hb, if_pos hk]
    simp only [List.forall_mem_map, eval_imp]
    simp only [Formula.eval, evalAll_lits]
    have hall := all_slice σ 0 vars.length vars
    rw [slice_zero_length] at hall
    rw [hall]
    constructor
    · intro h i hi hv j hj
      have hx : vars[i]? = some vars[i] := List.getElem?_eq_getElem hi
      exact h vars[i] (List.getElem_mem hi) (by rw [V_of_getElem? σ vars hx]; exact hv) j
        (by omega) (by omega) hj
    · intro h v hv hval j _ _ hj
      obtain ⟨i, hi⟩ := List.mem_iff_getElem?.1 hv
      have hiL : i < vars.length := by
        by_cases hiL : i < vars.length
        · exact hiL
        · rw [List.getElem?_eq_none (by omega)] at hi; exact absurd hi (by simp)
      exact h i hiL (by rw [← V_of_getElem? σ vars hi]; exact hval) j hj
  · have hb : ¬ (vars.length == k) = true := by simpa using hk
    rw [if_neg hb, if_neg hk]
    simp only [List.forall_mem_map, Formula.eval, Bool.not_eq_true']
    constructor
    · intro h i hi
      have hx : vars[i]? = some vars[i] := List.getElem?_eq_getElem hi
      rw [← V_of_getElem? σ vars hx]
      exact h vars[i] (List.getElem_mem hi)
    · intro h v hv
      obtain ⟨i, hi⟩ := List.mem_iff_getElem?.1 hv
      have hiL : i < vars.length := by
        by_cases hiL : i < vars.length
        · exact hiL
        · rw [List.getElem?_eq_none (by omega)] at hi; exact absurd hi (by simp)
      rw [V_of_getElem? σ vars hi]
      exact h i hiL

/-- `AtLeastKInARow`: the emitted formulas hold iff every run start is followed by `k` trues -/
theorem atLeast_pos (k : Nat) (hk : 0 < k) (vars : List Int) (σ : Assign) :
    (∀ f ∈ atLeastFormulas k vars, f.eval σ = true) ↔
      ∀ i, Start (V σ vars) i → ∀ j, j < k → V σ vars (i + j) = true := by
  have hB : ∀ j, vars.length ≤ j → V σ vars j = false := fun j hj => V_of_ge σ vars hj
  by_cases hL : k + 1 ≤ vars.length
  · rw [atLeast_big k hk vars σ hL]
    constructor
    · rintro ⟨P1, P2, P3, P4⟩
      exact atLeast_pure_mp (V σ vars) vars.length k hB hk hL P1 P2 P3 P4
    · intro h
      exact atLeast_pure_mpr (V σ vars) vars.length k hB hk hL h
  · rw [atLeast_small k vars σ (by omega)]
    by_cases hk' : vars.length = k
    · rw [if_pos hk']
      exact atLeast_small_eq (V σ vars) vars.length k hB hk hk'
    · rw [if_neg hk']
      exact atLeast_small_lt (V σ vars) vars.length k hB (by omega)

end SPModel.C01
