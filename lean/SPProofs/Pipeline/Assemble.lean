/-
  The whole compilation: what the backend `buildBackend p` of a block means for an
  assignment, constraint by constraint (`MeaningAll`), assembled from the per-class
  theorems (`MeaningRuns`, `MeaningBasic`, `MeaningCross`).  `Meaning p fr ρ c` is the
  meaning of constraint `c` when its `apply` runs at fresh-variable counter `fr` (only
  `Cross` depends on the counter: it names its state variables from it).
-/
import SPProofs.Pipeline.MeaningRuns
import SPProofs.Pipeline.MeaningBasic
import SPProofs.Pipeline.MeaningCross
import SPProofs.Pipeline.AssembleAux

namespace SPModel.Pipeline
open SPModel Layout

/-- the counter after `c.apply` ran at counter `fr` -/
def freshAfter (p : PInput) (fr : Nat) (c : PConstraint) : Nat :=
  (applyConstraint p { fresh := fr, cnfs := [], reqs := [] } c).fresh

/-- the counter after one crossing of `Cross.apply` ran at counter `fr` -/
def crossFreshAfter (p : PInput) (fr : Nat) (c : PCrossing) : Nat :=
  (crossStep p { fresh := fr, cnfs := [], reqs := [] } c).fresh

/-- meaning of one crossing whose state variables start at `fr` -/
def CrossMeaning (p : PInput) (fr : Nat) (ρ : Assign) (c : PCrossing) : Prop :=
  (∀ ti ci, ti < trials p - c.preamble → ci < c.combos.length →
      ρ (fr + ti * c.combos.length + ci) = comboSel p ρ c ci (c.preamble + 1 + ti)) ∧
  (∀ ci, ci < c.combos.length → ∀ j, j * (c.size * c.weight) < trials p - c.preamble →
      let cnt := chunkCount (trials p - c.preamble) (c.size * c.weight) j
        (fun ti => comboSel p ρ c ci (c.preamble + 1 + ti))
      if (j + 1) * (c.size * c.weight) ≤ trials p - c.preamble
      then cnt = c.weights.getD ci 0 * c.weight
      else cnt ≤ c.weights.getD ci 0 * c.weight)

def CrossMeaningAll (p : PInput) : Nat → List PCrossing → Assign → Prop
  | _, [], _ => True
  | fr, c :: cs, ρ => CrossMeaning p fr ρ c ∧ CrossMeaningAll p (crossFreshAfter p fr c) cs ρ

/-- all entries of the dependent-index lists are plain variables (no `BeforeStart`) -/
def plainDeps (deps : List (List Dep)) : Option (List (List Nat)) :=
  deps.mapM (fun l => l.mapM (fun x => match x with | .var v => some v | .before _ => none))

/-- what constraint `c` means when applied at counter `fr` -/
def Meaning (p : PInput) (fr : Nat) (ρ : Assign) : PConstraint → Prop
  | .noop => True
  | .consistency =>
    ∀ i f, p.layout.factors[i]? = some f → ∀ t ∈ applicable f 0 (trials p),
      ((List.range f.nlevels).filter (fun l => sel p ρ i l (t + 1))).length = 1
  | .cross => CrossMeaningAll p fr p.crossings ρ
  | .sustain =>
    ∀ i f, p.layout.factors[i]? = some f → ∀ l, l < f.nlevels →
      ∀ j, j < (applicable f 0 (trials p)).length →
        (selIn p ρ i l f 0 (trials p)).getD j false =
          (selIn p ρ i l f 0 (trials p)).getD ((j / f.sustain) * f.sustain) false
  | .exclude i l => ∀ t ∈ applicable (factorAt p i) 0 (trials p), sel p ρ i l (t + 1) = false
  | .pin idx i l within s =>
    trialNumbers p idx within s ≠ [] ∧ ∀ t ∈ trialNumbers p idx within s, sel p ρ i l (t + 1) = true
  | .atMost k i l within =>
    ∀ r ∈ ranges p within, ∀ m ∈ Compile.runs (selIn p ρ i l (factorAt p i) r.1 r.2), m ≤ k
  | .atLeast k i l within =>
    ∀ r ∈ ranges p within, ∀ m ∈ Compile.runs (selIn p ρ i l (factorAt p i) r.1 r.2), k ≤ m
  | .exactlyInARow k i l within =>
    ∀ r ∈ ranges p within, ∀ m ∈ Compile.runs (selIn p ρ i l (factorAt p i) r.1 r.2), m = k
  | .exactlyK k i l within =>
    ∀ r ∈ ranges p within, ((selIn p ρ i l (factorAt p i) r.1 r.2).filter id).length = k
  | .sequential i pre =>
    ∀ j, pre + j * (factorAt p i).sustain < trials p → ∀ l, l < (factorAt p i).nlevels →
      sel p ρ i l (pre + j * (factorAt p i).sustain + 1) = decide (l = j % (factorAt p i).nlevels)
  | .derivation d deps fi sd =>
    if d < gridVariables p.layout then
      match plainDeps deps with
      | some ds => ∀ t0, t0 < trials p →
          ρ (d + t0 * vpt p + 1) = ds.any (fun l => l.all (fun x => ρ (x + t0 * vpt p + 1)))
      | none => (derivationSimple p d deps).eval ρ = true
    else
      -- a derivation over a complex window: the formula the model builds (its shape is compared with the
      -- implementation by correspondence I8; its meaning in terms of windows is not restated here)
      match derivationComplex p d deps fi sd with
      | some g => g.eval ρ = true
      | none => True

def MeaningAll (p : PInput) : Nat → List PConstraint → Assign → Prop
  | _, [], _ => True
  | fr, c :: cs, ρ => Meaning p fr ρ c ∧ MeaningAll p (freshAfter p fr c) cs ρ

/-- the side conditions of the per-class theorems (decidable; block construction guarantees them: levels and
    factors exist, `k > 0`, block-scoped geometries have a positive length, every crossing has a trial after
    its preamble and a positive chunk length) -/
def ConstraintOk (p : PInput) : PConstraint → Prop
  | .noop | .consistency | .sustain => True
  | .cross => ∀ c ∈ p.crossings, c.preamble < trials p ∧ 0 < c.size * c.weight ∧
      ∀ i ∈ c.factors, i < p.layout.factors.length
  | .exclude i _ => i < p.layout.factors.length
  | .pin _ i _ _ _ => i < p.layout.factors.length
  | .atMost _ i _ within => i < p.layout.factors.length ∧ WithinOk within
  | .atLeast k i _ within => 0 < k ∧ i < p.layout.factors.length ∧ WithinOk within
  | .exactlyInARow k i _ within => 0 < k ∧ i < p.layout.factors.length ∧ WithinOk within
  | .exactlyK k i _ within => 0 < k ∧ i < p.layout.factors.length ∧ WithinOk within
  | .sequential i _ => i < p.layout.factors.length
  | .derivation _ _ _ _ => True

/-- the counter a constraint leaves behind depends on the backend only through its counter -/
theorem fresh_applyConstraint (p : PInput) (b : Backend) (c : PConstraint) :
    (applyConstraint p b c).fresh = freshAfter p b.fresh c :=
  Asm.applyConstraint_fresh_congr p c b _ rfl

/-- the counter never decreases -/
theorem fresh_le_applyConstraint (p : PInput) (b : Backend) (c : PConstraint) :
    b.fresh ≤ (applyConstraint p b c).fresh :=
  Asm.applyConstraint_fresh_le p c b

/-- the counter one crossing leaves behind depends on the backend only through its counter -/
theorem fresh_crossStep (p : PInput) (b : Backend) (c : PCrossing) :
    (crossStep p b c).fresh = crossFreshAfter p b.fresh c :=
  Asm.crossStep_fresh_congr p c b _ rfl

/-- `Cross.apply` over a list of crossings -/
theorem foldl_crossStep_meaning (p : PInput) (ρ : Assign) (cs : List PCrossing)
    (hok : ∀ c ∈ cs, c.preamble < trials p ∧ 0 < c.size * c.weight ∧
      ∀ i ∈ c.factors, i < p.layout.factors.length)
    (b : Backend) (hfresh : 0 < b.fresh) :
    (cs.foldl (crossStep p) b).holds ρ = true ↔ b.holds ρ = true ∧ CrossMeaningAll p b.fresh cs ρ := by
  induction cs generalizing b with
  | nil => simp [CrossMeaningAll]
  | cons c cs ih =>
    obtain ⟨hpre, hchunk, hfac⟩ := hok c (List.mem_cons_self ..)
    have hle := Asm.crossStep_fresh_le p c b
    rw [List.foldl_cons, ih (fun c' h => hok c' (List.mem_cons_of_mem _ h)) _ (by omega),
      crossStep_meaning p b c hpre hchunk hfac hfresh ρ, fresh_crossStep]
    exact and_assoc

theorem factorAt_get (p : PInput) (i : Nat) (hi : i < p.layout.factors.length) :
    p.layout.factors[i]? = some (factorAt p i) := by
  simp [factorAt, List.getElem?_eq_getElem hi]

/-- one constraint: the backend after `apply` holds iff the backend before does and the constraint's meaning does -/
theorem applyConstraint_meaning (p : PInput) (hwf : C14.WF p.layout) (b : Backend) (hfresh : 0 < b.fresh)
    (c : PConstraint) (hok : ConstraintOk p c) (ρ : Assign) :
    (applyConstraint p b c).holds ρ = true ↔ b.holds ρ = true ∧ Meaning p b.fresh ρ c := by
  cases c with
  | noop => simp [applyConstraint, Meaning]
  | consistency => exact consistency_meaning p hwf b ρ
  | cross => exact foldl_crossStep_meaning p ρ p.crossings hok b hfresh
  | sustain => exact sustain_meaning p hwf b ρ
  | exclude i l => exact exclude_meaning p hwf b i l _ (factorAt_get p i hok) ρ
  | pin idx i l within s => exact pin_meaning p b idx i l _ (factorAt_get p i hok) within s ρ
  | atMost k i l within =>
    exact atMost_meaning p hwf b k i l _ (factorAt_get p i hok.1) within hok.2 ρ
  | atLeast k i l within =>
    exact atLeast_meaning p hwf b k i l hok.1 _ (factorAt_get p i hok.2.1) within hok.2.2 ρ
  | exactlyInARow k i l within =>
    exact exactlyInARow_meaning p hwf b k i l hok.1 _ (factorAt_get p i hok.2.1) within hok.2.2 ρ
  | exactlyK k i l within =>
    exact exactlyK_meaning p hwf b k i l hok.1 _ (factorAt_get p i hok.2.1) within hok.2.2 ρ
  | sequential i pre =>
    have hf := factorAt_get p i hok
    obtain ⟨_, hs, hl, _⟩ := hwf _ (List.mem_of_getElem? hf)
    exact sequential_meaning p b i _ hf hs hl pre ρ
  | derivation d deps fi sd =>
    by_cases hd : d < gridVariables p.layout
    · cases hp : plainDeps deps with
      | some ds =>
        have hdeps := Asm.mapM_mapM_var_eq deps ds hp
        subst hdeps
        have := derivationSimple_meaning p b d ds fi sd hd ρ
        simp only [Meaning, if_pos hd, hp]
        exact this
      | none =>
        simp only [Meaning, if_pos hd, hp, applyConstraint]
        exact holds_pushFormula _ _ _
    · cases hg : derivationComplex p d deps fi sd with
      | some g =>
        simp only [Meaning, if_neg hd, hg, applyConstraint]
        exact holds_pushFormula _ _ _
      | none =>
        simp only [Meaning, if_neg hd, hg, applyConstraint, holds_fail, and_true]

/-- a list of constraints applied in order -/
theorem foldl_applyConstraint_meaning (p : PInput) (hwf : C14.WF p.layout) (ρ : Assign) (cs : List PConstraint)
    (hok : ∀ c ∈ cs, ConstraintOk p c) (b : Backend) (hfresh : 0 < b.fresh) :
    (cs.foldl (applyConstraint p) b).holds ρ = true ↔ b.holds ρ = true ∧ MeaningAll p b.fresh cs ρ := by
  induction cs generalizing b with
  | nil => simp [MeaningAll]
  | cons c cs ih =>
    have hle := fresh_le_applyConstraint p b c
    rw [List.foldl_cons, ih (fun c' h => hok c' (List.mem_cons_of_mem _ h)) _ (by omega),
      applyConstraint_meaning p hwf b hfresh c (hok c (List.mem_cons_self ..)) ρ, fresh_applyConstraint]
    exact and_assoc

/-- the whole backend request -/
theorem buildBackend_meaning (p : PInput) (hwf : C14.WF p.layout) (hok : ∀ c ∈ p.constraints, ConstraintOk p c)
    (ρ : Assign) :
    (buildBackend p).holds ρ = true ↔ MeaningAll p (variablesPerSample p.layout + 1) p.constraints ρ := by
  unfold buildBackend
  refine (foldl_applyConstraint_meaning p hwf ρ _ hok _ (Nat.succ_pos _)).trans ?_
  have h0 : ({ fresh := variablesPerSample p.layout + 1, cnfs := [], reqs := [] } : Backend).holds ρ = true := by
    rw [holds_def]; simp
  simp only [h0, true_and]

end SPModel.Pipeline
