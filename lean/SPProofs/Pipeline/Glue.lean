/-
  Helper lemmas for `SPProofs.Properties.C03` (the clause list compiled from a backend
  vs. the backend's meaning).  Statements of the property theorems live in
  `SPProofs/Properties/C03.lean`; this file is for the lemmas they need.
-/
import SPModel.PipelineSem
import SPProofs.Properties.C10
import SPProofs.Properties.C11

namespace SPModel.Pipeline
open SPModel Layout

/-- the clause list `server.build_cnf` produces from a backend request -/
def compiled (b : Backend) : Except PyErr Cnf :=
  combineCnfWithRequests (cnfsJson b) (b.fresh - 1) b.reqs

/-! ### Congruence on the occurring variables -/

theorem all_congr_mem {α} (l : List α) (p q : α → Bool) (h : ∀ a ∈ l, p a = q a) :
    l.all p = l.all q := by
  induction l with
  | nil => rfl
  | cons a as ih =>
    simp only [List.all_cons, h a (by simp), ih (fun b hb => h b (by simp [hb]))]

theorem any_congr_mem {α} (l : List α) (p q : α → Bool) (h : ∀ a ∈ l, p a = q a) :
    l.any p = l.any q := by
  induction l with
  | nil => rfl
  | cons a as ih =>
    simp only [List.any_cons, h a (by simp), ih (fun b hb => h b (by simp [hb]))]

theorem litVal_congr_on {σ τ : Assign} {l : Int} (h : σ l.natAbs = τ l.natAbs) :
    litVal σ l = litVal τ l := by
  simp only [litVal, h]

theorem cnfSat_congr_on {σ τ : Assign} {φ : Cnf}
    (h : ∀ c ∈ φ, ∀ l ∈ c, σ l.natAbs = τ l.natAbs) : cnfSat σ φ = cnfSat τ φ := by
  unfold cnfSat
  apply all_congr_mem
  intro c hc
  unfold clauseSat
  apply any_congr_mem
  intro l hl
  exact litVal_congr_on (h c hc l hl)

theorem holds_congr_on {σ τ : Assign} (r : Request)
    (h : ∀ x ∈ r.vars, σ x.natAbs = τ x.natAbs) : r.holds σ = r.holds τ := by
  have : r.vars.filter (litVal σ) = r.vars.filter (litVal τ) :=
    List.filter_congr (fun x hx => litVal_congr_on (h x hx))
  simp only [Request.holds, this]

theorem litVal_natCast (τ : Assign) (v : Nat) (hv : 1 ≤ v) : litVal τ (v : Int) = τ v := by
  simp [litVal]
  omega

/-! ### `flits` vs. `Formula.WF` / `Formula.vars` -/

theorem flits_spec (n : Nat) : ∀ f : Formula,
    ((∀ l ∈ flits f, l ≠ 0 ∧ l.natAbs < n) → f.WF n) ∧
      (∀ v ∈ f.vars, ∃ l ∈ flits f, l.natAbs = v) := by
  apply Formula.rec
    (motive_1 := fun f => ((∀ l ∈ flits f, l ≠ 0 ∧ l.natAbs < n) → f.WF n) ∧
      (∀ v ∈ f.vars, ∃ l ∈ flits f, l.natAbs = v))
    (motive_2 := fun fs => ((∀ l ∈ flitsList fs, l ≠ 0 ∧ l.natAbs < n) → Formula.WFs n fs) ∧
      (∀ v ∈ Formula.varsList fs, ∃ l ∈ flitsList fs, l.natAbs = v))
  · intro i
    simp [flits, Formula.WF, Formula.vars]
  · intro l ih
    simpa only [flits, Formula.WF, Formula.vars] using ih
  · intro l ih
    simpa only [flits, Formula.WF, Formula.vars] using ih
  · intro f ih
    simpa only [flits, Formula.WF, Formula.vars] using ih
  · intro p q ihp ihq
    simp only [flits, Formula.WF, Formula.vars, List.mem_append]
    refine ⟨fun h => ⟨ihp.1 (fun l hl => h l (Or.inl hl)), ihq.1 (fun l hl => h l (Or.inr hl))⟩, ?_⟩
    rintro v (hv | hv)
    · obtain ⟨l, hl, e⟩ := ihp.2 v hv; exact ⟨l, Or.inl hl, e⟩
    · obtain ⟨l, hl, e⟩ := ihq.2 v hv; exact ⟨l, Or.inr hl, e⟩
  · intro p q ihp ihq
    simp only [flits, Formula.WF, Formula.vars, List.mem_append]
    refine ⟨fun h => ⟨ihp.1 (fun l hl => h l (Or.inl hl)), ihq.1 (fun l hl => h l (Or.inr hl))⟩, ?_⟩
    rintro v (hv | hv)
    · obtain ⟨l, hl, e⟩ := ihp.2 v hv; exact ⟨l, Or.inl hl, e⟩
    · obtain ⟨l, hl, e⟩ := ihq.2 v hv; exact ⟨l, Or.inr hl, e⟩
  · simp [flitsList, Formula.WFs, Formula.varsList]
  · intro p q ihp ihq
    simp only [flitsList, Formula.WFs, Formula.varsList, List.mem_append]
    refine ⟨fun h => ⟨ihp.1 (fun l hl => h l (Or.inl hl)), ihq.1 (fun l hl => h l (Or.inr hl))⟩, ?_⟩
    rintro v (hv | hv)
    · obtain ⟨l, hl, e⟩ := ihp.2 v hv; exact ⟨l, Or.inl hl, e⟩
    · obtain ⟨l, hl, e⟩ := ihq.2 v hv; exact ⟨l, Or.inr hl, e⟩

theorem litOk_iff (rs : List (Nat × Nat)) (bound : Nat) (l : Int) :
    litOk rs bound l = true ↔ l ≠ 0 ∧ l.natAbs < bound ∧ inRanges rs l.natAbs = false := by
  simp [litOk, and_assoc]

/-- what `itemOk` gives for a Tseitin item -/
theorem tseitin_item {rs : List (Nat × Nat)} {f : Formula} {fr : Nat} (hfr : 0 < fr)
    (h : (flits f).all (litOk rs fr) = true) :
    f.WF fr ∧ fr ≤ (toCnfTseitin f fr).next ∧
      ∀ c ∈ (toCnfTseitin f fr).cnf, ∀ l ∈ c,
        l ≠ 0 ∧ l.natAbs < (toCnfTseitin f fr).next ∧
          (l.natAbs < fr → inRanges rs l.natAbs = false) := by
  rw [List.all_eq_true] at h
  have hwf : f.WF fr := (flits_spec fr f).1 (fun l hl =>
    ⟨((litOk_iff _ _ _).1 (h l hl)).1, ((litOk_iff _ _ _).1 (h l hl)).2.1⟩)
  obtain ⟨h1, h2⟩ := C11.tseitin_range f fr hfr hwf
  refine ⟨hwf, h1, fun c hc l hl => ?_⟩
  obtain ⟨a, b, c'⟩ := h2 c hc l hl
  refine ⟨a, b, fun hlt => ?_⟩
  obtain ⟨x, hx, e⟩ := (flits_spec fr f).2 _ (c' hlt)
  rw [← e]
  exact ((litOk_iff _ _ _).1 (h x hx)).2.2

/-! ### Auxiliary ranges and the chain of conversions -/

theorem inRanges_cons (r : Nat × Nat) (rs : List (Nat × Nat)) (v : Nat) :
    inRanges (r :: rs) v = ((decide (r.1 ≤ v) && decide (v < r.2)) || inRanges rs v) := by
  simp [inRanges]

theorem auxRanges_tseitin (f : Formula) (fr : Nat) (rest : List CnfItem) :
    auxRanges (.tseitin f fr :: rest) = (fr, (toCnfTseitin f fr).next) :: auxRanges rest := by
  simp [auxRanges]

theorem auxRanges_raw (ls : List Int) (rest : List CnfItem) :
    auxRanges (.raw ls :: rest) = auxRanges rest := by
  simp [auxRanges]

theorem inRanges_aux_iff (items : List CnfItem) (v : Nat) :
    inRanges (auxRanges items) v = true ↔
      ∃ f fr, CnfItem.tseitin f fr ∈ items ∧ fr ≤ v ∧ v < (toCnfTseitin f fr).next := by
  induction items with
  | nil => simp [auxRanges, inRanges]
  | cons it rest ih =>
    cases it with
    | raw ls =>
      rw [auxRanges_raw, ih]
      simp
    | tseitin g gr =>
      rw [auxRanges_tseitin, inRanges_cons, Bool.or_eq_true, ih]
      simp only [Bool.and_eq_true, decide_eq_true_eq, List.mem_cons]
      constructor
      · rintro (h | ⟨f, fr, hm, h⟩)
        · exact ⟨g, gr, Or.inl rfl, h⟩
        · exact ⟨f, fr, Or.inr hm, h⟩
      · rintro ⟨f, fr, hm | hm, h⟩
        · cases hm; exact Or.inl h
        · exact Or.inr ⟨f, fr, hm, h⟩

/-- Along a chain every conversion starts at or after `cur`, ends at or before `final`. -/
theorem chain_bounds (rs : List (Nat × Nat)) : ∀ (items : List CnfItem) (cur final : Nat),
    chainOk cur items final = true → 0 < cur →
    (∀ f fr, CnfItem.tseitin f fr ∈ items → (flits f).all (litOk rs fr) = true) →
    cur ≤ final ∧ ∀ f fr, CnfItem.tseitin f fr ∈ items →
      cur ≤ fr ∧ (toCnfTseitin f fr).next ≤ final
  | [], cur, final, h, _, _ => by
    simp only [chainOk, decide_eq_true_eq] at h
    exact ⟨h, by simp⟩
  | .raw ls :: rest, cur, final, h, hc, hok => by
    simp only [chainOk] at h
    obtain ⟨h1, h2⟩ := chain_bounds rs rest cur final h hc
      (fun f fr hm => hok f fr (List.mem_cons_of_mem _ hm))
    refine ⟨h1, fun f fr hm => ?_⟩
    rcases List.mem_cons.1 hm with hm | hm
    · cases hm
    · exact h2 f fr hm
  | .tseitin g gr :: rest, cur, final, h, hc, hok => by
    simp only [chainOk, Bool.and_eq_true, decide_eq_true_eq] at h
    obtain ⟨hcg, h⟩ := h
    obtain ⟨_, hle, _⟩ := tseitin_item (Nat.lt_of_lt_of_le hc hcg) (hok g gr (by simp))
    obtain ⟨h1, h2⟩ := chain_bounds rs rest _ final h (by omega)
      (fun f fr hm => hok f fr (List.mem_cons_of_mem _ hm))
    refine ⟨by omega, fun f fr hm => ?_⟩
    rcases List.mem_cons.1 hm with hm | hm
    · cases hm; exact ⟨hcg, h1⟩
    · have := h2 f fr hm
      exact ⟨by omega, this.2⟩

/-- Every assignment can be changed on the auxiliary ranges only so that the Tseitin clauses of every
    formula it satisfies hold. -/
theorem build_ext (rs : List (Nat × Nat)) (ρ : Assign) : ∀ (items : List CnfItem) (cur final : Nat),
    chainOk cur items final = true → 0 < cur →
    (∀ f fr, CnfItem.tseitin f fr ∈ items → (flits f).all (litOk rs fr) = true) →
    (∀ v, inRanges (auxRanges items) v = true → inRanges rs v = true) →
    ∃ τ : Assign, (∀ v, v < cur → τ v = ρ v) ∧
      (∀ v, inRanges (auxRanges items) v = false → τ v = ρ v) ∧
      ∀ f fr, CnfItem.tseitin f fr ∈ items → f.eval ρ = true →
        cnfSat τ (toCnfTseitin f fr).cnf = true
  | [], cur, final, _, _, _, _ => ⟨ρ, fun _ _ => rfl, fun _ _ => rfl, by simp⟩
  | .raw ls :: rest, cur, final, h, hc, hok, hrs => by
    simp only [chainOk] at h
    obtain ⟨τ, h1, h2, h3⟩ := build_ext rs ρ rest cur final h hc
      (fun f fr hm => hok f fr (List.mem_cons_of_mem _ hm))
      (fun v hv => hrs v (by rw [auxRanges_raw]; exact hv))
    refine ⟨τ, h1, fun v hv => h2 v (by rw [auxRanges_raw] at hv; exact hv), fun f fr hm => ?_⟩
    rcases List.mem_cons.1 hm with hm | hm
    · cases hm
    · exact h3 f fr hm
  | .tseitin g gr :: rest, cur, final, h, hc, hok, hrs => by
    simp only [chainOk, Bool.and_eq_true, decide_eq_true_eq] at h
    obtain ⟨hcg, h⟩ := h
    have hgr : 0 < gr := Nat.lt_of_lt_of_le hc hcg
    obtain ⟨hwf, hle, hlits⟩ := tseitin_item hgr (hok g gr (by simp))
    have hokr : ∀ f fr, CnfItem.tseitin f fr ∈ rest → (flits f).all (litOk rs fr) = true :=
      fun f fr hm => hok f fr (List.mem_cons_of_mem _ hm)
    obtain ⟨τ', h1, h2, h3⟩ := build_ext rs ρ rest _ final h (by omega) hokr
      (fun v hv => hrs v (by rw [auxRanges_tseitin, inRanges_cons, hv]; simp))
    obtain ⟨_, hb⟩ := chain_bounds rs rest _ final h (by omega) hokr
    -- the head range is one of `rs`
    have hhead : ∀ v, gr ≤ v → v < (toCnfTseitin g gr).next → inRanges rs v = true := by
      intro v hv1 hv2
      apply hrs
      rw [auxRanges_tseitin, inRanges_cons]
      simp [hv1, hv2]
    -- the patched assignment
    have hex : ∃ τ1 : Assign, (∀ v, 1 ≤ v → v < gr → τ1 v = ρ v) ∧
        (g.eval ρ = true → cnfSat τ1 (toCnfTseitin g gr).cnf = true) := by
      by_cases hg : g.eval ρ = true
      · obtain ⟨τ1, ha, hs⟩ := (C11.tseitin_models g gr hgr hwf ρ).1 hg
        exact ⟨τ1, fun v hv1 hv2 => (ha v hv1 hv2).symm, fun _ => hs⟩
      · exact ⟨ρ, fun _ _ _ => rfl, fun h => absurd h hg⟩
    obtain ⟨τ1, ha, hs⟩ := hex
    refine ⟨fun v => if gr ≤ v ∧ v < (toCnfTseitin g gr).next then τ1 v else τ' v, ?_, ?_, ?_⟩
    · intro v hv
      have : ¬ (gr ≤ v ∧ v < (toCnfTseitin g gr).next) := by omega
      simp only [this, if_false]
      exact h1 v (by omega)
    · intro v hv
      rw [auxRanges_tseitin, inRanges_cons, Bool.or_eq_false_iff] at hv
      have : ¬ (gr ≤ v ∧ v < (toCnfTseitin g gr).next) := by
        intro hh
        have := hv.1
        simp [hh.1, hh.2] at this
      simp only [this, if_false]
      exact h2 v hv.2
    · intro f fr hm hf
      rcases List.mem_cons.1 hm with hm | hm
      · cases hm
        rw [← hs hf]
        apply cnfSat_congr_on
        intro c hc l hl
        obtain ⟨hl0, hl1, _⟩ := hlits c hc l hl
        by_cases hin : gr ≤ l.natAbs ∧ l.natAbs < (toCnfTseitin g gr).next
        · simp only [hin, and_self, if_true]
        · simp only [hin, if_false]
          have hlt : l.natAbs < gr := by omega
          rw [h1 _ (by omega), ha _ (by omega) hlt]
      · rw [← h3 f fr hm hf]
        apply cnfSat_congr_on
        intro c hc l hl
        have hfr := (hb f fr hm).1
        obtain ⟨_, _, hl2⟩ := (tseitin_item (by omega) (hokr f fr hm)).2.2 c hc l hl
        have : ¬ (gr ≤ l.natAbs ∧ l.natAbs < (toCnfTseitin g gr).next) := by
          intro hh
          by_cases hlt : l.natAbs < fr
          · have := hhead _ hh.1 hh.2
            rw [hl2 hlt] at this
            cases this
          · omega
        simp only [this, if_false]

/-! ### The clause list of a backend -/

/-- the clauses one entry of `backend_request.cnfs` contributes -/
def itemCnf : CnfItem → Cnf
  | .tseitin f fresh => (toCnfTseitin f fresh).cnf
  | .raw lits => lits.map (fun l => [l])

theorem cnfsJson_eq (b : Backend) : cnfsJson b = b.cnfs.flatMap itemCnf := by
  unfold cnfsJson
  congr

theorem cnfSat_cnfsJson (τ : Assign) (b : Backend) :
    cnfSat τ (cnfsJson b) = true ↔ ∀ it ∈ b.cnfs, cnfSat τ (itemCnf it) = true := by
  rw [cnfsJson_eq]
  simp [cnfSat, List.all_flatMap]

theorem cnfSat_raw (τ : Assign) (ls : List Int) :
    cnfSat τ (ls.map (fun l => [l])) = ls.all (litVal τ) := by
  induction ls with
  | nil => rfl
  | cons a as ih =>
    simp only [cnfSat] at ih
    simp [cnfSat, clauseSat, ih]

theorem holds_iff (b : Backend) (σ : Assign) :
    b.holds σ = true ↔ (∀ it ∈ b.cnfs, it.holds σ = true) ∧ ∀ r ∈ b.reqs, r.holds σ = true := by
  simp [Backend.holds, List.all_eq_true]

/-- `Backend.wf`, unpacked -/
structure WF (b : Backend) (vps : Nat) : Prop where
  chain : chainOk (vps + 1) b.cnfs b.fresh = true
  tseitin : ∀ f fr, CnfItem.tseitin f fr ∈ b.cnfs →
    (flits f).all (litOk (auxRanges b.cnfs) fr) = true
  raw : ∀ ls, CnfItem.raw ls ∈ b.cnfs → ∀ l ∈ ls, litOk (auxRanges b.cnfs) b.fresh l = true
  reqs : ∀ r ∈ b.reqs, r.vars ≠ [] ∧ ∀ x ∈ r.vars, litOk (auxRanges b.cnfs) b.fresh x = true

theorem wf_unpack {b : Backend} {vps : Nat} (h : b.wf vps = true) : WF b vps := by
  simp only [Backend.wf, Bool.and_eq_true, List.all_eq_true] at h
  obtain ⟨⟨h1, h2⟩, h3⟩ := h
  refine ⟨h1, fun f fr hm => ?_, fun ls hm l hl => ?_, fun r hr => ?_⟩
  · have := h2 _ hm
    simpa only [itemOk] using this
  · have := h2 _ hm
    simp only [itemOk, List.all_eq_true] at this
    exact this l hl
  · have := h3 r hr
    simp only [Bool.not_eq_true', List.isEmpty_eq_false_iff] at this
    exact this

namespace WF
variable {b : Backend} {vps : Nat}

theorem bounds (h : WF b vps) : vps + 1 ≤ b.fresh ∧ ∀ f fr, CnfItem.tseitin f fr ∈ b.cnfs →
    vps + 1 ≤ fr ∧ (toCnfTseitin f fr).next ≤ b.fresh :=
  chain_bounds _ b.cnfs (vps + 1) b.fresh h.chain (by omega) h.tseitin

theorem item (h : WF b vps) {f : Formula} {fr : Nat} (hm : CnfItem.tseitin f fr ∈ b.cnfs) :
    0 < fr ∧ f.WF fr ∧ fr ≤ (toCnfTseitin f fr).next ∧
      ∀ c ∈ (toCnfTseitin f fr).cnf, ∀ l ∈ c,
        l ≠ 0 ∧ l.natAbs < (toCnfTseitin f fr).next ∧
          (l.natAbs < fr → inRanges (auxRanges b.cnfs) l.natAbs = false) := by
  have hfr : 0 < fr := by have := (h.bounds.2 f fr hm).1; omega
  exact ⟨hfr, tseitin_item hfr (h.tseitin f fr hm)⟩

theorem litOK_of_litOk (_h : WF b vps) {l : Int} (hl : litOk (auxRanges b.cnfs) b.fresh l = true) :
    LitOK (b.fresh - 1) l := by
  obtain ⟨h0, h1, _⟩ := (litOk_iff _ _ _).1 hl
  exact ⟨h0, by omega⟩

theorem init (h : WF b vps) : ∀ c ∈ cnfsJson b, ∀ l ∈ c, LitOK (b.fresh - 1) l := by
  intro c hc l hl
  rw [cnfsJson_eq, List.mem_flatMap] at hc
  obtain ⟨it, hit, hc⟩ := hc
  cases it with
  | tseitin f fr =>
    obtain ⟨h0, h1, _⟩ := (h.item hit).2.2.2 c hc l hl
    have := (h.bounds.2 f fr hit).2
    exact ⟨h0, by omega⟩
  | raw ls =>
    simp only [itemCnf, List.mem_map] at hc
    obtain ⟨x, hx, rfl⟩ := hc
    rw [List.mem_singleton] at hl
    subst hl
    exact h.litOK_of_litOk (h.raw ls hit l hx)

theorem reqsOK (h : WF b vps) : ∀ r ∈ b.reqs, r.vars ≠ [] ∧ ∀ x ∈ r.vars, LitOK (b.fresh - 1) x :=
  fun r hr => ⟨(h.reqs r hr).1, fun x hx => h.litOK_of_litOk ((h.reqs r hr).2 x hx)⟩

/-- `combine_models` for the backend's clause list -/
theorem spec (h : WF b vps) : ∃ φ, compiled b = .ok φ ∧
    (∀ σ : Assign, (∃ τ, Agree (b.fresh - 1) σ τ ∧ cnfSat τ φ = true) ↔
        (cnfSat σ (cnfsJson b) = true ∧ ∀ r ∈ b.reqs, r.holds σ = true)) ∧
    (∀ τ₁ τ₂ : Assign, cnfSat τ₁ φ = true → cnfSat τ₂ φ = true → Agree (b.fresh - 1) τ₁ τ₂ →
        ∀ v, 1 ≤ v → (∃ c ∈ φ, ∃ l ∈ c, l.natAbs = v) → τ₁ v = τ₂ v) :=
  C10.combine_models (b.fresh - 1) (cnfsJson b) b.reqs h.init h.reqsOK

/-- a model of the clause list satisfies the base clauses and the requests -/
theorem sat_base (h : WF b vps) {φ : Cnf} (hφ : compiled b = .ok φ) {τ : Assign}
    (hτ : cnfSat τ φ = true) : cnfSat τ (cnfsJson b) = true ∧ ∀ r ∈ b.reqs, r.holds τ = true := by
  obtain ⟨φ', e, hm, _⟩ := h.spec
  rw [hφ] at e
  cases e
  exact (hm τ).1 ⟨τ, fun _ _ _ => rfl, hτ⟩

/-- the clauses of an item imply its meaning -/
theorem item_holds_of_sat (h : WF b vps) {τ : Assign} (hτ : cnfSat τ (cnfsJson b) = true) :
    ∀ it ∈ b.cnfs, it.holds τ = true := by
  intro it hit
  have hs := (cnfSat_cnfsJson τ b).1 hτ it hit
  cases it with
  | tseitin f fr =>
    obtain ⟨hfr, hwf, _⟩ := h.item hit
    exact (C11.tseitin_models f fr hfr hwf τ).2 ⟨τ, fun _ _ _ => rfl, hs⟩
  | raw ls =>
    simp only [itemCnf, cnfSat_raw] at hs
    exact hs

theorem aux_gt (h : WF b vps) {v : Nat} (hv : isAux b.cnfs v = true) : vps < v ∧ v < b.fresh := by
  obtain ⟨f, fr, hm, h1, h2⟩ := (inRanges_aux_iff _ _).1 hv
  have := h.bounds.2 f fr hm
  omega

/-- an assignment under which the backend holds can be changed on the auxiliary variables so that the
    base clauses hold -/
theorem sat_ext (h : WF b vps) {ρ : Assign} (hρ : b.holds ρ = true) :
    ∃ τ₀ : Assign, (∀ v, isAux b.cnfs v = false → τ₀ v = ρ v) ∧
      cnfSat τ₀ (cnfsJson b) = true ∧ ∀ r ∈ b.reqs, r.holds τ₀ = true := by
  obtain ⟨hit, hrq⟩ := (holds_iff b ρ).1 hρ
  obtain ⟨τ₀, _, h2, h3⟩ := build_ext (auxRanges b.cnfs) ρ b.cnfs (vps + 1) b.fresh h.chain
    (by omega) h.tseitin (fun _ hv => hv)
  refine ⟨τ₀, h2, ?_, ?_⟩
  · rw [cnfSat_cnfsJson]
    intro it hm
    cases it with
    | tseitin f fr => exact h3 f fr hm (hit _ hm)
    | raw ls =>
      simp only [itemCnf, cnfSat_raw]
      have := hit _ hm
      simp only [CnfItem.holds] at this
      rw [← this]
      apply all_congr_mem
      intro l hl
      exact litVal_congr_on (h2 _ ((litOk_iff _ _ _).1 (h.raw ls hm l hl)).2.2)
  · intro r hr
    rw [← hrq r hr]
    apply holds_congr_on
    intro x hx
    exact h2 _ ((litOk_iff _ _ _).1 ((h.reqs r hr).2 x hx)).2.2

theorem models (h : WF b vps) {φ : Cnf} (hφ : compiled b = .ok φ) (σ : Assign) :
    (∃ τ, Agree vps σ τ ∧ cnfSat τ φ = true) ↔ (∃ ρ, Agree vps σ ρ ∧ b.holds ρ = true) := by
  constructor
  · rintro ⟨τ, ha, hτ⟩
    obtain ⟨hb, hr⟩ := h.sat_base hφ hτ
    exact ⟨τ, ha, (holds_iff b τ).2 ⟨h.item_holds_of_sat hb, hr⟩⟩
  · rintro ⟨ρ, ha, hρ⟩
    obtain ⟨τ₀, h0, hs, hr⟩ := h.sat_ext hρ
    obtain ⟨φ', e, hm, _⟩ := h.spec
    rw [hφ] at e
    cases e
    obtain ⟨τ, hag, hτ⟩ := (hm τ₀).2 ⟨hs, hr⟩
    refine ⟨τ, fun v hv1 hv2 => ?_, hτ⟩
    have hf := h.bounds.1
    rw [ha v hv1 hv2, ← hag v hv1 (by omega)]
    symm
    apply h0
    cases hx : isAux b.cnfs v with
    | false => rfl
    | true => have := (h.aux_gt hx).1; omega

end WF

/-! ### Uniqueness: state variables are defined by the design variables -/

theorem evalAll_lits_congr {vps : Nat} {ρ₁ ρ₂ : Assign} (hag : Agree vps ρ₁ ρ₂) :
    ∀ ls : List Formula, ls.all (fun l => match l with
        | .lit y => decide (y ≠ 0) && decide (y.natAbs ≤ vps)
        | _ => false) = true →
      Formula.evalAll ρ₁ ls = Formula.evalAll ρ₂ ls
  | [], _ => rfl
  | l :: ls, h => by
    rw [List.all_cons, Bool.and_eq_true] at h
    have ih := evalAll_lits_congr hag ls h.2
    cases l with
    | lit y =>
      have hy := h.1
      simp only [Bool.and_eq_true, decide_eq_true_eq] at hy
      simp only [Formula.evalAll, Formula.eval, ih]
      rw [litVal_congr_on (hag _ (by omega) hy.2)]
    | _ => exact absurd h.1 (by simp)

/-- a variable with a definition has the same value under any two assignments that satisfy every item
    and agree on the design variables -/
theorem def_unique {cnfs : List CnfItem} {vps v : Nat} (hd : hasDef cnfs vps v = true) (hv : 1 ≤ v)
    {ρ₁ ρ₂ : Assign} (h₁ : ∀ it ∈ cnfs, it.holds ρ₁ = true) (h₂ : ∀ it ∈ cnfs, it.holds ρ₂ = true)
    (hag : Agree vps ρ₁ ρ₂) : ρ₁ v = ρ₂ v := by
  simp only [hasDef, List.any_eq_true] at hd
  obtain ⟨it, hit, hd⟩ := hd
  have e₁ := h₁ it hit
  have e₂ := h₂ it hit
  cases it with
  | raw ls => cases hd
  | tseitin f fr =>
    cases f with
    | and fs =>
      simp only [List.any_eq_true] at hd
      obtain ⟨g, hg, hd⟩ := hd
      simp only [CnfItem.holds, Formula.eval, evalAll_eq_all, List.all_eq_true] at e₁ e₂
      have g₁ := e₁ g hg
      have g₂ := e₂ g hg
      cases g with
      | iff p q =>
        cases p with
        | lit x =>
          cases q with
          | and ls =>
            simp only [definesVar, Bool.and_eq_true, decide_eq_true_eq] at hd
            obtain ⟨rfl, hls⟩ := hd
            simp only [Formula.eval, litVal_natCast _ v hv, beq_iff_eq] at g₁ g₂
            rw [g₁, g₂]
            exact evalAll_lits_congr hag ls hls
          | _ => cases hd
        | _ => cases hd
      | _ => cases hd
    | _ => cases hd

namespace WF
variable {b : Backend} {vps : Nat}

/-- two assignments that satisfy the base clauses and agree on the design variables agree below `b.fresh` -/
theorem agree_all (h : WF b vps) (hd : b.statesDefined vps = true) {τ₁ τ₂ : Assign}
    (h₁ : cnfSat τ₁ (cnfsJson b) = true) (h₂ : cnfSat τ₂ (cnfsJson b) = true)
    (hag : Agree vps τ₁ τ₂) : ∀ n v, v < n → 1 ≤ v → v < b.fresh → τ₁ v = τ₂ v := by
  simp only [Backend.statesDefined, List.all_eq_true, List.mem_range, Bool.or_eq_true,
    decide_eq_true_eq] at hd
  intro n
  induction n with
  | zero => intro v hv; omega
  | succ n ih =>
    intro v hvn hv1 hvf
    rcases hd v hvf with (hle | haux) | hdef
    · exact hag v hv1 hle
    · obtain ⟨f, fr, hm, hfr, hnx⟩ := (inRanges_aux_iff _ _).1 haux
      obtain ⟨hfr0, hwf, _, _⟩ := h.item hm
      have hb := (h.bounds.2 f fr hm).2
      have s₁ := (cnfSat_cnfsJson τ₁ b).1 h₁ _ hm
      have s₂ := (cnfSat_cnfsJson τ₂ b).1 h₂ _ hm
      exact C11.tseitin_unique f fr hfr0 hwf τ₁ τ₂ s₁ s₂
        (fun w hw1 hw2 => ih w (by omega) hw1 (by omega)) v hv1 hnx
    · exact def_unique hdef hv1 (h.item_holds_of_sat h₁) (h.item_holds_of_sat h₂) hag

theorem unique (h : WF b vps) (hd : b.statesDefined vps = true) {φ : Cnf} (hφ : compiled b = .ok φ)
    {τ₁ τ₂ : Assign} (h₁ : cnfSat τ₁ φ = true) (h₂ : cnfSat τ₂ φ = true) (hag : Agree vps τ₁ τ₂) :
    ∀ v, 1 ≤ v → (∃ c ∈ φ, ∃ l ∈ c, l.natAbs = v) → τ₁ v = τ₂ v := by
  have b₁ := (h.sat_base hφ h₁).1
  have b₂ := (h.sat_base hφ h₂).1
  obtain ⟨φ', e, _, hu⟩ := h.spec
  rw [hφ] at e
  cases e
  have hf := h.bounds.1
  exact hu τ₁ τ₂ h₁ h₂
    (fun v hv1 hv2 => h.agree_all hd b₁ b₂ hag (v + 1) v (by omega) hv1 (by omega))

end WF

theorem holds_unique' {b : Backend} {vps : Nat} (hd : b.statesDefined vps = true)
    {ρ₁ ρ₂ : Assign} (h₁ : b.holds ρ₁ = true) (h₂ : b.holds ρ₂ = true) (hag : Agree vps ρ₁ ρ₂) :
    ∀ v, 1 ≤ v → v < b.fresh → isAux b.cnfs v = false → ρ₁ v = ρ₂ v := by
  simp only [Backend.statesDefined, List.all_eq_true, List.mem_range, Bool.or_eq_true,
    decide_eq_true_eq] at hd
  intro v hv1 hvf haux
  rcases hd v hvf with (hle | hx) | hdef
  · exact hag v hv1 hle
  · rw [isAux] at haux
    rw [haux] at hx
    cases hx
  · exact def_unique hdef hv1 ((holds_iff b ρ₁).1 h₁).1 ((holds_iff b ρ₂).1 h₂).1 hag

end SPModel.Pipeline
