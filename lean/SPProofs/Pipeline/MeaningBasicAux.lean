/-
  Helper lemmas for `SPProofs.Pipeline.MeaningBasic`: evaluation of the formula shapes the
  constraints build, arithmetic of the stepping loops, and the closed form of the two folds of
  `Pipeline.applyConsistency`.
-/
import SPProofs.Pipeline.Sel

namespace SPModel.Pipeline.MB
open SPModel Layout SPModel.Pipeline

/-! ### formula evaluation -/

theorem evalAll_eq_all (τ : Assign) (l : List Formula) : Formula.evalAll τ l = l.all (Formula.eval τ) := by
  induction l with
  | nil => simp [Formula.evalAll]
  | cons f fs ih => simp [Formula.evalAll, ih]

theorem evalAny_eq_any (τ : Assign) (l : List Formula) : Formula.evalAny τ l = l.any (Formula.eval τ) := by
  induction l with
  | nil => simp [Formula.evalAny]
  | cons f fs ih => simp [Formula.evalAny, ih]

theorem eval_and (τ : Assign) (l : List Formula) : Formula.eval τ (.and l) = l.all (Formula.eval τ) := by
  rw [Formula.eval, evalAll_eq_all]

theorem eval_or (τ : Assign) (l : List Formula) : Formula.eval τ (.or l) = l.any (Formula.eval τ) := by
  rw [Formula.eval, evalAny_eq_any]

theorem eval_and_true (τ : Assign) (l : List Formula) :
    Formula.eval τ (.and l) = true ↔ ∀ g ∈ l, Formula.eval τ g = true := by
  rw [eval_and, List.all_eq_true]

theorem eval_lit (τ : Assign) (x : Int) : Formula.eval τ (lit x) = litVal τ x := by
  rw [lit, Formula.eval]

theorem eval_iff (τ : Assign) (a b : Formula) :
    Formula.eval τ (.iff a b) = true ↔ Formula.eval τ a = Formula.eval τ b := by
  rw [Formula.eval]; simp

theorem eval_not (τ : Assign) (a : Formula) : Formula.eval τ (.not a) = !Formula.eval τ a := by
  rw [Formula.eval]

theorem litVal_succ (ρ : Assign) (n : Nat) : litVal ρ ((n + 1 : Nat) : Int) = ρ (n + 1) := by
  unfold litVal
  have h : (0 : Int) < ((n + 1 : Nat) : Int) := by omega
  rw [if_pos h, Int.natAbs_natCast]

theorem lt_ceil_div (m s j : Nat) (hs : 0 < s) : j < (m + s - 1) / s ↔ j * s < m := by
  rw [Nat.lt_iff_add_one_le, Nat.le_div_iff_mul_le hs, Nat.succ_mul]
  omega

theorem eval_pick (p : PInput) (ρ : Assign) (i l t u : Nat) (f : LFactor) (hf : p.layout.factors[i]? = some f) :
    Formula.eval ρ (if l = u then lit (enc p i l t) else Formula.not (lit (enc p i l t))) = true ↔
      sel p ρ i l t = decide (l = u) := by
  have h := (litVal_enc p ρ i l t f hf).1
  by_cases hlu : l = u
  · simp only [hlu, if_true, eval_lit, decide_true]
    rw [← hlu, h, sel]
  · simp only [hlu, if_false, eval_not, eval_lit, decide_false, h, sel]
    simp

theorem litVal_getD_enc (p : PInput) (ρ : Assign) (i l : Nat) (f : LFactor) (hf : p.layout.factors[i]? = some f)
    (L : List Nat) (j : Nat) (hj : j < L.length) :
    litVal ρ ((L.map (fun t => enc p i l (t + 1))).getD j 0) = (L.map (fun t => sel p ρ i l (t + 1))).getD j false := by
  simp only [List.getD_eq_getElem?_getD, List.getElem?_map, List.getElem?_eq_getElem hj, Option.map_some,
    Option.getD_some, (litVal_enc p ρ i l _ f hf).1, sel]

theorem sustain_factor (p : PInput) (hwf : C14.WF p.layout) (ρ : Assign) (i l : Nat) (f : LFactor)
    (hf : p.layout.factors[i]? = some f) :
    (∀ vars ∈ variableLists p i l none, ∀ j, j < vars.length →
        Formula.eval ρ (Formula.iff (lit (vars.getD j 0)) (lit (vars.getD ((j / f.sustain) * f.sustain) 0))) = true) ↔
      ∀ j, j < (applicable f 0 (trials p)).length →
        (selIn p ρ i l f 0 (trials p)).getD j false =
          (selIn p ρ i l f 0 (trials p)).getD ((j / f.sustain) * f.sustain) false := by
  rw [variableLists_eq p hwf i l f hf none (by intro len pre h; cases h)]
  by_cases hn : trials p = 0
  · rw [ranges_none_zero p hn, hn]
    simp [applicable]
  · rw [ranges_none p (by omega)]
    simp only [List.map_cons, List.map_nil, List.mem_singleton, forall_eq, List.length_map, eval_iff, eval_lit,
      selIn]
    constructor
    · intro h j hj
      have := h j hj
      rwa [litVal_getD_enc p ρ i l f hf _ j hj,
        litVal_getD_enc p ρ i l f hf _ _ (Nat.lt_of_le_of_lt (Nat.div_mul_le_self _ _) hj)] at this
    · intro h j hj
      rw [litVal_getD_enc p ρ i l f hf _ j hj,
        litVal_getD_enc p ρ i l f hf _ _ (Nat.lt_of_le_of_lt (Nat.div_mul_le_self _ _) hj)]
      exact h j hj

/-! ### closed form of the folds of `applyConsistency` -/

/-- the requests one pass over the factors selected by `q` produces, starting at counter `a` -/
def rowReqs (q : LFactor → Bool) (g : LFactor → Nat) (mk : Nat → LFactor → List Request) (a : Nat) :
    List LFactor → List Request
  | [] => []
  | f :: fs => if q f then mk a f ++ rowReqs q g mk (a + g f) fs else rowReqs q g mk a fs

theorem foldl_rowReqs (q : LFactor → Bool) (g : LFactor → Nat) (mk : Nat → LFactor → List Request)
    (fs : List LFactor) (a : Nat) (rs : List Request) :
    (fs.filter q).foldl (fun (acc : Nat × List Request) f => (acc.1 + g f, acc.2 ++ mk acc.1 f)) (a, rs) =
      (a + sumIf q g fs, rs ++ rowReqs q g mk a fs) := by
  induction fs generalizing a rs with
  | nil => simp [rowReqs]
  | cons x xs ih =>
    by_cases hq : q x = true
    · simp only [List.filter_cons, hq, if_true, List.foldl_cons, ih, sumIf_cons, rowReqs, List.append_assoc,
        Nat.add_assoc]
    · simp only [List.filter_cons, hq, if_false, ih, sumIf_cons, rowReqs, Nat.zero_add, Bool.false_eq_true]

theorem mem_rowReqs (q : LFactor → Bool) (g : LFactor → Nat) (mk : Nat → LFactor → List Request)
    (fs : List LFactor) (a : Nat) (r : Request) :
    r ∈ rowReqs q g mk a fs ↔ ∃ i f, fs[i]? = some f ∧ q f = true ∧ r ∈ mk (a + sumIf q g (fs.take i)) f := by
  induction fs generalizing a with
  | nil => simp [rowReqs]
  | cons x xs ih =>
    by_cases hq : q x = true
    · simp only [rowReqs, hq, if_true, List.mem_append, ih]
      constructor
      · rintro (h | ⟨i, f, hf, hqf, hr⟩)
        · exact ⟨0, x, by simp, hq, by simpa using h⟩
        · refine ⟨i + 1, f, by simpa using hf, hqf, ?_⟩
          simpa [hq, Nat.add_assoc] using hr
      · rintro ⟨i, f, hf, hqf, hr⟩
        cases i with
        | zero =>
          simp at hf; subst hf
          left; simpa using hr
        | succ i =>
          right
          exact ⟨i, f, by simpa using hf, hqf, by simpa [hq, Nat.add_assoc] using hr⟩
    · simp only [rowReqs, hq, if_false, ih, Bool.false_eq_true]
      constructor
      · rintro ⟨i, f, hf, hqf, hr⟩
        refine ⟨i + 1, f, by simpa using hf, hqf, ?_⟩
        simpa [hq] using hr
      · rintro ⟨i, f, hf, hqf, hr⟩
        cases i with
        | zero =>
          simp at hf; subst hf
          exact absurd hqf hq
        | succ i =>
          exact ⟨i, f, by simpa using hf, hqf, by simpa [hq] using hr⟩

theorem foldl_range_rows (V : Nat) (R : Nat → List Request) (step : Nat × List Request → Nat × List Request)
    (hstep : ∀ a rs, step (a, rs) = (a + V, rs ++ R a)) (n a : Nat) (rs : List Request) :
    (List.range n).foldl (fun acc _ => step acc) (a, rs) =
      (a + n * V, rs ++ (List.range n).flatMap (fun t => R (a + t * V))) := by
  induction n with
  | zero => simp
  | succ n ih =>
    rw [List.range_succ, List.foldl_append, ih, List.foldl_cons, List.foldl_nil, hstep, List.flatMap_append,
      List.flatMap_singleton, List.append_assoc, Nat.succ_mul, Nat.add_assoc]

def gridReq (a : Nat) (f : LFactor) : List Request :=
  [{ rel := .eq, k := 1, vars := (List.range f.nlevels).map (fun j => ((a + j : Nat) : Int)) }]

def chunkReqs (b : LBlock) (a : Nat) (f : LFactor) : List Request :=
  ((List.range (if f.nlevels = 0 then 0 else (variablesForFactor b f + f.nlevels - 1) / f.nlevels)).map (fun c =>
    (((List.range (variablesForFactor b f)).drop (c * f.nlevels)).take f.nlevels).map
      (fun n => ((n + a : Nat) : Int)))).map (fun v => { rel := .eq, k := 1, vars := v })

theorem applyConsistency_eq (p : PInput) (b : Backend) :
    applyConsistency p b = { b with reqs := b.reqs ++
      ((List.range (trials p)).flatMap (fun t =>
          rowReqs (fun f => !f.complex) (·.nlevels) gridReq (1 + t * vpt p) p.layout.factors) ++
        rowReqs (·.complex) (variablesForFactor p.layout) (chunkReqs p.layout) (1 + gridVariables p.layout)
          p.layout.factors) } := by
  have hinner : ∀ a rs, (p.layout.factors.filter (fun f => !f.complex)).foldl (fun (acc : Nat × List Request) f =>
      (acc.1 + f.nlevels, acc.2 ++ [{ rel := .eq, k := 1, vars := (List.range f.nlevels).map (fun j => ((acc.1 + j : Nat) : Int)) }])) (a, rs) =
      (a + vpt p, rs ++ rowReqs (fun f => !f.complex) (·.nlevels) gridReq a p.layout.factors) := by
    intro a rs
    rw [vpt, variablesPerTrial_eq]
    exact foldl_rowReqs (fun f => !f.complex) (·.nlevels) gridReq p.layout.factors a rs
  have hgrid := foldl_range_rows (vpt p) (fun a => rowReqs (fun f => !f.complex) (·.nlevels) gridReq a p.layout.factors)
    (fun acc => (p.layout.factors.filter (fun f => !f.complex)).foldl (fun (acc : Nat × List Request) f =>
      (acc.1 + f.nlevels, acc.2 ++ [{ rel := .eq, k := 1, vars := (List.range f.nlevels).map (fun j => ((acc.1 + j : Nat) : Int)) }])) acc)
    hinner (trials p) 1 []
  have hrest := foldl_rowReqs (·.complex) (variablesForFactor p.layout) (chunkReqs p.layout) p.layout.factors
    (1 + gridVariables p.layout) []
  have hg : 1 + trials p * vpt p = 1 + gridVariables p.layout := rfl
  simp only [applyConsistency]
  rw [hgrid]
  simp only [hg, List.nil_append]
  rw [List.append_assoc]
  congr 3
  exact (congrArg Prod.snd hrest).trans (List.nil_append _)

theorem holds_eq_one (p : PInput) (ρ : Assign) (i t : Nat) (f : LFactor) (hf : p.layout.factors[i]? = some f)
    (vars : List Int) (hv : vars = (List.range f.nlevels).map (fun l => enc p i l t)) :
    Request.holds { rel := .eq, k := 1, vars := vars } ρ = true ↔
      ((List.range f.nlevels).filter (fun l => sel p ρ i l t)).length = 1 := by
  subst hv
  have : (litVal ρ ∘ fun l => enc p i l t) = fun l => sel p ρ i l t := by
    funext l; exact (litVal_enc p ρ i l t f hf).1
  simp only [Request.holds, List.filter_map, List.length_map, beq_iff_eq, this]

theorem grid_vars (p : PInput) (hwf : C14.WF p.layout) (i t : Nat) (f : LFactor)
    (hf : p.layout.factors[i]? = some f) (hc : f.complex = false) :
    (List.range f.nlevels).map (fun j => ((1 + t * vpt p +
        sumIf (fun g => !g.complex) (·.nlevels) (p.layout.factors.take i) + j : Nat) : Int)) =
      (List.range f.nlevels).map (fun l => enc p i l (t + 1)) := by
  apply List.map_congr_left
  intro l _
  rw [enc, encodeVar_simple p.layout i l (t + 1) f hf hc, C14.previousCount_simple hwf hf hc, simpleOffset, vpt,
    Nat.add_sub_cancel, Nat.mul_comm t]
  congr 1
  omega

theorem grid_holds (p : PInput) (hwf : C14.WF p.layout) (ρ : Assign) :
    (∀ r ∈ (List.range (trials p)).flatMap (fun t =>
        rowReqs (fun f => !f.complex) (·.nlevels) gridReq (1 + t * vpt p) p.layout.factors), r.holds ρ = true) ↔
      ∀ i f, p.layout.factors[i]? = some f → f.complex = false → ∀ t, t < trials p →
        ((List.range f.nlevels).filter (fun l => sel p ρ i l (t + 1))).length = 1 := by
  simp only [List.mem_flatMap, List.mem_range, mem_rowReqs, gridReq, List.mem_singleton]
  constructor
  · intro h i f hf hc t ht
    have := h _ ⟨t, ht, i, f, hf, by simp [hc], rfl⟩
    rwa [holds_eq_one p ρ i (t + 1) f hf _ (grid_vars p hwf i t f hf hc)] at this
  · rintro h r ⟨t, ht, i, f, hf, hq, rfl⟩
    have hc : f.complex = false := by simpa using hq
    rw [holds_eq_one p ρ i (t + 1) f hf _ (grid_vars p hwf i t f hf hc)]
    exact h i f hf hc t ht

theorem chunk_eq (nl A c : Nat) (hc : c < A) :
    ((List.range (nl * A)).drop (c * nl)).take nl = (List.range nl).map (fun l => c * nl + l) := by
  have h1 : nl * (c + 1) ≤ nl * A := Nat.mul_le_mul_left nl hc
  rw [Nat.mul_add, Nat.mul_one, Nat.mul_comm nl c] at h1
  apply List.ext_getElem
  · simp only [List.length_take, List.length_drop, List.length_range, List.length_map]
    omega
  · intro j h2 h3
    simp only [List.getElem_take, List.getElem_drop, List.getElem_range, List.getElem_map]

/-- the request of the `c`-th chunk of `nl` consecutive variables after counter `a` -/
def cplxReq (a nl c : Nat) : Request :=
  { rel := .eq, k := 1, vars := (List.range nl).map (fun l => ((c * nl + l + a : Nat) : Int)) }

theorem mem_chunkReqs (b : LBlock) (a : Nat) (f : LFactor) (hn : 0 < f.nlevels) (r : Request) :
    r ∈ chunkReqs b a f ↔ ∃ c, c < appliedCount f b.trials ∧ r = cplxReq a f.nlevels c := by
  unfold cplxReq
  have hn0 : f.nlevels ≠ 0 := by omega
  simp only [chunkReqs, if_neg hn0, List.map_map, List.mem_map, List.mem_range, lt_ceil_div _ _ _ hn,
    variablesForFactor]
  have hlt : ∀ c, c * f.nlevels < f.nlevels * appliedCount f b.trials ↔ c < appliedCount f b.trials := by
    intro c
    rw [Nat.mul_comm c]
    exact Nat.mul_lt_mul_left hn
  constructor
  · rintro ⟨c, hc, rfl⟩
    refine ⟨c, (hlt c).1 hc, ?_⟩
    simp only [Function.comp, chunk_eq _ _ _ ((hlt c).1 hc), List.map_map]
    rfl
  · rintro ⟨c, hc, rfl⟩
    refine ⟨c, (hlt c).2 hc, ?_⟩
    simp only [Function.comp, chunk_eq _ _ _ hc, List.map_map]
    rfl

theorem forall_applicable (f : LFactor) (n : Nat) (P : Nat → Prop) :
    (∀ c, c < appliedCount f n → P c) ↔ ∀ t ∈ applicable f 0 n, P (appliedCount f t) := by
  have h1 := applicable_counts f 0 n
  have h2 := appliedCount_add f 0 n
  simp only [Nat.zero_add, appliedCount_zero] at h1 h2
  have h3 : (applicable f 0 n).map (appliedCount f) = List.range (appliedCount f n) := by
    rw [h1, h2]; simp
  constructor
  · intro h t ht
    apply h
    have : appliedCount f t ∈ (applicable f 0 n).map (appliedCount f) := List.mem_map.2 ⟨t, ht, rfl⟩
    rw [h3] at this
    exact List.mem_range.1 this
  · intro h c hc
    have : c ∈ (applicable f 0 n).map (appliedCount f) := by rw [h3]; exact List.mem_range.2 hc
    obtain ⟨t, ht, rfl⟩ := List.mem_map.1 this
    exact h t ht

theorem cplx_vars (p : PInput) (i t : Nat) (f : LFactor)
    (hf : p.layout.factors[i]? = some f) (hc : f.complex = true) :
    (List.range f.nlevels).map (fun l => ((appliedCount f t * f.nlevels + l + (1 + gridVariables p.layout +
        sumIf (·.complex) (variablesForFactor p.layout) (p.layout.factors.take i)) : Nat) : Int)) =
      (List.range f.nlevels).map (fun l => enc p i l (t + 1)) := by
  apply List.map_congr_left
  intro l _
  rw [enc, encodeVar_complex p.layout i l (t + 1) f hf hc, complexOffset, previousCount, Nat.add_sub_cancel,
    Nat.mul_comm (appliedCount f t)]
  congr 1
  omega

theorem cplx_holds (p : PInput) (hwf : C14.WF p.layout) (ρ : Assign) :
    (∀ r ∈ rowReqs (·.complex) (variablesForFactor p.layout) (chunkReqs p.layout) (1 + gridVariables p.layout)
        p.layout.factors, r.holds ρ = true) ↔
      ∀ i f, p.layout.factors[i]? = some f → f.complex = true → ∀ t ∈ applicable f 0 (trials p),
        ((List.range f.nlevels).filter (fun l => sel p ρ i l (t + 1))).length = 1 := by
  simp only [mem_rowReqs]
  constructor
  · intro h i f hf hc t ht
    have hn : 0 < f.nlevels := (hwf f (List.mem_of_getElem? hf)).2.2.1
    have := (forall_applicable f (trials p) (fun c => Request.holds (cplxReq (1 + gridVariables p.layout +
          sumIf (·.complex) (variablesForFactor p.layout) (p.layout.factors.take i)) f.nlevels c) ρ = true)).1
      (fun c hlt => h _ ⟨i, f, hf, hc, (mem_chunkReqs _ _ f hn _).2 ⟨c, hlt, rfl⟩⟩) t ht
    unfold cplxReq at this
    rwa [holds_eq_one p ρ i (t + 1) f hf _ (cplx_vars p i t f hf hc)] at this
  · rintro h r ⟨i, f, hf, hc, hr⟩
    have hn : 0 < f.nlevels := (hwf f (List.mem_of_getElem? hf)).2.2.1
    obtain ⟨c, hlt, rfl⟩ := (mem_chunkReqs _ _ f hn r).1 hr
    refine (forall_applicable f (trials p) (fun c => Request.holds (cplxReq (1 + gridVariables p.layout +
          sumIf (·.complex) (variablesForFactor p.layout) (p.layout.factors.take i)) f.nlevels c) ρ = true)).2
      ?_ c hlt
    intro t ht
    show Request.holds _ ρ = true
    unfold cplxReq
    rw [holds_eq_one p ρ i (t + 1) f hf _ (cplx_vars p i t f hf hc)]
    exact h i f hf hc t ht

theorem holds_addReqs (b : Backend) (rs : List Request) (ρ : Assign) :
    ({ b with reqs := b.reqs ++ rs } : Backend).holds ρ = true ↔ b.holds ρ = true ∧ ∀ r ∈ rs, r.holds ρ = true := by
  have := holds_append b [] rs b.fresh b.err ρ
  simpa using this

end SPModel.Pipeline.MB
