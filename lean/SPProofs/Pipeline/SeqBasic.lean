/-
  Sequences and assignments: `assignOf` reads back the sequence it encodes; an assignment
  that satisfies `Consistency` encodes a (unique) well-shaped sequence; and for every
  constraint class except `Cross`, `Meaning` over an assignment that encodes `s` is
  `SeqMeaning` over `s`.
-/
import SPProofs.Pipeline.SeqDefs
import SPProofs.Pipeline.SeqBasicAux

namespace SPModel.Pipeline
open SPModel Layout

/-- the variable of an applicable (factor, level, trial) is true under `assignOf p s` iff the sequence has that
    level there -/
theorem assignOf_enc (p : PInput) (hwf : C14.WF p.layout) (s : TSeq) (hs : WellShaped p s)
    (i l : Nat) (f : LFactor) (hf : p.layout.factors[i]? = some f) (t : Nat) (ht : t ∈ applicable f 0 (trials p))
    (hl : l < f.nlevels) :
    assignOf p s (encodeVar p.layout i l (t + 1)) = decide (s i (t + 1) = l) :=
  SeqAux.assignOf_enc p hwf s hs i l f hf t ht hl

/-- `assignOf` is false outside the design variables -/
theorem assignOf_outside (p : PInput) (hwf : C14.WF p.layout) (s : TSeq) (v : Nat)
    (hv : v = 0 ∨ variablesPerSample p.layout < v) : assignOf p s v = false :=
  SeqAux.assignOf_outside p hwf s v hv

/-- two well-shaped sequences with the same assignment agree wherever a factor applies -/
theorem assignOf_inj (p : PInput) (hwf : C14.WF p.layout) (s₁ s₂ : TSeq) (h₁ : WellShaped p s₁) (h₂ : WellShaped p s₂)
    (h : Agree (variablesPerSample p.layout) (assignOf p s₁) (assignOf p s₂)) :
    ∀ i f, p.layout.factors[i]? = some f → ∀ t ∈ applicable f 0 (trials p), s₁ i (t + 1) = s₂ i (t + 1) :=
  SeqAux.assignOf_inj p hwf s₁ s₂ h₁ h₂ h

/-- an assignment that satisfies the meaning of `Consistency` encodes a well-shaped sequence -/
theorem exists_seq_of_consistency (p : PInput) (hwf : C14.WF p.layout) (ρ : Assign)
    (hc : Meaning p 0 ρ .consistency) :
    ∃ s, WellShaped p s ∧ Agree (variablesPerSample p.layout) (assignOf p s) ρ :=
  SeqAux.exists_seq_of_consistency p hwf ρ hc

/-- an encoding assignment satisfies `Consistency` -/
theorem consistency_of_seq (p : PInput) (hwf : C14.WF p.layout) (s : TSeq) (hs : WellShaped p s) (ρ : Assign)
    (hag : Agree (variablesPerSample p.layout) (assignOf p s) ρ) : Meaning p 0 ρ .consistency :=
  SeqAux.consistency_of_seq p hwf s hs ρ hag 0

/-- every class but `Cross`: the meaning over an assignment that encodes `s` is the meaning over `s`
    (`fr`, the fresh counter, is irrelevant for these classes) -/
theorem meaning_iff_seqMeaning (p : PInput) (hwf : C14.WF p.layout) (hseq : seqOk p = true) (s : TSeq)
    (hs : WellShaped p s) (ρ : Assign) (hag : Agree (variablesPerSample p.layout) (assignOf p s) ρ)
    (fr : Nat) (c : PConstraint) (hc : c ∈ p.constraints) (hok : ConstraintOk p c)
    (hnc : c ≠ .cross) :
    Meaning p fr ρ c ↔ SeqMeaning p s c :=
  SeqAux.meaning_iff_seqMeaning p hwf hseq s hs ρ hag fr c hc hok hnc

end SPModel.Pipeline
