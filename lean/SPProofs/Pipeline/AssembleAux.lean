/-
  Helper lemmas for `Assemble`: how the fresh-variable counter moves through
  `applyConstraint` (it depends on the backend only through the counter, and never
  decreases), and the characterisation of dependent-index lists without `BeforeStart`.
-/
import SPProofs.Pipeline.MeaningRuns
import SPProofs.Pipeline.MeaningBasic
import SPProofs.Pipeline.MeaningCross

namespace SPModel.Pipeline
open SPModel Layout

namespace Asm

/-! ### the Tseitin counter only grows (unconditionally) -/

theorem getOrDefine_next_le (s : TState) (k : TKey) (defs : Int → List (List TLit)) :
    s.next ≤ (s.getOrDefine k defs).2.next := by
  unfold TState.getOrDefine
  split
  · exact Nat.le_refl _
  · exact Nat.le_succ _

theorem tseitin_next_le :
    (∀ f s, s.next ≤ (tseitinRep f s).2.next) ∧ (∀ l s, s.next ≤ (tseitinReps l s).2.next) := by
  apply tseitinRep.mutual_induct
  · intro i s
    simp only [tseitinRep]
    exact Nat.le_refl _
  · intro l s vs s1 heq ih
    simp only [heq] at ih
    simp only [tseitinRep, heq]
    exact Nat.le_trans ih (getOrDefine_next_le _ _ _)
  · intro l s vs s1 heq ih
    simp only [heq] at ih
    simp only [tseitinRep, heq]
    exact Nat.le_trans ih (getOrDefine_next_le _ _ _)
  · intro p q s a s1 heq1 b s2 heq2 ihp ihq
    simp only [heq1] at ihp
    simp only [heq2] at ihq
    simp only [tseitinRep, heq1, heq2]
    exact Nat.le_trans ihp (Nat.le_trans ihq (getOrDefine_next_le _ _ _))
  · intro p q s a s1 heq1 b s2 heq2 ihp ihq
    simp only [heq1] at ihp
    simp only [heq2] at ihq
    simp only [tseitinRep, heq1, heq2]
    exact Nat.le_trans ihp (Nat.le_trans ihq (getOrDefine_next_le _ _ _))
  · intro f s a s1 heq ih
    simp only [heq] at ih
    simp only [tseitinRep, heq]
    exact Nat.le_trans ih (getOrDefine_next_le _ _ _)
  · intro s
    simp only [tseitinReps]
    exact Nat.le_refl _
  · intro f fs s v s1 heq1 vs s2 heq2 ih1 ih2
    simp only [heq1] at ih1
    simp only [heq2] at ih2
    simp only [tseitinReps, heq1, heq2]
    exact Nat.le_trans ih1 ih2

theorem toCnfTseitin_next_le (f : Formula) (n : Nat) : n ≤ (toCnfTseitin f n).next := by
  have := tseitin_next_le.1 f { next := n, cache := [], clauses := [] }
  unfold toCnfTseitin
  exact this

/-! ### the counter through the building blocks -/

theorem fresh_fail (b : Backend) (e : PyErr) : (b.fail e).fresh = b.fresh := by
  unfold Backend.fail; split <;> rfl

theorem fresh_pushFormula (b : Backend) (f : Formula) :
    (pushFormula b f).fresh = (toCnfTseitin f b.fresh).next := rfl

theorem fresh_pushFormula_congr (b₁ b₂ : Backend) (f : Formula) (h : b₁.fresh = b₂.fresh) :
    (pushFormula b₁ f).fresh = (pushFormula b₂ f).fresh := by
  rw [fresh_pushFormula, fresh_pushFormula, h]

theorem fresh_pushFormula_le (b : Backend) (f : Formula) : b.fresh ≤ (pushFormula b f).fresh := by
  rw [fresh_pushFormula]; exact toCnfTseitin_next_le _ _

theorem foldl_fresh_congr {α : Type} (step : Backend → α → Backend)
    (hstep : ∀ b₁ b₂ x, b₁.fresh = b₂.fresh → (step b₁ x).fresh = (step b₂ x).fresh)
    (l : List α) (b₁ b₂ : Backend) (h : b₁.fresh = b₂.fresh) :
    (l.foldl step b₁).fresh = (l.foldl step b₂).fresh := by
  induction l generalizing b₁ b₂ with
  | nil => exact h
  | cons x xs ih => exact ih _ _ (hstep _ _ x h)

theorem foldl_fresh_keep {α : Type} (step : Backend → α → Backend)
    (hstep : ∀ b x, (step b x).fresh = b.fresh) (l : List α) (b : Backend) :
    (l.foldl step b).fresh = b.fresh := by
  induction l generalizing b with
  | nil => rfl
  | cons x xs ih => exact (ih _).trans (hstep _ x)

theorem foldl_fresh_le {α : Type} (step : Backend → α → Backend)
    (hstep : ∀ b x, b.fresh ≤ (step b x).fresh) (l : List α) (b : Backend) :
    b.fresh ≤ (l.foldl step b).fresh := by
  induction l generalizing b with
  | nil => exact Nat.le_refl _
  | cons x xs ih => exact Nat.le_trans (hstep _ x) (ih _)

/-- the fold of `ExactlyKInARow.apply` (the implication list accumulates) -/
theorem foldl_row_fresh_congr (g : List Int → List Formula) (l : List (List Int)) (acc : List Formula)
    (b₁ b₂ : Backend) (h : b₁.fresh = b₂.fresh) :
    (l.foldl (fun (acc : List Formula × Backend) vars =>
        let imps := acc.1 ++ g vars
        (imps, pushFormula acc.2 (.and imps))) (acc, b₁)).2.fresh =
    (l.foldl (fun (acc : List Formula × Backend) vars =>
        let imps := acc.1 ++ g vars
        (imps, pushFormula acc.2 (.and imps))) (acc, b₂)).2.fresh := by
  induction l generalizing acc b₁ b₂ with
  | nil => exact h
  | cons x xs ih =>
    simp only [List.foldl_cons]
    exact ih _ _ _ (fresh_pushFormula_congr _ _ _ h)

theorem foldl_row_fresh_le (g : List Int → List Formula) (l : List (List Int)) (acc : List Formula)
    (b : Backend) :
    b.fresh ≤ (l.foldl (fun (acc : List Formula × Backend) vars =>
        let imps := acc.1 ++ g vars
        (imps, pushFormula acc.2 (.and imps))) (acc, b)).2.fresh := by
  induction l generalizing acc b with
  | nil => exact Nat.le_refl _
  | cons x xs ih =>
    simp only [List.foldl_cons]
    exact Nat.le_trans (fresh_pushFormula_le _ _) (ih _ _)

/-! ### `crossStep` -/

theorem crossStep_fresh_congr (p : PInput) (c : PCrossing) (b₁ b₂ : Backend) (h : b₁.fresh = b₂.fresh) :
    (crossStep p b₁ c).fresh = (crossStep p b₂ c).fresh := by
  unfold crossStep
  split
  · rw [fresh_fail, fresh_fail, h]
  · simp only [h]

theorem crossStep_fresh_le (p : PInput) (c : PCrossing) (b : Backend) :
    b.fresh ≤ (crossStep p b c).fresh := by
  unfold crossStep
  split
  · rw [fresh_fail]; exact Nat.le_refl _
  · dsimp only
    exact Nat.le_trans (Nat.le_add_right _ _) (toCnfTseitin_next_le _ _)

/-! ### `applyConstraint` -/

theorem applyConstraint_fresh_congr (p : PInput) (c : PConstraint) (b₁ b₂ : Backend)
    (h : b₁.fresh = b₂.fresh) :
    (applyConstraint p b₁ c).fresh = (applyConstraint p b₂ c).fresh := by
  cases c with
  | noop => exact h
  | consistency => exact h
  | cross => exact foldl_fresh_congr _ (fun b₁ b₂ x hx => crossStep_fresh_congr p x b₁ b₂ hx) _ _ _ h
  | sustain => exact fresh_pushFormula_congr _ _ _ h
  | exclude f l =>
    simp only [applyConstraint]
    refine foldl_fresh_congr _ ?_ _ _ _ h
    intro b₁ b₂ x hx; exact hx
  | pin idx f l within s =>
    simp only [applyConstraint]
    cases trialNumbers p idx within s with
    | nil => exact h
    | cons t ts =>
      dsimp only
      refine foldl_fresh_congr _ ?_ _ _ _ h
      intro b₁ b₂ x hx; exact hx
  | atMost k f l within => exact h
  | atLeast k f l within => exact fresh_pushFormula_congr _ _ _ h
  | exactlyInARow k f l within =>
    simp only [applyConstraint]
    exact foldl_row_fresh_congr _ _ _ _ _ h
  | exactlyK k f l within =>
    simp only [applyConstraint]
    refine foldl_fresh_congr _ ?_ _ _ _ h
    intro b₁ b₂ x hx
    split <;> exact hx
  | sequential f pre => exact fresh_pushFormula_congr _ _ _ h
  | derivation d deps f sd =>
    simp only [applyConstraint]
    split
    · exact fresh_pushFormula_congr _ _ _ h
    · split
      · exact fresh_pushFormula_congr _ _ _ h
      · rw [fresh_fail, fresh_fail, h]

theorem applyConstraint_fresh_le (p : PInput) (c : PConstraint) (b : Backend) :
    b.fresh ≤ (applyConstraint p b c).fresh := by
  cases c with
  | noop => exact Nat.le_refl _
  | consistency => exact Nat.le_refl _
  | cross => exact foldl_fresh_le _ (fun b x => crossStep_fresh_le p x b) _ _
  | sustain => exact fresh_pushFormula_le _ _
  | exclude f l =>
    simp only [applyConstraint]
    refine foldl_fresh_le _ ?_ _ _
    intro b x; exact Nat.le_refl _
  | pin idx f l within s =>
    simp only [applyConstraint]
    cases trialNumbers p idx within s with
    | nil => exact Nat.le_refl _
    | cons t ts =>
      dsimp only
      refine foldl_fresh_le _ ?_ _ _
      intro b x; exact Nat.le_refl _
  | atMost k f l within => exact Nat.le_refl _
  | atLeast k f l within => exact fresh_pushFormula_le _ _
  | exactlyInARow k f l within =>
    simp only [applyConstraint]
    exact foldl_row_fresh_le _ _ _ _
  | exactlyK k f l within =>
    simp only [applyConstraint]
    refine foldl_fresh_le _ ?_ _ _
    intro b x
    split <;> exact Nat.le_refl _
  | sequential f pre => exact fresh_pushFormula_le _ _
  | derivation d deps f sd =>
    simp only [applyConstraint]
    split
    · exact fresh_pushFormula_le _ _
    · split
      · exact fresh_pushFormula_le _ _
      · rw [fresh_fail]; exact Nat.le_refl _

/-! ### dependent-index lists without `BeforeStart` -/

theorem mapM_var_eq (l : List Dep) (vs : List Nat)
    (h : l.mapM (fun x => match x with | .var v => some v | .before _ => none) = some vs) :
    l = vs.map Dep.var := by
  induction l generalizing vs with
  | nil =>
    simp only [List.mapM_nil] at h
    cases h; rfl
  | cons x xs ih =>
    rw [List.mapM_cons] at h
    cases x with
    | before r => simp at h
    | var v =>
      cases hxs : xs.mapM (fun x => match x with | .var v => some v | .before _ => none) with
      | none => simp [hxs] at h
      | some ws =>
        simp [hxs] at h
        subst h
        simp [ih ws hxs]

theorem mapM_mapM_var_eq (deps : List (List Dep)) (ds : List (List Nat))
    (h : deps.mapM (fun l => l.mapM (fun x => match x with | .var v => some v | .before _ => none)) = some ds) :
    deps = ds.map (fun l => l.map Dep.var) := by
  induction deps generalizing ds with
  | nil =>
    simp only [List.mapM_nil] at h
    cases h; rfl
  | cons l ls ih =>
    rw [List.mapM_cons] at h
    cases hl : l.mapM (fun x => match x with | .var v => some v | .before _ => none) with
    | none => simp [hl] at h
    | some vs =>
      cases hls : ls.mapM (fun l => l.mapM (fun x => match x with | .var v => some v | .before _ => none)) with
      | none => simp [hl, hls] at h
      | some ws =>
        simp [hl, hls] at h
        subst h
        simp [ih ws hls, mapM_var_eq l vs hl]

end Asm

end SPModel.Pipeline
