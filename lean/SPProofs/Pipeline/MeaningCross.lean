/-
  What `Cross` means for an assignment, as `Pipeline.crossStep` (one crossing of
  `Cross.apply`) compiles it: a state variable per (crossing trial, allowed combination)
  equal to "the combination is selected in that trial", and per combination and per
  chunk of `crossing_size * crossing_weight` crossing trials the number of trials with that
  combination is exactly `weight * crossing_weight` (a full chunk) or at most that (the
  trailing partial chunk).
-/
import SPProofs.Pipeline.Sel

namespace SPModel.Pipeline
open SPModel Layout

/-! ### helper lemmas -/

theorem mc_evalAll_iff (τ : Assign) (l : List Formula) :
    Formula.evalAll τ l = true ↔ ∀ g ∈ l, g.eval τ = true := by
  induction l with
  | nil => simp [Formula.evalAll]
  | cons f fs ih => simp [Formula.evalAll, ih]

theorem mc_evalAll_map_lit {α : Type} (τ : Assign) (l : List α) (g : α → Int) :
    Formula.evalAll τ (l.map (fun x => lit (g x))) = l.all (fun x => litVal τ (g x)) := by
  induction l with
  | nil => simp [Formula.evalAll]
  | cons f fs ih =>
    simp only [lit] at ih
    simp [Formula.evalAll, Formula.eval, lit, ih]

theorem mc_litVal_natCast (ρ : Assign) (n : Nat) (h : 0 < n) : litVal ρ ((n : Nat) : Int) = ρ n := by
  unfold litVal
  have : (0 : Int) < (n : Int) := by omega
  rw [if_pos this, Int.natAbs_natCast]

theorem mc_drop_take_map_range {α : Type} (g : Nat → α) (T d m : Nat) :
    (((List.range T).map g).drop d).take m = (List.range (min m (T - d))).map (fun u => g (d + u)) := by
  apply List.ext_getElem
  · simp
  · intro i h1 h2
    simp

theorem mc_filter_count {α : Type} (P : α → Bool) (g : Nat → α) (q : Nat → Bool) (T d m : Nat)
    (h : ∀ ti, ti < T → P (g ti) = q ti) :
    (((((List.range T).map g).drop d).take m).filter P).length =
      ((List.range (min m (T - d))).filter (fun u => q (d + u))).length := by
  rw [mc_drop_take_map_range, List.filter_map, List.length_map]
  congr 1
  apply List.filter_congr
  intro u hu
  have hu' := List.mem_range.1 hu
  simp only [Function.comp]
  exact h _ (by omega)

theorem mc_weightRequests_holds (ρ : Assign) (vars : List Int) (w size cw : Nat) (hch : 0 < size * cw) :
    (∀ r ∈ weightRequests vars w size cw, r.holds ρ = true) ↔
      ∀ j, j * (size * cw) < vars.length →
        if (j + 1) * (size * cw) ≤ vars.length
        then (((vars.drop (j * (size * cw))).take (size * cw)).filter (litVal ρ)).length = w * cw
        else (((vars.drop (j * (size * cw))).take (size * cw)).filter (litVal ρ)).length ≤ w * cw := by
  unfold weightRequests
  simp only []
  rw [if_neg (by omega)]
  generalize size * cw = ch at hch
  simp only [List.mem_map, List.mem_range]
  have hlt : ∀ j, j < (vars.length + ch - 1) / ch ↔ j * ch < vars.length := by
    intro j
    rw [Nat.lt_iff_add_one_le, Nat.le_div_iff_mul_le hch, Nat.add_mul]
    omega
  constructor
  · intro H j hj
    have := H _ ⟨j, (hlt j).2 hj, rfl⟩
    rw [Nat.add_mul]
    simp only [List.length_drop, ge_iff_le] at this
    by_cases hc : ch ≤ vars.length - j * ch
    · rw [if_pos hc] at this
      rw [if_pos (by omega)]
      simpa [Request.holds] using this
    · rw [if_neg hc] at this
      rw [if_neg (by omega)]
      rw [List.take_of_length_le (by simp only [List.length_drop]; omega)]
      simpa [Request.holds, Nat.lt_succ_iff] using this
  · rintro H r ⟨j, hj, rfl⟩
    have := H j ((hlt j).1 hj)
    rw [Nat.add_mul] at this
    simp only [List.length_drop, ge_iff_le]
    by_cases hc : ch ≤ vars.length - j * ch
    · rw [if_pos hc]
      rw [if_pos (by omega)] at this
      simpa [Request.holds] using this
    · rw [if_neg hc]
      rw [if_neg (by omega)] at this
      rw [List.take_of_length_le (by simp only [List.length_drop]; omega)] at this
      simpa [Request.holds, Nat.lt_succ_iff] using this


/-- combination `ci` of the crossing is selected in the (1-based) trial `t` -/
def comboSel (p : PInput) (ρ : Assign) (c : PCrossing) (ci t : Nat) : Bool :=
  (c.factors.zip (c.combos.getD ci [])).all (fun fl => sel p ρ fl.1 fl.2 t)

/-- number of crossing trials `u` in chunk `j` (of length `chunk`, the last one possibly shorter) with `q u` -/
def chunkCount (T chunk j : Nat) (q : Nat → Bool) : Nat :=
  ((List.range (min chunk (T - j * chunk))).filter (fun u => q (j * chunk + u))).length

theorem mc_and_enc (p : PInput) (ρ : Assign) (c : PCrossing) (ci t : Nat)
    (hfac : ∀ i ∈ c.factors, i < p.layout.factors.length) :
    Formula.evalAll ρ ((c.factors.zip (c.combos.getD ci [])).map (fun fl => lit (enc p fl.1 fl.2 t))) =
      comboSel p ρ c ci t := by
  refine Eq.trans (mc_evalAll_map_lit ρ _ (fun (fl : Nat × Nat) => enc p fl.1 fl.2 t)) ?_
  unfold comboSel sel
  rw [Bool.eq_iff_iff, List.all_eq_true, List.all_eq_true]
  have key : ∀ fl ∈ c.factors.zip (c.combos.getD ci []),
      litVal ρ (enc p fl.1 fl.2 t) = ρ (encodeVar p.layout fl.1 fl.2 t) := by
    intro fl hfl
    have hi := hfac fl.1 (List.of_mem_zip (a := fl.1) (b := fl.2) hfl).1
    exact (litVal_enc p ρ fl.1 fl.2 t _ (List.getElem?_eq_getElem hi)).1
  constructor
  · intro H fl hfl; rw [← key fl hfl]; exact H fl hfl
  · intro H fl hfl; rw [key fl hfl]; exact H fl hfl

/-- The hypothesis `hfresh : 0 < b.fresh` is needed: with `b.fresh = 0` the state variable of (trial 0, combination 0)
    is the literal `0`, whose `litVal` is `!ρ 0`, and the statement fails (e.g. no factors, `combos = [[]]`, one trial,
    `ρ = fun _ => true`: the left side is false, the right side true).  `buildBackend` starts at
    `variablesPerSample + 1`, and `fresh` never decreases. -/
theorem crossStep_meaning (p : PInput) (b : Backend) (c : PCrossing)
    (hpre : c.preamble < trials p) (hchunk : 0 < c.size * c.weight)
    (hfac : ∀ i ∈ c.factors, i < p.layout.factors.length) (hfresh : 0 < b.fresh) (ρ : Assign) :
    (crossStep p b c).holds ρ = true ↔
      b.holds ρ = true ∧
      (∀ ti ci, ti < trials p - c.preamble → ci < c.combos.length →
          ρ (b.fresh + ti * c.combos.length + ci) = comboSel p ρ c ci (c.preamble + 1 + ti)) ∧
      (∀ ci, ci < c.combos.length → ∀ j, j * (c.size * c.weight) < trials p - c.preamble →
          let cnt := chunkCount (trials p - c.preamble) (c.size * c.weight) j
            (fun ti => comboSel p ρ c ci (c.preamble + 1 + ti))
          if (j + 1) * (c.size * c.weight) ≤ trials p - c.preamble
          then cnt = c.weights.getD ci 0 * c.weight
          else cnt ≤ c.weights.getD ci 0 * c.weight) := by
  have hnp : ¬ trials p ≤ c.preamble := by omega
  unfold crossStep
  rw [if_neg hnp]
  refine Iff.trans (holds_append b _ _ _ b.err ρ) ?_
  refine and_congr_right (fun _ => ?_)
  simp only [List.mem_singleton, forall_eq, CnfItem.holds, Formula.eval, List.length_map, List.length_range]
  have hA : Formula.evalAll ρ
          (List.flatMap
            (fun ti =>
              List.map
                (fun ci =>
                  (lit ↑(b.fresh + ti * c.combos.length + ci)).iff
                    (Formula.and
                      (List.map
                        (fun fl =>
                          lit
                            (enc p fl.fst fl.snd
                              ((List.map (fun j => c.preamble + 1 + j) (List.range (trials p - c.preamble))).getD ti
                                0)))
                        (c.factors.zip (c.combos.getD ci [])))))
                (List.range c.combos.length))
            (List.range (trials p - c.preamble))) =
        true ↔ (∀ (ti ci : Nat),
        ti < trials p - c.preamble →
          ci < c.combos.length → ρ (b.fresh + ti * c.combos.length + ci) = comboSel p ρ c ci (c.preamble + 1 + ti)) := by
    rw [mc_evalAll_iff]
    simp only [List.mem_flatMap, List.mem_map, List.mem_range]
    have hone : ∀ ti ci, ti < trials p - c.preamble →
        (Formula.eval ρ ((lit ↑(b.fresh + ti * c.combos.length + ci)).iff
                    (Formula.and
                      (List.map
                        (fun fl =>
                          lit
                            (enc p fl.fst fl.snd
                              ((List.map (fun j => c.preamble + 1 + j) (List.range (trials p - c.preamble))).getD ti
                                0)))
                        (c.factors.zip (c.combos.getD ci []))))) = true ↔
          ρ (b.fresh + ti * c.combos.length + ci) = comboSel p ρ c ci (c.preamble + 1 + ti)) := by
      intro ti ci hti
      have hget : (List.map (fun j => c.preamble + 1 + j) (List.range (trials p - c.preamble))).getD ti 0 =
          c.preamble + 1 + ti := by
        simp [List.getD_eq_getElem?_getD, hti]
      rw [hget]
      simp only [Formula.eval, lit]
      have := mc_and_enc p ρ c ci (c.preamble + 1 + ti) hfac
      simp only [lit] at this
      rw [this, mc_litVal_natCast ρ _ (by omega)]
      exact beq_iff_eq
    constructor
    · intro H ti ci hti hci
      exact (hone ti ci hti).1 (H _ ⟨ti, hti, ci, hci, rfl⟩)
    · rintro H g ⟨ti, hti, ci, hci, rfl⟩
      exact (hone ti ci hti).2 (H ti ci hti hci)
  refine Iff.trans (and_congr_left' hA) (and_congr_right (fun hS => ?_))
  simp only [List.mem_flatMap, List.mem_range]
  have hone : ∀ ci, ci < c.combos.length →
      ((∀ r ∈ weightRequests
                  (List.map (fun ti => ((b.fresh + ti * c.combos.length + ci : Nat) : Int)) (List.range (trials p - c.preamble)))
                  (c.weights.getD ci 0) c.size c.weight, r.holds ρ = true) ↔
        ∀ (j : Nat),
            j * (c.size * c.weight) < trials p - c.preamble →
              if (j + 1) * (c.size * c.weight) ≤ trials p - c.preamble then
                (chunkCount (trials p - c.preamble) (c.size * c.weight) j fun ti =>
                    comboSel p ρ c ci (c.preamble + 1 + ti)) =
                  c.weights.getD ci 0 * c.weight
              else
                (chunkCount (trials p - c.preamble) (c.size * c.weight) j fun ti =>
                    comboSel p ρ c ci (c.preamble + 1 + ti)) ≤
                  c.weights.getD ci 0 * c.weight) := by
    intro ci hci
    rw [mc_weightRequests_holds ρ _ _ _ _ hchunk]
    simp only [List.length_map, List.length_range]
    have hcnt : ∀ j, (((((List.range (trials p - c.preamble)).map
          (fun ti => ((b.fresh + ti * c.combos.length + ci : Nat) : Int))).drop (j * (c.size * c.weight))).take
            (c.size * c.weight)).filter (litVal ρ)).length =
        chunkCount (trials p - c.preamble) (c.size * c.weight) j
          (fun ti => comboSel p ρ c ci (c.preamble + 1 + ti)) := by
      intro j
      unfold chunkCount
      refine mc_filter_count (litVal ρ) _ (fun ti => comboSel p ρ c ci (c.preamble + 1 + ti)) _ _ _ ?_
      intro ti hti
      rw [mc_litVal_natCast ρ _ (by omega)]
      exact hS ti ci hti hci
    simp only [hcnt]
  constructor
  · intro H ci hci
    exact (hone ci hci).1 (fun r hr => H r ⟨ci, hci, hr⟩)
  · rintro H r ⟨ci, hci, hr⟩
    exact (hone ci hci).2 (H ci hci) r hr


/-- `Cross.apply` over all crossings: every crossing's step (at the fresh counter it sees) -/
theorem applyCross_eq (p : PInput) (b : Backend) : applyCross p b = p.crossings.foldl (crossStep p) b := rfl

end SPModel.Pipeline
