/-
  What `Consistency`, `Sequential`, `Sustain` and a `Derivation` without complex window
  mean for an assignment, as `Pipeline.applyConstraint` compiles them.
-/
import SPProofs.Pipeline.MeaningBasicAux

namespace SPModel.Pipeline
open SPModel Layout MB

/-- `Consistency`: in every trial a factor applies to, exactly one of its levels is selected -/
theorem consistency_meaning (p : PInput) (hwf : C14.WF p.layout) (b : Backend) (ρ : Assign) :
    (applyConstraint p b .consistency).holds ρ = true ↔
      b.holds ρ = true ∧
        ∀ i f, p.layout.factors[i]? = some f → ∀ t ∈ applicable f 0 (trials p),
          ((List.range f.nlevels).filter (fun l => sel p ρ i l (t + 1))).length = 1 := by
  simp only [applyConstraint]
  rw [applyConsistency_eq, holds_addReqs]
  apply and_congr_right; intro _
  simp only [List.mem_append, or_imp, forall_and]
  rw [grid_holds p hwf ρ, cplx_holds p hwf ρ]
  constructor
  · rintro ⟨h1, h2⟩ i f hf t ht
    cases hc : f.complex with
    | false =>
      rw [applicable_simple p hwf i f hf hc] at ht
      simp only [List.mem_map, List.mem_range, Nat.sub_zero, Nat.zero_add, exists_eq_right] at ht
      exact h1 i f hf hc t ht
    | true => exact h2 i f hf hc t ht
  · intro h
    refine ⟨fun i f hf hc t ht => h i f hf t ?_, fun i f hf _ t ht => h i f hf t ht⟩
    rw [applicable_simple p hwf i f hf hc]
    simp only [List.mem_map, List.mem_range, Nat.sub_zero, Nat.zero_add, exists_eq_right]
    exact ht

/-- `Sequential`: after the preamble the levels follow the declaration order cyclically, one per sustained group -/
theorem sequential_meaning (p : PInput) (b : Backend) (i : Nat) (f : LFactor)
    (hf : p.layout.factors[i]? = some f) (hs : 0 < f.sustain) (hl : 0 < f.nlevels) (pre : Nat) (ρ : Assign) :
    (applyConstraint p b (.sequential i pre)).holds ρ = true ↔
      b.holds ρ = true ∧
        ∀ j, pre + j * f.sustain < trials p → ∀ l, l < f.nlevels →
          sel p ρ i l (pre + j * f.sustain + 1) = decide (l = j % f.nlevels) := by
  have hfa : factorAt p i = f := by simp [factorAt, hf]
  have hs0 : f.sustain ≠ 0 := by omega
  have hl0 : f.nlevels ≠ 0 := by omega
  simp only [applyConstraint, hfa, if_neg hs0, if_neg hl0]
  rw [holds_pushFormula]
  apply and_congr_right; intro _
  rw [eval_and_true]
  simp only [List.mem_flatMap, List.mem_map, List.mem_range, lt_ceil_div _ _ _ hs]
  constructor
  · intro h j hj l hl'
    have := h _ ⟨pre + j * f.sustain, ⟨j, by omega, rfl⟩, l, hl', rfl⟩
    rw [eval_pick p ρ i l _ _ f hf, Nat.add_sub_cancel_left, Nat.mul_div_cancel _ hs] at this
    exact this
  · rintro h g ⟨a, ⟨j, hj, rfl⟩, l, hl', rfl⟩
    rw [eval_pick p ρ i l _ _ f hf, Nat.add_sub_cancel_left, Nat.mul_div_cancel _ hs]
    exact h j (by omega) l hl'

/-- `Sustain`: within each group of `sustain` consecutive applicable trials every level variable repeats the
    group's first one -/
theorem sustain_meaning (p : PInput) (hwf : C14.WF p.layout) (b : Backend) (ρ : Assign) :
    (applyConstraint p b .sustain).holds ρ = true ↔
      b.holds ρ = true ∧
        ∀ i f, p.layout.factors[i]? = some f → ∀ l, l < f.nlevels →
          ∀ j, j < (applicable f 0 (trials p)).length →
            (selIn p ρ i l f 0 (trials p)).getD j false =
              (selIn p ρ i l f 0 (trials p)).getD ((j / f.sustain) * f.sustain) false := by
  simp only [applyConstraint, applySustain]
  rw [holds_pushFormula]
  apply and_congr_right; intro _
  rw [eval_and_true]
  simp only [List.mem_flatMap, List.mem_map, List.mem_range]
  constructor
  · intro h i f hf l hl
    have hi : i < p.layout.factors.length := (List.getElem?_eq_some_iff.1 hf).1
    have hfa : factorAt p i = f := by simp [factorAt, hf]
    apply (sustain_factor p hwf ρ i l f hf).1
    intro vars hvars j hj
    exact h _ ⟨i, hi, l, by rw [hfa]; exact hl, vars, hvars, j, hj, by rw [hfa]⟩
  · rintro h g ⟨i, hi, l, hl, vars, hvars, j, hj, rfl⟩
    have hf : p.layout.factors[i]? = some (factorAt p i) := by
      simp [factorAt, List.getElem?_eq_getElem hi]
    exact (sustain_factor p hwf ρ i l _ hf).2 (h i _ hf l hl) vars hvars j hj

/-- `Derivation` of a factor in the per-trial grid: in every trial the derived level's variable is true exactly
    when one of the listed combinations of (shifted) variables is all true -/
theorem derivationSimple_meaning (p : PInput) (b : Backend) (d : Nat) (deps : List (List Nat)) (fi : Nat) (sd : Int)
    (hd : d < gridVariables p.layout) (ρ : Assign) :
    (applyConstraint p b (.derivation d (deps.map (fun l => l.map Dep.var)) fi sd)).holds ρ = true ↔
      b.holds ρ = true ∧
        ∀ t0, t0 < trials p →
          ρ (d + t0 * vpt p + 1) = deps.any (fun l => l.all (fun x => ρ (x + t0 * vpt p + 1))) := by
  simp only [applyConstraint, if_pos hd]
  rw [holds_pushFormula]
  apply and_congr_right; intro _
  simp only [derivationSimple, eval_and_true, List.mem_map, List.mem_range]
  have key : ∀ t0, Formula.eval ρ (Formula.iff (lit ((d + t0 * vpt p + 1 : Nat) : Int))
      (Formula.or ((deps.map (fun l => l.map Dep.var)).map (fun (l : List Dep) => Formula.and (l.map (fun x => match x with
        | .var v => lit ((v + t0 * vpt p + 1 : Nat) : Int)
        | .before _ => lit 0)))))) = true ↔
      ρ (d + t0 * vpt p + 1) = deps.any (fun l => l.all (fun x => ρ (x + t0 * vpt p + 1))) := by
    intro t0
    rw [eval_iff, eval_lit, litVal_succ, eval_or, List.map_map, List.any_map]
    have : (Formula.eval ρ ∘ ((fun (l : List Dep) => Formula.and (l.map (fun x => match x with
        | .var v => lit ((v + t0 * vpt p + 1 : Nat) : Int)
        | .before _ => lit 0))) ∘ fun (l : List Nat) => l.map Dep.var)) = fun l => l.all (fun x => ρ (x + t0 * vpt p + 1)) := by
      funext l
      simp only [Function.comp, eval_and, List.map_map, List.all_map]
      congr 1
      funext x
      simp only [Function.comp, eval_lit, litVal_succ]
    rw [this]
  constructor
  · intro h t0 ht0
    exact (key t0).1 (h _ ⟨t0, ht0, rfl⟩)
  · rintro h g ⟨t0, ht0, rfl⟩
    exact (key t0).2 (h t0 ht0)

end SPModel.Pipeline
