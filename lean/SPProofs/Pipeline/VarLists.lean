/-
  The variable lists `Block.build_variable_lists` returns (model: `Pipeline.variableLists`),
  the trial ranges of `map_block_trial_ranges` (`Pipeline.ranges`) and `get_trial_numbers`
  (`Pipeline.trialNumbers`), tied to the variable numbering `Layout.encodeVar`:
  the list for a range holds, in order, the variable of the level in every trial of the
  range to which the factor applies — for factors with a complex window this is the
  offset arithmetic repaired by the commit "fix: ... variable lists of complex-window
  factors skip the trials before the range".
-/
import SPModel.Pipeline
import SPProofs.Properties.C14

namespace SPModel.Pipeline
open SPModel Layout

/-- the 0-based trials `a ≤ t < b` to which the factor applies, in order -/
def applicable (f : LFactor) (a b : Nat) : List Nat :=
  ((List.range (b - a)).map (fun u => a + u)).filter (fun t => appliesTrial f (t + 1))

/-- a block-scoped geometry has a positive length -/
def WithinOk (within : Option (Nat × Nat)) : Prop := ∀ len pre, within = some (len, pre) → 0 < len

/-! ### helper lemmas -/

theorem filterMap_eq_map_of_some {α β : Type} (g : α → Option β) (h : α → β) (l : List α)
    (h1 : ∀ j ∈ l, g j = some (h j)) : l.filterMap g = l.map h := by
  induction l with
  | nil => rfl
  | cons x xs ih =>
    rw [List.filterMap_cons, h1 x (by simp), List.map_cons, ih (fun j hj => h1 j (by simp [hj]))]

/-- a `filterMap` over `range N` of a function that is `some` exactly on the prefix `[0, m)` -/
theorem filterMap_range_prefix {α : Type} (g : Nat → Option α) (h : Nat → α) (m N : Nat) (hmN : m ≤ N)
    (h1 : ∀ j, j < m → g j = some (h j)) (h2 : ∀ j, m ≤ j → g j = none) :
    (List.range N).filterMap g = (List.range m).map h := by
  induction N with
  | zero =>
    have : m = 0 := by omega
    subst this; simp
  | succ N ih =>
    rw [List.range_succ, List.filterMap_append]
    by_cases hm : m ≤ N
    · rw [ih hm]
      simp [h2 N hm]
    · have e : m = N + 1 := by omega
      subst e
      have hpre : (List.range N).filterMap g = (List.range N).map h := by
        apply filterMap_eq_map_of_some
        intro j hj
        rw [List.mem_range] at hj
        exact h1 j (by omega)
      rw [hpre, List.range_succ, List.map_append]
      simp [h1 N (by omega)]

/-- the applicable trials of a range one trial longer -/
theorem applicable_succ (f : LFactor) (a k : Nat) :
    applicable f a (a + (k + 1)) =
      applicable f a (a + k) ++ (if appliesTrial f (a + k + 1) then [a + k] else []) := by
  unfold applicable
  have e1 : a + (k + 1) - a = k + 1 := by omega
  have e2 : a + k - a = k := by omega
  rw [e1, e2, List.range_succ, List.map_append, List.filter_append]
  congr 1
  by_cases h : appliesTrial f (a + k + 1) = true <;> simp [h]

/-- counting the applicable trials up to `a + k` = those up to `a` plus those of the range -/
theorem appliedCount_add (f : LFactor) (a k : Nat) :
    appliedCount f (a + k) = appliedCount f a + (applicable f a (a + k)).length := by
  induction k with
  | zero => simp [applicable]
  | succ k ih =>
    rw [applicable_succ, List.length_append]
    show appliedCount f (a + k + 1) = _
    rw [appliedCount_succ, ih]
    by_cases h : appliesTrial f (a + k + 1) = true <;> simp [h] <;> omega

/-- the `v`-th applicable trial of a range has `v` applicable trials of the range before it -/
theorem applicable_counts_add (f : LFactor) (a k : Nat) :
    (applicable f a (a + k)).map (appliedCount f) =
      (List.range (applicable f a (a + k)).length).map (fun v => appliedCount f a + v) := by
  induction k with
  | zero => simp [applicable]
  | succ k ih =>
    rw [applicable_succ]
    by_cases h : appliesTrial f (a + k + 1) = true
    · simp only [h, if_true, List.map_append, List.length_append, List.length_singleton,
        List.range_succ, List.map_cons, List.map_nil, ih, appliedCount_add]
    · have h' : appliesTrial f (a + k + 1) = false := by simpa using h
      simp only [h', Bool.false_eq_true, if_false, List.append_nil]
      exact ih

theorem applicable_eq_add (f : LFactor) (a b : Nat) : applicable f a b = applicable f a (a + (b - a)) := by
  unfold applicable
  have e : a + (b - a) - a = b - a := by omega
  rw [e]

theorem applicable_counts (f : LFactor) (a b : Nat) :
    (applicable f a b).map (appliedCount f) =
      (List.range (applicable f a b).length).map (fun v => appliedCount f a + v) := by
  rw [applicable_eq_add]
  exact applicable_counts_add f a (b - a)

/-- `variables_for_factor(f, a, b) // nlevels` counts the applicable trials of the range -/
theorem varsForFactorIn_div (p : PInput) (f : LFactor) (hn : 0 < f.nlevels) (a b : Nat) (hb : b ≠ 0) :
    varsForFactorIn p f a b / f.nlevels = (applicable f a b).length := by
  simp only [varsForFactorIn, hb, if_false]
  rw [Nat.mul_div_cancel_left _ hn]
  unfold applicable
  rw [List.filter_map, List.length_map]
  rfl

theorem varsForFactorIn_before (p : PInput) (f : LFactor) (hn : 0 < f.nlevels) (a : Nat) :
    (if a > 0 then varsForFactorIn p f 0 a / f.nlevels else 0) = appliedCount f a := by
  by_cases ha : a > 0
  · have hne : a ≠ 0 := by omega
    simp only [ha, if_true, varsForFactorIn, hne, if_false]
    rw [Nat.mul_div_cancel_left _ hn]
    simp [appliedCount]
  · have : a = 0 := by omega
    subst this
    simp

theorem applicable_all (f : LFactor) (h : ∀ u, appliesTrial f u = true) (a b : Nat) :
    applicable f a b = (List.range (b - a)).map (fun u => a + u) := by
  unfold applicable
  rw [List.filter_eq_self]
  intro t _
  exact h _

/-! ### the ranges -/

theorem ranges_none (p : PInput) (h : 0 < trials p) : ranges p none = [(0, trials p)] := by
  simp [ranges, h]

theorem ranges_none_zero (p : PInput) (h : trials p = 0) : ranges p none = [] := by
  simp [ranges, h]

/-- membership in the ranges of a block-scoped constraint -/
theorem mem_ranges_some (p : PInput) (len pre : Nat) (hstep : pre < len) (r : Nat × Nat) :
    r ∈ ranges p (some (len, pre)) ↔
      ∃ j, r = ((if p.postPreamble then p.commonPreamble - pre else 0) + j * (len - pre), len + j * (len - pre)) ∧
        (if p.postPreamble then p.commonPreamble - pre else 0) + j * (len - pre) < trials p - pre := by
  have hs : len - pre ≠ 0 := by omega
  simp only [ranges, hs, if_false]
  generalize (if p.postPreamble = true then p.commonPreamble - pre else 0) = start
  rw [List.mem_filterMap]
  constructor
  · rintro ⟨j, _, h⟩
    split at h
    · next hlt =>
      injection h with h
      exact ⟨j, h.symm, hlt⟩
    · cases h
  · rintro ⟨j, rfl, h⟩
    refine ⟨j, ?_, by simp [h]⟩
    rw [List.mem_range]
    have : j ≤ j * (len - pre) := Nat.le_mul_of_pos_right _ (by omega)
    omega

/-- whole repetitions without preamble: the ranges tile the trials -/
theorem ranges_tile (p : PInput) (len m : Nat) (hl : 0 < len) (hn : trials p = m * len) (hp : p.postPreamble = false) :
    ranges p (some (len, 0)) = (List.range m).map (fun j => (j * len, (j + 1) * len)) := by
  have hs : len ≠ 0 := by omega
  simp only [ranges, hs, if_false, hp, hn, Nat.sub_zero, Nat.zero_add, Bool.false_eq_true]
  apply filterMap_range_prefix
  · have : m ≤ m * len := Nat.le_mul_of_pos_right _ hl
    omega
  · intro j hj
    have : j * len < m * len := Nat.mul_lt_mul_of_pos_right hj hl
    simp only [this, if_true, Nat.add_mul, Nat.one_mul, Nat.add_comm]
  · intro j hj
    have : ¬ j * len < m * len := by
      have := Nat.mul_le_mul_right len hj
      omega
    simp only [this, if_false]

theorem ranges_snd_pos (p : PInput) (within : Option (Nat × Nat)) (hw : WithinOk within) :
    ∀ r ∈ ranges p within, 0 < r.2 := by
  intro r hr
  cases within with
  | none =>
    simp only [ranges] at hr
    split at hr
    · simp at hr; subst hr; assumption
    · simp at hr
  | some lp =>
    obtain ⟨len, pre⟩ := lp
    have hlen := hw len pre rfl
    simp only [ranges] at hr
    generalize (if p.postPreamble = true then p.commonPreamble - pre else 0) = start at hr
    split at hr
    · split at hr
      · simp at hr; subst hr; exact hlen
      · simp at hr
    · rw [List.mem_filterMap] at hr
      obtain ⟨j, _, h⟩ := hr
      split at h
      · injection h with h
        subst h
        show 0 < len + j * (len - pre)
        omega
      · cases h

/-! ### the variable lists -/

/-- `build_variable_lists`: for every range, the variables of level `l` of factor `i` in the trials of the range
    the factor applies to, in trial order -/
theorem variableLists_eq (p : PInput) (hwf : C14.WF p.layout) (i l : Nat) (f : LFactor)
    (hf : p.layout.factors[i]? = some f) (within : Option (Nat × Nat)) (hw : WithinOk within) :
    variableLists p i l within =
      (ranges p within).map (fun r => (applicable f r.1 r.2).map (fun t => enc p i l (t + 1))) := by
  have hfa : factorAt p i = f := by simp [factorAt, hf]
  have hmem : f ∈ p.layout.factors := List.mem_of_getElem? hf
  obtain ⟨_, _, hnl, hsimple⟩ := hwf f hmem
  simp only [variableLists, hfa]
  apply List.map_congr_left
  intro r hr
  cases hc : f.complex with
  | false =>
    obtain ⟨h0, h1⟩ := hsimple hc
    simp only [Bool.false_eq_true, if_false]
    rw [applicable_all f (appliesTrial_of_simple f h0 h1), List.map_map]
    apply List.map_congr_left
    intro j _
    simp only [Function.comp, enc, encodeVar, hf, hc, Bool.false_eq_true, if_false, vpt]
    rw [C14.previousCount_simple hwf hf hc]
    congr 1
    have e : r.1 + j + 1 - 1 = r.1 + j := by omega
    rw [e, Nat.mul_add, Nat.mul_comm r.1, Nat.mul_comm j]
    omega
  | true =>
    have hb : r.2 ≠ 0 := by
      have := ranges_snd_pos p within hw r hr
      omega
    simp only [if_true]
    rw [varsForFactorIn_div p f hnl r.1 r.2 hb, varsForFactorIn_before p f hnl r.1]
    have hR : (applicable f r.1 r.2).map (fun t => enc p i l (t + 1)) =
        ((applicable f r.1 r.2).map (appliedCount f)).map
          (fun c => ((firstVariableForLevel p.layout i l + f.nlevels * c + 1 : Nat) : Int)) := by
      rw [List.map_map]
      apply List.map_congr_left
      intro t _
      simp only [Function.comp, enc, encodeVar, hf, hc, if_true, previousCount, Nat.add_sub_cancel]
    rw [hR, applicable_counts, List.map_map]
    apply List.map_congr_left
    intro v _
    simp only [Function.comp]
    congr 1
    rw [Nat.mul_comm f.nlevels, Nat.add_comm (appliedCount f r.1) v]
    omega

/-- a factor without complex window applies to every trial -/
theorem applicable_simple (p : PInput) (hwf : C14.WF p.layout) (i : Nat) (f : LFactor)
    (hf : p.layout.factors[i]? = some f) (hc : f.complex = false) (a b : Nat) :
    applicable f a b = (List.range (b - a)).map (fun u => a + u) := by
  obtain ⟨h0, h1⟩ := hwf.simple f (List.mem_of_getElem? hf) hc
  exact applicable_all f (appliesTrial_of_simple f h0 h1) a b

/-- the variables are positive, so a positive literal's value is the assignment's value -/
theorem litVal_enc (p : PInput) (ρ : Assign) (i l t : Nat) (f : LFactor) (hf : p.layout.factors[i]? = some f) :
    litVal ρ (enc p i l t) = ρ (encodeVar p.layout i l t) ∧ litVal ρ (-(enc p i l t)) = !ρ (encodeVar p.layout i l t) := by
  have hpos : 0 < encodeVar p.layout i l t := by simp [encodeVar, hf]
  unfold litVal enc
  constructor
  · have hne : encodeVar p.layout i l t ≠ 0 := by omega
    simp [hne]
  · have hneg : ¬ (0 : Int) < -((encodeVar p.layout i l t : Nat) : Int) := by omega
    rw [if_neg hneg, Int.natAbs_neg, Int.natAbs_natCast]

/-- `get_trial_numbers` -/
theorem mem_trialNumbers (p : PInput) (idx : Int) (within : Option (Nat × Nat)) (s t : Nat) :
    t ∈ trialNumbers p idx within s ↔
      ∃ r ∈ ranges p within, ∃ j, j < s ∧
        let base : Int := if idx < 0 then (r.2 : Int) + (s : Int) * idx else (r.1 : Int) + (s : Int) * idx
        (r.1 : Int) ≤ base ∧ base < (r.2 : Int) ∧ (t : Int) = base + j := by
  simp only [trialNumbers, List.mem_flatMap]
  apply exists_congr; intro r
  apply and_congr_right; intro _
  generalize (if idx < 0 then (r.2 : Int) + (s : Int) * idx else (r.1 : Int) + (s : Int) * idx) = base
  by_cases hcond : (r.1 : Int) ≤ base ∧ base < (r.2 : Int)
  · have hnn : (0 : Int) ≤ base := by omega
    have htn := Int.toNat_of_nonneg hnn
    rw [if_pos hcond, List.mem_map]
    constructor
    · rintro ⟨j, hj, rfl⟩
      exact ⟨j, List.mem_range.1 hj, hcond.1, hcond.2, by omega⟩
    · rintro ⟨j, hj, -, -, h3⟩
      exact ⟨j, List.mem_range.2 hj, by omega⟩
  · rw [if_neg hcond]
    constructor
    · intro h; cases h
    · rintro ⟨j, _, h1, h2, -⟩
      exact absurd ⟨h1, h2⟩ hcond

end SPModel.Pipeline
