/-
  Helper lemmas for `MeaningRuns`: how `Backend.holds` distributes over the folds with which
  `Pipeline.applyConstraint` appends raw items, requests and (cumulative) formulas, and the truth
  values of a variable list as `selIn`.
-/
import SPProofs.Pipeline.Sel
import SPProofs.Properties.C01
import SPProofs.Logic.Lemmas

namespace SPModel.Pipeline
open SPModel Layout

theorem eval_and_iff (ρ : Assign) (fs : List Formula) :
    Formula.eval ρ (.and fs) = true ↔ ∀ f ∈ fs, f.eval ρ = true := by
  simp only [Formula.eval, evalAll_eq_all, List.all_eq_true]

theorem holds_addCnfs (b : Backend) (items : List CnfItem) (ρ : Assign) :
    ({ b with cnfs := b.cnfs ++ items } : Backend).holds ρ = true ↔
      b.holds ρ = true ∧ ∀ it ∈ items, it.holds ρ = true := by
  simp only [holds_def, List.mem_append]
  constructor
  · rintro ⟨h1, h2⟩
    exact ⟨⟨fun it h => h1 it (Or.inl h), h2⟩, fun it h => h1 it (Or.inr h)⟩
  · rintro ⟨⟨h1, h2⟩, h3⟩
    exact ⟨fun it h => h.elim (h1 it) (h3 it), h2⟩

theorem holds_addReqs (b : Backend) (rs : List Request) (ρ : Assign) :
    ({ b with reqs := b.reqs ++ rs } : Backend).holds ρ = true ↔
      b.holds ρ = true ∧ ∀ r ∈ rs, r.holds ρ = true := by
  simp only [holds_def, List.mem_append]
  constructor
  · rintro ⟨h1, h2⟩
    exact ⟨⟨h1, fun r h => h2 r (Or.inl h)⟩, fun r h => h2 r (Or.inr h)⟩
  · rintro ⟨⟨h1, h2⟩, h3⟩
    exact ⟨h1, fun r h => h.elim (h2 r) (h3 r)⟩

theorem holds_addCnf1 (b : Backend) (it : CnfItem) (ρ : Assign) :
    ({ b with cnfs := b.cnfs ++ [it] } : Backend).holds ρ = true ↔ b.holds ρ = true ∧ it.holds ρ = true := by
  rw [holds_addCnfs]
  simp only [List.mem_singleton, forall_eq]

theorem holds_addReq1 (b : Backend) (r : Request) (ρ : Assign) :
    ({ b with reqs := b.reqs ++ [r] } : Backend).holds ρ = true ↔ b.holds ρ = true ∧ r.holds ρ = true := by
  rw [holds_addReqs]
  simp only [List.mem_singleton, forall_eq]

theorem raw_holds (ρ : Assign) (lits : List Int) :
    (CnfItem.raw lits).holds ρ = true ↔ ∀ v ∈ lits, litVal ρ v = true := by
  simp only [CnfItem.holds, List.all_eq_true]

/-- the contradiction item `And([1, -1])` never holds -/
theorem raw_contradiction (ρ : Assign) : (CnfItem.raw [1, -1]).holds ρ = false := by
  simp only [CnfItem.holds, List.all_cons, List.all_nil, litVal]
  cases h : ρ 1 <;> simp [h]

/-- a fold appending one raw item per element -/
theorem holds_foldl_raw {α : Type} (g : α → List Int) (xs : List α) (b : Backend) (ρ : Assign) :
    (xs.foldl (fun b x => { b with cnfs := b.cnfs ++ [CnfItem.raw (g x)] }) b).holds ρ = true ↔
      b.holds ρ = true ∧ ∀ x ∈ xs, ∀ v ∈ g x, litVal ρ v = true := by
  induction xs generalizing b with
  | nil => simp
  | cons x xs ih =>
    rw [List.foldl_cons, ih, holds_addCnf1, raw_holds]
    simp only [List.mem_cons, forall_eq_or_imp, and_assoc]

/-- the fold of `ExactlyK.apply`: a request per non-empty range, a contradiction for an empty one -/
theorem holds_foldl_exactlyK (k : Nat) (hk : 0 < k) (xs : List (List Int)) (b : Backend) (ρ : Assign) :
    (xs.foldl (fun b vars =>
      match Compile.exactlyK k vars with
      | .request r => { b with reqs := b.reqs ++ [r] }
      | .contradiction => { b with cnfs := b.cnfs ++ [CnfItem.raw [1, -1]] }) b).holds ρ = true ↔
      b.holds ρ = true ∧ ∀ vars ∈ xs, ((C01.bits ρ vars).filter id).length = k := by
  induction xs generalizing b with
  | nil => simp
  | cons x xs ih =>
    rw [List.foldl_cons, ih]
    have key := C01.exactlyK_iff k hk x ρ
    simp only [List.mem_cons, forall_eq_or_imp]
    rw [← key]
    cases h : Compile.exactlyK k x with
    | request r =>
      dsimp only
      rw [holds_addReq1, and_assoc]
    | contradiction =>
      dsimp only
      rw [holds_addCnf1, and_assoc, raw_contradiction]
      simp

/-- the fold of `ExactlyKInARow.apply`: the implication list accumulates over the ranges and the conjunction of
    all implications so far is pushed after each range -/
theorem holds_foldl_exactRow (k : Nat) (xs : List (List Int)) (acc : List Formula) (b : Backend) (ρ : Assign) :
    ((xs.foldl (fun (acc : List Formula × Backend) vars =>
        let imps := acc.1 ++ Compile.exactlyInARowFormulas k vars
        (imps, pushFormula acc.2 (.and imps))) (acc, b)).2).holds ρ = true ↔
      b.holds ρ = true ∧ (xs ≠ [] → ∀ f ∈ acc, f.eval ρ = true) ∧
        ∀ vars ∈ xs, ∀ f ∈ Compile.exactlyInARowFormulas k vars, f.eval ρ = true := by
  induction xs generalizing acc b with
  | nil => simp
  | cons x xs ih =>
    rw [List.foldl_cons, ih, holds_pushFormula, eval_and_iff]
    simp only [List.mem_append, List.mem_cons, forall_eq_or_imp, ne_eq, reduceCtorEq, not_false_eq_true,
      forall_const]
    constructor
    · rintro ⟨⟨hb, h1⟩, _, h3⟩
      exact ⟨hb, fun f hf => h1 f (Or.inl hf), fun f hf => h1 f (Or.inr hf), h3⟩
    · rintro ⟨hb, h1, h2, h3⟩
      have h12 : ∀ f, f ∈ acc ∨ f ∈ Compile.exactlyInARowFormulas k x → f.eval ρ = true :=
        fun f hf => hf.elim (h1 f) (h2 f)
      exact ⟨⟨hb, h12⟩, fun _ => h12, h3⟩

/-- the truth values of the variable list of a range are the selections of the level in the range's trials -/
theorem bits_enc (p : PInput) (ρ : Assign) (i l : Nat) (f : LFactor) (hf : p.layout.factors[i]? = some f)
    (a b : Nat) :
    C01.bits ρ ((applicable f a b).map (fun t => enc p i l (t + 1))) = selIn p ρ i l f a b := by
  unfold C01.bits selIn
  rw [List.map_map]
  apply List.map_congr_left
  intro t _
  exact (litVal_enc p ρ i l (t + 1) f hf).1

end SPModel.Pipeline
