/-
  What the constraints over one level mean for an assignment of the design variables:
  `Exclude`, `Pin`, `AtMostKInARow`, `AtLeastKInARow`, `ExactlyKInARow`, `ExactlyK`
  as `Pipeline.applyConstraint` (model of their `apply`) compiles them, including the
  block-scoped (`within_block`) ranges.  `sel p ρ i l t` = "level l of factor i is selected
  in trial t"; `selIn … a b` lists that over the trials of `[a, b)` the factor applies to;
  `Compile.runs` are the lengths of the maximal runs of `true`.
-/
import SPProofs.Pipeline.Sel
import SPProofs.Properties.C01
import SPProofs.Pipeline.MeaningRunsAux

namespace SPModel.Pipeline
open SPModel Layout

theorem exclude_meaning (p : PInput) (hwf : C14.WF p.layout) (b : Backend) (i l : Nat) (f : LFactor)
    (hf : p.layout.factors[i]? = some f) (ρ : Assign) :
    (applyConstraint p b (.exclude i l)).holds ρ = true ↔
      b.holds ρ = true ∧ ∀ t ∈ applicable f 0 (trials p), sel p ρ i l (t + 1) = false := by
  have hw : WithinOk none := by intro len pre h; cases h
  simp only [applyConstraint]
  rw [variableLists_eq p hwf i l f hf none hw]
  refine (holds_foldl_raw (fun vars : List Int => vars.map (fun v => -v)) _ b ρ).trans ?_
  apply and_congr_right; intro _
  have hneg : ∀ t, litVal ρ (-(enc p i l (t + 1))) = true ↔ sel p ρ i l (t + 1) = false := by
    intro t
    rw [(litVal_enc p ρ i l (t + 1) f hf).2]
    unfold sel
    cases ρ (encodeVar p.layout i l (t + 1)) <;> simp
  by_cases ht : 0 < trials p
  · rw [ranges_none p ht]
    simp only [List.map_cons, List.map_nil, List.mem_singleton, forall_eq, List.mem_map, forall_exists_index,
      and_imp, forall_apply_eq_imp_iff₂, hneg]
  · have h0 : trials p = 0 := by omega
    rw [ranges_none_zero p h0, h0]
    simp [applicable]

theorem pin_meaning (p : PInput) (b : Backend) (idx : Int) (i l : Nat) (f : LFactor)
    (hf : p.layout.factors[i]? = some f) (within : Option (Nat × Nat)) (s : Nat) (ρ : Assign) :
    (applyConstraint p b (.pin idx i l within s)).holds ρ = true ↔
      b.holds ρ = true ∧ trialNumbers p idx within s ≠ [] ∧
        ∀ t ∈ trialNumbers p idx within s, sel p ρ i l (t + 1) = true := by
  simp only [applyConstraint]
  cases h : trialNumbers p idx within s with
  | nil =>
    dsimp only
    rw [holds_addCnf1, raw_contradiction]
    simp
  | cons t ts =>
    dsimp only
    refine (holds_foldl_raw (fun t => [enc p i l (t + 1)]) (t :: ts) b ρ).trans ?_
    apply and_congr_right; intro _
    simp only [List.mem_singleton, forall_eq, (litVal_enc p ρ i l _ f hf).1, sel, ne_eq, reduceCtorEq,
      not_false_eq_true, true_and]

theorem atMost_meaning (p : PInput) (hwf : C14.WF p.layout) (b : Backend) (k i l : Nat) (f : LFactor)
    (hf : p.layout.factors[i]? = some f) (within : Option (Nat × Nat)) (hw : WithinOk within) (ρ : Assign) :
    (applyConstraint p b (.atMost k i l within)).holds ρ = true ↔
      b.holds ρ = true ∧ ∀ r ∈ ranges p within, ∀ m ∈ Compile.runs (selIn p ρ i l f r.1 r.2), m ≤ k := by
  simp only [applyConstraint]
  rw [holds_addReqs, variableLists_eq p hwf i l f hf within hw]
  apply and_congr_right; intro _
  simp only [List.mem_flatMap, List.mem_map]
  constructor
  · intro h r hr
    have := (C01.atMost_iff k _ ρ).1 (fun q hq => h q ⟨_, ⟨r, hr, rfl⟩, hq⟩)
    rwa [bits_enc p ρ i l f hf] at this
  · rintro h q ⟨vars, ⟨r, hr, rfl⟩, hq⟩
    have := h r hr
    rw [← bits_enc p ρ i l f hf] at this
    exact (C01.atMost_iff k _ ρ).2 this q hq

theorem atLeast_meaning (p : PInput) (hwf : C14.WF p.layout) (b : Backend) (k i l : Nat) (hk : 0 < k) (f : LFactor)
    (hf : p.layout.factors[i]? = some f) (within : Option (Nat × Nat)) (hw : WithinOk within) (ρ : Assign) :
    (applyConstraint p b (.atLeast k i l within)).holds ρ = true ↔
      b.holds ρ = true ∧ ∀ r ∈ ranges p within, ∀ m ∈ Compile.runs (selIn p ρ i l f r.1 r.2), k ≤ m := by
  simp only [applyConstraint]
  rw [holds_pushFormula, variableLists_eq p hwf i l f hf within hw, eval_and_iff]
  apply and_congr_right; intro _
  simp only [List.mem_flatMap, List.mem_map]
  constructor
  · intro h r hr
    have := (C01.atLeast_iff k hk _ ρ).1 (fun q hq => h q ⟨_, ⟨r, hr, rfl⟩, hq⟩)
    rwa [bits_enc p ρ i l f hf] at this
  · rintro h q ⟨vars, ⟨r, hr, rfl⟩, hq⟩
    have := h r hr
    rw [← bits_enc p ρ i l f hf] at this
    exact (C01.atLeast_iff k hk _ ρ).2 this q hq

theorem exactlyInARow_meaning (p : PInput) (hwf : C14.WF p.layout) (b : Backend) (k i l : Nat) (hk : 0 < k) (f : LFactor)
    (hf : p.layout.factors[i]? = some f) (within : Option (Nat × Nat)) (hw : WithinOk within) (ρ : Assign) :
    (applyConstraint p b (.exactlyInARow k i l within)).holds ρ = true ↔
      b.holds ρ = true ∧ ∀ r ∈ ranges p within, ∀ m ∈ Compile.runs (selIn p ρ i l f r.1 r.2), m = k := by
  simp only [applyConstraint]
  rw [holds_foldl_exactRow, variableLists_eq p hwf i l f hf within hw]
  apply and_congr_right; intro _
  simp only [List.not_mem_nil, false_imp_iff, implies_true, true_and, List.mem_map,
    forall_exists_index, and_imp, forall_apply_eq_imp_iff₂]
  apply forall_congr'; intro r
  apply imp_congr_right; intro _
  rw [C01.exactlyInARow_iff k hk, bits_enc p ρ i l f hf]

theorem exactlyK_meaning (p : PInput) (hwf : C14.WF p.layout) (b : Backend) (k i l : Nat) (hk : 0 < k) (f : LFactor)
    (hf : p.layout.factors[i]? = some f) (within : Option (Nat × Nat)) (hw : WithinOk within) (ρ : Assign) :
    (applyConstraint p b (.exactlyK k i l within)).holds ρ = true ↔
      b.holds ρ = true ∧ ∀ r ∈ ranges p within, ((selIn p ρ i l f r.1 r.2).filter id).length = k := by
  simp only [applyConstraint]
  rw [variableLists_eq p hwf i l f hf within hw]
  refine (holds_foldl_exactlyK k hk _ b ρ).trans ?_
  apply and_congr_right; intro _
  simp only [List.mem_map, forall_exists_index, and_imp, forall_apply_eq_imp_iff₂, bits_enc p ρ i l f hf]

end SPModel.Pipeline
