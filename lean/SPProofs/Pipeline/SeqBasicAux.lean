/-
  Helper lemmas for `SPProofs.Pipeline.SeqBasic`.
-/
import SPProofs.Pipeline.SeqDefs
import SPProofs.Pipeline.Glue

namespace SPModel.Pipeline
open SPModel Layout

namespace SeqAux

/-! ### `applicable` -/

theorem mem_applicable (f : LFactor) (a b t : Nat) :
    t ∈ applicable f a b ↔ a ≤ t ∧ t < b ∧ appliesTrial f (t + 1) = true := by
  unfold applicable
  simp only [List.mem_filter, List.mem_map, List.mem_range]
  constructor
  · rintro ⟨⟨u, hu, rfl⟩, h⟩
    exact ⟨by omega, by omega, h⟩
  · rintro ⟨h1, h2, h3⟩
    exact ⟨⟨t - a, by omega, by omega⟩, h3⟩

theorem applicable_sub (f : LFactor) (a b n t : Nat) (hb : b ≤ n) (h : t ∈ applicable f a b) :
    t ∈ applicable f 0 n := by
  rw [mem_applicable] at h ⊢
  exact ⟨by omega, by omega, h.2.2⟩

theorem factorAt_eq (p : PInput) (i : Nat) (f : LFactor) (hf : p.layout.factors[i]? = some f) :
    factorAt p i = f := by
  simp [factorAt, hf]

theorem lt_of_get (p : PInput) (i : Nat) (f : LFactor) (hf : p.layout.factors[i]? = some f) :
    i < p.layout.factors.length := by
  rcases Nat.lt_or_ge i p.layout.factors.length with h | h
  · exact h
  · rw [List.getElem?_eq_none h] at hf; cases hf

theorem choice_of_applicable (p : PInput) (i l : Nat) (f : LFactor) (hf : p.layout.factors[i]? = some f)
    (t : Nat) (ht : t ∈ applicable f 0 (trials p)) (hl : l < f.nlevels) :
    C14.Choice p.layout i l (t + 1) := by
  rw [mem_applicable] at ht
  exact ⟨f, hf, hl, by omega, by have := ht.2.1; unfold trials at this; omega, ht.2.2⟩

/-! ### `assignOf` -/

theorem assignOf_true_iff (p : PInput) (s : TSeq) (v : Nat) :
    assignOf p s v = true ↔
      ∃ i, i < p.layout.factors.length ∧ ∃ t, t ∈ applicable (factorAt p i) 0 (trials p) ∧
        s i (t + 1) < (factorAt p i).nlevels ∧ encodeVar p.layout i (s i (t + 1)) (t + 1) = v := by
  simp only [assignOf, List.any_eq_true, List.mem_range, Bool.and_eq_true, decide_eq_true_eq]

theorem assignOf_enc (p : PInput) (hwf : C14.WF p.layout) (s : TSeq) (_hs : WellShaped p s)
    (i l : Nat) (f : LFactor) (hf : p.layout.factors[i]? = some f) (t : Nat) (ht : t ∈ applicable f 0 (trials p))
    (hl : l < f.nlevels) :
    assignOf p s (encodeVar p.layout i l (t + 1)) = decide (s i (t + 1) = l) := by
  rw [Bool.eq_iff_iff, assignOf_true_iff, decide_eq_true_eq]
  constructor
  · rintro ⟨i', hi', t', ht', hl', he⟩
    have hf' := factorAt_get p i' hi'
    have c' := choice_of_applicable p i' _ _ hf' t' ht' hl'
    have c := choice_of_applicable p i l f hf t ht hl
    obtain ⟨e1, e2, e3⟩ := C14.encode_injective p.layout hwf _ _ _ _ _ _ c' c he
    subst e1
    have : t' = t := by omega
    subst this
    exact e2
  · intro h
    have hfa := factorAt_eq p i f hf
    refine ⟨i, lt_of_get p i f hf, t, by rw [hfa]; exact ht, by rw [hfa, h]; exact hl, by rw [h]⟩

theorem assignOf_outside (p : PInput) (hwf : C14.WF p.layout) (s : TSeq) (v : Nat)
    (hv : v = 0 ∨ variablesPerSample p.layout < v) : assignOf p s v = false := by
  cases h : assignOf p s v with
  | false => rfl
  | true =>
    rw [assignOf_true_iff] at h
    obtain ⟨i, hi, t, ht, hl, he⟩ := h
    have c := choice_of_applicable p i _ _ (factorAt_get p i hi) t ht hl
    have := C14.encode_range p.layout hwf _ _ _ c
    omega

theorem assignOf_inj (p : PInput) (hwf : C14.WF p.layout) (s₁ s₂ : TSeq) (h₁ : WellShaped p s₁) (h₂ : WellShaped p s₂)
    (h : Agree (variablesPerSample p.layout) (assignOf p s₁) (assignOf p s₂)) :
    ∀ i f, p.layout.factors[i]? = some f → ∀ t ∈ applicable f 0 (trials p), s₁ i (t + 1) = s₂ i (t + 1) := by
  intro i f hf t ht
  have hl := h₁ i f hf t ht
  have c := choice_of_applicable p i _ f hf t ht hl
  have hr := C14.encode_range p.layout hwf _ _ _ c
  have e1 := assignOf_enc p hwf s₁ h₁ i _ f hf t ht hl
  have e2 := assignOf_enc p hwf s₂ h₂ i _ f hf t ht hl
  rw [h _ hr.1 hr.2, e2] at e1
  exact (by simpa using e1 : s₂ i (t + 1) = s₁ i (t + 1)).symm

/-- the bridge: under an assignment that encodes `s`, "level `l` is selected" is `s i t = l` -/
theorem sel_eq (p : PInput) (hwf : C14.WF p.layout) (s : TSeq) (hs : WellShaped p s) (ρ : Assign)
    (hag : Agree (variablesPerSample p.layout) (assignOf p s) ρ)
    (i l : Nat) (f : LFactor) (hf : p.layout.factors[i]? = some f) (t : Nat) (ht : t ∈ applicable f 0 (trials p))
    (hl : l < f.nlevels) :
    sel p ρ i l (t + 1) = decide (s i (t + 1) = l) := by
  have c := choice_of_applicable p i l f hf t ht hl
  have hr := C14.encode_range p.layout hwf _ _ _ c
  unfold sel
  rw [← hag _ hr.1 hr.2]
  exact assignOf_enc p hwf s hs i l f hf t ht hl

/-! ### `Consistency` -/

theorem filter_eq_length (k n : Nat) :
    ((List.range n).filter (fun l => decide (k = l))).length = if k < n then 1 else 0 := by
  induction n with
  | zero => simp
  | succ n ih =>
    rw [List.range_succ, List.filter_append, List.length_append, ih]
    by_cases h1 : k < n
    · have : ¬ k = n := by omega
      simp [h1, this]; omega
    · by_cases h2 : k = n
      · subst h2; simp
      · have : ¬ k < n + 1 := by omega
        simp [h1, h2, this]

theorem consistency_of_seq (p : PInput) (hwf : C14.WF p.layout) (s : TSeq) (hs : WellShaped p s) (ρ : Assign)
    (hag : Agree (variablesPerSample p.layout) (assignOf p s) ρ) (fr : Nat) : Meaning p fr ρ .consistency := by
  intro i f hf t ht
  have e : (List.range f.nlevels).filter (fun l => sel p ρ i l (t + 1)) =
      (List.range f.nlevels).filter (fun l => decide (s i (t + 1) = l)) := by
    apply List.filter_congr
    intro l hl
    exact sel_eq p hwf s hs ρ hag i l f hf t ht (List.mem_range.1 hl)
  rw [e, filter_eq_length, if_pos (hs i f hf t ht)]

theorem find_of_filter_one (n : Nat) (q : Nat → Bool) (h : ((List.range n).filter q).length = 1)
    (l : Nat) (hl : l < n) :
    q l = decide (((List.range n).find? q).getD 0 = l) := by
  rw [← List.head?_filter]
  have hm : l ∈ (List.range n).filter q ↔ q l = true := by
    rw [List.mem_filter, List.mem_range]
    exact ⟨fun h => h.2, fun h => ⟨hl, h⟩⟩
  match hq : (List.range n).filter q, h with
  | [a], _ =>
    rw [hq] at hm
    simp only [List.mem_singleton] at hm
    show q l = decide (a = l)
    rw [Bool.eq_iff_iff, decide_eq_true_eq, ← hm]
    exact eq_comm

theorem find_lt (n : Nat) (hn : 0 < n) (q : Nat → Bool) : ((List.range n).find? q).getD 0 < n := by
  cases h : (List.range n).find? q with
  | none => exact hn
  | some a =>
    have := List.mem_of_find?_eq_some h
    simpa using this

theorem exists_seq_of_consistency (p : PInput) (hwf : C14.WF p.layout) (ρ : Assign)
    (hc : Meaning p 0 ρ .consistency) :
    ∃ s, WellShaped p s ∧ Agree (variablesPerSample p.layout) (assignOf p s) ρ := by
  let s : TSeq := fun i t => ((List.range (factorAt p i).nlevels).find? (fun l => sel p ρ i l t)).getD 0
  have hs : WellShaped p s := by
    intro i f hf t _
    have hfa := factorAt_eq p i f hf
    obtain ⟨_, _, hn, _⟩ := hwf f (List.mem_of_getElem? hf)
    show ((List.range (factorAt p i).nlevels).find? (fun l => sel p ρ i l (t + 1))).getD 0 < f.nlevels
    rw [hfa]
    exact find_lt _ hn _
  refine ⟨s, hs, ?_⟩
  intro v h1 h2
  obtain ⟨i, l, t, c, rfl⟩ := C14.encode_surjective p.layout hwf v ⟨h1, h2⟩
  obtain ⟨f, hf, hl, ht1, htT, hta⟩ := c
  obtain ⟨t', rfl⟩ : ∃ t', t = t' + 1 := ⟨t - 1, by omega⟩
  have ht' : t' ∈ applicable f 0 (trials p) := by
    rw [mem_applicable]
    exact ⟨by omega, by unfold trials; omega, hta⟩
  rw [assignOf_enc p hwf s hs i l f hf t' ht' hl]
  have hfa := factorAt_eq p i f hf
  have h1' := hc i f hf t' ht'
  have := find_of_filter_one f.nlevels (fun l => sel p ρ i l (t' + 1)) h1' l hl
  show decide (((List.range (factorAt p i).nlevels).find? (fun l => sel p ρ i l (t' + 1))).getD 0 = l) = _
  rw [hfa, ← this]
  rfl

/-! ### extracting facts from `seqOk` -/

theorem seqOk_level (p : PInput) (hseq : seqOk p = true) (c : PConstraint) (hc : c ∈ p.constraints) :
    levelOk p c = true := by
  simp only [seqOk, Bool.and_eq_true, List.all_eq_true] at hseq
  exact hseq.1.2 c hc

theorem seqOk_deriv (p : PInput) (hseq : seqOk p = true) (c : PConstraint) (hc : c ∈ p.constraints)
    (g : Formula) (hg : derivationFormula p c = some g) :
    ∀ l ∈ flits g, l ≠ 0 ∧ l.natAbs ≤ variablesPerSample p.layout := by
  simp only [seqOk, Bool.and_eq_true, List.all_eq_true] at hseq
  have := hseq.1.1 c hc
  rw [hg] at this
  simp only [List.all_eq_true, Bool.and_eq_true, decide_eq_true_eq] at this
  exact this

/-! ### `selIn` / `seqIn` -/

theorem selIn_eq (p : PInput) (hwf : C14.WF p.layout) (s : TSeq) (hs : WellShaped p s) (ρ : Assign)
    (hag : Agree (variablesPerSample p.layout) (assignOf p s) ρ)
    (i l : Nat) (f : LFactor) (hf : p.layout.factors[i]? = some f) (hl : l < f.nlevels)
    (a b : Nat) (hb : b ≤ trials p) :
    selIn p ρ i l f a b = seqIn s i l f a b := by
  unfold selIn seqIn
  apply List.map_congr_left
  intro t ht
  exact sel_eq p hwf s hs ρ hag i l f hf t (applicable_sub f a b _ t hb ht) hl

/-! ### derivations -/

theorem holds_empty (n : Nat) (ρ : Assign) : ({ fresh := n, cnfs := [], reqs := [] } : Backend).holds ρ = true := by
  rw [holds_def]; simp

theorem meaning_derivation (p : PInput) (fr : Nat) (ρ : Assign) (d : Nat) (deps : List (List Dep)) (fi : Nat) (sd : Int) :
    Meaning p fr ρ (.derivation d deps fi sd) ↔
      ∀ g, derivationFormula p (.derivation d deps fi sd) = some g → g.eval ρ = true := by
  by_cases hd : d < gridVariables p.layout
  · have hdf : derivationFormula p (.derivation d deps fi sd) = some (derivationSimple p d deps) := by
      simp only [derivationFormula, if_pos hd]
    rw [hdf]
    have hall : (∀ g, some (derivationSimple p d deps) = some g → g.eval ρ = true) ↔
        (derivationSimple p d deps).eval ρ = true :=
      ⟨fun h => h _ rfl, fun h g e => (by cases e; exact h)⟩
    rw [hall]
    cases hp : plainDeps deps with
    | some ds =>
      have hdeps := Asm.mapM_mapM_var_eq deps ds hp
      subst hdeps
      have := derivationSimple_meaning p { fresh := 1, cnfs := [], reqs := [] } d ds fi sd hd ρ
      simp only [applyConstraint, if_pos hd] at this
      rw [holds_pushFormula] at this
      simp only [holds_empty, true_and] at this
      simp only [Meaning, if_pos hd, hp]
      exact this.symm
    | none =>
      simp only [Meaning, if_pos hd, hp]
  · cases hg : derivationComplex p d deps fi sd with
    | some g =>
      simp only [Meaning, derivationFormula, if_neg hd, hg]
      exact ⟨fun h g' e => (by cases e; exact h), fun h => h _ rfl⟩
    | none =>
      simp only [Meaning, derivationFormula, if_neg hd, hg]
      exact ⟨fun _ g' e => (by cases e), fun _ => trivial⟩

theorem eval_congr_vps (n : Nat) (σ ρ : Assign) (hag : Agree n σ ρ) (g : Formula)
    (h : ∀ l ∈ flits g, l ≠ 0 ∧ l.natAbs ≤ n) : g.eval σ = g.eval ρ := by
  have hwf : g.WF (n + 1) := (flits_spec (n + 1) g).1 (fun l hl => ⟨(h l hl).1, by have := (h l hl).2; omega⟩)
  have hab : AgreeBelow (n + 1) σ ρ := fun v h1 h2 => hag v h1 (by omega)
  exact Switch.eval_agree hab g hwf

/-! ### the bridge, class by class -/

theorem meaning_iff_seqMeaning (p : PInput) (hwf : C14.WF p.layout) (hseq : seqOk p = true) (s : TSeq)
    (hs : WellShaped p s) (ρ : Assign) (hag : Agree (variablesPerSample p.layout) (assignOf p s) ρ)
    (fr : Nat) (c : PConstraint) (hc : c ∈ p.constraints) (hok : ConstraintOk p c)
    (hnc : c ≠ .cross) :
    Meaning p fr ρ c ↔ SeqMeaning p s c := by
  have hlev := seqOk_level p hseq c hc
  cases c with
  | noop => exact Iff.rfl
  | consistency => exact ⟨fun _ => trivial, fun _ => consistency_of_seq p hwf s hs ρ hag fr⟩
  | cross => exact absurd rfl hnc
  | sustain =>
    simp only [Meaning, SeqMeaning]
    constructor
    · intro h i f hf l hl j hj
      rw [← selIn_eq p hwf s hs ρ hag i l f hf hl 0 (trials p) (Nat.le_refl _)]
      exact h i f hf l hl j hj
    · intro h i f hf l hl j hj
      rw [selIn_eq p hwf s hs ρ hag i l f hf hl 0 (trials p) (Nat.le_refl _)]
      exact h i f hf l hl j hj
  | exclude i l =>
    have hf := factorAt_get p i hok
    have hl : l < (factorAt p i).nlevels := by simpa [levelOk] using hlev
    simp only [Meaning, SeqMeaning]
    apply forall_congr'; intro t
    apply forall_congr'; intro ht
    rw [sel_eq p hwf s hs ρ hag i l _ hf t ht hl]
    simp
  | pin idx i l within sn =>
    have hf := factorAt_get p i hok
    simp only [levelOk, Bool.and_eq_true, decide_eq_true_eq, List.all_eq_true] at hlev
    obtain ⟨hl, htn⟩ := hlev
    simp only [Meaning, SeqMeaning]
    apply and_congr_right; intro _
    apply forall_congr'; intro t
    apply forall_congr'; intro ht
    have hta : t ∈ applicable (factorAt p i) 0 (trials p) := by
      rw [mem_applicable]
      exact ⟨Nat.zero_le _, (htn t ht).1, (htn t ht).2⟩
    rw [sel_eq p hwf s hs ρ hag i l _ hf t hta hl]
    simp
  | atMost k i l within =>
    have hf := factorAt_get p i hok.1
    simp only [levelOk, Bool.and_eq_true, decide_eq_true_eq, List.all_eq_true] at hlev
    obtain ⟨hl, hr⟩ := hlev
    simp only [Meaning, SeqMeaning]
    apply forall_congr'; intro r
    apply forall_congr'; intro hrm
    rw [selIn_eq p hwf s hs ρ hag i l _ hf hl r.1 r.2 (hr r hrm)]
  | atLeast k i l within =>
    have hf := factorAt_get p i hok.2.1
    simp only [levelOk, Bool.and_eq_true, decide_eq_true_eq, List.all_eq_true] at hlev
    obtain ⟨hl, hr⟩ := hlev
    simp only [Meaning, SeqMeaning]
    apply forall_congr'; intro r
    apply forall_congr'; intro hrm
    rw [selIn_eq p hwf s hs ρ hag i l _ hf hl r.1 r.2 (hr r hrm)]
  | exactlyInARow k i l within =>
    have hf := factorAt_get p i hok.2.1
    simp only [levelOk, Bool.and_eq_true, decide_eq_true_eq, List.all_eq_true] at hlev
    obtain ⟨hl, hr⟩ := hlev
    simp only [Meaning, SeqMeaning]
    apply forall_congr'; intro r
    apply forall_congr'; intro hrm
    rw [selIn_eq p hwf s hs ρ hag i l _ hf hl r.1 r.2 (hr r hrm)]
  | exactlyK k i l within =>
    have hf := factorAt_get p i hok.2.1
    simp only [levelOk, Bool.and_eq_true, decide_eq_true_eq, List.all_eq_true] at hlev
    obtain ⟨hl, hr⟩ := hlev
    simp only [Meaning, SeqMeaning]
    apply forall_congr'; intro r
    apply forall_congr'; intro hrm
    rw [selIn_eq p hwf s hs ρ hag i l _ hf hl r.1 r.2 (hr r hrm)]
  | sequential i pre =>
    have hf := factorAt_get p i hok
    have hcx : (factorAt p i).complex = false := by simpa [levelOk] using hlev
    obtain ⟨_, _, hn, hsim⟩ := hwf _ (List.mem_of_getElem? hf)
    obtain ⟨h0, h1⟩ := hsim hcx
    simp only [Meaning, SeqMeaning]
    apply forall_congr'; intro j
    apply forall_congr'; intro hj
    have hta : pre + j * (factorAt p i).sustain ∈ applicable (factorAt p i) 0 (trials p) := by
      rw [mem_applicable]
      exact ⟨Nat.zero_le _, hj, appliesTrial_of_simple _ h0 h1 _⟩
    have hsl := hs i _ hf _ hta
    have hmod : j % (factorAt p i).nlevels < (factorAt p i).nlevels := Nat.mod_lt _ hn
    constructor
    · intro h
      have := h _ hsl
      rw [sel_eq p hwf s hs ρ hag i _ _ hf _ hta hsl] at this
      simpa using this
    · intro h l hl
      rw [sel_eq p hwf s hs ρ hag i l _ hf _ hta hl, h]
      rw [Bool.eq_iff_iff, decide_eq_true_eq, decide_eq_true_eq]
      exact eq_comm
  | derivation d deps fi sd =>
    show _ ↔ Meaning p 0 (assignOf p s) (.derivation d deps fi sd)
    rw [meaning_derivation, meaning_derivation]
    apply forall_congr'; intro g
    apply forall_congr'; intro hg
    rw [eval_congr_vps _ _ _ hag g (seqOk_deriv p hseq _ hc g hg)]

end SeqAux

end SPModel.Pipeline
