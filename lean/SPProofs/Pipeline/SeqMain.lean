/-
  `Cross` at the level of sequences (the state variables are eliminated: an assignment
  that encodes `s` extends, in exactly one way, to state variables that satisfy the
  `Iff`s), the assembly over the whole constraint list, and the final statement: the
  models of the compiled clause list and the sequences `PValid` accepts correspond.
-/
import SPProofs.Pipeline.SeqBasic
import SPProofs.Properties.C02

namespace SPModel.Pipeline
open SPModel Layout

/-- what reading `Cross` at the level of sequences needs beyond `ConstraintOk .cross` (which only bounds the factor
    indices): every level an allowed combination names exists, and the crossed factors apply in every crossing
    trial.  (Without it the variable `encodeVar i l t` of a combination entry need not be the variable of
    (factor `i`, level `l`, trial `t`): e.g. with `l ≥ nlevels` it is a variable of another factor.) -/
def CrossOk (p : PInput) : Prop :=
  ∀ c ∈ p.crossings, ∀ ci, ci < c.combos.length → ∀ fl ∈ c.factors.zip (c.combos.getD ci []),
    fl.2 < (factorAt p fl.1).nlevels ∧
      ∀ t, c.preamble < t → t ≤ trials p → appliesTrial (factorAt p fl.1) t = true

namespace SeqAux

theorem all_congr_mem {α : Type} (l : List α) (f g : α → Bool) (h : ∀ a ∈ l, f a = g a) : l.all f = l.all g := by
  induction l with
  | nil => rfl
  | cons a as ih =>
    simp only [List.all_cons]
    rw [h a (List.mem_cons_self ..), ih (fun b hb => h b (List.mem_cons_of_mem _ hb))]

/-- `chunkCount` only evaluates its predicate below `T` -/
theorem chunkCount_congr (T chunk j : Nat) (q q' : Nat → Bool) (h : ∀ u, u < T → q u = q' u) :
    chunkCount T chunk j q = chunkCount T chunk j q' := by
  unfold chunkCount
  congr 1
  apply List.filter_congr
  intro u hu
  have hu' := List.mem_range.1 hu
  exact h _ (by omega)

theorem mem_applicable_of (f : LFactor) (n t : Nat) (h1 : 1 ≤ t) (h2 : t ≤ n) (ha : appliesTrial f t = true) :
    t - 1 ∈ applicable f 0 n := by
  unfold applicable
  rw [List.mem_filter]
  refine ⟨List.mem_map.2 ⟨t - 1, List.mem_range.2 (by omega), by omega⟩, ?_⟩
  have : t - 1 + 1 = t := by omega
  rw [this]; exact ha

/-- under an assignment that encodes `s`, "the combination is selected" is a statement about `s` -/
theorem comboSel_eq_comboIs (p : PInput) (hwf : C14.WF p.layout) (hx : CrossOk p) (s : TSeq) (hs : WellShaped p s)
    (ρ : Assign) (hag : Agree (variablesPerSample p.layout) (assignOf p s) ρ)
    (c : PCrossing) (hc : c ∈ p.crossings) (hfac : ∀ i ∈ c.factors, i < p.layout.factors.length)
    (ci : Nat) (hci : ci < c.combos.length) (t : Nat) (h1 : c.preamble < t) (h2 : t ≤ trials p) :
    comboSel p ρ c ci t = comboIs s c ci t := by
  unfold comboSel comboIs
  apply all_congr_mem
  intro fl hfl
  obtain ⟨hl, happ⟩ := hx c hc ci hci fl hfl
  have hi := hfac fl.1 (List.of_mem_zip (a := fl.1) (b := fl.2) hfl).1
  have hf := factorAt_get p fl.1 hi
  have hat := happ t h1 h2
  have hch : C14.Choice p.layout fl.1 fl.2 t := ⟨_, hf, hl, by omega, h2, hat⟩
  obtain ⟨r1, r2⟩ := C14.encode_range p.layout hwf _ _ _ hch
  have hmem := mem_applicable_of (factorAt p fl.1) (trials p) t (by omega) h2 hat
  have henc := assignOf_enc p hwf s hs fl.1 fl.2 _ hf (t - 1) hmem hl
  have e : t - 1 + 1 = t := by omega
  rw [e] at henc
  unfold sel
  rw [← hag _ r1 r2, henc]

/-- the state variables of one crossing carry "the combination is selected" -/
def StateEq (p : PInput) (s : TSeq) (fr : Nat) (ρ : Assign) (c : PCrossing) : Prop :=
  ∀ ti ci, ti < trials p - c.preamble → ci < c.combos.length →
    ρ (fr + ti * c.combos.length + ci) = comboIs s c ci (c.preamble + 1 + ti)

theorem crossMeaning_iff (p : PInput) (hwf : C14.WF p.layout) (hx : CrossOk p) (s : TSeq) (hs : WellShaped p s)
    (ρ : Assign) (hag : Agree (variablesPerSample p.layout) (assignOf p s) ρ)
    (c : PCrossing) (hc : c ∈ p.crossings) (hfac : ∀ i ∈ c.factors, i < p.layout.factors.length) (fr : Nat) :
    CrossMeaning p fr ρ c ↔ StateEq p s fr ρ c ∧ CrossSeq p s c := by
  have key : ∀ ci, ci < c.combos.length → ∀ ti, ti < trials p - c.preamble →
      comboSel p ρ c ci (c.preamble + 1 + ti) = comboIs s c ci (c.preamble + 1 + ti) := by
    intro ci hci ti hti
    exact comboSel_eq_comboIs p hwf hx s hs ρ hag c hc hfac ci hci _ (by omega) (by omega)
  have kcnt : ∀ ci, ci < c.combos.length → ∀ j,
      chunkCount (trials p - c.preamble) (c.size * c.weight) j (fun ti => comboSel p ρ c ci (c.preamble + 1 + ti)) =
      chunkCount (trials p - c.preamble) (c.size * c.weight) j (fun ti => comboIs s c ci (c.preamble + 1 + ti)) := by
    intro ci hci j
    exact chunkCount_congr _ _ _ _ _ (fun u hu => key ci hci u hu)
  unfold CrossMeaning StateEq CrossSeq
  constructor
  · rintro ⟨h1, h2⟩
    refine ⟨fun ti ci hti hci => ?_, fun ci hci j hj => ?_⟩
    · rw [h1 ti ci hti hci, key ci hci ti hti]
    · have := h2 ci hci j hj
      simp only [kcnt ci hci j] at this
      exact this
  · rintro ⟨h1, h2⟩
    refine ⟨fun ti ci hti hci => ?_, fun ci hci j hj => ?_⟩
    · rw [h1 ti ci hti hci, key ci hci ti hti]
    · have := h2 ci hci j hj
      simp only [kcnt ci hci j]
      exact this

/-! ### the counter through `Cross.apply` -/

/-- the counter after the crossings `xs` ran from counter `fr` -/
def crossFinal (p : PInput) : Nat → List PCrossing → Nat
  | fr, [] => fr
  | fr, c :: xs => crossFinal p (crossFreshAfter p fr c) xs

theorem foldl_crossStep_fresh (p : PInput) (xs : List PCrossing) (b : Backend) :
    (xs.foldl (crossStep p) b).fresh = crossFinal p b.fresh xs := by
  induction xs generalizing b with
  | nil => rfl
  | cons c xs ih => rw [List.foldl_cons, ih, fresh_crossStep]; rfl

theorem freshAfter_cross (p : PInput) (fr : Nat) : freshAfter p fr .cross = crossFinal p fr p.crossings := by
  unfold freshAfter
  exact foldl_crossStep_fresh p p.crossings _

theorem crossFreshAfter_ge (p : PInput) (fr : Nat) (c : PCrossing) :
    fr + (trials p - c.preamble) * c.combos.length ≤ crossFreshAfter p fr c := by
  unfold crossFreshAfter crossStep
  split
  · rename_i h
    rw [Asm.fresh_fail]
    have : trials p - c.preamble = 0 := by omega
    simp [this]
  · dsimp only
    refine Nat.le_trans ?_ (Asm.toCnfTseitin_next_le _ _)
    simp

theorem crossFreshAfter_le (p : PInput) (fr : Nat) (c : PCrossing) : fr ≤ crossFreshAfter p fr c :=
  Nat.le_trans (Nat.le_add_right _ _) (crossFreshAfter_ge p fr c)

theorem crossFinal_le (p : PInput) (xs : List PCrossing) (fr : Nat) : fr ≤ crossFinal p fr xs := by
  induction xs generalizing fr with
  | nil => exact Nat.le_refl _
  | cons c xs ih => exact Nat.le_trans (crossFreshAfter_le p fr c) (ih _)

theorem freshAfter_le (p : PInput) (fr : Nat) (c : PConstraint) : fr ≤ freshAfter p fr c :=
  fresh_le_applyConstraint p { fresh := fr, cnfs := [], reqs := [] } c

/-! ### `Cross`: from the assignment to the sequence -/

theorem crossSeq_of_crossMeaningAll (p : PInput) (hwf : C14.WF p.layout) (hx : CrossOk p) (s : TSeq)
    (hs : WellShaped p s) (ρ : Assign) (hag : Agree (variablesPerSample p.layout) (assignOf p s) ρ)
    (xs : List PCrossing) (hsub : ∀ c ∈ xs, c ∈ p.crossings)
    (hfac : ∀ c ∈ xs, ∀ i ∈ c.factors, i < p.layout.factors.length) (fr : Nat)
    (h : CrossMeaningAll p fr xs ρ) : ∀ c ∈ xs, CrossSeq p s c := by
  induction xs generalizing fr with
  | nil => intro c hc; cases hc
  | cons x xs ih =>
    obtain ⟨h1, h2⟩ := h
    intro c hc
    rcases List.mem_cons.1 hc with rfl | hc'
    · exact ((crossMeaning_iff p hwf hx s hs ρ hag c (hsub c (List.mem_cons_self ..))
        (hfac c (List.mem_cons_self ..)) fr).1 h1).2
    · exact ih (fun c h => hsub c (List.mem_cons_of_mem _ h)) (fun c h => hfac c (List.mem_cons_of_mem _ h)) _ h2 c hc'

/-! ### `Cross`: from the sequence to the assignment (the state variables are set block by block) -/

theorem block_index (N ti ci : Nat) (hci : ci < N) : (ti * N + ci) % N = ci ∧ (ti * N + ci) / N = ti := by
  have hN : 0 < N := by omega
  constructor
  · rw [Nat.mul_comm, Nat.mul_add_mod, Nat.mod_eq_of_lt hci]
  · rw [Nat.mul_comm, Nat.mul_add_div hN, Nat.div_eq_of_lt hci]; rfl

theorem block_lt (T N ti ci : Nat) (hti : ti < T) (hci : ci < N) : ti * N + ci < T * N := by
  have : (ti + 1) * N ≤ T * N := Nat.mul_le_mul_right N hti
  rw [Nat.add_mul] at this
  omega

theorem crossAll_of_seq (p : PInput) (hwf : C14.WF p.layout) (hx : CrossOk p) (s : TSeq) (hs : WellShaped p s)
    (xs : List PCrossing) (hsub : ∀ c ∈ xs, c ∈ p.crossings)
    (hfac : ∀ c ∈ xs, ∀ i ∈ c.factors, i < p.layout.factors.length)
    (fr : Nat) (hfr : variablesPerSample p.layout < fr)
    (ρ₀ : Assign) (hag : Agree (variablesPerSample p.layout) (assignOf p s) ρ₀)
    (h : ∀ c ∈ xs, CrossSeq p s c) :
    ∃ ρ : Assign, (∀ v, v < fr → ρ v = ρ₀ v) ∧
      ∀ ρ' : Assign, (∀ v, v < crossFinal p fr xs → ρ' v = ρ v) → CrossMeaningAll p fr xs ρ' := by
  induction xs generalizing fr ρ₀ with
  | nil => exact ⟨ρ₀, fun _ _ => rfl, fun _ _ => trivial⟩
  | cons c xs ih =>
    let T := trials p - c.preamble
    let N := c.combos.length
    let ρ₁ : Assign := fun v =>
      if fr ≤ v ∧ v < fr + T * N then comboIs s c ((v - fr) % N) (c.preamble + 1 + (v - fr) / N) else ρ₀ v
    have h10 : ∀ v, v < fr → ρ₁ v = ρ₀ v := by
      intro v hv
      show (if fr ≤ v ∧ v < fr + T * N then _ else ρ₀ v) = ρ₀ v
      rw [if_neg (by omega)]
    have hag1 : Agree (variablesPerSample p.layout) (assignOf p s) ρ₁ := by
      intro v hv1 hv2
      rw [h10 v (by omega)]
      exact hag v hv1 hv2
    have hge := crossFreshAfter_ge p fr c
    have hfr' : variablesPerSample p.layout < crossFreshAfter p fr c := by omega
    obtain ⟨ρ, hρ1, hρ2⟩ := ih (fun c h => hsub c (List.mem_cons_of_mem _ h))
      (fun c h => hfac c (List.mem_cons_of_mem _ h)) _ hfr' ρ₁ hag1 (fun c hc => h c (List.mem_cons_of_mem _ hc))
    refine ⟨ρ, fun v hv => ?_, fun ρ' hρ' => ?_⟩
    · rw [hρ1 v (by omega), h10 v hv]
    · have hfin : crossFreshAfter p fr c ≤ crossFinal p fr (c :: xs) := crossFinal_le p xs _
      have hlow : ∀ v, v < crossFreshAfter p fr c → ρ' v = ρ₁ v := by
        intro v hv
        rw [hρ' v (by omega), hρ1 v hv]
      refine ⟨?_, hρ2 ρ' hρ'⟩
      have hag' : Agree (variablesPerSample p.layout) (assignOf p s) ρ' := by
        intro v hv1 hv2
        rw [hlow v (by omega)]
        exact hag1 v hv1 hv2
      refine (crossMeaning_iff p hwf hx s hs ρ' hag' c (hsub c (List.mem_cons_self ..))
        (hfac c (List.mem_cons_self ..)) fr).2 ⟨?_, h c (List.mem_cons_self ..)⟩
      intro ti ci hti hci
      have hlt := block_lt T N ti ci hti hci
      obtain ⟨e1, e2⟩ := block_index N ti ci hci
      have hv : fr + ti * N + ci < crossFreshAfter p fr c := by
        have : fr + T * N ≤ crossFreshAfter p fr c := hge
        omega
      rw [hlow _ hv]
      show (if fr ≤ fr + ti * N + ci ∧ fr + ti * N + ci < fr + T * N then
        comboIs s c ((fr + ti * N + ci - fr) % N) (c.preamble + 1 + (fr + ti * N + ci - fr) / N) else _) = _
      have e : fr + ti * N + ci - fr = ti * N + ci := by omega
      rw [if_pos ⟨by omega, by omega⟩, e, e1, e2]

/-! ### the whole constraint list -/

theorem meaning_of_mem (p : PInput) (ρ : Assign) (cs : List PConstraint) (fr : Nat) (h : MeaningAll p fr cs ρ)
    (c : PConstraint) (hc : c ∈ cs) : ∃ fr', Meaning p fr' ρ c := by
  induction cs generalizing fr with
  | nil => cases hc
  | cons x xs ih =>
    obtain ⟨h1, h2⟩ := h
    rcases List.mem_cons.1 hc with rfl | hc'
    · exact ⟨fr, h1⟩
    · exact ih _ h2 hc'

theorem seq_of_meaningAll (p : PInput) (hwf : C14.WF p.layout) (hx : CrossOk p)
    (hok : ∀ c ∈ p.constraints, ConstraintOk p c) (hseq : seqOk p = true) (s : TSeq) (hs : WellShaped p s)
    (ρ : Assign) (hag : Agree (variablesPerSample p.layout) (assignOf p s) ρ)
    (cs : List PConstraint) (hsub : ∀ c ∈ cs, c ∈ p.constraints) (fr : Nat)
    (h : MeaningAll p fr cs ρ) : ∀ c ∈ cs, SeqMeaning p s c := by
  induction cs generalizing fr with
  | nil => intro c hc; cases hc
  | cons x xs ih =>
    obtain ⟨h1, h2⟩ := h
    intro c hc
    rcases List.mem_cons.1 hc with rfl | hc'
    · have hmem := hsub c (List.mem_cons_self ..)
      by_cases hcr : c = .cross
      · subst hcr
        have hokc : ∀ c ∈ p.crossings, c.preamble < trials p ∧ 0 < c.size * c.weight ∧
            ∀ i ∈ c.factors, i < p.layout.factors.length := hok _ hmem
        exact crossSeq_of_crossMeaningAll p hwf hx s hs ρ hag p.crossings (fun _ h => h)
          (fun c hc => (hokc c hc).2.2) fr h1
      · exact (meaning_iff_seqMeaning p hwf hseq s hs ρ hag fr c hmem (hok c hmem) hcr).1 h1
    · exact ih (fun c h => hsub c (List.mem_cons_of_mem _ h)) _ h2 c hc'

theorem meaningAll_of_seq (p : PInput) (hwf : C14.WF p.layout) (hx : CrossOk p)
    (hok : ∀ c ∈ p.constraints, ConstraintOk p c) (hseq : seqOk p = true) (s : TSeq) (hs : WellShaped p s)
    (cs : List PConstraint) (hsub : ∀ c ∈ cs, c ∈ p.constraints)
    (fr : Nat) (hfr : variablesPerSample p.layout < fr)
    (ρ₀ : Assign) (hag : Agree (variablesPerSample p.layout) (assignOf p s) ρ₀)
    (h : ∀ c ∈ cs, SeqMeaning p s c) :
    ∃ ρ : Assign, (∀ v, v < fr → ρ v = ρ₀ v) ∧ MeaningAll p fr cs ρ := by
  induction cs generalizing fr ρ₀ with
  | nil => exact ⟨ρ₀, fun _ _ => rfl, trivial⟩
  | cons c cs ih =>
    have hmem := hsub c (List.mem_cons_self ..)
    have hsub' : ∀ c ∈ cs, c ∈ p.constraints := fun c h => hsub c (List.mem_cons_of_mem _ h)
    have h' : ∀ c ∈ cs, SeqMeaning p s c := fun c hc => h c (List.mem_cons_of_mem _ hc)
    have hle := freshAfter_le p fr c
    by_cases hcr : c = .cross
    · subst hcr
      have hokc : ∀ c ∈ p.crossings, c.preamble < trials p ∧ 0 < c.size * c.weight ∧
          ∀ i ∈ c.factors, i < p.layout.factors.length := hok _ hmem
      have hcs : ∀ c ∈ p.crossings, CrossSeq p s c := h _ (List.mem_cons_self ..)
      obtain ⟨ρ₁, h10, hρ₁⟩ := crossAll_of_seq p hwf hx s hs p.crossings (fun _ h => h)
        (fun c hc => (hokc c hc).2.2) fr hfr ρ₀ hag hcs
      have hag1 : Agree (variablesPerSample p.layout) (assignOf p s) ρ₁ := by
        intro v hv1 hv2
        rw [h10 v (by omega)]
        exact hag v hv1 hv2
      obtain ⟨ρ, hρ1, hρ2⟩ := ih hsub' (freshAfter p fr .cross) (by omega) ρ₁ hag1 h'
      refine ⟨ρ, fun v hv => ?_, ?_, hρ2⟩
      · rw [hρ1 v (by omega), h10 v hv]
      · show CrossMeaningAll p fr p.crossings ρ
        apply hρ₁
        intro v hv
        rw [← freshAfter_cross] at hv
        exact hρ1 v hv
    · obtain ⟨ρ, hρ1, hρ2⟩ := ih hsub' (freshAfter p fr c) (by omega) ρ₀ hag h'
      have hag' : Agree (variablesPerSample p.layout) (assignOf p s) ρ := by
        intro v hv1 hv2
        rw [hρ1 v (by omega)]
        exact hag v hv1 hv2
      refine ⟨ρ, fun v hv => hρ1 v (by omega), ?_, hρ2⟩
      exact (meaning_iff_seqMeaning p hwf hseq s hs ρ hag' fr c hmem (hok c hmem) hcr).2 (h c (List.mem_cons_self ..))

end SeqAux

/-- the whole constraint list: an assignment encoding `s` extends to one satisfying every constraint's meaning
    iff the sequence satisfies every constraint's sequence-level meaning.
    (`hx : CrossOk p` is an added hypothesis: see `CrossOk`.) -/
theorem meaningAll_iff_seq (p : PInput) (hwf : C14.WF p.layout) (hok : ∀ c ∈ p.constraints, ConstraintOk p c)
    (hseq : seqOk p = true) (hx : CrossOk p) (s : TSeq) (hs : WellShaped p s) :
    (∃ ρ, Agree (variablesPerSample p.layout) (assignOf p s) ρ ∧
        MeaningAll p (variablesPerSample p.layout + 1) p.constraints ρ) ↔
      ∀ c ∈ p.constraints, SeqMeaning p s c := by
  constructor
  · rintro ⟨ρ, hag, hm⟩
    exact SeqAux.seq_of_meaningAll p hwf hx hok hseq s hs ρ hag p.constraints (fun _ h => h) _ hm
  · intro h
    obtain ⟨ρ, hρ1, hρ2⟩ := SeqAux.meaningAll_of_seq p hwf hx hok hseq s hs p.constraints (fun _ h => h)
      (variablesPerSample p.layout + 1) (Nat.lt_succ_self _) (assignOf p s) (fun _ _ _ => rfl) h
    exact ⟨ρ, fun v _ hv2 => (hρ1 v (by omega)).symm, hρ2⟩

end SPModel.Pipeline

namespace SPModel.C02
open SPModel Pipeline Layout

theorem consistency_mem_of_seqOk (p : PInput) (hseq : seqOk p = true) : PConstraint.consistency ∈ p.constraints := by
  unfold seqOk at hseq
  simp only [Bool.and_eq_true, List.any_eq_true] at hseq
  obtain ⟨_, c, hc, hm⟩ := hseq
  cases c <;> first | exact hc | simp at hm

/-- every sequence the compiled block accepts is (the projection of) a model of the clause list -/
theorem model_of_sequence (p : PInput) (hc : checkWf p = (true, true, true)) (hseq : seqOk p = true)
    (hx : CrossOk p)
    (φ : Cnf) (hφ : buildCnf p = .ok φ) (s : TSeq) (hv : PValid p s) :
    ∃ τ, Agree (variablesPerSample p.layout) (assignOf p s) τ ∧ cnfSat τ φ = true := by
  have h3 : inputOk p = true := congrArg (fun x => x.2.2) hc
  obtain ⟨hwf, hok⟩ := inputOk_spec p h3
  obtain ⟨hs, hm⟩ := hv
  exact (models_iff_meaning p hc φ hφ (assignOf p s)).2 ((meaningAll_iff_seq p hwf hok hseq hx s hs).2 hm)

/-- every model of the clause list is (an extension of) the encoding of a sequence the compiled block accepts -/
theorem sequence_of_model (p : PInput) (hc : checkWf p = (true, true, true)) (hseq : seqOk p = true)
    (hx : CrossOk p)
    (φ : Cnf) (hφ : buildCnf p = .ok φ) (τ : Assign) (hτ : cnfSat τ φ = true) :
    ∃ s, PValid p s ∧ Agree (variablesPerSample p.layout) (assignOf p s) τ := by
  have h3 : inputOk p = true := congrArg (fun x => x.2.2) hc
  obtain ⟨hwf, hok⟩ := inputOk_spec p h3
  obtain ⟨ρ, hτρ, hm⟩ := (models_iff_meaning p hc φ hφ τ).1 ⟨τ, fun _ _ _ => rfl, hτ⟩
  obtain ⟨fr', hcons⟩ := SeqAux.meaning_of_mem p ρ _ _ hm _ (consistency_mem_of_seqOk p hseq)
  have hcons0 : Meaning p 0 ρ .consistency := hcons
  obtain ⟨s, hs, hag⟩ := exists_seq_of_consistency p hwf ρ hcons0
  refine ⟨s, ⟨hs, (meaningAll_iff_seq p hwf hok hseq hx s hs).1 ⟨ρ, hag, hm⟩⟩, ?_⟩
  intro v hv1 hv2
  rw [hag v hv1 hv2, hτρ v hv1 hv2]

/-- … and that sequence is unique (on the trials where factors apply) -/
theorem sequence_unique (p : PInput) (hc : checkWf p = (true, true, true)) (s₁ s₂ : TSeq)
    (h₁ : WellShaped p s₁) (h₂ : WellShaped p s₂) (τ : Assign)
    (a₁ : Agree (variablesPerSample p.layout) (assignOf p s₁) τ)
    (a₂ : Agree (variablesPerSample p.layout) (assignOf p s₂) τ) :
    ∀ i f, p.layout.factors[i]? = some f → ∀ t ∈ applicable f 0 (trials p), s₁ i (t + 1) = s₂ i (t + 1) := by
  have h3 : inputOk p = true := congrArg (fun x => x.2.2) hc
  obtain ⟨hwf, _⟩ := inputOk_spec p h3
  refine assignOf_inj p hwf s₁ s₂ h₁ h₂ ?_
  intro v hv1 hv2
  rw [a₁ v hv1 hv2, a₂ v hv1 hv2]

end SPModel.C02

namespace SPModel.Pipeline
open SPModel Layout

/-- the Boolean check the driver evaluates implies `CrossOk` -/
theorem crossOk_spec (p : PInput) (h : crossOk p = true) : CrossOk p := by
  intro c hc ci hci fl hfl
  simp only [crossOk, List.all_eq_true, List.mem_range, Bool.and_eq_true, decide_eq_true_eq, Bool.or_eq_true,
    Bool.not_eq_true', decide_eq_false_iff_not] at h
  obtain ⟨h1, h2⟩ := h c hc ci hci fl hfl
  refine ⟨h1, fun t ht1 ht2 => ?_⟩
  rcases h2 t (by omega) with h3 | h3
  · exact absurd ht1 h3
  · exact h3

end SPModel.Pipeline

namespace SPModel.C02
open SPModel Pipeline Layout

/-- **The compiled formula and the trial sequences.**  For an input of the compilation whose decidable side
    conditions hold (all evaluated by the driver on every real block of the correspondence run) and whose
    compilation returns φ: the sequences `PValid` accepts and the models of φ correspond — every accepted sequence
    is the design-variable projection of a model, every model projects to an accepted sequence, that sequence is
    unique, and (by `model_unique`) so is the model. -/
theorem sequences_iff_models (p : PInput) (hc : checkWf p = (true, true, true)) (hseq : seqOk p = true)
    (hx : crossOk p = true) (φ : Cnf) (hφ : buildCnf p = .ok φ) :
    (∀ s, PValid p s → ∃ τ, Agree (variablesPerSample p.layout) (assignOf p s) τ ∧ cnfSat τ φ = true) ∧
    (∀ τ, cnfSat τ φ = true → ∃ s, PValid p s ∧ Agree (variablesPerSample p.layout) (assignOf p s) τ) :=
  ⟨fun s hv => model_of_sequence p hc hseq (crossOk_spec p hx) φ hφ s hv,
   fun τ hτ => sequence_of_model p hc hseq (crossOk_spec p hx) φ hφ τ hτ⟩

end SPModel.C02
