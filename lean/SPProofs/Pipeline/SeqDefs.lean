/-
  The compiled formula at the level of trial sequences.  `s i t` is the level of factor
  `i` (index into the active design) in the 1-based trial `t`; `assignOf p s` is the
  assignment of the design variables that selects exactly those levels; `SeqMeaning p s c`
  is what constraint `c` demands of the sequence — the per-class meanings of
  `Pipeline.Meaning` with "variable of (i, l, t) is true" replaced by `s i t = l` and the
  state variables of `Cross` eliminated; `PValid p s` collects them.
-/
import SPProofs.Pipeline.Assemble

namespace SPModel.Pipeline
open SPModel Layout

abbrev TSeq := Nat → Nat → Nat

/-- every applicable (factor, trial) carries one of the factor's levels -/
def WellShaped (p : PInput) (s : TSeq) : Prop :=
  ∀ i f, p.layout.factors[i]? = some f → ∀ t ∈ applicable f 0 (trials p), s i (t + 1) < f.nlevels

/-- the assignment of the design variables `1..vps` that encodes the sequence (false elsewhere) -/
def assignOf (p : PInput) (s : TSeq) : Assign := fun v =>
  (List.range p.layout.factors.length).any (fun i =>
    let f := factorAt p i
    (applicable f 0 (trials p)).any (fun t =>
      decide (s i (t + 1) < f.nlevels) && decide (encodeVar p.layout i (s i (t + 1)) (t + 1) = v)))

/-- is level `l` of factor `i` selected in the trials of `[a, b)` the factor applies to -/
def seqIn (s : TSeq) (i l : Nat) (f : LFactor) (a b : Nat) : List Bool :=
  (applicable f a b).map (fun t => decide (s i (t + 1) = l))

/-- combination `ci` of the crossing is selected in trial `t` -/
def comboIs (s : TSeq) (c : PCrossing) (ci t : Nat) : Bool :=
  (c.factors.zip (c.combos.getD ci [])).all (fun fl => decide (s fl.1 t = fl.2))

/-- the crossing requirement: per allowed combination and per chunk of `size * weight` crossing trials, exactly
    `weight(combination) * weight` occurrences in a full chunk, at most that many in the trailing partial chunk -/
def CrossSeq (p : PInput) (s : TSeq) (c : PCrossing) : Prop :=
  ∀ ci, ci < c.combos.length → ∀ j, j * (c.size * c.weight) < trials p - c.preamble →
    let cnt := chunkCount (trials p - c.preamble) (c.size * c.weight) j (fun ti => comboIs s c ci (c.preamble + 1 + ti))
    if (j + 1) * (c.size * c.weight) ≤ trials p - c.preamble
    then cnt = c.weights.getD ci 0 * c.weight
    else cnt ≤ c.weights.getD ci 0 * c.weight

/-- what constraint `c` demands of the sequence -/
def SeqMeaning (p : PInput) (s : TSeq) : PConstraint → Prop
  | .noop => True
  | .consistency => True
  | .cross => ∀ c ∈ p.crossings, CrossSeq p s c
  | .sustain =>
    ∀ i f, p.layout.factors[i]? = some f → ∀ l, l < f.nlevels →
      ∀ j, j < (applicable f 0 (trials p)).length →
        (seqIn s i l f 0 (trials p)).getD j false = (seqIn s i l f 0 (trials p)).getD ((j / f.sustain) * f.sustain) false
  | .exclude i l => ∀ t ∈ applicable (factorAt p i) 0 (trials p), s i (t + 1) ≠ l
  | .pin idx i l within sn =>
    trialNumbers p idx within sn ≠ [] ∧ ∀ t ∈ trialNumbers p idx within sn, s i (t + 1) = l
  | .atMost k i l within =>
    ∀ r ∈ ranges p within, ∀ m ∈ Compile.runs (seqIn s i l (factorAt p i) r.1 r.2), m ≤ k
  | .atLeast k i l within =>
    ∀ r ∈ ranges p within, ∀ m ∈ Compile.runs (seqIn s i l (factorAt p i) r.1 r.2), k ≤ m
  | .exactlyInARow k i l within =>
    ∀ r ∈ ranges p within, ∀ m ∈ Compile.runs (seqIn s i l (factorAt p i) r.1 r.2), m = k
  | .exactlyK k i l within =>
    ∀ r ∈ ranges p within, ((seqIn s i l (factorAt p i) r.1 r.2).filter id).length = k
  | .sequential i pre =>
    ∀ j, pre + j * (factorAt p i).sustain < trials p →
      s i (pre + j * (factorAt p i).sustain + 1) = j % (factorAt p i).nlevels
  | .derivation d deps fi sd =>
    -- a derivation relates design variables by their numbers (the index lists of `DerivationProcessor`):
    -- stated over the assignment that encodes the sequence
    Meaning p 0 (assignOf p s) (.derivation d deps fi sd)

/-- a sequence the compiled block accepts -/
def PValid (p : PInput) (s : TSeq) : Prop :=
  WellShaped p s ∧ ∀ c ∈ p.constraints, SeqMeaning p s c

end SPModel.Pipeline
