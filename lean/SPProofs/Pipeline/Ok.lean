/-
  The Boolean side conditions the driver evaluates on real blocks (`layoutOk`,
  `constraintOk`, `inputOk`) imply the propositional hypotheses of the theorems
  (`C14.WF`, `ConstraintOk`).
-/
import SPProofs.Pipeline.Assemble

namespace SPModel.Pipeline
open SPModel Layout

theorem layoutOk_wf (b : LBlock) (h : layoutOk b = true) : C14.WF b := by
  intro f hf
  have := List.all_eq_true.1 h f hf
  simp only [Bool.and_eq_true, Bool.or_eq_true, decide_eq_true_eq] at this
  obtain ⟨⟨⟨h1, h2⟩, h3⟩, h4⟩ := this
  refine ⟨h1, h2, h3, fun hc => ?_⟩
  rcases h4 with h4 | h4
  · rw [hc] at h4; cases h4
  · exact h4

theorem withinOk_spec (w : Option (Nat × Nat)) (h : withinOk w = true) : WithinOk w := by
  intro len pre hw
  subst hw
  simpa [withinOk] using h

theorem constraintOk_spec (p : PInput) (c : PConstraint) (h : constraintOk p c = true) : ConstraintOk p c := by
  cases c <;> simp only [constraintOk, Bool.and_eq_true, decide_eq_true_eq, List.all_eq_true] at h <;>
    simp only [ConstraintOk]
  case cross =>
    intro c hc
    obtain ⟨⟨h1, h2⟩, h3⟩ := h c hc
    exact ⟨h1, h2, fun i hi => by simpa using h3 i hi⟩
  case exclude => exact h
  case pin => exact h
  case atMost => exact ⟨h.1, withinOk_spec _ h.2⟩
  case atLeast => exact ⟨h.1.1, h.1.2, withinOk_spec _ h.2⟩
  case exactlyInARow => exact ⟨h.1.1, h.1.2, withinOk_spec _ h.2⟩
  case exactlyK => exact ⟨h.1.1, h.1.2, withinOk_spec _ h.2⟩
  case sequential => exact h

theorem inputOk_spec (p : PInput) (h : inputOk p = true) :
    C14.WF p.layout ∧ ∀ c ∈ p.constraints, ConstraintOk p c := by
  simp only [inputOk, Bool.and_eq_true, List.all_eq_true] at h
  exact ⟨layoutOk_wf _ h.1, fun c hc => constraintOk_spec p c (h.2 c hc)⟩

end SPModel.Pipeline
