/-
  `Derive.generate` (model of `DerivationProcessor.generate_derivations`) read at the level of trial
  sequences, for derived factors in the per-trial grid (width 1, every dependency without a complex
  window): the `Derivation` the model generates for level `l` from the predicate tables holds of the
  assignment that encodes a sequence iff, in every trial, the sequence has level `l` exactly when `l`'s
  table accepts the tuple of levels the dependencies have in that trial.
-/
import SPProofs.Pipeline.SeqBasic
import SPModel.Derive
import SPProofs.SpecLemmas.Lists

namespace SPModel.Derive
open SPModel Layout Pipeline Pipeline.MB

/-! ### tuples of a product -/

/-- a tuple takes, position by position, one of the options of that position -/
def Fits {α : Type} (opts : α → List Entry) : List α → List Entry → Prop
  | [], [] => True
  | p :: ps, e :: es => e ∈ opts p ∧ Fits opts ps es
  | [], _ :: _ => False
  | _ :: _, [] => False

theorem mem_product {α : Type} (opts : α → List Entry) (ps : List α) (tup : List Entry) :
    tup ∈ product (ps.map opts) ↔ Fits opts ps tup := by
  induction ps generalizing tup with
  | nil =>
    cases tup with
    | nil => simp [product, Fits]
    | cons e es => simp [product, Fits]
  | cons q qs ih =>
    cases tup with
    | nil => simp [product, Fits]
    | cons e es =>
      simp only [List.map_cons, product, List.mem_flatMap, List.mem_map, Fits]
      constructor
      · rintro ⟨e', he', t, ht, heq⟩
        injection heq with h1 h2
        subst h1; subst h2
        exact ⟨he', (ih t).1 ht⟩
      · rintro ⟨he, hes⟩
        exact ⟨e, he, es, (ih es).2 hes, rfl⟩

/-- when, at every position, the test accepts exactly the option `act pos`, a fitting tuple passes all tests iff it
    is the tuple of the `act`s -/
theorem zip_all_iff {α : Type} (opts : α → List Entry) (chk : α → Entry → Bool) (act : α → Entry)
    (ps : List α) (tup : List Entry) (hfit : Fits opts ps tup)
    (hchk : ∀ pos ∈ ps, ∀ e ∈ opts pos, (chk pos e = true ↔ e = act pos)) :
    (ps.zip tup).all (fun pe => chk pe.1 pe.2) = true ↔ tup = ps.map act := by
  induction ps generalizing tup with
  | nil =>
    cases tup with
    | nil => simp
    | cons e es => simp [Fits] at hfit
  | cons q qs ih =>
    cases tup with
    | nil => simp [Fits] at hfit
    | cons e es =>
      obtain ⟨he, hes⟩ := hfit
      have ih' := ih es hes (fun pos hp => hchk pos (List.mem_cons_of_mem _ hp))
      simp only [List.zip_cons_cons, List.all_cons, Bool.and_eq_true, List.map_cons, List.cons.injEq]
      rw [ih', hchk q (List.mem_cons_self) e he]

theorem fits_map_act {α : Type} (opts : α → List Entry) (act : α → Entry) (ps : List α)
    (h : ∀ pos ∈ ps, act pos ∈ opts pos) : Fits opts ps (ps.map act) := by
  induction ps with
  | nil => simp [Fits]
  | cons q qs ih =>
    exact ⟨h q List.mem_cons_self, ih (fun pos hp => h pos (List.mem_cons_of_mem _ hp))⟩

/-! ### factors in the grid -/

theorem fvl_simple (b : LBlock) (i l : Nat) (f : LFactor) (h : b.factors[i]? = some f) (hc : f.complex = false) :
    firstVariableForLevel b i l = simpleOffset b i + l := by
  simp [firstVariableForLevel, h, hc, foldl_filter_eq, simpleOffset]

/-- the variable of level `l` of a grid factor in trial `t0` (0-based), under the assignment encoding `s` -/
theorem assign_grid_var (p : PInput) (hwf : C14.WF p.layout) (s : TSeq) (hs : WellShaped p s)
    (i l : Nat) (f : LFactor) (hf : p.layout.factors[i]? = some f) (hc : f.complex = false) (hl : l < f.nlevels)
    (t0 : Nat) (ht : t0 < trials p) :
    assignOf p s (firstVariableForLevel p.layout i l + t0 * vpt p + 1) = decide (s i (t0 + 1) = l) := by
  obtain ⟨h0, h1⟩ := hwf.simple f (List.mem_of_getElem? hf) hc
  have henc : encodeVar p.layout i l (t0 + 1) = firstVariableForLevel p.layout i l + t0 * vpt p + 1 := by
    rw [encodeVar_simple _ _ _ _ f hf hc, C14.previousCount_simple hwf hf hc, fvl_simple _ _ _ f hf hc]
    simp only [vpt, Nat.add_sub_cancel, Nat.mul_comm]
  have happ : t0 ∈ applicable f 0 (trials p) :=
    (SeqAux.mem_applicable f 0 (trials p) t0).2 ⟨Nat.zero_le _, ht, appliesTrial_of_simple f h0 h1 _⟩
  rw [← henc]
  exact assignOf_enc p hwf s hs i l f hf t0 happ hl

/-- the hypotheses "in the grid": width 1 and every dependency is a factor of the layout without a complex window -/
structure GridFactor (b : LBlock) (d : DFactor) : Prop where
  width : d.width = 1
  deps : ∀ dep ∈ d.deps, ∃ g, b.factors[dep]? = some g ∧ g.complex = false

theorem positions_grid (b : LBlock) (d : DFactor) (hg : GridFactor b d) (pos : Nat × Nat) (hp : pos ∈ positions d) :
    pos.2 = 0 ∧ ∃ g, b.factors[pos.1]? = some g ∧ g.complex = false := by
  simp only [positions, hg.width, List.mem_flatMap, List.mem_map, List.mem_range] at hp
  obtain ⟨dep, hdep, i, hi, rfl⟩ := hp
  exact ⟨by omega, hg.deps dep hdep⟩

theorem levelsOf_grid (b : LBlock) (d : DFactor) (hw : d.width = 1) (pos : Nat × Nat) (g : LFactor)
    (hgp : b.factors[pos.1]? = some g) (hgc : g.complex = false) :
    levelsOf b d pos = (List.range g.nlevels).map Entry.lvl := by
  have hr : readyAt b pos.1 = 0 := by simp [readyAt, hgp, hgc]
  have hg : b.factors.getD pos.1 default = g := by simp [List.getD, hgp]
  simp only [levelsOf, hr, hw, hg]
  rw [if_neg (by omega)]

/-- the tuple of levels the dependencies have in trial `t0` (0-based) -/
def actual (d : DFactor) (s : TSeq) (t0 : Nat) : List Entry :=
  (positions d).map (fun pos => Entry.lvl (s pos.1 (t0 + 1)))

/-- the formula of one dependent index list, evaluated: every entry's variable of trial `n` is true -/
def chkEntry (p : PInput) (d : DFactor) (ρ : Assign) (n : Nat) (pos : Nat × Nat) (e : Entry) : Bool :=
  Formula.eval ρ (match shiftEntry p.layout d pos e with
    | .var v => lit ((v + n * vpt p + 1 : Nat) : Int)
    | .before _ => lit 0)

/-- **Derivations of grid factors, at the level of sequences.**  For a derived factor in the per-trial grid the
    `Derivation` that `Derive.generate` builds for level `l` from the predicate tables demands of a well-shaped
    sequence exactly: in every trial, the factor has level `l` iff `l`'s table accepts the levels its dependencies
    have in that trial. -/
theorem derivation_grid_seq (p : PInput) (hwf : C14.WF p.layout) (s : TSeq) (hs : WellShaped p s)
    (d : DFactor) (f : LFactor) (hf : p.layout.factors[d.fi]? = some f) (hfc : f.complex = false)
    (hg : GridFactor p.layout d) (l : Nat) (hl : l < f.nlevels) (htr : 0 < trials p) :
    SeqMeaning p s (derivationOf p.layout d l) ↔
      ∀ t0, t0 < trials p → (s d.fi (t0 + 1) = l ↔ accepts p.layout d l (actual d s t0) = true) := by
  show Meaning p 0 (assignOf p s) (derivationOf p.layout d l) ↔ _
  unfold derivationOf
  rw [SeqAux.meaning_derivation]
  have hD : firstVariableForLevel p.layout d.fi l < gridVariables p.layout := by
    rw [fvl_simple _ _ _ f hf hfc]
    have h1 := simpleOffset_add_le p.layout d.fi f hf hfc
    have h2 : variablesPerTrial p.layout ≤ p.layout.trials * variablesPerTrial p.layout :=
      Nat.le_mul_of_pos_left _ htr
    unfold gridVariables
    omega
  simp only [derivationFormula, if_pos hD]
  have hall : ∀ X : Formula, (∀ g, some X = some g → g.eval (assignOf p s) = true) ↔ X.eval (assignOf p s) = true :=
    fun X => ⟨fun h => h _ rfl, fun h g e => (by cases e; exact h)⟩
  rw [hall]
  simp only [derivationSimple, eval_and_true, List.mem_map, List.mem_range]
  -- one trial
  have key : ∀ n, n < trials p →
      (Formula.eval (assignOf p s) (Formula.iff (lit ((firstVariableForLevel p.layout d.fi l + n * vpt p + 1 : Nat) : Int))
        (Formula.or (((validTuples p.layout d l).map (shiftTuple p.layout d)).map (fun (l : List Dep) =>
          Formula.and (l.map (fun x => match x with
            | .var v => lit ((v + n * vpt p + 1 : Nat) : Int)
            | .before _ => lit 0)))))) = true ↔
        (s d.fi (n + 1) = l ↔ accepts p.layout d l (actual d s n) = true)) := by
    intro n hn
    rw [eval_iff, eval_lit, litVal_succ, assign_grid_var p hwf s hs d.fi l f hf hfc hl n hn, eval_or]
    -- the disjunction: some accepted tuple of the cross product is the actual one
    have hor : (((validTuples p.layout d l).map (shiftTuple p.layout d)).map (fun (l : List Dep) =>
          Formula.and (l.map (fun x => match x with
            | .var v => lit ((v + n * vpt p + 1 : Nat) : Int)
            | .before _ => lit 0)))).any (Formula.eval (assignOf p s)) = accepts p.layout d l (actual d s n) := by
      rw [Bool.eq_iff_iff]
      simp only [List.any_eq_true, List.mem_map, validTuples, List.mem_filter]
      -- the options of the positions
      have hopts : ∀ pos ∈ positions d, ∀ e ∈ levelsOf p.layout d pos,
          (chkEntry p d (assignOf p s) n pos e = true ↔ e = Entry.lvl (s pos.1 (n + 1))) := by
        intro pos hp e he
        obtain ⟨h0, g, hgp, hgc⟩ := positions_grid p.layout d hg pos hp
        rw [levelsOf_grid p.layout d hg.width pos g hgp hgc] at he
        simp only [List.mem_map, List.mem_range] at he
        obtain ⟨l', hl', rfl⟩ := he
        simp only [chkEntry, shiftEntry, h0, Nat.zero_mul, Nat.add_zero, eval_lit, litVal_succ]
        rw [assign_grid_var p hwf s hs pos.1 l' g hgp hgc hl' n hn]
        simp only [decide_eq_true_eq, Entry.lvl.injEq]
        exact eq_comm
      have hact : Fits (levelsOf p.layout d) (positions d) (actual d s n) := by
        apply fits_map_act
        intro pos hp
        obtain ⟨_, g, hgp, hgc⟩ := positions_grid p.layout d hg pos hp
        rw [levelsOf_grid p.layout d hg.width pos g hgp hgc]
        simp only [List.mem_map, List.mem_range]
        have hgl : g.nlevels = g.nlevels := rfl
        obtain ⟨h0', h1'⟩ := hwf.simple g (List.mem_of_getElem? hgp) hgc
        have happ : n ∈ applicable g 0 (trials p) :=
          (SeqAux.mem_applicable g 0 (trials p) n).2 ⟨Nat.zero_le _, hn, appliesTrial_of_simple g h0' h1' _⟩
        exact ⟨s pos.1 (n + 1), hs pos.1 g hgp n happ, rfl⟩
      have hform : ∀ tup, Formula.eval (assignOf p s) (Formula.and ((shiftTuple p.layout d tup).map (fun x => match x with
            | .var v => lit ((v + n * vpt p + 1 : Nat) : Int)
            | .before _ => lit 0))) = ((positions d).zip tup).all (fun pe => chkEntry p d (assignOf p s) n pe.1 pe.2) := by
        intro tup
        rw [eval_and, shiftTuple, List.map_map, List.all_map]
        rfl
      constructor
      · rintro ⟨g, ⟨deps, ⟨tup, ⟨htup, hacc⟩, rfl⟩, rfl⟩, hev⟩
        rw [hform] at hev
        have hfit := (mem_product (levelsOf p.layout d) (positions d) tup).1 htup
        have := (zip_all_iff (levelsOf p.layout d) (chkEntry p d (assignOf p s) n)
          (fun pos => Entry.lvl (s pos.1 (n + 1))) (positions d) tup hfit hopts).1 hev
        rw [this] at hacc
        exact hacc
      · intro hacc
        refine ⟨_, ⟨_, ⟨actual d s n, ⟨(mem_product _ _ _).2 hact, hacc⟩, rfl⟩, rfl⟩, ?_⟩
        rw [hform]
        exact (zip_all_iff (levelsOf p.layout d) (chkEntry p d (assignOf p s) n)
          (fun pos => Entry.lvl (s pos.1 (n + 1))) (positions d) _ hact hopts).2 rfl
    rw [hor]
    constructor
    · intro h
      rw [← h]; simp
    · intro h
      rw [Bool.eq_iff_iff]; simpa using h
  constructor
  · intro h t0 ht0
    exact (key t0 ht0).1 (h _ ⟨t0, ht0, rfl⟩)
  · rintro h g ⟨t0, ht0, rfl⟩
    exact (key t0 ht0).2 (h t0 ht0)

/-- what `generate` returns: one `Derivation` per level of every derived factor (when no factor is ambiguous) -/
theorem mem_generate (b : LBlock) (ds : List DFactor) (cs : List PConstraint) (h : generate b ds = .ok cs)
    (c : PConstraint) : c ∈ cs ↔ ∃ d ∈ ds, ∃ l, l < d.tables.length ∧ c = derivationOf b d l := by
  unfold generate at h
  split at h
  · cases h
  · injection h with h
    subst h
    simp only [List.mem_flatMap, List.mem_map, List.mem_range]
    constructor
    · rintro ⟨d, hd, l, hl, rfl⟩
      exact ⟨d, hd, l, hl, rfl⟩
    · rintro ⟨d, hd, l, hl, rfl⟩
      exact ⟨d, hd, l, hl, rfl⟩

/-- an ambiguous factor (two levels accept one tuple of the cross product) is rejected -/
theorem generate_ambiguous (b : LBlock) (ds : List DFactor) (d : DFactor) (hd : d ∈ ds) (h : ambiguous b d = true) :
    generate b ds = .error .valueError := by
  unfold generate
  rw [if_pos]
  exact List.any_eq_true.2 ⟨d, hd, h⟩

/-- **C15 for grid factors.**  A well-shaped sequence that satisfies every `Derivation` generated for the factor
    gives each trial exactly the level(s) whose table accepts that trial's tuple: level `l` is accepted iff it is the
    level the sequence has. -/
theorem grid_factor_function (p : PInput) (hwf : C14.WF p.layout) (s : TSeq) (hs : WellShaped p s)
    (d : DFactor) (f : LFactor) (hf : p.layout.factors[d.fi]? = some f) (hfc : f.complex = false)
    (hg : GridFactor p.layout d) (htr : 0 < trials p)
    (hall : ∀ l, l < f.nlevels → SeqMeaning p s (derivationOf p.layout d l))
    (t0 : Nat) (ht0 : t0 < trials p) (l : Nat) (hl : l < f.nlevels) :
    accepts p.layout d l (actual d s t0) = true ↔ l = s d.fi (t0 + 1) := by
  have := (derivation_grid_seq p hwf s hs d f hf hfc hg l hl htr).1 (hall l hl) t0 ht0
  rw [← this]
  exact eq_comm

/-! ### total and unambiguous tables (the two checks of `generate_derivations`) -/

/-- when `generate_derivations` does not raise, no tuple of the cross product is accepted by two levels -/
theorem level_unique (b : LBlock) (d : DFactor) (h : ambiguous b d = false) (tup : List Entry)
    (ht : tup ∈ crossProduct b d) (l₁ l₂ : Nat) (h₁ : l₁ < d.tables.length) (h₂ : l₂ < d.tables.length)
    (a₁ : accepts b d l₁ tup = true) (a₂ : accepts b d l₂ tup = true) : l₁ = l₂ := by
  apply Classical.byContradiction
  intro hne
  have hlen : 2 ≤ ((List.range d.tables.length).filter (fun l => accepts b d l tup)).length :=
    SpecLemmas.two_le_length_of_mem (i := l₁) (j := l₂)
      (List.mem_filter.2 ⟨List.mem_range.2 h₁, a₁⟩) (List.mem_filter.2 ⟨List.mem_range.2 h₂, a₂⟩) hne
  have : ambiguous b d = true := by
    unfold ambiguous
    exact List.any_eq_true.2 ⟨tup, ht, by simp only [decide_eq_true_eq]; omega⟩
  rw [h] at this
  exact Bool.noConfusion this

/-- when no tuple is reported as uncovered, every tuple of the cross product is accepted by some level -/
theorem level_exists (b : LBlock) (d : DFactor) (h : uncovered b d = 0) (tup : List Entry)
    (ht : tup ∈ crossProduct b d) : ∃ l, l < d.tables.length ∧ accepts b d l tup = true := by
  unfold uncovered at h
  have hnil := List.eq_nil_of_length_eq_zero h
  have hall := List.filter_eq_nil_iff.1 hnil tup ht
  have : ∃ x, x < d.tables.length ∧ accepts b d x tup = true := by simpa using hall
  exact this

/-- the levels a well-shaped sequence has in a trial form a tuple of the cross product -/
theorem actual_mem (p : PInput) (hwf : C14.WF p.layout) (s : TSeq) (hs : WellShaped p s) (d : DFactor)
    (hg : GridFactor p.layout d) (n : Nat) (hn : n < trials p) : actual d s n ∈ crossProduct p.layout d := by
  refine (mem_product (levelsOf p.layout d) (positions d) _).2 ?_
  apply fits_map_act
  intro pos hp
  obtain ⟨_, g, hgp, hgc⟩ := positions_grid p.layout d hg pos hp
  rw [levelsOf_grid p.layout d hg.width pos g hgp hgc]
  simp only [List.mem_map, List.mem_range]
  obtain ⟨h0', h1'⟩ := hwf.simple g (List.mem_of_getElem? hgp) hgc
  have happ : n ∈ applicable g 0 (trials p) :=
    (SeqAux.mem_applicable g 0 (trials p) n).2 ⟨Nat.zero_le _, hn, appliesTrial_of_simple g h0' h1' _⟩
  exact ⟨s pos.1 (n + 1), hs pos.1 g hgp n happ, rfl⟩

/-- **C15 for grid factors, both directions.**  When `generate_derivations` accepts the factor (no tuple with two
    levels), a well-shaped sequence satisfies all of the factor's `Derivation`s iff in every trial the level it has
    is one whose table accepts that trial's tuple - and that level is then the only one. -/
theorem grid_factor_iff (p : PInput) (hwf : C14.WF p.layout) (s : TSeq) (hs : WellShaped p s)
    (d : DFactor) (f : LFactor) (hf : p.layout.factors[d.fi]? = some f) (hfc : f.complex = false)
    (hg : GridFactor p.layout d) (htr : 0 < trials p) (hlen : d.tables.length = f.nlevels)
    (hamb : ambiguous p.layout d = false) :
    (∀ l, l < f.nlevels → SeqMeaning p s (derivationOf p.layout d l)) ↔
      ∀ t0, t0 < trials p → accepts p.layout d (s d.fi (t0 + 1)) (actual d s t0) = true := by
  obtain ⟨h0, h1⟩ := hwf.simple f (List.mem_of_getElem? hf) hfc
  have hlvl : ∀ t0, t0 < trials p → s d.fi (t0 + 1) < f.nlevels := fun t0 ht0 =>
    hs d.fi f hf t0 ((SeqAux.mem_applicable f 0 (trials p) t0).2
      ⟨Nat.zero_le _, ht0, appliesTrial_of_simple f h0 h1 _⟩)
  constructor
  · intro hall t0 ht0
    exact (grid_factor_function p hwf s hs d f hf hfc hg htr hall t0 ht0 _ (hlvl t0 ht0)).2 rfl
  · intro hacc l hl
    rw [derivation_grid_seq p hwf s hs d f hf hfc hg l hl htr]
    intro t0 ht0
    constructor
    · intro h; rw [← h]; exact hacc t0 ht0
    · intro hal
      exact (level_unique p.layout d hamb _ (actual_mem p hwf s hs d hg t0 ht0) l (s d.fi (t0 + 1))
        (by omega) (by have := hlvl t0 ht0; omega) hal (hacc t0 ht0)).symm

/-! ### the hypotheses are satisfiable: `congruent = (color == text)` over two trials -/

namespace Witness

def lay : LBlock :=
  { factors := [⟨2, false, 0, 1, 1⟩, ⟨2, false, 0, 1, 1⟩, ⟨2, false, 0, 1, 1⟩], trials := 2 }

/-- keys: (color + 1) * 3 + (text + 1) -/
def con : DFactor :=
  { fi := 2, deps := [0, 1], width := 1, startDelta := 0,
    tables := [#[false, false, false, false, true, false, false, false, true],
               #[false, false, false, false, false, true, false, true, false]] }

example : GridFactor lay con := ⟨rfl, by decide⟩

example : generate lay [con] = .ok
    [.derivation 4 [[.var 0, .var 2], [.var 1, .var 3]] 2 0, .derivation 5 [[.var 0, .var 3], [.var 1, .var 2]] 2 0] := by
  rfl

example : ambiguous lay con = false ∧ uncovered lay con = 0 ∧ unmatchedLevels lay con = [] := by decide

end Witness

end SPModel.Derive
