/-
  Shared vocabulary of the per-constraint meaning theorems: `sel` (is level `l` of
  factor `i` selected in trial `t` under an assignment) and how `Backend.holds`
  distributes over the items / requests a constraint appends.
-/
import SPModel.PipelineSem
import SPProofs.Pipeline.VarLists

namespace SPModel.Pipeline
open SPModel Layout

/-- level `l` of factor `i` is selected in the (1-based) trial `t` -/
def sel (p : PInput) (ρ : Assign) (i l t : Nat) : Bool := ρ (encodeVar p.layout i l t)

/-- the levels of factor `i` (a list of Booleans per trial of a range): is level `l` selected in the trials of
    `[a, b)` to which the factor applies -/
def selIn (p : PInput) (ρ : Assign) (i l : Nat) (f : LFactor) (a b : Nat) : List Bool :=
  (applicable f a b).map (fun t => sel p ρ i l (t + 1))

theorem holds_def (b : Backend) (ρ : Assign) :
    b.holds ρ = true ↔ (∀ it ∈ b.cnfs, it.holds ρ = true) ∧ (∀ r ∈ b.reqs, r.holds ρ = true) := by
  simp [Backend.holds, List.all_eq_true]

theorem holds_append (b : Backend) (items : List CnfItem) (rs : List Request) (fr : Nat) (e : Option PyErr) (ρ : Assign) :
    ({ fresh := fr, cnfs := b.cnfs ++ items, reqs := b.reqs ++ rs, err := e } : Backend).holds ρ = true ↔
      b.holds ρ = true ∧ (∀ it ∈ items, it.holds ρ = true) ∧ (∀ r ∈ rs, r.holds ρ = true) := by
  simp only [holds_def, List.mem_append]
  constructor
  · rintro ⟨h1, h2⟩
    exact ⟨⟨fun it h => h1 it (Or.inl h), fun r h => h2 r (Or.inl h)⟩, fun it h => h1 it (Or.inr h), fun r h => h2 r (Or.inr h)⟩
  · rintro ⟨⟨h1, h2⟩, h3, h4⟩
    exact ⟨fun it h => h.elim (h1 it) (h3 it), fun r h => h.elim (h2 r) (h4 r)⟩

theorem holds_pushFormula (b : Backend) (f : Formula) (ρ : Assign) :
    (pushFormula b f).holds ρ = true ↔ b.holds ρ = true ∧ f.eval ρ = true := by
  have := holds_append b [.tseitin f b.fresh] [] (toCnfTseitin f b.fresh).next b.err ρ
  simp only [List.append_nil, List.mem_singleton, forall_eq, List.not_mem_nil, false_imp_iff, implies_true, and_true,
    CnfItem.holds] at this
  simpa [pushFormula] using this

theorem holds_fail (b : Backend) (e : PyErr) (ρ : Assign) : (b.fail e).holds ρ = b.holds ρ := by
  unfold Backend.fail; split <;> rfl

end SPModel.Pipeline
