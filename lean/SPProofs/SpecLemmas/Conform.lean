/-
  Helper lemmas about `SPModel.Conform` (used by C17, C18).
-/
import SPModel.Conform
import SPModel.Compile
import SPProofs.Compile.Runs

namespace SPModel.SpecLemmas
open SPModel SPModel.Conform

/-- the loop body of `Conform.counts` and the loop body of `Compile.runs` are the same function -/
theorem counts_step_eq (p : List Nat × Nat) (x : Bool) :
    (if p.2 > 0 && !x then (p.1 ++ [p.2], 0) else if x then (p.1, p.2 + 1) else p) = C01.step p x := by
  obtain ⟨acc, cur⟩ := p
  cases x
  · by_cases h : cur > 0
    · simp [C01.step, h]
    · have h0 : cur = 0 := by omega
      simp [C01.step, h0]
  · simp [C01.step]

/-- once a geometry is recorded, `init_within_block` never changes it -/
theorem foldl_initWithin_some (gs : List Geometry) (g : Geometry) :
    gs.foldl initWithin (some g) = some g := by
  induction gs with
  | nil => rfl
  | cons x xs ih => simpa [List.foldl_cons, initWithin] using ih

end SPModel.SpecLemmas
