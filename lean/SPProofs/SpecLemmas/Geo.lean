/-
  Helper lemmas about `Spec.geo`, `Spec.geoList`, `Spec.unionIds`, `Spec.create` (used by C24).
-/
import SPModel.Spec
namespace SPModel.SpecLemmas
open SPModel SPModel.Spec

theorem geoList_map {α} (d : Design) (f : α → BlockExpr) : ∀ l : List α,
    geoList d (l.map f) = l.map (fun c => geo d (f c)) := by
  intro l
  induction l with
  | nil => simp [geoList]
  | cons x xs ih => simp [geoList, ih]

theorem unionIds_nil (a : List Nat) : unionIds [] a = a := by
  simp [unionIds]

theorem unionIds_self (a : List Nat) : unionIds a a = a := by
  simp [unionIds]

theorem foldl_unionIds_const {α} (f : α → List Nat) (a : List Nat) : ∀ l : List α, (∀ x ∈ l, f x = a) →
    l.foldl (fun acc g => unionIds acc (f g)) a = a := by
  intro l
  induction l with
  | nil => intro _; rfl
  | cons x xs ih =>
    intro h
    rw [List.foldl_cons, h x (List.mem_cons_self ..), unionIds_self]
    exact ih (fun y hy => h y (List.mem_cons_of_mem _ hy))

theorem foldl_unionIds_const_nil {α} (f : α → List Nat) (a : List Nat) (l : List α) (hne : l ≠ [])
    (h : ∀ x ∈ l, f x = a) : l.foldl (fun acc g => unionIds acc (f g)) [] = a := by
  cases l with
  | nil => exact absurd rfl hne
  | cons x xs =>
    rw [List.foldl_cons, h x (List.mem_cons_self ..), unionIds_nil]
    exact foldl_unionIds_const f a xs (fun y hy => h y (List.mem_cons_of_mem _ hy))

theorem create_design (d : Design) (design : List Nat) (insts : List CrossInst) (old : List Scoped)
    (new : List ConstraintD) (rcc : Bool) (mode : Mode) (align : Alignment) :
    (create d design insts old new rcc mode align).design = design := rfl

theorem create_constraints_nil (d : Design) (design : List Nat) (insts : List CrossInst)
    (rcc : Bool) (mode : Mode) (align : Alignment) :
    (create d design insts [] [] rcc mode align).constraints = [] := rfl

end SPModel.SpecLemmas
