/-
  Helper lemmas about `Spec.windowsOf` and `Spec.runs` (used by C26).
-/
import SPModel.Spec
namespace SPModel.SpecLemmas
open SPModel SPModel.Spec

theorem filterMap_range_min {β} (g : Nat → β) (r : Nat) : ∀ m,
    (List.range m).filterMap (fun j => if j < r then some (g j) else none) = (List.range (min m r)).map g := by
  intro m
  induction m with
  | zero => simp
  | succ m ih =>
    rw [List.range_succ, List.filterMap_append, ih]
    by_cases h : m < r
    · have h1 : min m r = m := by omega
      have h2 : min (m + 1) r = m + 1 := by omega
      rw [h1, h2, List.range_succ, List.map_append]
      simp [h]
    · have h1 : min m r = r := by omega
      have h2 : min (m + 1) r = r := by omega
      rw [h1, h2]
      simp [h]

theorem filterMap_range_lt {β} (g : Nat → β) (r : Nat) (m : Nat) (hm : r ≤ m) :
    (List.range m).filterMap (fun j => if j < r then some (g j) else none) = (List.range r).map g := by
  rw [filterMap_range_min, Nat.min_eq_right hm]

/-- one step of the fold in `Spec.runs` -/
def rstep (l : Nat) (p : List Nat × Nat) (x : Option Nat) : List Nat × Nat :=
  if x == some l then (p.1, p.2 + 1) else (if p.2 > 0 then p.1 ++ [p.2] else p.1, 0)

def rfin (r : List Nat × Nat) : List Nat := if r.2 > 0 then r.1 ++ [r.2] else r.1

theorem runs_eq (l : Nat) (xs : List (Option Nat)) : runs l xs = rfin (xs.foldl (rstep l) ([], 0)) := rfl

theorem sum_rfin_foldl (l : Nat) (xs : List (Option Nat)) : ∀ p : List Nat × Nat,
    (rfin (xs.foldl (rstep l) p)).sum = p.1.sum + p.2 + (xs.filter (· == some l)).length := by
  induction xs with
  | nil =>
    intro p
    by_cases h : p.2 > 0 <;> simp [rfin, h]
    omega
  | cons x xs ih =>
    intro p
    rw [List.foldl_cons, ih]
    by_cases hx : x = some l
    · simp [rstep, hx]
      omega
    · by_cases h : p.2 > 0 <;> simp [rstep, hx, h]
      omega

theorem foldl_add_eq_sum (l : List Nat) : ∀ a, l.foldl (· + ·) a = a + l.sum := by
  induction l with
  | nil => intro a; simp
  | cons x xs ih => intro a; simp [List.foldl_cons, ih]; omega

end SPModel.SpecLemmas
