/-
  Helper lemmas about `Spec.create` (used by C24b): `create` written as maps over the kept crossings,
  and what a second `create` does to the output of a first one.
-/
import SPModel.Spec
import SPProofs.SpecLemmas.Geo
namespace SPModel.SpecLemmas
open SPModel SPModel.Spec

/-! ## zip of maps of the same list -/

theorem zip_map_self {α β} (f : α → β) : ∀ l : List α, l.zip (l.map f) = l.map (fun x => (x, f x)) := by
  intro l; induction l with
  | nil => rfl
  | cons x xs ih => simp [ih]

theorem zip_map_map {α β γ} (f : α → β) (g : α → γ) : ∀ l : List α,
    (l.map f).zip (l.map g) = l.map (fun x => (f x, g x)) := by
  intro l; induction l with
  | nil => rfl
  | cons x xs ih => simp [ih]

/-! ## the pieces of `create` -/

def keepInsts (insts : List CrossInst) : List CrossInst := insts.filter (fun i => !i.factors.isEmpty)

def scoped0 (new : List ConstraintD) : List Scoped := new.map (fun c => { c := c, scope := none, sustain := 1 })

def exclOf (old : List Scoped) (new : List ConstraintD) : List (Nat × Nat) := excludedLevels (old ++ scoped0 new)

def sizeOf (d : Design) (design : List Nat) (excl : List (Nat × Nat)) (i : CrossInst) : Nat :=
  ((feasibleCombos d design i.factors excl).foldl (fun a c => a + c.2) 0) * i.sustain

def preOf (d : Design) (i : CrossInst) : Nat := (i.factors.map (fun f => start d f)).foldl max 0 * i.sustain

def minTOf (allCs : List Scoped) (F : List CrossInst) : Nat :=
  F.foldl (fun m i => if i.sustain = 0 then m else ceilDiv m i.sustain * i.sustain)
    (allCs.foldl (fun m s => match s.c with | .minTrials k => max m (k * s.sustain) | _ => m) 0)

def requiredOf (d : Design) (design : List Nat) (excl : List (Nat × Nat)) (align : Alignment) (F : List CrossInst) : Nat :=
  match align with
  | .postPreamble => (F.map (fun i => preOf d i + (F.map (sizeOf d design excl)).foldl max 0)).foldl max 0
  | _ => (F.map (fun i => preOf d i + sizeOf d design excl i)).foldl max 0

def nOf (d : Design) (design : List Nat) (excl : List (Nat × Nat)) (allCs : List Scoped) (align : Alignment)
    (F : List CrossInst) : Nat :=
  max (max (minTOf allCs F) (requiredOf d design excl align F)) 1

def startFn (d : Design) (align : Alignment) (F : List CrossInst) (i : CrossInst) : Nat :=
  match align with
  | .postPreamble => (F.map (preOf d)).foldl max 0
  | _ => preOf d i

def commonOf (d : Design) (align : Alignment) (F : List CrossInst) : Nat :=
  match align with
  | .postPreamble => (F.map (preOf d)).foldl max 0
  | _ => (F.map (preOf d)).headD 0

def weightFn (d : Design) (design : List Nat) (excl : List (Nat × Nat)) (mode : Mode) (align : Alignment)
    (F : List CrossInst) (n : Nat) (i : CrossInst) : Nat :=
  if mode == .repeat then i.weight else ceilDiv (n - startFn d align F i) (sizeOf d design excl i)

def reweight (wf : CrossInst → Nat) (F : List CrossInst) : List CrossInst :=
  F.map (fun i => { i with weight := wf i })

def preBadOf (d : Design) (align : Alignment) (F : List CrossInst) : Bool :=
  align == .equalPreamble && (F.map (preOf d)).any (fun p => p ≠ (F.map (preOf d)).headD 0)

def zeroSizeOf (d : Design) (design : List Nat) (excl : List (Nat × Nat)) (F : List CrossInst) : Bool :=
  (F.map (sizeOf d design excl)).any (· == 0)

def incompleteOf (d : Design) (design : List Nat) (excl : List (Nat × Nat)) (F : List CrossInst) : Bool :=
  F.any (fun i => (feasibleCombos d design i.factors excl).length ≠ allCombosCount d i.factors)

def impossibleOf (d : Design) (F : List CrossInst) : Bool :=
  F.any (fun i => i.factors.any (fun f =>
    isComplex d f && (List.range (numLevels d f)).any (fun l => !(levelPossible d f l))))

def equalBadOf (mode : Mode) (wf : CrossInst → Nat) (F : List CrossInst) : Bool :=
  mode == .equal && F.any (fun i => i.weight ≠ wf i)

/-- the part of `create`'s error that does not depend on mode or alignment -/
def tailErr (zeroSize rcc bad : Bool) : Option String :=
  if zeroSize then some "a crossing has no feasible combination"
  else if rcc && bad then some "complete crossing unsatisfiable"
  else none

def errOf (equalBad preBad : Bool) (tail : Option String) : Option String :=
  if equalBad then some "RepeatMode.EQUAL with different crossing sizes"
  else if preBad then some "EQUAL_PREAMBLE with different preamble sizes"
  else tail

/-- `create`, field by field, as maps over the kept crossings. -/
def createM (d : Design) (design : List Nat) (insts : List CrossInst) (old : List Scoped)
    (new : List ConstraintD) (rcc : Bool) (mode : Mode) (align : Alignment) : Geo :=
  let F := keepInsts insts
  let excl := exclOf old new
  let n := nOf d design excl (old ++ scoped0 new) align F
  let wf := weightFn d design excl mode align F n
  { design := design
    crossings := reweight wf F
    constraints := old ++ new.map (fun c => { c := c, scope := some (n, commonOf d align F), sustain := 1 })
    n := n
    preambles := F.map (startFn d align F)
    sizes := F.map (sizeOf d design excl)
    align := align
    rcc := rcc
    error := errOf (equalBadOf mode wf F) (preBadOf d align F)
      (tailErr (zeroSizeOf d design excl F) rcc (incompleteOf d design excl F || impossibleOf d F)) }

theorem create_eq_createM (d : Design) (design : List Nat) (insts : List CrossInst) (old : List Scoped)
    (new : List ConstraintD) (rcc : Bool) (mode : Mode) (align : Alignment) :
    create d design insts old new rcc mode align = createM d design insts old new rcc mode align := by
  cases align <;>
  simp only [create, createM, zip_map_self, zip_map_map, List.map_map, List.any_map, Function.comp_def] <;>
  rw [Geo.mk.injEq] <;>
  refine ⟨rfl, ?_, ?_, ?_, ?_, ?_, rfl, rfl, ?_⟩
  all_goals first | rfl | skip
  all_goals (simp only [errOf, tailErr, equalBadOf, preBadOf, zeroSizeOf, List.any_map, Function.comp_def]; rfl)

/-! ## crossings that differ in weight only -/

theorem map_reweight {β} (f : CrossInst → β) (hf : ∀ i w, f { i with weight := w } = f i)
    (wf : CrossInst → Nat) (F : List CrossInst) : (reweight wf F).map f = F.map f := by
  simp [reweight, List.map_map, Function.comp_def, hf]

theorem any_reweight (f : CrossInst → Bool) (hf : ∀ i w, f { i with weight := w } = f i)
    (wf : CrossInst → Nat) (F : List CrossInst) : (reweight wf F).any f = F.any f := by
  simp [reweight, List.any_map, Function.comp_def, hf]

theorem foldl_reweight {β} (g : β → CrossInst → β) (hg : ∀ m i w, g m { i with weight := w } = g m i)
    (wf : CrossInst → Nat) (F : List CrossInst) (a : β) : (reweight wf F).foldl g a = F.foldl g a := by
  simp [reweight, List.foldl_map, hg]

theorem keepInsts_reweight_keep (wf : CrossInst → Nat) (l : List CrossInst) :
    keepInsts (reweight wf (keepInsts l)) = reweight wf (keepInsts l) := by
  unfold keepInsts reweight
  rw [List.filter_eq_self]
  intro a ha
  obtain ⟨i, hi, rfl⟩ := List.mem_map.mp ha
  exact (List.mem_filter.mp hi).2

theorem reweight_reweight (w1 w2 : CrossInst → Nat) (F : List CrossInst) :
    reweight w2 (reweight w1 F) = reweight (fun i => w2 { i with weight := w1 i }) F := by
  simp [reweight, List.map_map, Function.comp_def]

theorem reweight_congr (w1 w2 : CrossInst → Nat) (F : List CrossInst) (h : ∀ i ∈ F, w1 i = w2 i) :
    reweight w1 F = reweight w2 F := by
  unfold reweight
  apply List.map_congr_left
  intro i hi
  rw [h i hi]

theorem exclOf_scoped (old : List Scoped) (new : List ConstraintD) (sc : Option (Nat × Nat)) :
    exclOf (old ++ new.map (fun c => { c := c, scope := sc, sustain := 1 })) [] = exclOf old new := by
  simp [exclOf, scoped0, excludedLevels, List.filterMap_append, List.filterMap_map, Function.comp_def]

theorem minTOf_again (old : List Scoped) (new : List ConstraintD) (sc : Option (Nat × Nat))
    (wf : CrossInst → Nat) (F : List CrossInst) :
    minTOf ((old ++ new.map (fun c => { c := c, scope := sc, sustain := 1 })) ++ scoped0 []) (reweight wf F) =
      minTOf (old ++ scoped0 new) F := by
  unfold minTOf
  rw [foldl_reweight _ (fun _ _ _ => rfl)]
  simp [scoped0, List.foldl_append, List.foldl_map]

theorem requiredOf_reweight (d : Design) (design : List Nat) (excl : List (Nat × Nat)) (align : Alignment)
    (wf : CrossInst → Nat) (F : List CrossInst) :
    requiredOf d design excl align (reweight wf F) = requiredOf d design excl align F := by
  cases align <;> simp only [requiredOf] <;>
    rw [map_reweight _ (fun _ _ => rfl)]
  rw [map_reweight _ (fun _ _ => rfl)]

theorem startFn_reweight (d : Design) (align : Alignment) (wf : CrossInst → Nat) (F : List CrossInst)
    (i : CrossInst) (w : Nat) : startFn d align (reweight wf F) { i with weight := w } = startFn d align F i := by
  cases align <;> simp only [startFn]
  · rw [map_reweight _ (fun _ _ => rfl)]
  · rfl
  · rfl

/-! ## all preambles equal: the three alignments coincide -/

def allPreEq (d : Design) (F : List CrossInst) : Bool :=
  !((F.map (preOf d)).any (fun p => p ≠ (F.map (preOf d)).headD 0))

theorem preBadOf_equalPreamble (d : Design) (F : List CrossInst) :
    preBadOf d .equalPreamble F = !allPreEq d F := by
  simp [preBadOf, allPreEq]

theorem foldl_max_add (p : Nat) {α} (f : α → Nat) : ∀ (l : List α) (a : Nat),
    (l.map (fun i => p + f i)).foldl max (p + a) = p + (l.map f).foldl max a := by
  intro l
  induction l with
  | nil => intro a; rfl
  | cons x xs ih =>
    intro a
    simp only [List.map_cons, List.foldl_cons]
    rw [← ih, Nat.add_max_add_left]

theorem foldl_max_const {α} (m : Nat) : ∀ (l : List α) (a : Nat), l ≠ [] →
    (l.map (fun _ => m)).foldl max a = max a m := by
  intro l
  induction l with
  | nil => intro a h; exact absurd rfl h
  | cons x xs ih =>
    intro a _
    cases xs with
    | nil => rfl
    | cons y ys =>
      simp only [List.map_cons, List.foldl_cons] at ih ⊢
      rw [ih (max a m) (by simp)]
      omega

theorem foldl_max_eq_add {α} (g f : α → Nat) (p : Nat) (l : List α) (hne : l ≠ []) (hg : ∀ i ∈ l, g i = p) :
    (l.map (fun i => g i + f i)).foldl max 0 = p + (l.map f).foldl max 0 := by
  have h1 : l.map (fun i => g i + f i) = l.map (fun i => p + f i) :=
    List.map_congr_left (fun i hi => by rw [hg i hi])
  rw [h1]
  cases l with
  | nil => exact absurd rfl hne
  | cons x xs =>
    simp only [List.map_cons, List.foldl_cons, Nat.zero_max]
    exact foldl_max_add p f xs (f x)

theorem allPreEq_mem (d : Design) (F : List CrossInst) (h : allPreEq d F = true) :
    ∀ i ∈ F, preOf d i = (F.map (preOf d)).headD 0 := by
  intro i hi
  simp only [allPreEq, Bool.not_eq_true', List.any_eq_false, decide_eq_true_eq, Decidable.not_not] at h
  exact h _ (List.mem_map_of_mem hi)

theorem maxPre_of_allPreEq (d : Design) (F : List CrossInst) (h : allPreEq d F = true) :
    (F.map (preOf d)).foldl max 0 = (F.map (preOf d)).headD 0 := by
  by_cases hne : F = []
  · subst hne; rfl
  · have := foldl_max_eq_add (preOf d) (fun _ => 0) _ F hne (allPreEq_mem d F h)
    simp only [Nat.add_zero] at this
    rw [this, foldl_max_const 0 F 0 hne]
    rfl

theorem requiredOf_post_of_allPreEq (d : Design) (design : List Nat) (excl : List (Nat × Nat)) (F : List CrossInst)
    (h : allPreEq d F = true) :
    requiredOf d design excl .postPreamble F = requiredOf d design excl .equalPreamble F := by
  by_cases hne : F = []
  · subst hne; rfl
  · simp only [requiredOf]
    rw [foldl_max_eq_add (preOf d) _ _ F hne (allPreEq_mem d F h),
      foldl_max_eq_add (preOf d) _ _ F hne (allPreEq_mem d F h), foldl_max_const _ F 0 hne, Nat.zero_max]

theorem requiredOf_align (d : Design) (design : List Nat) (excl : List (Nat × Nat)) (F : List CrossInst)
    (a a' : Alignment) (h : a' = a ∨ allPreEq d F = true) :
    requiredOf d design excl a' F = requiredOf d design excl a F := by
  rcases h with h | h
  · rw [h]
  · have := requiredOf_post_of_allPreEq d design excl F h
    cases a <;> cases a' <;> first | rfl | exact this | exact this.symm

theorem startFn_align (d : Design) (F : List CrossInst) (a a' : Alignment) (h : a' = a ∨ allPreEq d F = true) :
    ∀ i ∈ F, startFn d a' F i = startFn d a F i := by
  intro i hi
  rcases h with h | h
  · rw [h]
  · have h1 : startFn d .postPreamble F i = startFn d .equalPreamble F i := by
      simp only [startFn]
      rw [maxPre_of_allPreEq d F h, allPreEq_mem d F h i hi]
    cases a <;> cases a' <;> first | rfl | exact h1 | exact h1.symm

/-! ## a second `create` on the output of a first one -/

/-- the weights of the first `create` are what a non-REPEAT mode would compute again -/
def WeightsStable (d : Design) (design : List Nat) (insts : List CrossInst) (old : List Scoped)
    (new : List ConstraintD) (mode : Mode) (align : Alignment) : Prop :=
  let F := keepInsts insts
  let excl := exclOf old new
  let n := nOf d design excl (old ++ scoped0 new) align F
  ∀ i ∈ F, weightFn d design excl mode align F n i = ceilDiv (n - startFn d align F i) (sizeOf d design excl i)

theorem preBadOf_reweight (d : Design) (align : Alignment) (wf : CrossInst → Nat) (F : List CrossInst) :
    preBadOf d align (reweight wf F) = preBadOf d align F := by
  unfold preBadOf
  rw [map_reweight _ (fun _ _ => rfl)]

theorem zeroSizeOf_reweight (d : Design) (design : List Nat) (excl : List (Nat × Nat)) (wf : CrossInst → Nat)
    (F : List CrossInst) : zeroSizeOf d design excl (reweight wf F) = zeroSizeOf d design excl F := by
  unfold zeroSizeOf
  rw [map_reweight _ (fun _ _ => rfl)]

theorem incompleteOf_reweight (d : Design) (design : List Nat) (excl : List (Nat × Nat)) (wf : CrossInst → Nat)
    (F : List CrossInst) : incompleteOf d design excl (reweight wf F) = incompleteOf d design excl F := by
  unfold incompleteOf
  rw [any_reweight _ (fun _ _ => rfl)]

theorem impossibleOf_reweight (d : Design) (wf : CrossInst → Nat) (F : List CrossInst) :
    impossibleOf d (reweight wf F) = impossibleOf d F := by
  unfold impossibleOf
  rw [any_reweight _ (fun _ _ => rfl)]

theorem createM_again (d : Design) (design : List Nat) (insts : List CrossInst) (old : List Scoped)
    (new : List ConstraintD) (rcc : Bool) (mode mode' : Mode) (align align' : Alignment)
    (ha : align' = align ∨ allPreEq d (keepInsts insts) = true)
    (hw : mode' = .repeat ∨ WeightsStable d design insts old new mode align) :
    createM d design (createM d design insts old new rcc mode align).crossings
        (createM d design insts old new rcc mode align).constraints [] rcc mode' align' =
      { createM d design insts old new rcc mode align with
        align := align'
        error := errOf false (preBadOf d align' (keepInsts insts))
          (tailErr (zeroSizeOf d design (exclOf old new) (keepInsts insts)) rcc
            (incompleteOf d design (exclOf old new) (keepInsts insts) || impossibleOf d (keepInsts insts))) } := by
  have hn : nOf d design (exclOf old new)
      ((old ++ new.map (fun c => { c := c, scope := some (nOf d design (exclOf old new) (old ++ scoped0 new) align (keepInsts insts), commonOf d align (keepInsts insts)), sustain := 1 })) ++ scoped0 [])
      align' (reweight (weightFn d design (exclOf old new) mode align (keepInsts insts) (nOf d design (exclOf old new) (old ++ scoped0 new) align (keepInsts insts))) (keepInsts insts)) =
      nOf d design (exclOf old new) (old ++ scoped0 new) align (keepInsts insts) := by
    unfold nOf
    rw [minTOf_again, requiredOf_reweight, requiredOf_align d design _ _ align align' ha]
  have hwf : ∀ i ∈ keepInsts insts,
      weightFn d design (exclOf old new) mode' align' (reweight (weightFn d design (exclOf old new) mode align (keepInsts insts) (nOf d design (exclOf old new) (old ++ scoped0 new) align (keepInsts insts))) (keepInsts insts))
        (nOf d design (exclOf old new) (old ++ scoped0 new) align (keepInsts insts))
        { i with weight := weightFn d design (exclOf old new) mode align (keepInsts insts) (nOf d design (exclOf old new) (old ++ scoped0 new) align (keepInsts insts)) i } =
      weightFn d design (exclOf old new) mode align (keepInsts insts) (nOf d design (exclOf old new) (old ++ scoped0 new) align (keepInsts insts)) i := by
    intro i hi
    rw [weightFn, startFn_reweight, startFn_align d _ align align' ha i hi]
    rcases hw with hw | hw
    · subst hw; rfl
    · split
      · rfl
      · exact (hw i hi).symm
  simp only [createM, keepInsts_reweight_keep, exclOf_scoped, hn]
  rw [Geo.mk.injEq]
  refine ⟨rfl, ?_, ?_, rfl, ?_, ?_, rfl, rfl, ?_⟩
  · rw [reweight_reweight]
    apply reweight_congr
    intro i hi
    exact hwf i hi
  · simp
  · unfold reweight
    rw [List.map_map]
    apply List.map_congr_left
    intro i hi
    simp only [Function.comp_def]
    exact (startFn_reweight d align' _ _ i _).trans (startFn_align d _ align align' ha i hi)
  · rw [map_reweight _ (fun _ _ => rfl)]
  · rw [preBadOf_reweight, zeroSizeOf_reweight, incompleteOf_reweight, impossibleOf_reweight]
    congr 1
    unfold equalBadOf
    rw [Bool.and_eq_false_iff]
    right
    unfold reweight
    rw [List.any_map, List.any_eq_false]
    intro i hi
    simp only [Function.comp_def, decide_eq_true_eq, Decidable.not_not]
    exact (hwf i hi).symm

/-! ## every geometry is a `create` whose error may have been replaced -/

theorem orElse_none {α} (o : Option α) (f : Unit → Option α) (h : o.orElse f = none) : f () = none := by
  cases o with
  | none => simpa using h
  | some x => simp at h

theorem ite_some_eq_none {α} {c : Prop} [Decidable c] {x : α} {y : Option α}
    (h : (if c then some x else y) = none) : y = none := by
  split at h
  · simp at h
  · exact h

theorem geo_created (d : Design) (b : BlockExpr) :
    ∃ design insts old new rcc mode align e,
      geo d b = { createM d design insts old new rcc mode align with error := e } ∧
      (e = none → (createM d design insts old new rcc mode align).error = none) := by
  cases b with
  | cross design crossing cs rcc =>
    simp only [geo, create_eq_createM]
    exact ⟨_, _, _, _, _, _, _, (createM d design _ [] cs rcc .weight .equalPreamble).error, rfl, fun h => h⟩
  | multiCross design crossings cs rcc mode align =>
    simp only [geo, create_eq_createM]
    exact ⟨_, _, _, _, _, _, _, _, rfl, fun h => orElse_none _ _ h⟩
  | «repeat» b cs =>
    simp only [geo, create_eq_createM]
    exact ⟨_, _, _, _, _, _, _, _, rfl, fun h => orElse_none _ _ h⟩
  | merge bs cs mode align =>
    simp only [geo, create_eq_createM]
    refine ⟨_, _, _, _, _, _, _, _, rfl, fun h => ?_⟩
    exact ite_some_eq_none (orElse_none _ _ h)
  | nest outer inner cs align =>
    simp only [geo, create_eq_createM]
    exact ⟨_, _, _, _, _, _, _, _, rfl, fun h => orElse_none _ _ (orElse_none _ _ h)⟩

/-! ## more exclusions: fewer feasible combinations -/

theorem trialWorlds_mono (d : Design) (design : List Nat) (excl : List (Nat × Nat)) (w : List (Nat × Nat))
    (h : w ∈ trialWorlds d design excl) : w ∈ trialWorlds d design [] := by
  simp only [trialWorlds, List.mem_filterMap] at h ⊢
  obtain ⟨asg, hmem, h⟩ := h
  refine ⟨asg, hmem, ?_⟩
  split at h
  · exact absurd h (by simp)
  · rename_i a heq
    split at h
    · exact absurd h (by simp)
    · simpa using h

theorem filter_sublist_filter {α} (p q : α → Bool) (h : ∀ a, p a = true → q a = true) : ∀ l : List α,
    (l.filter p).Sublist (l.filter q) := by
  intro l
  induction l with
  | nil => exact List.Sublist.slnil
  | cons x xs ih =>
    by_cases hp : p x = true
    · rw [List.filter_cons_of_pos hp, List.filter_cons_of_pos (h x hp)]
      exact ih.cons_cons x
    · rw [List.filter_cons_of_neg hp]
      by_cases hq : q x = true
      · rw [List.filter_cons_of_pos hq]; exact ih.cons x
      · rw [List.filter_cons_of_neg hq]; exact ih

theorem feasibleCombos_sublist (d : Design) (design crossing : List Nat) (excl : List (Nat × Nat)) :
    (feasibleCombos d design crossing excl).Sublist (feasibleCombos d design crossing []) := by
  simp only [feasibleCombos]
  apply List.Sublist.map
  apply filter_sublist_filter
  intro combo h
  simp only [Bool.and_eq_true, List.all_eq_true, List.any_eq_true] at h ⊢
  obtain ⟨_, w, hw, hall⟩ := h
  refine ⟨?_, w, trialWorlds_mono d design excl w hw, hall⟩
  intro p _
  simp

theorem foldl_add_mono {α} (f : α → Nat) : ∀ (l : List α) (a b : Nat), a ≤ b →
    l.foldl (fun a c => a + f c) a ≤ l.foldl (fun a c => a + f c) b := by
  intro l
  induction l with
  | nil => intro a b h; exact h
  | cons x xs ih => intro a b h; exact ih _ _ (Nat.add_le_add_right h _)

theorem foldl_add_sublist {α} (f : α → Nat) {l₁ l₂ : List α} (h : l₁.Sublist l₂) : ∀ a : Nat,
    l₁.foldl (fun a c => a + f c) a ≤ l₂.foldl (fun a c => a + f c) a := by
  induction h with
  | slnil => intro a; exact Nat.le_refl _
  | cons x _ ih =>
    intro a
    exact Nat.le_trans (ih a) (foldl_add_mono f _ _ _ (Nat.le_add_right _ _))
  | cons_cons x _ ih => intro a; exact ih _

theorem sizeOf_mono (d : Design) (design : List Nat) (excl : List (Nat × Nat)) (i : CrossInst) :
    sizeOf d design excl i ≤ sizeOf d design [] i := by
  unfold sizeOf
  exact Nat.mul_le_mul_right _ (foldl_add_sublist _ (feasibleCombos_sublist d design i.factors excl) 0)

theorem foldl_mul_acc : ∀ (l : List Nat) (a : Nat), l.foldl (· * ·) a = a * l.foldl (· * ·) 1 := by
  intro l
  induction l with
  | nil => intro a; simp
  | cons x xs ih =>
    intro a
    simp only [List.foldl_cons]
    rw [ih (a * x), ih (1 * x)]
    simp [Nat.mul_assoc]

theorem length_product {α} : ∀ ls : List (List α), (product ls).length = (ls.map List.length).foldl (· * ·) 1 := by
  intro ls
  induction ls with
  | nil => rfl
  | cons l ls ih =>
    simp only [product, List.map_cons, List.foldl_cons, Nat.one_mul]
    rw [foldl_mul_acc, ← ih]
    induction l with
    | nil => simp
    | cons x xs ihx => simp [List.flatMap_cons, ihx, Nat.succ_mul, Nat.add_comm]

theorem feasibleCombos_length_le (d : Design) (design crossing : List Nat) (excl : List (Nat × Nat)) :
    (feasibleCombos d design crossing excl).length ≤ allCombosCount d crossing := by
  have h : allCombosCount d crossing =
      (product (crossing.map (fun id => List.range (numLevels d id)))).length := by
    rw [length_product, allCombosCount, List.map_map]
    congr 1
    apply List.map_congr_left
    intro a _
    simp
  rw [h]
  simp only [feasibleCombos, List.length_map]
  exact List.length_filter_le _ _

theorem zeroSizeOf_mono (d : Design) (design : List Nat) (excl : List (Nat × Nat)) (F : List CrossInst)
    (h : zeroSizeOf d design [] F = true) : zeroSizeOf d design excl F = true := by
  simp only [zeroSizeOf, List.any_map, List.any_eq_true, Function.comp_def, beq_iff_eq] at h ⊢
  obtain ⟨i, hi, h0⟩ := h
  exact ⟨i, hi, by have := sizeOf_mono d design excl i; omega⟩

theorem incompleteOf_mono (d : Design) (design : List Nat) (excl : List (Nat × Nat)) (F : List CrossInst)
    (h : incompleteOf d design [] F = true) : incompleteOf d design excl F = true := by
  simp only [incompleteOf, List.any_eq_true, decide_eq_true_eq] at h ⊢
  obtain ⟨i, hi, h0⟩ := h
  refine ⟨i, hi, ?_⟩
  have h1 := (feasibleCombos_sublist d design i.factors excl).length_le
  have h2 := feasibleCombos_length_le d design i.factors []
  omega

/-! ## WEIGHT mode does not read the weights it is given -/

theorem commonOf_reweight (d : Design) (align : Alignment) (wf : CrossInst → Nat) (F : List CrossInst) :
    commonOf d align (reweight wf F) = commonOf d align F := by
  cases align <;> simp only [commonOf] <;> rw [map_reweight _ (fun _ _ => rfl)]

theorem createM_weight_reweight (d : Design) (design : List Nat) (insts : List CrossInst) (old : List Scoped)
    (new : List ConstraintD) (rcc : Bool) (align : Alignment) (wf : CrossInst → Nat) :
    createM d design (reweight wf (keepInsts insts)) old new rcc .weight align =
      createM d design insts old new rcc .weight align := by
  have hn : nOf d design (exclOf old new) (old ++ scoped0 new) align (reweight wf (keepInsts insts)) =
      nOf d design (exclOf old new) (old ++ scoped0 new) align (keepInsts insts) := by
    unfold nOf minTOf
    rw [foldl_reweight _ (fun _ _ _ => rfl), requiredOf_reweight]
  simp only [createM, keepInsts_reweight_keep, hn, commonOf_reweight, preBadOf_reweight, zeroSizeOf_reweight,
    incompleteOf_reweight, impossibleOf_reweight]
  rw [Geo.mk.injEq]
  refine ⟨rfl, ?_, rfl, rfl, ?_, ?_, rfl, rfl, ?_⟩
  · rw [reweight_reweight]
    apply reweight_congr
    intro i _
    simp only [weightFn]
    rw [startFn_reweight]
    rfl
  · unfold reweight
    rw [List.map_map]
    apply List.map_congr_left
    intro i _
    exact startFn_reweight d align _ _ i _
  · rw [map_reweight _ (fun _ _ => rfl)]
  · rfl

/-! ## constraints added to the same crossings can only add errors (WEIGHT mode) -/

theorem createM_error_mono (d : Design) (design : List Nat) (insts : List CrossInst) (cs : List ConstraintD)
    (rcc : Bool) (align : Alignment)
    (h : (createM d design insts [] cs rcc .weight align).error = none) :
    (createM d design insts [] [] rcc .weight align).error = none := by
  have hz := zeroSizeOf_mono d design (exclOf [] cs) (keepInsts insts)
  have hi := incompleteOf_mono d design (exclOf [] cs) (keepInsts insts)
  have he : exclOf [] [] = [] := rfl
  simp only [createM, he] at h ⊢
  have hb : ∀ wf F, equalBadOf .weight wf F = false := fun _ _ => rfl
  rw [hb] at h ⊢
  revert h hz hi
  generalize zeroSizeOf d design (exclOf [] cs) (keepInsts insts) = z1
  generalize zeroSizeOf d design [] (keepInsts insts) = z0
  generalize incompleteOf d design (exclOf [] cs) (keepInsts insts) = i1
  generalize incompleteOf d design [] (keepInsts insts) = i0
  generalize impossibleOf d (keepInsts insts) = im
  generalize preBadOf d align (keepInsts insts) = pb
  cases z1 <;> cases z0 <;> cases i1 <;> cases i0 <;> cases im <;> cases pb <;> cases rcc <;>
    simp [errOf, tailErr]

end SPModel.SpecLemmas
