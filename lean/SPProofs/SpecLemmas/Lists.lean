/-
  Helper lemmas about lists (used by C15).
-/
import SPModel.Spec
namespace SPModel.SpecLemmas
open SPModel SPModel.Spec

theorem filter_eq_singleton {p : Nat → Bool} {i : Nat} : ∀ (l : List Nat), l.Nodup → i ∈ l → p i = true →
    (∀ j ∈ l, p j = true → j = i) → l.filter p = [i] := by
  intro l
  induction l with
  | nil => intro _ h; simp at h
  | cons x xs ih =>
    intro hnd hmem hpi huniq
    rw [List.nodup_cons] at hnd
    by_cases hx : x = i
    · subst hx
      rw [List.filter_cons_of_pos hpi]
      congr 1
      rw [List.filter_eq_nil_iff]
      intro a ha hpa
      have := huniq a (List.mem_cons_of_mem _ ha) hpa
      exact hnd.1 (this ▸ ha)
    · have hpx : ¬ p x = true := fun h => hx (huniq x (List.mem_cons_self ..) h)
      rw [List.filter_cons_of_neg hpx]
      have hi : i ∈ xs := by
        rcases List.mem_cons.mp hmem with h | h
        · exact absurd h.symm hx
        · exact h
      exact ih hnd.2 hi hpi (fun j hj => huniq j (List.mem_cons_of_mem _ hj))

theorem two_le_length_of_mem {l : List Nat} {i j : Nat} (hi : i ∈ l) (hj : j ∈ l) (hij : i ≠ j) : 2 ≤ l.length := by
  match l, hi, hj with
  | [], hi, _ => simp at hi
  | [a], hi, hj =>
    simp at hi hj
    exact absurd (hi.trans hj.symm) hij
  | _ :: _ :: _, _, _ => simp

end SPModel.SpecLemmas
