/-
  Helper definitions and lemmas about the trial-count arithmetic of `Spec.create`
  (used by C25): the folds of `create` named and characterised one by one.
-/
import SPModel.Spec
namespace SPModel.CreateN
open SPModel SPModel.Spec

/-! ## `foldl max` -/

theorem le_foldl_max (l : List Nat) (a : Nat) : a ≤ l.foldl max a := by
  induction l generalizing a with
  | nil => exact Nat.le_refl _
  | cons x xs ih => exact Nat.le_trans (Nat.le_max_left a x) (ih (max a x))

theorem le_foldl_max_of_mem {l : List Nat} {x : Nat} (h : x ∈ l) (a : Nat) : x ≤ l.foldl max a := by
  induction l generalizing a with
  | nil => simp at h
  | cons y ys ih =>
    rcases List.mem_cons.mp h with rfl | h
    · exact Nat.le_trans (Nat.le_max_right a x) (le_foldl_max ys (max a x))
    · exact ih h (max a y)

theorem foldl_max_le {l : List Nat} {a m : Nat} (ha : a ≤ m) (h : ∀ x ∈ l, x ≤ m) : l.foldl max a ≤ m := by
  induction l generalizing a with
  | nil => exact ha
  | cons y ys ih =>
    exact ih (Nat.max_le.mpr ⟨ha, h y (List.mem_cons_self ..)⟩) (fun x hx => h x (List.mem_cons_of_mem _ hx))

theorem foldl_max_mem_or (l : List Nat) (a : Nat) : l.foldl max a = a ∨ l.foldl max a ∈ l := by
  induction l generalizing a with
  | nil => exact Or.inl rfl
  | cons y ys ih =>
    rcases ih (max a y) with h | h
    · rw [List.foldl_cons, h]
      rcases Nat.le_total a y with hay | hay
      · right; rw [Nat.max_eq_right hay]; exact List.mem_cons_self ..
      · left; exact Nat.max_eq_left hay
    · right; exact List.mem_cons_of_mem _ h

/-! ## The pieces of `create` -/

/-- crossings with at least one factor -/
def live (insts : List CrossInst) : List CrossInst := insts.filter (fun i => !i.factors.isEmpty)

def newScoped0 (new : List ConstraintD) : List Scoped := new.map (fun c => { c := c, scope := none, sustain := 1 })

def minStep (m : Nat) (s : Scoped) : Nat :=
  match s.c with
  | .minTrials k => max m (k * s.sustain)
  | _ => m

/-- the largest MinimumTrials in force, each scaled by its sustain count -/
def minT0 (cs : List Scoped) : Nat := cs.foldl minStep 0

def roundStep (m : Nat) (i : CrossInst) : Nat := if i.sustain = 0 then m else ceilDiv m i.sustain * i.sustain

/-- rounded up to a multiple of each sustain count in turn -/
def roundUp (insts : List CrossInst) (m : Nat) : Nat := insts.foldl roundStep m

def maxStart (d : Design) (fs : List Nat) : Nat := (fs.map (fun f => start d f)).foldl max 0

/-- preamble of a crossing, in trials -/
def preOf (d : Design) (i : CrossInst) : Nat := maxStart d i.factors * i.sustain

/-- Σ weights of the feasible combinations of a crossing -/
def crossSize (d : Design) (design crossing : List Nat) (excl : List (Nat × Nat)) : Nat :=
  (feasibleCombos d design crossing excl).foldl (fun a c => a + c.2) 0

def roundSize (d : Design) (design : List Nat) (excl : List (Nat × Nat)) (i : CrossInst) : Nat :=
  crossSize d design i.factors excl * i.sustain

def required (d : Design) (design : List Nat) (excl : List (Nat × Nat)) (insts : List CrossInst) : Alignment → Nat
  | .postPreamble =>
    (insts.map (fun i => preOf d i + (insts.map (roundSize d design excl)).foldl max 0)).foldl max 0
  | _ => (insts.map (fun i => preOf d i + roundSize d design excl i)).foldl max 0

theorem zip_map_self {α β γ} (l : List α) (f : α → β) (g : α × β → γ) :
    (l.zip (l.map f)).map g = l.map (fun x => g (x, f x)) := by
  induction l with
  | nil => rfl
  | cons x xs ih => simp [ih]

theorem zip_map_map {α β γ} (l : List α) (f : α → β) (g : α → γ) :
    (l.map f).zip (l.map g) = l.map (fun x => (f x, g x)) := by
  induction l with
  | nil => rfl
  | cons x xs ih => simp [ih]

theorem create_sizes (d : Design) (design : List Nat) (insts : List CrossInst) (old : List Scoped)
    (new : List ConstraintD) (rcc : Bool) (mode : Mode) (align : Alignment) :
    (create d design insts old new rcc mode align).sizes
      = (live insts).map (roundSize d design (excludedLevels (old ++ newScoped0 new))) := by
  simp only [create, live, newScoped0]
  rw [zip_map_self]
  rfl

theorem create_preambles (d : Design) (design : List Nat) (insts : List CrossInst) (old : List Scoped)
    (new : List ConstraintD) (rcc : Bool) (mode : Mode) (align : Alignment) :
    (create d design insts old new rcc mode align).preambles
      = match align with
        | .postPreamble => (live insts).map (fun _ => ((live insts).map (preOf d)).foldl max 0)
        | _ => (live insts).map (preOf d) := by
  cases align <;> rfl

theorem create_crossings (d : Design) (design : List Nat) (insts : List CrossInst) (old : List Scoped)
    (new : List ConstraintD) (rcc : Bool) (mode : Mode) (align : Alignment) :
    ∃ w : CrossInst → Nat, (mode = .repeat → ∀ i, w i = i.weight) ∧
      (create d design insts old new rcc mode align).crossings
        = (live insts).map (fun i => { i with weight := w i }) := by
  cases align
  all_goals
    simp only [create, live]
    rw [zip_map_self, zip_map_map, zip_map_self, zip_map_self]
    refine ⟨_, ?_, rfl⟩
    intro h i
    simp [h]

theorem create_crossings_length (d : Design) (design : List Nat) (insts : List CrossInst) (old : List Scoped)
    (new : List ConstraintD) (rcc : Bool) (mode : Mode) (align : Alignment) :
    (create d design insts old new rcc mode align).crossings.length = (live insts).length := by
  obtain ⟨w, _, h⟩ := create_crossings d design insts old new rcc mode align
  rw [h, List.length_map]

theorem create_crossings_repeat (d : Design) (design : List Nat) (insts : List CrossInst) (old : List Scoped)
    (new : List ConstraintD) (rcc : Bool) (align : Alignment) :
    (create d design insts old new rcc .repeat align).crossings = live insts := by
  obtain ⟨w, hw, h⟩ := create_crossings d design insts old new rcc .repeat align
  rw [h]
  simp [hw rfl]

theorem create_n (d

 : Design) (design : List Nat) (insts : List CrossInst) (old : List Scoped)
    (new : List ConstraintD) (rcc : Bool) (mode : Mode) (align : Alignment) :
    (create d design insts old new rcc mode align).n
      = max (max (roundUp (live insts) (minT0 (old ++ newScoped0 new)))
          (required d design (excludedLevels (old ++ newScoped0 new)) (live insts) align)) 1 := by
  cases align
  · simp only [create, live, newScoped0, required, roundUp, minT0]
    rw [zip_map_self]
    rfl
  · simp only [create, live, newScoped0, required, roundUp, minT0]
    rw [zip_map_self, zip_map_map, List.map_map]
    rfl
  · simp only [create, live, newScoped0, required, roundUp, minT0]
    rw [zip_map_self, zip_map_map, List.map_map]
    rfl

/-! ## MinimumTrials fold -/

theorem minFold_ge_init (cs : List Scoped) (a : Nat) : a ≤ cs.foldl minStep a := by
  induction cs generalizing a with
  | nil => exact Nat.le_refl _
  | cons s ss ih =>
    refine Nat.le_trans ?_ (ih (minStep a s))
    unfold minStep
    split
    · exact Nat.le_max_left ..
    · exact Nat.le_refl _

theorem minFold_ge_of_mem {cs : List Scoped} {s : Scoped} {k : Nat} (h : s ∈ cs) (hk : s.c = .minTrials k) (a : Nat) :
    k * s.sustain ≤ cs.foldl minStep a := by
  induction cs generalizing a with
  | nil => simp at h
  | cons y ys ih =>
    rcases List.mem_cons.mp h with rfl | h
    · refine Nat.le_trans ?_ (minFold_ge_init ys (minStep a s))
      simp only [minStep, hk]
      exact Nat.le_max_right ..
    · exact ih h (minStep a y)

theorem minFold_le {cs : List Scoped} {a m : Nat} (ha : a ≤ m)
    (h : ∀ s ∈ cs, ∀ k, s.c = .minTrials k → k * s.sustain ≤ m) : cs.foldl minStep a ≤ m := by
  induction cs generalizing a with
  | nil => exact ha
  | cons y ys ih =>
    refine ih ?_ (fun s hs => h s (List.mem_cons_of_mem _ hs))
    have hy := h y (List.mem_cons_self ..)
    unfold minStep
    split
    · next k hk => exact Nat.max_le.mpr ⟨ha, hy k hk⟩
    · exact ha

theorem minFold_eq_of_none {cs : List Scoped} (a : Nat) (h : ∀ s ∈ cs, ∀ k, s.c ≠ .minTrials k) :
    cs.foldl minStep a = a := by
  apply Nat.le_antisymm
  · exact minFold_le (Nat.le_refl _) (fun s hs k hk => absurd hk (h s hs k))
  · exact minFold_ge_init cs a

/-! ## Sustain rounding -/

theorem le_ceilDiv_mul (m s : Nat) (hs : s ≠ 0) : m ≤ ceilDiv m s * s := by
  simp only [ceilDiv, hs, if_false]
  have h1 := Nat.div_add_mod (m + s - 1) s
  have h2 := Nat.mod_lt (m + s - 1) (Nat.pos_of_ne_zero hs)
  rw [Nat.mul_comm]
  generalize (m + s - 1) / s = q at *
  generalize (m + s - 1) % s = r at *
  generalize s * q = x at *
  omega

theorem ceilDiv_mul_le {m s c : Nat} (hs : s ≠ 0) (h : m ≤ c * s) : ceilDiv m s * s ≤ c * s := by
  simp only [ceilDiv, hs, if_false]
  apply Nat.mul_le_mul_right
  have : (m + s - 1) / s < c + 1 := by
    rw [Nat.div_lt_iff_lt_mul (Nat.pos_of_ne_zero hs), Nat.add_mul]
    have := Nat.pos_of_ne_zero hs
    omega
  omega

theorem ceilDiv_zero (s : Nat) : ceilDiv 0 s = 0 := by
  unfold ceilDiv
  split
  · rfl
  · next h =>
    have := Nat.pos_of_ne_zero h
    exact Nat.div_eq_of_lt (by omega)

theorem ceilDiv_one (m : Nat) : ceilDiv m 1 = m := by
  simp [ceilDiv]

theorem roundStep_ge (m : Nat) (i : CrossInst) : m ≤ roundStep m i := by
  unfold roundStep
  split
  · exact Nat.le_refl _
  · next h => exact le_ceilDiv_mul m _ h

theorem roundUp_ge (insts : List CrossInst) (m : Nat) : m ≤ roundUp insts m := by
  unfold roundUp
  induction insts generalizing m with
  | nil => exact Nat.le_refl _
  | cons i is ih => exact Nat.le_trans (roundStep_ge m i) (ih _)

theorem roundStep_le_of_dvd {m m' : Nat} {i : CrossInst} (h : m ≤ m') (hd : i.sustain ≠ 0 → i.sustain ∣ m') :
    roundStep m i ≤ m' := by
  unfold roundStep
  split
  · exact h
  · next hs =>
    obtain ⟨c, rfl⟩ := hd hs
    rw [Nat.mul_comm i.sustain c] at h ⊢
    exact ceilDiv_mul_le hs h

/-- the rounded value is below every common multiple of the sustain counts that is at least `m` -/
theorem roundUp_le_of_dvd {insts : List CrossInst} {m m' : Nat} (h : m ≤ m')
    (hd : ∀ i ∈ insts, i.sustain ≠ 0 → i.sustain ∣ m') : roundUp insts m ≤ m' := by
  unfold roundUp
  induction insts generalizing m with
  | nil => exact h
  | cons i is ih =>
    exact ih (roundStep_le_of_dvd h (hd i (List.mem_cons_self ..))) (fun j hj => hd j (List.mem_cons_of_mem _ hj))

theorem roundUp_zero (insts : List CrossInst) : roundUp insts 0 = 0 := by
  unfold roundUp
  induction insts with
  | nil => rfl
  | cons i is ih =>
    rw [List.foldl_cons]
    have : roundStep 0 i = 0 := by
      unfold roundStep
      split
      · rfl
      · rw [ceilDiv_zero, Nat.zero_mul]
    rw [this]; exact ih

theorem roundUp_sustain_one {insts : List CrossInst} (m : Nat) (h : ∀ i ∈ insts, i.sustain = 1) :
    roundUp insts m = m := by
  unfold roundUp
  induction insts with
  | nil => rfl
  | cons i is ih =>
    rw [List.foldl_cons]
    have : roundStep m i = m := by
      simp [roundStep, h i (List.mem_cons_self ..), ceilDiv_one]
    rw [this]; exact ih (fun j hj => h j (List.mem_cons_of_mem _ hj))

/-- the last non-zero sustain count divides the rounded value -/
theorem roundUp_append_dvd (insts : List CrossInst) (i : CrossInst) (m : Nat) (h : i.sustain ≠ 0) :
    i.sustain ∣ roundUp (insts ++ [i]) m := by
  unfold roundUp
  rw [List.foldl_append, List.foldl_cons, List.foldl_nil]
  simp only [roundStep, h, if_false]
  exact Nat.dvd_mul_left ..

/-! ## The result of `create` described by its own fields -/

theorem live_eq_self {l : List CrossInst} (h : ∀ i ∈ l, i.factors ≠ []) : live l = l := by
  unfold live
  rw [List.filter_eq_self]
  intro i hi
  have := h i hi
  cases hf : i.factors <;> simp_all

theorem live_append (a b : List CrossInst) : live (a ++ b) = live a ++ live b := by
  simp [live]

theorem mem_live {l : List CrossInst} {i : CrossInst} : i ∈ live l ↔ i ∈ l ∧ i.factors ≠ [] := by
  simp only [live, List.mem_filter]
  cases hf : i.factors <;> simp

theorem create_crossings_live (d : Design) (design : List Nat) (insts : List CrossInst) (old : List Scoped)
    (new : List ConstraintD) (rcc : Bool) (mode : Mode) (align : Alignment) :
    ∀ i ∈ (create d design insts old new rcc mode align).crossings, i.factors ≠ [] := by
  obtain ⟨w, _, h⟩ := create_crossings d design insts old new rcc mode align
  rw [h]
  intro i hi
  obtain ⟨j, hj, rfl⟩ := List.mem_map.mp hi
  exact (mem_live.mp hj).2

theorem excludedLevels_append (a b : List Scoped) : excludedLevels (a ++ b) = excludedLevels a ++ excludedLevels b := by
  simp [excludedLevels]

/-- the excluded levels written by the user -/
def exclOf (cs : List ConstraintD) : List (Nat × Nat) :=
  cs.filterMap (fun c => match c with | .exclude f l => some (f, l) | _ => none)

theorem excludedLevels_eq (cs : List Scoped) : excludedLevels cs = exclOf (cs.map (·.c)) := by
  simp only [excludedLevels, exclOf, List.filterMap_map]
  rfl

theorem minT0_congr {a b : List Scoped} (h : a.map (fun s => (s.c, s.sustain)) = b.map (fun s => (s.c, s.sustain))) :
    ∀ m, a.foldl minStep m = b.foldl minStep m := by
  induction a generalizing b with
  | nil =>
    cases b with
    | nil => intro _; rfl
    | cons _ _ => simp at h
  | cons x xs ih =>
    cases b with
    | nil => simp at h
    | cons y ys =>
      simp only [List.map_cons, List.cons.injEq, Prod.mk.injEq] at h
      intro m
      rw [List.foldl_cons, List.foldl_cons]
      have : minStep m x = minStep m y := by
        unfold minStep
        rw [h.1.1, h.1.2]
      rw [this]
      exact ih h.2 _

theorem roundUp_congr {a b : List CrossInst} (h : a.map (·.sustain) = b.map (·.sustain)) :
    ∀ m, roundUp a m = roundUp b m := by
  unfold roundUp
  induction a generalizing b with
  | nil =>
    cases b with
    | nil => intro _; rfl
    | cons _ _ => simp at h
  | cons x xs ih =>
    cases b with
    | nil => simp at h
    | cons y ys =>
      simp only [List.map_cons, List.cons.injEq] at h
      intro m
      rw [List.foldl_cons, List.foldl_cons]
      have : roundStep m x = roundStep m y := by
        unfold roundStep
        rw [h.1]
      rw [this]
      exact ih h.2 _

/-- What `create` returns, in terms of the returned fields only. -/
structure GeoOK (d : Design) (g : Geo) : Prop where
  live : ∀ i ∈ g.crossings, i.factors ≠ []
  sizes : g.sizes = g.crossings.map (roundSize d g.design (excludedLevels g.constraints))
  preambles : g.preambles = match g.align with
    | .postPreamble => g.crossings.map (fun _ => (g.crossings.map (preOf d)).foldl max 0)
    | _ => g.crossings.map (preOf d)
  n : g.n = max (max (roundUp g.crossings (minT0 g.constraints))
        (required d g.design (excludedLevels g.constraints) g.crossings g.align)) 1

theorem create_constraints_c (d : Design) (design : List Nat) (insts : List CrossInst) (old : List Scoped)
    (new : List ConstraintD) (rcc : Bool) (mode : Mode) (align : Alignment) :
    (create d design insts old new rcc mode align).constraints.map (fun s => (s.c, s.sustain))
      = (old ++ newScoped0 new).map (fun s => (s.c, s.sustain)) := by
  simp [create, newScoped0]

theorem create_excl (d : Design) (design : List Nat) (insts : List CrossInst) (old : List Scoped)
    (new : List ConstraintD) (rcc : Bool) (mode : Mode) (align : Alignment) :
    excludedLevels (create d design insts old new rcc mode align).constraints
      = excludedLevels (old ++ newScoped0 new) := by
  rw [excludedLevels_eq, excludedLevels_eq]
  have := congrArg (List.map Prod.fst) (create_constraints_c d design insts old new rcc mode align)
  have h2 : (create d design insts old new rcc mode align).constraints.map (·.c)
      = (old ++ newScoped0 new).map (·.c) := by
    simpa [List.map_map, Function.comp_def] using this
  rw [h2]

theorem create_ok (d : Design) (design : List Nat) (insts : List CrossInst) (old : List Scoped)
    (new : List ConstraintD) (rcc : Bool) (mode : Mode) (align : Alignment) :
    GeoOK d (create d design insts old new rcc mode align) := by
  obtain ⟨w, _, hc⟩ := create_crossings d design insts old new rcc mode align
  have hE := create_excl d design insts old new rcc mode align
  have hal : (create d design insts old new rcc mode align).align = align := rfl
  have hde : (create d design insts old new rcc mode align).design = design := rfl
  refine ⟨create_crossings_live d design insts old new rcc mode align, ?_, ?_, ?_⟩
  · rw [create_sizes, hc, hE, hde, List.map_map]
    rfl
  · rw [create_preambles, hc, hal, List.map_map, List.map_map]
    cases align <;> rfl
  · rw [create_n, hc, hE, hde, hal]
    congr 2
    · rw [minT0, minT0, minT0_congr (create_constraints_c d design insts old new rcc mode align)]
      apply roundUp_congr
      simp [List.map_map, Function.comp_def]
    · cases align
      · simp only [required, List.map_map]
        rfl
      · simp only [required, List.map_map]
        rfl
      · simp only [required, List.map_map]
        rfl

theorem geoOK_error {d : Design} {g : Geo} (h : GeoOK d g) (e : Option String) : GeoOK d { g with error := e } :=
  ⟨h.live, h.sizes, h.preambles, h.n⟩

/-- every block expression's geometry satisfies the arithmetic of `create` -/
theorem geo_ok (d : Design) (b : BlockExpr) : GeoOK d (geo d b) := by
  cases b with
  | cross design crossing cs rcc => simp only [geo]; exact create_ok ..
  | multiCross design crossings cs rcc mode align => simp only [geo]; exact geoOK_error (create_ok ..) _
  | «repeat» b cs => simp only [geo]; exact geoOK_error (create_ok ..) _
  | merge bs cs mode align => simp only [geo]; exact geoOK_error (create_ok ..) _
  | nest outer inner cs align => simp only [geo]; exact geoOK_error (create_ok ..) _

/-! ## more `foldl max` -/

theorem foldl_max_append (a b : List Nat) : (a ++ b).foldl max 0 = max (a.foldl max 0) (b.foldl max 0) := by
  apply Nat.le_antisymm
  · apply foldl_max_le (Nat.zero_le _)
    intro x hx
    rcases List.mem_append.mp hx with h | h
    · exact Nat.le_trans (le_foldl_max_of_mem h 0) (Nat.le_max_left ..)
    · exact Nat.le_trans (le_foldl_max_of_mem h 0) (Nat.le_max_right ..)
  · apply Nat.max_le.mpr
    constructor
    · exact foldl_max_le (Nat.zero_le _) (fun x hx => le_foldl_max_of_mem (List.mem_append_left _ hx) 0)
    · exact foldl_max_le (Nat.zero_le _) (fun x hx => le_foldl_max_of_mem (List.mem_append_right _ hx) 0)

theorem foldl_max_map_mul {α} (l : List α) (f : α → Nat) (L : Nat) :
    (l.map (fun x => f x * L)).foldl max 0 = (l.map f).foldl max 0 * L := by
  apply Nat.le_antisymm
  · apply foldl_max_le (Nat.zero_le _)
    intro x hx
    obtain ⟨y, hy, rfl⟩ := List.mem_map.mp hx
    exact Nat.mul_le_mul_right _ (le_foldl_max_of_mem (List.mem_map_of_mem hy) 0)
  · rcases foldl_max_mem_or (l.map f) 0 with h | h
    · rw [h, Nat.zero_mul]; exact Nat.zero_le _
    · obtain ⟨y, hy, hye⟩ := List.mem_map.mp h
      rw [← hye]
      exact le_foldl_max_of_mem (List.mem_map_of_mem (f := fun x => f x * L) hy) 0

theorem maxStart_eq_zero {d : Design} {fs : List Nat} (h : ∀ f ∈ fs, start d f = 0) : maxStart d fs = 0 := by
  unfold maxStart
  apply Nat.le_antisymm _ (Nat.zero_le _)
  apply foldl_max_le (Nat.le_refl _)
  intro x hx
  obtain ⟨f, hf, rfl⟩ := List.mem_map.mp hx
  exact Nat.le_of_eq (h f hf)

/-- without preambles every alignment asks for the longest round -/
theorem required_of_pre_zero (d : Design) (design : List Nat) (excl : List (Nat × Nat)) (insts : List CrossInst)
    (al : Alignment) (h : ∀ i ∈ insts, preOf d i = 0) :
    required d design excl insts al = (insts.map (roundSize d design excl)).foldl max 0 := by
  have hnp : (insts.map (fun i => preOf d i + roundSize d design excl i)).foldl max 0
      = (insts.map (roundSize d design excl)).foldl max 0 := by
    congr 1
    apply List.map_congr_left
    intro i hi
    rw [h i hi, Nat.zero_add]
  cases al
  · simp only [required]
    cases hnil : insts with
    | nil => rfl
    | cons i0 is0 =>
    rw [← hnil]
    generalize (insts.map (roundSize d design excl)).foldl max 0 = M
    rw [hnil] at h ⊢
    clear hnil hnp insts
    generalize hins : i0 :: is0 = insts at *
    apply Nat.le_antisymm
    · apply foldl_max_le (Nat.zero_le _)
      intro x hx
      obtain ⟨i, hi, rfl⟩ := List.mem_map.mp hx
      rw [h i hi, Nat.zero_add]
      exact Nat.le_refl _
    · subst hins
      have := le_foldl_max_of_mem (List.mem_map_of_mem (f := fun i => preOf d i + M)
        (List.mem_cons_self (a := i0) (l := is0))) 0
      omega
  · exact hnp
  · exact hnp

end SPModel.CreateN
