/- Fresh-variable blocks: `freshN` followed by one defining item per variable. -/
import SPProofs.Card.Bits

namespace SPModel
open Builder Card

/-- A list of gate items defining `n+1, n+2, …` in order is a chain. -/
theorem Chain.ofDefs : ∀ (its : List Item) (n : Nat),
    (∀ i (hi : i < its.length), its[i].out = some (n + 1 + i) ∧ ∀ l ∈ its[i].ins, LitOK (n + i) l) →
    Chain n its (n + its.length)
  | [], n, _ => by simp [Chain]
  | it :: rest, n, h => by
    simp only [Chain]
    have h0 := h 0 (by simp)
    simp only [List.getElem_cons_zero, Nat.add_zero] at h0
    refine ⟨h0.2, ?_⟩
    rw [h0.1]
    refine ⟨rfl, ?_⟩
    have ih := Chain.ofDefs rest (n + 1) (fun i hi => by
      have := h (i + 1) (by simp; omega)
      simp only [List.getElem_cons_succ] at this
      have e1 : n + 1 + (i + 1) = n + 1 + 1 + i := by omega
      have e2 : n + (i + 1) = n + 1 + i := by omega
      rw [e1, e2] at this
      exact this)
    have e : n + 1 + rest.length = n + (it :: rest).length := by simp; omega
    rw [e] at ih
    exact ih

namespace Builder

theorem foldl_emit {α : Type} (f : α → Item) : ∀ (l : List α) (b : Builder),
    l.foldl (fun b x => b.emit (f x)) b = { nvars := b.nvars, items := (l.map f).reverse ++ b.items }
  | [], b => rfl
  | x :: l, b => by
    rw [List.foldl_cons, foldl_emit f l (b.emit (f x))]
    simp [emit]

/-- Extending by a block of definitions of the next `its.length` variables. -/
theorem GExt.defs (b : Builder) (its : List Item)
    (h : ∀ i (hi : i < its.length), its[i].out = some (b.nvars + 1 + i) ∧
      ∀ l ∈ its[i].ins, LitOK (b.nvars + i) l) :
    GExt b { nvars := b.nvars + its.length, items := its.reverse ++ b.items } := by
  refine ⟨its.reverse, rfl, ?_, ?_⟩
  · rw [List.reverse_reverse]
    exact Chain.ofDefs its b.nvars h
  · intro it hm
    obtain ⟨i, hi, rfl⟩ := List.mem_iff_getElem.1 (List.mem_reverse.1 hm)
    rw [(h i hi).1]
    simp

@[simp] theorem freshN_fst_length (b : Builder) (k : Nat) : (b.freshN k).1.length = k := by
  simp [freshN]

@[simp] theorem freshN_fst_getElem (b : Builder) (k i : Nat) (hi : i < (b.freshN k).1.length) :
    (b.freshN k).1[i] = b.nvars + 1 + i := by
  simp [freshN]

@[simp] theorem freshN_snd (b : Builder) (k : Nat) :
    (b.freshN k).2 = { nvars := b.nvars + k, items := b.items } := rfl

theorem mem_freshN (b : Builder) (k v : Nat) (h : v ∈ (b.freshN k).1) :
    b.nvars < v ∧ v ≤ b.nvars + k := by
  simp only [freshN, List.mem_map, List.mem_range] at h
  obtain ⟨i, hi, rfl⟩ := h
  omega

/-- `freshN k` followed by items `g v` for each fresh `v` (e.g. `zero_out`). -/
theorem fresh_defs (b : Builder) (k : Nat) (its : List Item) (hlen : its.length = k)
    (h : ∀ i (hi : i < its.length), its[i].out = some (b.nvars + 1 + i) ∧
      ∀ l ∈ its[i].ins, LitOK (b.nvars + i) l) :
    GExt b { nvars := b.nvars + k, items := its.reverse ++ b.items } := by
  have := GExt.defs b its h
  rwa [hlen] at this

theorem zeroOut_eq (b : Builder) (vs : List Nat) :
    b.zeroOut vs = { nvars := b.nvars, items := (vs.map (fun v => Item.const v false)).reverse ++ b.items } :=
  foldl_emit _ vs b

/-- `get_n_fresh(k)` followed by `zero_out`. -/
theorem freshZero_spec (b : Builder) (k : Nat) :
    GExt b ((b.freshN k).2.zeroOut (b.freshN k).1) ∧
    ((b.freshN k).2.zeroOut (b.freshN k).1).nvars = b.nvars + k ∧
    ∀ τ, ((b.freshN k).2.zeroOut (b.freshN k).1).Holds τ → ∀ v ∈ (b.freshN k).1, τ v = false := by
  rw [zeroOut_eq]
  refine ⟨?_, rfl, ?_⟩
  · apply fresh_defs b k _ (by simp)
    intro i hi
    simp [Item.out, Item.ins]
  · intro τ h v hv
    have := h (.const v false) (by
      simp only [List.mem_append, List.mem_reverse, List.mem_map]
      exact Or.inl ⟨v, hv, rfl⟩)
    simpa [Item.holds] using this

theorem litVal_fresh_false (τ : Assign) (v : Nat) (h0 : 0 < v) (h : τ v = false) :
    litVal τ (v : Int) = false := by
  rw [litVal_nat _ _ h0, h]

end Builder
end SPModel
