/- Requests: `applyRequest`, `applyRequests`, and the derived model-level facts. -/
import SPProofs.Card.AssertIneq

namespace SPModel
open Builder Card

theorem Request.holds_eq (r : Request) (τ : Assign) :
    r.holds τ = (match r.rel with
      | .eq => litCount τ r.vars == r.k
      | .lt => decide (litCount τ r.vars < r.k)
      | .gt => decide (litCount τ r.vars > r.k)) := rfl

theorem Request.holds_congr {n : Nat} {σ τ : Assign} (r : Request)
    (hx : ∀ x ∈ r.vars, LitOK n x) (h : Agree n σ τ) : r.holds σ = r.holds τ := by
  rw [Request.holds_eq, Request.holds_eq, litCount_congr hx h]

namespace Builder

theorem ReqSpec.congr {b : Builder} {res : Except PyErr Builder} {P P' : Assign → Prop}
    (h : ReqSpec b res P) (hPP : ∀ τ, P τ ↔ P' τ) : ReqSpec b res P' := by
  obtain ⟨b', h1, h2, h3, h4⟩ := h
  exact ⟨b', h1, h2, fun τ hτ => (hPP τ).1 (h3 τ hτ), fun σ hσ hP => h4 σ hσ ((hPP σ).2 hP)⟩

theorem applyRequest_spec (b : Builder) (hc : Closed b) (r : Request) (hne : r.vars ≠ [])
    (hx : ∀ x ∈ r.vars, LitOK b.nvars x) :
    ReqSpec b (b.applyRequest r) (fun τ => r.holds τ = true) := by
  unfold applyRequest
  cases hrel : r.rel with
  | eq =>
    apply (assertKofN_spec b hc r.k r.vars hne hx).congr
    intro τ; rw [Request.holds_eq, hrel]; simp
  | lt =>
    apply (inequality_spec b hc true r.k r.vars hne hx).congr
    intro τ; rw [Request.holds_eq, hrel]; simp
  | gt =>
    apply (inequality_spec b hc false r.k r.vars hne hx).congr
    intro τ; rw [Request.holds_eq, hrel]; simp

theorem applyRequests_spec : ∀ (reqs : List Request) (b : Builder), Closed b →
    (∀ r ∈ reqs, r.vars ≠ [] ∧ ∀ x ∈ r.vars, LitOK b.nvars x) →
    ReqSpec b (b.applyRequests reqs) (fun τ => ∀ r ∈ reqs, r.holds τ = true)
  | [], b, _, _ => by
    exact ⟨b, rfl, Ext.refl b, fun τ _ r hr => by simp at hr,
      fun σ hσ _ => ⟨σ, agree_refl _ _, hσ⟩⟩
  | r :: rs, b, hc, hr => by
    obtain ⟨hne, hx⟩ := hr r (by simp)
    obtain ⟨b1, e1, x1, p1, q1⟩ := applyRequest_spec b hc r hne hx
    have hle := x1.le
    have hrs : ∀ r' ∈ rs, r'.vars ≠ [] ∧ ∀ x ∈ r'.vars, LitOK b1.nvars x := fun r' hm =>
      ⟨(hr r' (by simp [hm])).1, fun x hxm => ((hr r' (by simp [hm])).2 x hxm).mono hle⟩
    obtain ⟨b2, e2, x2, p2, q2⟩ := applyRequests_spec rs b1 (hc.ext x1) hrs
    refine ⟨b2, ?_, x1.trans x2, ?_, ?_⟩
    · simp only [applyRequests, e1, e2]
    · intro τ hτ r' hm
      rcases List.mem_cons.1 hm with rfl | hm
      · exact p1 τ (x2.holds hτ)
      · exact p2 τ hτ r' hm
    · intro σ hσ hP
      obtain ⟨τ1, a1, t1⟩ := q1 σ hσ (hP r (by simp))
      obtain ⟨τ2, a2, t2⟩ := q2 τ1 t1 (fun r' hm => by
        rw [← Request.holds_congr r' (hr r' (by simp [hm])).2 a1]
        exact hP r' (by simp [hm]))
      exact ⟨τ2, agree_trans a1 (agree_mono a2 hle), t2⟩

/-- From the builder-level specification to the clause-level statement. -/
theorem ReqSpec.iff {n : Nat} {res : Except PyErr Builder} {P : Assign → Prop}
    (h : ReqSpec (fromFresh n) res P) (hPc : ∀ σ τ, Agree n σ τ → (P σ ↔ P τ))
    {b' : Builder} (hres : res = .ok b') (σ : Assign) :
    (∃ τ, Agree n σ τ ∧ cnfSat τ b'.vals = true) ↔ P σ := by
  obtain ⟨b'', h1, h2, h3, h4⟩ := h
  rw [hres] at h1
  cases h1
  constructor
  · rintro ⟨τ, ha, hs⟩
    exact (hPc σ τ ha).2 (h3 τ ((vals_sat_iff h2 τ).1 hs))
  · intro hP
    obtain ⟨τ, ha, hτ⟩ := h4 σ (by intro it hm; simp [fromFresh] at hm) hP
    exact ⟨τ, ha, (vals_sat_iff h2 τ).2 hτ⟩

theorem mem_vals {b : Builder} {c : Clause} (h : c ∈ b.vals) : ∃ it ∈ b.items, c ∈ it.clauses := by
  simp only [vals, List.mem_flatten, List.mem_map, List.mem_reverse] at h
  obtain ⟨_, ⟨it, hit, rfl⟩, hc⟩ := h
  exact ⟨it, hit, hc⟩

theorem Closed.vals_lits {b : Builder} (hc : Closed b) : ∀ c ∈ b.vals, ∀ l ∈ c, l.natAbs ≤ b.nvars := by
  intro c hcm l hl
  obtain ⟨it, hit, hc'⟩ := mem_vals hcm
  exact Item.clause_lits (hc it hit) c hc' l hl

end Builder
end SPModel
