/- Specification of `pop_count` (`popPairs`, `popLayer`, `popCount`). -/
import SPProofs.Card.Adders
import SPProofs.Card.Fresh

namespace SPModel
open Builder Card

/-! ### `clog2` -/

theorem clog2_go_spec (n : Nat) : ∀ (fuel p : Nat), n ≤ 2 ^ (p + fuel) → n ≤ 2 ^ (Builder.clog2.go n p fuel)
  | 0, p, h => by simpa [Builder.clog2.go] using h
  | fuel + 1, p, h => by
    unfold Builder.clog2.go
    split
    · assumption
    · apply clog2_go_spec n fuel (p + 1)
      have : p + 1 + fuel = p + (fuel + 1) := by omega
      rwa [this]

theorem le_two_pow_clog2 (n : Nat) : n ≤ 2 ^ Builder.clog2 n := by
  unfold Builder.clog2
  apply clog2_go_spec
  simpa using Nat.le_of_lt Nat.lt_two_pow_self

/-! ### The saturating representation -/

theorem satRepr_of_lt {s c : Nat} (hs : 0 < s) (hc : c < 2 ^ s) : satRepr s c = c := by
  unfold satRepr
  have h2 : 2 ^ s = 2 * 2 ^ (s - 1) := by
    have : s = (s - 1) + 1 := by omega
    rw [this, Nat.pow_succ]; simp; omega
  generalize 2 ^ (s - 1) = Q at *
  by_cases h : Q ≤ c
  · rw [if_pos h, Nat.mod_eq_sub_mod h, Nat.mod_eq_of_lt (by omega)]
    omega
  · rw [if_neg h, Nat.mod_eq_of_lt (by omega)]
    rfl

theorem satRepr_of_lt_half {s c : Nat} (hc : c < 2 ^ (s - 1)) : satRepr s c = c := by
  unfold satRepr
  rw [if_neg (by omega), Nat.mod_eq_of_lt hc]
  rfl

theorem satRepr_ge_half {s c : Nat} (hc : 2 ^ (s - 1) ≤ c) : 2 ^ (s - 1) ≤ satRepr s c := by
  unfold satRepr
  rw [if_pos hc]
  omega

/-- `bits` encodes the count `c` (exactly below the saturation width, else saturating). -/
def Enc (τ : Assign) (sat : Nat) (bits : List Int) (c : Nat) : Prop :=
  bitsVal τ bits = if sat = 0 ∨ bits.length < sat then c else satRepr sat c

/-- The bit lists of `bl` encode counts that sum to `N`. -/
def EncSum (τ : Assign) (sat : Nat) : List (List Int) → Nat → Prop
  | [], N => N = 0
  | bits :: rest, N => ∃ c N', Enc τ sat bits c ∧ EncSum τ sat rest N' ∧ N = c + N'

/-- The pairs encode counts that sum to `N`. -/
def PairSum (τ : Assign) (sat : Nat) : List (List Int × List Int) → Nat → Prop
  | [], N => N = 0
  | (l, r) :: rest, N => ∃ cl cr N', Enc τ sat l cl ∧ Enc τ sat r cr ∧ PairSum τ sat rest N' ∧ N = cl + cr + N'

theorem EncSum_append (τ : Assign) (sat : Nat) : ∀ (l₁ l₂ : List (List Int)) (N : Nat),
    EncSum τ sat (l₁ ++ l₂) N ↔ ∃ N₁ N₂, EncSum τ sat l₁ N₁ ∧ EncSum τ sat l₂ N₂ ∧ N = N₁ + N₂
  | [], l₂, N => by
    simp only [List.nil_append, EncSum]
    constructor
    · intro h; exact ⟨0, N, rfl, h, by omega⟩
    · rintro ⟨N₁, N₂, rfl, h, rfl⟩; simpa using h
  | bits :: l₁, l₂, N => by
    simp only [List.cons_append, EncSum, EncSum_append τ sat l₁ l₂]
    constructor
    · rintro ⟨c, N', hc, ⟨N₁, N₂, h1, h2, rfl⟩, rfl⟩
      exact ⟨c + N₁, N₂, ⟨c, N₁, hc, h1, rfl⟩, h2, by omega⟩
    · rintro ⟨M, N₂, ⟨c, N₁, hc, h1, rfl⟩, h2, rfl⟩
      exact ⟨c, N₁ + N₂, hc, ⟨N₁, N₂, h1, h2, rfl⟩, by omega⟩

theorem PairSum_zip (τ : Assign) (sat : Nat) : ∀ (ls rs : List (List Int)) (N₁ N₂ : Nat),
    ls.length = rs.length → EncSum τ sat ls N₁ → EncSum τ sat rs N₂ →
    PairSum τ sat (ls.zip rs) (N₁ + N₂)
  | [], [], N₁, N₂, _, h1, h2 => by
    simp only [EncSum] at h1 h2
    simp [PairSum, h1, h2]
  | [], _ :: _, _, _, h, _, _ => by simp at h
  | _ :: _, [], _, _, h, _, _ => by simp at h
  | l :: ls, r :: rs, N₁, N₂, h, h1, h2 => by
    obtain ⟨cl, N₁', hl, h1', rfl⟩ := h1
    obtain ⟨cr, N₂', hr, h2', rfl⟩ := h2
    simp only [List.zip_cons_cons, PairSum]
    exact ⟨cl, cr, N₁' + N₂', hl, hr, PairSum_zip τ sat ls rs _ _ (by simpa using h) h1' h2', by omega⟩

namespace Builder

/-- Width of the outputs of one `_pop_count_layer` pass over width-`w` inputs. -/
def nextW (sat w : Nat) : Nat := if sat = 0 then w + 1 else min (w + 1) sat

/-- One addition of the layer. -/
theorem popStep (b : Builder) (sat w : Nat) (l r : List Int) (hw : 0 < w) (hws : sat = 0 ∨ w ≤ sat)
    (hl : l.length = w) (hr : r.length = w)
    (hlo : ∀ x ∈ l, LitOK b.nvars x) (hro : ∀ x ∈ r, LitOK b.nvars x) :
    ∃ v b', (if sat = 0 then
        (match b.rippleCarry l r with
         | ((some c, ss), b1) => Except.ok (c :: ss.reverse, b1)
         | ((none, _), _) => Except.error PyErr.typeError)
        else b.rippleSaturate l r sat) = .ok (v, b') ∧ GExt b b' ∧
      v.length = nextW sat w ∧ (∀ x ∈ v, LitOK b'.nvars x) ∧
      ∀ τ, b'.Holds τ → ∀ cl cr, Enc τ sat l cl → Enc τ sat r cr → Enc τ sat v (cl + cr) := by
  by_cases h0 : sat = 0
  · obtain ⟨c, ss, b', heq, g, hlen, hok, hv⟩ :=
      rippleCarry_full b l r hlo hro (by omega) (by omega)
    refine ⟨c :: ss.reverse, b', by simp [h0, heq], g, by simp [nextW, h0, hlen, hl], ?_, ?_⟩
    · intro x hx; apply hok; simpa using hx
    · intro τ hτ cl cr e1 e2
      simp only [Enc, h0, true_or, if_true] at e1 e2 ⊢
      rw [hv τ hτ, e1, e2]
  · have hws' : w ≤ sat := by omega
    obtain ⟨v, b', heq, g, hlen, hok, hv⟩ :=
      rippleSaturate_full b l r sat hlo hro (by omega) (by omega) (by omega)
    refine ⟨v, b', by simp [h0, heq], g, by simp [nextW, h0, hlen, hl], hok, ?_⟩
    intro τ hτ cl cr e1 e2
    obtain ⟨hv1, hv2⟩ := hv τ hτ
    simp only [Enc, h0, false_or, hl, hr, hlen] at e1 e2 ⊢
    rcases Nat.lt_or_ge w sat with hlt | hge
    · rw [if_pos hlt] at e1 e2
      have hsum := hv1 (by omega)
      rw [e1, e2] at hsum
      by_cases h2 : w + 1 < sat
      · rw [if_pos (by omega)]; exact hsum
      · rw [if_neg (by omega)]
        rw [hsum]
        symm
        apply satRepr_of_lt (by omega)
        have := bitsVal_lt τ v
        rw [hlen, hl] at this
        have e : min (w + 1) sat = sat := by omega
        rw [e] at this
        omega
    · rw [if_neg (by omega)] at e1 e2
      rw [if_neg (by omega)]
      exact hv2 (by omega) cl cr e1 e2

theorem popPairs_step (b : Builder) (sat : Nat) (acc : List (List Int)) (l r : List Int)
    (rest : List (List Int × List Int)) :
    b.popPairs sat acc ((l, r) :: rest) =
      match (if sat = 0 then
        (match b.rippleCarry l r with
         | ((some c, ss), b1) => Except.ok (c :: ss.reverse, b1)
         | ((none, _), _) => Except.error PyErr.typeError)
        else b.rippleSaturate l r sat) with
      | .ok (v, b1) => b1.popPairs sat (v :: acc) rest
      | .error e => .error e := by
  rw [popPairs]
  by_cases h0 : sat = 0
  · simp only [h0, if_true]
    rcases b.rippleCarry l r with ⟨⟨_ | c, ss⟩, b1⟩ <;> rfl
  · simp only [h0, if_false]
    rcases b.rippleSaturate l r sat with e | ⟨v, b1⟩ <;> rfl

theorem popPairs_spec (sat w : Nat) (hw : 0 < w) (hws : sat = 0 ∨ w ≤ sat) :
    ∀ (pairs : List (List Int × List Int)) (b : Builder) (acc : List (List Int)),
    (∀ p ∈ pairs, p.1.length = w ∧ p.2.length = w ∧
      (∀ x ∈ p.1, LitOK b.nvars x) ∧ (∀ x ∈ p.2, LitOK b.nvars x)) →
    ∃ news b', b.popPairs sat acc pairs = .ok (news ++ acc, b') ∧ GExt b b' ∧
      news.length = pairs.length ∧
      (∀ bits ∈ news, bits.length = nextW sat w ∧ ∀ x ∈ bits, LitOK b'.nvars x) ∧
      ∀ τ, b'.Holds τ → ∀ N, PairSum τ sat pairs N → EncSum τ sat news N
  | [], b, acc, _ => by
    refine ⟨[], b, rfl, GExt.refl b, rfl, by simp, ?_⟩
    intro τ _ N h
    simpa [PairSum, EncSum] using h
  | (l, r) :: rest, b, acc, hp => by
    obtain ⟨hl, hr, hlo, hro⟩ := hp (l, r) (by simp)
    obtain ⟨v, b1, heq, g1, hvl, hvo, hv⟩ := popStep b sat w l r hw hws hl hr hlo hro
    have hle := g1.le
    obtain ⟨news, b2, heq2, g2, hnl, hno, hn⟩ := popPairs_spec sat w hw hws rest b1 (v :: acc)
      (fun p hm => by
        obtain ⟨h1, h2, h3, h4⟩ := hp p (by simp [hm])
        exact ⟨h1, h2, fun x hx => (h3 x hx).mono hle, fun x hx => (h4 x hx).mono hle⟩)
    refine ⟨news ++ [v], b2, ?_, g1.trans g2, by simp [hnl], ?_, ?_⟩
    · rw [popPairs_step, heq]
      simp only
      rw [heq2]
      simp
    · intro bits hm
      rcases List.mem_append.1 hm with hm | hm
      · exact hno bits hm
      · simp only [List.mem_singleton] at hm
        subst hm
        exact ⟨hvl, fun x hx => (hvo x hx).mono g2.le⟩
    · intro τ hτ N hN
      obtain ⟨cl, cr, N', e1, e2, hrest, rfl⟩ := hN
      rw [EncSum_append]
      refine ⟨N', cl + cr, hn τ hτ N' hrest, ?_, by omega⟩
      exact ⟨cl + cr, 0, hv τ (g2.holds hτ) cl cr e1 e2, rfl, rfl⟩

/-! ### `_pop_count_layer` -/

theorem popLayer_single (b : Builder) (sat fuel : Nat) (x : List Int) :
    b.popLayer sat fuel [x] = .ok (x, b) := by
  cases fuel <;> rfl

theorem popLayer_succ (b : Builder) (sat fuel : Nat) (bl : List (List Int)) (h : 2 ≤ bl.length) :
    b.popLayer sat (fuel + 1) bl =
      match b.popPairs sat [] ((bl.take (bl.length / 2)).zip (bl.drop (bl.length / 2))) with
      | .ok (vl, b1) => b1.popLayer sat fuel vl
      | .error e => .error e := by
  match bl, h with
  | a :: c :: rest, _ =>
    rw [popLayer]
    · rfl
    · intro x hx; simp at hx

theorem popLayer_spec (sat : Nat) : ∀ (q fuel w : Nat) (bl : List (List Int)) (b : Builder),
    bl.length = 2 ^ q → q ≤ fuel → 0 < w → (sat = 0 ∨ w ≤ sat) →
    (∀ bits ∈ bl, bits.length = w ∧ ∀ x ∈ bits, LitOK b.nvars x) →
    ∃ out b', b.popLayer sat fuel bl = .ok (out, b') ∧ GExt b b' ∧
      out.length = (if sat = 0 then w + q else min (w + q) sat) ∧
      (∀ x ∈ out, LitOK b'.nvars x) ∧
      ∀ τ, b'.Holds τ → ∀ N, EncSum τ sat bl N → Enc τ sat out N
  | 0, fuel, w, bl, b, hlen, _, hw, hws, hwf => by
    match bl, hlen with
    | [x], _ =>
    refine ⟨x, b, popLayer_single b sat fuel x, GExt.refl b, ?_, (hwf x (by simp)).2, ?_⟩
    · have := (hwf x (by simp)).1
      split <;> omega
    · intro τ _ N hN
      obtain ⟨c, N', hc, h0, rfl⟩ := hN
      simp only [EncSum] at h0
      subst h0
      simpa using hc
  | q + 1, 0, _, _, _, _, hf, _, _, _ => by omega
  | q + 1, fuel + 1, w, bl, b, hlen, hf, hw, hws, hwf => by
    have hpow : 2 ^ (q + 1) = 2 * 2 ^ q := by rw [Nat.pow_succ]; omega
    have hqpos : 0 < 2 ^ q := Nat.two_pow_pos q
    have hmid : bl.length / 2 = 2 ^ q := by omega
    have htl : (bl.take (2 ^ q)).length = 2 ^ q := by simp; omega
    have hdl : (bl.drop (2 ^ q)).length = 2 ^ q := by simp; omega
    obtain ⟨news, b1, heq, g1, hnl, hno, hn⟩ :=
      popPairs_spec sat w hw hws ((bl.take (2 ^ q)).zip (bl.drop (2 ^ q))) b []
        (fun p hm => by
          obtain ⟨l, r⟩ := p
          have h1 := List.mem_of_mem_take (List.of_mem_zip hm).1
          have h2 := List.mem_of_mem_drop (List.of_mem_zip hm).2
          exact ⟨(hwf l h1).1, (hwf r h2).1, (hwf l h1).2, (hwf r h2).2⟩)
    have hnl' : news.length = 2 ^ q := by
      rw [hnl, List.length_zip, htl, hdl]; simp
    have hw' : 0 < nextW sat w := by unfold nextW; split <;> omega
    have hws' : sat = 0 ∨ nextW sat w ≤ sat := by unfold nextW; split <;> omega
    obtain ⟨out, b2, heq2, g2, hol, hoo, ho⟩ :=
      popLayer_spec sat q fuel (nextW sat w) news b1 hnl' (by omega) hw' hws' hno
    refine ⟨out, b2, ?_, g1.trans g2, ?_, hoo, ?_⟩
    · rw [popLayer_succ b sat fuel bl (by omega), hmid, heq]
      simpa using heq2
    · rw [hol]; unfold nextW; split <;> omega
    · intro τ hτ N hN
      apply ho τ hτ
      apply hn τ (g2.holds hτ)
      rw [← List.take_append_drop (2 ^ q) bl, EncSum_append] at hN
      obtain ⟨N₁, N₂, h1, h2, rfl⟩ := hN
      exact PairSum_zip τ sat _ _ N₁ N₂ (by rw [htl, hdl]) h1 h2

/-! ### `pop_count` -/

theorem popCount_eq (b : Builder) (xs : List Int) (sat : Nat) (hne : xs ≠ []) :
    b.popCount xs sat =
      ((b.freshN (2 ^ clog2 xs.length - xs.length)).2.zeroOut
          (b.freshN (2 ^ clog2 xs.length - xs.length)).1).popLayer sat
        ((xs ++ (b.freshN (2 ^ clog2 xs.length - xs.length)).1.map
            (fun (v : Nat) => (v : Int))).map (fun x => [x])).length
        ((xs ++ (b.freshN (2 ^ clog2 xs.length - xs.length)).1.map
            (fun (v : Nat) => (v : Int))).map (fun x => [x])) := by
  unfold popCount
  have : xs.isEmpty = false := by cases xs <;> simp_all
  simp only [this]
  rfl

theorem litCount_cons (τ : Assign) (x : Int) (l : List Int) :
    litCount τ (x :: l) = (litVal τ x).toNat + litCount τ l := by
  unfold litCount
  rw [List.filter_cons]
  cases litVal τ x <;> simp <;> omega

theorem litCount_append (τ : Assign) (l₁ l₂ : List Int) :
    litCount τ (l₁ ++ l₂) = litCount τ l₁ + litCount τ l₂ := by
  simp [litCount]

theorem litCount_eq_zero (τ : Assign) (l : List Int) (h : ∀ x ∈ l, litVal τ x = false) :
    litCount τ l = 0 := by
  induction l with
  | nil => rfl
  | cons x l ih =>
    rw [litCount_cons, h x (by simp), ih (fun y hy => h y (by simp [hy]))]
    rfl

theorem litCount_le (τ : Assign) (l : List Int) : litCount τ l ≤ l.length := by
  unfold litCount
  exact List.length_filter_le _ _

theorem Enc_single (τ : Assign) (sat : Nat) (x : Int) : Enc τ sat [x] (litVal τ x).toNat := by
  unfold Enc
  rw [bitsVal_cons]
  simp only [List.length_nil, Nat.pow_zero, Nat.mul_one, bitsVal_nil, Nat.add_zero,
    List.length_cons, Nat.zero_add]
  split
  · rfl
  · have : sat = 1 := by omega
    subst this
    cases litVal τ x <;> simp [satRepr]

theorem EncSum_singletons (τ : Assign) (sat : Nat) : ∀ l : List Int,
    EncSum τ sat (l.map (fun x => [x])) (litCount τ l)
  | [] => by simp [EncSum, litCount]
  | x :: l => by
    simp only [List.map_cons, EncSum]
    exact ⟨_, _, Enc_single τ sat x, EncSum_singletons τ sat l, litCount_cons τ x l⟩

theorem popCount_full (b : Builder) (xs : List Int) (sat : Nat)
    (hx : ∀ x ∈ xs, LitOK b.nvars x) (hne : xs ≠ []) :
    ∃ out b', b.popCount xs sat = .ok (out, b') ∧ GExt b b' ∧
      (∀ l ∈ out, LitOK b'.nvars l) ∧
      out.length = (if sat = 0 then clog2 xs.length + 1 else min (clog2 xs.length + 1) sat) ∧
      ∀ τ, b'.Holds τ → Enc τ sat out (litCount τ xs) := by
  rw [popCount_eq b xs sat hne]
  generalize hk : 2 ^ clog2 xs.length - xs.length = k
  obtain ⟨g0, hn0, hz⟩ := freshZero_spec b k
  generalize hb0 : (b.freshN k).2.zeroOut (b.freshN k).1 = b0 at *
  have hauxok : ∀ v ∈ (b.freshN k).1, LitOK b0.nvars (v : Int) := by
    intro v hv
    have := mem_freshN b k v hv
    exact LitOK.nat (by omega) (by omega)
  have hlen : ((xs ++ (b.freshN k).1.map (fun (v : Nat) => (v : Int))).map (fun x => [x])).length
      = 2 ^ clog2 xs.length := by
    have := le_two_pow_clog2 xs.length
    simp; omega
  obtain ⟨out, b', heq, g, hol, hoo, ho⟩ := popLayer_spec sat (clog2 xs.length)
    ((xs ++ (b.freshN k).1.map (fun (v : Nat) => (v : Int))).map (fun x => [x])).length 1
    ((xs ++ (b.freshN k).1.map (fun (v : Nat) => (v : Int))).map (fun x => [x])) b0 hlen
    (by rw [hlen]; exact Nat.le_of_lt Nat.lt_two_pow_self) (by omega) (by omega)
    (by
      intro bits hm
      simp only [List.mem_map, List.mem_append] at hm
      obtain ⟨x, hxm, rfl⟩ := hm
      refine ⟨rfl, ?_⟩
      intro y hy
      simp only [List.mem_singleton] at hy
      subst hy
      rcases hxm with hxm | ⟨v, hv, rfl⟩
      · exact (hx y hxm).mono g0.le
      · exact hauxok v hv)
  refine ⟨out, b', heq, g0.trans g, hoo, ?_, ?_⟩
  · rw [hol]; split <;> omega
  · intro τ hτ
    apply ho τ hτ
    have h1 := EncSum_singletons τ sat (xs ++ (b.freshN k).1.map (fun (v : Nat) => (v : Int)))
    rw [litCount_append, litCount_eq_zero τ ((b.freshN k).1.map _)] at h1
    · simpa using h1
    · intro x hxm
      simp only [List.mem_map] at hxm
      obtain ⟨v, hv, rfl⟩ := hxm
      have := mem_freshN b k v hv
      exact litVal_fresh_false τ v (by omega) (hz τ (g.holds hτ) v hv)

end Builder
end SPModel
