/- `_make_same_length`, `_convert_to_negative_twos_complement`, `_inequality_assertion`. -/
import SPProofs.Card.AssertEq

namespace SPModel
open Builder Card
namespace Builder

/-- The literal list of a block of fresh variables. -/
def castL (vs : List Nat) : List Int := vs.map (fun (v : Nat) => (v : Int))

@[simp] theorem castL_length (vs : List Nat) : (castL vs).length = vs.length := by simp [castL]

theorem castL_freshN_ok (b : Builder) (k m : Nat) (h : b.nvars + k ≤ m) :
    ∀ l ∈ castL (b.freshN k).1, LitOK m l := by
  intro l hl
  simp only [castL, List.mem_map] at hl
  obtain ⟨v, hv, rfl⟩ := hl
  have := mem_freshN b k v hv
  exact LitOK.nat (by omega) (by omega)

/-- Value of a block of fresh variables, from the values of the variables. -/
theorem castL_map_litVal (τ : Assign) (b : Builder) (k : Nat) (vs : List Bool) (hk : vs.length = k)
    (h : ∀ i (hi : i < k), τ (b.nvars + 1 + i) = vs[i]) :
    (castL (b.freshN k).1).map (litVal τ) = vs := by
  apply List.ext_getElem
  · simp [hk]
  · intro i h1 h2
    simp only [castL, List.getElem_map, freshN_fst_getElem]
    rw [litVal_nat _ _ (by omega)]
    exact h i (by simpa using h1)

/-! ### A block of fresh variables set to given constants -/

theorem constBlock_spec (b : Builder) (vs : List Bool) :
    GExt b (((b.freshN vs.length).1.zip vs).foldl
      (fun b (p : Nat × Bool) => b.emit (.const p.1 p.2)) (b.freshN vs.length).2) ∧
    (((b.freshN vs.length).1.zip vs).foldl
      (fun b (p : Nat × Bool) => b.emit (.const p.1 p.2)) (b.freshN vs.length).2).nvars
        = b.nvars + vs.length ∧
    ∀ τ, Holds τ (((b.freshN vs.length).1.zip vs).foldl
      (fun b (p : Nat × Bool) => b.emit (.const p.1 p.2)) (b.freshN vs.length).2) →
      (castL (b.freshN vs.length).1).map (litVal τ) = vs := by
  rw [foldl_emit (fun (p : Nat × Bool) => Item.const p.1 p.2)]
  have hlen : (List.map (fun (p : Nat × Bool) => Item.const p.1 p.2)
      ((b.freshN vs.length).1.zip vs)).length = vs.length := by simp
  refine ⟨?_, rfl, ?_⟩
  · apply fresh_defs b vs.length _ hlen
    intro i hi
    simp [Item.out, Item.ins]
  · intro τ h
    apply castL_map_litVal τ b vs.length vs rfl
    intro i hi
    have := h (.const (b.nvars + 1 + i) vs[i]) (by
      simp only [freshN_snd, List.mem_append, List.mem_reverse, List.mem_map]
      refine Or.inl ⟨(b.nvars + 1 + i, vs[i]), ?_, rfl⟩
      rw [List.mem_iff_getElem]
      exact ⟨i, by simpa using hi, by simp⟩)
    simpa [Item.holds] using this

/-! ### `_make_same_length` -/

theorem bitsVal_zero_pad (τ : Assign) (pad xs : List Int) (h : ∀ x ∈ pad, litVal τ x = false) :
    bitsVal τ (pad ++ xs) = bitsVal τ xs := by
  rw [bitsVal_append, bitsVal_eq_zero τ pad h]
  simp

/-- Padding block: `k` fresh zeroed variables, then one more. -/
theorem padBlocks_spec (b : Builder) (k : Nat) :
    let b2 := (b.freshN k).2.zeroOut (b.freshN k).1
    let b4 := (b2.freshN 1).2.zeroOut (b2.freshN 1).1
    GExt b b4 ∧ b4.nvars = b.nvars + k + 1 ∧
    (∀ l ∈ castL (b.freshN k).1, LitOK b4.nvars l) ∧
    (∀ l ∈ castL (b2.freshN 1).1, LitOK b4.nvars l) ∧
    ∀ τ, Holds τ b4 → (∀ l ∈ castL (b.freshN k).1, litVal τ l = false) ∧
      (∀ l ∈ castL (b2.freshN 1).1, litVal τ l = false) := by
  intro b2 b4
  obtain ⟨g1, hn1, hz1⟩ := freshZero_spec b k
  obtain ⟨g2, hn2, hz2⟩ := freshZero_spec b2 1
  have hn4 : b4.nvars = b.nvars + k + 1 := by rw [hn2, hn1]
  refine ⟨g1.trans g2, hn4, ?_, ?_, ?_⟩
  · exact castL_freshN_ok b k b4.nvars (by omega)
  · exact castL_freshN_ok b2 1 b4.nvars (Nat.le_of_eq hn2.symm)
  · intro τ hτ
    constructor
    · intro l hl
      simp only [castL, List.mem_map] at hl
      obtain ⟨v, hv, rfl⟩ := hl
      have := mem_freshN b k v hv
      exact litVal_fresh_false τ v (by omega) (hz1 τ (g2.holds hτ) v hv)
    · intro l hl
      simp only [castL, List.mem_map] at hl
      obtain ⟨v, hv, rfl⟩ := hl
      have := mem_freshN b2 1 v hv
      exact litVal_fresh_false τ v (by omega) (hz2 τ hτ v hv)

theorem makeSameLength_spec (b : Builder) (xs ys : List Int)
    (hx : ∀ x ∈ xs, LitOK b.nvars x) (hy : ∀ y ∈ ys, LitOK b.nvars y) :
    ∃ xs' ys' b', b.makeSameLength xs ys = ((xs', ys'), b') ∧ GExt b b' ∧
      xs'.length = ys'.length ∧
      xs'.length = (if xs.length = ys.length then xs.length else max xs.length ys.length + 1) ∧
      (∀ l ∈ xs', LitOK b'.nvars l) ∧ (∀ l ∈ ys', LitOK b'.nvars l) ∧
      ∀ τ, Holds τ b' → bitsVal τ xs' = bitsVal τ xs ∧ bitsVal τ ys' = bitsVal τ ys := by
  unfold makeSameLength
  by_cases h1 : xs.length = ys.length
  · rw [if_pos h1]
    exact ⟨xs, ys, b, rfl, GExt.refl b, h1, by simp [h1], hx, hy, fun τ _ => ⟨rfl, rfl⟩⟩
  · rw [if_neg h1]
    by_cases h2 : xs.length < ys.length
    · rw [if_pos h2]
      obtain ⟨g, hn, hp, ho, hv⟩ := padBlocks_spec b (ys.length - xs.length + 1)
      refine ⟨_, _, _, rfl, g, ?_, ?_, ?_, ?_, ?_⟩
      · simp; omega
      · simp [h1]; omega
      · intro l hl
        rcases List.mem_append.1 hl with hl | hl
        · exact hp l hl
        · exact (hx l hl).mono g.le
      · intro l hl
        rcases List.mem_append.1 hl with hl | hl
        · exact ho l hl
        · exact (hy l hl).mono g.le
      · intro τ hτ
        obtain ⟨z1, z2⟩ := hv τ hτ
        exact ⟨bitsVal_zero_pad τ _ xs z1, bitsVal_zero_pad τ _ ys z2⟩
    · rw [if_neg h2]
      obtain ⟨g, hn, hp, ho, hv⟩ := padBlocks_spec b (xs.length - ys.length + 1)
      refine ⟨_, _, _, rfl, g, ?_, ?_, ?_, ?_, ?_⟩
      · simp; omega
      · simp [h1]; omega
      · intro l hl
        rcases List.mem_append.1 hl with hl | hl
        · exact ho l hl
        · exact (hx l hl).mono g.le
      · intro l hl
        rcases List.mem_append.1 hl with hl | hl
        · exact hp l hl
        · exact (hy l hl).mono g.le
      · intro τ hτ
        obtain ⟨z1, z2⟩ := hv τ hτ
        exact ⟨bitsVal_zero_pad τ _ xs z2, bitsVal_zero_pad τ _ ys z1⟩

/-! ### `_convert_to_negative_twos_complement` -/

theorem foldl_emit' {α : Type} (f : α → Item) (F : Builder → α → Builder)
    (hF : ∀ b x, F b x = b.emit (f x)) (l : List α) (b : Builder) :
    l.foldl F b = { nvars := b.nvars, items := (l.map f).reverse ++ b.items } := by
  have : F = fun b x => b.emit (f x) := by funext b x; exact hF b x
  rw [this, foldl_emit]

theorem freshN_reverse_succ (b : Builder) (m : Nat) :
    ((b.freshN (m + 1)).1).reverse = (b.nvars + 1 + m) :: ((b.freshN m).1).reverse := by
  simp [freshN, List.range_succ]

/-- The builder after the `flipped ⇔ ¬bit` gates. -/
def negB2 (b : Builder) (bits : List Int) : Builder :=
  { nvars := b.nvars + bits.length,
    items := (((b.freshN bits.length).1.zip bits).map (fun p => Item.notg p.1 p.2)).reverse ++ b.items }

/-- The defining items of the constant `0…01`. -/
def onesItems (n m : Nat) : List Item :=
  (List.range m).map (fun i => Item.const (n + 1 + i) false) ++ [Item.const (n + 1 + m) true]

/-- The builder after the constant `0…01` (width `m + 1`). -/
def negB5 (b2 : Builder) (m : Nat) : Builder :=
  { nvars := b2.nvars + (m + 1), items := (onesItems b2.nvars m).reverse ++ b2.items }

theorem negTwos_eq (b : Builder) (bits : List Int) (m : Nat) (hW : bits.length = m + 1) :
    b.negTwosComplement bits =
      .ok (((negB5 (negB2 b bits) m).rippleCarry (castL (b.freshN (m + 1)).1)
              (castL ((negB2 b bits).freshN (m + 1)).1)).1.2.reverse,
           ((negB5 (negB2 b bits) m).rippleCarry (castL (b.freshN (m + 1)).1)
              (castL ((negB2 b bits).freshN (m + 1)).1)).2) := by
  simp only [negTwosComplement]
  rw [foldl_emit' (fun (p : Nat × Int) => Item.notg p.1 p.2) _ (fun b p => rfl)]
  simp only [freshN_snd]
  rw [hW, freshN_reverse_succ]
  simp only [List.reverse_reverse, zeroOut_eq, emit]
  simp [negB5, negB2, onesItems, castL, hW, freshN, Function.comp_def]

theorem bval_not (l : List Bool) : bval (l.map not) + bval l + 1 = 2 ^ l.length := by
  induction l with
  | nil => rfl
  | cons a l ih =>
    simp only [List.map_cons, bval_cons, List.length_map, List.length_cons, Nat.pow_succ]
    cases a <;> simp <;> omega

theorem negB2_spec (b : Builder) (bits : List Int) (hb : ∀ x ∈ bits, LitOK b.nvars x) :
    GExt b (negB2 b bits) ∧
    ∀ τ, Holds τ (negB2 b bits) →
      bitsVal τ (castL (b.freshN bits.length).1) + bitsVal τ bits + 1 = 2 ^ bits.length := by
  have hlen : (List.map (fun (p : Nat × Int) => Item.notg p.1 p.2)
      ((b.freshN bits.length).1.zip bits)).length = bits.length := by simp
  constructor
  · apply fresh_defs b bits.length _ hlen
    intro i hi
    simp only [List.getElem_map, List.getElem_zip, freshN_fst_getElem, Item.out, Item.ins,
      List.mem_cons, List.not_mem_nil, or_false, forall_eq, true_and]
    exact (hb _ (List.getElem_mem _)).mono (by omega)
  · intro τ h
    have hm : (castL (b.freshN bits.length).1).map (litVal τ) = (bits.map (litVal τ)).map not := by
      apply castL_map_litVal τ b bits.length _ (by simp)
      intro i hi
      have := h (.notg (b.nvars + 1 + i) bits[i]) (by
        simp only [negB2, List.mem_append, List.mem_reverse, List.mem_map]
        refine Or.inl ⟨(b.nvars + 1 + i, bits[i]), ?_, rfl⟩
        rw [List.mem_iff_getElem]
        exact ⟨i, by simpa using hi, by simp⟩)
      simpa [Item.holds] using this
    rw [bitsVal_eq, bitsVal_eq, hm]
    simpa using bval_not (bits.map (litVal τ))

theorem onesItems_getElem (n m i : Nat) (hi : i < (onesItems n m).length) :
    (onesItems n m)[i] = .const (n + 1 + i) (decide (i = m)) := by
  have hlen : (onesItems n m).length = m + 1 := by simp [onesItems]
  by_cases him : i < m
  · have : decide (i = m) = false := by simp; omega
    simp [onesItems, List.getElem_append_left, him, this]
  · have : i = m := by omega
    subst this
    simp [onesItems]

theorem negB5_spec (b2 : Builder) (m : Nat) :
    GExt b2 (negB5 b2 m) ∧
    ∀ τ, Holds τ (negB5 b2 m) → bitsVal τ (castL (b2.freshN (m + 1)).1) = 1 := by
  have hlen : (onesItems b2.nvars m).length = m + 1 := by simp [onesItems]
  constructor
  · apply fresh_defs b2 (m + 1) _ hlen
    intro i hi
    rw [onesItems_getElem]
    simp [Item.out, Item.ins]
  · intro τ h
    have hsplit : castL (b2.freshN (m + 1)).1
        = castL (b2.freshN m).1 ++ [((b2.nvars + 1 + m : Nat) : Int)] := by
      simp [castL, freshN, List.range_succ]
    have hz : ∀ x ∈ castL (b2.freshN m).1, litVal τ x = false := by
      intro x hx
      simp only [castL, freshN, List.mem_map, List.mem_range] at hx
      obtain ⟨v, ⟨i, hi, rfl⟩, rfl⟩ := hx
      have := h (.const (b2.nvars + 1 + i) false) (by
        simp only [negB5, onesItems, List.mem_append, List.mem_reverse, List.mem_map,
          List.mem_range]
        exact Or.inl (Or.inl ⟨i, hi, rfl⟩))
      rw [litVal_nat _ _ (by omega)]
      simpa [Item.holds] using this
    have hlast : litVal τ ((b2.nvars + 1 + m : Nat) : Int) = true := by
      have := h (.const (b2.nvars + 1 + m) true) (by simp [negB5, onesItems])
      rw [litVal_nat _ _ (by omega)]
      simpa [Item.holds] using this
    rw [hsplit, bitsVal_append, bitsVal_eq_zero τ _ hz, bitsVal_cons, hlast]
    rfl

theorem negTwos_spec (b : Builder) (bits : List Int) (hb : ∀ x ∈ bits, LitOK b.nvars x)
    (hpos : 0 < bits.length) :
    ∃ neg b', b.negTwosComplement bits = .ok (neg, b') ∧ GExt b b' ∧
      neg.length = bits.length ∧ (∀ l ∈ neg, LitOK b'.nvars l) ∧
      ∀ τ, Holds τ b' → ∃ c : Bool,
        c.toNat * 2 ^ bits.length + bitsVal τ neg + bitsVal τ bits = 2 ^ bits.length := by
  obtain ⟨m, hW⟩ : ∃ m, bits.length = m + 1 := ⟨bits.length - 1, by omega⟩
  rw [negTwos_eq b bits m hW]
  obtain ⟨g2, hv2⟩ := negB2_spec b bits hb
  obtain ⟨g5, hv5⟩ := negB5_spec (negB2 b bits) m
  have hn2 : (negB2 b bits).nvars = b.nvars + (m + 1) := by simp [negB2, hW]
  have hn5 : (negB5 (negB2 b bits) m).nvars = b.nvars + (m + 1) + (m + 1) := by
    simp [negB5, hn2]
  obtain ⟨c, ss, b6, heq, g6, hl, hok, hv⟩ :=
    rippleCarry_full (negB5 (negB2 b bits) m) (castL (b.freshN (m + 1)).1)
      (castL ((negB2 b bits).freshN (m + 1)).1)
      (castL_freshN_ok b (m + 1) _ (by omega))
      (castL_freshN_ok (negB2 b bits) (m + 1) _ (by omega))
      (by simp) (by simp)
  rw [heq]
  refine ⟨ss.reverse, b6, rfl, (g2.trans g5).trans g6, by simp [hl, hW], ?_, ?_⟩
  · intro l hl'
    exact hok l (List.mem_cons_of_mem _ (List.mem_reverse.1 hl'))
  · intro τ hτ
    have e1 := hv τ hτ
    have e2 := hv5 τ (g6.holds hτ)
    have e3 := hv2 τ (g5.holds (g6.holds hτ))
    rw [hW] at e3 ⊢
    rw [bitsVal_cons, e2] at e1
    simp only [List.length_reverse, hl, castL_length, freshN_fst_length] at e1
    exact ⟨litVal τ c, by omega⟩

/-! ### `_inequality_assertion` -/

/-- The comparison circuit at the end of `_inequality_assertion`. -/
def cmpTail (b4 : Builder) (kbs nbs : List Int) : Except PyErr Builder :=
  match negTwosComplement b4 nbs with
  | .error e => .error e
  | .ok (neg, b5) =>
    match ((rippleCarry b5 kbs neg).1.2).reverse with
    | [] => .error .indexError
    | top :: _ => .ok ((rippleCarry b5 kbs neg).2.emit (.unit top))

/-- The builder after the `k` constants. -/
def kBlock (b1 : Builder) (vs : List Bool) : Builder :=
  ((b1.freshN vs.length).1.zip vs).foldl
      (fun b (p : Nat × Bool) => b.emit (.const p.1 p.2)) (b1.freshN vs.length).2

theorem inequality_eq (b : Builder) (lt : Bool) (k : Nat) (x0 : Int) (xs' : List Int)
    (h1 : ¬ (lt = true ∧ k > (x0 :: xs').length)) (h2 : ¬ (lt = false ∧ k ≥ (x0 :: xs').length))
    (sumBits : List Int) (b1 : Builder)
    (heq : b.popCount (x0 :: xs') ((intToBinary k).length + 1) = .ok (sumBits, b1)) :
    b.inequalityAssertion lt k (x0 :: xs') =
      cmpTail ((kBlock b1 (intToBinary k)).makeSameLength
          (castL (b1.freshN (intToBinary k).length).1) sumBits).2
        (if lt then ((kBlock b1 (intToBinary k)).makeSameLength
          (castL (b1.freshN (intToBinary k).length).1) sumBits).1.2
         else ((kBlock b1 (intToBinary k)).makeSameLength
          (castL (b1.freshN (intToBinary k).length).1) sumBits).1.1)
        (if lt then ((kBlock b1 (intToBinary k)).makeSameLength
          (castL (b1.freshN (intToBinary k).length).1) sumBits).1.1
         else ((kBlock b1 (intToBinary k)).makeSameLength
          (castL (b1.freshN (intToBinary k).length).1) sumBits).1.2) := by
  have g1 : (lt && decide (k > (x0 :: xs').length)) = false := by
    cases lt <;> simp at h1 ⊢ <;> omega
  have g2 : (!lt && decide (k ≥ (x0 :: xs').length)) = false := by
    cases lt <;> simp at h2 ⊢ <;> omega
  simp only [inequalityAssertion, g1, g2, heq]
  cases lt <;> rfl


/-- Top bit of `A + (2^W − B) mod 2^W` says `A < B`, when the difference fits. -/
theorem ineq_core (Q A B N R : Nat) (c1 c2 t : Bool)
    (_hN : N < 2 * Q) (hR : R < Q)
    (hneg : c1.toNat * (2 * Q) + N + B = 2 * Q)
    (hsum : c2.toNat * (2 * Q) + (t.toNat * Q + R) = A + N)
    (hsafe : (A < B → B - A ≤ Q) ∧ (B ≤ A → A - B < Q)) :
    t = true ↔ A < B := by
  cases c1 <;> cases c2 <;> cases t <;>
    simp only [Bool.toNat_true, Bool.toNat_false, Nat.zero_mul, Nat.one_mul, Nat.zero_add,
      Bool.false_eq_true, false_iff, true_iff] at hneg hsum ⊢ <;> omega

theorem cmpTail_spec (b4 : Builder) (kbs nbs : List Int)
    (hk : ∀ x ∈ kbs, LitOK b4.nvars x) (hn : ∀ x ∈ nbs, LitOK b4.nvars x)
    (hlen : kbs.length = nbs.length) (hpos : 0 < nbs.length) :
    ∃ top b6, cmpTail b4 kbs nbs = .ok (b6.emit (.unit top)) ∧ GExt b4 b6 ∧ LitOK b6.nvars top ∧
      ∀ τ, Holds τ b6 →
        ((bitsVal τ kbs < bitsVal τ nbs → bitsVal τ nbs - bitsVal τ kbs ≤ 2 ^ (nbs.length - 1)) ∧
         (bitsVal τ nbs ≤ bitsVal τ kbs → bitsVal τ kbs - bitsVal τ nbs < 2 ^ (nbs.length - 1))) →
        (litVal τ top = true ↔ bitsVal τ kbs < bitsVal τ nbs) := by
  obtain ⟨neg, b5, heq, g5, hnl, hnok, hnv⟩ := negTwos_spec b4 nbs hn hpos
  obtain ⟨c, ss, b6, heq2, g6, hsl, hsok, hsv⟩ :=
    rippleCarry_full b5 kbs neg (fun x hx => (hk x hx).mono g5.le) hnok (by omega) (by omega)
  have hrl : ss.reverse.length = nbs.length := by simp [hsl, hlen]
  match hrev : ss.reverse, hrl with
  | [], hrl => simp at hrl; omega
  | top :: rest, hrl =>
  refine ⟨top, b6, ?_, g5.trans g6, ?_, ?_⟩
  · simp only [cmpTail, heq, heq2, hrev]
  · apply hsok
    have : top ∈ ss.reverse := by rw [hrev]; simp
    exact List.mem_cons_of_mem _ (List.mem_reverse.1 this)
  · intro τ hτ hsafe
    obtain ⟨c1, hc1⟩ := hnv τ (g6.holds hτ)
    have e := hsv τ hτ
    rw [hrev, bitsVal_cons, bitsVal_cons] at e
    have hrest : rest.length = nbs.length - 1 := by simp at hrl; omega
    have hR := bitsVal_lt τ rest
    have hN := bitsVal_lt τ neg
    have hpow : 2 ^ nbs.length = 2 * 2 ^ (nbs.length - 1) := by
      have : nbs.length = (nbs.length - 1) + 1 := by omega
      rw [this, Nat.pow_succ]; simp; omega
    simp only [List.length_cons, hrest] at e hR
    have e' : nbs.length - 1 + 1 = nbs.length := by omega
    rw [e'] at e
    rw [hnl] at hN
    rw [hpow] at hc1 e hN
    exact ineq_core (2 ^ (nbs.length - 1)) (bitsVal τ kbs) (bitsVal τ nbs) (bitsVal τ neg)
      (bitsVal τ rest) c1 (litVal τ c) (litVal τ top) hN hR hc1 e hsafe

theorem ReqSpec.trivial (b : Builder) (P : Assign → Prop) (hP : ∀ τ, P τ) :
    ReqSpec b (.ok b) P :=
  ⟨b, rfl, Ext.refl b, fun τ _ => hP τ, fun σ hσ _ => ⟨σ, agree_refl _ _, hσ⟩⟩

/-- The widths and magnitudes make the two's-complement comparison exact. -/
theorem ineq_safe {L W p len k c S Wc : Nat} (lt : Bool)
    (hlenp : len ≤ 2 ^ p) (hW : W = min (p + 1) (L + 1))
    (hkL : k < 2 ^ L) (hkge : 0 < L → 2 ^ (L - 1) ≤ k)
    (hk1 : lt = true → k ≤ len) (hk2 : lt = false → k < len)
    (hL2 : lt = false → L ≤ p)
    (hc : c ≤ len) (hS : S < 2 ^ W) (hexact : W < L + 1 → S = c)
    (hWc : Wc = if L = W then L else max L W + 1) :
    if lt then (S < k → k - S ≤ 2 ^ (Wc - 1)) ∧ (k ≤ S → S - k < 2 ^ (Wc - 1))
    else (k < S → S - k ≤ 2 ^ (Wc - 1)) ∧ (S ≤ k → k - S < 2 ^ (Wc - 1)) := by
  by_cases hLW : L = W
  · -- equal widths: only for `lt`, with `k = len = 2^p`
    rw [if_pos hLW] at hWc
    cases lt with
    | false => have := hL2 rfl; omega
    | true =>
      have hLp : L = p + 1 := by omega
      have h1 := hkge (by omega)
      have h2 := hk1 rfl
      have hSc := hexact (by omega)
      have e : Wc - 1 = p := by omega
      have e' : L - 1 = p := by omega
      rw [e'] at h1
      have := Nat.two_pow_pos p
      simp only [if_true, e]
      omega
  · rw [if_neg hLW] at hWc
    have e : Wc - 1 = max L W := by omega
    have h1 : 2 ^ L ≤ 2 ^ (max L W) := Nat.pow_le_pow_right (by omega) (by omega)
    have h2 : 2 ^ W ≤ 2 ^ (max L W) := Nat.pow_le_pow_right (by omega) (by omega)
    rw [e]
    cases lt <;> simp only [if_true, if_false, Bool.false_eq_true] <;> omega

theorem inequality_spec (b : Builder) (hc : Closed b) (lt : Bool) (k : Nat) (xs : List Int)
    (hne : xs ≠ []) (hx : ∀ x ∈ xs, LitOK b.nvars x) :
    ReqSpec b (b.inequalityAssertion lt k xs)
      (fun τ => if lt then litCount τ xs < k else k < litCount τ xs) := by
  match xs, hne with
  | x0 :: xs', _ =>
  by_cases h1 : lt = true ∧ k > (x0 :: xs').length
  · have g1 : (lt && decide (k > (x0 :: xs').length)) = true := by
      have := h1.2
      simp only [List.length_cons] at this
      simp [h1.1]; omega
    simp only [inequalityAssertion, g1, if_true]
    apply ReqSpec.trivial
    intro τ
    rw [if_pos h1.1]
    exact litCount_lt_of_length h1.2
  by_cases h2 : lt = false ∧ k ≥ (x0 :: xs').length
  · have g1 : (lt && decide (k > (x0 :: xs').length)) = false := by simp [h2.1]
    have g2 : (!lt && decide (k ≥ (x0 :: xs').length)) = true := by
      have := h2.2
      simp only [List.length_cons] at this
      simp [h2.1]; omega
    simp only [inequalityAssertion, g1, g2, if_true, Bool.false_eq_true, if_false]
    apply contradiction_spec b hc x0 (hx x0 (by simp))
    intro τ
    rw [h2.1]
    have := litCount_le τ (x0 :: xs')
    simp only [Bool.false_eq_true, if_false]
    omega
  -- the main branch
  have hk1 : lt = true → k ≤ (x0 :: xs').length := fun h =>
    Nat.le_of_not_lt (fun h' => h1 ⟨h, h'⟩)
  have hk2 : lt = false → k < (x0 :: xs').length := fun h =>
    Nat.lt_of_not_le (fun h' => h2 ⟨h, h'⟩)
  obtain ⟨sumBits, b1, heq, g1, hok1, hlen1, hv1⟩ :=
    popCount_full b (x0 :: xs') ((intToBinary k).length + 1) hx (by simp)
  rw [inequality_eq b lt k x0 xs' h1 h2 sumBits b1 heq]
  have hp := le_two_pow_clog2 (x0 :: xs').length
  generalize clog2 (x0 :: xs').length = p at *
  obtain ⟨gk, hnk, hvk⟩ : GExt b1 (kBlock b1 (intToBinary k)) ∧
      (kBlock b1 (intToBinary k)).nvars = b1.nvars + (intToBinary k).length ∧
      ∀ τ, Holds τ (kBlock b1 (intToBinary k)) →
        (castL (b1.freshN (intToBinary k).length).1).map (litVal τ) = intToBinary k :=
    constBlock_spec b1 (intToBinary k)
  have hkL : k < 2 ^ (intToBinary k).length := intToBinary_lt k
  have hkge := intToBinary_ge k
  have hL2 : lt = false → (intToBinary k).length ≤ p := fun h =>
    intToBinary_len_le' (Nat.lt_of_lt_of_le (hk2 h) hp)
  generalize hLdef : (intToBinary k).length = L at *
  obtain ⟨kv', sb', b4, hms, g4, hle4, hw4, hokx, hoky, hv4⟩ :=
    makeSameLength_spec (kBlock b1 (intToBinary k)) (castL (b1.freshN L).1) sumBits
      (castL_freshN_ok b1 L _ (by omega)) (fun l hl => (hok1 l hl).mono gk.le)
  rw [hms]
  simp only
  have hsblen : sumBits.length = min (p + 1) (L + 1) := by rw [hlen1]; simp
  have hwc : kv'.length = if L = sumBits.length then L else max L sumBits.length + 1 := by
    rw [hw4]; simp
  have hpos : 0 < kv'.length := by rw [hwc]; split <;> omega
  -- the semantic facts shared by both directions
  have hvals : ∀ τ, Holds τ b4 →
      bitsVal τ kv' = k ∧ bitsVal τ sb' = bitsVal τ sumBits ∧
      Enc τ (L + 1) sumBits (litCount τ (x0 :: xs')) := by
    intro τ hτ
    obtain ⟨e1, e2⟩ := hv4 τ hτ
    refine ⟨?_, e2, hv1 τ (gk.holds (g4.holds hτ))⟩
    rw [e1, bitsVal_eq, hvk τ (g4.holds hτ), intToBinary_val]
  have hPc : ∀ σ τ, Agree b.nvars σ τ →
      ((if lt then litCount σ (x0 :: xs') < k else k < litCount σ (x0 :: xs')) ↔
       (if lt then litCount τ (x0 :: xs') < k else k < litCount τ (x0 :: xs'))) := by
    intro σ τ ha
    rw [litCount_congr hx ha]
  have hsafe : ∀ τ, Holds τ b4 →
      if lt then (bitsVal τ sumBits < k → k - bitsVal τ sumBits ≤ 2 ^ (kv'.length - 1)) ∧
          (k ≤ bitsVal τ sumBits → bitsVal τ sumBits - k < 2 ^ (kv'.length - 1))
      else (k < bitsVal τ sumBits → bitsVal τ sumBits - k ≤ 2 ^ (kv'.length - 1)) ∧
          (bitsVal τ sumBits ≤ k → k - bitsVal τ sumBits < 2 ^ (kv'.length - 1)) := by
    intro τ hτ
    obtain ⟨_, _, henc⟩ := hvals τ hτ
    apply ineq_safe lt hp hsblen hkL hkge hk1 hk2 hL2 (litCount_le τ (x0 :: xs'))
      (bitsVal_lt τ sumBits) ?_ hwc
    intro hlt
    unfold Enc at henc
    rw [henc, if_pos (Or.inr hlt)]
  cases lt with
  | true =>
    simp only [if_true]
    obtain ⟨top, b6, hct, g6, htop, hvt⟩ :=
      cmpTail_spec b4 sb' kv' hoky hokx hle4.symm hpos
    rw [hct]
    obtain ⟨r1, r2, r3⟩ := gates_then_units hc (((g1.trans gk).trans g4).trans g6) [top]
      (by intro l hl; simp at hl; subst hl; exact htop)
      (fun τ => litCount τ (x0 :: xs') < k)
      (by intro τ hτ
          obtain ⟨e1, e2, henc⟩ := hvals τ (g6.holds hτ)
          have hs := hsafe τ (g6.holds hτ)
          simp only [if_true] at hs
          have := hvt τ hτ (by rw [e1, e2]; exact hs)
          simp only [List.mem_cons, List.not_mem_nil, or_false, forall_eq]
          rw [this, e1, e2]
          exact (enc_cmp henc hkL).2.1)
      (by simpa using hPc)
    exact ⟨_, rfl, r1, r2, r3⟩
  | false =>
    simp only [Bool.false_eq_true, if_false]
    obtain ⟨top, b6, hct, g6, htop, hvt⟩ :=
      cmpTail_spec b4 kv' sb' hokx hoky hle4 (by omega)
    rw [hct]
    obtain ⟨r1, r2, r3⟩ := gates_then_units hc (((g1.trans gk).trans g4).trans g6) [top]
      (by intro l hl; simp at hl; subst hl; exact htop)
      (fun τ => k < litCount τ (x0 :: xs'))
      (by intro τ hτ
          obtain ⟨e1, e2, henc⟩ := hvals τ (g6.holds hτ)
          have hs := hsafe τ (g6.holds hτ)
          simp only [Bool.false_eq_true, if_false] at hs
          have := hvt τ hτ (by rw [e1, e2, ← hle4]; exact hs)
          simp only [List.mem_cons, List.not_mem_nil, or_false, forall_eq]
          rw [this, e1, e2]
          exact (enc_cmp henc hkL).2.2)
      (by simpa using hPc)
    exact ⟨_, rfl, r1, r2, r3⟩

end Builder
end SPModel
