/- Helper lemmas for the CNF-builder model (item semantics, chains, arithmetic). -/
import SPProofs.Card.Sem

namespace SPModel

end SPModel
