/- Helper lemmas for the CNF-builder model (item semantics, chains, arithmetic). -/
import SPProofs.Card.Sem

namespace SPModel
open Builder

/-! ### Literals -/

namespace Card

theorem litVal_neg (τ : Assign) (a : Int) (h : a ≠ 0) : litVal τ (-a) = !litVal τ a := by
  unfold litVal
  rcases Int.lt_trichotomy a 0 with h' | h' | h'
  · have h1 : 0 < -a := by omega
    have h2 : ¬ 0 < a := by omega
    simp [h2]
    omega
  · exact absurd h' h
  · simp [h']
    omega

theorem litVal_nat (τ : Assign) (o : Nat) (h : 0 < o) : litVal τ (o : Int) = τ o := by
  unfold litVal
  simp
  omega

theorem litVal_congr {n : Nat} {σ τ : Assign} {l : Int} (hl : LitOK n l) (h : Agree n σ τ) :
    litVal σ l = litVal τ l := by
  unfold litVal
  have : σ l.natAbs = τ l.natAbs := h _ (by have := hl.1; omega) hl.2
  rw [this]

theorem agree_refl (n : Nat) (σ : Assign) : Agree n σ σ := fun _ _ _ => rfl

theorem agree_symm {n : Nat} {σ τ : Assign} (h : Agree n σ τ) : Agree n τ σ :=
  fun v h1 h2 => (h v h1 h2).symm

theorem agree_trans {n : Nat} {σ τ ρ : Assign} (h : Agree n σ τ) (h' : Agree n τ ρ) : Agree n σ ρ :=
  fun v h1 h2 => (h v h1 h2).trans (h' v h1 h2)

theorem agree_mono {n m : Nat} {σ τ : Assign} (h : Agree m σ τ) (hnm : n ≤ m) : Agree n σ τ :=
  fun v h1 h2 => h v h1 (Nat.le_trans h2 hnm)

theorem litCount_congr {n : Nat} {σ τ : Assign} {xs : List Int} (hx : ∀ x ∈ xs, LitOK n x)
    (h : Agree n σ τ) : litCount σ xs = litCount τ xs := by
  unfold litCount
  congr 1
  apply List.filter_congr
  intro x hxm
  exact litVal_congr (hx x hxm) h

theorem clauseSat_congr {n : Nat} {σ τ : Assign} {c : Clause} (hx : ∀ x ∈ c, LitOK n x)
    (h : Agree n σ τ) : clauseSat σ c = clauseSat τ c := by
  unfold clauseSat
  induction c with
  | nil => rfl
  | cons a c ih =>
    simp only [List.any_cons]
    rw [litVal_congr (hx a (by simp)) h, ih (fun x hx' => hx x (by simp [hx']))]

theorem cnfSat_congr {n : Nat} {σ τ : Assign} {φ : Cnf} (hx : ∀ c ∈ φ, ∀ x ∈ c, LitOK n x)
    (h : Agree n σ τ) : cnfSat σ φ = cnfSat τ φ := by
  unfold cnfSat
  induction φ with
  | nil => rfl
  | cons a c ih =>
    simp only [List.all_cons]
    rw [clauseSat_congr (hx a (by simp)) h, ih (fun x hx' => hx x (by simp [hx']))]

theorem cnfSat_append (τ : Assign) (φ ψ : Cnf) :
    cnfSat τ (φ ++ ψ) = (cnfSat τ φ && cnfSat τ ψ) := by
  simp [cnfSat]

end Card
open Card

theorem LitOK.mono {n m : Nat} {l : Int} (h : LitOK n l) (hnm : n ≤ m) : LitOK m l :=
  ⟨h.1, Nat.le_trans h.2 hnm⟩

theorem LitOK.nat {n o : Nat} (h0 : 0 < o) (h : o ≤ n) : LitOK n (o : Int) :=
  ⟨by omega, by simpa using h⟩

/-! ### Items -/

/-- The value a gate item assigns to its output. -/
def Item.eval (τ : Assign) : Item → Bool
  | .and2 _ a b   => litVal τ a && litVal τ b
  | .xor2 _ a b   => litVal τ a != litVal τ b
  | .maj3 _ a b c => (litVal τ a && litVal τ b) || (litVal τ a && litVal τ c) || (litVal τ b && litVal τ c)
  | .xor3 _ a b c => (litVal τ a != litVal τ b) != litVal τ c
  | .or2 _ a b    => litVal τ a || litVal τ b
  | .or3 _ a b c  => litVal τ a || litVal τ b || litVal τ c
  | .notg _ a     => !(litVal τ a)
  | .const _ v    => v
  | .unit _       => false
  | .raw _        => false

theorem Item.holds_of_out {τ : Assign} {it : Item} {o : Nat} (h : it.out = some o) :
    it.holds τ = (τ o == it.eval τ) := by
  cases it <;> simp [Item.out] at h <;> subst h <;> rfl

theorem Item.eval_congr {n : Nat} {σ τ : Assign} {it : Item} (hi : ∀ l ∈ it.ins, LitOK n l)
    (h : Agree n σ τ) : it.eval σ = it.eval τ := by
  cases it <;> simp only [Item.ins, List.mem_cons, List.not_mem_nil, or_false, forall_eq_or_imp,
    forall_eq] at hi <;> simp only [Item.eval]
  all_goals first
    | rfl
    | (obtain ⟨h1, h2, h3⟩ := hi
       rw [litVal_congr h1 h, litVal_congr h2 h, litVal_congr h3 h])
    | (obtain ⟨h1, h2⟩ := hi
       rw [litVal_congr h1 h, litVal_congr h2 h])
    | rw [litVal_congr hi h]

/-- Clause level = item level, for one item. -/
theorem Item.sat_eq_holds (τ : Assign) (it : Item) (ho : ∀ o, it.out = some o → 0 < o)
    (hi : ∀ l ∈ it.ins, l ≠ 0) : cnfSat τ it.clauses = it.holds τ := by
  cases it with
  | and2 o a b =>
    have ho' := ho o rfl
    have ha : a ≠ 0 := hi a (by simp [Item.ins])
    have hb : b ≠ 0 := hi b (by simp [Item.ins])
    simp only [Item.clauses, cnfSat, clauseSat, List.all_cons, List.all_nil, List.any_cons,
      List.any_nil, litVal_neg _ _ ha, litVal_neg _ _ hb,
      litVal_neg _ (o : Int) (by omega), litVal_nat _ _ ho', Item.holds]
    cases τ o <;> cases litVal τ a <;> cases litVal τ b <;> rfl
  | xor2 o a b =>
    have ho' := ho o rfl
    have ha : a ≠ 0 := hi a (by simp [Item.ins])
    have hb : b ≠ 0 := hi b (by simp [Item.ins])
    simp only [Item.clauses, cnfSat, clauseSat, List.all_cons, List.all_nil, List.any_cons,
      List.any_nil, litVal_neg _ _ ha, litVal_neg _ _ hb,
      litVal_neg _ (o : Int) (by omega), litVal_nat _ _ ho', Item.holds]
    cases τ o <;> cases litVal τ a <;> cases litVal τ b <;> rfl
  | maj3 o a b c =>
    have ho' := ho o rfl
    have ha : a ≠ 0 := hi a (by simp [Item.ins])
    have hb : b ≠ 0 := hi b (by simp [Item.ins])
    have hc : c ≠ 0 := hi c (by simp [Item.ins])
    simp only [Item.clauses, cnfSat, clauseSat, List.all_cons, List.all_nil, List.any_cons,
      List.any_nil, litVal_neg _ _ ha, litVal_neg _ _ hb, litVal_neg _ _ hc,
      litVal_neg _ (o : Int) (by omega), litVal_nat _ _ ho', Item.holds]
    cases τ o <;> cases litVal τ a <;> cases litVal τ b <;> cases litVal τ c <;> rfl
  | xor3 o a b c =>
    have ho' := ho o rfl
    have ha : a ≠ 0 := hi a (by simp [Item.ins])
    have hb : b ≠ 0 := hi b (by simp [Item.ins])
    have hc : c ≠ 0 := hi c (by simp [Item.ins])
    simp only [Item.clauses, cnfSat, clauseSat, List.all_cons, List.all_nil, List.any_cons,
      List.any_nil, litVal_neg _ _ ha, litVal_neg _ _ hb, litVal_neg _ _ hc,
      litVal_neg _ (o : Int) (by omega), litVal_nat _ _ ho', Item.holds]
    cases τ o <;> cases litVal τ a <;> cases litVal τ b <;> cases litVal τ c <;> rfl
  | or2 o a b =>
    have ho' := ho o rfl
    have ha : a ≠ 0 := hi a (by simp [Item.ins])
    have hb : b ≠ 0 := hi b (by simp [Item.ins])
    simp only [Item.clauses, cnfSat, clauseSat, List.all_cons, List.all_nil, List.any_cons,
      List.any_nil, litVal_neg _ _ ha, litVal_neg _ _ hb,
      litVal_neg _ (o : Int) (by omega), litVal_nat _ _ ho', Item.holds]
    cases τ o <;> cases litVal τ a <;> cases litVal τ b <;> rfl
  | or3 o a b c =>
    have ho' := ho o rfl
    have ha : a ≠ 0 := hi a (by simp [Item.ins])
    have hb : b ≠ 0 := hi b (by simp [Item.ins])
    have hc : c ≠ 0 := hi c (by simp [Item.ins])
    simp only [Item.clauses, cnfSat, clauseSat, List.all_cons, List.all_nil, List.any_cons,
      List.any_nil, litVal_neg _ _ ha, litVal_neg _ _ hb, litVal_neg _ _ hc,
      litVal_neg _ (o : Int) (by omega), litVal_nat _ _ ho', Item.holds]
    cases τ o <;> cases litVal τ a <;> cases litVal τ b <;> cases litVal τ c <;> rfl
  | notg o a =>
    have ho' := ho o rfl
    have ha : a ≠ 0 := hi a (by simp [Item.ins])
    simp only [Item.clauses, cnfSat, clauseSat, List.all_cons, List.all_nil, List.any_cons,
      List.any_nil, litVal_neg _ _ ha,
      litVal_neg _ (o : Int) (by omega), litVal_nat _ _ ho', Item.holds]
    cases τ o <;> cases litVal τ a <;> rfl
  | const o v =>
    have ho' := ho o rfl
    cases v <;>
    simp only [Item.clauses, cnfSat, clauseSat, List.all_cons, List.all_nil, List.any_cons,
      List.any_nil, litVal_neg _ (o : Int) (by omega), litVal_nat _ _ ho', Item.holds,
      if_true, if_false, Bool.false_eq_true] <;>
    cases τ o <;> rfl
  | unit l =>
    simp [Item.clauses, cnfSat, clauseSat, Item.holds]
  | raw c =>
    simp [Item.clauses, cnfSat, clauseSat, Item.holds]

/-! ### Chains -/

theorem Chain.le : ∀ {l : List Item} {n m : Nat}, Chain n l m → n ≤ m
  | [], n, m, h => by simp [Chain] at h; omega
  | it :: rest, n, m, h => by
    simp only [Chain] at h
    obtain ⟨_, h2⟩ := h
    cases ho : it.out with
    | none => rw [ho] at h2; exact Chain.le h2
    | some o =>
      rw [ho] at h2
      have := Chain.le h2.2
      omega

theorem Chain.append : ∀ {l₁ l₂ : List Item} {n m k : Nat},
    Chain n l₁ m → Chain m l₂ k → Chain n (l₁ ++ l₂) k
  | [], l₂, n, m, k, h1, h2 => by
    simp [Chain] at h1; subst h1; simpa using h2
  | it :: rest, l₂, n, m, k, h1, h2 => by
    simp only [Chain, List.cons_append] at h1 ⊢
    refine ⟨h1.1, ?_⟩
    cases ho : it.out with
    | none =>
      have h3 := h1.2; rw [ho] at h3
      exact Chain.append h3 h2
    | some o =>
      have h3 := h1.2; rw [ho] at h3
      exact ⟨h3.1, Chain.append h3.2 h2⟩

theorem Chain.nil (n : Nat) : Chain n [] n := by simp [Chain]

theorem Chain.single_gate {n : Nat} {it : Item} (ho : it.out = some (n + 1))
    (hi : ∀ l ∈ it.ins, LitOK n l) : Chain n [it] (n + 1) := by
  simp only [Chain]
  refine ⟨hi, ?_⟩
  rw [ho]
  simp

theorem Chain.single_assert {n : Nat} {it : Item} (ho : it.out = none)
    (hi : ∀ l ∈ it.ins, LitOK n l) : Chain n [it] n := by
  simp only [Chain]
  refine ⟨hi, ?_⟩
  rw [ho]
  simp

/-- Clause level = item level along a chain. -/
theorem Chain.sat_iff (τ : Assign) : ∀ {l : List Item} {n m : Nat}, Chain n l m →
    (cnfSat τ (l.map Item.clauses).flatten = true ↔ ∀ it ∈ l, it.holds τ = true)
  | [], n, m, _ => by simp [cnfSat]
  | it :: rest, n, m, h => by
    simp only [Chain] at h
    obtain ⟨h1, h2⟩ := h
    have hit : cnfSat τ it.clauses = it.holds τ := by
      apply Item.sat_eq_holds
      · intro o ho
        rw [ho] at h2
        omega
      · intro l hl
        exact (h1 l hl).1
    have hrest : cnfSat τ (rest.map Item.clauses).flatten = true ↔ ∀ it ∈ rest, it.holds τ = true := by
      cases ho : it.out with
      | none => rw [ho] at h2; exact Chain.sat_iff τ h2
      | some o => rw [ho] at h2; exact Chain.sat_iff τ h2.2
    simp only [List.map_cons, List.flatten_cons, cnfSat_append, Bool.and_eq_true, hit, hrest,
      List.mem_cons, forall_eq_or_imp]

/-- Along a chain, every assignment of the old variables has exactly one
    extension that makes the gate items hold. -/
theorem Chain.exists_unique : ∀ {l : List Item} {n m : Nat}, Chain n l m → ∀ σ : Assign,
    ∃ τ : Assign, Agree n σ τ ∧
      (∀ it ∈ l, it.out ≠ none → it.holds τ = true) ∧
      ∀ τ' : Assign, Agree n σ τ' →
        (∀ it ∈ l, it.out ≠ none → it.holds τ' = true) → Agree m τ τ'
  | [], n, m, h, σ => by
    simp [Chain] at h; subst h
    exact ⟨σ, agree_refl _ _, by simp, fun τ' h' _ => h'⟩
  | it :: rest, n, m, h, σ => by
    simp only [Chain] at h
    obtain ⟨h1, h2⟩ := h
    cases ho : it.out with
    | none =>
      rw [ho] at h2
      obtain ⟨τ, ha, hh, hu⟩ := Chain.exists_unique h2 σ
      refine ⟨τ, ha, ?_, ?_⟩
      · intro it' hm hne
        rcases List.mem_cons.1 hm with rfl | hm
        · exact absurd ho hne
        · exact hh it' hm hne
      · intro τ' ha' hh'
        exact hu τ' ha' (fun it' hm hne => hh' it' (List.mem_cons_of_mem _ hm) hne)
    | some o =>
      rw [ho] at h2
      obtain ⟨rfl, h2⟩ := h2
      let σ' : Assign := fun v => if v = n + 1 then it.eval σ else σ v
      have hσ : Agree n σ σ' := by
        intro v _ hv
        have : v ≠ n + 1 := by omega
        simp [σ', this]
      obtain ⟨τ, ha, hh, hu⟩ := Chain.exists_unique h2 σ'
      have haσ : Agree n σ τ := agree_trans hσ (agree_mono ha (Nat.le_succ n))
      refine ⟨τ, haσ, ?_, ?_⟩
      · intro it' hm hne
        rcases List.mem_cons.1 hm with rfl | hm
        · rw [Item.holds_of_out ho, ← ha (n + 1) (by omega) (Nat.le_refl _),
            ← Item.eval_congr h1 haσ]
          simp [σ']
        · exact hh it' hm hne
      · intro τ' ha' hh'
        apply hu τ'
        · intro v hv1 hv2
          by_cases hv : v = n + 1
          · subst hv
            have := hh' it (by simp) (by simp [ho])
            rw [Item.holds_of_out ho, ← Item.eval_congr h1 ha'] at this
            simp only [σ', if_true]
            exact (eq_of_beq this).symm
          · simp only [σ', hv, if_false]
            exact ha' v hv1 (by omega)
        · exact fun it' hm hne => hh' it' (List.mem_cons_of_mem _ hm) hne

namespace Builder

/-! ### Builder relations -/

/-- `b'` extends `b` by gate items only. -/
def GExt (b b' : Builder) : Prop :=
  ∃ new : List Item, b'.items = new ++ b.items ∧ Chain b.nvars new.reverse b'.nvars ∧
    ∀ it ∈ new, it.out ≠ none

theorem GExt.ext {b b' : Builder} (h : GExt b b') : Ext b b' := by
  obtain ⟨new, h1, h2, _⟩ := h
  exact ⟨new, h1, h2⟩

theorem Ext.refl (b : Builder) : Ext b b := ⟨[], by simp, Chain.nil _⟩

theorem GExt.refl (b : Builder) : GExt b b := ⟨[], by simp, Chain.nil _, by simp⟩

theorem Ext.trans {b₁ b₂ b₃ : Builder} (h : Ext b₁ b₂) (h' : Ext b₂ b₃) : Ext b₁ b₃ := by
  obtain ⟨n1, e1, c1⟩ := h
  obtain ⟨n2, e2, c2⟩ := h'
  refine ⟨n2 ++ n1, by rw [e2, e1, List.append_assoc], ?_⟩
  rw [List.reverse_append]
  exact c1.append c2

theorem GExt.trans {b₁ b₂ b₃ : Builder} (h : GExt b₁ b₂) (h' : GExt b₂ b₃) : GExt b₁ b₃ := by
  obtain ⟨n1, e1, c1, g1⟩ := h
  obtain ⟨n2, e2, c2, g2⟩ := h'
  refine ⟨n2 ++ n1, by rw [e2, e1, List.append_assoc], ?_, ?_⟩
  · rw [List.reverse_append]
    exact c1.append c2
  · intro it hm
    rcases List.mem_append.1 hm with hm | hm
    · exact g2 it hm
    · exact g1 it hm

theorem Ext.le {b b' : Builder} (h : Ext b b') : b.nvars ≤ b'.nvars := by
  obtain ⟨_, _, c⟩ := h
  exact c.le

theorem GExt.le {b b' : Builder} (h : GExt b b') : b.nvars ≤ b'.nvars := h.ext.le

theorem Ext.holds {b b' : Builder} (h : Ext b b') {τ : Assign} (hτ : Holds τ b') : Holds τ b := by
  obtain ⟨new, e, _⟩ := h
  intro it hm
  exact hτ it (by rw [e]; exact List.mem_append_right _ hm)

theorem GExt.holds {b b' : Builder} (h : GExt b b') {τ : Assign} (hτ : Holds τ b') : Holds τ b :=
  h.ext.holds hτ

/-- One gate item defining the next fresh variable. -/
theorem GExt.gate (b : Builder) (it : Item) (ho : it.out = some (b.nvars + 1))
    (hi : ∀ l ∈ it.ins, LitOK b.nvars l) :
    GExt b { nvars := b.nvars + 1, items := it :: b.items } :=
  ⟨[it], rfl, Chain.single_gate ho hi, by simp [ho]⟩

/-- One assertion item. -/
theorem Ext.assert (b : Builder) (it : Item) (ho : it.out = none)
    (hi : ∀ l ∈ it.ins, LitOK b.nvars l) : Ext b (b.emit it) :=
  ⟨[it], rfl, Chain.single_assert ho hi⟩

theorem Holds.cons {τ : Assign} {n : Nat} {it : Item} {its : List Item}
    (h : Holds τ { nvars := n, items := it :: its }) :
    it.holds τ = true ∧ ∀ m, Holds τ { nvars := m, items := its } :=
  ⟨h it (by simp), fun _ it' hm => h it' (by simp [hm])⟩

theorem newItems_eq {b b' : Builder} {new : List Item} (h : b'.items = new ++ b.items) :
    newItems b b' = new := by
  simp [newItems, h]

/-- Over a fresh builder, a gate-only extension has a satisfying extension of
    any assignment of the old variables. -/
theorem GExt.exists_holds {n : Nat} {b : Builder} (h : GExt (fromFresh n) b) (σ : Assign) :
    ∃ τ, Agree n σ τ ∧ Holds τ b := by
  obtain ⟨new, e, c, g⟩ := h
  obtain ⟨τ, ha, hh, _⟩ := c.exists_unique σ
  refine ⟨τ, ha, ?_⟩
  intro it hm
  rw [e] at hm
  simp only [fromFresh, List.append_nil] at hm
  exact hh it (List.mem_reverse.2 hm) (g it hm)

/-- Over a fresh builder, any two assignments making all items hold and
    agreeing on the old variables agree on all variables. -/
theorem Ext.unique {n : Nat} {b : Builder} (h : Ext (fromFresh n) b) {τ₁ τ₂ : Assign}
    (h₁ : Holds τ₁ b) (h₂ : Holds τ₂ b) (ha : Agree n τ₁ τ₂) : Agree b.nvars τ₁ τ₂ := by
  obtain ⟨new, e, c⟩ := h
  obtain ⟨τ, ha', _, hu⟩ := c.exists_unique τ₁
  simp only [fromFresh, List.append_nil] at e
  have hm : ∀ {ρ : Assign}, Holds ρ b → ∀ it ∈ new.reverse, it.out ≠ none → it.holds ρ = true :=
    fun hρ it hm _ => hρ it (by rw [e]; exact List.mem_reverse.1 hm)
  have a1 := hu τ₁ (agree_refl _ _) (hm h₁)
  have a2 := hu τ₂ ha (hm h₂)
  exact agree_trans (agree_symm a1) a2

theorem vals_sat_iff {n : Nat} {b : Builder} (h : Ext (fromFresh n) b) (τ : Assign) :
    cnfSat τ b.vals = true ↔ b.Holds τ := by
  obtain ⟨new, e, c⟩ := h
  simp only [fromFresh, List.append_nil] at e c
  unfold vals Holds
  rw [e, c.sat_iff τ]
  simp

end Builder

end SPModel
