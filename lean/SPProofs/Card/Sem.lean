/-
  Semantics of the CNF-builder model (`SPModel.Card`): what an item means, when
  a run of items is a chain of definitions of consecutive fresh variables
  (`Chain`), and the builder-level relations used by the property theorems.
  Definitions only; lemmas live in the sibling files.
-/
import SPModel.Card

namespace SPModel

/-- The variable a gate item defines (`none` for assertion items). -/
def Item.out : Item → Option Nat
  | .and2 o _ _ | .xor2 o _ _ | .maj3 o _ _ _ | .xor3 o _ _ _
  | .or2 o _ _ | .or3 o _ _ _ | .notg o _ | .const o _ => some o
  | .unit _ | .raw _ => none

/-- The literals an item reads. -/
def Item.ins : Item → List Int
  | .and2 _ a b | .xor2 _ a b | .or2 _ a b => [a, b]
  | .maj3 _ a b c | .xor3 _ a b c | .or3 _ a b c => [a, b, c]
  | .notg _ a => [a]
  | .const _ _ => []
  | .unit l => [l]
  | .raw c => c

/-- Meaning of an item under an assignment. -/
def Item.holds (τ : Assign) : Item → Bool
  | .and2 o a b   => τ o == (litVal τ a && litVal τ b)
  | .xor2 o a b   => τ o == (litVal τ a != litVal τ b)
  | .maj3 o a b c => τ o == ((litVal τ a && litVal τ b) || (litVal τ a && litVal τ c) || (litVal τ b && litVal τ c))
  | .xor3 o a b c => τ o == ((litVal τ a != litVal τ b) != litVal τ c)
  | .or2 o a b    => τ o == (litVal τ a || litVal τ b)
  | .or3 o a b c  => τ o == (litVal τ a || litVal τ b || litVal τ c)
  | .notg o a     => τ o == !(litVal τ a)
  | .const o v    => τ o == v
  | .unit l       => litVal τ l
  | .raw c        => clauseSat τ c

/-- A literal the builder may read when `n` variables exist. -/
def LitOK (n : Nat) (l : Int) : Prop := l ≠ 0 ∧ l.natAbs ≤ n

/-- `Chain n items m` (items oldest first): the gate items define exactly the
    variables `n+1, …, m`, in this order, each from literals over strictly
    smaller variables; assertion items read existing variables only. -/
def Chain : Nat → List Item → Nat → Prop
  | n, [], m => n = m
  | n, it :: rest, m =>
    (∀ l ∈ it.ins, LitOK n l) ∧
    match it.out with
    | some o => o = n + 1 ∧ Chain (n + 1) rest m
    | none => Chain n rest m

namespace Builder

/-- Every item of the builder holds under `τ`. -/
def Holds (τ : Assign) (b : Builder) : Prop := ∀ it ∈ b.items, it.holds τ = true

/-- `b'` extends `b` by a chain of definitions (plus assertions). -/
def Ext (b b' : Builder) : Prop :=
  ∃ new : List Item, b'.items = new ++ b.items ∧ Chain b.nvars new.reverse b'.nvars

/-- The items added between `b` and `b'` (newest first), when `b'` extends `b`. -/
def newItems (b b' : Builder) : List Item := b'.items.take (b'.items.length - b.items.length)

end Builder

/-- Value of a most-significant-first list of literals. -/
def bitsVal (τ : Assign) (bits : List Int) : Nat :=
  bits.foldl (fun acc l => 2 * acc + (litVal τ l).toNat) 0

/-- Number of literals of `xs` true under `τ` (positions, not distinct variables). -/
def litCount (τ : Assign) (xs : List Int) : Nat := (xs.filter (litVal τ)).length

/-- What a population count with `saturate_at = s` and a full-width (`s` bit)
    output stores for a count `c`: the top bit says `c ≥ 2^(s-1)`, the low
    `s-1` bits are `c mod 2^(s-1)`. -/
def satRepr (s c : Nat) : Nat :=
  c % 2 ^ (s - 1) + (if 2 ^ (s - 1) ≤ c then 2 ^ (s - 1) else 0)

end SPModel
