/- Binary values of bit lists (most / least significant first). -/
import SPProofs.Card.Lemmas

namespace SPModel
open Builder Card

/-- Value of a most-significant-first list of bits. -/
def bval (bs : List Bool) : Nat := bs.foldl (fun acc b => 2 * acc + b.toNat) 0

/-- Value of a least-significant-first list of bits. -/
def lsbVal : List Bool → Nat
  | [] => 0
  | b :: r => b.toNat + 2 * lsbVal r

theorem bval_foldl (bs : List Bool) (a : Nat) :
    bs.foldl (fun acc b => 2 * acc + b.toNat) a = a * 2 ^ bs.length + bval bs := by
  induction bs generalizing a with
  | nil => simp [bval]
  | cons b bs ih =>
    simp only [List.foldl_cons, List.length_cons, bval]
    rw [ih (2 * a + b.toNat), ih (2 * 0 + b.toNat)]
    grind

@[simp] theorem bval_nil : bval [] = 0 := rfl

theorem bval_cons (b : Bool) (bs : List Bool) :
    bval (b :: bs) = b.toNat * 2 ^ bs.length + bval bs := by
  have := bval_foldl bs (2 * 0 + b.toNat)
  simp only [bval, List.foldl_cons] at this ⊢
  rw [this]
  simp

theorem bval_append (l₁ l₂ : List Bool) :
    bval (l₁ ++ l₂) = bval l₁ * 2 ^ l₂.length + bval l₂ := by
  unfold bval
  rw [List.foldl_append, bval_foldl]
  rfl

theorem bval_snoc (bs : List Bool) (b : Bool) : bval (bs ++ [b]) = 2 * bval bs + b.toNat := by
  rw [bval_append, bval_cons]
  simp
  omega

theorem bval_lt (bs : List Bool) : bval bs < 2 ^ bs.length := by
  induction bs with
  | nil => simp
  | cons b bs ih =>
    rw [bval_cons, List.length_cons, Nat.pow_succ]
    cases b <;> simp <;> omega

theorem bval_reverse (bs : List Bool) : bval bs.reverse = lsbVal bs := by
  induction bs with
  | nil => rfl
  | cons b bs ih =>
    rw [List.reverse_cons, bval_snoc, ih, lsbVal]
    omega

theorem lsbVal_reverse (bs : List Bool) : lsbVal bs.reverse = bval bs := by
  rw [← bval_reverse, List.reverse_reverse]

theorem bval_replicate_false (n : Nat) : bval (List.replicate n false) = 0 := by
  induction n with
  | zero => rfl
  | succ n ih => rw [List.replicate_succ, bval_cons, ih]; simp

theorem bval_inj : ∀ {l₁ l₂ : List Bool}, l₁.length = l₂.length → bval l₁ = bval l₂ → l₁ = l₂
  | [], [], _, _ => rfl
  | [], _ :: _, h, _ => by simp at h
  | _ :: _, [], h, _ => by simp at h
  | a :: l₁, b :: l₂, h, hv => by
    simp only [List.length_cons, Nat.add_right_cancel_iff] at h
    rw [bval_cons, bval_cons, h] at hv
    have h1 := bval_lt l₁
    have h2 := bval_lt l₂
    rw [h] at h1
    have : a = b ∧ bval l₁ = bval l₂ := by
      cases a <;> cases b <;> simp at hv ⊢ <;> omega
    rw [this.1, bval_inj h this.2]

/-! ### Literal lists -/

theorem bitsVal_eq (τ : Assign) (l : List Int) : bitsVal τ l = bval (l.map (litVal τ)) := by
  unfold bitsVal bval
  rw [List.foldl_map]

/-- Value of a least-significant-first list of literals. -/
def lsbV (τ : Assign) (l : List Int) : Nat := lsbVal (l.map (litVal τ))

@[simp] theorem lsbV_nil (τ : Assign) : lsbV τ [] = 0 := rfl

theorem lsbV_cons (τ : Assign) (x : Int) (l : List Int) :
    lsbV τ (x :: l) = (litVal τ x).toNat + 2 * lsbV τ l := rfl

@[simp] theorem bitsVal_nil (τ : Assign) : bitsVal τ [] = 0 := rfl

theorem bitsVal_cons (τ : Assign) (x : Int) (l : List Int) :
    bitsVal τ (x :: l) = (litVal τ x).toNat * 2 ^ l.length + bitsVal τ l := by
  simp only [bitsVal_eq, List.map_cons, bval_cons, List.length_map]

theorem bitsVal_append (τ : Assign) (l₁ l₂ : List Int) :
    bitsVal τ (l₁ ++ l₂) = bitsVal τ l₁ * 2 ^ l₂.length + bitsVal τ l₂ := by
  simp only [bitsVal_eq, List.map_append, bval_append, List.length_map]

theorem bitsVal_lt (τ : Assign) (l : List Int) : bitsVal τ l < 2 ^ l.length := by
  have := bval_lt (l.map (litVal τ))
  simpa [bitsVal_eq] using this

theorem bitsVal_reverse (τ : Assign) (l : List Int) : bitsVal τ l.reverse = lsbV τ l := by
  simp only [bitsVal_eq, lsbV, List.map_reverse, bval_reverse]

theorem lsbV_reverse (τ : Assign) (l : List Int) : lsbV τ l.reverse = bitsVal τ l := by
  rw [← bitsVal_reverse, List.reverse_reverse]

theorem lsbV_append (τ : Assign) (l₁ l₂ : List Int) :
    lsbV τ (l₁ ++ l₂) = lsbV τ l₁ + 2 ^ l₁.length * lsbV τ l₂ := by
  induction l₁ with
  | nil => simp
  | cons x l ih =>
    simp only [List.cons_append, lsbV_cons, ih, List.length_cons]
    grind

theorem lsbV_lt (τ : Assign) (l : List Int) : lsbV τ l < 2 ^ l.length := by
  have := bitsVal_lt τ l.reverse
  rwa [bitsVal_reverse, List.length_reverse] at this

/-- All-false literal lists have value zero. -/
theorem bitsVal_eq_zero (τ : Assign) (l : List Int) (h : ∀ x ∈ l, litVal τ x = false) :
    bitsVal τ l = 0 := by
  induction l with
  | nil => rfl
  | cons x l ih =>
    rw [bitsVal_cons, h x (by simp), ih (fun y hy => h y (by simp [hy]))]
    simp

theorem bitsVal_congr {n : Nat} {σ τ : Assign} {l : List Int} (hl : ∀ x ∈ l, LitOK n x)
    (h : Agree n σ τ) : bitsVal σ l = bitsVal τ l := by
  rw [bitsVal_eq, bitsVal_eq]
  congr 1
  apply List.map_congr_left
  intro x hx
  exact litVal_congr (hl x hx) h

end SPModel
