/- Specifications of the adder gadgets and the two ripple loops. -/
import SPProofs.Card.Bits

namespace SPModel
open Builder Card
namespace Builder

/-- Numeric value of an optional carry literal. -/
def optVal (τ : Assign) : Option Int → Nat
  | none => 0
  | some c => (litVal τ c).toNat

/-- Boolean value of an optional carry literal. -/
def optLit (τ : Assign) : Option Int → Bool
  | none => false
  | some c => litVal τ c

theorem halfAdder_full (b : Builder) (x y : Int) (hx : LitOK b.nvars x) (hy : LitOK b.nvars y) :
    GExt b (b.halfAdder x y).2 ∧ (b.halfAdder x y).2.nvars = b.nvars + 2 ∧
    (b.halfAdder x y).1.1 = ((b.nvars + 1 : Nat) : Int) ∧
    (b.halfAdder x y).1.2 = ((b.nvars + 2 : Nat) : Int) ∧
    ∀ τ, (b.halfAdder x y).2.Holds τ →
      2 * (litVal τ (b.halfAdder x y).1.1).toNat + (litVal τ (b.halfAdder x y).1.2).toNat
        = (litVal τ x).toNat + (litVal τ y).toNat := by
  refine ⟨?_, rfl, rfl, rfl, ?_⟩
  · have g1 := GExt.gate b (.and2 (b.nvars + 1) x y) rfl
      (by intro l hl; simp [Item.ins] at hl; rcases hl with rfl | rfl <;> assumption)
    have g2 := GExt.gate { nvars := b.nvars + 1, items := .and2 (b.nvars + 1) x y :: b.items }
      (.xor2 (b.nvars + 2) x y) rfl
      (by intro l hl; simp [Item.ins] at hl
          rcases hl with rfl | rfl
          · exact hx.mono (Nat.le_succ _)
          · exact hy.mono (Nat.le_succ _))
    exact g1.trans g2
  · intro τ h
    simp only [halfAdder] at h ⊢
    obtain ⟨h1, h⟩ := Holds.cons h
    obtain ⟨h2, _⟩ := Holds.cons (h 0)
    simp only [Item.holds] at h1 h2
    rw [litVal_nat _ _ (by omega), litVal_nat _ _ (by omega), eq_of_beq h1, eq_of_beq h2]
    cases litVal τ x <;> cases litVal τ y <;> rfl

theorem fullAdder_full (b : Builder) (x y c : Int)
    (hx : LitOK b.nvars x) (hy : LitOK b.nvars y) (hc : LitOK b.nvars c) :
    GExt b (b.fullAdder x y (some c)).2 ∧ (b.fullAdder x y (some c)).2.nvars = b.nvars + 2 ∧
    (b.fullAdder x y (some c)).1.1 = ((b.nvars + 1 : Nat) : Int) ∧
    (b.fullAdder x y (some c)).1.2 = ((b.nvars + 2 : Nat) : Int) ∧
    ∀ τ, (b.fullAdder x y (some c)).2.Holds τ →
      2 * (litVal τ (b.fullAdder x y (some c)).1.1).toNat + (litVal τ (b.fullAdder x y (some c)).1.2).toNat
        = (litVal τ x).toNat + (litVal τ y).toNat + (litVal τ c).toNat := by
  refine ⟨?_, rfl, rfl, rfl, ?_⟩
  · have g1 := GExt.gate b (.maj3 (b.nvars + 1) x y c) rfl
      (by intro l hl; simp [Item.ins] at hl; rcases hl with rfl | rfl | rfl <;> assumption)
    have g2 := GExt.gate { nvars := b.nvars + 1, items := .maj3 (b.nvars + 1) x y c :: b.items }
      (.xor3 (b.nvars + 2) x y c) rfl
      (by intro l hl; simp [Item.ins] at hl
          rcases hl with rfl | rfl | rfl
          · exact hx.mono (Nat.le_succ _)
          · exact hy.mono (Nat.le_succ _)
          · exact hc.mono (Nat.le_succ _))
    exact g1.trans g2
  · intro τ h
    simp only [fullAdder] at h ⊢
    obtain ⟨h1, h⟩ := Holds.cons h
    obtain ⟨h2, _⟩ := Holds.cons (h 0)
    simp only [Item.holds] at h1 h2
    rw [litVal_nat _ _ (by omega), litVal_nat _ _ (by omega), eq_of_beq h1, eq_of_beq h2]
    cases litVal τ x <;> cases litVal τ y <;> cases litVal τ c <;> rfl

/-- Full adder with an optional carry in. -/
theorem fullAdder_opt (b : Builder) (x y : Int) (cin : Option Int)
    (hx : LitOK b.nvars x) (hy : LitOK b.nvars y) (hc : ∀ c, cin = some c → LitOK b.nvars c) :
    GExt b (b.fullAdder x y cin).2 ∧ (b.fullAdder x y cin).2.nvars = b.nvars + 2 ∧
    (b.fullAdder x y cin).1.1 = ((b.nvars + 1 : Nat) : Int) ∧
    (b.fullAdder x y cin).1.2 = ((b.nvars + 2 : Nat) : Int) ∧
    ∀ τ, (b.fullAdder x y cin).2.Holds τ →
      2 * (litVal τ (b.fullAdder x y cin).1.1).toNat + (litVal τ (b.fullAdder x y cin).1.2).toNat
        = (litVal τ x).toNat + (litVal τ y).toNat + optVal τ cin := by
  cases cin with
  | none => simpa [fullAdder, optVal] using halfAdder_full b x y hx hy
  | some c => simpa [optVal] using fullAdder_full b x y c hx hy (hc c rfl)

theorem saturateAdder_full (b : Builder) (x y : Int) (cin : Option Int)
    (hx : LitOK b.nvars x) (hy : LitOK b.nvars y) (hc : ∀ c, cin = some c → LitOK b.nvars c) :
    GExt b (b.saturateAdder x y cin).2 ∧ (b.saturateAdder x y cin).2.nvars = b.nvars + 1 ∧
    (b.saturateAdder x y cin).1 = ((b.nvars + 1 : Nat) : Int) ∧
    ∀ τ, (b.saturateAdder x y cin).2.Holds τ →
      litVal τ (b.saturateAdder x y cin).1
        = (litVal τ x || litVal τ y || optLit τ cin) := by
  cases cin with
  | none =>
    refine ⟨?_, rfl, rfl, ?_⟩
    · exact GExt.gate b (.or2 (b.nvars + 1) x y) rfl
        (by intro l hl; simp [Item.ins] at hl; rcases hl with rfl | rfl <;> assumption)
    · intro τ h
      simp only [saturateAdder] at h ⊢
      obtain ⟨h1, _⟩ := Holds.cons h
      simp only [Item.holds] at h1
      rw [litVal_nat _ _ (by omega), eq_of_beq h1]
      simp [optLit]
  | some c =>
    have hc := hc c rfl
    refine ⟨?_, rfl, rfl, ?_⟩
    · exact GExt.gate b (.or3 (b.nvars + 1) x y c) rfl
        (by intro l hl; simp [Item.ins] at hl; rcases hl with rfl | rfl | rfl <;> assumption)
    · intro τ h
      simp only [saturateAdder] at h ⊢
      obtain ⟨h1, _⟩ := Holds.cons h
      simp only [Item.holds] at h1
      rw [litVal_nat _ _ (by omega), eq_of_beq h1]
      simp [optLit]

/-! ### `ripple_carry` -/

theorem rippleLoop_spec : ∀ (pairs : List (Int × Int)) (b : Builder) (cin : Option Int),
    (∀ p ∈ pairs, LitOK b.nvars p.1 ∧ LitOK b.nvars p.2) →
    (∀ c, cin = some c → LitOK b.nvars c) →
    ∃ cout ss b', b.rippleLoop cin pairs = ((cout, ss), b') ∧ GExt b b' ∧
      ss.length = pairs.length ∧ (∀ l ∈ ss, LitOK b'.nvars l) ∧
      (∀ c, cout = some c → LitOK b'.nvars c) ∧
      (cin.isSome ∨ pairs ≠ [] → cout.isSome) ∧
      ∀ τ, b'.Holds τ →
        lsbV τ ss + 2 ^ pairs.length * optVal τ cout
          = lsbV τ (pairs.map Prod.fst) + lsbV τ (pairs.map Prod.snd) + optVal τ cin
  | [], b, cin, _, hc => by
    refine ⟨cin, [], b, rfl, GExt.refl b, rfl, by simp, hc, by simp, ?_⟩
    intro τ _
    simp
  | (x, y) :: rest, b, cin, hp, hc => by
    have hxy := hp (x, y) (by simp)
    obtain ⟨g1, hn, hc1, hs1, hv1⟩ := fullAdder_opt b x y cin hxy.1 hxy.2 hc
    rcases hfa : b.fullAdder x y cin with ⟨⟨c, s⟩, b1⟩
    rw [hfa] at g1 hn hc1 hs1 hv1
    simp only at g1 hn hc1 hs1 hv1
    have hle : b.nvars ≤ b1.nvars := g1.le
    have hcok : LitOK b1.nvars c := by rw [hc1, hn]; exact LitOK.nat (by omega) (by omega)
    have hsok : LitOK b1.nvars s := by rw [hs1, hn]; exact LitOK.nat (by omega) (by omega)
    obtain ⟨cout, ss, b2, heq, g2, hlen, hss, hco, hsome, hv2⟩ :=
      rippleLoop_spec rest b1 (some c)
        (fun p hm => ⟨(hp p (by simp [hm])).1.mono hle, (hp p (by simp [hm])).2.mono hle⟩)
        (fun c' h' => by cases h'; exact hcok)
    refine ⟨cout, s :: ss, b2, ?_, g1.trans g2, by simp [hlen], ?_, hco, ?_, ?_⟩
    · simp only [rippleLoop, hfa, heq]
    · intro l hl
      rcases List.mem_cons.1 hl with rfl | hl
      · exact hsok.mono g2.le
      · exact hss l hl
    · intro _
      exact hsome (by simp)
    · intro τ hτ
      have e1 := hv1 τ (g2.holds hτ)
      have e2 := hv2 τ hτ
      have e3 : optVal τ (some c) = (litVal τ c).toNat := rfl
      rw [e3] at e2
      simp only [List.map_cons, lsbV_cons, List.length_cons]
      have : 2 ^ (rest.length + 1) * optVal τ cout = 2 * (2 ^ rest.length * optVal τ cout) := by
        grind
      omega

/-- `zip` of equal-length lists projects back to the lists. -/
theorem map_fst_zip_eq {α β : Type} : ∀ (l₁ : List α) (l₂ : List β), l₁.length = l₂.length →
    (l₁.zip l₂).map Prod.fst = l₁
  | [], [], _ => rfl
  | [], _ :: _, h => by simp at h
  | _ :: _, [], h => by simp at h
  | a :: l₁, b :: l₂, h => by
    simp only [List.zip_cons_cons, List.map_cons]
    rw [map_fst_zip_eq l₁ l₂ (by simpa using h)]

theorem map_snd_zip_eq {α β : Type} : ∀ (l₁ : List α) (l₂ : List β), l₁.length = l₂.length →
    (l₁.zip l₂).map Prod.snd = l₂
  | [], [], _ => rfl
  | [], _ :: _, h => by simp at h
  | _ :: _, [], h => by simp at h
  | a :: l₁, b :: l₂, h => by
    simp only [List.zip_cons_cons, List.map_cons]
    rw [map_snd_zip_eq l₁ l₂ (by simpa using h)]

theorem mem_zip_ok {n : Nat} {xs ys : List Int} (hx : ∀ x ∈ xs, LitOK n x)
    (hy : ∀ y ∈ ys, LitOK n y) : ∀ p ∈ xs.zip ys, LitOK n p.1 ∧ LitOK n p.2 := by
  intro p hp
  obtain ⟨a, c⟩ := p
  exact ⟨hx a (List.of_mem_zip hp).1, hy c (List.of_mem_zip hp).2⟩

theorem rippleCarry_full (b : Builder) (xs ys : List Int)
    (hx : ∀ x ∈ xs, LitOK b.nvars x) (hy : ∀ y ∈ ys, LitOK b.nvars y)
    (hlen : xs.length = ys.length) (hpos : 0 < xs.length) :
    ∃ c ss b', b.rippleCarry xs ys = ((some c, ss), b') ∧ GExt b b' ∧
      ss.length = xs.length ∧ (∀ l ∈ c :: ss, LitOK b'.nvars l) ∧
      ∀ τ, b'.Holds τ → bitsVal τ (c :: ss.reverse) = bitsVal τ xs + bitsVal τ ys := by
  have hrl : xs.reverse.length = ys.reverse.length := by simpa using hlen
  obtain ⟨cout, ss, b', heq, g, hl, hss, hco, hsome, hv⟩ :=
    rippleLoop_spec (xs.reverse.zip ys.reverse) b none
      (mem_zip_ok (fun x h => hx x (List.mem_reverse.1 h)) (fun y h => hy y (List.mem_reverse.1 h)))
      (by simp)
  have hzl : (xs.reverse.zip ys.reverse).length = xs.length := by
    simp [List.length_zip, hlen]
  have hne : xs.reverse.zip ys.reverse ≠ [] := by
    intro h; rw [h] at hzl; simp at hzl; omega
  have := hsome (Or.inr hne)
  obtain ⟨c, rfl⟩ := Option.isSome_iff_exists.1 this
  refine ⟨c, ss, b', heq, g, by omega, ?_, ?_⟩
  · intro l hm
    rcases List.mem_cons.1 hm with rfl | hm
    · exact hco _ rfl
    · exact hss l hm
  · intro τ hτ
    have e := hv τ hτ
    rw [map_fst_zip_eq _ _ hrl, map_snd_zip_eq _ _ hrl, lsbV_reverse, lsbV_reverse, hzl] at e
    rw [bitsVal_cons, bitsVal_reverse, List.length_reverse, hl, hzl]
    simp only [optVal] at e
    rw [Nat.mul_comm]
    omega

/-! ### `ripple_saturate` -/

theorem satLoop_eq_rippleLoop (sat : Nat) : ∀ (pairs : List (Int × Int)) (b : Builder) (i : Nat)
    (cin : Option Int), i + pairs.length < sat →
    b.satLoop sat i cin pairs = b.rippleLoop cin pairs
  | [], b, i, cin, _ => rfl
  | (x, y) :: rest, b, i, cin, h => by
    have hne : ¬ (i + 1 = sat) := by simp at h; omega
    have ih : ∀ b c, satLoop b sat (i + 1) c rest = rippleLoop b c rest :=
      fun b c => satLoop_eq_rippleLoop sat rest b (i + 1) c (by simp at h; omega)
    simp only [satLoop, rippleLoop, if_neg hne, ih]

theorem satLoop_snoc (sat : Nat) (x y : Int) : ∀ (low : List (Int × Int)) (b : Builder) (i : Nat)
    (cin : Option Int), i + low.length + 1 = sat →
    b.satLoop sat i cin (low ++ [(x, y)]) =
      (((b.rippleLoop cin low).1.1,
        (b.rippleLoop cin low).1.2 ++ [((b.rippleLoop cin low).2.saturateAdder x y (b.rippleLoop cin low).1.1).1]),
       ((b.rippleLoop cin low).2.saturateAdder x y (b.rippleLoop cin low).1.1).2)
  | [], b, i, cin, h => by
    have : i + 1 = sat := by simpa using h
    simp only [List.nil_append, satLoop, if_pos this, rippleLoop]
  | (x', y') :: rest, b, i, cin, h => by
    have hne : ¬ (i + 1 = sat) := by simp at h; omega
    have ih := fun b c => satLoop_snoc sat x y rest b (i + 1) c (by simp at h; omega)
    simp only [List.cons_append, satLoop, rippleLoop, if_neg hne, ih]

/-- The arithmetic of one saturating addition at the saturation width. -/
theorem satRepr_add_core (Q cx cy X Y S : Nat) (tx ty carry : Bool)
    (hX : X < Q) (hY : Y < Q) (hS : S < Q)
    (hx : tx.toNat * Q + X = cx % Q + if Q ≤ cx then Q else 0)
    (hy : ty.toNat * Q + Y = cy % Q + if Q ≤ cy then Q else 0)
    (hadd : S + Q * carry.toNat = X + Y) :
    (tx || ty || carry).toNat * Q + S = (cx + cy) % Q + if Q ≤ cx + cy then Q else 0 := by
  have hQ : 0 < Q := by omega
  have hmx : cx % Q < Q := Nat.mod_lt _ hQ
  have hmy : cy % Q < Q := Nat.mod_lt _ hQ
  have hX' : X = cx % Q := by
    cases tx <;> simp at hx <;> split at hx <;> omega
  have hY' : Y = cy % Q := by
    cases ty <;> simp at hy <;> split at hy <;> omega
  have hmod : (cx + cy) % Q = S := by
    rw [Nat.add_mod, ← hX', ← hY', ← hadd, Nat.add_mul_mod_self_left, Nat.mod_eq_of_lt hS]
  have hcx : ¬ Q ≤ cx → cx % Q = cx := fun h => Nat.mod_eq_of_lt (by omega)
  have hcy : ¬ Q ≤ cy → cy % Q = cy := fun h => Nat.mod_eq_of_lt (by omega)
  rw [hmod]
  generalize cx % Q = mx at *
  generalize cy % Q = my at *
  by_cases h1 : Q ≤ cx <;> by_cases h2 : Q ≤ cy <;> by_cases h3 : Q ≤ cx + cy <;>
    simp only [h1, h2, h3, if_true, if_false] at hx hy ⊢ <;>
    cases tx <;> cases ty <;> cases carry <;>
    simp only [Bool.toNat_true, Bool.toNat_false, Bool.or_true, Bool.or_false,
      Nat.zero_mul, Nat.one_mul, Nat.mul_zero, Nat.mul_one, Nat.zero_add, Nat.add_zero]
      at hx hy hadd ⊢ <;> omega

theorem optVal_eq (τ : Assign) (c : Option Int) : optVal τ c = (optLit τ c).toNat := by
  cases c <;> rfl

theorem rippleSaturate_full (b : Builder) (xs ys : List Int) (sat : Nat)
    (hx : ∀ x ∈ xs, LitOK b.nvars x) (hy : ∀ y ∈ ys, LitOK b.nvars y)
    (hlen : xs.length = ys.length) (hpos : 0 < xs.length) (hsat : xs.length ≤ sat) :
    ∃ out b', b.rippleSaturate xs ys sat = .ok (out, b') ∧ GExt b b' ∧
      out.length = min (xs.length + 1) sat ∧ (∀ l ∈ out, LitOK b'.nvars l) ∧
      ∀ τ, b'.Holds τ →
        (xs.length < sat → bitsVal τ out = bitsVal τ xs + bitsVal τ ys) ∧
        (xs.length = sat → ∀ cx cy, bitsVal τ xs = satRepr sat cx → bitsVal τ ys = satRepr sat cy →
          bitsVal τ out = satRepr sat (cx + cy)) := by
  have hzl : (xs.reverse.zip ys.reverse).length = xs.length := by
    simp [List.length_zip, hlen]
  rcases Nat.lt_or_ge xs.length sat with hlt | hge
  · -- below the saturation width: plain ripple carry
    obtain ⟨c, ss, b', heq, g, hl, hok, hv⟩ := rippleCarry_full b xs ys hx hy hlen hpos
    refine ⟨c :: ss.reverse, b', ?_, g, by simp [hl]; omega, ?_, ?_⟩
    · simp only [rippleSaturate]
      rw [satLoop_eq_rippleLoop sat _ b 0 none (by omega)]
      simp only [rippleCarry] at heq
      rw [heq]
      simp [hlt]
    · intro l hm
      apply hok
      simpa using hm
    · intro τ hτ
      exact ⟨fun _ => hv τ hτ, fun h => by omega⟩
  · have hws : xs.length = sat := by omega
    match xs, ys, hlen, hpos with
    | xt :: xs', yt :: ys', hlen, _ =>
    have hlen' : xs'.length = ys'.length := by simpa using hlen
    have hrl : xs'.reverse.length = ys'.reverse.length := by simpa using hlen'
    have hzip : (xt :: xs').reverse.zip (yt :: ys').reverse
        = xs'.reverse.zip ys'.reverse ++ [(xt, yt)] := by
      rw [List.reverse_cons, List.reverse_cons, List.zip_append hrl]
      rfl
    have hlowlen : (xs'.reverse.zip ys'.reverse).length = xs'.length := by
      simp [List.length_zip, hlen']
    obtain ⟨cout, ss, b1, heq, g1, hl, hss, hco, _, hv1⟩ :=
      rippleLoop_spec (xs'.reverse.zip ys'.reverse) b none
        (mem_zip_ok (fun x h => hx x (by simp [List.mem_reverse.1 h]))
          (fun y h => hy y (by simp [List.mem_reverse.1 h])))
        (by simp)
    have hle := g1.le
    obtain ⟨g2, hn2, hs2, hv2⟩ := saturateAdder_full b1 xt yt cout
      ((hx xt (by simp)).mono hle) ((hy yt (by simp)).mono hle) hco
    refine ⟨(b1.saturateAdder xt yt cout).1 :: ss.reverse, (b1.saturateAdder xt yt cout).2,
      ?_, g1.trans g2, ?_, ?_, ?_⟩
    · simp only [rippleSaturate]
      rw [hzip, satLoop_snoc sat xt yt _ b 0 none (by rw [hlowlen]; simp at hws; omega), heq]
      have : ¬ (xs'.length + 1 < sat) := by simp at hws; omega
      simp [this]
    · simp [hl, hlowlen] at hws ⊢; omega
    · intro l hm
      rcases List.mem_cons.1 hm with rfl | hm
      · rw [hs2, hn2]; exact LitOK.nat (by omega) (by omega)
      · exact (hss l (List.mem_reverse.1 hm)).mono g2.le
    · intro τ hτ
      refine ⟨fun h => by omega, fun _ cx cy hcx hcy => ?_⟩
      have e1 := hv1 τ (g2.holds hτ)
      have e2 := hv2 τ hτ
      rw [map_fst_zip_eq _ _ hrl, map_snd_zip_eq _ _ hrl, lsbV_reverse, lsbV_reverse,
        hlowlen, optVal_eq] at e1
      have hQ : sat - 1 = xs'.length := by simp at hws; omega
      rw [bitsVal_cons] at hcx hcy
      rw [bitsVal_cons, e2, bitsVal_reverse, List.length_reverse, hl, hlowlen]
      simp only [satRepr, hQ] at hcx hcy ⊢
      rw [← hlen'] at hcy
      have hX := bitsVal_lt τ xs'
      have hY := bitsVal_lt τ ys'
      rw [← hlen'] at hY
      have hS := lsbV_lt τ ss
      rw [hl, hlowlen] at hS
      exact satRepr_add_core _ cx cy _ _ _ _ _ _ hX hY hS hcx hcy (by simpa [optVal] using e1)

end Builder
end SPModel
