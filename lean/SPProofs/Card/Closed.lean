/- Closed builders (items mention existing variables only) and the
   "gates, then assertions on existing literals" pattern of the cardinality
   assertions. -/
import SPProofs.Card.Fresh

namespace SPModel
open Builder Card

/-- An item mentions only variables `1..m`. -/
def Item.ClosedAt (m : Nat) (it : Item) : Prop :=
  (∀ l ∈ it.ins, LitOK m l) ∧ ∀ o, it.out = some o → 0 < o ∧ o ≤ m

theorem Item.ClosedAt.mono {m k : Nat} {it : Item} (h : it.ClosedAt m) (hmk : m ≤ k) :
    it.ClosedAt k :=
  ⟨fun l hl => (h.1 l hl).mono hmk, fun o ho => ⟨(h.2 o ho).1, Nat.le_trans (h.2 o ho).2 hmk⟩⟩

theorem Item.holds_congr {m : Nat} {σ τ : Assign} {it : Item} (hc : it.ClosedAt m)
    (h : Agree m σ τ) : it.holds σ = it.holds τ := by
  cases ho : it.out with
  | some o =>
    rw [Item.holds_of_out ho, Item.holds_of_out ho, Item.eval_congr hc.1 h,
      h o (hc.2 o ho).1 (hc.2 o ho).2]
  | none =>
    cases it <;> simp [Item.out] at ho
    · exact litVal_congr (hc.1 _ (by simp [Item.ins])) h
    · exact clauseSat_congr hc.1 h

theorem Chain.closed : ∀ {l : List Item} {n m : Nat}, Chain n l m → ∀ it ∈ l, it.ClosedAt m
  | [], _, _, _, it, hm => by simp at hm
  | it :: rest, n, m, h, it', hm => by
    simp only [Chain] at h
    obtain ⟨h1, h2⟩ := h
    cases ho : it.out with
    | none =>
      rw [ho] at h2
      rcases List.mem_cons.1 hm with rfl | hm
      · exact ⟨fun l hl => (h1 l hl).mono h2.le, fun o ho' => by rw [ho] at ho'; cases ho'⟩
      · exact Chain.closed h2 it' hm
    | some o =>
      rw [ho] at h2
      obtain ⟨rfl, h2⟩ := h2
      have hle := h2.le
      rcases List.mem_cons.1 hm with rfl | hm
      · refine ⟨fun l hl => (h1 l hl).mono (by omega), fun o' ho' => ?_⟩
        rw [ho] at ho'; cases ho'; omega
      · exact Chain.closed h2 it' hm

/-- Literals of the emitted clauses are the output or input variables. -/
theorem Item.clause_lits {m : Nat} {it : Item} (hc : it.ClosedAt m) :
    ∀ c ∈ it.clauses, ∀ l ∈ c, l.natAbs ≤ m := by
  obtain ⟨hi, ho⟩ := hc
  cases it <;> simp only [Item.ins, List.mem_cons, List.not_mem_nil, or_false, forall_eq_or_imp,
    forall_eq] at hi <;> simp only [Item.out, Option.some.injEq, forall_eq'] at ho <;>
    simp only [Item.clauses, List.mem_cons, List.not_mem_nil, or_false, forall_eq_or_imp, forall_eq,
      Int.natAbs_neg, Int.natAbs_natCast]
  all_goals first
    | exact hi.2
    | (intro l hl; exact (hi l hl).2)
    | (obtain ⟨⟨_, h1⟩, ⟨_, h2⟩, ⟨_, h3⟩⟩ := hi; have := ho.2; omega)
    | (obtain ⟨⟨_, h1⟩, ⟨_, h2⟩⟩ := hi; have := ho.2; omega)
    | (have := hi.2; have := ho.2; omega)
    | (have := ho.2; split <;> simp <;> omega)

namespace Builder

/-- Every item of `b` mentions only variables `1..b.nvars`. -/
def Closed (b : Builder) : Prop := ∀ it ∈ b.items, it.ClosedAt b.nvars

theorem Closed.fresh (n : Nat) : Closed (fromFresh n) := by
  intro it hm; simp [fromFresh] at hm

theorem Closed.ext {b b' : Builder} (hc : Closed b) (h : Ext b b') : Closed b' := by
  obtain ⟨new, e, c⟩ := h
  intro it hm
  rw [e] at hm
  rcases List.mem_append.1 hm with hm | hm
  · exact c.closed it (List.mem_reverse.2 hm)
  · exact (hc it hm).mono c.le

theorem Closed.holds_congr {b : Builder} (hc : Closed b) {σ τ : Assign}
    (h : Agree b.nvars σ τ) (hσ : Holds σ b) : Holds τ b := by
  intro it hm
  rw [← Item.holds_congr (hc it hm) h]
  exact hσ it hm

/-- A gate-only extension of a closed builder: every assignment satisfying the
    old items extends (on the new variables only) to one satisfying all items. -/
theorem GExt.extend {b b' : Builder} (g : GExt b b') (hc : Closed b) {σ : Assign}
    (hσ : Holds σ b) : ∃ τ, Agree b.nvars σ τ ∧ Holds τ b' := by
  obtain ⟨new, e, c, gn⟩ := g
  obtain ⟨τ, ha, hh, _⟩ := c.exists_unique σ
  refine ⟨τ, ha, ?_⟩
  intro it hm
  rw [e] at hm
  rcases List.mem_append.1 hm with hm | hm
  · exact hh it (List.mem_reverse.2 hm) (gn it hm)
  · exact hc.holds_congr ha hσ it hm

theorem Chain.units {n : Nat} : ∀ (us : List Int), (∀ l ∈ us, LitOK n l) →
    Chain n (us.map Item.unit) n
  | [], _ => by simp [Chain]
  | u :: us, h => by
    simp only [List.map_cons, Chain, Item.ins, Item.out]
    exact ⟨fun l hl => by simp at hl; subst hl; exact h _ (by simp),
      Chain.units us (fun l hl => h l (by simp [hl]))⟩

/-- Gates, then unit assertions on existing literals. -/
theorem gates_then_units {b b1 : Builder} (hc : Closed b) (g : GExt b b1) (us : List Int)
    (hus : ∀ l ∈ us, LitOK b1.nvars l) (P : Assign → Prop)
    (hP : ∀ τ, Holds τ b1 → ((∀ l ∈ us, litVal τ l = true) ↔ P τ))
    (hPc : ∀ σ τ, Agree b.nvars σ τ → (P σ ↔ P τ)) :
    Ext b (us.foldl (fun b l => b.emit (.unit l)) b1) ∧
    (∀ τ, Holds τ (us.foldl (fun b l => b.emit (.unit l)) b1) → P τ) ∧
    (∀ σ, Holds σ b → P σ →
      ∃ τ, Agree b.nvars σ τ ∧ Holds τ (us.foldl (fun b l => b.emit (.unit l)) b1)) := by
  rw [foldl_emit]
  have hext : Ext b1 { nvars := b1.nvars, items := (us.map Item.unit).reverse ++ b1.items } :=
    ⟨(us.map Item.unit).reverse, rfl, by rw [List.reverse_reverse]; exact Chain.units us hus⟩
  have hholds : ∀ τ, Holds τ { nvars := b1.nvars, items := (us.map Item.unit).reverse ++ b1.items } ↔
      (Holds τ b1 ∧ ∀ l ∈ us, litVal τ l = true) := by
    intro τ
    constructor
    · intro h
      refine ⟨hext.holds h, fun l hl => ?_⟩
      exact h (.unit l) (by simp; exact Or.inl hl)
    · rintro ⟨h1, h2⟩ it hm
      simp only [List.mem_append, List.mem_reverse, List.mem_map] at hm
      rcases hm with ⟨l, hl, rfl⟩ | hm
      · exact h2 l hl
      · exact h1 it hm
  refine ⟨g.ext.trans hext, ?_, ?_⟩
  · intro τ h
    obtain ⟨h1, h2⟩ := (hholds τ).1 h
    exact (hP τ h1).1 h2
  · intro σ hσ hPσ
    obtain ⟨τ, ha, hτ⟩ := g.extend hc hσ
    refine ⟨τ, ha, (hholds τ).2 ⟨hτ, ?_⟩⟩
    exact (hP τ hτ).2 ((hPc σ τ ha).1 hPσ)

end Builder
end SPModel
