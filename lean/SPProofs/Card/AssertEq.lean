/- `int_to_binary` and `assert_k_of_n`. -/
import SPProofs.Card.Pop
import SPProofs.Card.Closed

namespace SPModel
open Builder Card
namespace Builder

/-! ### `int_to_binary` -/

theorem intToBinaryLsb_spec : ∀ (fuel k : Nat), k ≤ fuel →
    lsbVal (intToBinaryLsb fuel k) = k ∧ k < 2 ^ (intToBinaryLsb fuel k).length ∧
    (0 < (intToBinaryLsb fuel k).length → 2 ^ ((intToBinaryLsb fuel k).length - 1) ≤ k)
  | 0, k, h => by
    have : k = 0 := by omega
    subst this
    simp [intToBinaryLsb, lsbVal]
  | fuel + 1, k, h => by
    unfold intToBinaryLsb
    by_cases hk : k = 0
    · subst hk; simp [lsbVal]
    · rw [if_neg hk]
      obtain ⟨h1, h2, h3⟩ := intToBinaryLsb_spec fuel (k / 2) (by omega)
      generalize intToBinaryLsb fuel (k / 2) = l at *
      simp only [lsbVal, List.length_cons, Nat.add_sub_cancel]
      rw [h1]
      have hbit : (decide (k % 2 = 1)).toNat = k % 2 := by
        rcases Nat.mod_two_eq_zero_or_one k with h | h <;> simp [h]
      rw [hbit, Nat.pow_succ]
      refine ⟨by omega, by omega, fun _ => ?_⟩
      by_cases hl : l.length = 0
      · rw [hl]; simp; omega
      · have := h3 (by omega)
        have e : 2 ^ l.length = 2 * 2 ^ (l.length - 1) := by
          have : l.length = (l.length - 1) + 1 := by omega
          rw [this, Nat.pow_succ]; simp; omega
        omega

theorem intToBinary_val (k : Nat) : bval (intToBinary k) = k := by
  unfold intToBinary
  rw [bval_reverse]
  exact (intToBinaryLsb_spec k k (Nat.le_refl _)).1

theorem intToBinary_lt (k : Nat) : k < 2 ^ (intToBinary k).length := by
  unfold intToBinary
  rw [List.length_reverse]
  exact (intToBinaryLsb_spec k k (Nat.le_refl _)).2.1

theorem intToBinary_ge (k : Nat) (h : 0 < (intToBinary k).length) :
    2 ^ ((intToBinary k).length - 1) ≤ k := by
  unfold intToBinary at *
  rw [List.length_reverse] at *
  exact (intToBinaryLsb_spec k k (Nat.le_refl _)).2.2 h

/-- `k ≤ 2^p` bounds the bit length of `k` by `p + 1`. -/
theorem intToBinary_len_le {k p : Nat} (h : k ≤ 2 ^ p) : (intToBinary k).length ≤ p + 1 := by
  by_cases h0 : (intToBinary k).length = 0
  · omega
  · have := intToBinary_ge k (by omega)
    have h2 : 2 ^ ((intToBinary k).length - 1) ≤ 2 ^ p := Nat.le_trans this h
    rw [Nat.pow_le_pow_iff_right (by omega)] at h2
    omega

theorem intToBinary_len_le' {k p : Nat} (h : k < 2 ^ p) : (intToBinary k).length ≤ p := by
  by_cases h0 : (intToBinary k).length = 0
  · omega
  · have := intToBinary_ge k (by omega)
    have h2 : 2 ^ ((intToBinary k).length - 1) < 2 ^ p := Nat.lt_of_le_of_lt this h
    rw [Nat.pow_lt_pow_iff_right (by omega)] at h2
    omega

/-! ### Comparing the stored count with `k` -/

theorem satRepr_cmp {L c k : Nat} (hk : k < 2 ^ L) :
    (satRepr (L + 1) c = k ↔ c = k) ∧ (satRepr (L + 1) c < k ↔ c < k) ∧
    (k < satRepr (L + 1) c ↔ k < c) := by
  by_cases hc : c < 2 ^ L
  · rw [satRepr_of_lt_half (by simpa using hc)]
    simp
  · have := @satRepr_ge_half (L + 1) c (by simp; omega)
    simp only [Nat.add_sub_cancel] at this
    omega

/-- The stored value `S` of a count `c` compares with `k` like `c` does. -/
theorem enc_cmp {τ : Assign} {L : Nat} {bits : List Int} {c k : Nat}
    (h : Enc τ (L + 1) bits c) (hk : k < 2 ^ L) :
    (bitsVal τ bits = k ↔ c = k) ∧ (bitsVal τ bits < k ↔ c < k) ∧ (k < bitsVal τ bits ↔ k < c) := by
  unfold Enc at h
  rw [h]
  split
  · simp
  · exact satRepr_cmp hk

/-! ### Signed unit assertions -/

theorem litVal_signed (τ : Assign) (v : Bool) (l : Int) (hl : l ≠ 0) :
    (litVal τ (signed v l) = true) ↔ litVal τ l = v := by
  unfold signed
  cases v
  · simp [litVal_neg _ _ hl]
  · simp

theorem LitOK_signed {n : Nat} (v : Bool) {l : Int} (hl : LitOK n l) : LitOK n (signed v l) := by
  unfold signed
  split
  · exact hl
  · exact ⟨by have := hl.1; omega, by simpa using hl.2⟩

theorem signed_units (τ : Assign) : ∀ (vs : List Bool) (ls : List Int), vs.length = ls.length →
    (∀ l ∈ ls, l ≠ 0) →
    ((∀ u ∈ (vs.zip ls).map (fun (p : Bool × Int) => signed p.1 p.2), litVal τ u = true) ↔
      ls.map (litVal τ) = vs)
  | [], [], _, _ => by simp
  | [], _ :: _, h, _ => by simp at h
  | _ :: _, [], h, _ => by simp at h
  | v :: vs, l :: ls, h, hne => by
    have ih := signed_units τ vs ls (by simpa using h) (fun x hx => hne x (by simp [hx]))
    simp only [List.zip_cons_cons, List.map_cons, List.mem_cons, forall_eq_or_imp, ih,
      litVal_signed τ v l (hne l (by simp)), List.cons.injEq]

/-! ### `assert_k_of_n` -/

theorem contradiction_eq (b : Builder) (x : Int) :
    contradiction b x = [x, -x].foldl (fun b l => b.emit (.unit l)) b := rfl

theorem litCount_lt_of_length {τ : Assign} {xs : List Int} {k : Nat} (h : xs.length < k) :
    litCount τ xs < k := Nat.lt_of_le_of_lt (litCount_le τ xs) h

/-- The shape shared by the three cardinality assertions. -/
def ReqSpec (b : Builder) (res : Except PyErr Builder) (P : Assign → Prop) : Prop :=
  ∃ b', res = .ok b' ∧ Ext b b' ∧ (∀ τ, Holds τ b' → P τ) ∧
    (∀ σ, Holds σ b → P σ → ∃ τ, Agree b.nvars σ τ ∧ Holds τ b')

theorem contradiction_spec (b : Builder) (hc : Closed b) (x : Int) (hx : LitOK b.nvars x)
    (P : Assign → Prop) (hP : ∀ τ, ¬ P τ) : ReqSpec b (.ok (contradiction b x)) P := by
  rw [contradiction_eq]
  obtain ⟨h1, h2, h3⟩ := gates_then_units hc (GExt.refl b) [x, -x]
    (by intro l hl
        simp at hl
        rcases hl with rfl | rfl
        · exact hx
        · exact ⟨by have := hx.1; omega, by simpa using hx.2⟩)
    P
    (by intro τ _
        simp only [List.mem_cons, List.not_mem_nil, or_false, forall_eq_or_imp, forall_eq,
          litVal_neg _ _ hx.1]
        constructor
        · rintro ⟨h1, h2⟩; rw [h1] at h2; simp at h2
        · intro h; exact absurd h (hP τ))
    (by intro σ τ _; simp [hP])
  exact ⟨_, rfl, h1, h2, h3⟩

theorem assertKofN_spec (b : Builder) (hc : Closed b) (k : Nat) (xs : List Int) (hne : xs ≠ [])
    (hx : ∀ x ∈ xs, LitOK b.nvars x) :
    ReqSpec b (b.assertKofN k xs) (fun τ => litCount τ xs = k) := by
  match xs, hne with
  | x0 :: xs', _ =>
  simp only [assertKofN]
  by_cases hk : k > (x0 :: xs').length
  · rw [if_pos hk]
    apply contradiction_spec b hc x0 (hx x0 (by simp))
    intro τ h
    have := @litCount_lt_of_length τ _ _ hk
    omega
  · rw [if_neg hk]
    obtain ⟨sumBits, b1, heq, g, hok, hlen, hv⟩ :=
      popCount_full b (x0 :: xs') ((intToBinary k).length + 1) hx (by simp)
    rw [heq]
    simp only
    have hp := le_two_pow_clog2 (x0 :: xs').length
    generalize clog2 (x0 :: xs').length = p at *
    have hL : (intToBinary k).length ≤ p + 1 := intToBinary_len_le (by omega)
    generalize hLdef : (intToBinary k).length = L at *
    have hW : L ≤ sumBits.length := by rw [hlen]; simp; omega
    have htake : List.take sumBits.length (intToBinary k).reverse = (intToBinary k).reverse :=
      List.take_of_length_le (by simp; omega)
    rw [htake]
    simp only [List.length_reverse, hLdef, List.reverse_append, List.reverse_replicate,
      List.reverse_reverse]
    -- the padded binary representation of `k`
    have hplen : (List.replicate (sumBits.length - L) false ++ intToBinary k).length
        = sumBits.length := by simp; omega
    have hpval : bval (List.replicate (sumBits.length - L) false ++ intToBinary k) = k := by
      rw [bval_append, bval_replicate_false, intToBinary_val]; simp
    generalize List.replicate (sumBits.length - L) false ++ intToBinary k = padded at *
    have hmap : (List.map (fun (x : Bool × Int) => signed x.1 x.2) (padded.zip sumBits))
        = (padded.zip sumBits).map (fun (p : Bool × Int) => signed p.1 p.2) := rfl
    obtain ⟨h1, h2, h3⟩ := gates_then_units hc g
      ((padded.zip sumBits).map (fun (p : Bool × Int) => signed p.1 p.2))
      (by intro l hl
          simp only [List.mem_map] at hl
          obtain ⟨⟨v, sb⟩, hm, rfl⟩ := hl
          exact LitOK_signed v (hok sb (List.of_mem_zip hm).2))
      (fun τ => litCount τ (x0 :: xs') = k)
      (by intro τ hτ
          rw [signed_units τ padded sumBits hplen (fun l hl => (hok l hl).1)]
          have hkL : k < 2 ^ L := by rw [← hLdef]; exact intToBinary_lt k
          rw [← (enc_cmp (hv τ hτ) hkL).1, bitsVal_eq, ← hpval]
          constructor
          · intro h; rw [h]
          · intro h; exact bval_inj (by simp [hplen]) h)
      (by intro σ τ ha
          rw [litCount_congr hx ha])
    exact ⟨_, rfl, h1, h2, h3⟩

end Builder
end SPModel
