/-
  `Block.add_implied_levels` (model: `Implied.column`, tied to the code by correspondence
  I10): when on every applicable trial exactly one level's predicate accepts the window —
  what C15 demands of a derived factor — the column has one entry per trial: that level on
  applicable trials, '' elsewhere.  This is the condition `Spec.derivedOk` puts on a valid
  sequence, so the filled-in column is the valid one.
-/
import SPModel.Implied

namespace SPModel.Implied
open SPModel

theorem flatMap_singleton_eq_map {α β : Type} (l : List α) (g : α → List β) (h : α → β)
    (hg : ∀ a ∈ l, g a = [h a]) : l.flatMap g = l.map h := by
  induction l with
  | nil => rfl
  | cons a t ih =>
    rw [List.flatMap_cons, List.map_cons, hg a (List.mem_cons_self ..),
      ih (fun b hb => hg b (List.mem_cons_of_mem _ hb))]
    rfl

/-- the entry of trial `i` -/
def entry (d : Design) (id : Nat) (lf : Layout.LFactor) (w : WindowD) (look : Nat → Nat → Option Nat) (i : Nat) :
    Option Nat :=
  if Layout.applies lf (i / lf.sustain + 1) then
    (Spec.matching d (d.factor id) w look ((i / lf.sustain) * lf.sustain)).head?
  else none

theorem column_spec (d : Design) (id n : Nat) (lf : Layout.LFactor) (look : Nat → Nat → Option Nat) (w : WindowD)
    (hw : (d.factor id).window = some w)
    (hone : ∀ i, i < n → Layout.applies lf (i / lf.sustain + 1) = true →
      ∃ l, Spec.matching d (d.factor id) w look ((i / lf.sustain) * lf.sustain) = [l]) :
    column d id n lf look = (List.range n).map (entry d id lf w look) := by
  unfold column
  simp only [hw]
  apply flatMap_singleton_eq_map
  intro i hi
  have hi' : i < n := List.mem_range.1 hi
  unfold entry
  by_cases ha : Layout.applies lf (i / lf.sustain + 1) = true
  · obtain ⟨l, hl⟩ := hone i hi' ha
    simp [ha, hl]
  · simp [ha]

theorem column_length (d : Design) (id n : Nat) (lf : Layout.LFactor) (look : Nat → Nat → Option Nat) (w : WindowD)
    (hw : (d.factor id).window = some w)
    (hone : ∀ i, i < n → Layout.applies lf (i / lf.sustain + 1) = true →
      ∃ l, Spec.matching d (d.factor id) w look ((i / lf.sustain) * lf.sustain) = [l]) :
    (column d id n lf look).length = n := by
  rw [column_spec d id n lf look w hw hone]; simp

end SPModel.Implied
