/-
  C24 (continued) — laws (3), (4), (5) of the documented combinator equivalences in the reference
  semantics: CrossBlock = MultiCrossBlock of one crossing, Repeat(b, []) = b, Merge([b]) = b.

  (3) `cross_eq_multiCross` — no hypothesis.  The geometries agree on every field but the error MESSAGE
      (`cross_multi_geo`); one side is an error iff the other is (`cross_multi_error`); the messages can differ
      (`Witness.cross_multi_error_differs`): MultiCrossBlock reports the error of the constraint-free crossing first.
  (4) `repeat_nil_eq` — two decidable hypotheses on the geometry of `b`:
      * `equalPreambles`: Repeat is a Merge with EQUAL_PREAMBLE, so a block whose crossings have different
        preambles (legal under PARALLEL_START / POST_PREAMBLE) becomes an error: `repeat_nil_error` says exactly when.
      * `alignInert`: Repeat resets the alignment to EQUAL_PREAMBLE; under POST_PREAMBLE the repetition windows of
        an older constraint are shifted by (preamble of the block − preamble of the constraint).  This only
        excludes POST_PREAMBLE blocks holding a constraint that was given to a sub-block WITHOUT crossing
        (preamble 0) merged with crossings of positive preamble; `repeat_nil_eq_of_align` replaces it by
        "alignment ≠ POST_PREAMBLE", `repeat_nil_cross` needs nothing.
      Under `equalPreambles` alone the geometries are equal up to the `align` field (`repeat_nil_geo`).
  (5) `merge_singleton_geo` — FULL equality of geometries `geo d (Merge [b] [] m none) = geo d b` for m = REPEAT
      (the library default) with no hypothesis; for WEIGHT/EQUAL the law is FALSE in general
      (`Witness.merge_singleton_false_weight/_equal`: the weights of a REPEAT-mode block are computed again) and
      holds exactly under `weightsStable` (true by construction for CrossBlock and WEIGHT-mode MultiCrossBlock:
      `merge_singleton_cross`, `merge_singleton_multiCross`).
-/
import SPModel.Spec
import SPProofs.SpecLemmas.Geo
import SPProofs.SpecLemmas.Create
import SPProofs.Properties.C24

namespace SPModel.C24
open SPModel SPModel.Spec SPModel.SpecLemmas

/-! ## hypotheses (all decidable, on the geometry of the inner block) -/

/-- every crossing of the geometry has the same preamble (what EQUAL_PREAMBLE demands) -/
def equalPreambles (d : Design) (g : Geo) : Bool := allPreEq d g.crossings

/-- the weight of every crossing is what WEIGHT/EQUAL mode would compute for it: `⌈(n - start) / size⌉` -/
def weightsStable (g : Geo) : Bool :=
  (g.crossings.zip (g.preambles.zip g.sizes)).all (fun p => p.1.weight == ceilDiv (g.n - p.2.1) p.2.2)

/-- the alignment does not shift any repetition window: either it is not POST_PREAMBLE, or no scoped
    constraint has a preamble shorter than the geometry's -/
def alignInert (g : Geo) : Bool :=
  g.align != .postPreamble ||
  g.constraints.all (fun sc => match sc.scope with
    | none => true
    | some (len, pre) => decide (len - pre = 0) || decide (g.preambles.headD 0 ≤ pre))

/-! ## valid sequences do not read `align` except through `windowsOf`, nor `rcc` -/

theorem all_congr_mem {α} (f g : α → Bool) : ∀ l : List α, (∀ x ∈ l, f x = g x) → l.all f = l.all g := by
  intro l
  induction l with
  | nil => intro _; rfl
  | cons x xs ih =>
    intro h
    simp only [List.all_cons]
    rw [h x (List.mem_cons_self ..), ih (fun y hy => h y (List.mem_cons_of_mem _ hy))]

theorem validG_align (d : Design) (g : Geo) (a : Alignment)
    (h : ∀ sc ∈ g.constraints, windowsOf { g with align := a } sc = windowsOf g sc) (s : Seq) :
    validG d { g with align := a } s = validG d g s := by
  have hc : constraintsOk d { g with align := a } s = constraintsOk d g s := by
    unfold constraintsOk
    apply all_congr_mem
    intro sc hsc
    rw [h sc hsc]
    rfl
  unfold validG
  rw [hc]
  rfl

theorem windowsOf_alignInert (g : Geo) (a : Alignment) (ha : a ≠ .postPreamble) (h : alignInert g = true) :
    ∀ sc ∈ g.constraints, windowsOf { g with align := a } sc = windowsOf g sc := by
  intro sc hsc
  have hfact : g.align = .postPreamble → ∀ len pre, sc.scope = some (len, pre) →
      len - pre = 0 ∨ g.preambles.headD 0 ≤ pre := by
    intro hal len pre hs
    unfold alignInert at h
    simp only [hal, bne_self_eq_false, Bool.false_or, List.all_eq_true] at h
    have := h sc hsc
    simpa only [hs, Bool.or_eq_true, decide_eq_true_eq] using this
  cases hs : sc.scope with
  | none => simp only [windowsOf, hs]
  | some p =>
    obtain ⟨len, pre⟩ := p
    by_cases hstep : len - pre = 0
    · simp only [windowsOf, hs, hstep, if_true]
    · cases hal : g.align with
      | postPreamble =>
        have h0 : g.preambles.headD 0 - pre = 0 := by
          rcases hfact hal len pre hs with h1 | h1
          · exact absurd h1 hstep
          · omega
        cases a with
        | postPreamble => exact absurd rfl ha
        | parallelStart => simp only [windowsOf, hs, hstep, if_false, hal, h0]
        | equalPreamble => simp only [windowsOf, hs, hstep, if_false, hal, h0]
      | parallelStart =>
        cases a with
        | postPreamble => exact absurd rfl ha
        | parallelStart => simp only [windowsOf, hs, hstep, if_false, hal]
        | equalPreamble => simp only [windowsOf, hs, hstep, if_false, hal]
      | equalPreamble =>
        cases a with
        | postPreamble => exact absurd rfl ha
        | parallelStart => simp only [windowsOf, hs, hstep, if_false, hal]
        | equalPreamble => simp only [windowsOf, hs, hstep, if_false, hal]

/-! ## law (5): Merge([b]) = b -/

theorem createM_design (d : Design) (design : List Nat) (insts : List CrossInst) (old : List Scoped)
    (new : List ConstraintD) (rcc : Bool) (mode : Mode) (align : Alignment) :
    (createM d design insts old new rcc mode align).design = design := rfl

theorem createM_rcc (d : Design) (design : List Nat) (insts : List CrossInst) (old : List Scoped)
    (new : List ConstraintD) (rcc : Bool) (mode : Mode) (align : Alignment) :
    (createM d design insts old new rcc mode align).rcc = rcc := rfl

theorem createM_align (d : Design) (design : List Nat) (insts : List CrossInst) (old : List Scoped)
    (new : List ConstraintD) (rcc : Bool) (mode : Mode) (align : Alignment) :
    (createM d design insts old new rcc mode align).align = align := rfl

theorem weightsStable_createM (d : Design) (design : List Nat) (insts : List CrossInst) (old : List Scoped)
    (new : List ConstraintD) (rcc : Bool) (mode : Mode) (align : Alignment) (e : Option String)
    (h : weightsStable { createM d design insts old new rcc mode align with error := e } = true) :
    WeightsStable d design insts old new mode align := by
  unfold weightsStable at h
  simp only [createM, reweight, zip_map_map, List.all_map, List.all_eq_true, Function.comp_def, beq_iff_eq] at h
  intro i hi
  exact h i hi

theorem errOf_false_of_none (a b : Bool) (t : Option String) (h : errOf a b t = none) : errOf false b t = none := by
  cases a <;> cases b <;> simp_all [errOf]

/-- what `Merge([b], [], m)` computes from the geometry of `b` -/
def mergeOne (d : Design) (g : Geo) (m : Mode) : Geo :=
  let r := create d g.design g.crossings g.constraints [] g.rcc m g.align
  { r with error := g.error.orElse (fun _ => r.error) }

theorem merge_singleton_unfold (d : Design) (b : BlockExpr) (m : Mode) :
    geo d (.merge [b] [] m none) = mergeOne d (geo d b) m := by
  simp only [geo, geoList, List.foldl_cons, List.foldl_nil, unionIds_nil, List.flatMap_cons, List.flatMap_nil,
    List.append_nil, List.head?_cons, Option.map_some, Option.getD_some, List.all_cons, List.all_nil, Bool.and_true,
    List.any_cons, List.any_nil, List.findSome?_cons, List.findSome?_nil, mergeOne,
    ne_eq, not_true_eq_false, decide_false, Bool.or_false, Bool.false_eq_true, if_false]
  rw [Geo.mk.injEq]
  refine ⟨rfl, rfl, rfl, rfl, rfl, rfl, rfl, rfl, ?_⟩
  cases (geo d b).error <;> rfl

theorem mergeOne_created (d : Design) (design : List Nat) (insts : List CrossInst) (old : List Scoped)
    (new : List ConstraintD) (rcc : Bool) (mode m : Mode) (align : Alignment) (e : Option String)
    (he : e = none → (createM d design insts old new rcc mode align).error = none)
    (h : m = .repeat ∨ weightsStable { createM d design insts old new rcc mode align with error := e } = true) :
    mergeOne d { createM d design insts old new rcc mode align with error := e } m =
      { createM d design insts old new rcc mode align with error := e } := by
  simp only [mergeOne, createM_design, createM_rcc, createM_align, create_eq_createM]
  rw [createM_again d design insts old new rcc mode m align align (Or.inl rfl)
    (h.imp id (weightsStable_createM d design insts old new rcc mode align e))]
  rw [Geo.mk.injEq]
  refine ⟨rfl, rfl, rfl, rfl, rfl, rfl, rfl, rfl, ?_⟩
  cases e with
  | some x => rfl
  | none =>
    have h1 := he rfl
    simp only [createM] at h1
    exact errOf_false_of_none _ _ _ h1

theorem merge_singleton_geo (d : Design) (b : BlockExpr) (m : Mode)
    (h : m = .repeat ∨ weightsStable (geo d b) = true) :
    geo d (.merge [b] [] m none) = geo d b := by
  obtain ⟨design, insts, old, new, rcc, mode, align, e, hg, he⟩ := geo_created d b
  rw [merge_singleton_unfold]
  rw [hg] at h ⊢
  exact mergeOne_created d design insts old new rcc mode m align e he h

/-- Law (5), user-facing form. -/
theorem merge_singleton_eq (d : Design) (b : BlockExpr) (m : Mode)
    (h : m = .repeat ∨ weightsStable (geo d b) = true) (s : Seq) :
    validG d (geo d (.merge [b] [] m none)) s = validG d (geo d b) s := by
  rw [merge_singleton_geo d b m h]

/-! ## law (4): Repeat(b, []) = b -/

/-- what `Repeat(b, [])` computes from the geometry of `b` -/
def repeatNil (d : Design) (g : Geo) : Geo :=
  let r := create d g.design g.crossings g.constraints [] g.rcc .repeat .equalPreamble
  { r with error := g.error.orElse (fun _ => r.error) }

theorem repeat_nil_unfold (d : Design) (b : BlockExpr) : geo d (.repeat b []) = repeatNil d (geo d b) := by
  simp only [geo, repeatNil]

theorem allPreEq_reweight (d : Design) (wf : CrossInst → Nat) (F : List CrossInst) :
    allPreEq d (reweight wf F) = allPreEq d F := by
  unfold allPreEq
  rw [map_reweight _ (fun _ _ => rfl)]

theorem repeatNil_created (d : Design) (design : List Nat) (insts : List CrossInst) (old : List Scoped)
    (new : List ConstraintD) (rcc : Bool) (mode : Mode) (align : Alignment) (e : Option String)
    (he : e = none → (createM d design insts old new rcc mode align).error = none)
    (h : equalPreambles d { createM d design insts old new rcc mode align with error := e } = true) :
    repeatNil d { createM d design insts old new rcc mode align with error := e } =
      { createM d design insts old new rcc mode align with error := e, align := .equalPreamble } := by
  have hpre : allPreEq d (keepInsts insts) = true := by
    simpa only [equalPreambles, createM, allPreEq_reweight] using h
  simp only [repeatNil, createM_design, createM_rcc, createM_align, create_eq_createM]
  rw [createM_again d design insts old new rcc mode .repeat align .equalPreamble (Or.inr hpre) (Or.inl rfl)]
  rw [Geo.mk.injEq]
  refine ⟨rfl, rfl, rfl, rfl, rfl, rfl, rfl, rfl, ?_⟩
  cases e with
  | some x => rfl
  | none =>
    have h1 := he rfl
    simp only [createM] at h1
    have h2 : preBadOf d .equalPreamble (keepInsts insts) = false := by
      rw [preBadOf_equalPreamble, hpre]; rfl
    show errOf false (preBadOf d .equalPreamble (keepInsts insts)) _ = none
    rw [h2]
    revert h1
    generalize equalBadOf _ _ _ = a
    generalize preBadOf d align _ = b
    cases a <;> cases b <;> simp [errOf]

/-- Law (4) at the level of geometries: under EQUAL_PREAMBLE-compatibility of `b`, `Repeat(b, [])` has the
    geometry of `b` with the alignment field reset to EQUAL_PREAMBLE (every other field, `error` included, equal). -/
theorem repeat_nil_geo (d : Design) (b : BlockExpr) (h : equalPreambles d (geo d b) = true) :
    geo d (.repeat b []) = { geo d b with align := .equalPreamble } := by
  obtain ⟨design, insts, old, new, rcc, mode, align, e, hg, he⟩ := geo_created d b
  rw [repeat_nil_unfold]
  rw [hg] at h ⊢
  exact repeatNil_created d design insts old new rcc mode align e he h

theorem createM_error_repeat (d : Design) (design : List Nat) (insts : List CrossInst) (old : List Scoped)
    (new : List ConstraintD) (rcc : Bool) (mode : Mode) (align align' : Alignment) :
    (createM d design (createM d design insts old new rcc mode align).crossings
        (createM d design insts old new rcc mode align).constraints [] rcc .repeat align').error =
      errOf false (preBadOf d align' (keepInsts insts))
        (tailErr (zeroSizeOf d design (exclOf old new) (keepInsts insts)) rcc
          (incompleteOf d design (exclOf old new) (keepInsts insts) || impossibleOf d (keepInsts insts))) := by
  simp only [createM, keepInsts_reweight_keep, exclOf_scoped, preBadOf_reweight, zeroSizeOf_reweight,
    incompleteOf_reweight, impossibleOf_reweight]
  rfl

/-- When is `Repeat(b, [])` an error?  Exactly when `b` is, or the preambles of `b`'s crossings differ. -/
theorem repeat_nil_error (d : Design) (b : BlockExpr) :
    (geo d (.repeat b [])).error.isNone = ((geo d b).error.isNone && equalPreambles d (geo d b)) := by
  obtain ⟨design, insts, old, new, rcc, mode, align, e, hg, he⟩ := geo_created d b
  rw [repeat_nil_unfold, hg]
  simp only [repeatNil, createM_design, createM_rcc, create_eq_createM, createM_error_repeat, equalPreambles]
  have hcr : (createM d design insts old new rcc mode align).crossings = reweight _ (keepInsts insts) := rfl
  rw [hcr, allPreEq_reweight]
  cases e with
  | some x => rfl
  | none =>
    have h1 := he rfl
    simp only [createM] at h1
    rw [preBadOf_equalPreamble]
    show (errOf false (!allPreEq d (keepInsts insts)) _).isNone = (true && allPreEq d (keepInsts insts))
    revert h1
    generalize equalBadOf _ _ _ = a
    generalize preBadOf d align _ = b
    generalize allPreEq d (keepInsts insts) = c
    generalize tailErr _ _ _ = t
    cases a <;> cases b <;> cases c <;> cases t <;> simp [errOf]

/-- Law (4), user-facing form. -/
theorem repeat_nil_eq (d : Design) (b : BlockExpr) (hpre : equalPreambles d (geo d b) = true)
    (hal : alignInert (geo d b) = true) (s : Seq) :
    validG d (geo d (.repeat b [])) s = validG d (geo d b) s := by
  rw [repeat_nil_geo d b hpre]
  exact validG_align d (geo d b) .equalPreamble
    (windowsOf_alignInert (geo d b) .equalPreamble (by decide) hal) s

/-! ## law (3): CrossBlock(design, crossing, cs, rcc) = MultiCrossBlock(design, [crossing], cs, rcc) -/

/-- valid sequences read `error` only through `isNone` -/
theorem validG_error (d : Design) (g : Geo) (e : Option String) (h : e.isNone = g.error.isNone) (s : Seq) :
    validG d { g with error := e } s = validG d g s := by
  unfold validG
  rw [← h]
  rfl

/-- the error of the constraint-free one-crossing block `CrossBlock(design, crossing, [], rcc)` that
    MultiCrossBlock builds first -/
def bareError (d : Design) (design crossing : List Nat) (rcc : Bool) : Option String :=
  (geo d (.cross design crossing [] rcc)).error

/-- Law (3) at the level of geometries: every field but `error` is equal; the error of the MultiCrossBlock is
    the error of the constraint-free crossing if it has one, else the error of the CrossBlock. -/
theorem cross_multi_geo (d : Design) (design crossing : List Nat) (cs : List ConstraintD) (rcc : Bool) :
    geo d (.multiCross design [crossing] cs rcc .weight .equalPreamble) =
      { geo d (.cross design crossing cs rcc) with
        error := (bareError d design crossing rcc).orElse (fun _ => (geo d (.cross design crossing cs rcc)).error) } := by
  have hcr : (createM d design [{ factors := crossing, sustain := 1, weight := 1 }] [] [] rcc .weight
      .equalPreamble).crossings = reweight _ (keepInsts [{ factors := crossing, sustain := 1, weight := 1 }]) := rfl
  simp only [geo, bareError, List.map_cons, List.map_nil, List.flatMap_cons, List.flatMap_nil, List.append_nil,
    List.findSome?_cons, List.findSome?_nil, create_eq_createM]
  rw [hcr, createM_weight_reweight]
  rw [Geo.mk.injEq]
  refine ⟨rfl, rfl, rfl, rfl, rfl, rfl, rfl, rfl, ?_⟩
  cases (createM d design [{ factors := crossing, sustain := 1, weight := 1 }] [] [] rcc .weight
      .equalPreamble).error <;> rfl

/-- one side is an error exactly when the other is (the messages may differ, see `cross_multi_error_differs`) -/
theorem cross_multi_error (d : Design) (design crossing : List Nat) (cs : List ConstraintD) (rcc : Bool) :
    (geo d (.multiCross design [crossing] cs rcc .weight .equalPreamble)).error.isNone =
      (geo d (.cross design crossing cs rcc)).error.isNone := by
  rw [cross_multi_geo]
  show ((bareError d design crossing rcc).orElse _).isNone = _
  cases hc : (geo d (.cross design crossing cs rcc)).error with
  | some x => cases bareError d design crossing rcc <;> rfl
  | none =>
    have h0 : bareError d design crossing rcc = none := by
      simp only [geo, create_eq_createM] at hc
      simp only [bareError, geo, create_eq_createM]
      exact createM_error_mono d design _ cs rcc .equalPreamble hc
    rw [h0]; rfl

/-- Law (3), user-facing form (no hypothesis). -/
theorem cross_eq_multiCross (d : Design) (design crossing : List Nat) (cs : List ConstraintD) (rcc : Bool) (s : Seq) :
    validG d (geo d (.cross design crossing cs rcc)) s =
      validG d (geo d (.multiCross design [crossing] cs rcc .weight .equalPreamble)) s := by
  have h := cross_multi_error d design crossing cs rcc
  rw [cross_multi_geo] at h ⊢
  exact (validG_error d _ _ h s).symm

/-! ## corollaries: the hypotheses hold by construction for the basic blocks -/

/-- law (4) with the plainly structural hypothesis "the alignment of `b` is not POST_PREAMBLE" -/
theorem repeat_nil_eq_of_align (d : Design) (b : BlockExpr) (hpre : equalPreambles d (geo d b) = true)
    (hal : (geo d b).align ≠ .postPreamble) (s : Seq) :
    validG d (geo d (.repeat b [])) s = validG d (geo d b) s := by
  apply repeat_nil_eq d b hpre
  unfold alignInert
  cases h : (geo d b).align with
  | postPreamble => exact absurd h hal
  | parallelStart => rfl
  | equalPreamble => rfl

/-- law (4) for a CrossBlock: no hypothesis -/
theorem repeat_nil_cross (d : Design) (design crossing : List Nat) (cs : List ConstraintD) (rcc : Bool) (s : Seq) :
    validG d (geo d (.repeat (.cross design crossing cs rcc) [])) s =
      validG d (geo d (.cross design crossing cs rcc)) s := by
  apply repeat_nil_eq_of_align
  · have hcr : (createM d design [{ factors := crossing, sustain := 1, weight := 1 }] [] cs rcc .weight
        .equalPreamble).crossings = reweight _ (keepInsts [{ factors := crossing, sustain := 1, weight := 1 }]) := rfl
    simp only [geo, create_eq_createM, equalPreambles]
    rw [hcr, allPreEq_reweight]
    unfold keepInsts
    by_cases hc : (!crossing.isEmpty) = true
    · rw [List.filter_cons_of_pos (by simpa using hc)]
      simp [allPreEq]
    · rw [List.filter_cons_of_neg (by simpa using hc)]
      rfl
  · simp only [geo, create_eq_createM, createM_align]
    decide

theorem weightsStable_createM_weight (d : Design) (design : List Nat) (insts : List CrossInst) (old : List Scoped)
    (new : List ConstraintD) (rcc : Bool) (align : Alignment) (e : Option String) :
    weightsStable { createM d design insts old new rcc .weight align with error := e } = true := by
  unfold weightsStable
  simp only [createM, reweight, zip_map_map, List.all_map, List.all_eq_true, Function.comp_def, beq_iff_eq]
  intro i _
  rfl

/-- law (5) for a CrossBlock, every mode: no hypothesis -/
theorem merge_singleton_cross (d : Design) (design crossing : List Nat) (cs : List ConstraintD) (rcc : Bool)
    (m : Mode) :
    geo d (.merge [.cross design crossing cs rcc] [] m none) = geo d (.cross design crossing cs rcc) := by
  apply merge_singleton_geo
  right
  simp only [geo, create_eq_createM]
  exact weightsStable_createM_weight d design _ [] cs rcc .equalPreamble _

/-- law (5) for a WEIGHT-mode MultiCrossBlock, every mode: no hypothesis -/
theorem merge_singleton_multiCross (d : Design) (design : List Nat) (crossings : List (List Nat))
    (cs : List ConstraintD) (rcc : Bool) (align : Alignment) (m : Mode) :
    geo d (.merge [.multiCross design crossings cs rcc .weight align] [] m none) =
      geo d (.multiCross design crossings cs rcc .weight align) := by
  apply merge_singleton_geo
  right
  simp only [geo, create_eq_createM]
  exact weightsStable_createM_weight d design _ [] cs rcc align _

/-! ## concrete witnesses: every hypothesis is needed and satisfiable; what is false -/

namespace Witness

def color : FactorD := { id := 0, name := "color", levels := [⟨"r", 1, #[]⟩, ⟨"b", 1, #[]⟩], window := none }
def trW : WindowD := { deps := [0], width := 2, stride := 1, start := none, kind := "transition" }
/-- same / different colour as the previous trial -/
def trF : FactorD := { id := 1, name := "tr", levels := [⟨"same", 1, #[false,false,false,false,true,false,false,false,true]⟩, ⟨"diff", 1, #[false,false,false,false,false,true,false,true,false]⟩], window := some trW }
def wtW : WindowD := { deps := [0], width := 1, stride := 1, start := none, kind := "within" }
/-- a within-trial copy of the colour -/
def wtF : FactorD := { id := 2, name := "wt", levels := [⟨"isr", 1, #[false,true,false]⟩, ⟨"isb", 1, #[false,false,true]⟩], window := some wtW }
def dd : Design := { factors := [color, trF, wtF], block := .cross [0] [0] [] false }

/-! ### law (3): the two error messages can differ, so `geo` equality (field `error`) is false -/

def c3 : List ConstraintD := [.exclude 0 0, .exclude 0 1]

example : (geo dd (.cross [0, 2] [0, 2] c3 true)).error = some "a crossing has no feasible combination" ∧
    (geo dd (.multiCross [0, 2] [[0, 2]] c3 true .weight .equalPreamble)).error =
      some "complete crossing unsatisfiable" := by decide +kernel

theorem cross_multi_error_differs :
    ¬ ∀ (d : Design) (design crossing : List Nat) (cs : List ConstraintD) (rcc : Bool),
      geo d (.multiCross design [crossing] cs rcc .weight .equalPreamble) = geo d (.cross design crossing cs rcc) := by
  intro h
  have h1 := congrArg Geo.error (h dd [0, 2] [0, 2] c3 true)
  revert h1
  decide +kernel

/-! ### law (4) -/

/-- two crossings with preambles 0 and 1, started in parallel: a valid block that EQUAL_PREAMBLE rejects -/
def bP : BlockExpr := .multiCross [0, 1] [[0], [1]] [] false .weight .parallelStart
def sP : Seq := [(0, [some 0, some 0, some 1]), (1, [none, some 0, some 1])]

/-- without `equalPreambles` law (4) fails (`alignInert` holds): `Repeat(b, [])` is an error, `b` is not -/
example : equalPreambles dd (geo dd bP) = false ∧ alignInert (geo dd bP) = true ∧
    validG dd (geo dd bP) sP = true ∧ validG dd (geo dd (.repeat bP [])) sP = false := by decide +kernel

/-- a POST_PREAMBLE merge of a block without crossing (its constraint is scoped with preamble 0) and a block with
    preamble 1: the windows of the constraint start at trial 1 — and at trial 0 once wrapped in Repeat -/
def bA : BlockExpr := .multiCross [0] [] [.atMost 1 0 none, .minTrials 2] false .weight .postPreamble
def bB : BlockExpr := .multiCross [0, 1] [[1]] [] false .weight .postPreamble
def bM : BlockExpr := .merge [bA, bB] [] .repeat (some .postPreamble)
def sM : Seq := [(0, [some 0, some 0, some 1]), (1, [none, some 0, some 1])]

/-- without `alignInert` law (4) fails (`equalPreambles` holds, neither side is an error) -/
example : equalPreambles dd (geo dd bM) = true ∧ alignInert (geo dd bM) = false ∧
    (geo dd (.repeat bM [])).error = none ∧
    validG dd (geo dd bM) sM = true ∧ validG dd (geo dd (.repeat bM [])) sM = false := by decide +kernel

/-- both hypotheses of law (4) hold on a merge of two crossings with a derived (transition) factor and a constraint -/
def bS : BlockExpr :=
  .merge [.cross [0, 1] [1] [.atMost 1 0 none] false, .cross [0, 1] [0, 1] [] false] [] .weight none

example : equalPreambles dd (geo dd bS) = true ∧ alignInert (geo dd bS) = true ∧ (geo dd bS).error = none ∧
    (geo dd bS).crossings.length = 2 := by decide +kernel

/-! ### law (5) -/

/-- REPEAT-mode merge of a 4-trial and a 2-trial crossing of the same factor: weights 2 and 1 -/
def bR : BlockExpr := .merge [.cross [0] [0] [.minTrials 4] false, .cross [0] [0] [] false] [] .repeat none
def sR1 : Seq := [(0, [some 0, some 0, some 1, some 1])]
def sR2 : Seq := [(0, [some 0, some 1, some 0, some 1])]

/-- law (5) is false for WEIGHT mode: the weights are computed again (both become 2), more sequences are valid -/
example : weightsStable (geo dd bR) = false ∧
    validG dd (geo dd bR) sR1 = false ∧ validG dd (geo dd (.merge [bR] [] .weight none)) sR1 = true := by
  decide +kernel

/-- law (5) is false for EQUAL mode: the recomputed weights differ from the given ones, which is an error -/
example : validG dd (geo dd bR) sR2 = true ∧ (geo dd (.merge [bR] [] .equal none)).error ≠ none ∧
    validG dd (geo dd (.merge [bR] [] .equal none)) sR2 = false := by
  decide +kernel

theorem merge_singleton_false_weight :
    ¬ ∀ (d : Design) (b : BlockExpr) (s : Seq),
      validG d (geo d (.merge [b] [] .weight none)) s = validG d (geo d b) s := by
  intro h
  have h1 := h dd bR sR1
  revert h1
  decide +kernel

theorem merge_singleton_false_equal :
    ¬ ∀ (d : Design) (b : BlockExpr) (s : Seq),
      validG d (geo d (.merge [b] [] .equal none)) s = validG d (geo d b) s := by
  intro h
  have h1 := h dd bR sR2
  revert h1
  decide +kernel

/-- `weightsStable` holds on a two-crossing WEIGHT-mode block (weights 3 and 2) -/
def bW : BlockExpr := .multiCross [0, 1] [[0], [1]] [.minTrials 5] false .weight .parallelStart

example : weightsStable (geo dd bW) = true ∧ (geo dd bW).error = none ∧
    (geo dd bW).crossings.map (·.weight) = [3, 2] := by decide +kernel

end Witness

end SPModel.C24

#print axioms SPModel.C24.cross_eq_multiCross
#print axioms SPModel.C24.cross_multi_geo
#print axioms SPModel.C24.cross_multi_error
#print axioms SPModel.C24.repeat_nil_eq
#print axioms SPModel.C24.repeat_nil_geo
#print axioms SPModel.C24.repeat_nil_error
#print axioms SPModel.C24.repeat_nil_cross
#print axioms SPModel.C24.merge_singleton_eq
#print axioms SPModel.C24.merge_singleton_geo
#print axioms SPModel.C24.merge_singleton_cross
#print axioms SPModel.C24.merge_singleton_multiCross
#print axioms SPModel.C24.Witness.cross_multi_error_differs
#print axioms SPModel.C24.Witness.merge_singleton_false_weight
#print axioms SPModel.C24.Witness.merge_singleton_false_equal
