/-
  Helper lemmas for C09: satisfaction of appended clauses, and what the
  blocking clause of a projected solution excludes.
-/
import SPModel.Sampler

namespace SPModel.Sampler

theorem cnfSat_append_singleton (τ : Assign) (φ : Cnf) (c : Clause) :
    cnfSat τ (φ ++ [c]) = (cnfSat τ φ && clauseSat τ c) := by
  simp [cnfSat, List.all_append]

/-- the projected literal of variable `i+1` -/
def projLit (τ : Assign) (i : Nat) : Int :=
  if τ (i + 1) then ((i + 1 : Nat) : Int) else -((i + 1 : Nat) : Int)

theorem project_eq_map (s : Nat) (τ : Assign) : project s τ = (List.range s).map (projLit τ) := rfl

theorem projLit_eq_iff (σ τ : Assign) (i : Nat) : projLit σ i = projLit τ i ↔ σ (i + 1) = τ (i + 1) := by
  unfold projLit
  cases hσ : σ (i + 1) <;> cases hτ : τ (i + 1) <;> simp <;> omega

theorem project_eq_iff (s : Nat) (σ τ : Assign) :
    project s σ = project s τ ↔ ∀ i, i < s → σ (i + 1) = τ (i + 1) := by
  rw [project_eq_map, project_eq_map, List.map_inj_left]
  simp [projLit_eq_iff]

theorem litVal_pos (σ : Assign) (l : Int) (n : Nat) (hn : 0 < n) (hl : l = (n : Int)) : litVal σ l = σ n := by
  unfold litVal
  have h1 : 0 < l := by omega
  have h2 : l.natAbs = n := by omega
  rw [if_pos h1, h2]

theorem litVal_neg (σ : Assign) (l : Int) (n : Nat) (hn : 0 < n) (hl : l = -(n : Int)) : litVal σ l = !σ n := by
  unfold litVal
  have h1 : ¬ 0 < l := by omega
  have h2 : l.natAbs = n := by omega
  rw [if_neg h1, h2]

theorem litVal_neg_projLit (σ τ : Assign) (i : Nat) :
    litVal σ (-(projLit τ i)) = true ↔ σ (i + 1) ≠ τ (i + 1) := by
  unfold projLit
  cases hτ : τ (i + 1)
  · rw [litVal_pos σ _ (i + 1) (by omega) (by simp)]
    simp
  · rw [litVal_neg σ _ (i + 1) (by omega) (by simp)]
    simp

theorem clauseSat_blocking_iff (s : Nat) (τ σ : Assign) :
    clauseSat σ (blocking (project s τ)) = true ↔ ∃ i, i < s ∧ σ (i + 1) ≠ τ (i + 1) := by
  rw [project_eq_map]
  unfold clauseSat blocking
  rw [List.map_map, List.any_map, List.any_eq_true]
  constructor
  · rintro ⟨i, hi, h⟩
    exact ⟨i, List.mem_range.mp hi, (litVal_neg_projLit σ τ i).mp h⟩
  · rintro ⟨i, hi, h⟩
    exact ⟨i, List.mem_range.mpr hi, (litVal_neg_projLit σ τ i).mpr h⟩

theorem clauseSat_blocking_iff_ne (s : Nat) (τ σ : Assign) :
    clauseSat σ (blocking (project s τ)) = true ↔ project s σ ≠ project s τ := by
  rw [clauseSat_blocking_iff, Ne, project_eq_iff]
  constructor
  · rintro ⟨i, hi, h⟩ hall
    exact h (hall i hi)
  · intro h
    apply Classical.byContradiction
    intro hne
    apply h
    intro i hi
    apply Classical.byContradiction
    intro hne'
    exact hne ⟨i, hi, hne'⟩

end SPModel.Sampler
