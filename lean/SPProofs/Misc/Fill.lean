/-
  RandomGen's derived fill-in (model: `Fill.fillColumn`, tied to `UCSolutionEnumerator._fill_in_derived` by
  correspondence I9f).  The arguments it reads for trial `i` of a factor held for `s` trials are the window of the
  factor's *own* trial `i / s` over the own-trial sequence (`windowKeyS_group`), so on every applicable trial the
  entry is the level `Spec.matching` selects there - the one level whose table accepts the window when the tables
  partition the keys (C15) - and `None` on trials the factor does not apply to.
-/
import SPModel.Fill
import SPProofs.Properties.C15

namespace SPModel.Fill
open SPModel

/-- without sustain the arguments are the window of `Spec.windowKey` -/
theorem windowKeyS_one (d : Design) (w : WindowD) (look : Nat → Nat → Option Nat) (i : Nat) :
    windowKeyS d w look i 1 = Spec.windowKey d w look i := by
  simp only [windowKeyS, Spec.windowKey, Nat.mul_one]
  rfl

/-- a factor held for `s` trials: the arguments read at `i, i - s, i - 2s, …` are the window ending at the factor's own
    trial `i / s`, read from the own-trial sequence `g ↦ look dep (g * s + i % s)` -/
theorem windowKeyS_group (d : Design) (w : WindowD) (look : Nat → Nat → Option Nat) (i s : Nat) (hs : 0 < s) :
    windowKeyS d w look i s = Spec.windowKey d w (fun dep g => look dep (g * s + i % s)) (i / s) := by
  unfold windowKeyS Spec.windowKey
  congr 1
  funext acc dep
  congr 1
  funext acc j
  have hle : (w.width - 1 - j) * s ≤ i ↔ w.width - 1 - j ≤ i / s := (Nat.le_div_iff_mul_le hs).symm
  by_cases hb : w.width - 1 - j ≤ i / s
  · have hb' : (w.width - 1 - j) * s ≤ i := hle.2 hb
    have hidx : i - (w.width - 1 - j) * s = (i / s - (w.width - 1 - j)) * s + i % s := by
      have h1 : i = i / s * s + i % s := by
        have := Nat.div_add_mod i s
        rw [Nat.mul_comm] at this
        omega
      have h2 : (i / s - (w.width - 1 - j)) * s = i / s * s - (w.width - 1 - j) * s := Nat.sub_mul _ _ _
      have h3 : (w.width - 1 - j) * s ≤ i / s * s := Nat.mul_le_mul_right s hb
      omega
    simp only [if_pos hb, if_pos hb', hidx]
    rfl
  · have hb' : ¬ (w.width - 1 - j) * s ≤ i := fun h => hb (hle.1 h)
    simp only [if_neg hb, if_neg hb']

/-- trials the factor does not apply to stay empty -/
theorem fillEntry_not_applicable (d : Design) (id : Nat) (lf : Layout.LFactor) (look : Nat → Nat → Option Nat) (i : Nat)
    (h : Layout.applies lf (i / lf.sustain + 1) = false) : fillEntry d id lf look i = .ok none := by
  simp only [fillEntry]
  split
  · rfl
  · simp [h]

/-- the selected level is accepted, and it is the first one -/
theorem selectLevel_ok (d : Design) (f : FactorD) (w : WindowD) (look : Nat → Nat → Option Nat) (i s l : Nat)
    (h : selectLevel d f w look i s = .ok l) :
    l < f.levels.length ∧ tableAt f l (windowKeyS d w look i s) = true ∧
      ∀ l', l' < l → tableAt f l' (windowKeyS d w look i s) = false := by
  unfold selectLevel at h
  split at h
  · rename_i l0 hfind
    injection h with h
    subst h
    have hmem := List.mem_of_find?_eq_some hfind
    have hp := List.find?_some hfind
    refine ⟨List.mem_range.1 hmem, hp, ?_⟩
    intro l' hl'
    rw [List.find?_eq_some_iff_append] at hfind
    obtain ⟨_, as, bs, hsplit, hall⟩ := hfind
    -- `l'` lies before `l0` in `range n`
    have hl0 : l0 < f.levels.length := List.mem_range.1 hmem
    have hmem' : l' ∈ as := by
      have hl'mem : l' ∈ List.range f.levels.length := List.mem_range.2 (by omega)
      rw [hsplit] at hl'mem
      rcases List.mem_append.1 hl'mem with h1 | h1
      · exact h1
      · exfalso
        -- `range n` is strictly increasing: nothing after `l0` is smaller
        have hsorted : (List.range f.levels.length).Pairwise (· < ·) := List.pairwise_lt_range
        rw [hsplit] at hsorted
        have := (List.pairwise_append.1 hsorted).2.1
        rcases List.mem_cons.1 h1 with h2 | h2
        · omega
        · have := (List.pairwise_cons.1 this).1 l' h2
          omega
    have := hall l' hmem'
    simpa using this
  · cases h

/-- no accepting level: RuntimeError, as in `select_level_for_sample` -/
theorem selectLevel_error (d : Design) (f : FactorD) (w : WindowD) (look : Nat → Nat → Option Nat) (i s : Nat)
    (h : ∀ l, l < f.levels.length → tableAt f l (windowKeyS d w look i s) = false) :
    selectLevel d f w look i s = .error .runtimeError := by
  unfold selectLevel
  have : (List.range f.levels.length).find? (fun l => tableAt f l (windowKeyS d w look i s)) = none := by
    rw [List.find?_eq_none]
    intro l hl
    simp [h l (List.mem_range.1 hl)]
  rw [this]

/-- **The fill-in is the reference semantics' derived level on the factor's own trials.**  When exactly one level's
    table accepts the window (what C15 demands of a derived factor), an applicable trial `i` of a factor held for `s`
    trials receives exactly the level `Spec.matching` selects for the factor's own trial `i / s` over the own-trial
    sequence. -/
theorem fillEntry_matching (d : Design) (id : Nat) (lf : Layout.LFactor) (look : Nat → Nat → Option Nat) (i : Nat)
    (w : WindowD) (hw : (d.factor id).window = some w) (hs : 0 < lf.sustain)
    (huniq : C15.UniqueAt (d.factor id)
      (Spec.windowKey d w (fun dep g => look dep (g * lf.sustain + i % lf.sustain)) (i / lf.sustain)))
    (happ : Layout.applies lf (i / lf.sustain + 1) = true) :
    ∃ l, Spec.matching d (d.factor id) w (fun dep g => look dep (g * lf.sustain + i % lf.sustain)) (i / lf.sustain) = [l] ∧
      fillEntry d id lf look i = .ok (some l) := by
  obtain ⟨l, hm, hl⟩ := C15.matching_unique_at d (d.factor id) w
    (fun dep g => look dep (g * lf.sustain + i % lf.sustain)) (i / lf.sustain) huniq
  refine ⟨l, hm, ?_⟩
  unfold fillEntry
  simp only [hw, happ, if_true]
  -- the filter of `matching` is the singleton `[l]`, so `find?` returns `l`
  have hkey := windowKeyS_group d w look i lf.sustain hs
  unfold Spec.matching at hm
  unfold selectLevel
  have hfind : (List.range (d.factor id).levels.length).find?
      (fun l => tableAt (d.factor id) l (windowKeyS d w look i lf.sustain)) = some l := by
    rw [← List.head?_filter, hkey]
    have : (List.range (d.factor id).levels.length).filter
        (fun l => tableAt (d.factor id) l (Spec.windowKey d w (fun dep g => look dep (g * lf.sustain + i % lf.sustain)) (i / lf.sustain))) = [l] := hm
    rw [this]
    rfl
  rw [hfind]
  rfl

theorem mapM_except_ok {α β ε : Type} (f : α → Except ε β) :
    ∀ (l : List α) (r : List β), l.mapM f = .ok r →
      r.length = l.length ∧ ∀ i, i < l.length → ∃ a b, l[i]? = some a ∧ r[i]? = some b ∧ f a = .ok b := by
  intro l
  induction l with
  | nil =>
    intro r h
    simp [List.mapM_nil, pure, Except.pure] at h
    subst h
    exact ⟨rfl, fun i hi => absurd hi (Nat.not_lt_zero _)⟩
  | cons a l ih =>
    intro r h
    rw [List.mapM_cons] at h
    cases hfa : f a with
    | error e => simp [hfa, bind, Except.bind] at h
    | ok b =>
      cases hl : l.mapM f with
      | error e => simp [hfa, hl, bind, Except.bind] at h
      | ok bs =>
        simp [hfa, hl, bind, Except.bind, pure, Except.pure] at h
        subst h
        obtain ⟨hlen, hall⟩ := ih bs hl
        refine ⟨by simp [hlen], ?_⟩
        intro i hi
        cases i with
        | zero => exact ⟨a, b, rfl, rfl, hfa⟩
        | succ j =>
          obtain ⟨a', b', h1, h2, h3⟩ := hall j (by simpa using hi)
          exact ⟨a', b', by simpa using h1, by simpa using h2, h3⟩

/-- **The whole column.**  When `_fill_in_derived` returns, it returns one entry per trial of `[start, stop)`, and the
    entry of trial `start + u` is `fillEntry`'s (so, by `fillEntry_matching` / `fillEntry_not_applicable`: the level
    the reference semantics selects on the factor's own trials, or `None` where the factor does not apply) -/
theorem fillColumn_ok (d : Design) (id : Nat) (lf : Layout.LFactor) (look : Nat → Nat → Option Nat) (start stop : Nat)
    (col : List (Option Nat)) (h : fillColumn d id lf look start stop = .ok col) :
    col.length = stop - start ∧
      ∀ u, u < stop - start → ∃ e, col[u]? = some e ∧ fillEntry d id lf look (start + u) = .ok e := by
  unfold fillColumn at h
  obtain ⟨hlen, hall⟩ := mapM_except_ok _ _ _ h
  refine ⟨by simpa using hlen, ?_⟩
  intro u hu
  obtain ⟨a, b, h1, h2, h3⟩ := hall u (by simpa using hu)
  have : a = u := by
    rw [List.getElem?_range (by simpa using hu)] at h1
    exact (Option.some.inj h1).symm
  subst this
  exact ⟨b, h2, h3⟩

/-- an error of the column is the RuntimeError of a trial with no accepting level (the only error `fillEntry` has) -/
theorem fillEntry_error (d : Design) (id : Nat) (lf : Layout.LFactor) (look : Nat → Nat → Option Nat) (i : Nat) (e : PyErr)
    (h : fillEntry d id lf look i = .error e) : e = .runtimeError := by
  cases hw : (d.factor id).window with
  | none => simp [fillEntry, hw] at h
  | some w =>
    by_cases ha : Layout.applies lf (i / lf.sustain + 1) = true
    · simp only [fillEntry, hw, ha, if_true] at h
      unfold selectLevel at h
      split at h
      · simp [Except.map] at h
      · simp [Except.map] at h
        exact h.symm
    · simp [fillEntry, hw, ha] at h

/-! ### a concrete instance: a "repeat" transition factor of the outer block of a Nest (held for 2 trials) -/

namespace Witness

/-- keys: (older + 1) * 3 + (newer + 1); level 0 = "same", level 1 = "different or no older trial" -/
def des : Design :=
  { factors := [{ id := 0, name := "a", levels := [⟨"a1", 1, #[]⟩, ⟨"a2", 1, #[]⟩], window := none },
                { id := 1, name := "rep", window := some { deps := [0], width := 2, stride := 1, start := none, kind := "transition" },
                  levels := [⟨"same", 1, #[false, false, false, false, true, false, false, false, true]⟩,
                             ⟨"diff", 1, #[true, true, true, true, false, true, true, true, false]⟩] }],
    block := .cross [0, 1] [0] [] true }

def a : Seq := [(0, [some 0, some 0, some 0, some 0, some 1, some 1])]

/-- start 1 (one own trial of preamble), held for two trials: empty in trials 0-1, then the level of the own trial -/
example : fillColumn des 1 ⟨2, true, 1, 1, 2⟩ (fun dep u => a.at dep u) 0 6 =
    .ok [none, none, some 0, some 0, some 1, some 1] := by rfl

/-- the defect F35 in these terms: asking `applies` with the whole-sequence index `i + 1` would label trial 1 -/
example : Layout.applies ⟨2, true, 1, 1, 2⟩ (1 + 1) = true ∧ Layout.applies ⟨2, true, 1, 1, 2⟩ (1 / 2 + 1) = false := by
  decide

/-- the hypothesis of `fillEntry_matching` at trial 4 (own trial 2: a1 → a2, key 5, only "diff" accepts) -/
example : C15.UniqueAt (des.factor 1)
    (Spec.windowKey des { deps := [0], width := 2, stride := 1, start := none, kind := "transition" }
      (fun dep g => a.at dep (g * 2 + 4 % 2)) (4 / 2)) :=
  ⟨1, by decide, by rfl, fun j hj hacc => by
    have : j = 0 ∨ j = 1 := by
      have : j < 2 := hj
      omega
    rcases this with rfl | rfl
    · exact absurd hacc (by decide)
    · rfl⟩

end Witness

end SPModel.Fill
