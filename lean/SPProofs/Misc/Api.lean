/-
  Helper lemmas for C20 / C21: `mapM`/`foldlM` in `Except`, equational forms
  of `getCols`, `zipCols`, `mkDict`, `rowMatches`, `frequency`.
-/
import SPModel.Api

namespace SPModel.Api

/-! ### generic -/

theorem mapM_except_ok {ε α β} (f : α → Except ε β) (g : α → β) (l : List α)
    (h : ∀ x ∈ l, f x = .ok (g x)) : l.mapM f = .ok (l.map g) := by
  induction l with
  | nil => rfl
  | cons a l ih =>
    rw [List.mapM_cons, h a (List.mem_cons_self ..), ih (fun x hx => h x (List.mem_cons_of_mem _ hx))]
    rfl

theorem getD_of_lt {α} (l : List α) (d : α) (i : Nat) (h : i < l.length) : l.getD i d = l[i] := by
  simp [List.getD_eq_getElem?_getD, h]

theorem foldl_min_const (cs : List (List String)) (n : Nat) (h : ∀ c ∈ cs, c.length = n) :
    cs.foldl (fun m x => min m x.length) n = n := by
  induction cs with
  | nil => rfl
  | cons c cs ih =>
    rw [List.foldl_cons, h c (List.mem_cons_self ..), Nat.min_self]
    exact ih (fun x hx => h x (List.mem_cons_of_mem _ hx))

/-! ### columns -/

/-- the column of key `k` (empty if missing) -/
def colOf (e : Exp) (k : String) : List String :=
  match e.get k with
  | .ok c => c
  | .error _ => []

theorem colOf_of_get {e : Exp} {k : String} {c : List String} (h : e.get k = .ok c) : colOf e k = c := by
  unfold colOf; rw [h]

theorem getCols_ok (e : Exp) (keys : List String) (h : ∀ k ∈ keys, ∃ col, e.get k = .ok col) :
    getCols e keys = .ok (keys.map (colOf e)) := by
  induction keys with
  | nil => rfl
  | cons k ks ih =>
    obtain ⟨c, hc⟩ := h k (List.mem_cons_self ..)
    unfold getCols
    rw [ih (fun x hx => h x (List.mem_cons_of_mem _ hx)), hc, List.map_cons, colOf_of_get hc]

theorem zipCols_rect (cols : List (List String)) (n : Nat) (hne : cols ≠ [])
    (h : ∀ c ∈ cols, c.length = n) :
    zipCols cols = (List.range n).map (fun t => cols.map (fun col => col.getD t "")) := by
  cases cols with
  | nil => contradiction
  | cons c cs =>
    unfold zipCols
    simp only
    rw [h c (List.mem_cons_self ..), foldl_min_const cs n (fun x hx => h x (List.mem_cons_of_mem _ hx))]

/-! ### mkDict -/

theorem mkDict_foldl_fresh (kvs acc : List (String × String))
    (hk : (kvs.map Prod.fst).Nodup) (hfresh : ∀ kv ∈ kvs, ∀ p ∈ acc, p.1 ≠ kv.1) :
    kvs.foldl (fun acc kv =>
      if acc.any (·.1 == kv.1) then acc.map (fun p => if p.1 == kv.1 then (p.1, kv.2) else p) else acc ++ [kv]) acc
      = acc ++ kvs := by
  induction kvs generalizing acc with
  | nil => simp
  | cons kv kvs ih =>
    rw [List.map_cons, List.nodup_cons] at hk
    have hno : acc.any (·.1 == kv.1) = false := by
      rw [List.any_eq_false]
      intro p hp
      have := hfresh kv (List.mem_cons_self ..) p hp
      simpa using this
    rw [List.foldl_cons, hno]
    simp only [Bool.false_eq_true, if_false]
    rw [ih (acc ++ [kv]) hk.2]
    · simp
    · intro kv' hkv' p hp
      rcases List.mem_append.mp hp with hp | hp
      · exact hfresh kv' (List.mem_cons_of_mem _ hkv') p hp
      · have : p = kv := by simpa using hp
        subst this
        intro heq
        exact hk.1 (heq ▸ List.mem_map_of_mem hkv')

/-! ### row matching -/

/-- row `t` of the experiment restricted to `names`, when every column has an entry there
    (same definition as `SPModel.C21.rowAt`) -/
def rowOf (e : Exp) (names : List String) (t : Nat) : Option (List String) :=
  names.mapM (fun n => match e.get n with
    | .ok col => col[t]?
    | .error _ => none)

theorem rowOf_nil (e : Exp) (t : Nat) : rowOf e [] t = some [] := rfl

theorem rowOf_cons_eq_some (e : Exp) (n : String) (ns : List String) (t : Nat) (row : List String) :
    rowOf e (n :: ns) t = some row ↔
      ∃ col v row', e.get n = .ok col ∧ col[t]? = some v ∧ rowOf e ns t = some row' ∧ row = v :: row' := by
  unfold rowOf
  rw [List.mapM_cons]
  cases hg : e.get n with
  | error err => simp
  | ok col =>
    simp only
    cases hv : col[t]? with
    | none => simp [hv]
    | some v =>
      cases hr : List.mapM (fun n => match e.get n with
          | .ok col => col[t]?
          | .error _ => none) ns with
      | none => simp
      | some row' =>
        simp [hv]
        exact eq_comm

theorem rowMatches_eq (e : Exp) (t : Nat) (names combo row : List String)
    (hlen : combo.length = names.length) (hrow : rowOf e names t = some row) :
    rowMatches e t names combo = .ok (row == combo) := by
  induction names generalizing combo row with
  | nil =>
    have : combo = [] := List.eq_nil_of_length_eq_zero hlen
    subst this
    rw [rowOf_nil] at hrow
    cases hrow
    rfl
  | cons n ns ih =>
    obtain ⟨col, v, row', hg, hv, hr, rfl⟩ := (rowOf_cons_eq_some e n ns t row).mp hrow
    cases combo with
    | nil => simp at hlen
    | cons c cs =>
      unfold rowMatches
      rw [hg]
      simp only [hv]
      by_cases hvc : v = c
      · subst hvc
        simp only [bne_self_eq_false, Bool.false_eq_true, if_false]
        rw [ih cs row' (by simpa using hlen) hr]
        simp
      · have : (v != c) = true := by simpa using hvc
        rw [if_pos this]
        simp [hvc]

theorem foldlM_count (g : Nat → Nat → Except PyErr Nat) (p : Nat → Bool) (trials : List Nat) (acc : Nat)
    (h : ∀ t ∈ trials, ∀ acc, g acc t = .ok (if p t then acc + 1 else acc)) :
    trials.foldlM g acc = (.ok (acc + (trials.filter p).length) : Except PyErr Nat) := by
  induction trials generalizing acc with
  | nil => rfl
  | cons t ts ih =>
    have ht := h t (List.mem_cons_self ..) acc
    have hts := fun x hx => h x (List.mem_cons_of_mem t hx)
    rw [List.foldlM_cons, ht]
    cases hp : p t
    · show List.foldlM _ acc ts = _
      rw [ih acc hts, List.filter_cons, hp]
      rfl
    · show List.foldlM _ (acc + 1) ts = _
      rw [ih (acc + 1) hts, List.filter_cons, hp]
      simp only [if_true, List.length_cons]
      congr 1
      omega

theorem frequency_eq_filter (e : Exp) (names : List String) (trials : List Nat) (combo : List String)
    (hlen : combo.length = names.length)
    (hrows : ∀ t ∈ trials, (rowOf e names t).isSome) :
    frequency e names trials combo = .ok ((trials.filter (fun t => rowOf e names t == some combo)).length) := by
  unfold frequency
  rw [foldlM_count _ (fun t => rowOf e names t == some combo) trials 0]
  · simp
  · intro t ht acc
    obtain ⟨row, hrow⟩ := Option.isSome_iff_exists.mp (hrows t ht)
    simp only [rowMatches_eq e t names combo row hlen hrow, hrow]
    by_cases hrc : row = combo
    · simp [hrc]
    · have hb : (row == combo) = false := by simpa using hrc
      rw [hb]
      simp [hrc]

theorem length_of_mem_product (ls : List (List String)) : ∀ c ∈ product ls, c.length = ls.length := by
  induction ls with
  | nil => simp [product]
  | cons l ls ih =>
    intro c hc
    unfold product at hc
    rw [List.mem_flatMap] at hc
    obtain ⟨x, _, hx⟩ := hc
    rw [List.mem_map] at hx
    obtain ⟨t, ht, rfl⟩ := hx
    simp [ih t ht]

end SPModel.Api
