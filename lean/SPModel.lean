-- Root of the `SPModel` library: model layers (no imports outside core Lean).
import SPModel.Basic
import SPModel.Card
import SPModel.Logic
import SPModel.Comb
import SPModel.Text
import SPModel.Design
import SPModel.Spec
import SPModel.Api
import SPModel.Layout
import SPModel.Sampler
import SPModel.Compile
import SPModel.Conform
import SPModel.Pipeline
import SPModel.PipelineSem
import SPModel.RandomGen
import SPModel.Decode
import SPModel.Implied
