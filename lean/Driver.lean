/-
  spdrv — line-protocol driver for the executable model.
  One JSON request per input line, one JSON answer per output line.
  Requests: {"op": <string>, ...};  answers: {"ok": ...} or {"err": <PyErrKind>}
-/
import Lean.Data.Json
import SPModel
open Lean SPModel

def jInts (l : List Int) : Json := Json.arr (l.map (fun (i : Int) => toJson i)).toArray
def jCnf (c : List Clause) : Json := Json.arr (c.map jInts).toArray
def jOptInt : Option Int → Json
  | some i => toJson i
  | none => Json.null

def getInt (j : Json) (k : String) : Except String Int := j.getObjValAs? Int k
def getNat (j : Json) (k : String) : Except String Nat := j.getObjValAs? Nat k
def getInts (j : Json) (k : String) : Except String (List Int) := do
  let a ← j.getObjValAs? (Array Int) k
  return a.toList
def getStr (j : Json) (k : String) : Except String String := j.getObjValAs? String k
def getBool (j : Json) (k : String) : Except String Bool := j.getObjValAs? Bool k
def getOptInt (j : Json) (k : String) : Except String (Option Int) :=
  match j.getObjVal? k with
  | .ok Json.null => .ok none
  | .ok v => match v.getInt? with
    | .ok i => .ok (some i)
    | .error e => .error e
  | .error _ => .ok none

def builderJson (b : Builder) (ret : Json) : Json :=
  Json.mkObj [("ok", Json.mkObj [("vals", jCnf b.vals), ("nvars", toJson b.nvars), ("ret", ret)])]

def errJson (e : PyErr) : Json := Json.mkObj [("err", toJson e.name)]

def handleCard (j : Json) : Except String Json := do
  let m ← getStr j "m"
  let fresh ← getNat j "fresh"
  let b := Builder.fromFresh fresh
  match m with
  | "half_adder" =>
    let a ← getInt j "a"; let bb ← getInt j "b"
    let ((c, s), b1) := b.halfAdder a bb
    return builderJson b1 (jInts [c, s])
  | "full_adder" =>
    let a ← getInt j "a"; let bb ← getInt j "b"; let cin ← getOptInt j "cin"
    let ((c, s), b1) := b.fullAdder a bb cin
    return builderJson b1 (jInts [c, s])
  | "saturate_adder" =>
    let a ← getInt j "a"; let bb ← getInt j "b"; let cin ← getOptInt j "cin"
    let (s, b1) := b.saturateAdder a bb cin
    return builderJson b1 (toJson s)
  | "ripple_carry" =>
    let xs ← getInts j "xs"; let ys ← getInts j "ys"
    let ((c, ss), b1) := b.rippleCarry xs ys
    return builderJson b1 (Json.arr #[jOptInt c, jInts ss])
  | "ripple_saturate" =>
    let xs ← getInts j "xs"; let ys ← getInts j "ys"; let sat ← getNat j "sat"
    match b.rippleSaturate xs ys sat with
    | .ok (v, b1) => return builderJson b1 (jInts v)
    | .error e => return errJson e
  | "pop_count" =>
    let xs ← getInts j "xs"; let sat ← getNat j "sat"
    match b.popCount xs sat with
    | .ok (v, b1) => return builderJson b1 (jInts v)
    | .error e => return errJson e
  | "assert_eq" =>
    let xs ← getInts j "xs"; let k ← getNat j "k"
    match b.assertKofN k xs with
    | .ok b1 => return builderJson b1 Json.null
    | .error e => return errJson e
  | "assert_lt" =>
    let xs ← getInts j "xs"; let k ← getNat j "k"
    match b.inequalityAssertion true k xs with
    | .ok b1 => return builderJson b1 Json.null
    | .error e => return errJson e
  | "assert_gt" =>
    let xs ← getInts j "xs"; let k ← getNat j "k"
    match b.inequalityAssertion false k xs with
    | .ok b1 => return builderJson b1 Json.null
    | .error e => return errJson e
  | _ => throw s!"unknown card method {m}"

def parseRel (s : String) : Except String Rel :=
  match s with
  | "EQ" => .ok .eq | "LT" => .ok .lt | "GT" => .ok .gt
  | _ => .error s!"bad rel {s}"

def parseRequests (j : Json) (k : String) : Except String (List Request) := do
  let arr ← j.getObjValAs? (Array Json) k
  arr.toList.mapM fun r => do
    let rel ← parseRel (← getStr r "rel")
    return { rel := rel, k := (← getNat r "k"), vars := (← getInts r "vars") }

def parseCnf (j : Json) (k : String) : Except String (List Clause) := do
  let arr ← j.getObjValAs? (Array (Array Int)) k
  return arr.toList.map Array.toList

def handleCombine (j : Json) : Except String Json := do
  let fresh ← getNat j "fresh"
  let init ← parseCnf j "cnf"
  let reqs ← parseRequests j "reqs"
  match combineCnfWithRequests init fresh reqs with
  | .ok c => return Json.mkObj [("ok", jCnf c)]
  | .error e => return errJson e

partial def parseFormula (j : Json) : Except String Formula :=
  match j with
  | .num _ => do let i ← j.getInt?; return .lit i
  | .obj _ =>
    match j.getObjVal? "and" with
    | .ok (.arr a) => do return .and (← a.toList.mapM parseFormula)
    | _ =>
    match j.getObjVal? "or" with
    | .ok (.arr a) => do return .or (← a.toList.mapM parseFormula)
    | _ =>
    match j.getObjVal? "not" with
    | .ok f => do return .not (← parseFormula f)
    | _ =>
    match j.getObjVal? "if" with
    | .ok (.arr #[p, q]) => do return .imp (← parseFormula p) (← parseFormula q)
    | _ =>
    match j.getObjVal? "iff" with
    | .ok (.arr #[p, q]) => do return .iff (← parseFormula p) (← parseFormula q)
    | _ => .error "bad formula object"
  | _ => .error "bad formula"

partial def formulaJson : Formula → Json
  | .lit i => toJson i
  | .and l => Json.mkObj [("and", Json.arr (l.map formulaJson).toArray)]
  | .or l => Json.mkObj [("or", Json.arr (l.map formulaJson).toArray)]
  | .not f => Json.mkObj [("not", formulaJson f)]
  | .imp p q => Json.mkObj [("if", Json.arr #[formulaJson p, formulaJson q])]
  | .iff p q => Json.mkObj [("iff", Json.arr #[formulaJson p, formulaJson q])]

def handleLogic (j : Json) : Except String Json := do
  let m ← getStr j "m"
  match m with
  | "tseitin" =>
    let f ← parseFormula (← j.getObjVal? "f")
    let n ← getNat j "next"
    let r := toCnfTseitin f n
    return Json.mkObj [("ok", Json.mkObj [("formula", formulaJson r.toFormula), ("next", toJson r.next)])]
  | "naive" =>
    let f ← parseFormula (← j.getObjVal? "f")
    let n ← getNat j "next"
    return Json.mkObj [("ok", Json.mkObj [("formula", formulaJson (toCnfNaive f)), ("next", toJson n)])]
  | "switching" =>
    let f ← parseFormula (← j.getObjVal? "f")
    let n ← getNat j "next"
    match toCnfSwitching 4000 f n with
    | .ok (g, n') => return Json.mkObj [("ok", Json.mkObj [("formula", formulaJson g), ("next", toJson n')])]
    | .error e => return errJson e
  | "cnf_to_json" =>
    let fs ← (← j.getObjValAs? (Array Json) "fs").toList.mapM parseFormula
    match cnfToJson fs with
    | .ok c => return Json.mkObj [("ok", jCnf c)]
    | .error e => return errJson e
  | _ => throw s!"unknown logic method {m}"

def jNats (l : List Nat) : Json := Json.arr (l.map (fun (i : Nat) => toJson i)).toArray
def getNats (j : Json) (k : String) : Except String (List Nat) := do
  let a ← j.getObjValAs? (Array Nat) k
  return a.toList

def exceptJson {α} (f : α → Json) : Except PyErr α → Json
  | .ok a => Json.mkObj [("ok", f a)]
  | .error e => errJson e

def getAvail (j : Json) : Except String Comb.Avail :=
  match j.getObjVal? "counters" with
  | .ok (.arr _) => do return .counters (← getNats j "counters")
  | _ => do return .uniform (← getNat j "m")

def handleComb (j : Json) : Except String Json := do
  let m ← getStr j "m_"
  match m with
  | "extract_components" =>
    return exceptJson jNats (Comb.extractComponents (← getNats j "sizes") (← getNat j "n"))
  | "jth_combination" =>
    return exceptJson jNats (Comb.jthCombination (← getNat j "l") (← getNat j "n") (← getNat j "j"))
  | "n_choose_m" =>
    return Json.mkObj [("ok", toJson (Comb.nChooseM (← getNat j "n") (← getNat j "m")))]
  | "jth_combination_norepl" =>
    return Json.mkObj [("ok", jNats (Comb.jthCombinationNoRepl (← getNat j "n") (← getNat j "m") (← getNat j "j")))]
  | "jth_inversion" =>
    return exceptJson jNats (Comb.jthInversionSequence (← getNat j "n") (← getNat j "m") (← getNat j "j"))
  | "construct_permutation" =>
    return exceptJson jNats (Comb.constructPermutation (← getNats j "inv") (← getNat j "n"))
  | "jth_permutation_prefix" =>
    return exceptJson jNats (Comb.jthPermutationPrefix (← getNat j "n") (← getNat j "m") (← getNat j "j"))
  | "count_remaining" =>
    return Json.mkObj [("ok", toJson (Comb.countRemaining (← getNats j "counters")))]
  | "perm_with_copies" =>
    return exceptJson jNats (Comb.constructPermutationWithCopies (← getNat j "idx") (← getNat j "q") (← getNat j "m"))
  | "perm_with_varying_copies" =>
    return exceptJson jNats (Comb.constructPermutationWithVaryingCopies (← getNat j "idx") (← getNat j "q") (← getNats j "counters"))
  | "count_perms_with_copies" =>
    return Json.mkObj [("ok", toJson (Comb.countPermutationsWithCopies (← getNat j "q") (← getNat j "m") (← getNat j "first_n")))]
  | "count_prefixes" =>
    return Json.mkObj [("ok", toJson (Comb.countPrefixes (← getNat j "q") (← getAvail j) (← getNat j "first_n")))]
  | "jth_prefix" =>
    return exceptJson (fun (o : Option (List Nat)) => match o with | some p => jNats p | none => Json.null)
      (Comb.jthPrefix (← getNat j "q") (← getAvail j) (← getNat j "first_n") (← getNat j "j"))
  | _ => throw s!"unknown comb method {m}"

def parsedJson (p : Text.Parsed) : Json :=
  Json.mkObj [("clauses", jCnf p.clauses), ("sampling", jInts p.sampling), ("nvars", toJson p.nvars)]

def handleText (j : Json) : Except String Json := do
  let m ← getStr j "m"
  match m with
  | "dimacs" =>
    let vals ← parseCnf j "vals"; let nv ← getNat j "nv"
    let ls := Text.dimacsLines vals nv
    return Json.mkObj [("ok", Json.mkObj [("text", toJson (Text.render ls)),
      ("tok_ok", toJson (decide (Text.tokenize (Text.render ls) = ls)))])]
  | "unigen" =>
    let vals ← parseCnf j "vals"; let nv ← getNat j "nv"; let sup ← getNat j "support"
    let ls := Text.unigenLines vals nv (Text.rangeSupport sup)
    return Json.mkObj [("ok", Json.mkObj [("text", toJson (Text.render ls)),
      ("tok_ok", toJson (decide (Text.tokenize (Text.render ls) = ls))),
      ("distinct", toJson (Text.distinctVars vals).length)])]
  | "parse_cnf" =>
    return exceptJson parsedJson (Text.parseCnfFile (Text.tokenize (← getStr j "text")))
  | "parse_pycrypto" =>
    return exceptJson (fun (r : List Clause × Int) => Json.mkObj [("clauses", jCnf r.1), ("nvars", toJson r.2)])
      (Text.parsePycrypto (Text.tokenize (← getStr j "text")))
  | "parse_solve" =>
    return exceptJson jInts (Text.parseSolveOutput (Text.tokenize (← getStr j "text")))
  | "solve_output" =>
    return Json.mkObj [("ok", toJson (Text.render (Text.solveOutputLines (← getInts j "model"))))]
  | "build_solution" =>
    return exceptJson (fun (r : List Int × Int) => Json.arr #[jInts r.1, toJson r.2])
      (Text.buildSolution (Text.tokenizeLine (← getStr j "line")))
  | "update_file" =>
    let ls := Text.stripLines (Text.tokenize (← getStr j "text"))
    return exceptJson (fun (r : List Text.Line) => toJson (Text.render r)) (Text.updateFile ls (← getInts j "sol"))
  | "cmsgen_line" =>
    let sol ← j.getObjValAs? (Array Bool) "solution"
    return Json.mkObj [("ok", toJson (Text.renderLine (Text.cmsgenSampleLine sol.toList (← getNats j "sampling"))))]
  | "unigen_line" =>
    return Json.mkObj [("ok", toJson (Text.renderLine (Text.unigenSampleLine (← getInts j "sample"))))]
  | "opb" =>
    let vals ← parseCnf j "vals"; let reqs ← parseRequests j "reqs"
    return Json.mkObj [("ok", toJson (Text.opbText vals reqs))]
  | "opb_block" =>
    return Json.mkObj [("ok", toJson (Text.opbBlockText (← getInts j "sol")))]
  | "opb_eval" =>
    let vals ← parseCnf j "vals"; let reqs ← parseRequests j "reqs"
    let tru ← getNats j "true"
    let τ : Assign := fun v => tru.contains v
    return Json.mkObj [("ok", toJson ((Text.opbExport vals reqs).all (fun r => r.holds τ)))]
  | _ => throw s!"unknown text method {m}"

/-! design / spec -/

def getOptNat (j : Json) (k : String) : Except String (Option Nat) :=
  match j.getObjVal? k with
  | .ok Json.null => .ok none
  | .ok v => match v.getNat? with
    | .ok i => .ok (some i)
    | .error e => .error e
  | .error _ => .ok none

def parseLevel (j : Json) : Except String LevelD := do
  let tbl : Array Bool ← match j.getObjVal? "table" with
    | .ok (.arr a) => a.mapM (fun x => match x with
        | .bool b => Except.ok b
        | .num _ => (do let n ← x.getNat?; pure (n != 0))
        | _ => Except.error "bad table entry")
    | _ => pure #[]
  return { name := (← getStr j "name"), weight := (← getNat j "w"), table := tbl }

def parseWindow (j : Json) : Except String (Option WindowD) :=
  match j.getObjVal? "window" with
  | .ok Json.null => .ok none
  | .error _ => .ok none
  | .ok w => do
    return some { deps := (← getNats w "deps"), width := (← getNat w "width"), stride := (← getNat w "stride"),
                  start := (← getOptNat w "start"), kind := (← getStr w "kind") }

def parseFactor (j : Json) : Except String FactorD := do
  let ls ← (← j.getObjValAs? (Array Json) "levels").toList.mapM parseLevel
  return { id := (← getNat j "id"), name := (← getStr j "name"), levels := ls, window := (← parseWindow j) }

def parseConstraint (j : Json) : Except String ConstraintD := do
  let k ← getStr j "k"
  match k with
  | "Exclude" => return .exclude (← getNat j "f") (← getNat j "l")
  | "Pin" => return .pin (← getInt j "idx") (← getNat j "f") (← getNat j "l")
  | "MinimumTrials" => return .minTrials (← getNat j "n")
  | "AtMostKInARow" => return .atMost (← getNat j "n") (← getNat j "f") (← getOptNat j "l")
  | "AtLeastKInARow" => return .atLeast (← getNat j "n") (← getNat j "f") (← getOptNat j "l")
  | "ExactlyKInARow" => return .exactlyInARow (← getNat j "n") (← getNat j "f") (← getOptNat j "l")
  | "ExactlyK" => return .exactlyK (← getNat j "n") (← getNat j "f") (← getOptNat j "l")
  | "Sequential" => return .sequential (← getNat j "f")
  | _ => throw s!"unknown constraint {k}"

def parseConstraints (j : Json) : Except String (List ConstraintD) := do
  (← j.getObjValAs? (Array Json) "cs").toList.mapM parseConstraint

def parseMode (s : String) : Except String Mode :=
  match s with
  | "weight" => .ok .weight | "repeat" => .ok .repeat | "equal" => .ok .equal
  | _ => .error s!"bad mode {s}"

def parseAlign (s : String) : Except String Alignment :=
  match s with
  | "post preamble" => .ok .postPreamble | "parallel start" => .ok .parallelStart
  | "equal preamble" => .ok .equalPreamble
  | _ => .error s!"bad alignment {s}"

def parseOptAlign (j : Json) : Except String (Option Alignment) :=
  match j.getObjVal? "align" with
  | .ok (.str s) => do return some (← parseAlign s)
  | _ => .ok none

partial def parseBlock (j : Json) : Except String BlockExpr := do
  let k ← getStr j "k"
  match k with
  | "cross" => return .cross (← getNats j "design") (← getNats j "crossing") (← parseConstraints j) (← getBool j "rcc")
  | "multicross" =>
    let cr ← j.getObjValAs? (Array (Array Nat)) "crossings"
    return .multiCross (← getNats j "design") (cr.toList.map Array.toList) (← parseConstraints j) (← getBool j "rcc")
      (← parseMode (← getStr j "mode")) (← parseAlign (← getStr j "align"))
  | "repeat" => return .repeat (← parseBlock (← j.getObjVal? "b")) (← parseConstraints j)
  | "merge" =>
    let bs ← (← j.getObjValAs? (Array Json) "bs").toList.mapM parseBlock
    return .merge bs (← parseConstraints j) (← parseMode (← getStr j "mode")) (← parseOptAlign j)
  | "nest" =>
    return .nest (← parseBlock (← j.getObjVal? "outer")) (← parseBlock (← j.getObjVal? "inner"))
      (← parseConstraints j) (← parseOptAlign j)
  | _ => throw s!"unknown block kind {k}"

def parseDesign (j : Json) : Except String Design := do
  let fs ← (← j.getObjValAs? (Array Json) "factors").toList.mapM parseFactor
  return { factors := fs, block := (← parseBlock (← j.getObjVal? "block")) }

def parseSeq (j : Json) : Except String Seq := do
  let arr ← j.getArr?
  arr.toList.mapM fun p => do
    let pr ← p.getArr?
    match pr with
    | #[f, col] =>
      let fid ← f.getNat?
      let c ← col.getArr?
      let entries ← c.toList.mapM fun e => match e with
        | Json.null => Except.ok (none : Option Nat)
        | _ => do let n ← e.getNat?; pure (some n)
      return (fid, entries)
    | _ => throw "bad seq column"

def seqJson (s : Seq) : Json :=
  Json.arr (s.map (fun p => Json.arr #[toJson p.1,
    Json.arr (p.2.map (fun e => match e with | none => Json.null | some n => toJson n)).toArray])).toArray

def geoJson (g : Spec.Geo) : Json :=
  Json.mkObj [("n", toJson g.n), ("preambles", jNats g.preambles), ("sizes", jNats g.sizes),
    ("weights", jNats (g.crossings.map (·.weight))), ("sustains", jNats (g.crossings.map (·.sustain))),
    ("crossings", Json.arr (g.crossings.map (fun i => jNats i.factors)).toArray),
    ("design", jNats g.design),
    ("error", match g.error with | some e => toJson e | none => Json.null)]

/-- names of the components of `Spec.valid` that fail (empty = valid) -/
def explain (d : Design) (g : Spec.Geo) (s : Seq) : List String :=
  let excl := Spec.excludedLevels g.constraints
  (if g.error.isSome then ["design-error"] else []) ++
  (if Spec.shapeOk d g s then [] else ["shape"]) ++
  (if Spec.derivedOk d g s then [] else ["derived"]) ++
  (if Spec.sustainOk g s then [] else ["sustain"]) ++
  (if Spec.excludeOk g s excl then [] else ["exclude"]) ++
  ((List.range g.crossings.length).filterMap (fun i =>
    match g.crossings[i]?, g.preambles[i]?, g.sizes[i]? with
    | some c, some p, some z => if Spec.crossingOk d g s excl c p z then none else some s!"crossing{i}"
    | _, _, _ => some s!"crossing{i}?")) ++
  ((List.range g.constraints.length).filterMap (fun i =>
    match g.constraints[i]? with
    | some sc =>
      let ok := match sc.c with
        | .sequential f => Spec.sequentialOk d g s f
        | _ => (Spec.windowsOf g sc).all (fun w => Spec.holdsOn d g s sc w.1 w.2)
      if ok then none else some s!"constraint{i}"
    | none => none))

def handleSpec (j : Json) : Except String Json := do
  let m ← getStr j "m"
  let d ← parseDesign (← j.getObjVal? "design")
  let g := Spec.geo d d.block
  match m with
  | "geo" => return Json.mkObj [("ok", geoJson g)]
  | "valid" =>
    let seqs ← (← j.getObjValAs? (Array Json) "seqs").toList.mapM parseSeq
    return Json.mkObj [("ok", Json.arr (seqs.map (fun s => toJson (explain d g s))).toArray)]
  | "valid_seqs" =>
    let cap ← getNat j "cap"
    match Spec.validSeqs d cap with
    | some l => return Json.mkObj [("ok", Json.arr (l.map seqJson).toArray)]
    | none => return Json.mkObj [("ok", Json.null)]
  | _ => throw s!"unknown spec method {m}"

def parseExp (j : Json) : Except String Api.Exp := do
  let arr ← j.getArr?
  arr.toList.mapM fun p => do
    match (← p.getArr?) with
    | #[k, col] => return ((← k.getStr?), (← col.getArr?).toList.map (fun x => match x with | .str s => s | _ => x.compress))
    | _ => throw "bad exp entry"

def jStrs (l : List String) : Json := Json.arr (l.map (fun (s : String) => toJson s)).toArray

def handleApi (j : Json) : Except String Json := do
  let m ← getStr j "m"
  match m with
  | "tuples" =>
    let exps ← (← j.getObjValAs? (Array Json) "exps").toList.mapM parseExp
    let keys ← j.getObjValAs? (Array String) "keys"
    return exceptJson (fun (r : List (List (List String))) =>
      Json.arr (r.map (fun ex => Json.arr (ex.map jStrs).toArray)).toArray) (Api.toTuples exps keys.toList)
  | "dicts" =>
    let exps ← (← j.getObjValAs? (Array Json) "exps").toList.mapM parseExp
    let keys ← j.getObjValAs? (Array String) "keys"
    return exceptJson (fun (r : List (List (List (String × String)))) =>
      Json.arr (r.map (fun ex => Json.arr (ex.map (fun d =>
        Json.arr (d.map (fun kv => Json.arr #[toJson kv.1, toJson kv.2])).toArray)).toArray)).toArray)
      (Api.toDicts exps keys.toList)
  | "csv" =>
    let e ← parseExp (← j.getObjVal? "exp")
    let cols ← j.getObjValAs? (Array String) "cols"
    return exceptJson (fun (r : List (List String)) => Json.arr (r.map jStrs).toArray) (Api.csvRows e cols.toList)
  | "tabulate" =>
    let e ← parseExp (← j.getObjVal? "exp")
    let fs ← (← j.getObjValAs? (Array Json) "factors").toList.mapM (fun f => do
      match (← f.getArr?) with
      | #[n, ls] => return ((← n.getStr?), (← ls.getArr?).toList.map (fun x => match x with | .str s => s | _ => x.compress))
      | _ => throw "bad factor")
    let trials ← getNats j "trials"
    return exceptJson (fun (r : List (List String × Nat)) =>
      Json.arr (r.map (fun p => Json.arr #[jStrs p.1, toJson p.2])).toArray) (Api.tabulate fs trials e)
  | _ => throw s!"unknown api method {m}"

def parseLFactor (j : Json) : Except String Layout.LFactor := do
  return { nlevels := (← getNat j "nlevels"), complex := (← getBool j "complex"), start := (← getNat j "start"),
           stride := (← getNat j "stride"), sustain := (← getNat j "sustain") }

def jOptPair : Option (Nat × Nat) → Json
  | some p => Json.arr #[toJson p.1, toJson p.2]
  | none => Json.null

def handleLayout (j : Json) : Except String Json := do
  let fs ← (← j.getObjValAs? (Array Json) "factors").toList.mapM parseLFactor
  let b : Layout.LBlock := { factors := fs, trials := (← getNat j "trials") }
  -- everything the harness compares, in one answer
  let enc := (List.range fs.length).map (fun i =>
    let f := fs.getD i default
    (List.range b.trials).filterMap (fun t0 =>
      if Layout.appliesTrial f (t0 + 1) then
        some (Json.arr #[toJson (t0 + 1), jNats ((List.range f.nlevels).map (fun l => Layout.encodeVar b i l (t0 + 1)))])
      else none))
  let vps := Layout.variablesPerSample b
  return Json.mkObj [("ok", Json.mkObj [
    ("vpt", toJson (Layout.variablesPerTrial b)), ("grid", toJson (Layout.gridVariables b)), ("vps", toJson vps),
    ("first", Json.arr ((List.range fs.length).map (fun i => jNats ((List.range (fs.getD i default).nlevels).map (fun l => Layout.firstVariableForLevel b i l)))).toArray),
    ("encode", Json.arr (enc.map (fun l => Json.arr l.toArray)).toArray),
    ("decode", Json.arr ((List.range vps).map (fun v => jOptPair (Layout.decodeVariable b (v + 1)))).toArray)])]

def requestJson (r : Request) : Json :=
  Json.mkObj [("rel", toJson (match r.rel with | .eq => "EQ" | .lt => "LT" | .gt => "GT")), ("k", toJson r.k), ("vars", jInts r.vars)]

def handleCompile (j : Json) : Except String Json := do
  let m ← getStr j "m"
  let k ← getNat j "k"
  let vars ← getInts j "vars"
  match m with
  | "atmost" => return Json.mkObj [("ok", Json.arr ((Compile.atMostRequests k vars).map requestJson).toArray)]
  | "exactlyk" =>
    match Compile.exactlyK k vars with
    | .request r => return Json.mkObj [("ok", requestJson r)]
    | .contradiction => return Json.mkObj [("ok", toJson "contradiction")]
  | "atleast" => return Json.mkObj [("ok", Json.arr ((Compile.atLeastFormulas k vars).map formulaJson).toArray)]
  | "exactlyinarow" => return Json.mkObj [("ok", Json.arr ((Compile.exactlyInARowFormulas k vars).map formulaJson).toArray)]
  | _ => throw s!"unknown compile method {m}"

def handleConform (j : Json) : Except String Json := do
  let m ← getStr j "m"
  match m with
  | "conforms" =>
    let kind ← match (← getStr j "kind") with
      | "atmost" => pure Conform.Kind.atMost | "atleast" => pure Conform.Kind.atLeast
      | "exactlyinarow" => pure Conform.Kind.exactlyInARow | "exactlyk" => pure Conform.Kind.exactlyK
      | k => throw s!"bad kind {k}"
    let xs ← j.getObjValAs? (Array Bool) "xs"
    return Json.mkObj [("ok", toJson (Conform.conformsRange kind (← getNat j "k") xs.toList))]
  | "after_blocks" =>
    let gs ← j.getObjValAs? (Array (Array Nat)) "gs"
    let l := gs.toList.map (fun a => (a.getD 0 0, a.getD 1 0))
    return Json.mkObj [("ok", match Conform.afterBlocks l with | some g => jNats [g.1, g.2] | none => Json.null)]
  | "smgen_refuses" =>
    let kinds ← j.getObjValAs? (Array String) "kinds"
    let windows ← j.getObjValAs? (Array String) "windows"
    return Json.mkObj [("ok", toJson (Conform.smgenRefuses (← getNat j "n") kinds.toList windows.toList))]
  | _ => throw s!"unknown conform method {m}"

def getWithin (j : Json) : Except String (Option (Nat × Nat)) :=
  match j.getObjVal? "within" with
  | .ok (.arr a) => do
    let len ← (a.getD 0 Json.null).getNat?
    let pre ← (a.getD 1 Json.null).getNat?
    return some (len, pre)
  | _ => .ok none

def parseDep (j : Json) : Except String Pipeline.Dep :=
  match j with
  | .obj _ => do return .before (← getNat j "before")
  | _ => do return .var (← j.getNat?)

def parsePConstraint (j : Json) : Except String Pipeline.PConstraint := do
  let c ← getStr j "c"
  match c with
  | "cross" => return .cross
  | "consistency" => return .consistency
  | "sustain" => return .sustain
  | "noop" => return .noop
  | "exclude" => return .exclude (← getNat j "f") (← getNat j "l")
  | "pin" => return .pin (← getInt j "idx") (← getNat j "f") (← getNat j "l") (← getWithin j) (← getNat j "sustain")
  | "atmost" => return .atMost (← getNat j "k") (← getNat j "f") (← getNat j "l") (← getWithin j)
  | "atleast" => return .atLeast (← getNat j "k") (← getNat j "f") (← getNat j "l") (← getWithin j)
  | "exactlyinarow" => return .exactlyInARow (← getNat j "k") (← getNat j "f") (← getNat j "l") (← getWithin j)
  | "exactlyk" => return .exactlyK (← getNat j "k") (← getNat j "f") (← getNat j "l") (← getWithin j)
  | "sequential" => return .sequential (← getNat j "f") (← getNat j "preamble")
  | "derivation" =>
    let deps ← (← j.getObjValAs? (Array (Array Json)) "deps").toList.mapM (fun a => a.toList.mapM parseDep)
    return .derivation (← getNat j "idx") deps (← getNat j "f") (← getInt j "start_delta")
  | _ => throw s!"bad constraint {c}"

def parsePCrossing (j : Json) : Except String Pipeline.PCrossing := do
  let combos ← j.getObjValAs? (Array (Array Nat)) "combos"
  return { factors := (← getNats j "factors"), combos := combos.toList.map (·.toList), weights := (← getNats j "weights"),
           size := (← getNat j "size"), preamble := (← getNat j "preamble"), weight := (← getNat j "weight") }

def parsePInput (j : Json) : Except String Pipeline.PInput := do
  let fs ← (← j.getObjValAs? (Array Json) "factors").toList.mapM parseLFactor
  let cs ← (← j.getObjValAs? (Array Json) "crossings").toList.mapM parsePCrossing
  let ks ← (← j.getObjValAs? (Array Json) "constraints").toList.mapM parsePConstraint
  return { layout := { factors := fs, trials := (← getNat j "trials") }, crossings := cs, constraints := ks,
           postPreamble := (← getBool j "post_preamble"), commonPreamble := (← getNat j "common_preamble") }

def parseDFactor (j : Json) : Except String Derive.DFactor := do
  let tabs ← j.getObjValAs? (Array (Array Bool)) "tables"
  return { fi := (← getNat j "fi"), deps := (← getNats j "deps"), width := (← getNat j "width"),
           startDelta := (← getInt j "start_delta"), tables := tabs.toList }

def jDep : Pipeline.Dep → Json
  | .var x => toJson x
  | .before r => Json.mkObj [("before", toJson r)]

/-- `DerivationProcessor.generate_derivations`: the Derivation constraints, plus the `block.errors` counts -/
def handleDerive (j : Json) : Except String Json := do
  let fs ← (← j.getObjValAs? (Array Json) "factors").toList.mapM parseLFactor
  let b : Layout.LBlock := { factors := fs, trials := (← getNat j "trials") }
  let ds ← (← j.getObjValAs? (Array Json) "derived").toList.mapM parseDFactor
  match Derive.generate b ds with
  | .error e => return errJson e
  | .ok cs =>
    let out := cs.filterMap (fun c => match c with
      | .derivation idx deps f sd => some (Json.mkObj [("idx", toJson idx), ("f", toJson f), ("start_delta", toJson sd),
          ("deps", Json.arr (deps.map (fun l => Json.arr (l.map jDep).toArray)).toArray)])
      | _ => none)
    return Json.mkObj [("ok", Json.mkObj [("derivations", Json.arr out.toArray),
      ("unmatched", Json.arr (ds.map (fun d => jNats (Derive.unmatchedLevels b d))).toArray),
      ("uncovered", jNats (ds.map (Derive.uncovered b)))])]

def handlePipeline (j : Json) : Except String Json := do
  let p ← parsePInput j
  let b := Pipeline.buildBackend p
  match Pipeline.buildCnf p with
  | .ok c => return Json.mkObj [("ok", Json.mkObj [("cnf", jCnf c), ("fresh", toJson b.fresh),
      ("wf", toJson (Pipeline.checkWf p).1), ("states_defined", toJson (Pipeline.checkWf p).2.1),
      ("input_ok", toJson ((Pipeline.checkWf p).2.2 && Pipeline.seqOk p && Pipeline.crossOk p)),
      ("reqs", Json.arr (b.reqs.map requestJson).toArray), ("cnfs", jCnf (Pipeline.cnfsJson b))])]
  | .error e => return errJson e

def parseEnumData (j : Json) : Except String RandomGen.EnumData := do
  let valid ← j.getObjValAs? (Array (Array Nat)) "valid"
  return { q := (← getNat j "q"), avail := (← getAvail j), simplePerm := (← getBool j "simple_perm"),
           unweighted := (← getBool j "unweighted"), valid := valid.toList.map (·.toList),
           indLevels := (← getNats j "ind_levels") }

def handleRandomGen (j : Json) : Except String Json := do
  let d ← parseEnumData j
  let m ← getStr j "method"
  match m with
  | "trial_values" =>
    let c : RandomGen.Components := { perm := (← getNat j "perm"), src := (← getNats j "src"), ind := (← getNats j "ind") }
    return exceptJson (fun (tv : List RandomGen.TrialValue) =>
      Json.arr (tv.map (fun v => Json.arr #[toJson v.inst, toJson v.source, jNats v.ind])).toArray)
      (RandomGen.generateTrialValues d c (← getNat j "trial_count"))
  | "count" =>
    let n ← getNat j "first_n"
    return exceptJson (fun (c : Nat) => Json.mkObj [("count", toJson c), ("wf", toJson (d.wf n && d.plainOnce)), ("crossings_shape", toJson (RandomGen.crossingsShape d n)),
      ("combinations_shapes", jNats (RandomGen.shapes d)), ("independent_shapes", jNats (RandomGen.independentShapes d n))])
      (RandomGen.countSolutions d n)
  | _ => throw s!"unknown randomgen method {m}"

def handleDecode (j : Json) : Except String Json := do
  let fs ← (← j.getObjValAs? (Array Json) "factors").toList.mapM parseLFactor
  let b : Layout.LBlock := { factors := fs, trials := (← getNat j "trials") }
  let sol ← getInts j "solution"
  return exceptJson (fun (r : List (Option (List (Option Nat)))) =>
    Json.arr (r.map (fun o => match o with
      | none => Json.null
      | some l => Json.arr (l.map (fun x => match x with | some v => toJson v | none => Json.null)).toArray)).toArray)
    (Decode.decode b sol)

def handleImplied (j : Json) : Except String Json := do
  let d ← parseDesign (← j.getObjVal? "design")
  let sq ← parseSeq (← j.getObjVal? "cols")
  let lf ← parseLFactor (← j.getObjVal? "lfactor")
  let col := Implied.column d (← getNat j "id") (← getNat j "n") lf (fun dep u => sq.at dep u)
  return Json.mkObj [("ok", Json.arr (col.map (fun x => match x with | some v => toJson v | none => Json.null)).toArray)]

def handleFill (j : Json) : Except String Json := do
  let d ← parseDesign (← j.getObjVal? "design")
  let sq ← parseSeq (← j.getObjVal? "cols")
  let lf ← parseLFactor (← j.getObjVal? "lfactor")
  match Fill.fillColumn d (← getNat j "id") lf (fun dep u => sq.at dep u) (← getNat j "start") (← getNat j "stop") with
  | .ok col => return Json.mkObj [("ok", Json.arr (col.map (fun x => match x with | some v => toJson v | none => Json.null)).toArray)]
  | .error e => return errJson e

def handle (j : Json) : Except String Json := do
  let op ← getStr j "op"
  match op with
  | "card" => handleCard j
  | "combine" => handleCombine j
  | "logic" => handleLogic j
  | "comb" => handleComb j
  | "text" => handleText j
  | "spec" => handleSpec j
  | "api" => handleApi j
  | "layout" => handleLayout j
  | "compile" => handleCompile j
  | "conform" => handleConform j
  | "pipeline" => handlePipeline j
  | "derive" => handleDerive j
  | "fill" => handleFill j
  | "randomgen" => handleRandomGen j
  | "decode" => handleDecode j
  | "implied" => handleImplied j
  | _ => throw s!"unknown op {op}"

partial def loop (h : IO.FS.Stream) (out : IO.FS.Stream) : IO Unit := do
  let line ← h.getLine
  if line.isEmpty then return ()
  let ans := match Json.parse line with
    | .ok j => match handle j with
      | .ok r => r
      | .error e => Json.mkObj [("bad", toJson e)]
    | .error e => Json.mkObj [("bad", toJson s!"json: {e}")]
  out.putStrLn ans.compress
  out.flush
  loop h out

def main : IO Unit := do
  loop (← IO.getStdin) (← IO.getStdout)
