/-
  L8 — the reference semantics: which trial sequences are valid for a design,
  written from the documentation (docs/_source/api/*.rst), not from the code.
  `Spec.valid d s` is executable; it is the right-hand side of the design-level
  theorems and the oracle the harness uses to judge what the samplers return.

  It reads only the expression the user wrote (`Design`): factors with
  weights, windows and truth tables; the block expression tree; constraints.
  Geometry (trial count, preambles, chunk lengths, repetition windows) is
  computed here by the documented rules (`geo`).
-/
import SPModel.Design

namespace SPModel.Spec

/-! ## Factors -/

def isDerived (f : FactorD) : Bool := f.window.isSome

/-- First trial (0-based) at which the factor has a level.  Automatic start:
    the earliest trial where every dependency has a level for the trial and
    the preceding `width-1` trials. -/
def startOf (d : Design) : Nat → Nat → Nat
  | 0, _ => 0
  | fuel + 1, id =>
    match (d.factor id).window with
    | none => 0
    | some w =>
      match w.start with
      | some s => s
      | none => (w.deps.map (startOf d fuel)).foldl max 0 + (w.width - 1)

def start (d : Design) (id : Nat) : Nat := startOf d (d.factors.length + 1) id

def stride (d : Design) (id : Nat) : Nat :=
  match (d.factor id).window with
  | none => 1
  | some w => w.stride

/-- Does factor `id` have a level at trial `t` (0-based)? -/
def applies (d : Design) (id t : Nat) : Bool :=
  match (d.factor id).window with
  | none => true
  | some w => decide (start d id ≤ t) && (t - start d id) % w.stride == 0

/-- "complex window": the level is not a function of the same trial alone -/
def isComplex (d : Design) (id : Nat) : Bool :=
  match (d.factor id).window with
  | none => false
  | some w => decide (w.width > 1) || decide (w.stride > 1) || decide (start d id > 0)

def numLevels (d : Design) (id : Nat) : Nat := (d.factor id).levels.length

/-- Index into a level's truth table for the window ending at trial `t`:
    per dependency (in order), per offset `1-width … 0`, digit 0 for "no
    level" (before trial 0, or the dependency has none there), `i+1` for
    level `i`; base `levels+1`; most significant digit first. -/
def windowKey (d : Design) (w : WindowD) (look : Nat → Nat → Option Nat) (t : Nat) : Nat :=
  w.deps.foldl (fun acc dep =>
    (List.range w.width).foldl (fun acc j =>
      let back := w.width - 1 - j
      let v : Option Nat := if back ≤ t then look dep (t - back) else none
      acc * (numLevels d dep + 1) + (match v with | none => 0 | some i => i + 1)) acc) 0

/-- The levels of derived factor `f` whose predicate accepts the window at `t`. -/
def matching (d : Design) (f : FactorD) (w : WindowD) (look : Nat → Nat → Option Nat) (t : Nat) : List Nat :=
  let key := windowKey d w look t
  (List.range f.levels.length).filter (fun i => ((f.levels[i]?).map (fun l => l.table.getD key false)).getD false)

/-- trial from which a factor can be read: its start for a derived factor with a complex window, else 0 -/
def readyAt (d : Design) (dep : Nat) : Nat := if isComplex d dep then start d dep else 0

/-- Can some window the factor ever sees make level `l`'s predicate true?  A window position may be empty only when
    the dependency is not yet readable there at the factor's first trial (`get_dependent_cross_product`). -/
def levelPossible (d : Design) (id l : Nat) : Bool :=
  let f := d.factor id
  match f.window with
  | none => true
  | some w =>
    let opts : List (List Nat × Nat) := w.deps.flatMap (fun dep =>
      (List.range w.width).map (fun i =>
        let lv := (List.range (numLevels d dep)).map (· + 1)
        ((if readyAt d dep + w.width > start d id + i + 1 then 0 :: lv else lv), numLevels d dep + 1)))
    let keys := opts.foldl (fun (acc : List Nat) o => acc.flatMap (fun k => o.1.map (fun dg => k * o.2 + dg))) [0]
    keys.any (fun k => ((f.levels[l]?).map (fun lv => lv.table.getD k false)).getD false)

/-! ## Geometry by the documented rules -/

structure CrossInst where
  factors : List Nat
  sustain : Nat
  weight : Nat
  deriving Repr, Inhabited

/-- A constraint with the repetition windows it applies to: `none` = the whole
    sequence; `some (len, pre)` = every window `[j*(len-pre), j*(len-pre)+len)`. -/
structure Scoped where
  c : ConstraintD
  scope : Option (Nat × Nat)
  /-- Nest: one trial of the block the constraint was given to spans this many trials -/
  sustain : Nat
  deriving Repr, Inhabited

structure Geo where
  design : List Nat
  crossings : List CrossInst
  constraints : List Scoped
  n : Nat
  preambles : List Nat           -- per crossing, in trials
  sizes : List Nat               -- per crossing: Σ weights of feasible combinations × sustain
  align : Alignment
  rcc : Bool
  error : Option String
  deriving Repr, Inhabited

def insertId (x : Nat) : List Nat → List Nat
  | [] => [x]
  | y :: ys => if x ≤ y then x :: y :: ys else y :: insertId x ys

/-- ascending order of factor ids (a derived factor's dependencies have smaller ids) -/
def sortIds : List Nat → List Nat
  | [] => []
  | x :: xs => insertId x (sortIds xs)

def product {α} : List (List α) → List (List α)
  | [] => [[]]
  | l :: ls => l.flatMap (fun x => (product ls).map (fun t => x :: t))

def excludedLevels (cs : List Scoped) : List (Nat × Nat) :=
  cs.filterMap (fun s => match s.c with | .exclude f l => some (f, l) | _ => none)

/-- All assignments of the design's non-complex factors that are consistent
    with the within-trial derivations and use no excluded level. -/
def trialWorlds (d : Design) (design : List Nat) (excl : List (Nat × Nat)) : List (List (Nat × Nat)) :=
  let simple := design.filter (fun id => !(isDerived (d.factor id)))
  let derivedNC := sortIds (design.filter (fun id => isDerived (d.factor id) && !(isComplex d id)))
  let base := product (simple.map (fun id => (List.range (numLevels d id)).map (fun l => (id, l))))
  base.filterMap (fun asg =>
    -- derive non-complex derived factors in id order (dependencies have smaller ids)
    let full := derivedNC.foldl (fun (acc : Option (List (Nat × Nat))) id =>
      match acc with
      | none => none
      | some a =>
        let f := d.factor id
        match f.window with
        | none => some a
        | some w =>
          let look : Nat → Nat → Option Nat := fun dep _ => (a.find? (·.1 == dep)).map (·.2)
          match matching d f w look 0 with
          | [l] => some (a ++ [(id, l)])
          | _ => none) (some asg)
    match full with
    | none => none
    | some a => if a.any (fun p => excl.contains p) then none else some a)

/-- Feasible combinations of a crossing (levels in crossing order) with their weights. -/
def feasibleCombos (d : Design) (design crossing : List Nat) (excl : List (Nat × Nat)) :
    List (List Nat × Nat) :=
  let worlds := trialWorlds d design excl
  let all := product (crossing.map (fun id => List.range (numLevels d id)))
  let ok := all.filter (fun combo =>
    let pairs := crossing.zip combo
    -- complex factors: level free unless excluded; others: some world realises the projection
    pairs.all (fun p => !(isComplex d p.1) || !(excl.contains p)) &&
    worlds.any (fun w => pairs.all (fun p => isComplex d p.1 || w.contains p)))
  ok.map (fun combo =>
    (combo, (crossing.zip combo).foldl (fun acc p => acc * (((d.factor p.1).levels[p.2]?).map (·.weight)).getD 1) 1))

def allCombosCount (d : Design) (crossing : List Nat) : Nat :=
  (crossing.map (numLevels d)).foldl (· * ·) 1

def ceilDiv (a b : Nat) : Nat := if b = 0 then 0 else (a + b - 1) / b

/-- The documented arithmetic shared by every block constructor. -/
def create (d : Design) (design : List Nat) (insts : List CrossInst) (old : List Scoped)
    (new : List ConstraintD) (rcc : Bool) (mode : Mode) (align : Alignment) : Geo :=
  let insts := insts.filter (fun i => !i.factors.isEmpty)
  let newScoped0 : List Scoped := new.map (fun c => { c := c, scope := none, sustain := 1 })
  let allCs := old ++ newScoped0
  let excl := excludedLevels allCs
  let combos := insts.map (fun i => feasibleCombos d design i.factors excl)
  let incomplete := (insts.zip combos).any (fun p => p.2.length ≠ allCombosCount d p.1.factors)
  let sizes := (insts.zip combos).map (fun p => (p.2.foldl (fun a c => a + c.2) 0) * p.1.sustain)
  -- preamble of a crossing: latest start among its (complex) derived factors, times the sustain count
  let pres := insts.map (fun i => (i.factors.map (fun f => start d f)).foldl max 0 * i.sustain)
  let minT := allCs.foldl (fun m s => match s.c with | .minTrials k => max m (k * s.sustain) | _ => m) 0
  -- MinimumTrials is rounded up to a multiple of every sustain count
  let minT := insts.foldl (fun m i => if i.sustain = 0 then m else ceilDiv m i.sustain * i.sustain) minT
  let maxPre := pres.foldl max 0
  let required :=
    match align with
    | .postPreamble =>
      let maxSize := sizes.foldl max 0
      (insts.map (fun i => (i.factors.map (fun f => start d f)).foldl max 0 * i.sustain + maxSize)).foldl max 0
    | _ => ((pres.zip sizes).map (fun p => p.1 + p.2)).foldl max 0
  let n := max (max minT required) 1
  let starts := match align with
    | .postPreamble => insts.map (fun _ => maxPre)
    | _ => pres
  let weights := (insts.zip (starts.zip sizes)).map (fun p =>
    if mode == .repeat then p.1.weight else ceilDiv (n - p.2.1) p.2.2)
  let equalBad := mode == .equal && (insts.zip weights).any (fun p => p.1.weight ≠ p.2)
  let preBad := align == .equalPreamble && pres.any (fun p => p ≠ pres.headD 0)
  let zeroSize := sizes.any (· == 0)
  -- a crossed derived level that no window can ever produce makes a complete crossing impossible
  let impossible := insts.any (fun i => i.factors.any (fun f =>
    isComplex d f && (List.range (numLevels d f)).any (fun l => !(levelPossible d f l))))
  let common := match align with
    | .postPreamble => maxPre
    | _ => pres.headD 0
  let newScoped : List Scoped := new.map (fun c => { c := c, scope := some (n, common), sustain := 1 })
  { design := design
    crossings := (insts.zip weights).map (fun p => { p.1 with weight := p.2 })
    constraints := old ++ newScoped
    n := n
    preambles := starts
    sizes := sizes
    align := align
    rcc := rcc
    error :=
      if equalBad then some "RepeatMode.EQUAL with different crossing sizes"
      else if preBad then some "EQUAL_PREAMBLE with different preamble sizes"
      else if zeroSize then some "a crossing has no feasible combination"
      else if rcc && (incomplete || impossible) then some "complete crossing unsatisfiable"
      else none }

def unionIds (a b : List Nat) : List Nat := a ++ b.filter (fun x => !a.contains x)

mutual
/-- Geometry of a block expression by the documented rules. -/
def geo (d : Design) : BlockExpr → Geo
  | .cross design crossing cs rcc =>
    create d design [{ factors := crossing, sustain := 1, weight := 1 }] [] cs rcc .weight .equalPreamble
  | .multiCross design crossings cs rcc mode align =>
    -- documented as Merge of one CrossBlock(design, crossing, [], rcc) per crossing
    let subs := crossings.map (fun c => create d design [{ factors := c, sustain := 1, weight := 1 }] [] [] rcc .weight .equalPreamble)
    let insts := subs.flatMap (·.crossings)
    let g := create d design insts [] cs rcc mode align
    { g with error := (subs.findSome? (·.error)).orElse (fun _ => g.error) }
  | .repeat b cs =>
    let g := geo d b
    let r := create d g.design g.crossings g.constraints cs g.rcc .repeat .equalPreamble
    { r with error := g.error.orElse (fun _ => r.error) }
  | .merge bs cs mode align =>
    let gs := geoList d bs
    let design := gs.foldl (fun acc g => unionIds acc g.design) []
    let al := match align with
      | some a => a
      | none => (gs.head?.map (·.align)).getD .equalPreamble
    let r := create d design (gs.flatMap (·.crossings)) (gs.flatMap (·.constraints)) cs
      (gs.all (·.rcc)) mode al
    let alBad := gs.any (fun g => g.align ≠ al)
    { r with error := (gs.findSome? (·.error)).orElse (fun _ =>
        if alBad then some "blocks have different alignments" else r.error) }
  | .nest outer inner cs align =>
    let go := geo d outer
    let gi := geo d inner
    let innerLen := gi.n - gi.preambles.headD 0
    let al := match align with
      | some a => a
      | none => go.align
    let al := if al ≠ gi.align && al == .equalPreamble && go.crossings.length == 1 then gi.align else al
    let outerInsts := go.crossings.map (fun i => { i with sustain := i.sustain * innerLen })
    let outerCs := go.constraints.map (fun s =>
      { s with scope := s.scope.map (fun p => (p.1 * innerLen, p.2 * innerLen)), sustain := s.sustain * innerLen })
    let r := create d (unionIds go.design gi.design) (outerInsts ++ gi.crossings) (outerCs ++ gi.constraints) cs
      (go.rcc && gi.rcc) .repeat al
    { r with error := go.error.orElse (fun _ => gi.error.orElse (fun _ => r.error)) }
def geoList (d : Design) : List BlockExpr → List Geo
  | [] => []
  | b :: bs => geo d b :: geoList d bs
end

/-! ## Validity -/

def windowsOf (g : Geo) (s : Scoped) : List (Nat × Nat) :=
  match s.scope with
  | none => [(0, g.n)]
  | some (len, pre) =>
    let step := len - pre
    if step = 0 then [(0, g.n)] else
    let off := match g.align with
      | .postPreamble => (g.preambles.headD 0) - pre
      | _ => 0
    (List.range (g.n + 1)).filterMap (fun j =>
      let a := off + j * step
      if a < g.n - pre then some (a, a + len) else none)

/-- maximal runs of `l` in `xs` -/
def runs (l : Nat) (xs : List (Option Nat)) : List Nat :=
  let (acc, cur) := xs.foldl (fun (p : List Nat × Nat) x =>
    if x == some l then (p.1, p.2 + 1) else (if p.2 > 0 then p.1 ++ [p.2] else p.1, 0)) ([], 0)
  if cur > 0 then acc ++ [cur] else acc

def slice (xs : List (Option Nat)) (a b : Nat) : List (Option Nat) := (xs.take b).drop a

def levelsOfArg (d : Design) (f : Nat) (l : Option Nat) : List Nat :=
  match l with
  | some i => [i]
  | none => List.range (numLevels d f)

def sustainOf (g : Geo) (f : Nat) : Nat :=
  ((g.crossings.find? (fun i => i.factors.contains f)).map (·.sustain)).getD 1

/-- A constraint on one of its windows `[a, b)`. -/
def holdsOn (d : Design) (g : Geo) (s : Seq) (sc : Scoped) (a b : Nat) : Bool :=
  let col := fun f => slice (s.col f) a (min b g.n)
  match sc.c with
  | .exclude _ _ => true           -- global, checked separately
  | .minTrials _ => true           -- part of the trial count
  | .pin idx f l =>
    let c := sustainOf g f
    let t : Int := if idx < 0 then (b : Int) + (c : Int) * idx else (a : Int) + (c : Int) * idx
    if t < (a : Int) || t ≥ (b : Int) then false
    else (List.range c).all (fun i => s.at f (t.toNat + i) == some l)
  | .atMost k f l => (levelsOfArg d f l).all (fun l => (runs l (col f)).all (· ≤ k))
  | .atLeast k f l => (levelsOfArg d f l).all (fun l => (runs l (col f)).all (· ≥ k))
  | .exactlyInARow k f l => (levelsOfArg d f l).all (fun l => (runs l (col f)).all (· == k))
  | .exactlyK k f l => (levelsOfArg d f l).all (fun l => ((col f).filter (· == some l)).length == k * sc.sustain)
  | .sequential _ => true          -- global, checked separately

/-- The cycle a `Sequential` factor runs through: its levels in order, a level of weight `w` standing
    `w` times in a row (a weighted level is `w` copies of the level). -/
def sequentialCycle (d : Design) (f : Nat) : List Nat :=
  (((d.factor f).levels.map (·.weight)).zipIdx).flatMap (fun p => List.replicate p.1 p.2)

/-- Sequential: levels in order from the start of the factor's crossing. -/
def sequentialOk (d : Design) (g : Geo) (s : Seq) (f : Nat) : Bool :=
  let c := sustainOf g f
  let pre := (((g.crossings.zip g.preambles).find? (fun p => p.1.factors.contains f)).map (·.2)).getD 0
  let cyc := sequentialCycle d f
  let L := cyc.length
  (List.range g.n).all (fun t => t < pre || L == 0 || c == 0 || s.at f t == cyc[((t - pre) / c) % L]?)

/-- One crossing: every full chunk has each feasible combination exactly
    `weight × crossing weight × sustain` times, a trailing partial chunk at most. -/
def crossingOk (d : Design) (g : Geo) (s : Seq) (excl : List (Nat × Nat)) (i : CrossInst) (startT size : Nat) : Bool :=
  let combos := feasibleCombos d g.design i.factors excl
  let chunk := size * i.weight
  if chunk = 0 then false else
  let nChunks := ceilDiv (g.n - startT) chunk
  (List.range nChunks).all (fun j =>
    let a := startT + j * chunk
    let b := min (a + chunk) g.n
    let full := decide (a + chunk ≤ g.n)
    let rows := (List.range (b - a)).map (fun k => i.factors.map (fun f => s.at f (a + k)))
    combos.all (fun cw =>
      let cnt := (rows.filter (fun r => r == cw.1.map some)).length
      let want := cw.2 * i.weight * i.sustain
      if full then cnt == want else decide (cnt ≤ want)))

def sustainOk (g : Geo) (s : Seq) : Bool :=
  g.crossings.all (fun i => i.sustain ≤ 1 ||
    i.factors.all (fun f => (List.range g.n).all (fun t => s.at f t == s.at f ((t / i.sustain) * i.sustain))))

/-- A factor of a block nested as the *outer* block is held for `sustainOf g f` trials: its own trial number at
    trial `t` of the sequence is `t / c`, its start, stride and window offsets count own trials. -/
def heldFor (g : Geo) (f : Nat) : Nat := if sustainOf g f = 0 then 1 else sustainOf g f

def appliesG (d : Design) (g : Geo) (f t : Nat) : Bool := applies d f (t / heldFor g f)

/-- the levels of derived factor `id` whose predicate accepts the window at trial `t`, read over the factor's own
    trials (`Fill.windowKeyS_group` is the same reading of RandomGen's fill-in) -/
def matchingG (d : Design) (g : Geo) (f : FactorD) (w : WindowD) (id : Nat) (look : Nat → Nat → Option Nat) (t : Nat) :
    List Nat :=
  let c := heldFor g id
  matching d f w (fun dep u => look dep (u * c + t % c)) (t / c)

def shapeOk (d : Design) (g : Geo) (s : Seq) : Bool :=
  g.design.all (fun f =>
    (s.col f).length == g.n &&
    (List.range g.n).all (fun t =>
      match s.at f t with
      | none => !(appliesG d g f t)
      | some l => appliesG d g f t && decide (l < numLevels d f)))

def derivedOk (d : Design) (g : Geo) (s : Seq) : Bool :=
  g.design.all (fun id =>
    let f := d.factor id
    match f.window with
    | none => true
    | some w => (List.range g.n).all (fun t =>
        !(appliesG d g id t) ||
        (match matchingG d g f w id (fun dep u => s.at dep u) t with
         | [l] => s.at id t == some l
         | _ => false)))

def excludeOk (g : Geo) (s : Seq) (excl : List (Nat × Nat)) : Bool :=
  excl.all (fun p => (List.range g.n).all (fun t => s.at p.1 t != some p.2))

def constraintsOk (d : Design) (g : Geo) (s : Seq) : Bool :=
  g.constraints.all (fun sc =>
    match sc.c with
    | .sequential f => sequentialOk d g s f
    | _ => (windowsOf g sc).all (fun w => holdsOn d g s sc w.1 w.2))

/-- The reference semantics. -/
def validG (d : Design) (g : Geo) (s : Seq) : Bool :=
  g.error.isNone &&
  shapeOk d g s && derivedOk d g s && sustainOk g s &&
  (let excl := excludedLevels g.constraints
   excludeOk g s excl &&
   (g.crossings.zip (g.preambles.zip g.sizes)).all (fun p => crossingOk d g s excl p.1 p.2.1 p.2.2)) &&
  constraintsOk d g s

def valid (d : Design) (s : Seq) : Bool := validG d (geo d d.block) s

/-! ## Enumeration of all valid sequences (small designs) -/

/-- Fill in the derived factors of a sequence of simple-factor choices, trial by trial. -/
def deriveAll (d : Design) (g : Geo) (simpleRows : List (List (Nat × Nat))) : Option Seq :=
  let simpleIds := g.design.filter (fun id => !(isDerived (d.factor id)))
  let derivedIds := sortIds (g.design.filter (fun id => isDerived (d.factor id)))
  let base : Seq := simpleIds.map (fun id => (id, simpleRows.map (fun row => (row.find? (·.1 == id)).map (·.2))))
  -- derived factors in id order; each column computed from already known columns
  derivedIds.foldl (fun (acc : Option Seq) id =>
    match acc with
    | none => none
    | some sq =>
      let f := d.factor id
      match f.window with
      | none => some sq
      | some w =>
        let colOpt := (List.range g.n).foldl (fun (c : Option (List (Option Nat))) t =>
          match c with
          | none => none
          | some cs =>
            if !(appliesG d g id t) then some (cs ++ [none]) else
            match matchingG d g f w id (fun dep u => Seq.at sq dep u) t with
            | [l] => some (cs ++ [some l])
            | _ => none) (some [])
        colOpt.map (fun col => sq ++ [(id, col)])) (some base)

/-- All valid sequences, with a cap on the number of candidates explored
    (`none` when the cap is hit). Candidates: every choice of simple-factor
    levels per trial. -/
def validSeqs (d : Design) (cap : Nat) : Option (List Seq) :=
  let g := geo d d.block
  if g.error.isSome then some [] else
  let simpleIds := g.design.filter (fun id => !(isDerived (d.factor id)))
  let perTrial := product (simpleIds.map (fun id => (List.range (numLevels d id)).map (fun l => (id, l))))
  let total := perTrial.length ^ g.n
  if total > cap then none else
  let rowsList := product (List.replicate g.n perTrial)
  some (rowsList.filterMap (fun rows =>
    match deriveAll d g rows with
    | none => none
    | some sq => if validG d g sq then some sq else none))

end SPModel.Spec
