/-
  L7b — model of `DerivationProcessor.generate_derivations` (with
  `DerivedLevel.get_dependent_cross_product` and `DerivationProcessor.shift_window`):
  from the truth tables of the derived factors of the active design to the
  `Derivation` constraints (index of the derived level's first variable, the
  dependent index lists, the factor, its window's `start_delta`) that
  `Pipeline.applyConstraint` consumes.  With this layer the index lists are no
  longer data read from the block: they are computed by the model from the
  predicate tables and compared with the block's (`I8d`).

  A derived factor is given by its index in the active layout, the indices of
  its window's factors (in the order of `window.factors`), the window width,
  `start_delta`, and one truth table per level keyed like `Spec.windowKey`: per
  dependency, per window position (oldest first), digit 0 for "no level yet"
  (`BeforeStart`, the predicate receives `None`), `l + 1` for level `l`, base
  `nlevels + 1`, most significant digit first.
-/
import SPModel.Pipeline

namespace SPModel.Derive
open SPModel Layout Pipeline

/-- one position of a tuple of the dependent cross product -/
inductive Entry where
  | lvl (l : Nat)
  | before (readyAt : Nat)
  deriving Repr, Inhabited, DecidableEq

structure DFactor where
  fi : Nat                       -- index of the derived factor in the active layout
  deps : List Nat                -- `window.factors`, as indices into the active layout
  width : Nat
  startDelta : Int
  tables : List (Array Bool)     -- one per level
  deriving Repr, Inhabited

/-- `ready_at` of `levels_of`: a complex derived dependency can be read from its start on -/
def readyAt (b : LBlock) (dep : Nat) : Nat :=
  let f := b.factors.getD dep default
  if f.complex then f.start else 0

/-- the window positions in the order of the cross product: (dependency, position `i` in `range(width)`) -/
def positions (d : DFactor) : List (Nat × Nat) :=
  d.deps.flatMap (fun dep => (List.range d.width).map (fun i => (dep, i)))

/-- `levels_of(factor, i)`: the levels, then `BeforeStart(ready_at)` when the position can precede readiness -/
def levelsOf (b : LBlock) (d : DFactor) (pos : Nat × Nat) : List Entry :=
  let f := b.factors.getD pos.1 default
  let start := (b.factors.getD d.fi default).start
  let lv := (List.range f.nlevels).map Entry.lvl
  -- Python: `ready_at > start - width + i + 1` over the integers
  if (readyAt b pos.1 : Int) > (start : Int) - (d.width : Int) + (pos.2 : Int) + 1
  then lv ++ [Entry.before (readyAt b pos.1)] else lv

/-- `itertools.product` of a list of option lists (last position varies fastest) -/
def product : List (List Entry) → List (List Entry)
  | [] => [[]]
  | o :: rest => o.flatMap (fun e => (product rest).map (fun t => e :: t))

/-- `get_dependent_cross_product()` -/
def crossProduct (b : LBlock) (d : DFactor) : List (List Entry) :=
  product ((positions d).map (levelsOf b d))

def digit : Entry → Nat
  | .lvl l => l + 1
  | .before _ => 0

/-- the table key of a tuple (`Spec.windowKey` on the tuple's entries) -/
def tupleKey (b : LBlock) (d : DFactor) (tup : List Entry) : Nat :=
  ((positions d).zip tup).foldl (fun acc pe => acc * ((b.factors.getD pe.1.1 default).nlevels + 1) + digit pe.2) 0

/-- does level `l`'s predicate accept the tuple -/
def accepts (b : LBlock) (d : DFactor) (l : Nat) (tup : List Entry) : Bool :=
  ((d.tables[l]?).map (fun t => t.getD (tupleKey b d tup) false)).getD false

/-- `valid_tuples` of level `l` -/
def validTuples (b : LBlock) (d : DFactor) (l : Nat) : List (List Entry) :=
  (crossProduct b d).filter (accepts b d l)

/-- `valid_indices` + `shift_window`: the entry at window position `i` of a dependency becomes the
    first variable of its level shifted by `i` trials of the grid, or a later `BeforeStart` -/
def shiftEntry (b : LBlock) (d : DFactor) (pos : Nat × Nat) : Entry → Dep
  | .lvl l => .var (firstVariableForLevel b pos.1 l + pos.2 * (b.factors.getD d.fi default).sustain * variablesPerTrial b)
  | .before r => .before (r + (d.width - pos.2 - 1))

def shiftTuple (b : LBlock) (d : DFactor) (tup : List Entry) : List Dep :=
  ((positions d).zip tup).map (fun pe => shiftEntry b d pe.1 pe.2)

/-- the `Derivation` of level `l` -/
def derivationOf (b : LBlock) (d : DFactor) (l : Nat) : PConstraint :=
  .derivation (firstVariableForLevel b d.fi l) ((validTuples b d l).map (shiftTuple b d)) d.fi d.startDelta

/-- two levels accept one tuple: `generate_derivations` raises ValueError -/
def ambiguous (b : LBlock) (d : DFactor) : Bool :=
  (crossProduct b d).any (fun tup => decide (((List.range d.tables.length).filter (fun l => accepts b d l tup)).length > 1))

/-- levels without any accepted tuple (each adds a message to `block.errors`) -/
def unmatchedLevels (b : LBlock) (d : DFactor) : List Nat :=
  (List.range d.tables.length).filter (fun l => (validTuples b d l).isEmpty)

/-- tuples no level accepts (each adds a message to `block.errors`) -/
def uncovered (b : LBlock) (d : DFactor) : Nat :=
  ((crossProduct b d).filter (fun tup => !(List.range d.tables.length).any (fun l => accepts b d l tup))).length

/-- `generate_derivations(block)` for the derived factors of the active design, in design order -/
def generate (b : LBlock) (ds : List DFactor) : Except PyErr (List PConstraint) :=
  if ds.any (ambiguous b) then .error .valueError
  else .ok (ds.flatMap (fun d => (List.range d.tables.length).map (derivationOf b d)))

end SPModel.Derive
