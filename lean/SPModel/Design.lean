/-
  The design language as the user writes it: factors (simple, derived with a
  window and per-level truth tables), constraints, and the block expression
  tree (CrossBlock, MultiCrossBlock, Repeat, Merge, Nest).  Shared by the
  reference semantics (`Spec`) and by the model of the code.
-/
import SPModel.Basic

namespace SPModel

structure LevelD where
  name : String
  weight : Nat
  /-- derived levels: truth table over window tuples (see `windowKey`); empty for simple levels -/
  table : Array Bool
  deriving Repr, Inhabited

structure WindowD where
  deps : List Nat            -- factor ids, in order
  width : Nat
  stride : Nat
  start : Option Nat         -- as written by the user (`None` = automatic)
  /-- `Transition`/`WithinTrial` classes fix their start field in the code -/
  kind : String              -- "within" | "transition" | "window"
  deriving Repr, Inhabited

structure FactorD where
  id : Nat
  name : String
  levels : List LevelD
  window : Option WindowD
  deriving Repr, Inhabited

inductive ConstraintD where
  | exclude (f l : Nat)
  | pin (idx : Int) (f l : Nat)
  | minTrials (n : Nat)
  | atMost (k f : Nat) (l : Option Nat)
  | atLeast (k f : Nat) (l : Option Nat)
  | exactlyInARow (k f : Nat) (l : Option Nat)
  | exactlyK (k f : Nat) (l : Option Nat)
  | sequential (f : Nat)
  deriving Repr, Inhabited, BEq

inductive Mode where | weight | repeat | equal
  deriving Repr, Inhabited, DecidableEq

inductive Alignment where | postPreamble | parallelStart | equalPreamble
  deriving Repr, Inhabited, DecidableEq

inductive BlockExpr where
  | cross (design crossing : List Nat) (cs : List ConstraintD) (rcc : Bool)
  | multiCross (design : List Nat) (crossings : List (List Nat)) (cs : List ConstraintD) (rcc : Bool)
      (mode : Mode) (align : Alignment)
  | repeat (b : BlockExpr) (cs : List ConstraintD)
  | merge (bs : List BlockExpr) (cs : List ConstraintD) (mode : Mode) (align : Option Alignment)
  | nest (outer inner : BlockExpr) (cs : List ConstraintD) (align : Option Alignment)
  deriving Repr, Inhabited

structure Design where
  factors : List FactorD
  block : BlockExpr
  deriving Repr, Inhabited

namespace Design

def factor? (d : Design) (id : Nat) : Option FactorD := d.factors.find? (·.id == id)

def factor (d : Design) (id : Nat) : FactorD := (d.factor? id).getD default

end Design

/-- One trial sequence: per factor id, one entry per trial (`none` = no level). -/
abbrev Seq := List (Nat × List (Option Nat))

def Seq.col (s : Seq) (f : Nat) : List (Option Nat) :=
  match s.find? (·.1 == f) with
  | some p => p.2
  | none => []

def Seq.at (s : Seq) (f t : Nat) : Option Nat := ((s.col f)[t]?).getD none

end SPModel
