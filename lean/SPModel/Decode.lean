/-
  L6b — model of `Gen.decode` (`sampling_strategy/base.py`): how a solver model (a list
  of signed variables) becomes the experiment dictionary — per factor of the active design,
  one entry per trial: a level, or '' where the factor does not apply.
-/
import SPModel.Layout

namespace SPModel.Decode
open SPModel Layout

def insertSorted (x : Nat) : List Nat → List Nat
  | [] => [x]
  | y :: ys => if x ≤ y then x :: y :: ys else y :: insertSorted x ys

/-- ascending sort (structural, so that it computes in the kernel) -/
def sortAsc : List Nat → List Nat
  | [] => []
  | x :: xs => insertSorted x (sortAsc xs)

/-- the positive literals in ascending order (`solution.sort()` + filter) -/
def positives (solution : List Int) : List Nat :=
  sortAsc ((solution.filter (fun v => decide (0 < v))).map Int.natAbs)

/-- levels of factor `i` named by the given variables, in order; `none` entry = undecodable variable -/
def levelsOf (b : LBlock) (i : Nat) (vars : List Nat) : List Nat :=
  vars.filterMap (fun v => match decodeVariable b v with
    | some (j, l) => if j = i then some l else none
    | none => none)

/-- first variable (1-based) and number of variables of a complex-window factor -/
def complexRange (b : LBlock) (i : Nat) (f : LFactor) : Nat × Nat :=
  let start := firstVariableForLevel b i 0 + 1
  (start, start + variablesForFactor b f)

/-- fill in '' (none) for the trials the factor does not apply to; IndexError when the names run out -/
def fillIn (f : LFactor) (trials : Nat) (names : List Nat) : Except PyErr (List (Option Nat)) :=
  let r := (List.range trials).foldl (fun (acc : Except PyErr (List (Option Nat) × List Nat)) n =>
    match acc with
    | .error e => .error e
    | .ok (out, rest) =>
      if applies f (n / f.sustain + 1) then
        match rest with
        | [] => .error .indexError
        | x :: xs => .ok (out ++ [some x], xs)
      else .ok (out ++ [none], rest)) (.ok ([], names))
  match r with
  | .ok (out, _) => .ok out
  | .error e => .error e

/-- `Gen.decode(block, solution)`: per factor of the active design, `none` when the factor gets no key in the
    dictionary (a simple factor none of whose variables is true), else its list of entries -/
def decode (b : LBlock) (solution : List Int) : Except PyErr (List (Option (List (Option Nat)))) :=
  let pos := positives solution
  let simple := pos.filter (fun v => decide (v ≤ gridVariables b))
  let cplx := pos.filter (fun v => decide (gridVariables b < v))
  (List.range b.factors.length).mapM (fun i =>
    let f := b.factors.getD i default
    if f.complex then
      let r := complexRange b i f
      let vars := cplx.filter (fun v => decide (r.1 ≤ v) && decide (v < r.2))
      match fillIn f b.trials (levelsOf b i vars) with
      | .ok l => .ok (some l)
      | .error e => .error e
    else
      let ls := levelsOf b i simple
      .ok (if ls.isEmpty then none else some (ls.map some)))

end SPModel.Decode
