/-
  L3 — model of the solver text interfaces: `CNF.__str__`, `as_dimacs_string`,
  `as_unigen_string`, `as_opb_string`, `combine_and_save_opb`, both
  `update_file`s, `parse_cnf_file`, the parser inside
  `_use_pycryptosat_library`, `cryptominisat_solve`'s output parser and
  `build_solution`.

  Text is modelled as a list of lines, a line as a list of tokens (what
  `str.split()` yields).  `render` turns token lines back into the exact text
  (single spaces, `\n` between lines); the correspondence run compares the
  rendered text byte for byte with Python's, and feeds Python-produced text to
  the model's parsers through the driver's tokenizer.  `str.split`, `int()`
  and `str()` themselves are trusted.
-/
import SPModel.Basic
import SPModel.Card

namespace SPModel.Text

inductive Tok where
  | int (i : Int)
  | c | ind | p | cnf | v | s
  | colon (f : Int)            -- a token of the form `<something>:<int>` (UniGen sample frequency)
  | lit (coef : Int) (var : Nat)   -- OPB term `+1 v7` / `-1 v7` is two tokens; kept as one item, rendered as two
  | ge | le | eq | semi        -- OPB `>=`, `<=`, `=`, `;`
  | word (w : String)
  deriving Repr, DecidableEq, Inhabited

abbrev Line := List Tok

def Tok.render : Tok → String
  | .int i => toString i
  | .c => "c" | .ind => "ind" | .p => "p" | .cnf => "cnf" | .v => "v" | .s => "s"
  | .colon f => "0:" ++ toString f
  | .lit coef var => (if coef < 0 then "-1 v" else "+1 v") ++ toString var
  | .ge => ">=" | .le => "<=" | .eq => "=" | .semi => ";"
  | .word w => w

def renderLine (l : Line) : String := " ".intercalate (l.map Tok.render)
def render (ls : List Line) : String := "\n".intercalate (ls.map renderLine)

/-- Does the (stripped) line start with the character `c`? -/
def startsC : Line → Bool
  | .c :: _ => true
  | .cnf :: _ => true
  | .colon _ :: _ => false
  | .word w :: _ => w.startsWith "c"
  | _ => false

def startsP : Line → Bool
  | .p :: _ => true
  | .word w :: _ => w.startsWith "p"
  | _ => false

/-! ## Printers -/

/-- distinct variables of a clause list: `len({abs(var) …})` -/
def distinctVars (vals : List Clause) : List Nat :=
  (vals.flatten.map Int.natAbs).eraseDups

/-- `str(cnf)`: one line per clause, newest first, each ending in ` 0`. -/
def cnfLines (vals : List Clause) : List Line :=
  vals.reverse.map (fun cl => cl.map Tok.int ++ [.int 0])

def headerLine (nv nclauses : Nat) : Line := [.p, .cnf, .int nv, .int nclauses]

/-- `as_dimacs_string(nv)` as token lines (the final `[]` is the trailing newline). -/
def dimacsLines (vals : List Clause) (nv : Nat) : List Line :=
  headerLine nv vals.length :: [] :: (cnfLines vals ++ [[]])

def chunks10 : Nat → List Int → List (List Int)
  | 0, _ => []
  | _, [] => []
  | fuel + 1, l => l.take 10 :: chunks10 fuel (l.drop 10)

def supportLines (support : List Int) : List Line :=
  (chunks10 support.length support).map (fun ch => [Tok.c, .ind] ++ ch.map Tok.int ++ [.int 0])

/-- `as_unigen_string(nv, support_set_length=…)`: the support lines replace
    the first newline of the DIMACS text. -/
def unigenLines (vals : List Clause) (nv : Nat) (support : List Int) : List Line :=
  let sl := supportLines support
  headerLine nv vals.length :: ((if sl.isEmpty then [[]] else sl) ++ cnfLines vals ++ [[]])

def rangeSupport (n : Nat) : List Int := (List.range n).map (fun i => ((i + 1 : Nat) : Int))

/-! ## Parsers -/

def tokInts : Line → Except PyErr (List Int)
  | [] => .ok []
  | .int i :: r => match tokInts r with
    | .ok l => .ok (i :: l)
    | .error e => .error e
  | _ :: _ => .error .valueError

structure Parsed where
  clauses : List Clause
  sampling : List Int
  nvars : Int
  deriving Repr, DecidableEq, Inhabited

def insertSorted (x : Int) : List Int → List Int
  | [] => [x]
  | y :: ys => if x < y then x :: y :: ys else if x = y then y :: ys else y :: insertSorted x ys

/-- `sorted(set(l))` -/
def sortedSet (l : List Int) : List Int := l.foldr insertSorted []

/-- `parse_cnf_file` (unigen.py), before the final `sorted(set(…))`. -/
def parseCnfGo : List Line → Parsed → Except PyErr Parsed
  | [], acc => .ok acc
  | [] :: rest, acc => parseCnfGo rest acc
  | (.c :: .ind :: toks) :: rest, acc =>
    match tokInts toks with
    | .ok is => parseCnfGo rest { acc with sampling := acc.sampling ++ is.filter (· ≠ 0) }
    | .error e => .error e
  | (.p :: .cnf :: toks) :: rest, acc =>
    match toks with
    | .int n :: _ => parseCnfGo rest { acc with nvars := n }
    | [] => parseCnfGo rest acc
    | _ :: _ => .error .valueError
  | line :: rest, acc =>
    if startsC line || startsP line then parseCnfGo rest acc else
    match tokInts line with
    | .ok is =>
      let cl := is.filter (· ≠ 0)
      parseCnfGo rest (if cl.isEmpty then acc else { acc with clauses := acc.clauses ++ [cl] })
    | .error e => .error e

def parseCnfFile (ls : List Line) : Except PyErr Parsed :=
  match parseCnfGo ls { clauses := [], sampling := [], nvars := 0 } with
  | .ok r => .ok { r with sampling := sortedSet r.sampling }
  | .error e => .error e

def dropLastZero (l : List Int) : List Int :=
  match l.reverse with
  | 0 :: r => r.reverse
  | _ => l

/-- the DIMACS reader inside `_use_pycryptosat_library`: clauses and `num_vars`. -/
def parsePycryptoGo : List Line → List Clause × Int → Except PyErr (List Clause × Int)
  | [], acc => .ok acc
  | [] :: rest, acc => parsePycryptoGo rest acc
  | line :: rest, acc =>
    if startsC line then parsePycryptoGo rest acc
    else if startsP line then
      match line with
      | _ :: _ :: .int n :: _ => parsePycryptoGo rest (acc.1, n)
      | _ :: _ :: _ :: _ => .error .valueError
      | _ => parsePycryptoGo rest acc
    else
      match tokInts line with
      | .ok is =>
        let cl := dropLastZero is
        parsePycryptoGo rest (if cl.isEmpty then acc else (acc.1 ++ [cl], acc.2))
      | .error e => .error e

def parsePycrypto (ls : List Line) : Except PyErr (List Clause × Int) := parsePycryptoGo ls ([], 0)

/-- `cryptominisat_solve`: the integers of all lines that start with `v`. -/
def parseSolveOutput : List Line → Except PyErr (List Int)
  | [] => .ok []
  | (.v :: toks) :: rest =>
    match tokInts toks, parseSolveOutput rest with
    | .ok a, .ok b => .ok (a ++ b)
    | .error e, _ => .error e
    | _, .error e => .error e
  | _ :: rest => parseSolveOutput rest

/-- output of the pycryptosat wrapper for a model given as literals `±1 … ±n` -/
def solveOutputLines (model : List Int) : List Line :=
  [[.s, .word "SATISFIABLE"], .v :: (model.map Tok.int ++ [.int 0]), []]

/-- `build_solution(line)`: assignment and frequency. -/
def buildSolution (line : Line) : Except PyErr (List Int × Int) :=
  let toks := line.filter (· ≠ Tok.v)
  match toks.reverse with
  | [] => .error .indexError
  | last :: initRev =>
    match tokInts initRev.reverse with
    | .error e => .error e
    | .ok a =>
      match last with
      | .int f => .ok (a, f)
      | .colon f => .ok (a, f)
      | _ => .error .valueError

/-- `update_file(filename, solution)` of `sample_non_uniform`: on the stripped
    text's lines — bump the clause count of the header, append the negated
    solution as a clause. -/
def updateFile (ls : List Line) (sol : List Int) : Except PyErr (List Line) :=
  match ls with
  | [] => .error .indexError
  | header :: rest =>
    match header with
    | a :: b :: c3 :: .int n :: _ =>
      .ok ([a, b, c3, .int (n + 1)] :: (rest ++ [sol.map (fun x => Tok.int (-1 * x)) ++ [.int 0]]))
    | _ :: _ :: _ :: _ :: _ => .error .valueError
    | _ => .error .indexError

/-- Python's `text.strip().splitlines()` at the line level: drop leading and
    trailing empty lines. -/
def stripLines (ls : List Line) : List Line :=
  ((ls.dropWhile List.isEmpty).reverse.dropWhile List.isEmpty).reverse

/-- `call_cmsgen_python`: the `v …` line written for one solver solution
    (`solution[0]` is a placeholder, `solution[v]` the value of variable `v`)
    restricted to the sampling set. -/
def cmsgenSampleLits (solution : List Bool) (sampling : List Nat) : List Int :=
  sampling.map (fun v => if v < solution.length && solution.getD v false then (v : Int) else -(v : Int))

def cmsgenSampleLine (solution : List Bool) (sampling : List Nat) : Line :=
  Tok.v :: ((cmsgenSampleLits solution sampling).map Tok.int ++ [.int 0])

/-- `call_unigen_python`: `v l1 … ln 0:1` for a sample (list of literals) returned by pyunigen -/
def unigenSampleLine (sample : List Int) : Line := Tok.v :: (sample.map Tok.int ++ [.colon 1])

/-! ## OPB -/

structure OpbRow where
  terms : List (Int × Nat)      -- coefficient, variable
  cmp : Tok                     -- .ge / .le / .eq
  rhs : Int
  deriving Repr, DecidableEq, Inhabited

def OpbRow.line (r : OpbRow) : Line :=
  r.terms.map (fun t => Tok.lit t.1 t.2) ++ [r.cmp, .int r.rhs, .semi]

/-- one clause of `as_opb_string` -/
def opbClause (cl : Clause) : OpbRow :=
  { terms := cl.map (fun l => (if l < 0 then (-1 : Int) else 1, l.natAbs)),
    cmp := .ge,
    rhs := 1 - ((cl.filter (· < 0)).length : Int) }

/-- `as_opb_string()`: newest clause first. -/
def opbRows (vals : List Clause) : List OpbRow := vals.reverse.map opbClause

/-- the line `combine_and_save_opb` writes for a request (repaired: GT is `>= k+1`) -/
def opbRequest (r : Request) : OpbRow :=
  { terms := r.vars.map (fun l => ((1 : Int), l.natAbs)),
    cmp := match r.rel with | .eq => .eq | .lt => .le | .gt => .ge,
    rhs := match r.rel with | .eq => (r.k : Int) | .lt => (r.k : Int) - 1 | .gt => (r.k : Int) + 1 }

/-- `update_file` of `sample_ilp`: excludes exactly the previous solution. -/
def opbBlock (sol : List Int) : OpbRow :=
  { terms := sol.map (fun l => (if l < 0 then (-1 : Int) else 1, l.natAbs)),
    cmp := .le,
    rhs := (sol.length : Int) - 1 - ((sol.filter (· < 0)).length : Int) }

/-- standard pseudo-Boolean meaning of a row -/
def OpbRow.holds (τ : Assign) (r : OpbRow) : Bool :=
  let lhs : Int := (r.terms.map (fun t => if τ t.2 then t.1 else 0)).foldl (· + ·) 0
  match r.cmp with
  | .ge => lhs ≥ r.rhs
  | .le => lhs ≤ r.rhs
  | .eq => lhs == r.rhs
  | _ => false

/-- the OPB file `combine_and_save_opb` writes -/
def opbExport (vals : List Clause) (reqs : List Request) : List OpbRow :=
  opbRows vals ++ reqs.map opbRequest

end SPModel.Text

namespace SPModel.Text

/-- exact text of the OPB file after `combine_and_save_opb` -/
def opbText (vals : List Clause) (reqs : List Request) : String :=
  "\n".intercalate ((opbRows vals).map (fun r => renderLine r.line)) ++
    String.join (reqs.map (fun r => "\n" ++ renderLine (opbRequest r).line ++ " "))

/-- text appended by `sample_ilp.update_file` -/
def opbBlockText (sol : List Int) : String := "\n" ++ renderLine (opbBlock sol).line ++ "\n"

/-! ## Tokenizer (driver side; not part of any theorem) -/

def classify (w : String) : Tok :=
  match w with
  | "c" => .c | "ind" => .ind | "p" => .p | "cnf" => .cnf | "v" => .v | "s" => .s
  | _ =>
    match w.toInt? with
    | some i => .int i
    | none =>
      match (w.splitOn ":").reverse with
      | last :: _ :: _ => match last.toInt? with
        | some f => .colon f
        | none => .word w
      | _ => .word w

def tokenizeLine (s : String) : Line :=
  ((s.split Char.isWhitespace).toList.map (·.toString)).filter (· ≠ "") |>.map classify

def tokenize (s : String) : List Line := (s.splitOn "\n").map tokenizeLine

end SPModel.Text
