/-
  L11 — model of the iterate-and-block loop of `sample_non_uniform`
  (`compute_solutions` + `update_file`) over an abstract solver: ask the solver
  for a model of the clauses, keep the first `support` literals, add the
  negation of those literals as a clause, repeat `count` times or until the
  solver reports unsatisfiable.
-/
import SPModel.Basic

namespace SPModel.Sampler

/-- A solver: for a clause list, either a total assignment or "unsatisfiable". -/
abbrev Solver := Cnf → Option Assign

/-- the literals `±1 … ±support` of an assignment (what `solution[:support]` is) -/
def project (support : Nat) (τ : Assign) : List Int :=
  (List.range support).map (fun i => if τ (i + 1) then ((i + 1 : Nat) : Int) else -((i + 1 : Nat) : Int))

/-- the clause `update_file` appends: the negated projected solution -/
def blocking (sol : List Int) : Clause := sol.map (fun l => -l)

/-- `compute_solutions(file, support, count)`: the projected solutions in the order found. -/
def iterate (solve : Solver) (support : Nat) : Nat → Cnf → List (List Int)
  | 0, _ => []
  | count + 1, φ =>
    match solve φ with
    | none => []
    | some τ =>
      let sol := project support τ
      sol :: iterate solve support count (φ ++ [blocking sol])

end SPModel.Sampler
