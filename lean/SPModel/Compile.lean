/-
  L7 (part) — model of the formulas and cardinality requests that the
  run-length constraints of `constraint.py` emit for one list of variables
  (the variables of one level over the trials of one range, as
  `build_variable_lists` returns them): `AtMostKInARow`, `AtLeastKInARow`,
  `ExactlyKInARow`, `ExactlyK`, and the one-hot requests of `Consistency`.
-/
import SPModel.Logic
import SPModel.Card

namespace SPModel.Compile

/-- `_build_variable_sublistss`: all windows of exactly `n` consecutive variables -/
def windows (n : Nat) (vars : List Int) : List (List Int) :=
  ((List.range vars.length).map (fun i => (vars.drop i).take n)).filter (fun w => w.length == n)

/-- `AtMostKInARow(k)`: `LT k+1` over every window of `k+1` variables -/
def atMostRequests (k : Nat) (vars : List Int) : List Request :=
  (windows (k + 1) vars).map (fun w => { rel := .lt, k := k + 1, vars := w })

/-- `ExactlyK(k)`: `EQ k` over the range, or a contradiction (`And([1, -1])`) when the range is empty -/
inductive ExactlyKOut where
  | request (r : Request)
  | contradiction
  deriving Repr, Inhabited

def exactlyK (k : Nat) (vars : List Int) : ExactlyKOut :=
  if vars.isEmpty then .contradiction else .request { rel := .eq, k := k, vars := vars }

def lits (l : List Int) : List Formula := l.map Formula.lit

/-- `AtLeastKInARow(k)`: the implications appended for one range -/
def atLeastFormulas (k : Nat) (vars : List Int) : List Formula :=
  let ws := windows (k + 1) vars
  match ws with
  | [] =>
    if vars.length == k then vars.map (fun v => Formula.imp (.lit v) (.and (lits vars)))
    else vars.map (fun v => Formula.not (.lit v))
  | w0 :: _ =>
    let last := ws.getLast!
    let startCase := Formula.imp (.lit (w0.headD 0)) (.and (lits ((w0.drop 1).dropLast)))
    let mids := ws.map (fun w => Formula.imp (.and [.not (.lit (w.headD 0)), .lit ((w.drop 1).headD 0)]) (.and (lits (w.drop 2))))
    let endCase := Formula.imp (.not (.lit ((last.drop 1).headD 0))) (.not (.or (lits (last.drop 2))))
    let tail := if ws.length > 1 then
        ((List.range last.length).filter (· ≥ 3)).map (fun i => Formula.imp (.lit (last.getD i 0)) (.lit (last.getD (i - 1) 0)))
      else []
    [startCase] ++ mids ++ [endCase] ++ tail

/-- `And(l) if len(l) > 1 else l[0]` -/
def andOrSingle (l : List Formula) : Formula :=
  match l with
  | [x] => x
  | _ => .and l

/-- `ExactlyKInARow(k)`: the implications appended for one range -/
def exactlyInARowFormulas (k : Nat) (vars : List Int) : List Formula :=
  let ws := windows k vars
  let trim := if k > 1 then ws.length else ws.length - 1
  let regular := (List.range (min trim ws.length)).map (fun idx =>
    let l := ws.getD idx []
    let p : Formula :=
      if idx > 0 then .and [.not (.lit ((ws.getD (idx - 1) []).headD 0)), .lit (l.headD 0)]
      else .lit (l.headD 0)
    let q : Formula :=
      if idx < ws.length - 1 then
        andOrSingle (lits (l.drop 1) ++ [.not (.lit ((ws.getD (idx + 1) []).getLastD 0))])
      else
        (if (l.drop 1).length > 1 then .and (lits (l.drop 1)) else .lit (l.getD (k - 1) 0))
    Formula.imp p q)
  match ws with
  | [] => regular ++ vars.map (fun v => Formula.not (.lit v))
  | _ =>
    let lastRun := ws.getLast!
    let tail := if lastRun.length > 1 then
        let rev := lastRun.reverse
        (List.range (rev.length - 1)).map (fun i => Formula.imp (.lit (rev.getD i 0)) (.lit (rev.getD (i + 1) 0)))
      else []
    regular ++ tail

/-- maximal runs of `true` -/
def runs (xs : List Bool) : List Nat :=
  let r := xs.foldl (fun (p : List Nat × Nat) x =>
    if x then (p.1, p.2 + 1) else (if p.2 > 0 then p.1 ++ [p.2] else p.1, 0)) ([], 0)
  if r.2 > 0 then r.1 ++ [r.2] else r.1

end SPModel.Compile
