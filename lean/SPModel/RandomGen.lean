/-
  L5 — model of the candidate space of `RandomGen` (`UCSolutionEnumerator` in
  `sampling_strategy/random.py`) for one round of crossing trials: how a tuple of
  *components* (permutation index, source-combination indices, independent-factor
  indices) is turned into trial values, and how many component tuples there are.

  A block is abstracted to what the enumeration depends on (`EnumData`): the number
  `q` of crossing instances, how often each may occur (`avail` = `_m_or_counters`),
  for every instance the list of source combinations compatible with it
  (`_valid_source_combinations_indices`), and the number of allowed levels of every
  uncrossed independent factor.  Trial values are reported as indices: (crossing
  instance, source combination, level index per independent factor).
-/
import SPModel.Comb

namespace SPModel.RandomGen
open SPModel Comb

structure EnumData where
  q : Nat
  avail : Avail
  /-- `complex_crossing_instances == 1 and _crossing_is_unweighted` -/
  simplePerm : Bool
  /-- `_crossing_is_unweighted` -/
  unweighted : Bool
  valid : List (List Nat)
  indLevels : List Nat
  deriving Repr, Inhabited

structure Components where
  perm : Nat
  src : List Nat
  ind : List Nat
  deriving Repr, Inhabited

structure TrialValue where
  inst : Nat
  source : Nat
  ind : List Nat
  deriving Repr, Inhabited, DecidableEq

/-- `jth_permutation_indices(crossing_size = q, trial_count, component, pmemo)` -/
def permutationIndices (d : EnumData) (trialCount component : Nat) : Except PyErr (List Nat) :=
  if d.simplePerm then jthPermutationPrefix d.q trialCount component
  else match jthPrefix d.q d.avail trialCount component with
    | .ok (some p) => .ok p
    | .ok none => .error .typeError          -- (Python would iterate over an int)
    | .error e => .error e

/-- one component per crossing instance (`true`) or one per trial (`false`):
    `_one_source_choice_per_instance` — a whole unweighted round of plain permutations -/
def perInstance (d : EnumData) (trialCount : Nat) : Bool :=
  decide (trialCount = d.q) && d.unweighted && d.simplePerm

def listGet (l : List Nat) (i : Nat) : Except PyErr Nat :=
  match l[i]? with
  | some x => .ok x
  | none => .error .indexError

/-- the source combination of the `i`-th trial, whose crossing instance is `p` -/
def sourceFor (d : EnumData) (trialCount : Nat) (src : List Nat) (i p : Nat) : Except PyErr Nat := do
  let comp ← listGet src (if perInstance d trialCount then p else i)
  match d.valid[p]? with
  | none => .error .indexError
  | some vs => listGet vs comp

def mapIdxM {α} (f : Nat → Nat → Except PyErr α) : Nat → List Nat → Except PyErr (List α)
  | _, [] => .ok []
  | i, p :: ps => do
    let x ← f i p
    let xs ← mapIdxM f (i + 1) ps
    return x :: xs

/-- the level index sequences of the independent factors -/
def indCombos (d : EnumData) (trialCount : Nat) (ind : List Nat) : Nat → List Nat → Except PyErr (List (List Nat))
  | _, [] => .ok []
  | j, nlev :: rest => do
    let idx ← listGet ind j
    let combo ← jthCombination trialCount nlev idx
    let more ← indCombos d trialCount ind (j + 1) rest
    return combo :: more

/-- `generate_trial_values(components, trial_count, crossing_size = q, pmemo)` -/
def generateTrialValues (d : EnumData) (c : Components) (trialCount : Nat) : Except PyErr (List TrialValue) := do
  let perm ← permutationIndices d trialCount c.perm
  let srcs ← mapIdxM (sourceFor d trialCount c.src) 0 perm
  let combos ← indCombos d trialCount c.ind 0 d.indLevels
  return (List.range trialCount).map (fun t =>
    { inst := perm.getD t 0, source := srcs.getD t 0, ind := combos.map (fun cb => cb.getD t 0) })

def shapes (d : EnumData) : List Nat := d.valid.map List.length

def prodList (l : List Nat) : Nat := l.foldl (· * ·) 1

/-- is `_m_or_counters` an int or a list of equal numbers -/
def uniformM (a : Avail) : Bool :=
  match a with
  | .uniform _ => true
  | .counters cs => cs.all (fun m => m == cs.headD 0)

/-- `sum_combination_products` -/
def sumCombinationProducts (d : EnumData) (count firstN : Nat) : Except PyErr Nat :=
  let sh := shapes d
  if sh.all (fun s => s == sh.headD 0) && uniformM d.avail then
    match sh with
    | [] => .error .indexError
    | s0 :: _ => .ok (count * s0 ^ firstN)
  else
    (List.range count).foldl (fun acc i => do
      let s ← acc
      match jthPrefix d.q d.avail firstN i with
      | .ok (some p) => .ok (s + prodList (p.map (fun x => sh.getD x 0)))
      | .ok none => .error .typeError
      | .error e => .error e) (.ok 0)

/-- number of permutations (prefixes) of the crossing instances: `components_shape.crossings_shape` -/
def crossingsShape (d : EnumData) (firstN : Nat) : Nat :=
  if d.simplePerm then
    (if firstN ≠ d.q then factorial d.q / factorial (d.q - firstN) else factorial d.q)
  else countPrefixes d.q d.avail firstN

/-- `__count_solutions(first_n, …)` -/
def countSolutions (d : EnumData) (firstN : Nat) : Except PyErr Nat := do
  let perms := crossingsShape d firstN
  let withSources ←
    if perInstance d firstN then .ok (perms * prodList (shapes d))
    else sumCombinationProducts d perms firstN
  return d.indLevels.foldl (fun acc nlev => acc * nlev ^ firstN) withSources

/-- `components_shape.independent_shapes` -/
def independentShapes (d : EnumData) (firstN : Nat) : List Nat := d.indLevels.map (fun nlev => nlev ^ firstN)

end SPModel.RandomGen

namespace SPModel.RandomGen
open SPModel Comb

/-- What the enumerator's data satisfies for a round of `n` trials (evaluated by the driver on every real block the
    correspondence check sees): one list of distinct source combinations per crossing instance; counters for every
    instance; a plain permutation prefix is no longer than the number of instances; and the per-instance indexing of source components is only used with plain permutations. -/
def EnumData.wf (d : EnumData) (n : Nat) : Bool :=
  decide (d.valid.length = d.q) &&
  d.valid.all (fun vs => decide vs.Nodup) &&
  (match d.avail with | .uniform _ => true | .counters cs => decide (cs.length = d.q)) &&
  (!d.simplePerm || decide (n ≤ d.q)) &&
  decide (0 < d.q) &&
  (!perInstance d n || d.simplePerm)

/-- plain permutations are only used when every crossing instance occurs once (`_m_or_counters == 1`) -/
def EnumData.plainOnce (d : EnumData) : Bool :=
  !d.simplePerm || (match d.avail with | .uniform m => decide (m = 1) | .counters _ => false)

end SPModel.RandomGen
