/-
  L6 — model of the variable layout of `block.py`: which SAT variable stands
  for (trial, factor, level), and how a variable is decoded.

  A block is abstracted to what the numbering depends on: the factors of the
  active design in order, each with its number of levels, whether it has a
  complex window (then it gets its own block of variables after the grid),
  its start / stride (when it has a level) and its sustain count; and the
  number of trials.
-/
import SPModel.Basic

namespace SPModel.Layout

structure LFactor where
  nlevels : Nat
  complex : Bool
  start : Nat       -- 0-based first trial with a level (0 for non-derived factors)
  stride : Nat
  sustain : Nat
  deriving Repr, Inhabited, DecidableEq

structure LBlock where
  factors : List LFactor
  trials : Nat
  deriving Repr, Inhabited

/-- `Factor.applies_to_trial(n)` for a 1-based trial number `n` -/
def applies (f : LFactor) (n : Nat) : Bool :=
  decide (f.start + 1 ≤ n) && (n - (f.start + 1)) % f.stride == 0

/-- does `f` have variables in trial `t` (1-based)? `applies_to_trial((t-1)//sustain + 1)` -/
def appliesTrial (f : LFactor) (t : Nat) : Bool := applies f ((t - 1) / f.sustain + 1)

/-- `variables_per_trial()`: levels of the factors without complex window -/
def variablesPerTrial (b : LBlock) : Nat :=
  (b.factors.filter (fun f => !f.complex)).foldl (fun s f => s + f.nlevels) 0

def gridVariables (b : LBlock) : Nat := b.trials * variablesPerTrial b

/-- number of trials in `1..n` to which `f` applies -/
def appliedCount (f : LFactor) (n : Nat) : Nat :=
  ((List.range n).filter (fun u => appliesTrial f (u + 1))).length

/-- `variables_for_factor(f)` -/
def variablesForFactor (b : LBlock) (f : LFactor) : Nat := f.nlevels * appliedCount f b.trials

/-- `variables_per_sample()` -/
def variablesPerSample (b : LBlock) : Nat :=
  b.factors.foldl (fun s f => s + variablesForFactor b f) 0

/-- `first_variable_for_level(factor i, level l)` (0-based result) -/
def firstVariableForLevel (b : LBlock) (i l : Nat) : Nat :=
  match b.factors[i]? with
  | none => 0
  | some f =>
    let before := b.factors.take i
    if f.complex then
      gridVariables b + ((before.filter (·.complex)).foldl (fun s g => s + variablesForFactor b g) 0) + l
    else
      ((before.filter (fun g => !g.complex)).foldl (fun s g => s + g.nlevels) 0) + l

/-- `_get_previous_trials_variable_count(f, t)`: trials before `t` to which `f` applies -/
def previousCount (f : LFactor) (t : Nat) : Nat := appliedCount f (t - 1)

/-- `_encode_variable(f, l, t)` (1-based variable) -/
def encodeVar (b : LBlock) (i l t : Nat) : Nat :=
  match b.factors[i]? with
  | none => 0
  | some f =>
    firstVariableForLevel b i l +
      (if f.complex then f.nlevels * previousCount f t else variablesPerTrial b * previousCount f t) + 1

/-- position of the `k`-th level among the non-complex factors: (factor index, level) -/
def simpleTuple (fs : List LFactor) (k : Nat) : Option (Nat × Nat) :=
  go fs 0 k
where
  go : List LFactor → Nat → Nat → Option (Nat × Nat)
    | [], _, _ => none
    | f :: rest, i, k =>
      if f.complex then go rest (i + 1) k
      else if k < f.nlevels then some (i, k) else go rest (i + 1) (k - f.nlevels)

/-- `decode_variable(v)`: factor index and level -/
def decodeVariable (b : LBlock) (v : Nat) : Option (Nat × Nat) :=
  let x := v - 1
  if x < gridVariables b then
    if variablesPerTrial b = 0 then none else simpleTuple b.factors (x % variablesPerTrial b)
  else
    go b b.factors 0 (gridVariables b) x
where
  go (b : LBlock) : List LFactor → Nat → Nat → Nat → Option (Nat × Nat)
    | [], _, _, _ => none
    | f :: rest, i, start, x =>
      if !f.complex then go b rest (i + 1) start x
      else
        let n := variablesForFactor b f
        if start ≤ x ∧ x < start + n then (if f.nlevels = 0 then none else some (i, (x - start) % f.nlevels))
        else go b rest (i + 1) (start + n) x

end SPModel.Layout
