/-
  L4 — model of `sweetpea/_internal/combinatorics.py`: the index-to-arrangement
  ("unranking") functions of the combinatoric sampler and their counting
  functions.  Python's `while` loops become fuelled or structural recursion;
  partial operations (`% 0`, list index out of range, `assert`) are explicit
  `Except` results.

  The prefix-of-permutations-with-copies family is modelled by the clean
  recursion (`countFrom`, `findFrom`).  Python's continuation machine with its
  memo table computes the same values as long as every memo entry stores the
  count of its sub-problem; that tie is checked by the correspondence run
  (including calls that share one `PermutationMemo`), not proved.
-/
import SPModel.Basic

namespace SPModel.Comb

def factorial : Nat → Nat
  | 0 => 1
  | n + 1 => (n + 1) * factorial n

/-- `extract_components(sizes, n)` -/
def extractComponents : List Nat → Nat → Except PyErr (List Nat)
  | [], _ => .ok []
  | s :: ss, n =>
    if s = 0 then .error .zeroDivision else
    match extractComponents ss (n / s) with
    | .ok cs => .ok (n % s :: cs)
    | .error e => .error e

/-- digits of `j` in base `n`, least significant first, `l` of them -/
def digitsLsb (n : Nat) : Nat → Nat → List Nat
  | 0, _ => []
  | l + 1, j => j % n :: digitsLsb n l (j / n)

/-- `compute_jth_combination(l, n, j)`: `l` digits base `n`, most significant first. -/
def jthCombination (l n j : Nat) : Except PyErr (List Nat) :=
  if l > 0 ∧ n = 0 then .error .zeroDivision else .ok (digitsLsb n l j).reverse

/-- product `n * (n-1) * … ` of `cnt` factors -/
def fallingProd : Nat → Nat → Nat
  | _, 0 => 1
  | n, cnt + 1 => n * fallingProd (n - 1) cnt

/-- `n_choose_m_given_m_factorial(n, m, f_m)` -/
def nChooseMGiven (n m fm : Nat) : Except PyErr Nat :=
  if n < m then .ok 0
  else if n = m then .ok 1
  else if fm = 0 then .error .zeroDivision
  else .ok (fallingProd n m / fm)

/-- `n_choose_m(n, m)` -/
def nChooseM (n m : Nat) : Nat :=
  if n < m then 0 else if n = m then 1 else fallingProd n m / factorial m

/-- inner `while c+1 < n and choose(c+1, m) <= j: c += 1` -/
def climb (n m j : Nat) : Nat → Nat → Nat
  | 0, c => c
  | fuel + 1, c => if c + 1 < n ∧ nChooseM (c + 1) m ≤ j then climb n m j fuel (c + 1) else c

/-- `compute_jth_combination_without_replacement(n, m, j)` -/
def jthCombinationNoRepl (n : Nat) : Nat → Nat → List Nat
  | 0, _ => []
  | m + 1, j =>
    let c := climb n (m + 1) j n m
    c :: jthCombinationNoRepl n m (j - nChooseM c (m + 1))

/-- `compute_jth_inversion_sequence(n, m, j)`: for k = n, n-1, …, n-m+1 -/
def jthInversionSequence (n : Nat) : Nat → Nat → Except PyErr (List Nat)
  | 0, _ => .ok []
  | m + 1, j =>
    if n = 0 then .error .zeroDivision else
    match jthInversionSequence (n - 1) m (j / n) with
    | .ok r => .ok (j % n :: r)
    | .error e => .error e

/-- remove the `i`-th element -/
def removeNth : List Nat → Nat → Option (Nat × List Nat)
  | [], _ => none
  | x :: xs, 0 => some (x, xs)
  | x :: xs, i + 1 => match removeNth xs i with
    | some (y, r) => some (y, x :: r)
    | none => none

def constructFrom : List Nat → List Nat → Except PyErr (List Nat)
  | _, [] => .ok []
  | unused, skip :: rest =>
    match removeNth unused skip with
    | none => .error .indexError
    | some (x, unused') => match constructFrom unused' rest with
      | .ok r => .ok (x :: r)
      | .error e => .error e

/-- `construct_permutation(inversion_sequence, orig_n)`: each entry says how
    many still-unused numbers to skip. -/
def constructPermutation (inv : List Nat) (n : Nat) : Except PyErr (List Nat) :=
  constructFrom (List.range n) inv

/-- `compute_jth_permutation_prefix(n, m, j)` -/
def jthPermutationPrefix (n m j : Nat) : Except PyErr (List Nat) :=
  match jthInversionSequence n m j with
  | .ok inv => constructPermutation inv n
  | .error e => .error e

/-- `count_remaining_permutations(counters)` = (Σc)! / Π c! -/
def countRemaining (cs : List Nat) : Nat :=
  factorial cs.sum / (cs.map factorial).foldl (· * ·) 1

def decAt : List Nat → Nat → List Nat
  | [], _ => []
  | c :: cs, 0 => (c - 1) :: cs
  | c :: cs, i + 1 => c :: decAt cs i

/-- the inner `while i < q` scan of `_construct_permutation_with_copies` -/
def pickNext (counters : List Nat) (q : Nat) : Nat → Nat → Nat → Option (Nat × Nat)
  | 0, _, _ => none
  | fuel + 1, i, idx =>
    if i < q then
      match counters[i]? with
      | none => none                       -- IndexError in Python; reported as failure below
      | some c =>
        if c > 0 then
          let n := countRemaining (decAt counters i)
          if idx ≥ n then pickNext counters q fuel (i + 1) (idx - n)
          else some (i, idx)
        else pickNext counters q fuel (i + 1) idx
    else none

/-- `_construct_permutation_with_copies(idx, q, fill_n, counters)` -/
def constructWithCopies (q : Nat) : Nat → Nat → List Nat → Except PyErr (List Nat)
  | 0, _, _ => .ok []
  | fill + 1, idx, counters =>
    match pickNext counters q (q + 1) 0 idx with
    | none => .error .assertionError       -- `assert i < q`
    | some (i, idx') =>
      match constructWithCopies q fill idx' (decAt counters i) with
      | .ok r => .ok (i :: r)
      | .error e => .error e

/-- `construct_permutation_with_copies(idx, q, m)` -/
def constructPermutationWithCopies (idx q m : Nat) : Except PyErr (List Nat) :=
  constructWithCopies q (q * m) idx (List.replicate q m)

/-- `construct_permutation_with_varying_copies(idx, q, counters)` -/
def constructPermutationWithVaryingCopies (idx q : Nat) (counters : List Nat) : Except PyErr (List Nat) :=
  constructWithCopies q counters.sum idx counters

/-- `count_interleavings(v, need_n)` = C(need_n, v) -/
def countInterleavings (v need : Nat) : Nat := countRemaining [need - v, v]

/-- Per-element availability: `counters` (Python list) or uniform `m`. -/
inductive Avail where
  | uniform (m : Nat)
  | counters (cs : List Nat)
  deriving Repr, Inhabited

def Avail.at (a : Avail) (i : Nat) : Nat :=
  match a with
  | .uniform m => m
  | .counters cs => cs.getD i 0

def Avail.after (a : Avail) (q i : Nat) : Nat :=
  match a with
  | .uniform m => (q - i) * m
  | .counters cs => (cs.drop i).sum

/-- Number of prefixes of length `need` that use only choices `start … q-1`,
    choice `i` at most `a.at i` times.  (`recur` of
    `recur_count_prefixes_of_permutations_with_copies`; also what the
    continuation machine delivers for a `DoCount` frame.)  Fuel: `q - start`. -/
def countFrom (a : Avail) (q : Nat) : Nat → Nat → Nat → Nat
  | 0, _, need => if need = 0 then 1 else 0
  | fuel + 1, start, need =>
    if need = 0 then 1
    else if start ≥ q then 0
    else if a.after q start < need then 0
    else
      (List.range (min (a.at start) need + 1)).foldl
        (fun acc v => acc + countFrom a q fuel (start + 1) (need - v) * countInterleavings v need) 0

/-- `buckets_to_counters`: allocations for choices 0,1,… (given newest first), padded to `q`. -/
def bucketsToCounters (bucketsRev : List Nat) (q : Nat) : List Nat :=
  let b := bucketsRev.reverse
  (b ++ List.replicate (q - b.length) 0).take (max q b.length)

/-- Find mode of the continuation machine, without memo: walk the allocations
    in depth-first order (`v = 0, 1, …` for each choice); a leaf (all of
    `first_n` allocated) accounts for `mult` permutations.  Result: the
    permutation (`inl`) or the index still to skip (`inr`). -/
def findFrom (a : Avail) (q firstN : Nat) : Nat → Nat → Nat → List Nat → Nat → Nat →
    Except PyErr (Sum (List Nat) Nat)
  | 0, _, need, buckets, mult, find =>
    if need = 0 then
      if find < mult then
        match constructWithCopies q firstN find (bucketsToCounters buckets q) with
        | .ok p => .ok (.inl p)
        | .error e => .error e
      else .ok (.inr (find - mult))
    else .ok (.inr find)
  | fuel + 1, start, need, buckets, mult, find =>
    if need = 0 then
      if find < mult then
        match constructWithCopies q firstN find (bucketsToCounters buckets q) with
        | .ok p => .ok (.inl p)
        | .error e => .error e
      else .ok (.inr (find - mult))
    else if start ≥ q then .ok (.inr find)
    else if a.after q start < need then .ok (.inr find)
    else
      (List.range (min (a.at start) need + 1)).foldl
        (fun acc v =>
          match acc with
          | .ok (.inr f) =>
            findFrom a q firstN fuel (start + 1) (need - v) (v :: buckets) (countInterleavings v need * mult) f
          | other => other)
        (.ok (.inr find))

/-- `count_prefixes_of_permutations_with_copies(q, m_or_counters, first_n, memo)` -/
def countPrefixes (q : Nat) (a : Avail) (firstN : Nat) : Nat :=
  match a with
  | .uniform m => if firstN ≤ m then q ^ firstN else countFrom a q q 0 firstN
  | .counters _ => countFrom a q q 0 firstN

/-- `count_permutations_with_copies(q, m, first_n)` -/
def countPermutationsWithCopies (q m firstN : Nat) : Nat :=
  if q * m = firstN then factorial (q * m) / (factorial m) ^ q
  else countPrefixes q (.uniform m) firstN

/-- `compute_jth_prefix_of_permutations_with_copies(q, m_or_counters, first_n, j, memo)`;
    `none` when `j` is not below the count (Python then returns the count, an int). -/
def jthPrefix (q : Nat) (a : Avail) (firstN j : Nat) : Except PyErr (Option (List Nat)) :=
  let general :=
    match findFrom a q firstN q 0 firstN [] 1 j with
    | .ok (.inl p) => .ok (some p)
    | .ok (.inr _) => .ok none
    | .error e => .error e
  match a with
  | .uniform m =>
    if firstN ≤ m then
      match jthCombination firstN q j with
      | .ok c => .ok (some c)
      | .error e => .error e
    else general
  | .counters _ => general

end SPModel.Comb
