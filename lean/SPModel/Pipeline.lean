/-
  L7 — model of `Block.build_backend_request` / `server.build_cnf`: every
  constraint class's `apply`, in the order of `block.constraints`, threading the
  fresh-variable counter, then Tseitin conversion of each formula (as
  `block.cnf_fn` does inside `apply`) and the cardinality encodings of
  `combine_cnf_with_requests`.

  Input (`PInput`) = what the numbering and the formulas depend on: the layout
  of the active design, the block's geometry as computed by `_create` (trial
  count, alignment, per-crossing size / preamble / weight and the list of
  allowed combinations with their weights), and the constraint list with the
  data each constraint carries (level, k, its `within_block` geometry, the
  dependent-index lists of a `Derivation`).  The geometry itself is *data*
  here (the harness reads it from the block); `Spec.geo` is the documented
  arithmetic it is compared with (C16).
-/
import SPModel.Layout
import SPModel.Compile
import SPModel.Logic
import SPModel.Card

namespace SPModel.Pipeline
open SPModel Layout

structure PCrossing where
  factors : List Nat              -- indices into the layout's factor list
  combos : List (List Nat)        -- allowed combinations: one level index per factor
  weights : List Nat              -- per combination: level weights × sustain count
  size : Nat                      -- crossing_size(c)
  preamble : Nat                  -- preamble_size(c) (already the unified one for POST_PREAMBLE)
  weight : Nat                    -- crossing_weight(c)
  deriving Repr, Inhabited

/-- an entry of a `Derivation`'s dependent index list -/
inductive Dep where
  | var (x : Nat)                 -- 0-based variable index (already shifted by `shift_window`)
  | before (readyAt : Nat)        -- `BeforeStart(ready_at)`
  deriving Repr, Inhabited

inductive PConstraint where
  | cross | consistency | sustain
  | exclude (f l : Nat)
  | pin (idx : Int) (f l : Nat) (within : Option (Nat × Nat)) (sustain : Nat)
  | atMost (k f l : Nat) (within : Option (Nat × Nat))
  | atLeast (k f l : Nat) (within : Option (Nat × Nat))
  | exactlyInARow (k f l : Nat) (within : Option (Nat × Nat))
  | exactlyK (k f l : Nat) (within : Option (Nat × Nat))
  | sequential (f : Nat) (preamble : Nat)
  | derivation (derivedIdx : Nat) (deps : List (List Dep)) (f : Nat) (startDelta : Int)
  | noop
  deriving Repr, Inhabited

structure PInput where
  layout : LBlock
  crossings : List PCrossing
  constraints : List PConstraint
  postPreamble : Bool             -- alignment is POST_PREAMBLE
  commonPreamble : Nat            -- `preamble_size()` without argument (POST_PREAMBLE only)
  deriving Repr, Inhabited

/-- what `apply` appends to `backend_request.cnfs`: a formula that went through `cnf_fn` at a given
    fresh counter, or a raw `And` of integers -/
inductive CnfItem where
  | tseitin (f : Formula) (fresh : Nat)
  | raw (lits : List Int)
  deriving Repr, Inhabited

structure Backend where
  fresh : Nat
  cnfs : List CnfItem             -- in order
  reqs : List Request             -- in order
  err : Option PyErr := none      -- the first exception an `apply` raised
  deriving Repr, Inhabited

def Backend.fail (b : Backend) (e : PyErr) : Backend :=
  if b.err.isSome then b else { b with err := some e }

def trials (p : PInput) : Nat := p.layout.trials
def vpt (p : PInput) : Nat := variablesPerTrial p.layout
def factorAt (p : PInput) (i : Nat) : LFactor := p.layout.factors.getD i default

/-- `map_block_trial_ranges(within_block, proc)`: the (start, end) pairs -/
def ranges (p : PInput) (within : Option (Nat × Nat)) : List (Nat × Nat) :=
  let n := trials p
  match within with
  | none => if 0 < n then [(0, n)] else []
  | some (len, pre) =>
    let start := if p.postPreamble then p.commonPreamble - pre else 0
    let step := len - pre
    if step = 0 then (if start < n - pre then [(start, len)] else [])     -- (the Python loop would not terminate)
    else (List.range (n + 1)).filterMap (fun j =>
      -- `start` and `end` both advance by `step`; `end` starts at `within_block.num_trials`
      if start + j * step < n - pre then some (start + j * step, len + j * step) else none)

/-- `variables_for_factor(f, start, end)` with Python's `end if end else trials` -/
def varsForFactorIn (p : PInput) (f : LFactor) (start stop : Nat) : Nat :=
  let stop' := if stop = 0 then trials p else stop
  f.nlevels * ((List.range (stop' - start)).filter (fun u => appliesTrial f (start + u + 1))).length

/-- `build_variable_lists((f, l), within)`: 1-based variables of level `l` of factor `i`, one list per range -/
def variableLists (p : PInput) (i l : Nat) (within : Option (Nat × Nat)) : List (List Int) :=
  let f := factorAt p i
  (ranges p within).map (fun r =>
    if f.complex then
      let n := varsForFactorIn p f r.1 r.2 / f.nlevels
      let before := if r.1 > 0 then varsForFactorIn p f 0 r.1 / f.nlevels else 0
      let startIdx := firstVariableForLevel p.layout i l + 1
      (List.range n).map (fun v => ((startIdx + (v + before) * f.nlevels : Nat) : Int))
    else
      let first := firstVariableForLevel p.layout i l + 1 + r.1 * vpt p
      (List.range (r.2 - r.1)).map (fun j => ((first + j * vpt p : Nat) : Int)))

def enc (p : PInput) (i l t : Nat) : Int := ((encodeVar p.layout i l t : Nat) : Int)

def lit (x : Int) : Formula := .lit x

/-- run one formula through `cnf_fn` -/
def pushFormula (b : Backend) (f : Formula) : Backend :=
  let r := toCnfTseitin f b.fresh
  { b with cnfs := b.cnfs ++ [.tseitin f b.fresh], fresh := r.next }

/-- `Consistency.apply` -/
def applyConsistency (p : PInput) (b : Backend) : Backend :=
  let simple := p.layout.factors.filter (fun f => !f.complex)
  -- grid part: for each trial, for each non-complex factor, EQ 1 over its consecutive variables
  let grid := (List.range (trials p)).foldl (fun (acc : Nat × List Request) _ =>
    simple.foldl (fun (acc : Nat × List Request) f =>
      (acc.1 + f.nlevels, acc.2 ++ [{ rel := .eq, k := 1, vars := (List.range f.nlevels).map (fun j => ((acc.1 + j : Nat) : Int)) }])) acc)
    (1, [])
  let cplx := p.layout.factors.filter (·.complex)
  let rest := cplx.foldl (fun (acc : Nat × List Request) f =>
    let nvars := variablesForFactor p.layout f
    let chunks := (List.range (if f.nlevels = 0 then 0 else (nvars + f.nlevels - 1) / f.nlevels)).map (fun c =>
      ((List.range nvars).drop (c * f.nlevels)).take f.nlevels |>.map (fun n => ((n + acc.1 : Nat) : Int)))
    (acc.1 + nvars, acc.2 ++ chunks.map (fun v => { rel := .eq, k := 1, vars := v }))) (grid.1, [])
  { b with reqs := b.reqs ++ grid.2 ++ rest.2 }

/-- `Cross.__add_weight_constraint` -/
def weightRequests (vars : List Int) (weight size cweight : Nat) : List Request :=
  let chunk := size * cweight
  if chunk = 0 then [] else
  (List.range ((vars.length + chunk - 1) / chunk)).map (fun j =>
    let rest := vars.drop (j * chunk)
    if rest.length ≥ chunk then { rel := .eq, k := weight * cweight, vars := rest.take chunk }
    else { rel := .lt, k := weight * cweight + 1, vars := rest })

/-- `Cross.apply`, one crossing -/
def crossStep (p : PInput) (b : Backend) (c : PCrossing) : Backend :=
  -- `crossing_combinations[0]` with no crossing trial
  if trials p ≤ c.preamble then b.fail .indexError else
  let crossingTrials := (List.range (trials p - c.preamble)).map (fun j => c.preamble + 1 + j)
  let ncomb := c.combos.length
  let stateVar := fun (ti ci : Nat) => ((b.fresh + ti * ncomb + ci : Nat) : Int)
  let iffs := (List.range crossingTrials.length).flatMap (fun ti =>
    (List.range ncomb).map (fun ci =>
      let combo := c.combos.getD ci []
      let t := crossingTrials.getD ti 0
      Formula.iff (lit (stateVar ti ci)) (.and ((c.factors.zip combo).map (fun fl => lit (enc p fl.1 fl.2 t))))))
  let reqs := (List.range ncomb).flatMap (fun ci =>
    weightRequests ((List.range crossingTrials.length).map (fun ti => stateVar ti ci)) (c.weights.getD ci 0) c.size c.weight)
  let fresh' := b.fresh + crossingTrials.length * ncomb
  let r := toCnfTseitin (.and iffs) fresh'
  { b with fresh := r.next, cnfs := b.cnfs ++ [.tseitin (.and iffs) fresh'], reqs := b.reqs ++ reqs }

/-- `Cross.apply` -/
def applyCross (p : PInput) (b : Backend) : Backend := p.crossings.foldl (crossStep p) b

/-- `Sustain.apply` -/
def applySustain (p : PInput) (b : Backend) : Backend :=
  let iffs := (List.range p.layout.factors.length).flatMap (fun i =>
    let f := factorAt p i
    (List.range f.nlevels).flatMap (fun l =>
      (variableLists p i l none).flatMap (fun vars =>
        (List.range vars.length).map (fun j =>
          Formula.iff (lit (vars.getD j 0)) (lit (vars.getD ((j / f.sustain) * f.sustain) 0))))))
  pushFormula b (.and iffs)

/-- `get_trial_numbers(f, idx, within)` with the sustain count the constraint's geometry records for `f` -/
def trialNumbers (p : PInput) (idx : Int) (within : Option (Nat × Nat)) (s : Nat) : List Nat :=
  (ranges p within).flatMap (fun r =>
    let t : Int := if idx < 0 then (r.2 : Int) + (s : Int) * idx else (r.1 : Int) + (s : Int) * idx
    if (r.1 : Int) ≤ t ∧ t < (r.2 : Int) then (List.range s).map (fun j => t.toNat + j) else [])

/-- `Derivation.__apply_derivation` (factor without complex window) -/
def derivationSimple (p : PInput) (derivedIdx : Nat) (deps : List (List Dep)) : Formula :=
  .and ((List.range (trials p)).map (fun n =>
    let orc := Formula.or (deps.map (fun l => Formula.and (l.map (fun x => match x with
      | .var v => lit ((v + n * vpt p + 1 : Nat) : Int)
      | .before _ => lit 0))))
    Formula.iff (lit ((derivedIdx + n * vpt p + 1 : Nat) : Int)) orc))

/-- size of one trial's worth of variables for the factor that owns 0-based variable `x` -/
def trialSizeOf (p : PInput) (x : Nat) : Option Nat :=
  if x < gridVariables p.layout then some (vpt p)
  else match decodeVariable p.layout (x + 1) with
    | some (i, _) => some (factorAt p i).nlevels
    | none => none                 -- `decode_variable` raises RuntimeError

/-- `Derivation.__apply_derivation_with_complex_window` -/
def derivationComplex (p : PInput) (derivedIdx : Nat) (deps : List (List Dep)) (fi : Nat) (startDelta : Int) :
    Option Formula :=
  let f := factorAt p fi
  let s := f.sustain
  let delta : Int := startDelta * (s : Int)
  let steps := (List.range ((trials p + s - 1) / (if s = 0 then 1 else s))).map (fun j => j * s)
  -- state: (t, iffs so far, failed)
  let res := steps.foldl (fun (acc : Nat × List Formula × Bool) n =>
    if !(applies f (n / (if s = 0 then 1 else s) + 1)) then acc else
    let t := acc.1
    -- per dependent list: `none` = dropped, `some vs` = kept; the Bool records a RuntimeError
    let ands := deps.foldl (fun (a : List Formula × Bool) l =>
      let r := l.foldl (fun (st : Option (List Formula) × Bool) x =>
        match st.1 with
        | none => st
        | some vs =>
          match x with
          | .before ready => if ready ≤ n / (if s = 0 then 1 else s) then (none, st.2) else st
          | .var v =>
            match trialSizeOf p v with
            | none => (none, true)
            | some sz =>
              let nx : Int := (v : Int) + (((t : Int) * (f.stride : Int) + delta) * (sz : Int) + 1)
              if nx ≤ 0 then (none, st.2) else (some (vs ++ [lit nx]), st.2)) (some [], false)
      match r.1 with
      | some vs => (a.1 ++ [Formula.and vs], a.2 || r.2)
      | none => (a.1, a.2 || r.2)) ([], false)
    (t + s, acc.2.1 ++ [Formula.iff (lit ((derivedIdx + t * f.nlevels + 1 : Nat) : Int)) (.or ands.1)], acc.2.2 || ands.2))
    (0, [], false)
  if res.2.2 then none else some (.and res.2.1)

def applyConstraint (p : PInput) (b : Backend) : PConstraint → Backend
  | .noop => b
  | .consistency => applyConsistency p b
  | .cross => applyCross p b
  | .sustain => applySustain p b
  | .exclude f l =>
    (variableLists p f l none).foldl (fun b vars => { b with cnfs := b.cnfs ++ [.raw (vars.map (fun v => -v))] }) b
  | .pin idx f l within s =>
    match trialNumbers p idx within s with
    | [] => { b with cnfs := b.cnfs ++ [.raw [1, -1]] }
    | ts => ts.foldl (fun b t => { b with cnfs := b.cnfs ++ [.raw [enc p f l (t + 1)]] }) b
  | .atMost k f l within =>
    { b with reqs := b.reqs ++ (variableLists p f l within).flatMap (Compile.atMostRequests k) }
  | .exactlyK k f l within =>
    (variableLists p f l within).foldl (fun b vars =>
      match Compile.exactlyK k vars with
      | .request r => { b with reqs := b.reqs ++ [r] }
      | .contradiction => { b with cnfs := b.cnfs ++ [.raw [1, -1]] }) b
  | .atLeast k f l within =>
    pushFormula b (.and ((variableLists p f l within).flatMap (Compile.atLeastFormulas k)))
  | .exactlyInARow k f l within =>
    -- the implication list accumulates over the ranges and is converted after each range
    ((variableLists p f l within).foldl (fun (acc : List Formula × Backend) vars =>
      let imps := acc.1 ++ Compile.exactlyInARowFormulas k vars
      (imps, pushFormula acc.2 (.and imps))) ([], b)).2
  | .sequential f pre =>
    let fac := factorAt p f
    let s := if fac.sustain = 0 then 1 else fac.sustain
    let steps := (List.range ((trials p - pre + s - 1) / s)).map (fun j => pre + j * s)
    let ands := steps.flatMap (fun i =>
      let use := if fac.nlevels = 0 then 0 else ((i - pre) / s) % fac.nlevels
      (List.range fac.nlevels).map (fun l =>
        if l = use then lit (enc p f l (i + 1)) else Formula.not (lit (enc p f l (i + 1)))))
    pushFormula b (.and ands)
  | .derivation derivedIdx deps f startDelta =>
    if derivedIdx < gridVariables p.layout then pushFormula b (derivationSimple p derivedIdx deps)
    else match derivationComplex p derivedIdx deps f startDelta with
      | some g => pushFormula b g
      | none => b.fail .runtimeError

/-- `build_backend_request()` -/
def buildBackend (p : PInput) : Backend :=
  p.constraints.foldl (applyConstraint p) { fresh := variablesPerSample p.layout + 1, cnfs := [], reqs := [] }

/-- the integer clauses of `backend_request.get_cnfs_as_json()` -/
def cnfsJson (b : Backend) : Cnf :=
  b.cnfs.flatMap (fun it => match it with
    | .tseitin f fresh => (toCnfTseitin f fresh).cnf
    | .raw lits => lits.map (fun l => [l]))

/-- `server.build_cnf(block)`: the clause list (`_vals` order) of the combined CNF -/
def buildCnf (p : PInput) : Except PyErr Cnf :=
  let b := buildBackend p
  match b.err with
  | some e => .error e
  | none => combineCnfWithRequests (cnfsJson b) (b.fresh - 1) b.reqs

end SPModel.Pipeline
