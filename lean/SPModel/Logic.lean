/-
  L1 — model of `sweetpea/_internal/logic.py`: formulas over integer literals,
  the Tseitin conversion with its cache, the naive and the switching
  conversions, and `cnf_to_json`.
-/
import SPModel.Basic

namespace SPModel

/-- `FormulaWithIff`: ints, `And`, `Or`, `Not`, `If`, `Iff`. -/
inductive Formula where
  | lit (i : Int)
  | and (l : List Formula)
  | or (l : List Formula)
  | not (f : Formula)
  | imp (p q : Formula)
  | iff (p q : Formula)
  deriving Repr, Inhabited, BEq

namespace Formula

mutual
def eval (τ : Assign) : Formula → Bool
  | .lit i => litVal τ i
  | .and l => evalAll τ l
  | .or l => evalAny τ l
  | .not f => !(eval τ f)
  | .imp p q => !(eval τ p) || eval τ q
  | .iff p q => eval τ p == eval τ q
def evalAll (τ : Assign) : List Formula → Bool
  | [] => true
  | f :: fs => eval τ f && evalAll τ fs
def evalAny (τ : Assign) : List Formula → Bool
  | [] => false
  | f :: fs => eval τ f || evalAny τ fs
end

end Formula

/-! ## Tseitin -/

/-- A literal of an emitted Tseitin clause: Python writes `Not(v)` or `v`
    around an int `v` (which may itself be negative). -/
structure TLit where
  neg : Bool
  v : Int
  deriving Repr, DecidableEq, Inhabited

def TLit.toInt (l : TLit) : Int := if l.neg then -l.v else l.v
def TLit.toFormula (l : TLit) : Formula := if l.neg then .not (.lit l.v) else .lit l.v

/-- Cache key: `str()` of a namedtuple of ints is injective in constructor and fields. -/
inductive TKey where
  | and (l : List Int) | or (l : List Int) | not (c : Int) | imp (p q : Int) | iff (p q : Int)
  deriving Repr, DecidableEq, Inhabited

structure TState where
  next : Nat
  /-- newest first -/
  cache : List (TKey × Nat)
  /-- emitted clauses, newest first -/
  clauses : List (List TLit)
  deriving Repr, Inhabited

def TState.lookup (s : TState) (k : TKey) : Option Nat :=
  (s.cache.find? (fun e => e.1 == k)).map (·.2)

def pos (v : Int) : TLit := ⟨false, v⟩
def ngt (v : Int) : TLit := ⟨true, v⟩

/-- `cache.get(key)` followed by the "record the equivalences if the cache
    missed" step; `defs r` are the clauses for a fresh representative `r`,
    in emission order. -/
def TState.getOrDefine (s : TState) (k : TKey) (defs : Int → List (List TLit)) : Int × TState :=
  match s.lookup k with
  | some v => ((v : Int), s)
  | none =>
    let r : Int := (s.next : Int)
    (r, { next := s.next + 1, cache := (k, s.next) :: s.cache,
          clauses := (defs r).reverse ++ s.clauses })

mutual
/-- `__tseitin_rep` -/
def tseitinRep : Formula → TState → Int × TState
  | .lit i, s => (i, s)
  | .and l, s =>
    let (vs, s1) := tseitinReps l s
    s1.getOrDefine (.and vs) (fun r => (vs.map ngt ++ [pos r]) :: vs.map (fun v => [pos v, ngt r]))
  | .or l, s =>
    let (vs, s1) := tseitinReps l s
    s1.getOrDefine (.or vs) (fun r => (vs.map pos ++ [ngt r]) :: vs.map (fun v => [ngt v, pos r]))
  | .imp p q, s =>
    let (a, s1) := tseitinRep p s
    let (b, s2) := tseitinRep q s1
    s2.getOrDefine (.imp a b) (fun r => [[ngt a, pos b, ngt r], [pos a, pos r], [ngt b, pos r]])
  | .iff p q, s =>
    let (a, s1) := tseitinRep p s
    let (b, s2) := tseitinRep q s1
    s2.getOrDefine (.iff a b) (fun r =>
      [[pos a, pos b, pos r], [ngt a, ngt b, pos r], [pos a, ngt b, ngt r], [ngt a, pos b, ngt r]])
  | .not f, s =>
    let (a, s1) := tseitinRep f s
    s1.getOrDefine (.not a) (fun r => [[pos a, pos r], [ngt a, ngt r]])
def tseitinReps : List Formula → TState → List Int × TState
  | [], s => ([], s)
  | f :: fs, s =>
    let (v, s1) := tseitinRep f s
    let (vs, s2) := tseitinReps fs s1
    (v :: vs, s2)
end

structure TseitinResult where
  /-- the `Or` conjuncts, in order -/
  clauses : List (List TLit)
  /-- the bare integer appended last -/
  root : Int
  next : Nat
  deriving Repr, Inhabited

/-- `to_cnf_tseitin(f, next_variable)` -/
def toCnfTseitin (f : Formula) (next : Nat) : TseitinResult :=
  let (r, s) := tseitinRep f { next := next, cache := [], clauses := [] }
  { clauses := s.clauses.reverse, root := r, next := s.next }

/-- The formula tree Python returns: `And([Or([...]), …, root])`. -/
def TseitinResult.toFormula (t : TseitinResult) : Formula :=
  .and (t.clauses.map (fun c => Formula.or (c.map TLit.toFormula)) ++ [.lit t.root])

/-- The integer clauses of the result (what `cnf_to_json` yields for it). -/
def TseitinResult.cnf (t : TseitinResult) : Cnf :=
  t.clauses.map (fun c => c.map TLit.toInt) ++ [[t.root]]

/-! ## `cnf_to_json` -/

def jsonLit : Formula → Except PyErr Int
  | .lit n => .ok n
  | .not (.lit n) => .ok (-n)
  | .not _ => .error .typeError          -- `-n.c` on a tuple
  | _ => .error .valueError

def jsonLits : List Formula → Except PyErr (List Int)
  | [] => .ok []
  | f :: fs => match jsonLit f with
    | .error e => .error e
    | .ok i => match jsonLits fs with
      | .error e => .error e
      | .ok is => .ok (i :: is)

def jsonConjunct : Formula → Except PyErr (List Int)
  | .or l => jsonLits l
  | .lit n => .ok [n]
  | .not (.lit n) => .ok [-n]
  | _ => .error .valueError

def jsonConjuncts : List Formula → Except PyErr Cnf
  | [] => .ok []
  | f :: fs => match jsonConjunct f with
    | .error e => .error e
    | .ok c => match jsonConjuncts fs with
      | .error e => .error e
      | .ok cs => .ok (c :: cs)

/-- `cnf_to_json(formulas)`: every element must be an `And`. -/
def cnfToJson : List Formula → Except PyErr Cnf
  | [] => .ok []
  | .and l :: rest => match jsonConjuncts l with
    | .error e => .error e
    | .ok cs => match cnfToJson rest with
      | .error e => .error e
      | .ok ds => .ok (cs ++ ds)
  | .or l :: rest => match jsonConjuncts l with     -- `Or` has an `input_list` too
    | .error e => .error e
    | .ok cs => match cnfToJson rest with
      | .error e => .error e
      | .ok ds => .ok (cs ++ ds)
  | _ :: _ => .error .typeError          -- `.input_list` of something that has none (AttributeError for ints)

/-! ## Naive conversion -/

/-- `__order_clauses` (repaired: `Not` of a compound sorts as 0). -/
def orderKey : Formula → Int
  | .lit i => i
  | .not (.lit i) => i
  | _ => 0

def insertByKey (x : Int × Formula) : List (Int × Formula) → List (Int × Formula)
  | [] => [x]
  | y :: ys => if x.1 ≤ y.1 then x :: y :: ys else y :: insertByKey x ys

/-- Stable sort by key (what `list.sort(key=…)` does). -/
def sortByKey (l : List (Int × Formula)) : List (Int × Formula) :=
  l.foldr (fun x acc => insertByKey x acc) []

def sortFormulas (l : List Formula) : List Formula :=
  (sortByKey (l.map (fun f => (orderKey f, f)))).map (·.2)

def flattenAnd : List Formula → List Formula
  | [] => []
  | .and l :: rest => l ++ flattenAnd rest
  | f :: rest => f :: flattenAnd rest

def flattenOr : List Formula → List Formula
  | [] => []
  | .or l :: rest => l ++ flattenOr rest
  | f :: rest => f :: flattenOr rest

/-- `__build_and` / `__build_or` -/
def buildAnd (l : List Formula) : Formula := .and (sortFormulas (flattenAnd l))
def buildOr (l : List Formula) : Formula := .or (sortFormulas (flattenOr l))

mutual
/-- `__eliminate_iff` -/
def elimIff : Formula → Formula
  | .lit i => .lit i
  | .and l => .and (elimIffs l)
  | .or l => .or (elimIffs l)
  | .not f => .not (elimIff f)
  | .imp p q => .or [.not (elimIff p), elimIff q]
  | .iff p q => .and [.or [elimIff p, .not (elimIff q)], .or [.not (elimIff p), elimIff q]]
def elimIffs : List Formula → List Formula
  | [] => []
  | f :: fs => elimIff f :: elimIffs fs
end

/-- key of `Not(c)` under `__order_clauses` -/
def notKey : Formula → Int
  | .lit i => i
  | _ => 0

mutual
/-- `__apply_demorgan f` is `demorgan false f`; `demorgan true c` is
    `__apply_demorgan(Not(c))`.  The intermediate `__build_or(map Not l)` of
    the Python code only sorts (its elements are all `Not`), by the key of
    `Not(c)`; sorting before or after mapping is the same for a stable sort. -/
def demorgan : Bool → Formula → Formula
  | false, .lit i => .lit i
  | true, .lit i => .not (.lit i)
  | false, .and l => buildAnd ((demorgans false l).map (·.2))
  | false, .or l => buildOr ((demorgans false l).map (·.2))
  | true, .and l => buildOr ((sortByKey (demorgans true l)).map (·.2))
  | true, .or l => buildAnd ((sortByKey (demorgans true l)).map (·.2))
  | neg, .not f => demorgan (!neg) f
  -- not reachable after `elimIff`; Python falls through and returns None
  | _, .imp p q => .imp p q
  | _, .iff p q => .iff p q
def demorgans : Bool → List Formula → List (Int × Formula)
  | _, [] => []
  | neg, f :: fs => (notKey f, demorgan neg f) :: demorgans neg fs
end

/-- `__get_list_for_crossing` -/
def listForCrossing : Formula → List Formula
  | .and l => l
  | .or l => l
  | f => [f]

/-- `itertools.product(*lists)` as lists. -/
def product : List (List Formula) → List (List Formula)
  | [] => [[]]
  | l :: ls => l.flatMap (fun x => (product ls).map (fun t => x :: t))

mutual
/-- `__distribute_ors_naive` -/
def distNaive : Formula → Formula
  | .and l => buildAnd (distNaives l)
  | .or l => buildAnd ((product ((distNaives l).map listForCrossing)).map buildOr)
  | f => f
def distNaives : List Formula → List Formula
  | [] => []
  | f :: fs => distNaive f :: distNaives fs
end

/-- `to_cnf_naive(f, next_variable)`: the formula (always an `And`). -/
def toCnfNaive (f : Formula) : Formula :=
  match distNaive (demorgan false (elimIff f)) with
  | .and l => .and l
  | g => .and [g]

/-! ## Switching conversion -/

def isAnd : Formula → Bool
  | .and _ => true
  | _ => false

def isAtom : Formula → Bool
  | .lit _ => true
  | .not _ => true
  | _ => false

/-- `__naive_combination(clauses)` (at least two clauses) -/
def naiveCombination (c0 c1 : Formula) (rest : List Formula) : Formula :=
  let crossing := (listForCrossing c0).flatMap (fun x => (listForCrossing c1).map (fun y => [x, y]))
  let combination := Formula.and (crossing.map (fun l => Formula.or (sortFormulas (flattenOr l))))
  if rest.isEmpty then combination else buildOr (combination :: rest)

/-- `__switching_combination(clauses, fresh)` -/
def switchingCombination (c0 c1 : Formula) (rest : List Formula) (fresh : Nat) : Formula × Nat :=
  let combination := Formula.and [.or [.not (.lit fresh), c0], .or [.lit fresh, c1]]
  (if rest.isEmpty then combination else buildOr (combination :: rest), fresh + 1)

/-- `__distribute_ors_switching(f, fresh)`.  The Python function re-enters
    itself on rebuilt formulas; the model takes fuel and reports exhaustion as
    a `RuntimeError` (Python: `RecursionError`). -/
def distSwitch : Nat → Formula → Nat → Except PyErr (Formula × Nat)
  | 0, _, _ => .error .runtimeError
  | fuel + 1, f, fresh =>
    match f with
    | .lit i => .ok (.lit i, fresh)
    | .not (.lit i) => .ok (.not (.lit i), fresh)
    | .not _ => .error .assertionError
    | .and l =>
      match l.foldlM (fun (acc : List Formula × Nat) e =>
          match distSwitch fuel e acc.2 with
          | .ok (g, fr) => Except.ok (acc.1 ++ [g], fr)
          | .error e => .error e) ([], fresh) with
      | .error e => .error e
      | .ok (cs, fr) => .ok (buildAnd cs, fr)
    | .or l =>
      match l.foldlM (fun (acc : List Formula × Nat) e =>
          match distSwitch fuel e acc.2 with
          | .ok (g, fr) => Except.ok (acc.1 ++ [g], fr)
          | .error e => .error e) ([], fresh) with
      | .error e => .error e
      | .ok (cs, fr) =>
        match sortFormulas cs with
        | [] => .ok (f, fresh)
        | [c] => .ok (c, fr)
        | c0 :: c1 :: rest =>
          if !((c0 :: c1 :: rest).any isAnd) then .ok (f, fresh)
          else if isAtom c0 || isAtom c1 then distSwitch fuel (naiveCombination c0 c1 rest) fr
          else
            let (g, fr') := switchingCombination c0 c1 rest fr
            distSwitch fuel g fr'
    | .imp _ _ => .ok (f, fresh)     -- not reachable after `elimIff` (Python returns None)
    | .iff _ _ => .ok (f, fresh)

/-- `to_cnf_switching(f, next_variable)` with the given fuel. -/
def toCnfSwitching (fuel : Nat) (f : Formula) (next : Nat) : Except PyErr (Formula × Nat) :=
  match distSwitch fuel (demorgan false (elimIff f)) next with
  | .error e => .error e
  | .ok (.and l, n) => .ok (.and l, n)
  | .ok (g, n) => .ok (.and [g], n)

end SPModel
