/-
  L7 (semantics) — what a `Backend` (the formulas and cardinality requests a block compiles to) *means* for an
  assignment, and the decidable well-formedness conditions under which the clause list `buildCnf` produces has
  exactly that meaning (theorems in `SPProofs.Properties.C03`).  The conditions are evaluated by the driver on the
  backend of every real block the correspondence check compiles, so they are not assumed of the code, they are checked.
-/
import SPModel.Pipeline

namespace SPModel.Pipeline
open SPModel Layout

mutual
/-- the integer literals of a formula -/
def flits : Formula → List Int
  | .lit i => [i]
  | .and l => flitsList l
  | .or l => flitsList l
  | .not f => flits f
  | .imp p q => flits p ++ flits q
  | .iff p q => flits p ++ flits q
def flitsList : List Formula → List Int
  | [] => []
  | f :: fs => flits f ++ flitsList fs
end

/-- meaning of one entry of `backend_request.cnfs` -/
def CnfItem.holds (σ : Assign) : CnfItem → Bool
  | .tseitin f _ => Formula.eval σ f
  | .raw lits => lits.all (litVal σ)

/-- meaning of a backend request: every formula true, every cardinality request met -/
def Backend.holds (b : Backend) (σ : Assign) : Bool :=
  b.cnfs.all (CnfItem.holds σ) && b.reqs.all (fun r => r.holds σ)

/-- the ranges of auxiliary variables the Tseitin conversions introduce -/
def auxRanges (cnfs : List CnfItem) : List (Nat × Nat) :=
  cnfs.filterMap (fun it => match it with
    | .tseitin f fr => some (fr, (toCnfTseitin f fr).next)
    | .raw _ => none)

def inRanges (rs : List (Nat × Nat)) (v : Nat) : Bool := rs.any (fun r => decide (r.1 ≤ v) && decide (v < r.2))

def isAux (cnfs : List CnfItem) (v : Nat) : Bool := inRanges (auxRanges cnfs) v

/-- the conversions were run at non-decreasing counters, each starting at or after the end of the previous one -/
def chainOk : Nat → List CnfItem → Nat → Bool
  | cur, [], final => decide (cur ≤ final)
  | cur, .raw _ :: rest, final => chainOk cur rest final
  | cur, .tseitin f fr :: rest, final => decide (cur ≤ fr) && chainOk (toCnfTseitin f fr).next rest final

/-- a literal that may be used: non-zero, below `bound`, and not in one of the Tseitin-auxiliary ranges `rs` -/
def litOk (rs : List (Nat × Nat)) (bound : Nat) (l : Int) : Bool :=
  decide (l ≠ 0) && decide (l.natAbs < bound) && !(inRanges rs l.natAbs)

def itemOk (rs : List (Nat × Nat)) (fresh : Nat) : CnfItem → Bool
  | .tseitin f fr => (flits f).all (litOk rs fr)
  | .raw lits => lits.all (litOk rs fresh)

/-- Well-formedness of a backend whose first fresh variable was `vps + 1`. -/
def Backend.wf (b : Backend) (vps : Nat) : Bool :=
  let rs := auxRanges b.cnfs        -- (computed once)
  chainOk (vps + 1) b.cnfs b.fresh &&
  b.cnfs.all (itemOk rs b.fresh) &&
  b.reqs.all (fun r => !r.vars.isEmpty && r.vars.all (litOk rs b.fresh))

/-- `g` is `Iff(v, And(lits over the variables 1..vps))` -/
def definesVar (vps : Nat) (v : Nat) : Formula → Bool
  | .iff (.lit x) (.and ls) =>
    decide (x = (v : Int)) && ls.all (fun l => match l with
      | .lit y => decide (y ≠ 0) && decide (y.natAbs ≤ vps)
      | _ => false)
  | _ => false

def hasDef (cnfs : List CnfItem) (vps v : Nat) : Bool :=
  cnfs.any (fun it => match it with
    | .tseitin (.and fs) _ => fs.any (definesVar vps v)
    | _ => false)

/-- every variable that is neither a design variable nor Tseitin-auxiliary (the state variables of `Cross`) is
    defined by an `Iff` over design variables -/
def Backend.statesDefined (b : Backend) (vps : Nat) : Bool :=
  let rs := auxRanges b.cnfs
  (List.range b.fresh).all (fun v => decide (v ≤ vps) || inRanges rs v || hasDef b.cnfs vps v)

/-- what the block constructors guarantee about the active design (Boolean form of `C14.WF`) -/
def layoutOk (b : LBlock) : Bool :=
  b.factors.all (fun f => decide (0 < f.stride) && decide (0 < f.sustain) && decide (0 < f.nlevels) &&
    (f.complex || (decide (f.start = 0) && decide (f.stride = 1))))

def withinOk : Option (Nat × Nat) → Bool
  | none => true
  | some (len, _) => decide (0 < len)

/-- side conditions of the per-constraint meaning theorems (Boolean form of `ConstraintOk`) -/
def constraintOk (p : PInput) : PConstraint → Bool
  | .noop | .consistency | .sustain => true
  | .cross => p.crossings.all (fun c => decide (c.preamble < trials p) && decide (0 < c.size * c.weight) &&
      c.factors.all (fun i => decide (i < p.layout.factors.length)))
  | .exclude i _ => decide (i < p.layout.factors.length)
  | .pin _ i _ _ _ => decide (i < p.layout.factors.length)
  | .atMost _ i _ within => decide (i < p.layout.factors.length) && withinOk within
  | .atLeast k i _ within => decide (0 < k) && decide (i < p.layout.factors.length) && withinOk within
  | .exactlyInARow k i _ within => decide (0 < k) && decide (i < p.layout.factors.length) && withinOk within
  | .exactlyK k i _ within => decide (0 < k) && decide (i < p.layout.factors.length) && withinOk within
  | .sequential i _ => decide (i < p.layout.factors.length)
  | .derivation _ _ _ _ => true

def inputOk (p : PInput) : Bool := layoutOk p.layout && p.constraints.all (constraintOk p)

/-- the formula a `Derivation` constraint contributes (none: not a derivation, or its `apply` raised) -/
def derivationFormula (p : PInput) : PConstraint → Option Formula
  | .derivation d deps fi sd =>
    if d < gridVariables p.layout then some (derivationSimple p d deps) else derivationComplex p d deps fi sd
  | _ => none

/-- the level a constraint names exists; the trials it looks at exist and the factor has a level there -/
def levelOk (p : PInput) : PConstraint → Bool
  | .exclude i l => decide (l < (factorAt p i).nlevels)
  | .pin idx i l within sn =>
    decide (l < (factorAt p i).nlevels) &&
    (trialNumbers p idx within sn).all (fun t =>
      decide (t < trials p) && appliesTrial (factorAt p i) (t + 1))
  | .atMost _ i l within | .atLeast _ i l within | .exactlyInARow _ i l within | .exactlyK _ i l within =>
    decide (l < (factorAt p i).nlevels) && (ranges p within).all (fun r => decide (r.2 ≤ trials p))
  | .sequential i _ => !(factorAt p i).complex
  | _ => true

/-- every level a crossing combination names exists and its factor has a level in every crossing trial -/
def crossOk (p : PInput) : Bool :=
  p.crossings.all (fun c => (List.range c.combos.length).all (fun ci =>
    (c.factors.zip (c.combos.getD ci [])).all (fun fl =>
      decide (fl.2 < (factorAt p fl.1).nlevels) &&
      (List.range (trials p + 1)).all (fun t => !(decide (c.preamble < t)) || appliesTrial (factorAt p fl.1) t))))

/-- what reading the compiled formula at the level of sequences needs beyond `inputOk`: derivations mention design
    variables only, named levels exist, and `Consistency` is among the constraints -/
def seqOk (p : PInput) : Bool :=
  p.constraints.all (fun c => match derivationFormula p c with
    | some g => (flits g).all (fun l => decide (l ≠ 0) && decide (l.natAbs ≤ variablesPerSample p.layout))
    | none => true) &&
  p.constraints.all (levelOk p) &&
  p.constraints.any (fun c => match c with | .consistency => true | _ => false)

/-- the decidable hypotheses of the C02/C03 theorems for the backend of an input:
    (backend well formed, state variables defined, input side conditions) -/
def checkWf (p : PInput) : Bool × Bool × Bool :=
  let b := buildBackend p
  (b.wf (variablesPerSample p.layout), b.statesDefined (variablesPerSample p.layout), inputOk p)

end SPModel.Pipeline
