/-
  L12 (part) — model of the output conversions and the tabulation of
  `sweetpea/_internal/main.py`: `_experiments_to_tuples`, `_experiments_to_dicts`,
  `_experiments_to_csv` (rows handed to `csv.writer`), the hidden-name filter,
  and the counting loop of `tabulate_experiments`.

  An experiment is Python's `dict` from factor name to the list of level
  values, modelled as an association list (first match = the dict's entry;
  keys are distinct in a dict).  Missing keys / short columns are explicit
  `KeyError` / `IndexError`.
-/
import SPModel.Basic

namespace SPModel.Api

abbrev Exp := List (String × List String)

def Exp.get (e : Exp) (k : String) : Except PyErr (List String) :=
  match e.find? (·.1 == k) with
  | some p => .ok p.2
  | none => .error .keyError

def getCols (e : Exp) : List String → Except PyErr (List (List String))
  | [] => .ok []
  | k :: ks => match e.get k, getCols e ks with
    | .ok c, .ok cs => .ok (c :: cs)
    | .error err, _ => .error err
    | _, .error err => .error err

/-- `zip(*cols)`: rows up to the shortest column; no columns → no rows. -/
def zipCols (cols : List (List String)) : List (List String) :=
  match cols with
  | [] => []
  | c :: cs =>
    let n := cs.foldl (fun m x => min m x.length) c.length
    (List.range n).map (fun t => cols.map (fun col => col.getD t ""))

/-- `_experiments_to_tuples(experiments, keys)` -/
def toTuples (exps : List Exp) (keys : List String) : Except PyErr (List (List (List String))) :=
  exps.mapM (fun e => match getCols e keys with
    | .ok cols => .ok (zipCols cols)
    | .error err => .error err)

/-- `dict(zip(keys, values))` as an association list in insertion order (a later duplicate key overwrites the value) -/
def mkDict (keys vals : List String) : List (String × String) :=
  (keys.zip vals).foldl (fun acc kv =>
    if acc.any (·.1 == kv.1) then acc.map (fun p => if p.1 == kv.1 then (p.1, kv.2) else p) else acc ++ [kv]) []

/-- `_experiments_to_dicts(experiments, keys)` -/
def toDicts (exps : List Exp) (keys : List String) : Except PyErr (List (List (List (String × String)))) :=
  exps.mapM (fun e => match getCols e keys with
    | .ok cols => .ok ((zipCols cols).map (mkDict keys))
    | .error err => .error err)

/-- rows written by `_experiments_to_csv` for one experiment: header, then one row per entry of the first column -/
def csvRows (e : Exp) (cols : List String) : Except PyErr (List (List String)) :=
  match cols with
  | [] => .error .indexError
  | c0 :: _ =>
    match e.get c0 with
    | .error err => .error err
    | .ok first =>
      match (List.range first.length).mapM (fun r =>
        cols.mapM (fun c => match e.get c with
          | .error err => Except.error err
          | .ok col => match col[r]? with
            | some v => .ok v
            | none => .error .indexError)) with
      | .ok rows => .ok (cols :: rows)
      | .error err => .error err

/-- the design's visible factor names (`__filter_hidden`): names tagged hidden are dropped -/
def visibleNames (design : List (String × Bool)) : List String :=
  (design.filter (fun p => !p.2)).map (·.1)

def product : List (List String) → List (List String)
  | [] => [[]]
  | l :: ls => l.flatMap (fun x => (product ls).map (fun t => x :: t))

/-- `for idx, factor in enumerate(names): if e[factor][trial] != element[idx]: break` — does trial `t` show `combo`? -/
def rowMatches (e : Exp) (t : Nat) : List String → List String → Except PyErr Bool
  | [], _ => .ok true
  | n :: ns, cs =>
    match e.get n with
    | .error err => .error err
    | .ok col =>
      match col[t]? with
      | none => .error .indexError
      | some v =>
        match cs with
        | c :: cs' => if v != c then .ok false else rowMatches e t ns cs'
        | [] => .error .indexError

/-- the counting loop of `tabulate_experiments` for one combination -/
def frequency (e : Exp) (names : List String) (trials : List Nat) (combo : List String) : Except PyErr Nat :=
  trials.foldlM (fun (acc : Nat) (t : Nat) =>
    match rowMatches e t names combo with
    | .ok true => .ok (acc + 1)
    | .ok false => .ok acc
    | .error err => .error err) 0

/-- `tabulate_experiments` for one experiment: every combination of level
    names (in `itertools.product` order) with its frequency; the percentage is
    `frequency / len(trials)` (ZeroDivisionError for no trials). -/
def tabulate (factors : List (String × List String)) (trials : List Nat) (e : Exp) :
    Except PyErr (List (List String × Nat)) :=
  (product (factors.map (·.2))).mapM (fun combo =>
    match frequency e (factors.map (·.1)) trials combo with
    | .error err => .error err
    | .ok f => if trials.isEmpty then .error .zeroDivision else .ok (combo, f))

end SPModel.Api

namespace SPModel.Api

/-- `ContinuousFactorWindow.get_window_val(idx, values)` for one factor: the
    entries for offsets `0, -1, …, -(width-1)`; `none` stands for NaN. -/
def windowVal {α} (width stride start : Nat) (vals : List α) (idx : Nat) : List (Option α) :=
  if idx < start then List.replicate width none
  else if stride > 1 ∧ (idx - start) % stride ≠ 0 then List.replicate width none
  else (List.range width).map (fun k => if k ≤ idx then vals[idx - k]? else none)

end SPModel.Api
