/-
  Basic vocabulary shared by every layer of the model: literals, clauses,
  assignments, and the Python error kinds that the model makes explicit.
  No imports outside core Lean (the driver is a native executable).
-/
namespace SPModel

abbrev Clause := List Int
abbrev Cnf := List Clause
abbrev Assign := Nat → Bool

/-- Python exception kinds the model distinguishes. -/
inductive PyErr where
  | indexError | keyError | valueError | typeError | zeroDivision
  | assertionError | runtimeError | notImplemented
  deriving Repr, DecidableEq, Inhabited

def PyErr.name : PyErr → String
  | .indexError => "IndexError"
  | .keyError => "KeyError"
  | .valueError => "ValueError"
  | .typeError => "TypeError"
  | .zeroDivision => "ZeroDivisionError"
  | .assertionError => "AssertionError"
  | .runtimeError => "RuntimeError"
  | .notImplemented => "NotImplementedError"

/-- Value of a (non-zero) DIMACS literal under an assignment. -/
def litVal (τ : Assign) (l : Int) : Bool :=
  if 0 < l then τ l.natAbs else !(τ l.natAbs)

def clauseSat (τ : Assign) (c : Clause) : Bool := c.any (litVal τ)

def cnfSat (τ : Assign) (φ : Cnf) : Bool := φ.all (clauseSat τ)

/-- `σ` and `τ` agree on the variables `1..n`. -/
def Agree (n : Nat) (σ τ : Assign) : Prop := ∀ v, 1 ≤ v → v ≤ n → σ v = τ v

/-- Number of true variables among `xs`. -/
def countTrue (τ : Assign) (xs : List Nat) : Nat := (xs.filter (fun v => τ v)).length

end SPModel
