/-
  L9 (part) — model of the run-length side of the mismatch checker
  (`_KInARow.potential_sample_conforms`): `check_sequence(start, end)` collects
  the lengths of the runs of the level inside the range and hands them to the
  class-specific `_potential_counts_conform`.
-/
import SPModel.Basic

namespace SPModel.Conform

/-- the loop of `check_sequence`: `xs[i] = true` iff trial `i` of the range has the level -/
def counts (xs : List Bool) : List Nat :=
  let r := xs.foldl (fun (p : List Nat × Nat) x =>
    if p.2 > 0 && !x then (p.1 ++ [p.2], 0)
    else if x then (p.1, p.2 + 1)
    else p) ([], 0)
  if r.2 > 0 then r.1 ++ [r.2] else r.1

inductive Kind where | atMost | atLeast | exactlyInARow | exactlyK
  deriving Repr, DecidableEq, Inhabited

/-- `_potential_counts_conform(counts)` of the four classes -/
def countsConform (kind : Kind) (k : Nat) (cs : List Nat) : Bool :=
  match kind with
  | .atMost => cs.all (· ≤ k)
  | .atLeast => cs.all (· ≥ k)
  | .exactlyInARow => cs.all (· == k)
  | .exactlyK => cs.foldl (· + ·) 0 == k

/-- conformance on one range -/
def conformsRange (kind : Kind) (k : Nat) (xs : List Bool) : Bool := countsConform kind k (counts xs)

/-! ### shared constraint objects (`init_within_block`) -/

/-- geometry recorded on a constraint object: (trials, preamble) -/
abbrev Geometry := Nat × Nat

/-- `init_within_block`: the geometry is set only if the object has none yet -/
def initWithin (cell : Option Geometry) (g : Geometry) : Option Geometry :=
  match cell with
  | some old => some old
  | none => some g

/-- the geometry a shared constraint object carries after being given to blocks with these geometries, in order -/
def afterBlocks (gs : List Geometry) : Option Geometry := gs.foldl initWithin none

/-! ### call histories on a block (C19) -/

inductive Op where
  | synthesize | print | tabulate | saveCsv | toTuples | toDicts | mismatch
  deriving Repr, DecidableEq, Inhabited

structure BlockState where
  design : List String
  continuous : List String
  deriving Repr, DecidableEq, Inhabited

/-- what each library call does to the block's design (repaired `print_experiments` no longer appends) -/
def step (s : BlockState) (_ : Op) : BlockState := s

def run (s : BlockState) (ops : List Op) : BlockState := ops.foldl step s

/-! ### SMGen's refusal logic (C29) -/

/-- does `SMGen.sample` raise its unsupported-feature error? `kinds` are the class names of the block's
    constraints, `windows` the window kinds ("within" / "transition" / "window") of the derived factors,
    `transitionArity` the number of factors each transition window depends on. -/
def smgenRefuses (nCrossings : Nat) (kinds : List String) (windows : List String) : Bool :=
  nCrossings != 1 ||
  kinds.any (fun k => k == "AtMostKInARow" || k == "AtLeastKInARow" || k == "ExactlyK" || k == "Exclude" || k == "Pin") ||
  windows.any (fun w => w != "within" && w != "transition")

end SPModel.Conform
