/-
  L2 — model of `sweetpea/_internal/core/cnf.py` (adders, population count,
  cardinality assertions) and of `combine_cnf_with_requests`
  (`core/generate/utility.py`).

  The Python `CNF` object is a clause list plus a fresh-variable counter that
  is mutated in place.  Here the builder is a value; every method returns the
  new builder.  Clauses are not stored one by one but as *items*: a gate item
  stands for the fixed clause pattern the Python code emits for one fresh
  variable (`Item.clauses` spells the pattern out, in emission order), a
  `unit` item for an assertion clause.  `Builder.clauses` is then exactly the
  Python object's `_vals` list, reversed (i.e. the order `CNF.__str__` prints).
-/
import SPModel.Basic

namespace SPModel

/-- One emission of the CNF builder. -/
inductive Item where
  | and2  (o : Nat) (a b : Int)        -- half adder carry
  | xor2  (o : Nat) (a b : Int)        -- half adder sum
  | maj3  (o : Nat) (a b c : Int)      -- full adder carry
  | xor3  (o : Nat) (a b c : Int)      -- full adder sum
  | or2   (o : Nat) (a b : Int)        -- saturating adder, no carry in
  | or3   (o : Nat) (a b c : Int)      -- saturating adder with carry in
  | notg  (o : Nat) (a : Int)          -- `flipped ⇔ ¬a` of the two's complement
  | const (o : Nat) (v : Bool)         -- `zero_out` / `set_to_one` / k-bits of a fresh variable
  | unit  (l : Int)                    -- assertion on an existing literal
  | raw   (c : Clause)                 -- any other clause
  deriving Repr, DecidableEq, Inhabited

/-- The clauses Python emits for an item, in emission (`_vals`) order. -/
def Item.clauses : Item → List Clause
  | .and2 o a b   => let c : Int := o; [[-c, a], [-c, b], [c, -a, -b]]
  | .xor2 o a b   => let s : Int := o; [[-s, a, b], [-s, -a, -b], [s, a, -b], [s, -a, b]]
  | .maj3 o a b c => let d : Int := o
      [[-d, a, b], [-d, a, c], [-d, b, c], [d, -a, -b], [d, -a, -c], [d, -b, -c]]
  | .xor3 o a b c => let s : Int := o
      [[-s, -a, -b, c], [-s, -a, b, -c], [-s, a, -b, -c], [-s, a, b, c],
       [s, -a, -b, -c], [s, -a, b, c], [s, a, -b, c], [s, a, b, -c]]
  | .or2 o a b    => let s : Int := o; [[-s, a, b], [s, -a], [s, -b]]
  | .or3 o a b c  => let s : Int := o; [[-s, a, b, c], [s, -a], [s, -b], [s, -c]]
  | .notg o a     => let f : Int := o; [[f, a], [-f, -a]]
  | .const o v    => let x : Int := o; [[if v then x else -x]]
  | .unit l       => [[l]]
  | .raw c        => [c]

structure Builder where
  nvars : Nat
  /-- newest first -/
  items : List Item
  deriving Repr, Inhabited

namespace Builder

def fromFresh (n : Nat) : Builder := { nvars := n, items := [] }

/-- Python `_vals` order (oldest first). -/
def vals (b : Builder) : List Clause := (b.items.reverse.map Item.clauses).flatten

/-- Order printed by `CNF.__str__` (newest clause first). -/
def printed (b : Builder) : List Clause := b.vals.reverse

def emit (b : Builder) (it : Item) : Builder := { b with items := it :: b.items }

/-- `get_n_fresh(n)`: the variables `nvars+1 … nvars+n`. -/
def freshN (b : Builder) (n : Nat) : List Nat × Builder :=
  ((List.range n).map (fun i => b.nvars + 1 + i), { b with nvars := b.nvars + n })

/-- `zero_out(vs)` for fresh variables. -/
def zeroOut (b : Builder) (vs : List Nat) : Builder :=
  vs.foldl (fun b v => b.emit (.const v false)) b

def halfAdder (b : Builder) (x y : Int) : (Int × Int) × Builder :=
  let c := b.nvars + 1
  let s := b.nvars + 2
  (((c : Nat), (s : Nat)), { nvars := b.nvars + 2, items := .xor2 s x y :: .and2 c x y :: b.items })

def fullAdder (b : Builder) (x y : Int) : Option Int → (Int × Int) × Builder
  | none => halfAdder b x y
  | some cin =>
    let c := b.nvars + 1
    let s := b.nvars + 2
    (((c : Nat), (s : Nat)),
      { nvars := b.nvars + 2, items := .xor3 s x y cin :: .maj3 c x y cin :: b.items })

def saturateAdder (b : Builder) (x y : Int) : Option Int → Int × Builder
  | none =>
    let s := b.nvars + 1
    ((s : Nat), { nvars := b.nvars + 1, items := .or2 s x y :: b.items })
  | some cin =>
    let s := b.nvars + 1
    ((s : Nat), { nvars := b.nvars + 1, items := .or3 s x y cin :: b.items })

/-- The loop of `ripple_carry` over the already reversed and zipped inputs
    (least significant first).  Sum bits are returned least significant first,
    as Python's `s_accum`. -/
def rippleLoop (b : Builder) (cin : Option Int) : List (Int × Int) → (Option Int × List Int) × Builder
  | [] => ((cin, []), b)
  | (x, y) :: rest =>
    let ((c, s), b1) := fullAdder b x y cin
    let ((cout, ss), b2) := rippleLoop b1 (some c) rest
    ((cout, s :: ss), b2)

/-- `ripple_carry(xs, ys)`; inputs most significant first, `zip` truncates. -/
def rippleCarry (b : Builder) (xs ys : List Int) : (Option Int × List Int) × Builder :=
  rippleLoop b none (xs.reverse.zip ys.reverse)

/-- The loop of `ripple_saturate`; `i` is Python's `enumerate` index. -/
def satLoop (b : Builder) (sat : Nat) (i : Nat) (cin : Option Int) :
    List (Int × Int) → (Option Int × List Int) × Builder
  | [] => ((cin, []), b)
  | (x, y) :: rest =>
    if i + 1 = sat then
      let (s, b1) := saturateAdder b x y cin
      let ((cout, ss), b2) := satLoop b1 sat (i + 1) cin rest
      ((cout, s :: ss), b2)
    else
      let ((c, s), b1) := fullAdder b x y cin
      let ((cout, ss), b2) := satLoop b1 sat (i + 1) (some c) rest
      ((cout, s :: ss), b2)

/-- `ripple_saturate(xs, ys, saturate_at)`; result most significant first.
    `cast(Var, cin)` of `None` (empty input shorter than `saturate_at`) is
    reported as an error instead of a `None` list element. -/
def rippleSaturate (b : Builder) (xs ys : List Int) (sat : Nat) : Except PyErr (List Int × Builder) :=
  let ((cin, ss), b1) := satLoop b sat 0 none (xs.reverse.zip ys.reverse)
  if xs.length < sat then
    match cin with
    | some c => .ok ((ss ++ [c]).reverse, b1)
    | none => .error .typeError
  else .ok (ss.reverse, b1)

/-- One pass of `_pop_count_layer` over `zip(left, right)`; `acc` collects
    `var_list` newest first, which is what `var_list.reverse()` yields. -/
def popPairs (b : Builder) (sat : Nat) (acc : List (List Int)) :
    List (List Int × List Int) → Except PyErr (List (List Int) × Builder)
  | [] => .ok (acc, b)
  | (l, r) :: rest =>
    if sat = 0 then
      let ((c, ss), b1) := rippleCarry b l r
      match c with
      | some c => popPairs b1 sat ((c :: ss.reverse) :: acc) rest
      | none => .error .typeError
    else
      match rippleSaturate b l r sat with
      | .ok (v, b1) => popPairs b1 sat (v :: acc) rest
      | .error e => .error e

def popLayer (b : Builder) (sat : Nat) : Nat → List (List Int) → Except PyErr (List Int × Builder)
  | 0, bl => match bl with
    | [x] => .ok (x, b)
    | _ => .error .runtimeError         -- out of fuel: unreachable with fuel = length
  | fuel + 1, bl =>
    match bl with
    | [x] => .ok (x, b)
    | _ =>
      let mid := bl.length / 2
      match popPairs b sat [] ((bl.take mid).zip (bl.drop mid)) with
      | .ok (vl, b1) => popLayer b1 sat fuel vl
      | .error e => .error e

/-- Smallest `p` with `n ≤ 2^p` — what `math.ceil(math.log(n, 2))` is for
    every list length the correspondence run can reach (checked up to 2^20). -/
def clog2 (n : Nat) : Nat :=
  go n 0 n
where
  go (n p : Nat) : Nat → Nat
    | 0 => p
    | fuel + 1 => if n ≤ 2 ^ p then p else go n (p + 1) fuel

/-- `pop_count(in_list, saturate_at)`; result most significant first. -/
def popCount (b : Builder) (xs : List Int) (sat : Nat) : Except PyErr (List Int × Builder) :=
  if xs.isEmpty then .error .valueError else
  let p := clog2 xs.length
  let (aux, b1) := b.freshN (2 ^ p - xs.length)
  let b2 := b1.zeroOut aux
  let bl := (xs ++ aux.map (fun (v : Nat) => (v : Int))).map (fun x => [x])
  popLayer b2 sat bl.length bl

/-- `int_to_binary(k)` for `k ≥ 0`: most significant first, `true` for `1`. -/
def intToBinaryLsb : Nat → Nat → List Bool
  | 0, _ => []
  | fuel + 1, k => if k = 0 then [] else (k % 2 = 1) :: intToBinaryLsb fuel (k / 2)

def intToBinary (k : Nat) : List Bool := (intToBinaryLsb k k).reverse

def signed (v : Bool) (l : Int) : Int := if v then l else -l

/-- The contradiction the repaired code emits for an impossible request. -/
def contradiction (b : Builder) (x : Int) : Builder :=
  (b.emit (.unit x)).emit (.unit (-x))

/-- `assert_k_of_n(k, in_list)`. -/
def assertKofN (b : Builder) (k : Nat) (xs : List Int) : Except PyErr Builder :=
  match xs with
  | [] => .error .valueError            -- `pop_count` of an empty list
  | x0 :: _ =>
    if k > xs.length then .ok (contradiction b x0) else
    let inBin := intToBinary k
    match popCount b xs (inBin.length + 1) with
    | .error e => .error e
    | .ok (sumBits, b1) =>
      -- `in_binary` reversed, cut to the width of the sum, padded with -1, reversed back
      let lsb := inBin.reverse.take sumBits.length
      let padded := (lsb ++ List.replicate (sumBits.length - lsb.length) false).reverse
      let assertion := (padded.zip sumBits).map (fun (v, sb) => signed v sb)
      .ok (assertion.foldl (fun b l => b.emit (.unit l)) b1)

/-- `_make_same_length(xs, ys)` returning the two (new) lists. -/
def makeSameLength (b : Builder) (xs ys : List Int) : (List Int × List Int) × Builder :=
  if xs.length = ys.length then ((xs, ys), b)
  else if xs.length < ys.length then
    let (pad, b1) := b.freshN (ys.length - xs.length + 1)
    let b2 := b1.zeroOut pad
    let (one, b3) := b2.freshN 1
    let b4 := b3.zeroOut one
    ((pad.map (fun (v : Nat) => (v : Int)) ++ xs, one.map (fun (v : Nat) => (v : Int)) ++ ys), b4)
  else
    let (pad, b1) := b.freshN (xs.length - ys.length + 1)
    let b2 := b1.zeroOut pad
    let (one, b3) := b2.freshN 1
    let b4 := b3.zeroOut one
    ((one.map (fun (v : Nat) => (v : Int)) ++ xs, pad.map (fun (v : Nat) => (v : Int)) ++ ys), b4)

/-- `_convert_to_negative_twos_complement(bits)`; result most significant first. -/
def negTwosComplement (b : Builder) (bits : List Int) : Except PyErr (List Int × Builder) :=
  let (flipped, b1) := b.freshN bits.length
  let b2 := (flipped.zip bits).foldl (fun b (f, x) => b.emit (.notg f x)) b1
  let (ones, b3) := b2.freshN bits.length
  match ones.reverse with
  | [] => .error .indexError           -- `one_vars[-1]` of an empty list
  | last :: initRev =>
    let b4 := b3.zeroOut initRev.reverse
    let b5 := b4.emit (.const last true)
    let ((_, ss), b6) := rippleCarry b5 (flipped.map (fun (v : Nat) => (v : Int))) (ones.map (fun (v : Nat) => (v : Int)))
    .ok (ss.reverse, b6)

/-- `_inequality_assertion(assert_less_than, k, in_list)`. -/
def inequalityAssertion (b : Builder) (lt : Bool) (k : Nat) (xs : List Int) : Except PyErr Builder :=
  match xs with
  | [] => .error .valueError
  | x0 :: _ =>
    if lt && k > xs.length then .ok b
    else if !lt && k ≥ xs.length then .ok (contradiction b x0)
    else
    let inBin := intToBinary k
    match popCount b xs (inBin.length + 1) with
    | .error e => .error e
    | .ok (sumBits, b1) =>
      let (kVars, b2) := b1.freshN inBin.length
      let b3 := (kVars.zip inBin).foldl (fun b (kv, v) => b.emit (.const kv v)) b2
      let ((kVars', sumBits'), b4) := makeSameLength b3 (kVars.map (fun (v : Nat) => (v : Int))) sumBits
      let (kbs, nbs) := if lt then (sumBits', kVars') else (kVars', sumBits')
      match negTwosComplement b4 nbs with
      | .error e => .error e
      | .ok (neg, b5) =>
        let ((_, ss), b6) := rippleCarry b5 kbs neg
        match ss.reverse with
        | [] => .error .indexError       -- `ss[-1]`
        | top :: _ => .ok (b6.emit (.unit top))

end Builder

/-- A cardinality request (`GenerationRequest` / `LowLevelRequest`). -/
inductive Rel where | eq | lt | gt
  deriving Repr, DecidableEq, Inhabited

structure Request where
  rel : Rel
  k : Nat
  vars : List Int
  deriving Repr, Inhabited

/-- What a request means for an assignment of its variables. -/
def Request.holds (r : Request) (τ : Assign) : Bool :=
  let c := (r.vars.filter (litVal τ)).length
  match r.rel with
  | .eq => c == r.k
  | .lt => c < r.k
  | .gt => c > r.k

def Builder.applyRequest (b : Builder) (r : Request) : Except PyErr Builder :=
  match r.rel with
  | .eq => b.assertKofN r.k r.vars
  | .lt => b.inequalityAssertion true r.k r.vars
  | .gt => b.inequalityAssertion false r.k r.vars

def Builder.applyRequests (b : Builder) : List Request → Except PyErr Builder
  | [] => .ok b
  | r :: rs => match b.applyRequest r with
    | .ok b1 => b1.applyRequests rs
    | .error e => .error e

/-- `combine_cnf_with_requests(initial_cnf, fresh, _, requests)`: the clause
    list (`_vals` order) of `fresh_cnf + initial_cnf`. -/
def combineCnfWithRequests (initial : List Clause) (fresh : Nat) (reqs : List Request) :
    Except PyErr (List Clause) :=
  match (Builder.fromFresh fresh).applyRequests reqs with
  | .ok b => .ok (b.vals ++ initial)
  | .error e => .error e

end SPModel
