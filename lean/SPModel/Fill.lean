/-
  L9b — model of RandomGen's derived fill-in: `UCSolutionEnumerator._fill_in_derived`
  with `DerivedFactor.select_level_for_sample` and `DerivedLevel._trial_arguments`.
  For one derived factor and the trials `start ≤ i < stop`: a trial the factor
  applies to (its own trial number is `i // sustain + 1`) receives the *first*
  level whose predicate accepts the window arguments read at `i, i - sustain,
  i - 2·sustain, …` (`None` before trial 0); other trials receive `None`;
  no accepting level raises RuntimeError.  Levels are given by their truth tables
  (`Design`), keyed like `Spec.windowKey`.
-/
import SPModel.Spec
import SPModel.Layout

namespace SPModel.Fill
open SPModel

/-- the table key of the arguments `_trial_arguments(sample, i, sustain)` builds: per window factor, per position
    `j` of the window, the level at trial `i - (width-1-j)·sustain`, `None` when that index is negative -/
def windowKeyS (d : Design) (w : WindowD) (look : Nat → Nat → Option Nat) (i s : Nat) : Nat :=
  w.deps.foldl (fun acc dep =>
    (List.range w.width).foldl (fun acc j =>
      let back := (w.width - 1 - j) * s
      let v : Option Nat := if back ≤ i then look dep (i - back) else none
      acc * (Spec.numLevels d dep + 1) + (match v with | none => 0 | some l => l + 1)) acc) 0

def tableAt (f : FactorD) (l key : Nat) : Bool :=
  ((f.levels[l]?).map (fun lv => lv.table.getD key false)).getD false

/-- `select_level_for_sample(i, sample, sustain)`: the first level whose predicate accepts the arguments -/
def selectLevel (d : Design) (f : FactorD) (w : WindowD) (look : Nat → Nat → Option Nat) (i s : Nat) :
    Except PyErr Nat :=
  match (List.range f.levels.length).find? (fun l => tableAt f l (windowKeyS d w look i s)) with
  | some l => .ok l
  | none => .error .runtimeError

/-- one entry of `_fill_in_derived` -/
def fillEntry (d : Design) (id : Nat) (lf : Layout.LFactor) (look : Nat → Nat → Option Nat) (i : Nat) :
    Except PyErr (Option Nat) :=
  let f := d.factor id
  match f.window with
  | none => .ok none
  | some w =>
    if Layout.applies lf (i / lf.sustain + 1) then (selectLevel d f w look i lf.sustain).map some
    else .ok none

/-- `_fill_in_derived(run, [factor], start, stop)`: the entries of trials `start ≤ i < stop` -/
def fillColumn (d : Design) (id : Nat) (lf : Layout.LFactor) (look : Nat → Nat → Option Nat) (start stop : Nat) :
    Except PyErr (List (Option Nat)) :=
  (List.range (stop - start)).mapM (fun u => fillEntry d id lf look (start + u))

end SPModel.Fill
