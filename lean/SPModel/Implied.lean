/-
  L9 — model of `Block.add_implied_levels` for one implied derived factor: the column of
  level names appended to a decoded experiment for a derived factor that the solver never
  saw (not crossed, not mentioned by a constraint).  Levels are given by their truth tables
  (`Design`), the window key is the one of the reference semantics (`Spec.windowKey`), the
  applicability of the factor (start / stride as the code computed them) and the sustain
  count are data read from the block.
-/
import SPModel.Spec
import SPModel.Layout

namespace SPModel.Implied
open SPModel

/-- The entries `add_implied_levels` appends for factor `id` over `n` trials: for a trial the factor applies to, one
    entry per level whose predicate accepts the window that ends at the first trial of the sustained group; `''`
    (`none`) for a trial it does not apply to. -/
def column (d : Design) (id n : Nat) (lf : Layout.LFactor) (look : Nat → Nat → Option Nat) : List (Option Nat) :=
  let f := d.factor id
  match f.window with
  | none => []
  | some w =>
    (List.range n).flatMap (fun i =>
      if Layout.applies lf (i / lf.sustain + 1) then
        (Spec.matching d f w look ((i / lf.sustain) * lf.sustain)).map some
      else [none])

end SPModel.Implied
