-- Root of the proof library. Property theorems are under SPProofs/Properties.
import SPProofs.Card.Sem
import SPProofs.Card.Lemmas
import SPProofs.Properties.C12
import SPProofs.Properties.C10
import SPProofs.Logic.Lemmas
import SPProofs.Properties.C11
import SPProofs.Comb.Lemmas
import SPProofs.Properties.C13
import SPProofs.Text.Lemmas
import SPProofs.Properties.C27
import SPProofs.Properties.C28
import SPProofs.Properties.C14
import SPProofs.Properties.C09
import SPProofs.Properties.C20
import SPProofs.Properties.C21
import SPProofs.Properties.C22
import SPProofs.Properties.C01
