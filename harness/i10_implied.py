"""Interface I10: `Block.add_implied_levels` (the post-processing that fills in derived factors the solver never saw)
vs `SPModel.Implied.column`.

For generated designs with implied derived factors the harness invents an experiment for the active design (random
levels on the trials each factor applies to, constant within sustained groups), lets the real block fill in the
implied factors, and compares every implied column with the model, entry by entry."""
from sweetpea._internal.primitive import DerivedFactor

from . import oracles_design as OD
from .designs import quiet


def _lfactor(blk, f):
    if isinstance(f, DerivedFactor):
        w = f.first_level.window
        start, stride = w.start, w.stride
    else:
        start, stride = 0, 1
    return {"nlevels": len(f.levels), "complex": bool(f.has_complex_window), "start": start, "stride": stride,
            "sustain": blk.sustain_count(f)}


def corr_implied(ctx):
    d = ctx.drv()
    rng = ctx.rng
    ctx.rules.append("I10: Block.add_implied_levels on invented experiments of the active design (random levels, '' where "
                     "a factor does not apply) vs SPModel.Implied.column for every implied derived factor, entry by entry")
    def maybe_implied(desc):
        crossed = set(x for cr in OD._crossings(desc["block"]) for x in cr)
        return any(f["window"] is not None and f["id"] not in crossed for f in desc["factors"])
    for case in OD.gen_cases(ctx, 10 if not ctx.big() else 80, prefer=maybe_implied):
        blk = case.fresh_block()
        act = list(blk.act_design)
        implied = [f for f in blk.design if f not in act]
        if not implied:
            continue
        by_name = {f["name"]: f for f in case.desc["factors"]}
        if any(str(f.name) not in by_name for f in blk.design):
            ctx.count("I10.skip-desugared")
            continue
        n = blk.trials_per_sample()
        for _ in range(3):
            results = {}
            for f in act:
                sc = blk.sustain_count(f)
                col, cur = [], None
                for i in range(n):
                    if i % sc == 0:
                        cur = rng.choice(list(f.levels)).name if f.applies_to_trial(i // sc + 1) else ""
                    col.append(cur)
                results[f.name] = col
            try:
                out = quiet(blk.add_implied_levels, {k: list(v) for k, v in results.items()})
            except Exception as e:  # noqa: BLE001  (e.g. a predicate meeting '' of a complex dependency: region F19)
                ctx.count("I10.python-raises:" + type(e).__name__)
                continue

            def to_col(f, col):
                names = [l.name for l in f.levels]
                return [None if x == "" else names.index(x) for x in col]
            cols = {by_name[str(f.name)]["id"]: to_col(f, results[f.name]) for f in act}
            # columns are handed to the model once their dependencies' columns are known (an implied factor may be
            # listed in the design before an implied factor it reads)
            todo, in_order = list(implied), []
            have = set(cols)
            while todo:
                ready = [f for f in todo if set(by_name[str(f.name)]["window"]["deps"]) <= have] or todo[:1]
                in_order += ready
                have |= {by_name[str(f.name)]["id"] for f in ready}
                todo = [f for f in todo if f not in ready]
            for f in in_order:
                fid = by_name[str(f.name)]["id"]
                req = {"op": "implied", "design": case.desc, "id": fid, "n": n, "lfactor": _lfactor(blk, f),
                       "cols": [[k, v] for k, v in sorted(cols.items())]}
                py = {"ok": to_col(f, out[f.name])}
                le = d.ask(req)
                ctx.count("I10.column")
                if f.has_complex_window:
                    ctx.count("I10.complex")
                ctx.case("I10:" + str(hash(str(req))))
                if py != le:
                    ctx.corr_break("I10.implied", {k: req[k] for k in ("id", "n", "lfactor", "cols")},
                                   OD.sample_desc(case), {"python": str(py)[:400], "lean": str(le)[:400]})
                    if len(ctx.corr_breaks) > 3:
                        return
                    break
                cols[fid] = py["ok"]
